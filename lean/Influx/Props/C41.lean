/-
  Props.C41 — Flux window-aggregate tables have the right windows and values.

  Subject: `Influx.Model.FluxTable` (written from storage/flux as repaired by
  fixes/C41-window-tables.patch, compared with the real reader on every run) on top of the
  C20 cursor model.
-/
import Influx.Lemmas.FluxTableEmpty

namespace Influx.Props.C41
open Influx.WindowAgg Influx.FluxTable Influx.Spec.C41
open Influx.Window (Window Bounds)

/-- number of windows from index `i` on that start before the query stop -/
def countFrom (q : Req) (i : Int) : Nat :=
  if q.offset + i * q.every ≥ q.bstop then 0
  else ((q.bstop - 1 - (q.offset + i * q.every)) / q.every + 1).toNat

theorem countFrom_succ (q : Req) (h : 0 < q.every) (i : Int) (hlt : q.offset + i * q.every < q.bstop) :
    countFrom q i = countFrom q (i + 1) + 1 := by
  unfold countFrom
  have hne : q.every ≠ 0 := by omega
  rw [if_neg (by omega)]
  have hexp : q.offset + (i + 1) * q.every = q.offset + i * q.every + q.every := by
    rw [Int.add_mul]; omega
  rw [hexp]
  generalize q.offset + i * q.every = s at *
  have hd : (q.bstop - 1 - s) / q.every = (q.bstop - 1 - (s + q.every)) / q.every + 1 := by
    have : q.bstop - 1 - s = (q.bstop - 1 - (s + q.every)) + q.every * 1 := by omega
    rw [this, Int.add_mul_ediv_left _ _ hne]
  have hnn : 0 ≤ (q.bstop - 1 - s) / q.every := Int.ediv_nonneg (by omega) (by omega)
  by_cases hge : s + q.every ≥ q.bstop
  · rw [if_pos hge]
    have : (q.bstop - 1 - s) / q.every = 0 := Int.ediv_eq_zero_of_lt (by omega) (by omega)
    rw [this]; rfl
  · rw [if_neg hge]
    have hnn' : 0 ≤ (q.bstop - 1 - (s + q.every)) / q.every := Int.ediv_nonneg (by omega) (by omega)
    rw [hd]; omega

/-- **createEmpty: one row per window inside the bounds.**  The loop of
    `createNextBufferTimes` produces, from window `i` on, exactly the windows that start
    before the query stop, each clipped to the bounds, in order, and leaves `windowBounds`
    just behind them — for any amount of fuel that suffices. -/
theorem enumWindows_spec (q : Req) (h : 0 < q.every) (hb : q.bstart < q.bstop) :
    ∀ (fuel : Nat) (i : Int), countFrom q i ≤ fuel →
      enumWindows q fuel i = ((intRange i (countFrom q i)).map (clipped q), i + countFrom q i) := by
  intro fuel
  induction fuel with
  | zero =>
    intro i hf
    have : countFrom q i = 0 := by omega
    simp [enumWindows, this, intRange]
  | succ n ih =>
    intro i hf
    unfold enumWindows
    rw [clip_eq]
    by_cases hge : q.offset + i * q.every ≥ q.bstop
    · have hc : (clipped q i).1 ≥ q.bstop := by
        simp only [clipped]; omega
      have h0 : countFrom q i = 0 := by simp [countFrom, hge]
      simp [hc, h0, intRange]
    · have hc : ¬ (clipped q i).1 ≥ q.bstop := by
        simp only [clipped]; omega
      have hs := countFrom_succ q h i (by omega)
      simp only [hc, ↓reduceIte]
      rw [ih (i + 1) (by omega), hs]
      simp only [intRange, List.map_cons, Prod.mk.injEq, true_and]
      omega

/-- …and these are the windows the statement asks for: `widx bstart … widx (bstop-1)`. -/
theorem countFrom_first (q : Req) (h : 0 < q.every) (hb : q.bstart < q.bstop) :
    (countFrom q (widx q q.bstart) : Int) = widx q (q.bstop - 1) - widx q q.bstart + 1 := by
  have hs := widx_spec q h q.bstart
  unfold countFrom
  rw [if_neg (by omega)]
  have hne : q.every ≠ 0 := by omega
  have hd : (q.bstop - 1 - (q.offset + widx q q.bstart * q.every)) / q.every
      = widx q (q.bstop - 1) - widx q q.bstart := by
    simp only [widx]
    generalize (q.bstart - q.offset) / q.every = l
    have : q.bstop - 1 - (q.offset + l * q.every) = (q.bstop - 1 - q.offset) + q.every * (-l) := by
      rw [Int.mul_neg, Int.mul_comm]; omega
    rw [this, Int.add_mul_ediv_left _ _ hne]; omega
  have hnn : 0 ≤ (q.bstop - 1 - (q.offset + widx q q.bstart * q.every)) / q.every :=
    Int.ediv_nonneg (by omega) (by omega)
  rw [hd] at hnn ⊢
  omega

/-- `createNextBufferTimes` with createEmpty, started (as `new…WindowTable` does) at the window
    of the query start: exactly the windows of the statement. -/
theorem C41_createEmpty_windows (q : Req) (h : 0 < q.every) (hb : q.bstart < q.bstop)
    (hce : emptiesRequired q = true) (pts : List (Pt Val)) (fuel : Nat)
    (hf : countFrom q (widx q q.bstart) ≤ fuel) :
    (enumWindows q fuel (q.win.getLatestBounds q.bstart).index).1 = (windows q pts).map (clipped q) := by
  rw [glb_index q h, enumWindows_spec q h hb fuel _ hf]
  simp only [windows, hce, ↓reduceIte]
  have := countFrom_first q h hb
  congr 2
  omega

/-- **Selector tables (no empty windows): rows ↔ selected points.**  Every point the storage
    cursor selected becomes one row carrying the point's window clipped to the bounds and the
    point's value; without a time column `_time` is the point's own time, with one it is the
    clipped window start (stop) and `_start/_stop` are the query bounds. -/
theorem C41_selector_rows (q : Req) (h : 0 < q.every) (arr : List (Pt Val)) :
    selectorRows q arr = arr.map fun p =>
      let c := clipped q (widx q p.1)
      match q.timeCol with
      | .start => ⟨q.bstart, q.bstop, .val c.1, some p.2⟩
      | .stop => ⟨q.bstart, q.bstop, .val c.2, some p.2⟩
      | .none => ⟨c.1, c.2, .val p.1, some p.2⟩ := by
  unfold selectorRows
  apply List.map_congr_left
  intro p _
  rw [glb_eq_at q h, clip_eq]
  rfl

/-- every window counted by `countFrom` starts before the query stop -/
theorem start_lt_of_counted (q : Req) (h : 0 < q.every) :
    ∀ (n : Nat) (i k : Int), countFrom q i = n → i ≤ k → k < i + n → q.offset + k * q.every < q.bstop := by
  intro n
  induction n with
  | zero => intro i k _ h1 h2; omega
  | succ m ih =>
    intro i k hc h1 h2
    by_cases hge : q.offset + i * q.every ≥ q.bstop
    · simp [countFrom, hge] at hc
    · have hs := countFrom_succ q h i (by omega)
      by_cases hk : k = i
      · subst hk; omega
      · exact ih (i + 1) k (by omega) (by omega) (by omega)

/-- **Window tables without createEmpty: rows ↔ cursor points.**  Every value the storage cursor
    returns (an aggregate stamped with its window's stop, or — ForceAggregate — a selected point)
    becomes exactly one row, in order, carrying its own window clipped to the bounds and that
    value; no row is null, none is lost, whatever the array boundaries of the cursor. -/
theorem C41_window_rows (q : Req) (h : 0 < q.every) (hce : q.createEmpty = false) (isAgg : Bool)
    (fill : Option Val) (wb : Int) (arrs : List (List (Pt Val)))
    (hne : ∀ a ∈ arrs, a ≠ []) (hw : ∀ a ∈ arrs, ∀ p ∈ a, WellPlaced q isAgg p.1)
    (fuel : Nat) (hf : arrs.length < fuel) :
    (drainBuffers (advanceW q isAgg fill) fuel ⟨[], [], arrs, wb⟩).flatten =
      arrs.flatten.map fun p => mkRow q fill (clipped q (pointWin q isAgg p.1)) (some p.2) := by
  rw [drainW_own q h hce isAgg fill wb arrs [] fuel hne hw hf]
  simp [List.map_flatten]

/-- **Window tables with createEmpty: rows ↔ windows.**  If the cursor returns one value per
    non-empty window, in window order, all inside the bounds, the table consists of one buffer
    with one row for every window `widx bstart … widx (bstop-1)`: the window clipped to the
    bounds and the cursor's value for that window, or null (the fill value 0 for count) if the
    cursor has none — whatever the array boundaries of the cursor. -/
theorem C41_createEmpty_rows (q : Req) (h : 0 < q.every) (hb : q.bstart < q.bstop) (hce : q.createEmpty = true)
    (isAgg : Bool) (fill : Option Val) (arrs : List (List (Pt Val)))
    (hne : ∀ a ∈ arrs, a ≠ []) (harr : arrs ≠ [])
    (hw : ∀ p ∈ arrs.flatten, WellPlaced q isAgg p.1)
    (hinc : arrs.flatten.Pairwise (fun a b => pointWin q isAgg a.1 < pointWin q isAgg b.1))
    (hrange : ∀ p ∈ arrs.flatten, widx q q.bstart ≤ pointWin q isAgg p.1 ∧
      pointWin q isAgg p.1 < widx q q.bstart + countFrom q (widx q q.bstart))
    (fuel : Nat) (hf : 1 ≤ fuel) :
    drainBuffers (advanceW q isAgg fill) fuel ⟨[], [], arrs, (q.win.getLatestBounds q.bstart).index⟩ =
      [(intRange (widx q q.bstart) (countFrom q (widx q q.bstart))).map fun k =>
        mkRow q fill (clipped q k) (valueAt q isAgg arrs.flatten k)] := by
  obtain ⟨fuel', rfl⟩ : ∃ m, fuel = m + 1 := ⟨fuel - 1, by omega⟩
  rw [glb_index q h]
  generalize hi0 : widx q q.bstart = i0 at *
  generalize hn : countFrom q i0 = n at *
  cases arrs with
  | nil => exact absurd rfl harr
  | cons a r =>
    have ha : a ≠ [] := hne a (by simp)
    have hr : NoEmpty r := fun x hx => hne x (by simp [hx])
    have hae : a.isEmpty = false := by cases a with | nil => exact absurd rfl ha | cons => rfl
    have hstart : ¬ (q.win.at i0).start ≥ q.bstop := by
      have := widx_spec q h q.bstart
      rw [hi0] at this
      rw [at_start]; omega
    have hfuel : countFrom q i0 ≤ windowFuel q i0 := by
      rw [hn]
      have hn' := hn
      unfold countFrom at hn'
      rw [at_start] at hstart
      rw [if_neg hstart] at hn'
      unfold windowFuel
      rw [at_start, ← hn']
      have := Int.ediv_le_ediv h (show q.bstop - 1 - (q.offset + i0 * q.every) ≤ q.bstop - (q.offset + i0 * q.every) by omega)
      omega
    have henum := enumWindows_spec q h hb (windowFuel q i0) i0 hfuel
    rw [hn] at henum
    -- first buffer
    have hwin : ∀ k, i0 ≤ k → k < i0 + n → q.offset + k * q.every < q.bstop :=
      fun k h1 h2 => start_lt_of_counted q h n i0 k hn h1 h2
    have halign := mergeL_align q h isAgg n i0 (a ++ r.flatten)
      (by simpa using hw) (by simpa using hinc) (fun p hp => (hrange p (by simpa using hp)).1) hwin
    have hfilter : (a ++ r.flatten).filter (fun p => decide (i0 + n ≤ pointWin q isAgg p.1)) = [] := by
      rw [List.filter_eq_nil_iff]
      intro p hp
      have := (hrange p (by simpa using hp)).2
      simp; omega
    rw [hfilter] at halign
    have habs := mergeValues_abs q isAgg ((intRange i0 n).map fun k => (clipped q k).2) ⟨a, a, r, i0 + n⟩ hr
    simp only [WState.remaining] at habs
    rw [halign] at habs
    have hrem := congrArg Prod.fst habs.1
    have hvals := congrArg Prod.snd habs.1
    simp only at hrem hvals
    -- the state after the merge has nothing left
    generalize hs3 : mergeValues q isAgg ⟨a, a, r, i0 + n⟩ ((intRange i0 n).map fun k => (clipped q k).2) = res at *
    obtain ⟨s3, vs⟩ := res
    simp only at hrem hvals habs
    have hcur : s3.cur = [] := (List.append_eq_nil_iff.mp hrem).1
    have hrest : s3.rest = [] := by
      have hfl := (List.append_eq_nil_iff.mp hrem).2
      cases hr3 : s3.rest with
      | nil => rfl
      | cons x xs =>
        have hx : x ≠ [] := habs.2 x (by simp [hr3])
        rw [hr3] at hfl
        simp at hfl
        exact absurd hfl.1 hx
    have hadv : advanceW q isAgg fill ⟨[], [], a :: r, i0⟩ =
        some (s3, (intRange i0 n).map fun k => mkRow q fill (clipped q k) (valueAt q isAgg (a ++ r.flatten) k)) := by
      unfold advanceW
      simp only [nextBuffer, List.isEmpty_nil, Bool.not_true, Bool.false_eq_true, ↓reduceIte, hae, hce, hstart, henum]
      rw [List.map_map]
      simp only [Function.comp_def]
      rw [hs3]
      simp only [Option.some.injEq, Prod.mk.injEq, true_and]
      rw [hvals, zip_map_same, List.map_map]
      rfl
    simp only [drainBuffers, hadv, List.flatten_cons]
    -- second advance: nothing left to read
    have hnone : advanceW q isAgg fill s3 = none := by
      unfold advanceW
      simp [nextBuffer, hcur, hrest]
    cases fuel' with
    | zero => simp [drainBuffers]
    | succ m => simp [drainBuffers, hnone]

-- non-vacuity / sanity of the model on a concrete request: every 10, bounds [5,38), mean, createEmpty, time = _stop
example : seriesTables 1000 ⟨.mean, 10, 3, 5, 38, true, .stop, false⟩ [[(23, .f 2), (33, .f 3)]]
    = [⟨5, 38, [⟨5, 38, .val 13, none⟩, ⟨5, 38, .val 23, some (.f 2)⟩, ⟨5, 38, .val 33, some (.f 3)⟩,
                ⟨5, 38, .val 38, none⟩]⟩] := by decide

end Influx.Props.C41
