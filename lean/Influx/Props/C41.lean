/-
  Props.C41 — Flux window-aggregate tables have the right windows and values.

  Subject: `Influx.Model.FluxTable` (written from storage/flux as repaired by
  fixes/C41-a-selector-as-aggregate-window.patch + fixes/C41-b-empty-windows-after-last-point.patch, compared with the real reader on every run) on top of the
  C20 cursor model.
-/
import Influx.Lemmas.FluxTableCompose
import Influx.Props.C20

namespace Influx.Props.C41
open Influx.WindowAgg Influx.FluxTable Influx.Spec.C41
open Influx.Window (Window Bounds)

/-- number of windows from index `i` on that start before the query stop -/
def countFrom (q : Req) (i : Int) : Nat :=
  if q.offset + i * q.every ≥ q.bstop then 0
  else ((q.bstop - 1 - (q.offset + i * q.every)) / q.every + 1).toNat

theorem countFrom_succ (q : Req) (h : 0 < q.every) (i : Int) (hlt : q.offset + i * q.every < q.bstop) :
    countFrom q i = countFrom q (i + 1) + 1 := by
  unfold countFrom
  have hne : q.every ≠ 0 := by omega
  rw [if_neg (by omega)]
  have hexp : q.offset + (i + 1) * q.every = q.offset + i * q.every + q.every := by
    rw [Int.add_mul]; omega
  rw [hexp]
  generalize q.offset + i * q.every = s at *
  have hd : (q.bstop - 1 - s) / q.every = (q.bstop - 1 - (s + q.every)) / q.every + 1 := by
    have : q.bstop - 1 - s = (q.bstop - 1 - (s + q.every)) + q.every * 1 := by omega
    rw [this, Int.add_mul_ediv_left _ _ hne]
  have hnn : 0 ≤ (q.bstop - 1 - s) / q.every := Int.ediv_nonneg (by omega) (by omega)
  by_cases hge : s + q.every ≥ q.bstop
  · rw [if_pos hge]
    have : (q.bstop - 1 - s) / q.every = 0 := Int.ediv_eq_zero_of_lt (by omega) (by omega)
    rw [this]; rfl
  · rw [if_neg hge]
    have hnn' : 0 ≤ (q.bstop - 1 - (s + q.every)) / q.every := Int.ediv_nonneg (by omega) (by omega)
    rw [hd]; omega

/-- **createEmpty: one row per window inside the bounds.**  The loop of
    `createNextBufferTimes` produces, from window `i` on, exactly the windows that start
    before the query stop, each clipped to the bounds, in order, and leaves `windowBounds`
    just behind them — for any amount of fuel that suffices. -/
theorem enumWindows_spec (q : Req) (h : 0 < q.every) (hb : q.bstart < q.bstop) :
    ∀ (fuel : Nat) (i : Int), countFrom q i ≤ fuel →
      enumWindows q fuel i = ((intRange i (countFrom q i)).map (clipped q), i + countFrom q i) := by
  intro fuel
  induction fuel with
  | zero =>
    intro i hf
    have : countFrom q i = 0 := by omega
    simp [enumWindows, this, intRange]
  | succ n ih =>
    intro i hf
    unfold enumWindows
    rw [clip_eq]
    by_cases hge : q.offset + i * q.every ≥ q.bstop
    · have hc : (clipped q i).1 ≥ q.bstop := by
        simp only [clipped]; omega
      have h0 : countFrom q i = 0 := by simp [countFrom, hge]
      simp [hc, h0, intRange]
    · have hc : ¬ (clipped q i).1 ≥ q.bstop := by
        simp only [clipped]; omega
      have hs := countFrom_succ q h i (by omega)
      simp only [hc, ↓reduceIte]
      rw [ih (i + 1) (by omega), hs]
      simp only [intRange, List.map_cons, Prod.mk.injEq, true_and]
      omega

/-- …and these are the windows the statement asks for: `widx bstart … widx (bstop-1)`. -/
theorem countFrom_first (q : Req) (h : 0 < q.every) (hb : q.bstart < q.bstop) :
    (countFrom q (widx q q.bstart) : Int) = widx q (q.bstop - 1) - widx q q.bstart + 1 := by
  have hs := widx_spec q h q.bstart
  unfold countFrom
  rw [if_neg (by omega)]
  have hne : q.every ≠ 0 := by omega
  have hd : (q.bstop - 1 - (q.offset + widx q q.bstart * q.every)) / q.every
      = widx q (q.bstop - 1) - widx q q.bstart := by
    simp only [widx]
    generalize (q.bstart - q.offset) / q.every = l
    have : q.bstop - 1 - (q.offset + l * q.every) = (q.bstop - 1 - q.offset) + q.every * (-l) := by
      rw [Int.mul_neg, Int.mul_comm]; omega
    rw [this, Int.add_mul_ediv_left _ _ hne]; omega
  have hnn : 0 ≤ (q.bstop - 1 - (q.offset + widx q q.bstart * q.every)) / q.every :=
    Int.ediv_nonneg (by omega) (by omega)
  rw [hd] at hnn ⊢
  omega

/-- `createNextBufferTimes` with createEmpty, started (as `new…WindowTable` does) at the window
    of the query start: exactly the windows of the statement. -/
theorem C41_createEmpty_windows (q : Req) (h : 0 < q.every) (hb : q.bstart < q.bstop)
    (hce : emptiesRequired q = true) (pts : List (Pt Val)) (fuel : Nat)
    (hf : countFrom q (widx q q.bstart) ≤ fuel) :
    (enumWindows q fuel (q.win.getLatestBounds q.bstart).index).1 = (windows q pts).map (clipped q) := by
  rw [glb_index q h, enumWindows_spec q h hb fuel _ hf]
  simp only [windows, hce, ↓reduceIte]
  have := countFrom_first q h hb
  congr 2
  omega

/-- **Selector tables (no empty windows): rows ↔ selected points.**  Every point the storage
    cursor selected becomes one row carrying the point's window clipped to the bounds and the
    point's value; without a time column `_time` is the point's own time, with one it is the
    clipped window start (stop) and `_start/_stop` are the query bounds. -/
theorem C41_selector_rows (q : Req) (h : 0 < q.every) (arr : List (Pt Val)) :
    selectorRows q arr = arr.map fun p =>
      let c := clipped q (widx q p.1)
      match q.timeCol with
      | .start => ⟨q.bstart, q.bstop, .val c.1, some p.2⟩
      | .stop => ⟨q.bstart, q.bstop, .val c.2, some p.2⟩
      | .none => ⟨c.1, c.2, .val p.1, some p.2⟩ := by
  unfold selectorRows
  apply List.map_congr_left
  intro p _
  rw [glb_eq_at q h, clip_eq]
  rfl

/-- every window counted by `countFrom` starts before the query stop -/
theorem start_lt_of_counted (q : Req) (h : 0 < q.every) :
    ∀ (n : Nat) (i k : Int), countFrom q i = n → i ≤ k → k < i + n → q.offset + k * q.every < q.bstop := by
  intro n
  induction n with
  | zero => intro i k _ h1 h2; omega
  | succ m ih =>
    intro i k hc h1 h2
    by_cases hge : q.offset + i * q.every ≥ q.bstop
    · simp [countFrom, hge] at hc
    · have hs := countFrom_succ q h i (by omega)
      by_cases hk : k = i
      · subst hk; omega
      · exact ih (i + 1) k (by omega) (by omega) (by omega)

/-- **Window tables without createEmpty: rows ↔ cursor points.**  Every value the storage cursor
    returns (an aggregate stamped with its window's stop, or — ForceAggregate — a selected point)
    becomes exactly one row, in order, carrying its own window clipped to the bounds and that
    value; no row is null, none is lost, whatever the array boundaries of the cursor. -/
theorem C41_window_rows (q : Req) (h : 0 < q.every) (hce : q.createEmpty = false) (isAgg : Bool)
    (fill : Option Val) (wb : Int) (arrs : List (List (Pt Val)))
    (hne : ∀ a ∈ arrs, a ≠ []) (hw : ∀ a ∈ arrs, ∀ p ∈ a, WellPlaced q isAgg p.1)
    (fuel : Nat) (hf : arrs.length < fuel) :
    (drainBuffers (advanceW q isAgg fill) fuel ⟨[], [], arrs, wb⟩).flatten =
      arrs.flatten.map fun p => mkRow q fill (clipped q (pointWin q isAgg p.1)) (some p.2) := by
  rw [drainW_own q h hce isAgg fill wb arrs [] fuel hne hw hf]
  simp [List.map_flatten]

/-- **Window tables with createEmpty: rows ↔ windows.**  If the cursor returns one value per
    non-empty window, in window order, all inside the bounds, the table consists of one buffer
    with one row for every window `widx bstart … widx (bstop-1)`: the window clipped to the
    bounds and the cursor's value for that window, or null (the fill value 0 for count) if the
    cursor has none — whatever the array boundaries of the cursor. -/
theorem C41_createEmpty_rows (q : Req) (h : 0 < q.every) (hb : q.bstart < q.bstop) (hce : q.createEmpty = true)
    (isAgg : Bool) (fill : Option Val) (arrs : List (List (Pt Val)))
    (hne : ∀ a ∈ arrs, a ≠ []) (harr : arrs ≠ [])
    (hw : ∀ p ∈ arrs.flatten, WellPlaced q isAgg p.1)
    (hinc : arrs.flatten.Pairwise (fun a b => pointWin q isAgg a.1 < pointWin q isAgg b.1))
    (hrange : ∀ p ∈ arrs.flatten, widx q q.bstart ≤ pointWin q isAgg p.1 ∧
      pointWin q isAgg p.1 < widx q q.bstart + countFrom q (widx q q.bstart))
    (fuel : Nat) (hf : 1 ≤ fuel) :
    drainBuffers (advanceW q isAgg fill) fuel ⟨[], [], arrs, (q.win.getLatestBounds q.bstart).index⟩ =
      [(intRange (widx q q.bstart) (countFrom q (widx q q.bstart))).map fun k =>
        mkRow q fill (clipped q k) (valueAt q isAgg arrs.flatten k)] := by
  obtain ⟨fuel', rfl⟩ : ∃ m, fuel = m + 1 := ⟨fuel - 1, by omega⟩
  rw [glb_index q h]
  generalize hi0 : widx q q.bstart = i0 at *
  generalize hn : countFrom q i0 = n at *
  cases arrs with
  | nil => exact absurd rfl harr
  | cons a r =>
    have ha : a ≠ [] := hne a (by simp)
    have hr : NoEmpty r := fun x hx => hne x (by simp [hx])
    have hae : a.isEmpty = false := by cases a with | nil => exact absurd rfl ha | cons => rfl
    have hstart : ¬ (q.win.at i0).start ≥ q.bstop := by
      have := widx_spec q h q.bstart
      rw [hi0] at this
      rw [at_start]; omega
    have hfuel : countFrom q i0 ≤ windowFuel q i0 := by
      rw [hn]
      have hn' := hn
      unfold countFrom at hn'
      rw [at_start] at hstart
      rw [if_neg hstart] at hn'
      unfold windowFuel
      rw [at_start, ← hn']
      have := Int.ediv_le_ediv h (show q.bstop - 1 - (q.offset + i0 * q.every) ≤ q.bstop - (q.offset + i0 * q.every) by omega)
      omega
    have henum := enumWindows_spec q h hb (windowFuel q i0) i0 hfuel
    rw [hn] at henum
    -- first buffer
    have hwin : ∀ k, i0 ≤ k → k < i0 + n → q.offset + k * q.every < q.bstop :=
      fun k h1 h2 => start_lt_of_counted q h n i0 k hn h1 h2
    have halign := mergeL_align q h isAgg n i0 (a ++ r.flatten)
      (by simpa using hw) (by simpa using hinc) (fun p hp => (hrange p (by simpa using hp)).1) hwin
    have hfilter : (a ++ r.flatten).filter (fun p => decide (i0 + n ≤ pointWin q isAgg p.1)) = [] := by
      rw [List.filter_eq_nil_iff]
      intro p hp
      have := (hrange p (by simpa using hp)).2
      simp; omega
    rw [hfilter] at halign
    have habs := mergeValues_abs q isAgg ((intRange i0 n).map fun k => (clipped q k).2) ⟨a, a, r, i0 + n⟩ hr
    simp only [WState.remaining] at habs
    rw [halign] at habs
    have hrem := congrArg Prod.fst habs.1
    have hvals := congrArg Prod.snd habs.1
    simp only at hrem hvals
    -- the state after the merge has nothing left
    generalize hs3 : mergeValues q isAgg ⟨a, a, r, i0 + n⟩ ((intRange i0 n).map fun k => (clipped q k).2) = res at *
    obtain ⟨s3, vs⟩ := res
    simp only at hrem hvals habs
    have hcur : s3.cur = [] := (List.append_eq_nil_iff.mp hrem).1
    have hrest : s3.rest = [] := by
      have hfl := (List.append_eq_nil_iff.mp hrem).2
      cases hr3 : s3.rest with
      | nil => rfl
      | cons x xs =>
        have hx : x ≠ [] := habs.2 x (by simp [hr3])
        rw [hr3] at hfl
        simp at hfl
        exact absurd hfl.1 hx
    have hadv : advanceW q isAgg fill ⟨[], [], a :: r, i0⟩ =
        some (s3, (intRange i0 n).map fun k => mkRow q fill (clipped q k) (valueAt q isAgg (a ++ r.flatten) k)) := by
      unfold advanceW
      simp only [nextBuffer, List.isEmpty_nil, Bool.not_true, Bool.false_eq_true, ↓reduceIte, hae, hce, hstart, henum]
      rw [List.map_map]
      simp only [Function.comp_def]
      rw [hs3]
      simp only [Option.some.injEq, Prod.mk.injEq, true_and]
      rw [hvals, zip_map_same, List.map_map]
      rfl
    simp only [drainBuffers, hadv, List.flatten_cons]
    -- second advance: nothing left to read
    have hnone : advanceW q isAgg fill s3 = none := by
      unfold advanceW
      simp [nextBuffer, hcur, hrest]
    cases fuel' with
    | zero => simp [drainBuffers]
    | succ m => simp [drainBuffers, hnone]

/-! ### end to end, for the aggregates count / sum / mean without a time column -/

def fillOf (q : Req) : Option Val := if q.agg = .count then some (Val.i 0) else none

theorem seriesTables_nonsel (B : Nat) (q : Req) (hns : isSelector q.agg = false) (htc : q.timeCol = .none)
    (arrs : List (List (Pt Val))) :
    seriesTables B q arrs =
      ((drainBuffers (advanceW q true (fillOf q)) (arrs.flatten.length + 2)
          ⟨[], [], arrs, (q.win.getLatestBounds q.bstart).index⟩).flatten).map fun r => ⟨r.start, r.stop, [r]⟩ := by
  unfold seriesTables fillOf
  simp only [hns, Bool.not_false, Bool.true_or, ↓reduceIte, htc, Bool.false_and]
  cases hbuf : drainBuffers (advanceW q true (if q.agg = Agg.count then some (Val.i 0) else none))
      (arrs.flatten.length + 2) ⟨[], [], arrs, (q.win.getLatestBounds q.bstart).index⟩ with
  | nil => simp
  | cons b bs => simp

theorem mapM_map_some {β γ : Type} (f : β → Option γ) (g : β → γ) (l : List β) (hfg : ∀ x ∈ l, f x = some (g x)) :
    l.mapM f = some (l.map g) := by
  induction l with
  | nil => rfl
  | cons x xs ih =>
    rw [List.mapM_cons, hfg x (by simp), ih (fun y hy => hfg y (by simp [hy]))]
    rfl

theorem logical_single (q : Req) (htc : q.timeCol = .none) (rows : List Row) :
    logical q (rows.map fun r => ⟨r.start, r.stop, [r]⟩) = some (rows.map fun r => ⟨r.start, r.stop, r.time, r.value⟩) := by
  unfold logical
  rw [htc]
  simp only
  rw [List.mapM_map]
  apply mapM_map_some
  intro r _
  simp

theorem zip_map_all' {β γ : Type} (l : List β) (f : β → γ) (P : β × γ → Bool) :
    (l.zip (l.map f)).all P = l.all (fun x => P (x, f x)) := by
  induction l with
  | nil => rfl
  | cons x xs ih => simp [ih]

theorem rowOK_present (o : Ops Val) (q : Req) (hns : isSelector q.agg = false) (pts : List (Pt Val)) (i : Int)
    (hi : i ∈ distinctIdx q pts) :
    rowOK o q pts i ⟨(clipped q i).1, (clipped q i).2, .absent, some (aggVal o q.agg (members q pts i))⟩ = true := by
  have hne := members_nonempty q pts i hi
  unfold rowOK expectedRow
  cases hm : members q pts i with
  | nil => exact absurd hm hne
  | cons x xs =>
    have : (pts.filter fun p => widx q p.1 == i) = x :: xs := hm
    simp [this, aggregate_nonsel o q.agg hns]

theorem rowOK_absent (o : Ops Val) (q : Req) (pts : List (Pt Val)) (i : Int) (hi : i ∉ distinctIdx q pts) :
    rowOK o q pts i ⟨(clipped q i).1, (clipped q i).2, .absent, fillOf q⟩ = true := by
  have hm := members_empty q pts i hi
  have : (pts.filter fun p => widx q p.1 == i) = [] := hm
  unfold rowOK expectedRow fillOf
  simp only [this, Spec.C20.aggregate, decide_true, Bool.true_and]
  by_cases hc : q.agg = .count <;> simp [hc]

theorem length_le_flatten (arrs : List (List (Pt Val))) (hne : ∀ a ∈ arrs, a ≠ []) :
    arrs.length ≤ arrs.flatten.length := by
  induction arrs with
  | nil => simp
  | cons a r ih =>
    have ha : 0 < a.length := List.length_pos_iff.mpr (hne a (by simp))
    have := ih (fun x hx => hne x (by simp [hx]))
    simp only [List.length_cons, List.flatten_cons, List.length_append]; omega

/-- **C41 on the model, end to end** (partial: the aggregates count, sum, mean; no time column;
    both with and without empty windows).  If the storage cursor returns — in arrays cut anywhere —
    what C20 proves it returns (the grouped aggregate of the raw points of the series inside
    the bounds), then the tables of the reader pass the statement checker: one table per
    non-empty window (per window inside the bounds with createEmpty), keyed by the window
    clipped to the bounds, holding the aggregate of that window's raw rows, null (0 for count)
    for an empty window. -/
theorem C41_holdsOn_partial (B : Nat) (o : Ops Val) (q : Req) (h : 0 < q.every) (hb : q.bstart < q.bstop)
    (hns : isSelector q.agg = false) (htc : q.timeCol = .none)
    (pts : List (Pt Val)) (hpts : pts ≠ []) (hs : Sorted pts)
    (hin : ∀ p ∈ pts, q.bstart ≤ p.1 ∧ p.1 < q.bstop)
    (arrs : List (List (Pt Val))) (hne : ∀ a ∈ arrs, a ≠ [])
    (hcur : arrs.flatten = Spec.C20.aggSpec o q.agg (stopFn q) pts) :
    holdsOn o ⟨q, pts, some (seriesTables B q arrs)⟩ = true := by
  rw [out_nonsel o q h hns] at hcur
  have hasc := distinctIdx_ascending q h pts hs
  -- every distinct window has a raw row inside the bounds
  have hmemW : ∀ i ∈ distinctIdx q pts, ∃ x ∈ pts, widx q x.1 = i := fun i hi => (mem_distinctIdx q pts i).mp hi
  have hplaced : ∀ p ∈ arrs.flatten, WellPlaced q true p.1 := by
    intro p hp
    rw [hcur] at hp
    obtain ⟨i, hi, rfl⟩ := List.mem_map.mp hp
    obtain ⟨x, hx, hxi⟩ := hmemW i hi
    have hsx := widx_spec q h x.1
    rw [hxi] at hsx
    simp only [WellPlaced, ↓reduceIte]
    exact ⟨i, rfl, by have := (hin x hx).2; omega⟩
  have hpe : pts.isEmpty = false := by cases pts with | nil => exact absurd rfl hpts | cons => rfl
  rw [seriesTables_nonsel B q hns htc]
  unfold holdsOn
  simp only [hpe, Bool.false_eq_true, ↓reduceIte]
  rw [logical_single q htc]
  simp only
  by_cases hce : q.createEmpty = true
  · -- one row per window inside the bounds
    have harr : arrs ≠ [] := by
      intro he
      rw [he] at hcur
      simp only [List.flatten_nil] at hcur
      have := congrArg List.length hcur
      simp only [List.length_nil, List.length_map] at this
      cases hp : pts with
      | nil => exact hpts hp
      | cons x xs =>
        have hx : widx q x.1 ∈ distinctIdx q pts := (mem_distinctIdx q pts _).mpr ⟨x, by simp [hp], rfl⟩
        cases hd : distinctIdx q pts with
        | nil => rw [hd] at hx; cases hx
        | cons => rw [hd] at this; simp at this
    have hinc : arrs.flatten.Pairwise (fun a b => pointWin q true a.1 < pointWin q true b.1) := by
      rw [hcur, List.pairwise_map]
      refine hasc.imp ?_
      intro a b hab
      simp only [pointWin_stop q h]; exact hab
    have hrange : ∀ p ∈ arrs.flatten, widx q q.bstart ≤ pointWin q true p.1 ∧
        pointWin q true p.1 < widx q q.bstart + countFrom q (widx q q.bstart) := by
      intro p hp
      rw [hcur] at hp
      obtain ⟨i, hi, rfl⟩ := List.mem_map.mp hp
      obtain ⟨x, hx, hxi⟩ := hmemW i hi
      have hbx := widx_bounds q h hb x.1 (hin x hx).1 (hin x hx).2
      have hc := countFrom_first q h hb
      rw [pointWin_stop q h, ← hxi]
      omega
    rw [C41_createEmpty_rows q h hb hce true (fillOf q) arrs hne harr hplaced hinc hrange _ (by omega)]
    simp only [List.flatten_cons, List.flatten_nil, List.append_nil, List.map_map]
    have hwin : windows q pts = intRange (widx q q.bstart) (countFrom q (widx q q.bstart)) := by
      have he : emptiesRequired q = true := by simp [emptiesRequired, hce, hns]
      simp only [windows, he, ↓reduceIte]
      congr 1
      have := countFrom_first q h hb
      omega
    rw [hwin]
    simp only [List.length_map, beq_self_eq_true, Bool.true_and]
    rw [zip_map_all', List.all_eq_true]
    intro k _
    simp only [Function.comp_def, mkRow, htc, hcur]
    rw [valueAt_out q h (fun i => aggVal o q.agg (members q pts i))]
    by_cases hk : k ∈ distinctIdx q pts
    · simp only [hk, ↓reduceIte]
      exact rowOK_present o q hns pts k hk
    · simp only [hk, ↓reduceIte]
      exact rowOK_absent o q pts k hk
  · -- one row per non-empty window
    have hce' : q.createEmpty = false := by simpa using hce
    have hplaced' : ∀ a ∈ arrs, ∀ p ∈ a, WellPlaced q true p.1 :=
      fun a ha p hp => hplaced p (List.mem_flatten.mpr ⟨a, ha, hp⟩)
    have hlen := length_le_flatten arrs hne
    rw [C41_window_rows q h hce' true (fillOf q) _ arrs hne hplaced' _ (by omega), hcur]
    have hwin : windows q pts = distinctIdx q pts := by
      have he : emptiesRequired q = false := by simp [emptiesRequired, hce']
      simp [windows, he]
    rw [hwin]
    simp only [List.map_map, List.length_map, beq_self_eq_true, Bool.true_and]
    rw [zip_map_all', List.all_eq_true]
    intro i hi
    simp only [Function.comp_def, mkRow, htc, pointWin_stop q h]
    exact rowOK_present o q hns pts i hi

/-- **C41 on the model, cursor included**: the storage cursor of the C20 model under the
    reader's tables.  For every cutting of the series' points (time-ordered, inside the bounds)
    into non-empty arrays and every block size, the cursor terminates and the tables built from
    its arrays pass the statement checker (count / sum / mean, no time column). -/
theorem C41_holdsOn_model_partial (B : Nat) (hB : 1 ≤ B) (o : Ops Val) (q : Req) (h : 0 < q.every) (hb : q.bstart < q.bstop)
    (hns : isSelector q.agg = false) (htc : q.timeCol = .none)
    (chunks : List (List (Pt Val))) (hne : ∀ c ∈ chunks, c ≠ []) (hpts : chunks.flatten ≠ [])
    (hs : Sorted chunks.flatten) (hin : ∀ p ∈ chunks.flatten, q.bstart ≤ p.1 ∧ p.1 < q.bstop)
    (fuel : Nat) (hfuel : chunks.flatten.length < fuel) :
    ∃ arrs, drain (Cursor.next B o (Win.ofWindow q.win)) fuel (Cursor.new q.agg (Win.ofWindow q.win) chunks) = some arrs ∧
      holdsOn o ⟨q, chunks.flatten, some (seriesTables B q arrs)⟩ = true := by
  have hfold : Influx.Props.C20.IsFold q.agg := by
    unfold Influx.Props.C20.IsFold
    cases hq : q.agg <;> simp_all [isSelector]
  obtain ⟨arrs, h1, h2, h3⟩ := Influx.Props.C20.C20_fold B hB o q.agg hfold (Win.ofWindow q.win)
    (Win.ofWindow_OK q.every q.offset h) chunks hne hs fuel hfuel
  refine ⟨arrs, h1, ?_⟩
  have hstop : (Win.ofWindow q.win).stop = stopFn q := Influx.Props.C20.ofWindow_stop q.every q.offset h
  rw [hstop] at h2
  exact C41_holdsOn_partial B o q h hb hns htc chunks.flatten hpts hs hin arrs h3 h2

-- non-vacuity / sanity of the model on a concrete request: every 10, bounds [5,38), mean, createEmpty, time = _stop
example : seriesTables 1000 ⟨.mean, 10, 3, 5, 38, true, .stop, false⟩ [[(23, .f 2), (33, .f 3)]]
    = [⟨5, 38, [⟨5, 38, .val 13, none⟩, ⟨5, 38, .val 23, some (.f 2)⟩, ⟨5, 38, .val 33, some (.f 3)⟩,
                ⟨5, 38, .val 38, none⟩]⟩] := by decide

end Influx.Props.C41
