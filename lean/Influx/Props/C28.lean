/-
  Props.C28 — Permissions grant exactly what they name.
  The function under proof is `Influx.Generated.Authz.matchesV1`, regenerated
  from `/repo/authz.go` by the translator on every run.
-/
import Influx.Generated.Authz
import Influx.Spec.C28

namespace Influx.Props.C28
open Influx Influx.Generated.Authz Influx.Spec.C28

/-- Exact characterisation of the code's decision (stronger than the property:
    an *iff*, and "never panics"). -/
def exact (p r : Permission) : Bool :=
  p.Action == r.Action &&
    (p.Resource.Type_ == InstanceResourceType ||
      (p.Resource.Type_ == r.Resource.Type_ &&
        ((p.Resource.OrgID.isNone && p.Resource.ID.isNone) ||
         (p.Resource.OrgID.isSome && p.Resource.ID.isNone && p.Resource.OrgID == r.Resource.OrgID) ||
         (p.Resource.ID.isSome && p.Resource.ID == r.Resource.ID))))

theorem matchesV1_exact (p r : Permission) : matchesV1 p r = some (exact p r) := by
  obtain ⟨pa, pt, pid, porg⟩ := p
  obtain ⟨ra, rt, rid, rorg⟩ := r
  unfold matchesV1 exact
  rcases Decidable.em (pa = ra) with rfl | ha <;> rcases Decidable.em (pt = rt) with rfl | ht <;>
    by_cases hi : pt = InstanceResourceType <;>
    rcases pid with _ | i <;> rcases rid with _ | j <;> rcases porg with _ | o <;> rcases rorg with _ | o' <;>
    (try by_cases h1 : i = j) <;> (try by_cases h2 : o = o') <;>
    simp [*, bne, Go.eq, Go.ne, Go.ite_some]

/-- `Permission.Matches` never panics. -/
theorem Matches_total (p r : Permission) : (Matches p r).isSome := by
  simp [Matches, matchesV1_exact]

/-- **C28** (the property statement): a grant is always justified. -/
theorem C28 (p r : Permission) (h : Matches p r = some true) : Justified p r := by
  simp only [Matches, matchesV1_exact, Option.some.injEq] at h
  obtain ⟨pa, pt, pid, porg⟩ := p
  obtain ⟨ra, rt, rid, rorg⟩ := r
  simp only [exact, InstanceResourceType] at h
  simp only [Justified, instanceWide, typeWide, orgScoped, namesID]
  cases pid <;> cases rid <;> cases porg <;> cases rorg <;> simp_all <;>
    grind

/-- The run-time oracle accepts everything the model answers, for all inputs. -/
theorem C28_holdsOn (p r : Permission) : holdsOn ⟨p, r, Matches p r⟩ = true := by
  unfold holdsOn
  split
  · next h => have := Matches_total p r; simp_all
  · next h => exact decide_eq_true (C28 p r h)
  · rfl

/-- Read never implies write (nor any action another one). -/
theorem C28_action (p r : Permission) (h : p.Action ≠ r.Action) : Matches p r = some false := by
  simp [Matches, matchesV1_exact, exact, h]

/-- An organization-scoped permission (no resource id) never grants a request
    on another organization's resource — unless it is instance-wide. -/
theorem C28_other_org (p r : Permission) (o o' : PID)
    (hp : p.Resource.OrgID = some o) (hid : p.Resource.ID = none)
    (hr : r.Resource.OrgID = some o') (hne : o ≠ o')
    (hinst : p.Resource.Type_ ≠ InstanceResourceType) :
    Matches p r = some false := by
  simp [Matches, matchesV1_exact, exact, hp, hid, hr, hne, hinst]

/-- A request without an organization is never granted by an org-scoped permission. -/
theorem C28_no_org (p r : Permission) (o : PID)
    (hp : p.Resource.OrgID = some o) (hid : p.Resource.ID = none)
    (hr : r.Resource.OrgID = none)
    (hinst : p.Resource.Type_ ≠ InstanceResourceType) :
    Matches p r = some false := by
  simp [Matches, matchesV1_exact, exact, hp, hid, hr, hinst]

/-- Converse (not required by the property, proved for the model): every
    justified request is granted — so `Justified` is exactly the code's decision. -/
theorem C28_complete (p r : Permission) (h : Justified p r) : Matches p r = some true := by
  simp only [Matches, matchesV1_exact, Option.some.injEq]
  obtain ⟨pa, pt, pid, porg⟩ := p
  obtain ⟨ra, rt, rid, rorg⟩ := r
  simp only [Justified, instanceWide, typeWide, orgScoped, namesID] at h
  simp only [exact, InstanceResourceType]
  cases pid <;> cases rid <;> cases porg <;> cases rorg <;> simp_all <;> grind

-- non-vacuity: the hypotheses are met by concrete, non-trivial values
example : Matches ⟨"read", ⟨"buckets", none, some 1⟩⟩ ⟨"read", ⟨"buckets", some 7, some 1⟩⟩ = some true := by decide
example : Matches ⟨"read", ⟨"buckets", none, some 1⟩⟩ ⟨"read", ⟨"buckets", some 7, some 2⟩⟩ = some false := by decide

end Influx.Props.C28
