/-
  Props.C33 — Health and readiness endpoints report the true aggregate state.

  Sequential theorems are about `ready false` / `health false` of Model/Check.lean
  (HealthReadyHandler.writeReady / writeHealth over Check.evaluate with the
  repaired aggregation); the concurrent theorems about the interleaving model
  `CSt.run` are in the second half.
-/
import Influx.Lemmas.Check
import Influx.Lemmas.CheckConc
import Influx.Lemmas.CheckLin

namespace Influx.Props.C33
open Influx.CheckM Influx.Spec.C33

theorem overall_pass_of_all_pass (rs : List Res) (h : ∀ r ∈ rs, r.status = pass) : overall rs = pass := by
  unfold overall
  suffices ∀ o, o = pass → rs.foldl (fun o r => if r.status ≠ pass ∧ o ≠ fail then r.status else o) o = pass from
    this pass rfl
  induction rs with
  | nil => intro o ho; simpa using ho
  | cons r rs ih =>
    intro o ho
    simp only [List.foldl_cons]
    apply ih (fun x hx => h x (List.mem_cons_of_mem _ hx))
    simp [h r (List.mem_cons_self), ho]

theorem filter_fail_eq (rs : List Res) :
    rs.filter (fun r => decide (r.status = fail)) = rs.filter (fun r => r.status == fail) := by
  congr 1


theorem ready_of_fail (s : St) (ho : overall (answers s.ready) = fail) :
    ready false s = ⟨503, "starting", failingChecks (sortRes (answers s.ready))⟩ := by
  simp only [answers] at ho
  simp [ready, evaluate, ho, answers, Influx.Generated.CheckConsts.statusStarting]
theorem ready_of_not_fail (s : St) (ho : overall (answers s.ready) ≠ fail) :
    ready false s = ⟨200, "ready", []⟩ := by
  simp only [answers] at ho
  simp [ready, evaluate, ho, Influx.Generated.CheckConsts.statusReady]
theorem health_of_fail (s : St) (ho : overall (answers s.health) = fail) :
    health false s = ⟨503, fail, firstFailureMessage (sortRes (answers s.health)), sortRes (answers s.health)⟩ := by
  simp only [answers] at ho
  simp [health, evaluate, ho, answers]
theorem health_of_not_fail (s : St) (ho : overall (answers s.health) ≠ fail) :
    health false s = ⟨200, overall (answers s.health), "healthy", sortRes (answers s.health)⟩ := by
  simp only [answers] at ho
  simp [health, evaluate, ho, answers, Influx.Generated.CheckConsts.messageHealthy]

theorem overall_answers_fail (cs : List Cell) (h : ∃ c ∈ cs, c.res.status = fail) : overall (answers cs) = fail := by
  rw [overall_fail_iff]
  obtain ⟨c, hc, hs⟩ := h
  exact ⟨c.res, List.mem_map_of_mem hc, hs⟩
theorem overall_answers_pass (cs : List Cell) (h : ∀ c ∈ cs, c.res.status = pass) : overall (answers cs) = pass := by
  apply overall_pass_of_all_pass
  intro r hr
  obtain ⟨c, hc, rfl⟩ := List.mem_map.1 hr
  exact h c hc

/-- **/ready, failing side**: if some registered ready check answers "fail", /ready is 503
    and its body lists exactly the failing checks (each once, with its current message). -/
theorem C33_ready_503 (s : St) (h : ∃ c ∈ s.ready, c.res.status = fail) :
    (ready false s).code = 503 ∧ (ready false s).status = "starting" ∧
    (ready false s).checks.Perm ((answers s.ready).filter (·.status == fail)) := by
  rw [ready_of_fail s (overall_answers_fail _ h)]
  refine ⟨rfl, rfl, ?_⟩
  show (failingChecks _).Perm _
  unfold failingChecks
  rw [filter_fail_eq]
  exact (sortRes_perm _).filter _

/-- **/ready, passing side**: if every registered ready check answers "pass", /ready is 200
    "ready" with no checks listed. -/
theorem C33_ready_200 (s : St) (h : ∀ c ∈ s.ready, c.res.status = pass) :
    (ready false s).code = 200 ∧ (ready false s).status = "ready" ∧ (ready false s).checks = [] := by
  rw [ready_of_not_fail s (by rw [overall_answers_pass _ h]; exact pass_ne_fail)]
  exact ⟨rfl, rfl, rfl⟩

/-- **/ready = 200 ↔ all gates ready** — for checks that answer one of the two
    declared statuses (every ReadyGate does). -/
theorem C33_ready_200_iff (s : St)
    (hpf : ∀ c ∈ s.ready, c.res.status = pass ∨ c.res.status = fail) :
    (ready false s).code = 200 ↔ ∀ c ∈ s.ready, c.res.status = pass := by
  constructor
  · intro h c hc
    rcases hpf c hc with hp | hf
    · exact hp
    · have := (C33_ready_503 s ⟨c, hc, hf⟩).1
      rw [this] at h; cases h
  · intro h; exact (C33_ready_200 s h).1

/-- **/health, failing side**: if some health check answers "fail", /health is 503, reports
    every registered check, and its message is the message of the first failing check in
    the reported order ("fail" if that check has none). -/
theorem C33_health_503 (s : St) (h : ∃ c ∈ s.health, c.res.status = fail) :
    (health false s).code = 503 ∧ (health false s).status = fail ∧
    (health false s).checks.Perm (answers s.health) ∧
    firstFailing (health false s).checks = some (health false s).message := by
  rw [health_of_fail s (overall_answers_fail _ h)]
  refine ⟨rfl, rfl, sortRes_perm _, ?_⟩
  apply firstFailing_eq
  obtain ⟨c, hc, hs⟩ := h
  exact ⟨c.res, (sortRes_perm _).mem_iff.2 (List.mem_map_of_mem hc), hs⟩

/-- **/health, passing side**. -/
theorem C33_health_200 (s : St) (h : ∀ c ∈ s.health, c.res.status = pass) :
    (health false s).code = 200 ∧ (health false s).status = pass ∧ (health false s).message = "healthy" ∧
    (health false s).checks.Perm (answers s.health) := by
  have hp := overall_answers_pass _ h
  rw [health_of_not_fail s (by rw [hp]; exact pass_ne_fail), hp]
  exact ⟨rfl, rfl, rfl, sortRes_perm _⟩

theorem C33_health_200_iff (s : St)
    (hpf : ∀ c ∈ s.health, c.res.status = pass ∨ c.res.status = fail) :
    (health false s).code = 200 ↔ ∀ c ∈ s.health, c.res.status = pass := by
  constructor
  · intro h c hc
    rcases hpf c hc with hp | hf
    · exact hp
    · have := (C33_health_503 s ⟨c, hc, hf⟩).1
      rw [this] at h; cases h
  · intro h; exact (C33_health_200 s h).1

/-- /health always reports exactly the registered checks with their current answers -/
theorem C33_health_reports_all (s : St) : (health false s).checks.Perm (answers s.health) := by
  by_cases ho : overall (answers s.health) = fail
  · rw [health_of_fail s ho]; exact sortRes_perm _
  · rw [health_of_not_fail s ho]; exact sortRes_perm _
/-- what the model answers to an op, as an observation -/
def obsOfModel (s : St) : Op → Obs
  | .ready => .ready ⟨(ready false s).code, (ready false s).checks⟩
  | .health => .health ⟨(health false s).code, (health false s).message, (health false s).checks⟩
  | .names => .names s.readyNames
  -- the requests issued while `err.Error()` is being rendered see the logger untouched
  -- (in the code's order nothing has been stored yet); the one after sees both stores
  | .finishRace k m n =>
    let s' := (s.apply (.finishRace k m n)).getD s
    .race (List.replicate n ⟨(ready false s).code, (ready false s).checks⟩)
      ⟨(ready false s').code, (ready false s').checks⟩
  | _ => .other

/-- the model run on a sequence of ops -/
def trace (s : St) : List Op → List (Op × Obs)
  | [] => []
  | op :: ops => (op, obsOfModel s op) :: trace ((s.apply op).getD s) ops

theorem allPass_iff (cs : List Cell) : allPass (answers cs) = true ↔ ∀ c ∈ cs, c.res.status = pass := by
  simp [allPass, answers]
theorem anyFail_iff (cs : List Cell) : anyFail (answers cs) = true ↔ ∃ c ∈ cs, c.res.status = fail := by
  simp [anyFail, answers]

theorem readyOK_model (s : St) :
    readyOK (answers s.ready) ⟨(ready false s).code, (ready false s).checks⟩ = true := by
  unfold readyOK
  rw [Bool.and_eq_true]
  constructor
  · by_cases h : allPass (answers s.ready) = true
    · obtain ⟨h1, -, h3⟩ := C33_ready_200 s ((allPass_iff _).1 h)
      simp [h, h1, h3]
    · simp [h]
  · by_cases h : anyFail (answers s.ready) = true
    · obtain ⟨h1, -, h3⟩ := C33_ready_503 s ((anyFail_iff _).1 h)
      simp only [h, Bool.not_true, h1, beq_self_eq_true, Bool.true_and, Bool.false_or]
      exact List.isPerm_iff.2 h3
    · simp [h]

theorem healthOK_model (s : St) :
    healthOK (answers s.health) ⟨(health false s).code, (health false s).message, (health false s).checks⟩ = true := by
  unfold healthOK
  rw [Bool.and_eq_true, Bool.and_eq_true]
  refine ⟨⟨List.isPerm_iff.2 (C33_health_reports_all s), ?_⟩, ?_⟩
  · by_cases h : allPass (answers s.health) = true
    · obtain ⟨h1, -, -, -⟩ := C33_health_200 s ((allPass_iff _).1 h)
      simp [h, h1]
    · simp [h]
  · by_cases h : anyFail (answers s.health) = true
    · obtain ⟨h1, -, -, h4⟩ := C33_health_503 s ((anyFail_iff _).1 h)
      simp [h, h1, h4]
    · simp [h]

theorem Cell.signal_name {c c' : Cell} {b : Bool} (h : c.signal b = some c') : c'.res.name = c.res.name := by
  unfold Cell.signal at h
  split at h
  · injection h with h; subst h; cases b <;> rfl
  · cases h

theorem Cell.set_name {c c' : Cell} {st m} (h : c.set st m = some c') : c'.res.name = c.res.name := by
  unfold Cell.set at h
  split at h
  · injection h with h; subst h; rfl
  · next stale _ => injection h with h; subst h; cases stale <;> rfl
  · cases h

theorem updAt_names {l l' : List Cell} {i : Nat} {f : Cell → Option Cell}
    (hf : ∀ c c', f c = some c' → c'.res.name = c.res.name) (h : updAt l i f = some l') :
    l'.map (·.res.name) = l.map (·.res.name) := by
  unfold updAt at h
  cases hi : l[i]? with
  | none => simp [hi] at h
  | some c =>
    simp only [hi, Option.map_eq_some_iff] at h
    obtain ⟨c', hc', rfl⟩ := h
    rw [List.map_set, hf c c' hc']
    have := List.getElem?_eq_some_iff.1 hi
    obtain ⟨hlt, hget⟩ := this
    apply List.ext_getElem
    · simp
    · intro j h1 h2
      simp only [List.getElem_set, List.length_map, List.getElem_map]
      split
      · next hij => subst hij; rw [hget]
      · rfl

/-- the names of the registered ready checks, in registration order -/
def readyN (s : St) : List String := s.ready.map (·.res.name)

/-- ReadyCheckNames stays the list of registered ready names, and every startup
    logger's ReadyChecker sits where the logger remembers it, under its name -/
def namesOK (s : St) : Prop :=
  s.readyNames = readyN s ∧ ∀ u ∈ s.startups, (readyN s)[u.readyIdx]? = some u.name

theorem Startup.readyRes_name (u : Startup) : u.readyRes.name = u.name := by
  unfold Startup.readyRes
  split
  · split <;> rfl
  · split <;> rfl

theorem Startup.apply_name (u : Startup) (ev : StartupEv) :
    (u.apply ev).name = u.name ∧ (u.apply ev).readyIdx = u.readyIdx := by
  cases ev with
  | finish e => cases e <;> exact ⟨rfl, rfl⟩
  | _ => exact ⟨rfl, rfl⟩

theorem getElem?_append_some {α} (l e : List α) (i : Nat) (x : α) (h : l[i]? = some x) :
    (l ++ e)[i]? = some x := by
  have := (List.getElem?_eq_some_iff.1 h).1
  rw [List.getElem?_append_left this]; exact h

theorem set_self {α} (l : List α) (i : Nat) (x : α) (h : l[i]? = some x) : l.set i x = l := by
  apply List.ext_getElem?
  intro j
  rw [List.getElem?_set]
  split
  · next hij => subst hij; split <;> simp_all
  · rfl

theorem namesOK_startupApply (s s' : St) (k : Nat) (ev : StartupEv) (hn : namesOK s)
    (h : s.startupApply k ev = some s') : namesOK s' := by
  obtain ⟨hn1, hn2⟩ := hn
  unfold namesOK readyN at *
  unfold St.startupApply at h
  cases hk : s.startups[k]? with
  | none => simp [hk] at h
  | some u =>
    simp only [hk, Option.some.injEq] at h
    subst h
    have hu : u ∈ s.startups := List.mem_of_getElem? hk
    have hidx := hn2 u hu
    obtain ⟨ha1, ha2⟩ := Startup.apply_name u ev
    have hset : (s.ready.set u.readyIdx ⟨Kind.startup, (u.apply ev).readyRes⟩).map (·.res.name)
        = s.ready.map (·.res.name) := by
      rw [List.map_set, Startup.readyRes_name, ha1]
      exact set_self _ _ _ hidx
    simp only
    refine ⟨by rw [hn1, hset], fun v hv => ?_⟩
    rw [hset]
    rcases List.mem_or_eq_of_mem_set hv with hv | rfl
    · exact hn2 v hv
    · rw [ha1, ha2]; exact hidx

theorem namesOK_apply (s s' : St) (op : Op) (hn : namesOK s) (h : s.apply op = some s') : namesOK s' := by
  obtain ⟨hn1, hn2⟩ := hn
  unfold namesOK readyN at *
  cases op <;> simp only [St.apply, Option.some.injEq, Option.map_eq_some_iff] at h
  case regGate n =>
    subst h
    refine ⟨by simp [St.addReady, hn1, newGate], fun u hu => ?_⟩
    simpa [St.addReady] using getElem?_append_some _ [(newGate n).res.name] _ _ (hn2 u hu)
  case regReady n st m =>
    subst h
    refine ⟨by simp [St.addReady, hn1, newPlain], fun u hu => ?_⟩
    simpa [St.addReady] using getElem?_append_some _ [(newPlain n st m).res.name] _ _ (hn2 u hu)
  case regHealth n st m => subst h; exact ⟨by simpa [St.addHealth] using hn1, by simpa [St.addHealth] using hn2⟩
  case regFresh n st => subst h; exact ⟨by simpa [St.addHealth] using hn1, by simpa [St.addHealth] using hn2⟩
  case signal i b =>
    obtain ⟨l, hl, rfl⟩ := h
    have := updAt_names (fun c c' hc => Cell.signal_name hc) hl
    simp only
    exact ⟨by rw [hn1, this], by rw [this]; exact hn2⟩
  case setReady i st m =>
    obtain ⟨l, hl, rfl⟩ := h
    have := updAt_names (fun c c' hc => by
      split at hc
      · exact Cell.set_name hc
      · cases hc) hl
    simp only
    exact ⟨by rw [hn1, this], by rw [this]; exact hn2⟩
  case setHealth i st m =>
    obtain ⟨l, hl, rfl⟩ := h
    exact ⟨by simpa using hn1, by simpa using hn2⟩
  case regStartup n =>
    subst h
    refine ⟨by simp [St.addReady, St.addHealth, hn1], fun u hu => ?_⟩
    simp only [St.addReady, St.addHealth, List.mem_append, List.mem_singleton] at hu
    simp only [St.addReady, St.addHealth, List.map_append, List.map_cons, List.map_nil]
    rcases hu with hu | rfl
    · exact getElem?_append_some _ _ _ _ (hn2 u hu)
    · simp [Startup.readyRes_name]
  case startupEv k ev => exact namesOK_startupApply s s' k ev ⟨hn1, hn2⟩ h
  case finishRace k m n => exact namesOK_startupApply s s' k _ ⟨hn1, hn2⟩ h
  all_goals (subst h; exact ⟨hn1, hn2⟩)

/-- **C33 (sequential)** — the run-time statement checker accepts what the model
    answers on every sequence of registrations, signals, answer changes and requests. -/
theorem C33_holdsOn (s : St) (ops : List Op) (hn : namesOK s) : holdsOn s (trace s ops) = true := by
  induction ops generalizing s with
  | nil => rfl
  | cons op ops ih =>
    simp only [trace, holdsOn, Bool.and_eq_true]
    constructor
    · cases op <;> simp only [obsOfModel]
      case ready => exact readyOK_model s
      case health => exact healthOK_model s
      case names => simp only [answers, List.map_map, beq_iff_eq]; exact hn.1
      case finishRace k m n =>
        simp only [Bool.and_eq_true, List.all_eq_true, Bool.or_eq_true]
        refine ⟨fun o ho => ?_, readyOK_model _⟩
        rw [List.eq_of_mem_replicate ho]
        exact Or.inl (readyOK_model s)
    · apply ih
      cases h : s.apply op with
      | none => simpa using hn
      | some s' => simpa using namesOK_apply s s' op hn h

/-- the witness state: a failing check registered before one whose status is the zero value -/
def maskedSt : St := { health := [newPlain "db" fail "down", newPlain "remote" "" ""],
                       ready := [newGate "engine", newPlain "remote" "warn" ""] }

/-- **Finding (code before the repair)**: `overall = s` lets the *last* non-pass status
    win, so a failing check followed by a check whose status is neither "pass" nor "fail"
    is masked: /health answers 200 "healthy" and /ready answers 200 "ready" although a
    health check fails and a gate is not ready. -/
theorem old_code_masks_failure :
    (∃ c ∈ maskedSt.health, c.res.status = fail) ∧ (health true maskedSt).code = 200 ∧
    (∃ c ∈ maskedSt.ready, c.res.status = fail) ∧ (ready true maskedSt).code = 200 := by
  refine ⟨⟨_, List.mem_cons_self, rfl⟩, by decide, ⟨_, List.mem_cons_self, rfl⟩, by decide⟩

/-- … and the repaired code answers 503 on the same state. -/
theorem repaired_code_reports_failure :
    (health false maskedSt).code = 503 ∧ (health false maskedSt).message = "down" ∧
    (ready false maskedSt).code = 503 := by
  decide

/-- a startup logger whose ReadyChecker does not pass -/
def notReady (u : Startup) : Prop := u.readyRes.status = fail

/-- **Finish(err) never lets the gate pass** — `Finish(err)` is two atomic stores, the
    failure message first and `done` second (the order the code has).  For a logger that
    is not ready, the ReadyChecker fails before the call, *between the two stores*, and
    after the call: no interleaving of a /ready evaluation with `Finish(err)` can report
    the startup gate as passing. -/
theorem C33_finish_err_never_passes (u : Startup) (m : String) (h : notReady u) :
    (u.finishMsg m).readyRes.status = fail ∧ ((u.finishMsg m).finishDone).readyRes.status = fail := by
  unfold notReady at h
  unfold Startup.readyRes at h ⊢
  simp only [Startup.finishMsg, Startup.finishDone]
  constructor
  · by_cases hd : u.done = true
    · simp [hd]
    · by_cases ht : u.total = 0 <;> simp [hd, ht]
  · simp

/-- … whereas with the stores in the other order (`done` first, the seeded change
    /verif/seeded/C33-a) the state between them is `done` without a failure message and the
    ReadyChecker of a logger that was never ready passes: the witness. -/
theorem finish_done_first_passes :
    ∃ u : Startup, notReady u ∧ u.finishDone.readyRes.status = pass :=
  ⟨{ name := "shards", readyIdx := 0, healthIdx := 0 }, by unfold notReady; decide, by decide⟩

/-- at the level of the endpoint: while `Finish(err)` is in flight on a logger that is not
    ready — at either intermediate point — and afterwards, /ready answers 503 -/
theorem C33_ready_503_during_finish_err (s : St) (c : Cell) (hc : c ∈ s.ready)
    (hs : c.res.status = fail) : (ready false s).code = 503 :=
  (C33_ready_503 s ⟨c, hc, hs⟩).1

/-- **C33 (sequential), from a fresh handler** — no hypothesis left. -/
theorem C33_holdsOn_fresh (ops : List Op) : holdsOn {} (trace {} ops) = true :=
  C33_holdsOn {} ops ⟨rfl, by intro u hu; cases hu⟩

/-! ### concurrent registration, signalling and requests -/

/-- **C33 (concurrent), instant semantics.**  In every interleaving of a request
    with registrations, signals and other requests: the request answers over exactly
    the gates registered at its snapshot instant, and the status it reports for each is
    the gate's value at the instant of the corresponding read (`replay` walks the
    interleaving and takes the values at those instants) — nothing else in the
    interleaving (other requests, later registrations) influences the answer. -/
theorem C33_conc_instant (s : CSt) (rid : Nat) (as : List Act)
    (hfresh : pend s rid = []) (hns : ∀ a ∈ as, a ≠ .reqSnapshot rid)
    (resp : ReadyResp)
    (h : replay rid s.gates (List.range s.gates.length) [] as = some resp) :
    (rid, resp) ∈ (s.run (.reqSnapshot rid :: as)).done := by
  simp only [CSt.run, List.foldl_cons]
  refine replay_sound rid as (s.step (.reqSnapshot rid)) ⟨rid, List.range s.gates.length, []⟩ ?_ hns resp h
  simp only [pend, CSt.step] at hfresh ⊢
  simp [hfresh]

/-- **C33 (concurrent), interval semantics, explicit.**  Whatever the interleaving: if
    the request answers `resp`, then its `reqRespond` sits at some position `c` after the
    snapshot and there are strictly increasing instants `ts`, all between the snapshot
    and `c`, one per snapshotted gate in order, such that `resp` is the aggregate of the
    values the gates registered at the snapshot instant had *at those instants* — each
    gate's reported status is its value at an instant inside the request interval, and the
    set of gates is the one at the snapshot instant. -/
theorem C33_conc_interval (s : CSt) (rid : Nat) (as : List Act)
    (hfresh : pend s rid = []) (hns : ∀ a ∈ as, a ≠ .reqSnapshot rid) (resp : ReadyResp)
    (h : replay rid s.gates (List.range s.gates.length) [] as = some resp) :
    (rid, resp) ∈ (s.run (.reqSnapshot rid :: as)).done ∧
    ∃ (ts : List Nat) (c : Nat), as[c]? = some (.reqRespond rid) ∧
      ts.length ≤ s.gates.length ∧ ts.Pairwise (· < ·) ∧
      (∀ t ∈ ts, t < c ∧ as[t]? = some (.reqRead rid)) ∧
      resp = respond (readAt s.gates as ts (List.range s.gates.length)) := by
  refine ⟨C33_conc_instant s rid as hfresh hns resp h, ?_⟩
  obtain ⟨ts, c, h1, h2, h3, h4, h5⟩ := replay_instants rid as _ _ _ _ h
  exact ⟨ts, c, h1, by simpa using h2, h3, h4, by simpa using h5⟩

/-- **C33 (concurrent), no overlapping signal ⇒ exact aggregate.**  If no registration
    or signal happens between a request's snapshot and its response (other requests may
    interleave freely) the answer is the aggregate of the gates as they were. -/
theorem C33_conc_quiescent (s : CSt) (rid : Nat) (seg rest : List Act)
    (hfresh : pend s rid = [])
    (hm : ∀ a ∈ seg, a.mutates = false)
    (hs : ∀ a ∈ seg ++ .reqRespond rid :: rest, a ≠ .reqSnapshot rid)
    (hr : ∀ a ∈ seg, a ≠ .reqRespond rid)
    (hreads : readsOf rid seg = s.gates.length) :
    (rid, respond (s.gates.map gateRes)) ∈
      (s.run (.reqSnapshot rid :: (seg ++ .reqRespond rid :: rest))).done := by
  apply C33_conc_instant s rid _ hfresh hs
  rw [replay_quiescent rid s.gates seg rest _ [] hm hr (by simpa using hreads)]
  simp [range_filterMap_get]

/-- the aggregate computed by a request is the one the sequential handler computes -/
theorem respond_eq_ready (g : List (String × Bool)) :
    respond (g.map gateRes) = ready false { ready := g.map fun x => ⟨.gate, gateRes x⟩ } := by
  simp only [respond, ready, evaluate, List.map_map, Bool.false_eq_true, ↓reduceIte]
  rfl

/-- what a request answers, in terms of the values it read: 200 exactly when every
    read returned "ready"; otherwise 503 listing exactly the gates read as not ready -/
theorem respond_spec (got : List Res) :
    ((∀ r ∈ got, r.status = pass) → (respond got).code = 200 ∧ (respond got).checks = []) ∧
    ((∃ r ∈ got, r.status = fail) →
      (respond got).code = 503 ∧ (respond got).checks.Perm (got.filter (·.status == fail))) := by
  constructor
  · intro h
    have : overall got ≠ fail := by rw [overall_pass_of_all_pass got h]; exact pass_ne_fail
    simp [respond, this]
  · intro h
    have : overall got = fail := (overall_fail_iff got).2 h
    simp only [respond, this, ↓reduceIte, true_and]
    unfold failingChecks
    rw [filter_fail_eq]
    exact (sortRes_perm _).filter _
/-! ### the concurrent statement checker accepts every linearizable history -/

/-- the request `r` read `v` from gate `g`: `v` is the value of the write to `g` with the
    latest linearization point before the request's read point for `g` -/
def ReadsVal (init : List (String × Bool)) (h : List HOp) (pt : String → W → Nat) (ρ : Nat)
    (g : String) (v : Bool) : Prop :=
  ∃ w ∈ writesOf init h g, w.val = v ∧ pt g w < ρ ∧
    ∀ w' ∈ writesOf init h g, pt g w' < ρ → pt g w' ≤ pt g w

/-- A history is *linearizable* for the gate / request specification: every write
    (initial value, registration, signal) takes effect at one point inside its interval;
    every request takes its snapshot at one point inside its interval and reads every gate
    of the snapshot at one point inside its interval; a gate is in the snapshot iff its
    registration point precedes the snapshot point; the value read is that of the latest
    write before the read point; the answer lists exactly the snapshotted gates read as
    not ready (sorted), with code 200 iff there is none. -/
structure Linearizable (init : List (String × Bool)) (h : List HOp) : Prop where
  lin : ∃ (pt : String → W → Nat) (regPt : String → Nat) (snap : HOp → Nat) (rpt : HOp → String → Nat),
    (∀ g, ∀ w ∈ writesOf init h g, w.inv ≤ pt g w ∧ pt g w ≤ w.res) ∧
    (∀ g ri rr, regOf init h g = some (ri, rr) → ri ≤ regPt g ∧ regPt g ≤ rr) ∧
    (∀ r ∈ h, r.kind = .ready →
      r.inv ≤ snap r ∧ snap r ≤ r.res ∧
      ((r.code = 200 ∧ r.failing = []) ∨ (r.code = 503 ∧ r.failing ≠ [])) ∧
      strictlySorted r.failing = true ∧ (∀ g ∈ r.failing, g ∈ gateNames init h) ∧
      ∀ g ∈ gateNames init h, r.inv ≤ rpt r g ∧ rpt r g ≤ r.res ∧
        (g ∈ r.failing → regPt g < snap r ∧ ReadsVal init h pt (rpt r g) g false) ∧
        (g ∉ r.failing → regPt g < snap r → ReadsVal init h pt (rpt r g) g true))

theorem mayBe_of_reads (init : List (String × Bool)) (h : List HOp) (pt : String → W → Nat)
    (hpt : ∀ g, ∀ w ∈ writesOf init h g, w.inv ≤ pt g w ∧ pt g w ≤ w.res)
    (g : String) (v : Bool) (rinv rres ρ : Nat) (h1 : rinv ≤ ρ) (h2 : ρ ≤ rres)
    (hr : ReadsVal init h pt ρ g v) : mayBe (writesOf init h g) rinv rres v = true := by
  obtain ⟨w, hw, hv, hp, hlast⟩ := hr
  refine mayBe_of _ _ _ _ w hw hv ?_ ?_
  · have := (hpt g w hw).1; omega
  · intro w' hw' hres hlt
    have a1 := (hpt g w' hw').2
    have a2 := (hpt g w' hw').1
    have a3 := (hpt g w hw).2
    have := hlast w' hw' (by omega)
    omega

/-- **soundness of the concurrent statement checker**: it accepts every linearizable
    history — so a `interval-semantics-violated` verdict on a real history means the
    handler's answers cannot be explained by any choice of instants inside the
    operations' intervals. -/
theorem C33_oracle_sound (init : List (String × Bool)) (h : List HOp) (hl : Linearizable init h) :
    holdsOnConc init h = true := by
  obtain ⟨pt, regPt, snap, rpt, hpt, hreg, hreq⟩ := hl.lin
  unfold holdsOnConc
  rw [List.all_eq_true]
  intro r hr
  cases hk : r.kind with
  | reg n => rfl
  | sig n b => rfl
  | ready =>
    obtain ⟨s1, s2, hcode, hsorted, hknown, hgates⟩ := hreq r hr hk
    simp only
    unfold readyOpOK
    simp only [Bool.and_eq_true, List.all_eq_true]
    refine ⟨⟨⟨?_, hsorted⟩, ?_⟩, ?_⟩
    · rcases hcode with ⟨c, f⟩ | ⟨c, f⟩
      · simp [c, f]
      · have : r.failing.isEmpty = false := by cases hf : r.failing <;> simp_all
        simp [c, this]
    · intro g hg
      simpa using hknown g hg
    · intro g hg
      obtain ⟨q1, q2, qf, qt⟩ := hgates g hg
      cases hro : regOf init h g with
      | none => rfl
      | some p =>
        obtain ⟨ri, rr⟩ := p
        obtain ⟨g1, g2⟩ := hreg g ri rr hro
        simp only
        by_cases hc : r.failing.contains g = true
        · have hmem : g ∈ r.failing := by simpa using hc
          obtain ⟨hs, hv⟩ := qf hmem
          rw [if_pos hc]
          simp only [Bool.and_eq_true, Bool.not_eq_true', decide_eq_false_iff_not]
          exact ⟨by omega, mayBe_of_reads init h pt hpt g false r.inv r.res _ q1 q2 hv⟩
        · have hmem : g ∉ r.failing := by simpa using hc
          rw [if_neg hc]
          simp only [Bool.or_eq_true, Bool.not_eq_true', decide_eq_false_iff_not]
          by_cases hlt : rr < r.inv
          · right
            exact mayBe_of_reads init h pt hpt g true r.inv r.res _ q1 q2 (qt hmem (by omega))
          · left; exact hlt
/-- non-vacuity: a history in which gate `a` is signaled ready and a later request
    answers 200 is linearizable (points = invocation stamps) -/
example : Linearizable [("a", false)]
    [⟨.sig "a" true, 1, 2, 0, []⟩, ⟨.ready, 3, 4, 200, []⟩] := by
  refine ⟨fun _ w => w.inv, fun _ => 0, fun r => r.inv, fun r _ => r.inv, ?_, ?_, ?_⟩
  · intro g w hw
    simp only [writesOf, List.filter_cons, List.filter_nil, List.filterMap_cons, List.filterMap_nil] at hw
    by_cases hg : g = "a"
    · subst hg
      simp at hw
      rcases hw with rfl | rfl <;> simp
    · have : ("a" == g) = false := by simp [Ne.symm hg]
      simp [this] at hw
  · intro g ri rr hro
    simp only [regOf] at hro
    by_cases hg : g = "a"
    · subst hg; simp at hro; obtain ⟨rfl, rfl⟩ := hro; simp
    · have : ("a" == g) = false := by simp [Ne.symm hg]
      have e1 : (HKind.sig "a" true == HKind.reg g) = false := by
        apply beq_eq_false_iff_ne.2; intro h; cases h
      have e2 : (HKind.ready == HKind.reg g) = false := by
        apply beq_eq_false_iff_ne.2; intro h; cases h
      simp [this, List.find?, e1, e2] at hro
  · intro r hr hk
    simp only [List.mem_cons, List.not_mem_nil, or_false] at hr
    rcases hr with rfl | rfl
    · simp at hk
    · refine ⟨Nat.le_refl _, by simp, Or.inl ⟨rfl, rfl⟩, rfl, by simp, ?_⟩
      intro g hg
      simp [gateNames] at hg
      subst hg
      refine ⟨Nat.le_refl _, by simp, by simp, ?_⟩
      intro _ _
      refine ⟨⟨1, 2, true⟩, by simp [writesOf], rfl, by simp, ?_⟩
      intro w' hw'
      simp [writesOf] at hw'
      rcases hw' with rfl | rfl <;> simp
end Influx.Props.C33
