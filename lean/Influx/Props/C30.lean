import Influx.Model.Tenant
import Influx.Spec.C30

namespace Influx.Props.C30
end Influx.Props.C30
