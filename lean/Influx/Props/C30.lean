/-
  Props.C30 — Tenant metadata stays unique and internally consistent.

  The model (`Model.Tenant`) is the tenant store of /repo/tenant written out over kv
  buckets as finite maps, with `DeleteOrg` as repaired by
  fixes/C30-delete-org-index-key.patch.  All theorems are about arbitrary operation
  sequences (induction over the sequence; no bound on length, ids or names) and hold
  for every index-key normalisation `orgKey` (nothing about `strings.TrimSpace` is used
  except that the statement checker and the model trim the same way).
-/
import Influx.Lemmas.TenantSpec

namespace Influx.Props.C30
open Influx.Tenant Influx.Tenant.KV Influx.Spec.C30

/-- **C30, as the statement checker states it**: on the trace of the model on ANY operation
    sequence (dumps and lookups anywhere) the checker that is run on the real implementation
    accepts: names unique, every index entry and every API name lookup agrees with the records,
    a deleted organization leaves no bucket or membership, system buckets persist. -/
theorem C30_holdsOn (ops : List Op) : holdsOn (run init ops) = true :=
  scan_run ops rel_init

/-- The invariant behind it holds in every reachable state. -/
theorem C30_invariant (ops : List Op) : Inv (exec init ops) :=
  exec_inv ops init_inv

/-- Organization names are unique — even modulo surrounding white space. -/
theorem C30_org_names_unique (ops : List Op) (i j : Nat) (n m : String)
    (hi : get (exec init ops).orgs i = some n) (hj : get (exec init ops).orgs j = some m)
    (e : orgKey n = orgKey m) : i = j :=
  (C30_invariant ops).org.unique hi hj e

/-- User names are unique. -/
theorem C30_user_names_unique (ops : List Op) (i j : Nat) (n : String)
    (hi : get (exec init ops).users i = some n) (hj : get (exec init ops).users j = some n) : i = j :=
  (C30_invariant ops).user.unique (key := fun n : String => n) hi hj rfl

/-- Bucket names are unique within an organization. -/
theorem C30_bucket_names_unique (ops : List Op) (i j : Nat) (a b : BucketRec)
    (hi : get (exec init ops).bkts i = some a) (hj : get (exec init ops).bkts j = some b)
    (eo : a.org = b.org) (en : a.name = b.name) : i = j :=
  (C30_invariant ops).bkt.unique hi hj (by simp [eo, en])

/-- Every name lookup agrees with the record it indexes (organizations; exact characterisation):
    the lookup of `n` finds `(id, nm)` iff record `id` is named `nm` and `nm` normalises like `n`. -/
theorem C30_lookup_org (ops : List Op) (n nm : String) (id : Nat) :
    findOrg (exec init ops) n = .ok (id, nm) ↔
      get (exec init ops).orgs id = some nm ∧ orgKey nm = orgKey n := by
  have h := C30_invariant ops
  generalize exec init ops = s at h ⊢
  unfold findOrg
  constructor
  · intro hf
    cases hi : get s.orgIdx (orgKey n) with
    | none => rw [hi] at hf; cases hf
    | some i =>
      rw [hi] at hf
      obtain ⟨r, hr, hk⟩ := h.org.sound _ i hi
      simp only [hr, Except.ok.injEq, Prod.mk.injEq] at hf
      obtain ⟨rfl, rfl⟩ := hf
      exact ⟨hr, hk⟩
  · rintro ⟨hr, hk⟩
    have := h.org.complete id nm hr
    rw [hk] at this
    simp [this, hr]

/-- Bucket lookups by (organization, name): exact characterisation. -/
theorem C30_lookup_bucket (ops : List Op) (org : Nat) (n : String) (id : Nat) (b : BucketRec) (ho : org ≠ 0) :
    findBucket (exec init ops) org n = .ok (id, b) ↔
      get (exec init ops).bkts id = some b ∧ b.org = org ∧ b.name = n := by
  have h := C30_invariant ops
  generalize exec init ops = s at h ⊢
  unfold findBucket
  simp only [ho, ↓reduceIte]
  constructor
  · intro hf
    cases hi : get s.bktIdx (org, n) with
    | none => rw [hi] at hf; cases hf
    | some i =>
      rw [hi] at hf
      obtain ⟨r, hr, hk⟩ := h.bkt.sound _ i hi
      simp only [hr, Except.ok.injEq, Prod.mk.injEq] at hf hk
      obtain ⟨rfl, rfl⟩ := hf
      exact ⟨hr, hk.1, hk.2⟩
  · rintro ⟨hr, rfl, rfl⟩
    have := h.bkt.complete id b hr
    simp [this, hr]

/-- User lookups by name: exact characterisation. -/
theorem C30_lookup_user (ops : List Op) (n nm : String) (id : Nat) :
    findUser (exec init ops) n = .ok (id, nm) ↔ get (exec init ops).users id = some nm ∧ nm = n := by
  have h := C30_invariant ops
  generalize exec init ops = s at h ⊢
  unfold findUser
  constructor
  · intro hf
    cases hi : get s.userIdx n with
    | none => rw [hi] at hf; cases hf
    | some i =>
      rw [hi] at hf
      obtain ⟨r, hr, hk⟩ := h.user.sound _ i hi
      simp only [hr, Except.ok.injEq, Prod.mk.injEq] at hf hk
      obtain ⟨rfl, rfl⟩ := hf
      exact ⟨hr, hk⟩
  · rintro ⟨hr, rfl⟩
    have := h.user.complete id nm hr
    simp [this, hr]

/-- Deleting an organization removes its buckets and memberships: after a successful
    `DeleteOrganization org` in any reachable state no bucket record has that organization
    and no user-resource mapping is keyed on it. -/
theorem C30_cascade (ops : List Op) (org r : Nat) (s' : State)
    (h : deleteOrganization (exec init ops) org = (s', .ok r)) :
    (∀ id b, get s'.bkts id = some b → b.org ≠ org) ∧ (∀ u, get s'.urms (org, u) = none) := by
  have := deleteOrganization_cascade (C30_invariant ops) org h
  exact ⟨this.1, fun u => this.2 (org, u) rfl⟩

/-- The state form of the cascade: in every reachable state every bucket belongs to an existing
    organization — no operation sequence leaves an orphan bucket behind. -/
theorem C30_no_orphan_buckets (ops : List Op) (id : Nat) (b : BucketRec)
    (hb : get (exec init ops).bkts id = some b) : ∃ n, get (exec init ops).orgs b.org = some n := by
  have := exec_orphanFree ops init_inv (fun _ _ h => by simp [init] at h) id b hb
  simp only [has_eq, Option.isSome_iff_exists] at this
  exact this

/-- System buckets cannot be deleted or renamed: whatever single operation is applied in a
    reachable state — other than deleting the bucket's organization — a system bucket record
    is still there, unchanged. -/
theorem C30_system (ops : List Op) (op : Op) (id : Nat) (b : BucketRec)
    (hb : get (exec init ops).bkts id = some b) (hs : b.sys = true) (hop : op ≠ .dO b.org) :
    get (step (exec init ops) op).1.bkts id = some b := by
  apply step_system (C30_invariant ops) op hb hs
  cases op <;> simp [isDeleteOrgOf]
  rename_i x; intro c; exact hop (by rw [c])

/-- …and the two direct attempts are refused with an error. -/
theorem C30_system_refused (s : State) (id : Nat) (b : BucketRec) (n : String)
    (hb : get s.bkts id = some b) (hs : b.sys = true) (hn : b.name ≠ n) (h0 : id ≠ 0) :
    deleteBucket s id false = (s, .error .inv) ∧ updateBucket s id (some n) = (s, .error .inv) := by
  simp [deleteBucket, updateBucket, h0, hb, hs, hn]

-- non-vacuity: a reachable state with two organizations, their system buckets and a membership,
-- in which the hypotheses of the theorems above are met
example : get (exec init [.cu "u" 0, .co "a " 2001, .co "b" 0]).bkts 1001 = some ⟨1, "_tasks", true⟩ := by decide
example : get (exec init [.cu "u" 0, .co "a " 2001, .co "b" 0]).orgs 1 = some "a " := by decide
example : get (exec init [.cu "u" 0, .co "a " 2001, .co "b" 0]).urms (1, 2001) = some ⟨true, true⟩ := by decide
example : (deleteOrganization (exec init [.cu "u" 0, .co "a " 2001, .co "b" 0]) 1).2.toOption = some 1 := by decide
example : holdsOn (run init [.cu "u" 0, .co "a " 2001, .dump, .fo "a", .dO 1, .dump]) = true := C30_holdsOn _

end Influx.Props.C30
