/-
  Props.C04 — Compaction preserves the logical content of TSM files.
  (theorems; helper lemmas live in Influx/Lemmas/Compact*.lean)
-/
import Influx.Model.CompactCase
import Influx.Spec.C04

namespace Influx.Props.C04
open Influx.Model.Compact Influx.Spec.C04

/-- `chunk<T>`: a block the iterator re-encodes holds between 1 and `size` values. -/
theorem chunk_block_size {V : Type} (size : Nat) (hs : 0 < size) (mv : Pts V) (out : List (OBlk V)) (mv' : Pts V)
    (h : chunk size [] mv = .ok (out, mv')) : ∀ b ∈ out, 1 ≤ b.pts.length ∧ b.pts.length ≤ size := by
  unfold chunk at h
  split at h
  · next hgt =>
    cases h1 : ptsMin (List.take size mv) <;> simp [h1, bind, Except.bind] at h
    cases h2 : ptsMax (List.take size mv) <;> simp [h2, pure, Except.pure] at h
    obtain ⟨rfl, rfl⟩ := h
    intro b hb
    simp at hb
    subst hb
    simp
    omega
  · split at h
    · next hle hpos =>
      cases h1 : ptsMin mv <;> simp [h1, bind, Except.bind] at h
      cases h2 : ptsMax mv <;> simp [h2, pure, Except.pure] at h
      obtain ⟨rfl, rfl⟩ := h
      intro b hb
      simp at hb
      subst hb
      simp
      omega
    · simp [pure, Except.pure] at h
      obtain ⟨rfl, rfl⟩ := h
      simp

end Influx.Props.C04
