/-
  Props.C04 — Compaction preserves the logical content of TSM files.

  Model: Influx.Model.CompactIter (tsmBatchKeyIterator.Next/merge/combine/chunk with the
  ported sort.Stable, cacheKeyIterator, Compactor.write roll-over) and
  Influx.Model.CompactCase (files, range deletes, cache of a case).
  Statement: Influx.Spec.C04.holdsOn.  Helper lemmas: Influx/Lemmas/Compact*.lean.

  What is proved here, for inputs of any size:
    * `C04_iterator`      the block sequence a compaction writes (any files, any tombstones,
                          full or fast, any size ≥ 1) has ascending keys and, per key, exactly
                          the newest-wins content of the key's blocks minus tombstones, in
                          ascending non-overlapping blocks that are either re-encoded with
                          1..size values or input blocks forwarded unchanged — as long as no
                          key has more than 20 blocks (sort.Stable = insertion sort);
    * `C04_sort_stable_fails`  beyond 20 blocks the ported sort.Stable does reorder two
                          overlapping blocks (the finding);
    * `C04_snapshot`      WriteSnapshot: the statement holds, no hypothesis;
    * `C04_holdsOn_partial`  the statement checker accepts every model trace under the
                          explicit hypotheses `CaseGood`;
    * `C04_full_fails`    the statement as written fails: a forwarded input block may
                          exceed the requested points-per-block.
-/
import Influx.Lemmas.CompactTrace

namespace Influx.Props.C04
open Influx.Model.Compact Influx.Spec.C04

/-! ### the iterator -/

/-- **C04, iterator level.**  For every set of input files (`FilesOK (some 20)`: per file
    ascending non-empty keys, well-formed fresh blocks with arbitrary tombstones, at most 20
    blocks per key), mode and size ≥ 1: if the model of `tsmBatchKeyIterator` + write loop
    returns a sequence, its keys never decrease and for every key `k` the blocks written for `k`
    (a) concatenate to a strictly ascending list of points — so they are ascending and do not
    overlap —, (b) hold exactly `restAt (blocksFor files k)`, the value of the last file
    (in file order) that has a non-tombstoned point at that time, and (c) are each either a
    re-encoded block of 1..size values or one of the key's input blocks forwarded as is. -/
theorem C04_iterator {V : Type} (size : Nat) (fast : Bool) (hs : 0 < size) (files : List (FileRuns V))
    (ok : FilesOK (some 20) files) (seq : List (Key × OBlk V))
    (h : compactSeq { size := size, fast := fast } files = .ok seq) :
    KeysSorted seq ∧
    ∀ k, Asc (outPts (seqOf k seq)) ∧
      (∀ t, lookup (outPts (seqOf k seq)) t = restAt (blocksFor files k) t) ∧
      (∀ o ∈ seqOf k seq, OBlkOK o ∧
        ((1 ≤ o.pts.length ∧ o.pts.length ≤ size) ∨ ∃ b0 ∈ blocksFor files k, o = passThrough b0)) := by
  have ro := compactSeq_spec { size := size, fast := fast } (some 20) (stableLaw size fast) hs files ok seq h
  refine ⟨ro.sorted, fun k => ?_⟩
  have kt := ro.keys k
  exact ⟨by simpa using kt.asc, fun t => by have := kt.content t; simpa using this.symm, kt.blocks⟩

/-- **what would repair the second finding.**  The same iterator with an insertion sort over
    `blocks.Less` in place of `sort.Stable` (`insertionCfg`) satisfies the iterator theorem for
    ANY number of blocks per key (`FilesOK none`): all the proof needs from the sort is that it
    only exchanges blocks with disjoint time ranges and leaves no block entirely before its
    predecessor (`SortSpecAt`), which `sort.Stable` guarantees only up to 20 elements
    (`C04_sort_stable_fails`). -/
theorem C04_iterator_insertion_sort {V : Type} (size : Nat) (fast : Bool) (hs : 0 < size)
    (files : List (FileRuns V)) (ok : FilesOK none files) (seq : List (Key × OBlk V))
    (h : compactSeq (insertionCfg size fast) files = .ok seq) :
    KeysSorted seq ∧
    ∀ k, Asc (outPts (seqOf k seq)) ∧
      (∀ t, lookup (outPts (seqOf k seq)) t = restAt (blocksFor files k) t) ∧
      (∀ o ∈ seqOf k seq, OBlkOK o ∧
        ((1 ≤ o.pts.length ∧ o.pts.length ≤ size) ∨ ∃ b0 ∈ blocksFor files k, o = passThrough b0)) := by
  have ro := compactSeq_spec (insertionCfg size fast) none (insertionLaw size fast) hs files ok seq h
  refine ⟨ro.sorted, fun k => ?_⟩
  have kt := ro.keys k
  exact ⟨by simpa using kt.asc, fun t => by have := kt.content t; simpa using this.symm, kt.blocks⟩

/-- one `merge<T>()` call preserves the per-key invariant (frontier, ascending output,
    content = target), for at most 20 remaining blocks -/
theorem C04_merge_step {V : Type} (size : Nat) (fast : Bool) {T : Int} {st st' : KSt V} {O : Pts V}
    {target : Int → Option V} (inv : KInv T st O target) (hm : st.merged = []) (hlen : st.blocks.length ≤ 20)
    (h : mergeStep { size := size, fast := fast } st = .ok st') : StepOut size T st st' O target :=
  mergeStep_spec { size := size, fast := fast } inv hm (stableLaw size fast _ (fun m hm => by cases hm; exact hlen)) h

/-- `Compactor.write` roll-over: the files hold the emitted sequence in order, none is empty
    (for every block-count / size threshold) -/
theorem C04_rollover {V : Type} (lim : Limits) (bsz : OBlk V → Nat) (seq : List (Key × OBlk V)) :
    (splitFiles lim bsz (seq.length + 1) seq).flatten = seq ∧
    ∀ f ∈ splitFiles lim bsz (seq.length + 1) seq, f ≠ [] :=
  splitFiles_spec lim bsz (seq.length + 1) seq (Nat.lt_succ_self _)

/-! ### snapshots -/

/-- **C04 for `WriteSnapshot`** (no hypothesis): the files written for a deduplicated cache
    satisfy the statement — last write wins, keys sorted, blocks ascending, ≤ size values. -/
theorem C04_snapshot (ops : List Op) (size : Nat) (files : List OutFile)
    (h : modelSnap ops size = Obs.out files) :
    judge ops true (if size = 0 then 1000 else size) files = none :=
  modelSnap_ok ops size files h

/-! ### the statement checker on model traces -/

/-- **C04_holdsOn (partial).**  The run-time oracle accepts every trace of the model, for all
    cases — any files, range deletes, cache writes, snapshots, full and fast compactions — whose
    compactions satisfy `GoodAt`.  Missing for the full theorem: keys with more than 20 blocks
    (false there: `C04_content_fails_gt20`), inputs with blocks larger than `size` (false there:
    `C04_full_fails`), termination of the model (`GoodAt` asks that the model run returns). -/
theorem C04_holdsOn_partial (ops : List Op) (h : CaseGood init ops) : holdsOn (run init ops) = true := by
  unfold holdsOn
  have : judgeAll [] (run init ops) = none := judgeAll_run ops init trivial h
  rw [this]; rfl


/-- the hypothesis of `C04_holdsOn_partial` is met by a non-trivial case: two files with an
    overlapping, partly duplicate key (t = 2 in both), a range delete on the newer file, a cache
    write with a duplicate timestamp, a full compaction with size 2 and a snapshot with size 1 -/
example : CaseGood init
    [Op.blk 0 [105, 49] [(1,10),(2,11)], Op.blk 0 [105, 49] [(5,12)], Op.blk 1 [105, 49] [(2,20),(3,21)],
     Op.del 1 [[105, 49]] 3 9, Op.cw [105, 49] [(4,1),(1,2),(4,3)],
     Op.compact false 2 false, Op.snap 1] := by
  let acc : List Op := [Op.blk 0 [105, 49] [(1,10),(2,11)], Op.blk 0 [105, 49] [(5,12)],
    Op.blk 1 [105, 49] [(2,20),(3,21)], Op.del 1 [[105, 49]] 3 9, Op.cw [105, 49] [(4,1),(1,2),(4,3)]]
  have hs : (step (step (step (step (step init (Op.blk 0 [105, 49] [(1,10),(2,11)])).1 (Op.blk 0 [105, 49] [(5,12)])).1
      (Op.blk 1 [105, 49] [(2,20),(3,21)])).1 (Op.del 1 [[105, 49]] 3 9)).1 (Op.cw [105, 49] [(4,1),(1,2),(4,3)])).1
      = acc.reverse := by decide
  refine ⟨trivial, trivial, trivial, trivial, trivial, ?_, trivial, trivial⟩
  show (2 = 0 ∨ 2 > 100000) ∨ GoodAt (step (step (step (step (step init _).1 _).1 _).1 _).1 _).1.reverse false 2
  rw [hs, List.reverse_reverse]
  right
  refine ⟨?_, ?_, ?_⟩
  · intro k
    have hf : fileIds acc = [0, 1] := by decide
    simp only [blocksOfKey, hf, List.flatMap_cons, List.flatMap_nil, List.append_nil, List.length_append]
    have h0 := ptsOf_length_le 0 k acc
    have h1 := ptsOf_length_le 1 k acc
    have : acc.length = 5 := rfl
    omega
  · intro f k pts h
    simp [acc] at h
    rcases h with ⟨_, _, rfl⟩ | ⟨_, _, rfl⟩ | ⟨_, _, rfl⟩ <;> simp
  · exact ⟨[[([105, 49], ⟨1, 2, [(1,10),(2,20)]⟩), ([105, 49], ⟨5, 5, [(5,12)]⟩)]], by decide⟩

/-! ### where the statement fails -/

/-- **C04_full_fails.**  The statement as written ("no block exceeds the requested
    points-per-block") is false of the code: one 3-point block compacted with size 2 is
    forwarded unchanged (`combine`: `if count < k.size { break }; k.merged = append(k.merged, k.blocks[i])`). -/
theorem C04_full_fails : ¬ ∀ ops, holdsOn (run init ops) = true := by
  intro h
  have := h [Op.blk 0 [105] [(1,1),(2,2),(3,3)], Op.compact false 2 false]
  revert this
  decide

/-- the input of the second finding: key `s1`, 15 short blocks and one late block in file 0,
    a descending staircase of overlapping blocks in files 1–4, a short block in file 5 -/
def gt20Witness : List Op :=
  let k : Key := [115, 49]
  [Op.blk 0 k [(1,1),(2,2)], Op.blk 0 k [(3,3),(5,4)], Op.blk 0 k [(7,5),(8,6)], Op.blk 0 k [(9,7),(10,8)],
   Op.blk 0 k [(12,9),(14,10)], Op.blk 0 k [(15,11),(16,12)], Op.blk 0 k [(17,13)], Op.blk 0 k [(19,14)],
   Op.blk 0 k [(20,15),(21,16)], Op.blk 0 k [(22,17)], Op.blk 0 k [(23,18),(25,19)], Op.blk 0 k [(27,20),(28,21)],
   Op.blk 0 k [(30,22),(32,23)], Op.blk 0 k [(34,24)], Op.blk 0 k [(35,25)],
   Op.blk 0 k [(134,26),(139,27),(144,28)],
   Op.blk 1 k [(127,29),(130,30),(133,31),(134,32),(136,33),(138,34)],
   Op.blk 2 k [(115,35),(119,36),(121,37),(123,38),(126,39),(129,40)],
   Op.blk 3 k [(109,41),(110,42),(114,43),(117,44),(121,45)],
   Op.blk 4 k [(115,46),(118,47),(119,48)],
   Op.blk 5 k [(113,49),(118,50)],
   Op.compact true 7 true]

set_option maxRecDepth 1000000 in
/-- **second finding: the content clause fails for a key with more than 20 blocks.**
    `sort.Stable` leaves its insertion-sort regime; `blocks.Less` is not a strict weak order, and
    symMerge's binary search moves the block of file 5 in front of the overlapping block of
    file 4; `combine` then merges them in that order and the OLDER value (47, file 4) wins at
    t = 118 over the newer one (50, file 5).  No delete, no oversized block is involved. -/
theorem C04_content_fails_gt20 : holdsOn (run init gt20Witness) = false := by decide

/-- the mechanism of the second finding, in isolation: the ported `sort.Stable` puts the block
    [113,118] (last in file order) before the overlapping block [115,119] of the file before it. -/
theorem C04_sort_stable_fails :
    let mk (a z : Int) : Block Unit := { minTime := a, maxTime := z, pts := [], tombstones := [] }
    let L := [mk 1 2, mk 3 5, mk 7 8, mk 9 10, mk 12 14, mk 15 16, mk 17 17, mk 19 19, mk 20 21, mk 22 22,
              mk 23 25, mk 27 28, mk 30 32, mk 34 34, mk 35 35, mk 134 144, mk 127 138, mk 115 129,
              mk 109 121, mk 115 119, mk 113 118]
    ((Sort.stable blkLess L).map (·.minTime)).drop 15 = [113, 134, 127, 115, 109, 115] := by
  decide

end Influx.Props.C04
