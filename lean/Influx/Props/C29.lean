/-
  Props.C29 — Authorization wrappers never leak or modify unauthorized resources.

  The model (`Model.Authorizer`) writes out the 26 methods of authorizer/{bucket,org,user,auth}.go
  over the tenant store model and a token store; the permission check inside `authorize` is
  `Influx.Generated.Authz.Matches`, regenerated from authz.go on every run, and "the caller may"
  in the statement is C28's `Justified` — the bridge is C28's theorem.  All theorems hold for
  every caller (any permission list, active or not, present or not), every state and every
  operation sequence.
-/
import Influx.Lemmas.AuthorizerLemmas

namespace Influx.Props.C29
open Influx Influx.Authzr Influx.Generated.Authz Influx.Spec.C29

/-- **C29 on one call**: for every caller, state and wrapped method, the observation satisfies the
    statement: returned resources are readable, a success implies write access to the target (and for
    tokens that every granted permission is held), a denial reports no stored change. -/
theorem C29_call (c : Caller) (s : St) (op : WOp) : callOK c op (wstep c s op).2 = true :=
  callOK_wstep c s op

/-- **C29 as the statement checker states it**: it accepts the model's trace on every op sequence. -/
theorem C29_holdsOn (ops : List Op) (s : St) : holdsOn (run s ops) = true := by
  induction ops generalizing s with
  | nil => rfl
  | cons op ops ih =>
    have ih' := ih (step s op).1
    simp only [holdsOn] at ih' ⊢
    simp only [run, List.all_cons, Bool.and_eq_true]
    refine ⟨?_, ih'⟩
    cases op with
    | w c wop => exact callOK_wstep c s wop
    | _ => rfl

/-- A denied call leaves stored state unchanged — here literally the whole state (stores and id
    generators), for every mutating wrapper. -/
theorem C29_denied_unchanged (c : Caller) (s : St) :
    (∀ o n sys, DenSafe s (createBucket c s o n sys)) ∧ (∀ id n, DenSafe s (updateBucket c s id n)) ∧
    (∀ id, DenSafe s (deleteBucket c s id)) ∧
    (∀ n, DenSafe s (createOrg c s n)) ∧ (∀ id n, DenSafe s (updateOrg c s id n)) ∧ (∀ id, DenSafe s (deleteOrg c s id)) ∧
    (∀ n id, DenSafe s (createUser c s n id)) ∧ (∀ id n, DenSafe s (updateUser c s id n)) ∧
    (∀ id, DenSafe s (deleteUser c s id)) ∧
    (∀ a, DenSafe s (createAuth c s a)) ∧ (∀ a, DenSafe s (createAuth2 c s a)) ∧ (∀ id act, DenSafe s (updateAuth c s id act)) ∧
    (∀ id, DenSafe s (deleteAuth c s id)) :=
  ⟨fun _ _ _ => guarded_den (liftT_den s _), fun _ _ => fetchGuard_den (liftT_den s _),
   fun _ => fetchGuard_den (liftT_den s _),
   fun _ => guarded_den (liftT_den s _), fun _ _ => guarded_den (liftT_den s _), fun _ => guarded_den (liftT_den s _),
   fun _ _ => guarded_den (liftT_den s _), fun _ _ => guarded_den (liftT_den s _), fun _ => guarded_den (liftT_den s _),
   fun a => guarded_den (guarded_den (guarded_den (createAuthSvc_den s a))),
   fun a => guarded_den (guarded_den (guarded_den (by
     split
     · intro e h hd; simp at h; subst h; cases hd
     · exact createAuthSvc_den s a))),
   fun id act => fetchGuard_den (updateAuthSvc_den s id act), fun id => fetchGuard_den (deleteAuthSvc_den s id)⟩

/-- Read wrappers never change anything (they are functions of the state). -/
theorem C29_reads_pure (s : St) {α : Type} (r : Except Err α) (f : α → Ans) : (ansRead s r f).1 = s := by
  unfold ansRead; cases r <;> rfl

/-- Tokens: a successful CreateAuthorization means the caller presented an active token that, by the
    code's own check, allows every permission of the new token — no privilege escalation. -/
theorem C29_token_grant (c : Caller) (s s' : St) (a : AuthRec) (id : Nat)
    (h : createAuth c s a = (s', .ok id)) :
    c.present = true ∧ c.active = true ∧ ∀ p ∈ a.perms, allowed c.perms p = true := by
  have h' : (createAuth c s a).2 = .ok id := by rw [h]
  obtain ⟨_, h'⟩ := guarded_ok h'
  obtain ⟨_, h'⟩ := guarded_ok h'
  obtain ⟨h3, _⟩ := guarded_ok h'
  unfold verifyPermissions at h3
  split at h3
  · rename_i hall
    simp only [List.all_eq_true, Bool.and_eq_true] at hall
    cases hp : a.perms with
    | nil =>
      -- no permission granted: presence/activity follow from the first write check
      have h1 : (createAuth c s a).2 = .ok id := by rw [h]
      have := (guarded_ok h1).1
      unfold authorize at this
      repeat' split at this
      all_goals first
        | (simp at this; done)
        | skip
      rename_i _ _ hpr hac _
      exact ⟨by simpa using hpr, by simpa using hac, fun p hp => by cases hp⟩
    | cons p ps =>
      have := hall p (by rw [hp]; simp)
      exact ⟨this.1.1, this.1.2, fun q hq => (hall q (by rw [hp]; exact hq)).2⟩
  · cases h3

/-- …and in the statement's terms: every granted permission is justified by one the caller holds. -/
theorem C29_token_grant_justified (c : Caller) (s s' : St) (a : AuthRec) (id : Nat)
    (h : createAuth c s a = (s', .ok id)) :
    ∀ p ∈ a.perms, ∃ q ∈ c.perms, Spec.C28.Justified q p := by
  intro p hp
  have := (C29_token_grant c s s' a id h).2.2 p hp
  simp only [allowed, List.any_eq_true, beq_iff_eq] at this
  obtain ⟨q, hq, hm⟩ := this
  exact ⟨q, hq, Influx.Props.C28.C28 q p hm⟩

/-- The check is exact (not required by the property): `authorize` passes iff the ids are valid,
    an active authorizer is present and its permissions allow the request. -/
theorem C29_authorize_exact (c : Caller) (a : Action) (rt : ResourceType) (rid oid : Option Nat) :
    authorize c a rt rid oid = .ok () ↔
      (oid ≠ some 0 ∧ rid ≠ some 0 ∧ c.present = true ∧ c.active = true ∧ allowed c.perms (mkPerm a rt rid oid) = true) := by
  unfold authorize
  constructor
  · intro h
    repeat' split at h
    all_goals first
      | (simp at h; done)
      | skip
    rename_i h1 h2 h3 h4 h5
    exact ⟨h1, h2, by simpa using h3, by simpa using h4, h5⟩
  · rintro ⟨h1, h2, h3, h4, h5⟩
    simp [h1, h2, h3, h4, h5]

/-- A caller without the matching permission gets nothing: an inactive token is denied everything. -/
theorem C29_inactive_denied (c : Caller) (hc : c.active = false) (hp : c.present = true)
    (a : Action) (rt : ResourceType) (rid oid : Option Nat) (h1 : oid ≠ some 0) (h2 : rid ≠ some 0) :
    authorize c a rt rid oid = .error .unauth := by
  simp [authorize, h1, h2, hc, hp]

-- non-vacuity: a caller with a bucket-scoped read permission reads that bucket and is denied the delete
example :
    let c : Caller := ⟨true, true, 2001, [⟨"read", ⟨"buckets", some 1003, some 1⟩⟩]⟩
    let s := exec init [.admin (.co "a" 0), .admin (.cb 1 "x" false)]
    (wstep c s (.gb 1003)).2 = .bucket 1003 1 false ∧ (wstep c s (.db 1003)).2 = .err .unauth false := by
  decide

end Influx.Props.C29
