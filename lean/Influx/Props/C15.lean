/-
  Props.C15 — Tag WHERE clauses select exactly the matching series.

  The function under proof is the model of
  `tsdb.IndexSet.MeasurementSeriesByExprIterator` in `Influx.Model.TagExpr`
  (written from tsdb/index.go, tied to the real package by the correspondence
  run of `bin/check C15`).  Everything here is unbounded: any expression depth,
  any number of indexes/series/tags, any regular expression (an arbitrary
  predicate on strings).
-/
import Influx.Lemmas.TagExprTrace

namespace Influx.Props.C15
open Influx.Model.TagExpr Influx.Spec.C15

/-- **C15 over an abstract index.** For ANY index-set views that are those of a
    list of series `S` of one measurement (`Ctx.Sound`: nothing assumed about
    nil-vs-empty iterators or the order of tag values), and any expression of
    the property's grammar, the evaluator delivers exactly the ids of the series
    whose tags satisfy the expression, an absent tag reading as `""`. -/
theorem C15_abstract (c : Ctx) (S : List Series) (hwf : SeriesWF S) (hc : c.Sound S) (e : Expr)
    (hg : inGrammar c.hasField e = true) (i : Nat) :
    i ∈ (eval c e).ids ↔ ∃ s ∈ S, s.id = i ∧ sem c.name s.tags e = true :=
  eval_mem hwf hc e hg i

/-- **C15** on the states of the model (several indexes sharing a series file,
    series-file tombstones, a field set): after any operations, a query in the
    grammar returns exactly the live series of the measurement that satisfy it. -/
theorem C15 (ops : List Op) (name : String) (e : Expr) (i : Nat)
    (hg : inGrammar (fun f => (runState {} ops).fields.contains (name, f)) e = true) :
    i ∈ ((runState {} ops).query name e).ids ↔
      ∃ s ∈ (runState {} ops).allSeries,
        s.name = name ∧ s.id = i ∧ i ∉ (runState {} ops).deleted ∧ sem name s.tags e = true :=
  query_mem (WF_runState ops {} WF_init) name e hg i

/-- every answer is strictly ascending — no id twice — for every expression,
    also outside the grammar. -/
theorem C15_sorted (st : State) (name : String) (e : Expr) :
    List.Pairwise (· < ·) (st.query name e).ids :=
  query_asc st name e

/-- The run-time oracle accepts the model's trace, for all operation lists. -/
theorem C15_holdsOn (ops : List Op) : holdsOn (run {} ops) = true :=
  holdsFrom_run ops {} {} WF_init rel_init

/-! ### the clauses about absent tags, spelled out -/

variable {c : Ctx} {S : List Series}

/-- `k = ''` selects exactly the series lacking `k`. -/
theorem C15_eq_empty (hwf : SeriesWF S) (hc : c.Sound S) (k : String) (hk : k ≠ "_name")
    (hf : c.hasField k = false) (i : Nat) :
    i ∈ (eval c (.bin .eq (.ref k .unknown) (.str ""))).ids ↔
      ∃ s ∈ S, s.id = i ∧ lookupTag s.tags k = none := by
  rw [eval_mem hwf hc _ (by simp [inGrammar, isTagRef, hf]) i]
  constructor
  · rintro ⟨s, hs, hid, h⟩
    refine ⟨s, hs, hid, ?_⟩
    simp only [sem, refVal, hk, if_false, beq_iff_eq] at h
    have := (tagVal_empty_iff hwf hs k).mp h
    cases hl : lookupTag s.tags k <;> simp_all
  · rintro ⟨s, hs, hid, h⟩
    refine ⟨s, hs, hid, ?_⟩
    simp [sem, refVal, hk, tagVal_of_none h]

/-- `k != ''` selects exactly the series having `k`. -/
theorem C15_neq_empty (hwf : SeriesWF S) (hc : c.Sound S) (k : String) (hk : k ≠ "_name")
    (hf : c.hasField k = false) (i : Nat) :
    i ∈ (eval c (.bin .neq (.ref k .unknown) (.str ""))).ids ↔
      ∃ s ∈ S, s.id = i ∧ (lookupTag s.tags k).isSome = true := by
  rw [eval_mem hwf hc _ (by simp [inGrammar, isTagRef, hf]) i]
  constructor
  · rintro ⟨s, hs, hid, h⟩
    refine ⟨s, hs, hid, ?_⟩
    simp only [sem, refVal, hk, if_false, bne_iff_ne] at h
    cases hl : (lookupTag s.tags k).isSome with
    | true => rfl
    | false => exact absurd ((tagVal_empty_iff hwf hs k).mpr hl) h
  · rintro ⟨s, hs, hid, h⟩
    refine ⟨s, hs, hid, ?_⟩
    simp only [sem, refVal, hk, if_false, bne_iff_ne]
    intro h'
    have := (tagVal_empty_iff hwf hs k).mp h'
    simp [this] at h

/-- `k =~ r` where `r` matches the empty string includes every series lacking `k`. -/
theorem C15_regex_empty_includes_absent (hwf : SeriesWF S) (hc : c.Sound S) (k : String)
    (hk : k ≠ "_name") (hf : c.hasField k = false) (re : String → Bool) (hre : re "" = true)
    (s : Series) (hs : s ∈ S) (habs : lookupTag s.tags k = none) :
    s.id ∈ (eval c (.bin .eqregex (.ref k .unknown) (.regex re))).ids := by
  rw [eval_mem hwf hc _ (by simp [inGrammar, isTagRef, hf])]
  exact ⟨s, hs, rfl, by simp [sem, refVal, hk, tagVal_of_none habs, hre]⟩

/-- `k !~ r` where `r` matches the empty string excludes every series lacking `k`. -/
theorem C15_nregex_empty_excludes_absent (hwf : SeriesWF S) (hc : c.Sound S) (k : String)
    (hk : k ≠ "_name") (hf : c.hasField k = false) (re : String → Bool) (hre : re "" = true)
    (s : Series) (hs : s ∈ S) (habs : lookupTag s.tags k = none) :
    s.id ∉ (eval c (.bin .neqregex (.ref k .unknown) (.regex re))).ids := by
  rw [eval_mem hwf hc _ (by simp [inGrammar, isTagRef, hf])]
  rintro ⟨t, ht, hid, h⟩
  have htags : t.tags = s.tags := hwf.uniq t ht s hs hid
  simp [sem, refVal, hk, htags, tagVal_of_none habs, hre] at h

/-! ### outside the grammar: tag-to-tag comparison is NOT value equality -/

/-- `k1 = k2` (two tag references) selects the series having both keys, whatever
    their values: the code compares key presence (`seriesByBinaryExprVarRefIterator`).
    This is why the property's grammar — and `inGrammar` — excludes it. -/
theorem C15_tagtag_is_presence (hc : c.Sound S) (k1 k2 : String)
    (h1 : isFieldRef c k1 .tag .tag = false) (h2 : isFieldRef c k2 .tag .tag = false) (i : Nat) :
    i ∈ (eval c (.bin .eq (.ref k1 .tag) (.ref k2 .tag))).ids ↔
      (∃ s ∈ S, s.id = i ∧ (lookupTag s.tags k1).isSome) ∧
      (∃ s ∈ S, s.id = i ∧ (lookupTag s.tags k2).isSome) := by
  simp only [eval, byBinary, Expr.isBin, byKeyValue, h1, h2, byVarRef, Bool.false_eq_true,
    if_false, if_true]
  rw [mem_intersectItr (hc.asc_k k1) (hc.asc_k k2), hc.mem_k, hc.mem_k]

/-- non-vacuity: the theorem's hypotheses are met by non-trivial values, and the
    model computes something: a two-index state, `host = 'a' OR region =~ r`. -/
def exampleOps : List Op :=
  [ .addSeries 0 ⟨1, "cpu", [("host", "a"), ("region", "x")]⟩,
    .addSeries 1 ⟨2, "cpu", [("host", "b")]⟩,
    .addSeries 1 ⟨3, "cpu", [("region", "y")]⟩,
    .addSeries 0 ⟨4, "mem", [("host", "a")]⟩,
    .delSeries 3 ]

example : (runState {} exampleOps).WF := WF_runState _ _ WF_init
example : inGrammar (fun _ => false)
    (.bin .or (.bin .eq (.ref "host" .unknown) (.str "a"))
      (.paren (.bin .eqregex (.ref "region" .tag) (.regex (fun s => s == "y" || s == ""))))) = true := by
  decide

end Influx.Props.C15
