/-
  Props.C10 — A field keeps a single type, persistently.

  Model: Model/FieldSchema.lean (validation, `CreateFieldIfNotExists`) +
  Model/FieldLog.lean (fields.idx / fields.idxl, restarts, crashes).
  Statement: `Spec.C10.holdsOn`.
-/
import Influx.Lemmas.FieldC10Steps

namespace Influx.Props.C10
open Influx.Fields Influx.Spec.C10 Influx.Fields.C10Steps

/-- **C10** — for every history of writes (conflicting or not), measurement drops,
    clean restarts, process kills, crashes at every point of the fields.idx rewrite,
    crashes at every byte of an append to fields.idxl and pairs of racing writers,
    the statement holds of the model's observations. -/
theorem C10_holdsOn (ops : List Op10) : holdsOn (trace10 {} ops) = true := by
  unfold holdsOn
  rw [firstFailure_trace {} {} pinv_init ⟨rfl, by intro m hm; cases hm⟩ ops]
  rfl

/-- **at most one type per (measurement, field) in every reachable state**, every
    stored value has the recorded type of its field, and the files reconstruct the
    in-memory field set -/
theorem C10_single_type (ops : List Op10) :
    ((run {} ops).mem.map (·.1)).Nodup ∧
    (∀ e ∈ (run {} ops).data, (run {} ops).mem.lookup (e.1.1, e.1.2.2.1) = some e.2.1) ∧
    (∀ k, (replay ((run {} ops).idx.getD []) ((run {} ops).log.getD []).flatten).lookup k
            = (run {} ops).mem.lookup k) :=
  let h := run_inv {} pinv_init ops
  ⟨h.ndMem, h.typed, h.disk⟩

/-- **a conflicting write is rejected**: a point that carries another type for a
    field on record is refused, whatever else the batch contains; the recorded
    types are unchanged by the batch -/
theorem C10_conflict_rejected (s : Schema) (b : List Point) :
    (∀ p v, (p, v) ∈ (verdicts s b).2.2 → conflictsWith s p = true → v.accepted = false) ∧
    (∀ k t, s.lookup k = some t → (verdicts s b).1.lookup k = some t) :=
  ⟨fun p v hm hc => verdicts_conflict b s p v hm hc, fun k t h => verdicts_mono b s k t h⟩

/-- **load(crash(save s) c) ∈ {before, after} for every byte cut of the change
    log**: with any number `x` of bytes of the record being appended in the file,
    the load yields the field set without that record, or — only when all its
    bytes are there — with it. -/
theorem C10_log_cut (idx : Schema) (recs : List ChangeSet) (last : ChangeSet) (x : Nat) :
    replay idx (cutLog (recs ++ [last]) (logLen recs + x)).flatten =
      if recordLen last ≤ x then replay idx (recs ++ [last]).flatten else replay idx recs.flatten := by
  rw [cutLog_append]; split <;> rfl

/-- any cut at all loads a prefix of the records -/
theorem C10_log_prefix (recs : List ChangeSet) (n : Nat) : ∃ k, cutLog recs n = recs.take k :=
  cutLog_prefix recs n

/-- **replaying the log over a snapshot that already contains it is a no-op**
    (the crash point between the rename of fields.idx and the removal of
    fields.idxl; DESIGN §6 F16 — false of the code before
    fixes/C10-replay-over-newer-snapshot.patch) -/
theorem C10_replay_idempotent (s : Schema) (cs : List Change) (k : FKey) :
    (replay (replay s cs) cs).lookup k = (replay s cs).lookup k :=
  replay_idem s cs k

/-- **a dropped measurement never comes back**: once a drop has removed the fields
    of `m`, no sequence of restarts of any kind brings one back. -/
theorem C10_dropped_stays (st : PState) (h : PInv st) (m : String)
    (hm : hasMeas st.mem m = false) (ops : List Op10)
    (hops : ∀ o ∈ ops, o = .reopen ∨ o = .crash ∨ (∃ p, o = .crashInClose p) ∨ (∃ p, o = .crashInOpen p) ∨ o = .look) :
    hasMeas (run st ops).mem m = false := by
  induction ops generalizing st with
  | nil => exact hm
  | cons o os ih =>
    have hR : Rel { cur := { sch := st.mem, store := some st.data }, dropped := [m] } st :=
      ⟨rfl, by intro m' hm'; rw [List.mem_singleton.1 hm']; exact hm⟩
    obtain ⟨_, h2, h3⟩ := step_ok _ st o h hR
    apply ih _ h2 _ (fun o' ho' => hops o' (List.mem_cons_of_mem _ ho'))
    apply h3.dropped
    rcases hops o List.mem_cons_self with rfl | rfl | ⟨p, rfl⟩ | ⟨p, rfl⟩ | rfl
    · simp only [step10, reopened]; split <;> simp [stepFails]
    · simp only [step10, reopened]; split <;> simp [stepFails]
    · simp only [step10, reopened]; split <;> split <;> simp [stepFails]
    · simp only [step10, reopened]; split <;> split <;> simp [stepFails]
    · simp [step10, stepFails]

/-- **dropping a measurement that has data removes its field schema** (in every
    reachable state), so its fields can be re-created with other types -/
theorem C10_drop_removes_schema (ops : List Op10) (m : String)
    (h : ∃ e ∈ (run {} ops).data, e.1.1 = m) : hasMeas (pDrop (run {} ops) m).mem m = false := by
  have hI := run_inv {} pinv_init ops
  obtain ⟨e, he, hem⟩ := h
  have happ : dropApplies (run {} ops) m = true := by
    unfold dropApplies
    have h1 := hI.seriesOK e he
    rw [hem] at h1
    have h2 : (run {} ops).data.isEmpty = false := by
      cases hdd : (run {} ops).data with
      | nil => rw [hdd] at he; cases he
      | cons _ _ => rfl
    rw [h1, h2]; rfl
  have hmem : (pDrop (run {} ops) m).mem = dropMeas (run {} ops).mem m := by
    unfold pDrop; simp [happ, appendLog]
  rw [hmem]
  apply hasMeas_false_of_lookup _ (nd_dropMeas _ _ hI.ndMem) m
  intro k t hk hkm
  rw [lookup_dropMeas] at hk
  simp [hkm] at hk

/-- **two writers racing on a new field** (`LoadOrStore` is one atomic step): in
    either order, the first creator's type is recorded and the other creator sees
    that type — a conflict iff it asked for another one. -/
theorem C10_race (s : Schema) (k : FKey) (t1 t2 : FType) (hnew : s.lookup k = none) :
    ∃ s1, createField s k t1 = some (s1, true) ∧ s1.lookup k = some t1 ∧
      (t2 = t1 → createField s1 k t2 = some (s1, false)) ∧
      (t2 ≠ t1 → createField s1 k t2 = none) := by
  refine ⟨(k, t1) :: s, ?_, lookup_cons_eq _ _ _, ?_, ?_⟩
  · unfold createField; rw [hnew]
  · intro h; unfold createField; rw [lookup_cons_eq]; simp [h]
  · intro h; unfold createField; rw [lookup_cons_eq]; simp [Ne.symm h]

-- non-vacuity: the F16 history, end to end on the model
example : holdsOn (trace10 {} [
    .write [⟨"m", [], [⟨"f", .int, "1", 0⟩], 10⟩], .reopen, .drop "m",
    .write [⟨"k", [], [⟨"g", .int, "1", 0⟩], 20⟩], .drop "k",
    .write [⟨"k", [], [⟨"g", .float, "3ff0000000000000", 0⟩], 30⟩],
    .write [⟨"m", [], [⟨"f", .int, "2", 0⟩], 40⟩],
    .crashInClose .renamed,
    .write [⟨"m", [], [⟨"f", .float, "3ff0000000000000", 0⟩], 50⟩]]) = true := by decide

end Influx.Props.C10
