/-
  Props.C35 — Cardinality sketches merge correctly.
  Model: `Influx.Model.HLL` (pkg/estimator/hll/hll.go, compressed.go).

  NOT proved, and not provable: "within the error bound" — a probabilistic statement about
  the hash function; see Spec.C35.  `Count` itself (floating point) is not modelled.
-/
import Influx.Lemmas.HLL
import Influx.Lemmas.HLLAdd
import Influx.Lemmas.HLLMarshal
import Influx.Spec.C35

namespace Influx.Props.C35
open Influx.Model.HLL Influx.Lemmas.HLL Influx.Lemmas.HLLAdd Influx.Lemmas.HLLMarshal Influx.Spec.C35

theorem ext_of_reg (x y : Array Nat) (n : Nat) (hx : x.size = n) (hy : y.size = n)
    (h : ∀ i, i < n → reg x i = reg y i) : x = y := by
  apply Array.ext (by omega)
  intro i h1 h2
  have := h i (by omega)
  rwa [reg_lt _ _ h1, reg_lt _ _ h2] at this

/-- the result of a successful `Merge` is again well-formed (and dense) -/
theorem merge_wf (a b c : Plus) (wa : WF a) (wb : WF b) (hm : merge a b = .ok c) : WF c := by
  obtain ⟨h1, _, h3, _⟩ := merge_regs a b c wa wb hm
  exact ⟨by rw [h1]; exact wa.p_lo, by rw [h1]; exact wa.p_hi, fun _ => by rw [h1]; exact h3⟩

theorem regs_of_dense (c : Plus) (h : c.sparse = false) : regs c = c.dense := by simp [regs, h]

/-- `Merge` succeeds exactly when the precisions agree (for sketches built through the API) -/
theorem merge_ok (a b : Plus) (wa : WF a) (wb : WF b) (hp : a.p = b.p) : ∃ c, merge a b = .ok c := by
  unfold merge
  rw [if_neg (by simpa using hp)]
  simp only
  by_cases hbs : b.sparse = true
  · rw [if_pos hbs]; exact ⟨_, rfl⟩
  · rw [if_neg hbs]
    have hbs : b.sparse = false := by simpa using hbs
    obtain ⟨_, _, _, e4⟩ := recv_spec a wa
    unfold recv at e4
    rw [if_neg (by rw [e4, wb.dense_size hbs, hp]; simp)]
    exact ⟨_, rfl⟩

/-- **merge = pointwise maximum** of the normalised register vectors, for sparse and dense
    sketches alike (`regs` = the registers after `toNormal`). -/
theorem C35_merge_is_max (a b c : Plus) (wa : WF a) (wb : WF b) (hm : merge a b = .ok c) :
    (regs c).size = 2 ^ a.p ∧ ∀ i, i < 2 ^ a.p → reg (regs c) i = max (reg (regs a) i) (reg (regs b) i) := by
  obtain ⟨_, h2, h3, h4⟩ := merge_regs a b c wa wb hm
  rw [regs_of_dense c h2]
  exact ⟨h3, h4⟩

/-- **commutative** -/
theorem C35_comm (a b x y : Plus) (wa : WF a) (wb : WF b)
    (h1 : merge a b = .ok x) (h2 : merge b a = .ok y) : regs x = regs y := by
  have hp : a.p = b.p := by
    unfold merge at h1; by_cases hp : a.p = b.p
    · exact hp
    · rw [if_pos (by simpa using hp)] at h1; cases h1
  obtain ⟨s1, m1⟩ := C35_merge_is_max a b x wa wb h1
  obtain ⟨s2, m2⟩ := C35_merge_is_max b a y wb wa h2
  apply ext_of_reg _ _ (2 ^ a.p) s1 (by rw [hp]; exact s2)
  intro i hi
  rw [m1 i hi, m2 i (by rw [← hp]; exact hi)]
  omega

/-- **associative** -/
theorem C35_assoc (a b c ab bc l r : Plus) (wa : WF a) (wb : WF b) (wc : WF c)
    (h1 : merge a b = .ok ab) (h2 : merge ab c = .ok l)
    (h3 : merge b c = .ok bc) (h4 : merge a bc = .ok r) : regs l = regs r := by
  have wab := merge_wf a b ab wa wb h1
  have wbc := merge_wf b c bc wb wc h3
  have pab : ab.p = a.p := (merge_regs a b ab wa wb h1).1
  have pbc : bc.p = b.p := (merge_regs b c bc wb wc h3).1
  have hp : a.p = b.p := by
    unfold merge at h1; by_cases hp : a.p = b.p
    · exact hp
    · rw [if_pos (by simpa using hp)] at h1; cases h1
  obtain ⟨_, m1⟩ := C35_merge_is_max a b ab wa wb h1
  obtain ⟨s2, m2⟩ := C35_merge_is_max ab c l wab wc h2
  obtain ⟨_, m3⟩ := C35_merge_is_max b c bc wb wc h3
  obtain ⟨s4, m4⟩ := C35_merge_is_max a bc r wa wbc h4
  apply ext_of_reg _ _ (2 ^ a.p) (by rw [← pab]; exact s2) s4
  intro i hi
  rw [m2 i (by rw [pab]; exact hi), m1 i hi, m4 i hi, m3 i (by rw [← hp]; exact hi)]
  omega

/-- **idempotent** -/
theorem C35_idem (a x : Plus) (wa : WF a) (h : merge a a = .ok x) : regs x = regs a := by
  obtain ⟨s1, m1⟩ := C35_merge_is_max a a x wa wa h
  apply ext_of_reg _ _ (2 ^ a.p) s1 (regs_spec a wa).1
  intro i hi
  rw [m1 i hi]; omega

/-! ### sketches as functions of the set of hashes; union -/

/-- **the sparse coding loses nothing**: `decodeHash (encodeHash x)` is the dense `(index, rho)` of `x`,
    for every precision 4..18 and every 64-bit hash. -/
theorem C35_decode_encode (p x : Nat) (hp4 : 4 ≤ p) (hp18 : p ≤ 18) (hx : x < 2 ^ 64) :
    decodeHash p (encodeHash p x) = denseIdxRho p x :=
  Influx.Lemmas.HLLBits.decode_encode p x hp4 hp18 hx

/-- **`Add`** raises register `index(x)` to at least `rho(x)` and changes nothing else — whatever the
    representation, including across the sparse → dense switch. -/
theorem C35_add (h : Plus) (w : WF h) (x : Nat) (hx : x < 2 ^ 64) (i : Nat) (hi : i < 2 ^ h.p) :
    reg (regs (add h x)) i = max (reg (regs h) i) (if (denseIdxRho h.p x).1 = i then (denseIdxRho h.p x).2 else 0) :=
  (add_regs h w x hx).2.2 i hi

/-- the registers of `NewPlus(p)` + `Add`s: register `i` is the largest `rho` among the hashes with index `i` -/
theorem C35_sketch (p : Nat) (e : Plus) (he : newPlus p = some e) (xs : List Nat) (hx : ∀ x, x ∈ xs → x < 2 ^ 64)
    (i : Nat) (hi : i < 2 ^ p) : reg (regs (addAll e xs)) i = supAt (denseIdxRho p) xs i :=
  (sketch_regs p e he xs hx).2.2 i hi

/-- **a sketch depends only on the set of hashes added** (order and repetitions are irrelevant, and so is
    the moment the representation switched from sparse to dense) -/
theorem C35_sketch_of_set (p : Nat) (e : Plus) (he : newPlus p = some e) (A B : List Nat)
    (hA : ∀ x, x ∈ A → x < 2 ^ 64) (hB : ∀ x, x ∈ B → x < 2 ^ 64) (hAB : ∀ x, x ∈ A ↔ x ∈ B) :
    regs (addAll e A) = regs (addAll e B) := by
  obtain ⟨wA, pA, rA⟩ := sketch_regs p e he A hA
  obtain ⟨wB, pB, rB⟩ := sketch_regs p e he B hB
  apply ext_of_reg _ _ (2 ^ p) (by rw [← pA]; exact (regs_spec _ wA).1) (by rw [← pB]; exact (regs_spec _ wB).1)
  intro i hi
  rw [rA i hi, rB i hi]
  exact supAt_set _ A B i hAB

/-- **union**: merging the sketches of `A` and `B` gives the registers of the sketch of `A ∪ B`
    (any list `U` with exactly the elements of `A` and `B`) — the merged sketch *is* the sketch of the union. -/
theorem C35_union (p : Nat) (e : Plus) (he : newPlus p = some e) (A B U : List Nat) (c : Plus)
    (hA : ∀ x, x ∈ A → x < 2 ^ 64) (hB : ∀ x, x ∈ B → x < 2 ^ 64) (hU : ∀ x, x ∈ U ↔ (x ∈ A ∨ x ∈ B))
    (hm : merge (addAll e A) (addAll e B) = .ok c) : regs c = regs (addAll e U) := by
  have hUb : ∀ x, x ∈ U → x < 2 ^ 64 := fun x hx => (hU x).mp hx |>.elim (hA x) (hB x)
  obtain ⟨wA, pA, rA⟩ := sketch_regs p e he A hA
  obtain ⟨wB, pB, rB⟩ := sketch_regs p e he B hB
  obtain ⟨wU, pU, rU⟩ := sketch_regs p e he U hUb
  obtain ⟨s1, m1⟩ := C35_merge_is_max _ _ c wA wB hm
  rw [pA] at s1 m1
  apply ext_of_reg _ _ (2 ^ p) s1 (by rw [← pU]; exact (regs_spec _ wU).1)
  intro i hi
  rw [m1 i hi, rA i hi, rB i hi, rU i hi]
  have hset : supAt (denseIdxRho p) U i = supAt (denseIdxRho p) (A ++ B) i :=
    supAt_set _ U (A ++ B) i (fun x => by rw [hU x, List.mem_append])
  rw [hset, supAt_append]

/-! ### marshal / unmarshal -/

/-- the compressed list (delta + varint) decodes to exactly what was appended -/
theorem C35_compressed_list_roundtrip (vals : List Nat) (h : Asc 0 vals) :
    decodeVals ((encodeVals 0 vals).length + 1) (encodeVals 0 vals) 0 = some vals :=
  decodeVals_encodeVals vals 0 _ h (by have := encodeVals_length_ge vals 0; omega)

/-- **`UnmarshalBinary(MarshalBinary(h))`** succeeds and restores the representation — precision, mode,
    compressed list (after the `mergeSparse` that `MarshalBinary` performs) or registers — for every
    sketch whose sparse lists are ascending 32-bit lists (`SInv`: true of everything `NewPlus`/`Add`/
    `Merge` build: `newPlus_sinv`, `add_sinv`) and whose sizes fit the 32-bit length fields.
    The Go `Count()` reads exactly these fields, so the estimate is preserved. -/
theorem C35_marshal_roundtrip (h : Plus) (w : WF h) (s : SInv h)
    (hsz : (encodeVals 0 (mergeSparse h).sparseVals).length < 2 ^ 32) :
    ∃ h2, unmarshal (marshal h).2 = .ok h2 ∧ h2.p = h.p ∧ h2.sparse = h.sparse ∧
      (h.sparse = true → h2.tmpSet = [] ∧ h2.sparseVals = (mergeSparse h).sparseVals) ∧
      (h.sparse = false → h2.dense = h.dense) ∧ regs h2 = regs h := by
  obtain ⟨h2, e, a, b, c, d⟩ := marshal_roundtrip h w s hsz
  exact ⟨h2, e, a, b, c, d, marshal_regs h h2 w a b c d⟩

/-- every sketch built by `NewPlus` and `Add`s satisfies the hypotheses of `C35_marshal_roundtrip` -/
theorem C35_built_sketch_ok (p : Nat) (e : Plus) (he : newPlus p = some e) (xs : List Nat)
    (hx : ∀ x, x ∈ xs → x < 2 ^ 64) : WF (addAll e xs) ∧ SInv (addAll e xs) :=
  ⟨(sketch_regs p e he xs hx).1, addAll_sinv xs e (newPlus_sinv p e he)⟩

/-- a sparse sketch and a dense one (the normalised copy of another sparse sketch), both with
    content: the hypotheses above are not vacuous -/
def ex0 : Plus := { p := 4, sparse := true, tmpSet := [], sparseVals := [], sparseBytes := 0, dense := #[] }
def exA : Plus := add ex0 (2 ^ 60 + 5)
def exB : Plus := toNormal (add (add ex0 (2 ^ 61 + 2 ^ 40)) 77)

theorem exA_wf : WF exA := ⟨by decide +kernel, by decide +kernel, by decide +kernel⟩
theorem exB_wf : WF exB := ⟨by decide +kernel, by decide +kernel, by decide +kernel⟩

example : exA.sparse = true ∧ exB.sparse = false ∧ exA.p = exB.p ∧
    (match merge exA exB with | .ok x => (regs x).toList | .error _ => []) =
      [54, 58, 20, 0, 0, 0, 0, 0, 0, 0, 0, 0, 0, 0, 0, 0] := by decide +kernel

/-! ### the statement checker on the model -/

/-- the merge laws as operations on model sketches -/
inductive Op where
  | comm (a b : Plus) | assoc (a b c : Plus) | idem (a : Plus)
  /-- sketches of the hash lists `A`, `B` merged, vs the (normalised) sketch of `U` -/
  | union (p : Nat) (A B U : List Nat)
  /-- `UnmarshalBinary(MarshalBinary(a))` vs `a` -/
  | mrt (a : Plus)

/-- `NewPlus(p)` and `Add`s; an unusable precision gives the empty record (excluded by `opOK`) -/
def sketch (p : Nat) (xs : List Nat) : Plus :=
  match newPlus p with
  | some e => addAll e xs
  | none => { p := p, sparse := true, tmpSet := [], sparseVals := [], sparseBytes := 0, dense := #[] }

def okOr (e : Except MErr Plus) (d : Plus) : Plus := match e with | .ok h => h | .error _ => d

/-- the two sides of a law, as the driver computes them (`render` is the driver's way of printing
    a register vector; any function will do) -/
def modelObs (render : Array Nat → String) : Op → Obs
  | .comm a b => .regs .comm (render (regs (okOr (merge a b) a))) (render (regs (okOr (merge b a) a)))
  | .assoc a b c =>
    .regs .assoc (render (regs (okOr (merge (okOr (merge a b) a) c) a)))
                 (render (regs (okOr (merge a (okOr (merge b c) a)) a)))
  | .idem a => .regs .idem (render (regs (okOr (merge a a) a))) (render (regs a))
  | .union p A B U =>
    .regs .union (render (regs (okOr (merge (sketch p A) (sketch p B)) (sketch p A))))
                 (render (regs (okOr (merge (sketch p []) (sketch p U)) (sketch p U))))
  | .mrt a =>
    .regs .mrt (render (regs (match unmarshal (marshal a).2 with | .ok b => b | .error _ => a))) (render (regs a))

example : WF exA ∧ WF exB ∧ exA.p = exB.p := ⟨exA_wf, exB_wf, by decide +kernel⟩

/-- sketches as the API builds them, of one precision -/
def opOK : Op → Prop
  | .comm a b => WF a ∧ WF b ∧ a.p = b.p
  | .assoc a b c => WF a ∧ WF b ∧ WF c ∧ a.p = b.p ∧ b.p = c.p
  | .idem a => WF a
  | .union p A B U => 4 ≤ p ∧ p ≤ 18 ∧ (∀ x, x ∈ A → x < 2 ^ 64) ∧ (∀ x, x ∈ B → x < 2 ^ 64) ∧
      (∀ x, x ∈ U ↔ (x ∈ A ∨ x ∈ B))
  | .mrt a => WF a ∧ SInv a ∧ (encodeVals 0 (mergeSparse a).sparseVals).length < 2 ^ 32

/-- **C35 (partial)**: the statement checker accepts the model's answer to every commutativity,
    associativity, idempotence and union observation, for all well-formed sketches (sparse or dense,
    any content) of equal precision and all hash lists, and to every marshal observation.  Missing:
    equality of estimates (`Count` is not modelled; it reads only fields shown equal) and, by nature,
    the error bound. -/
theorem C35_partial (render : Array Nat → String) (op : Op) (h : opOK op) :
    holdsOn (modelObs render op) = true := by
  cases op with
  | comm a b =>
    obtain ⟨wa, wb, hp⟩ := h
    obtain ⟨x, hx⟩ := merge_ok a b wa wb hp
    obtain ⟨y, hy⟩ := merge_ok b a wb wa hp.symm
    simp [modelObs, holdsOn, hx, hy, okOr, C35_comm a b x y wa wb hx hy]
  | assoc a b c =>
    obtain ⟨wa, wb, wc, hp, hq⟩ := h
    obtain ⟨ab, hab⟩ := merge_ok a b wa wb hp
    obtain ⟨bc, hbc⟩ := merge_ok b c wb wc hq
    have wab := merge_wf a b ab wa wb hab
    have wbc := merge_wf b c bc wb wc hbc
    have pab : ab.p = a.p := (merge_regs a b ab wa wb hab).1
    have pbc : bc.p = b.p := (merge_regs b c bc wb wc hbc).1
    obtain ⟨l, hl⟩ := merge_ok ab c wab wc (by rw [pab, hp, hq])
    obtain ⟨r, hr⟩ := merge_ok a bc wa wbc (by rw [pbc, hp])
    simp [modelObs, holdsOn, hab, hbc, hl, hr, okOr, C35_assoc a b c ab bc l r wa wb wc hab hl hbc hr]
  | idem a =>
    obtain ⟨x, hx⟩ := merge_ok a a h h rfl
    simp [modelObs, holdsOn, hx, okOr, C35_idem a x h hx]
  | union p A B U =>
    obtain ⟨hp4, hp18, hA, hB, hU⟩ := h
    have hnp : ∃ e, newPlus p = some e := by
      unfold newPlus; rw [if_neg (by omega)]; exact ⟨_, rfl⟩
    obtain ⟨e, he⟩ := hnp
    have hUb : ∀ x, x ∈ U → x < 2 ^ 64 := fun x hx => (hU x).mp hx |>.elim (hA x) (hB x)
    obtain ⟨wA, pA, _⟩ := sketch_regs p e he A hA
    obtain ⟨wB, pB, _⟩ := sketch_regs p e he B hB
    obtain ⟨wU, pU, _⟩ := sketch_regs p e he U hUb
    obtain ⟨w0, p0, _⟩ := sketch_regs p e he [] (by simp)
    obtain ⟨c, hc⟩ := merge_ok _ _ wA wB (by rw [pA, pB])
    obtain ⟨n, hn⟩ := merge_ok _ _ w0 wU (by rw [p0, pU])
    have e1 := C35_union p e he A B U c hA hB hU hc
    have e2 : regs n = regs (addAll e U) := by
      have := C35_union p e he [] U U n (by simp) hUb (by simp) hn
      exact this
    simp [modelObs, holdsOn, sketch, he, hc, hn, okOr, e1, e2]
  | mrt a =>
    obtain ⟨w, s, hsz⟩ := h
    obtain ⟨h2, e, _, _, _, _, r⟩ := C35_marshal_roundtrip a w s hsz
    simp [modelObs, holdsOn, e, r]

end Influx.Props.C35
