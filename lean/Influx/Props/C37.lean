/-
  Props.C37 — Sorted timestamp array algebra is set algebra.

  The functions under proof are the model of `tsm1.*Values` / `cursors.*Array`
  (Model/Values.lean), generic in the payload type `V`; timestamps range over ALL
  integers (so every int64 bound, `min > max`, MinInt64/MaxInt64 are included) and
  arrays over all lists (no length bound).  `toMap` is last-write-wins.
-/
import Influx.Lemmas.ValuesMerge
import Influx.Model.ValuesRun

namespace Influx.Props.C37
open Influx.Values Influx.Spec.C37

variable {V : Type}

/-- strictly ascending timestamps = "sorted and deduplicated" -/
abbrev SD (a : List (Int × V)) : Prop := a.Pairwise (fun p q => p.1 < q.1)

theorem sortedDedup_iff_SD (a : List (Int × V)) : sortedDedup a = true ↔ SD a := sortedDedup_iff a

/-! ## Merge -/

/-- **tsm1 Merge is the right-biased union, for ALL inputs** (unsorted, duplicated, empty). -/
theorem mergeV_toMap (a b : List (Int × V)) (t : Int) :
    toMap (mergeV a b) t = (toMap b t).or (toMap a t) := by
  unfold mergeV
  split
  · next h =>
    have : a = [] := by simpa using h
    subst this; simp
  · split
    · next h =>
      have : b = [] := by simpa using h
      subst this; simp
    · have := (mergeCore_spec mergeLoopV (dedup a) (dedup b) (dedup_ssorted a) (dedup_ssorted b)
        (mergeLoopV_spec _ _ (dedup_ssorted a) (dedup_ssorted b))).2 t
      rw [this, toMap_dedup, toMap_dedup]

/-- tsm1 Merge output is strictly ascending when both inputs are non-empty (they
    are deduplicated first) or already sorted.  (With one side empty the other is
    returned as is — the one case where unsorted input stays unsorted.) -/
theorem mergeV_sorted (a b : List (Int × V))
    (h : (a ≠ [] ∧ b ≠ []) ∨ (SD a ∧ SD b)) : SD (mergeV a b) := by
  unfold mergeV
  split
  · next he =>
    have : a = [] := by simpa using he
    subst this
    rcases h with ⟨h1, _⟩ | ⟨_, h2⟩
    · exact absurd rfl h1
    · exact h2
  · split
    · next he =>
      have : b = [] := by simpa using he
      subst this
      rcases h with ⟨_, h1⟩ | ⟨h2, _⟩
      · exact absurd rfl h1
      · exact h2
    · exact (mergeCore_spec mergeLoopV (dedup a) (dedup b) (dedup_ssorted a) (dedup_ssorted b)
        (mergeLoopV_spec _ _ (dedup_ssorted a) (dedup_ssorted b))).1

/-- **cursors Merge** on sorted, deduplicated arrays: right-biased union and sorted. -/
theorem mergeA_spec (a b : List (Int × V)) (ha : SD a) (hb : SD b) :
    SD (mergeA a b) ∧ ∀ t, toMap (mergeA a b) t = (toMap b t).or (toMap a t) := by
  unfold mergeA
  split
  · next h =>
    have : a = [] := by simpa using h
    subst this; exact ⟨hb, fun t => by simp⟩
  · split
    · next h =>
      have : b = [] := by simpa using h
      subst this; exact ⟨ha, fun t => by simp⟩
    · exact mergeCore_spec mergeLoopA a b ha hb (mergeLoopA_spec a b ha hb)

/-- the two families compute the same array on sorted, deduplicated input. -/
theorem mergeA_eq_mergeV (a b : List (Int × V)) (ha : SD a) (hb : SD b) : mergeA a b = mergeV a b := by
  obtain ⟨s, m⟩ := mergeA_spec a b ha hb
  apply ssorted_ext _ _ s (mergeV_sorted a b (Or.inr ⟨ha, hb⟩))
  intro t; rw [m, mergeV_toMap]

/-- the merged array is determined by the statement: any strictly ascending array
    denoting the right-biased union IS the code's answer (so the statement checker
    `holdsOn` leaves no freedom). -/
theorem merge_unique (a b out : List (Int × V)) (ha : SD a) (hb : SD b) (ho : SD out)
    (h : ∀ t, toMap out t = (toMap b t).or (toMap a t)) : out = mergeV a b := by
  apply ssorted_ext _ _ ho (mergeV_sorted a b (Or.inr ⟨ha, hb⟩))
  intro t; rw [h, mergeV_toMap]

/-- merging is idempotent and the empty array is its unit (set-algebra corollaries). -/
theorem mergeV_self (a : List (Int × V)) (ha : SD a) : mergeV a a = a := by
  apply ssorted_ext _ _ (mergeV_sorted a a (Or.inr ⟨ha, ha⟩)) ha
  intro t; rw [mergeV_toMap]; cases toMap a t <;> simp

theorem mergeV_assoc (a b c : List (Int × V)) (ha : SD a) (hb : SD b) (hc : SD c) :
    mergeV (mergeV a b) c = mergeV a (mergeV b c) := by
  apply ssorted_ext _ _
    (mergeV_sorted _ _ (Or.inr ⟨mergeV_sorted a b (Or.inr ⟨ha, hb⟩), hc⟩))
    (mergeV_sorted _ _ (Or.inr ⟨ha, mergeV_sorted b c (Or.inr ⟨hb, hc⟩)⟩))
  intro t
  rw [mergeV_toMap, mergeV_toMap, mergeV_toMap, mergeV_toMap]
  cases toMap c t <;> cases toMap b t <;> simp

/-! ## Exclude / Include -/

/-- **Exclude removes exactly the points of the closed range** — any `lo`, `hi` (also `lo > hi`). -/
theorem exclude_filter (a : List (Int × V)) (lo hi : Int) (ha : SD a) :
    exclude a lo hi = some (a.filter (fun p => !inRange lo hi p.1)) :=
  exclude_eq_filter a lo hi ha

/-- **Include keeps exactly the points of the closed range**. -/
theorem include_filter (a : List (Int × V)) (lo hi : Int) (ha : SD a) :
    «include» a lo hi = some (a.filter (fun p => inRange lo hi p.1)) :=
  include_eq_filter a lo hi ha

theorem toMap_filter (a : List (Int × V)) (P : Int → Bool) (t : Int) :
    toMap (a.filter (fun p => P p.1)) t = if P t then toMap a t else none := by
  induction a with
  | nil => simp
  | cons x r ih =>
    rw [List.filter_cons]
    by_cases hx : P x.1 = true
    · rw [if_pos hx, toMap_cons, ih, toMap_cons]
      by_cases ht : P t = true
      · simp [ht]
      · have : x.1 ≠ t := by intro e; rw [e] at hx; exact ht hx
        simp [ht, single, this]
    · rw [if_neg hx, ih, toMap_cons]
      by_cases ht : P t = true
      · have : x.1 ≠ t := by intro e; rw [e] at hx; exact hx ht
        simp [ht, single, this]
      · simp [ht]

/-- as maps: Exclude is restriction to the outside of `[lo, hi]`. -/
theorem exclude_toMap (a : List (Int × V)) (lo hi : Int) (ha : SD a) :
    ∃ out, exclude a lo hi = some out ∧ SD out ∧
      ∀ t, toMap out t = if lo ≤ t ∧ t ≤ hi then none else toMap a t := by
  refine ⟨_, exclude_filter a lo hi ha, List.Pairwise.filter _ ha, ?_⟩
  intro t
  rw [toMap_filter a (fun t => !inRange lo hi t) t]
  by_cases h : lo ≤ t ∧ t ≤ hi
  · simp [inRange, h]
  · rw [if_neg h, if_pos]; simp only [inRange, Bool.not_eq_true', Bool.and_eq_false_iff, decide_eq_false_iff_not]; omega

/-- as maps: Include is restriction to `[lo, hi]`. -/
theorem include_toMap (a : List (Int × V)) (lo hi : Int) (ha : SD a) :
    ∃ out, «include» a lo hi = some out ∧ SD out ∧
      ∀ t, toMap out t = if lo ≤ t ∧ t ≤ hi then toMap a t else none := by
  refine ⟨_, include_filter a lo hi ha, List.Pairwise.filter _ ha, ?_⟩
  intro t
  rw [toMap_filter a (fun t => inRange lo hi t) t]
  by_cases h : lo ≤ t ∧ t ≤ hi
  · simp [inRange, h]
  · rw [if_neg h, if_neg]; simp only [inRange, Bool.and_eq_true, decide_eq_true_eq]; exact h

/-- an empty range (`lo > hi`) excludes nothing and includes nothing. -/
theorem exclude_empty_range (a : List (Int × V)) (lo hi : Int) (ha : SD a) (h : lo > hi) :
    exclude a lo hi = some a ∧ «include» a lo hi = some [] := by
  rw [exclude_filter a lo hi ha, include_filter a lo hi ha]
  constructor
  · congr 1; apply List.filter_eq_self.mpr; intro p _
    simp only [inRange, Bool.not_eq_true', Bool.and_eq_false_iff, decide_eq_false_iff_not]; omega
  · congr 1; apply List.filter_eq_nil_iff.mpr; intro p _
    simp only [inRange, Bool.and_eq_true, decide_eq_true_eq]; omega

/-! ## search / FindRange -/

/-- **search returns the insertion position** (number of smaller timestamps; non-strictly sorted input suffices). -/
theorem search_insertionPos (a : List (Int × V)) (t : Int) (ha : a.Pairwise (fun p q => p.1 ≤ q.1)) :
    search a t = insertionPos a t := search_eq_countP a t ha

/-- **FindRange**: `(-1,-1)` exactly when the array is empty, the range is empty, or the
    array lies wholly on one side of the range; otherwise both insertion positions. -/
theorem findRange_spec (a : List (Int × V)) (lo hi : Int) (ha : SD a) :
    findRange a lo hi =
      if a = [] ∨ lo > hi ∨ (∀ p ∈ a, p.1 < lo) ∨ (∀ p ∈ a, p.1 > hi) then none
      else some (insertionPos a lo, insertionPos a hi) := by
  unfold findRange
  split
  · next f l hf hl =>
    have hne : a ≠ [] := by intro h; subst h; simp at hf
    have hfm : f ∈ a := List.mem_of_head? hf
    have hlm : l ∈ a := List.mem_of_getLast? hl
    have hL := sorted_le_getLast a (SSorted.sorted ha) l hl
    have hF := sorted_head_le a (SSorted.sorted ha) f hf
    split
    · next h => rw [if_pos (Or.inr (Or.inl h))]
    · next h =>
      split
      · next h2 =>
        rw [if_pos]
        rcases h2 with h2 | h2
        · exact Or.inr (Or.inr (Or.inl (fun p hp => by have := hL p hp; omega)))
        · exact Or.inr (Or.inr (Or.inr (fun p hp => by have := hF p hp; omega)))
      · next h2 =>
        rw [if_neg, search_insertionPos a lo (SSorted.sorted ha), search_insertionPos a hi (SSorted.sorted ha)]
        rintro (h3 | h3 | h3 | h3)
        · exact hne h3
        · exact h h3
        · exact h2 (Or.inl (h3 l hlm))
        · exact h2 (Or.inr (h3 f hfm))
  · next hnone =>
    have : a = [] := by
      cases a with
      | nil => rfl
      | cons x r =>
        exfalso
        have := hnone x ((x :: r).getLast (by simp))
        simp [List.getLast?_eq_some_getLast] at this
    rw [if_pos (Or.inl this)]

/-! ## Deduplicate -/

/-- **Deduplicate** returns the canonical (strictly ascending) array of the same last-write-wins map. -/
theorem dedup_spec (a : List (Int × V)) : SD (dedup a) ∧ ∀ t, toMap (dedup a) t = toMap a t :=
  ⟨dedup_ssorted a, toMap_dedup a⟩

/-- canonical: arrays denoting the same map deduplicate to the same array. -/
theorem dedup_canonical (a b : List (Int × V)) (h : ∀ t, toMap a t = toMap b t) : dedup a = dedup b := by
  apply ssorted_ext _ _ (dedup_ssorted a) (dedup_ssorted b)
  intro t; rw [toMap_dedup, toMap_dedup, h]

theorem dedup_idem (a : List (Int × V)) : dedup (dedup a) = dedup a := dedup_of_ssorted _ (dedup_ssorted a)

/-- `Merge` never reaches the "empty array" arm of `mergeCore` (Go would index `a[len(a)-1]`). -/
theorem dedup_nonempty (a : List (Int × V)) (h : a ≠ []) : dedup a ≠ [] := dedup_ne_nil a h

/-! ## The statement checker accepts the model on every operation -/

theorem unionRightWins_of [DecidableEq V] (a b out : List (Int × V))
    (h : ∀ t, toMap out t = (toMap b t).or (toMap a t)) : unionRightWins a b out = true := by
  unfold unionRightWins
  apply List.all_eq_true.mpr
  intro p _
  have := h p.1
  cases hb : toMap b p.1 <;> simp_all

theorem sameMap_of [DecidableEq V] (a out : List (Int × V)) (h : ∀ t, toMap out t = toMap a t) :
    sameMap a out = true := by
  unfold sameMap
  apply List.all_eq_true.mpr
  intro p _; rw [h]; simp

/-- **C37**: for every operation (all arrays, all bounds), the statement holds of the model's answer. -/
theorem C37_holdsOn [DecidableEq V] (op : Op V) : holdsOn op (run op) = true := by
  unfold holdsOn
  split
  · rfl
  · next hsc =>
    have hsc : inScope op = true := by simpa using hsc
    cases op with
    | merge f a b =>
      cases f with
      | tsm1 =>
        simp only [run, Bool.and_eq_true]
        refine ⟨unionRightWins_of a b _ (mergeV_toMap a b), ?_⟩
        split
        · next hs =>
          simp only [sortedDedup_iff] at hs
          exact (sortedDedup_iff _).mpr (mergeV_sorted a b (Or.inr hs))
        · rfl
      | cursors =>
        simp only [inScope, Bool.and_eq_true, sortedDedup_iff] at hsc
        obtain ⟨s, m⟩ := mergeA_spec a b hsc.1 hsc.2
        simp only [run, Bool.and_eq_true]
        refine ⟨unionRightWins_of a b _ m, ?_⟩
        split
        · exact (sortedDedup_iff _).mpr s
        · rfl
    | exclude a lo hi =>
      simp only [inScope, sortedDedup_iff] at hsc
      simp only [run, exclude_filter a lo hi hsc, optArr]
      simp
    | incl a lo hi =>
      simp only [inScope, sortedDedup_iff] at hsc
      simp only [run, include_filter a lo hi hsc, optArr]
      simp
    | findRange a lo hi =>
      simp only [inScope, sortedDedup_iff] at hsc
      simp only [run, findRange_spec a lo hi hsc]
      by_cases h : a = [] ∨ lo > hi ∨ (∀ p ∈ a, p.1 < lo) ∨ (∀ p ∈ a, p.1 > hi)
      · rw [if_pos h, if_pos]
        · simp
        · rcases h with h | h | h | h
          · subst h; simp
          · simp [h]
          · have : a.all (fun p => decide (p.1 < lo)) = true := List.all_eq_true.mpr (by simpa using h)
            simp [this]
          · have : a.all (fun p => decide (p.1 > hi)) = true := List.all_eq_true.mpr (by simpa using h)
            simp [this]
      · rw [if_neg h, if_neg]
        · simp
        · intro hc
          apply h
          simp only [Bool.or_eq_true, List.isEmpty_iff, decide_eq_true_eq, List.all_eq_true] at hc
          rcases hc with ((hc | hc) | hc) | hc
          · exact Or.inl hc
          · exact Or.inr (Or.inl hc)
          · exact Or.inr (Or.inr (Or.inl hc))
          · exact Or.inr (Or.inr (Or.inr hc))
    | search a t =>
      simp only [inScope, sortedDedup_iff] at hsc
      simp only [run, search_insertionPos a t (SSorted.sorted hsc)]
      simp
    | dedup a =>
      simp only [run, Bool.and_eq_true]
      exact ⟨(sortedDedup_iff _).mpr (dedup_ssorted a), sameMap_of a _ (toMap_dedup a)⟩

/-- checking the map law only at occurring timestamps loses nothing:
    elsewhere every map involved is `none`. -/
theorem toMap_none_of_absent (a : List (Int × V)) (t : Int) (h : ∀ p ∈ a, p.1 ≠ t) : toMap a t = none :=
  toMap_none_of_not_mem a t h

-- non-vacuity / concrete behaviour (second array wins; extremes; empty range)
example : mergeV [((1:Int), "a"), (3, "a")] [(3, "b"), (4, "b")] = [(1, "a"), (3, "b"), (4, "b")] := by
  simp [mergeV, mergeCore, dedup, strictAsc, mergeLoopV]
example : mergeA [((1:Int), "a"), (3, "a")] [(3, "b"), (4, "b")] = [(1, "a"), (3, "b"), (4, "b")] := by
  simp [mergeA, mergeCore, mergeLoopA]
example : mergeV [((3:Int), "x"), (1, "y"), (3, "z")] [(2, "b")] = [(1, "y"), (2, "b"), (3, "z")] := by
  simp [mergeV, mergeCore, dedup, strictAsc, stableSort, insertStable, compact, mergeLoopV]
example : exclude [((-9223372036854775808:Int), 0), (0, 1), (9223372036854775807, 2)]
    (-9223372036854775808) 0 = some [(9223372036854775807, 2)] := by
  rw [exclude_filter _ _ _ (by simp)]; decide
example : «include» [((1:Int), 0), (2, 1)] 2 1 = some [] := by
  rw [include_filter _ _ _ (by simp)]; decide

end Influx.Props.C37
