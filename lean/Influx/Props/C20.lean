/-
  Props.C20 — Windowed aggregate pushdown equals aggregating the raw data.

  The cursors under proof are the state machines of `Influx.Model.WindowAgg`
  (written from storage/reads/array_cursor.gen.go, compared with the real cursors on
  every run).  Theorems hold for every value arithmetic `Ops`, every block size
  `B ≥ 1`, every cutting of the input into non-empty arrays and shards, every number
  of points (no bound anywhere).
-/
import Influx.Lemmas.WindowAggFolders
import Influx.Lemmas.WindowAggFirst
import Influx.Lemmas.WindowAggLast
import Influx.Model.WindowAggReq

namespace Influx.Props.C20
open Influx.WindowAgg Influx.Spec.C20
variable {α : Type}

/-- the five accumulating aggregates -/
def IsFold (agg : Agg) : Prop := agg = .count ∨ agg = .sum ∨ agg = .min ∨ agg = .max ∨ agg = .mean

/-- the window function the cursors use (Go's truncated division with adjustment) is the
    floor-division window of the statement -/
theorem ofWindow_stop (every offset : Int) (h : 0 < every) :
    (Win.ofWindow ⟨every, every, offset⟩).stop = (W.every every offset).stopOf := by
  funext t
  simp only [Win.ofWindow, Window.Window.getLatestBounds, Window.Window.at, W.stopOf,
    Window.lastIndex_eq_fdiv _ _ _ h]
  rw [Int.add_mul, Int.one_mul, Int.mul_comm]; omega

/-- the request's window: `reqWin` (the code) against `reqW` (the statement) -/
theorem reqWin_spec (every offset : Int) (h : 0 < every) :
    ∃ w, reqWin every offset = some w ∧ w.OK ∧ w.stop = (reqW every offset).stopOf := by
  unfold reqWin reqW
  by_cases hm : every = maxInt64
  · refine ⟨Win.zero, ?_, Win.zero_OK, ?_⟩
    · simp [hm, maxInt64]
    · have : every = 9223372036854775807 := hm
      simp only [this, Win.zero, maxInt64, ↓reduceIte]
      funext t; rfl
  · have hm' : ¬ every = 9223372036854775807 := hm
    refine ⟨Win.ofWindow ⟨every, every, offset⟩, ?_, Win.ofWindow_OK every offset h, ?_⟩
    · simp [hm, Int.not_le.mpr h]
    · simp [hm', ofWindow_stop every offset h]

/-- **Chunking and block-boundary independence** (accumulating cursors): for every cutting
    `chunks` of the input into non-empty arrays and every `B ≥ 1`, the arrays returned by
    `Next()` until exhaustion concatenate to the grouped aggregate of the concatenated input. -/
theorem C20_fold (B : Nat) (hB : 1 ≤ B) (o : Ops α) (agg : Agg) (hagg : IsFold agg) (w : Win) (hw : w.OK)
    (chunks : List (List (Pt α))) (hne : ∀ c ∈ chunks, c ≠ []) (hs : Sorted chunks.flatten)
    (fuel : Nat) (hfuel : chunks.flatten.length < fuel) :
    ∃ arrs, drain (Cursor.next B o w) fuel (Cursor.new agg w chunks) = some arrs ∧
      arrs.flatten = aggSpec o agg w.stop chunks.flatten ∧ (∀ a ∈ arrs, a ≠ []) := by
  have key : ∀ {γ : Type} (F : Folder α γ),
      (∀ s p qs, aggregate o agg s (p :: qs) = some (F.fin s (foldG F p qs))) →
      (∀ t : St α, Cursor.next B o w (.fold agg t) =
        (some (Fold.next B F w t)).map (fun r => (Cursor.fold agg r.1, r.2))) →
      Cursor.new agg w chunks = .fold agg ⟨[], chunks⟩ →
      ∃ arrs, drain (Cursor.next B o w) fuel (Cursor.new agg w chunks) = some arrs ∧
        arrs.flatten = aggSpec o agg w.stop chunks.flatten ∧ (∀ a ∈ arrs, a ≠ []) := by
    intro γ F hF hstep hnew
    rw [hnew, drain_sim (Cursor.next B o w) (fun s => some (Fold.next B F w s)) (Cursor.fold agg) hstep]
    obtain ⟨arrs, h1, h2, h3⟩ := Fold.drain_spec B hB F w fuel ⟨[], chunks⟩ hne (by simpa [St.rest] using hfuel)
    refine ⟨arrs, h1, ?_, h3⟩
    rw [h2]
    simpa [St.rest] using seqAll_eq_aggSpec o agg F w hw hF chunks.flatten hs
  rcases hagg with rfl | rfl | rfl | rfl | rfl
  · exact key (countF o) (hF_count o) (fun _ => rfl) rfl
  · exact key (sumF o) (hF_sum o) (fun _ => rfl) rfl
  · exact key (minF o) (hF_min o) (fun _ => rfl) rfl
  · exact key (maxF o) (hF_max o) (fun _ => rfl) rfl
  · exact key (meanF o) (hF_mean o) (fun _ => rfl) rfl

/-- the arrays a request sees: shards one after the other, exhausted shards skipped -/
theorem newReq_fold (agg : Agg) (hagg : IsFold agg) (w : Win) (shards : List (List (List (Pt α)))) :
    Cursor.newReq agg w shards = Cursor.new agg w (shards.flatten.filter (fun c => !c.isEmpty)) := by
  unfold Cursor.newReq
  have : agg ≠ .last := by rcases hagg with rfl | rfl | rfl | rfl | rfl <;> simp
  simp [this]

theorem flatten_filter_nonempty (cs : List (List (Pt α))) :
    (cs.filter (fun c => !c.isEmpty)).flatten = cs.flatten := by
  induction cs with
  | nil => rfl
  | cons c cs ih =>
    cases c with
    | nil => simpa [List.filter_cons] using ih
    | cons p ps => simp [ih]

/-- **C20 on the model, request level** (partial: the five accumulating aggregates
    count, sum, min, max, mean; first/last: `C20_first`, `C20_last` below).
    For every valid request window, every distribution of the time-ordered points over
    shards and arrays, every block size: the statement checker accepts what the model returns. -/
theorem C20_holdsOn_partial [DecidableEq α] (B : Nat) (hB : 1 ≤ B) (o : Ops α) (agg : Agg) (hagg : IsFold agg)
    (every offset : Int) (he : 0 < every)
    (shards : List (List (List (Pt α)))) (hs : Sorted shards.flatten.flatten)
    (fuel : Nat) (hfuel : shards.flatten.flatten.length < fuel) :
    ∃ w, reqWin every offset = some w ∧
      holdsOn o ⟨agg, reqW every offset, shards.flatten.flatten,
        drain (Cursor.next B o w) fuel (Cursor.newReq agg w shards)⟩ = true := by
  obtain ⟨w, hw1, hw2, hw3⟩ := reqWin_spec every offset he
  refine ⟨w, hw1, ?_⟩
  rw [newReq_fold agg hagg]
  have hne : ∀ c ∈ shards.flatten.filter (fun c => !c.isEmpty), c ≠ [] := by
    intro c hc
    have := (List.mem_filter.mp hc).2
    intro h; simp [h] at this
  have hfl := flatten_filter_nonempty shards.flatten
  obtain ⟨arrs, h1, h2, _⟩ := C20_fold B hB o agg hagg w hw2 _ hne (by rw [hfl]; exact hs) fuel (by rw [hfl]; exact hfuel)
  simp only [holdsOn, h1, h2, hfl, hw3, decide_true]

/-- two block sizes and two cuttings of the same points give the same rows. -/
theorem C20_block_independent (B1 B2 : Nat) (h1 : 1 ≤ B1) (h2 : 1 ≤ B2) (o : Ops α) (agg : Agg) (hagg : IsFold agg)
    (w : Win) (hw : w.OK) (cs1 cs2 : List (List (Pt α)))
    (hne1 : ∀ c ∈ cs1, c ≠ []) (hne2 : ∀ c ∈ cs2, c ≠ []) (heq : cs1.flatten = cs2.flatten) (hs : Sorted cs1.flatten)
    (fuel : Nat) (hfuel : cs1.flatten.length < fuel) :
    ∃ a1 a2, drain (Cursor.next B1 o w) fuel (Cursor.new agg w cs1) = some a1 ∧
      drain (Cursor.next B2 o w) fuel (Cursor.new agg w cs2) = some a2 ∧ a1.flatten = a2.flatten := by
  obtain ⟨a1, p1, q1, _⟩ := C20_fold B1 h1 o agg hagg w hw cs1 hne1 hs fuel hfuel
  obtain ⟨a2, p2, q2, _⟩ := C20_fold B2 h2 o agg hagg w hw cs2 hne2 (heq ▸ hs) fuel (heq ▸ hfuel)
  exact ⟨a1, a2, p1, p2, by rw [q1, q2, heq]⟩

/-! ### first / last -/

/-- **first, windowed**: chunking / block independence and equality with the statement. -/
theorem C20_first (B : Nat) (hB : 1 ≤ B) (o : Ops α) (w : Win) (hw : w.OK) (hz : w.isZero = false)
    (chunks : List (List (Pt α))) (hne : ∀ c ∈ chunks, c ≠ []) (hs : Sorted chunks.flatten)
    (fuel : Nat) (hfuel : chunks.flatten.length < fuel) :
    ∃ arrs, drain (Cursor.next B o w) fuel (Cursor.new .first w chunks) = some arrs ∧
      arrs.flatten = aggSpec o .first w.stop chunks.flatten ∧ (∀ a ∈ arrs, a ≠ []) := by
  have hnew : Cursor.new .first w chunks = Cursor.first ⟨⟨[], chunks⟩, none⟩ := by simp [Cursor.new, hz]
  rw [hnew, drain_sim (Cursor.next B o w) (fun s => some (First.next B w s)) Cursor.first (fun _ => rfl)]
  obtain ⟨arrs, h1, h2, h3⟩ := First.drain_spec B hB w fuel ⟨⟨[], chunks⟩, none⟩ hne (by simpa [St.rest] using hfuel)
  refine ⟨arrs, h1, ?_, h3⟩
  rw [h2]
  simpa [St.rest] using First.seqF_eq_aggSpec o w hw hz chunks.flatten hs

/-- **last, windowed**: the Go code does not hit its index panic, and the arrays concatenate to
    the last point of every window. -/
theorem C20_last (B : Nat) (hB : 1 ≤ B) (o : Ops α) (w : Win) (hw : w.OK) (hz : w.isZero = false)
    (chunks : List (List (Pt α))) (hne : ∀ c ∈ chunks, c ≠ []) (hs : Sorted chunks.flatten)
    (fuel : Nat) (hfuel : chunks.flatten.length < fuel) :
    ∃ arrs, drain (Cursor.next B o w) fuel (Cursor.new .last w chunks) = some arrs ∧
      arrs.flatten = aggSpec o .last w.stop chunks.flatten ∧ (∀ a ∈ arrs, a ≠ []) := by
  have hnew : Cursor.new .last w chunks = Cursor.last ⟨⟨[], chunks⟩, none⟩ := by simp [Cursor.new, hz]
  have hstep : ∀ t : Last.State α, Cursor.next B o w (Cursor.last t) =
      (Last.next B w t).map (fun r => (Cursor.last r.1, r.2)) := fun _ => rfl
  rw [hnew, drain_sim (Cursor.next B o w) (Last.next B w) Cursor.last hstep]
  have hspec := Last.seqL_eq_aggSpec o w hw hz chunks.flatten hs
  exact Last.drain_spec B hB w fuel ⟨⟨[], chunks⟩, none⟩ _ hne (by simpa [St.rest] using hfuel)
    (by simpa [St.rest] using hspec)

/-- the statement for one window over everything: first = first point, last = last point -/
theorem aggSpec_const_first (o : Ops α) (c : Int) (p : Pt α) (ps : List (Pt α)) :
    aggSpec o .first (fun _ => c) (p :: ps) = [p] := by
  rw [aggSpec]
  have hf : ∀ l : List (Pt α), List.filter (fun _ : Pt α => false) l = [] :=
    fun l => List.filter_eq_nil_iff.mpr (by simp)
  simp [aggregate, hf, aggSpec]

theorem aggSpec_const_last (o : Ops α) (c : Int) (p : Pt α) (ps : List (Pt α)) :
    aggSpec o .last (fun _ => c) (p :: ps) = [(p :: ps).getLast (List.cons_ne_nil _ _)] := by
  rw [aggSpec]
  have hf : ∀ l : List (Pt α), List.filter (fun _ : Pt α => false) l = [] :=
    fun l => List.filter_eq_nil_iff.mpr (by simp)
  have ht : ∀ l : List (Pt α), List.filter (fun _ : Pt α => true) l = l :=
    fun l => List.filter_eq_self.mpr (by simp)
  simp [aggregate, hf, ht, aggSpec]

/-- `newLimitArrayCursor`: the first point of what the cursor returns, then nothing -/
theorem limit_drain (o : Ops α) (w : Win) (B : Nat) (chunks : List (List (Pt α))) (hne : ∀ c ∈ chunks, c ≠ [])
    (fuel : Nat) (hfuel : 2 ≤ fuel) :
    drain (Cursor.next B o w) fuel (Cursor.limit ⟨chunks, false⟩) =
      some (match chunks.flatten with | [] => [] | p :: _ => [[p]]) := by
  obtain ⟨n, rfl⟩ : ∃ n, fuel = n + 2 := ⟨fuel - 2, by omega⟩
  cases chunks with
  | nil => simp [drain, Cursor.next, Limit.next, pop]
  | cons c cs =>
    have hc : c ≠ [] := hne c (by simp)
    cases c with
    | nil => exact absurd rfl hc
    | cons p ps => simp [drain, Cursor.next, Limit.next, pop]

/-- **first / last over the whole range** (`every = MaxInt64`): the limit cursor over the
    ascending (first) resp. descending (last) cursor. -/
theorem C20_first_last_zero (B : Nat) (o : Ops α) (agg : Agg) (hagg : agg = .first ∨ agg = .last)
    (shards : List (List (List (Pt α)))) (fuel : Nat) (hfuel : 2 ≤ fuel) :
    ∃ arrs, drain (Cursor.next B o Win.zero) fuel (Cursor.newReq agg Win.zero shards) = some arrs ∧
      arrs.flatten = aggSpec o agg Win.zero.stop shards.flatten.flatten := by
  have hfl := flatten_filter_nonempty shards.flatten
  have hne : ∀ c ∈ shards.flatten.filter (fun c => !c.isEmpty), c ≠ [] := by
    intro c hc h; have := (List.mem_filter.mp hc).2; simp [h] at this
  rcases hagg with rfl | rfl
  · have hnew : Cursor.newReq .first Win.zero shards = Cursor.limit ⟨shards.flatten.filter (fun c => !c.isEmpty), false⟩ := by
      simp [Cursor.newReq, Cursor.new, Win.zero]
    rw [hnew, limit_drain o Win.zero B _ hne fuel hfuel, hfl]
    refine ⟨_, rfl, ?_⟩
    cases h : shards.flatten.flatten with
    | nil => simp [aggSpec]
    | cons p ps => simp [Win.zero, aggSpec_const_first]
  · generalize hinp : shards.flatten.filter (fun c => !c.isEmpty) = inp at hfl hne
    have hne' : ∀ c ∈ inp.reverse.map List.reverse, c ≠ [] := by
      intro c hc
      simp only [List.mem_map, List.mem_reverse] at hc
      obtain ⟨d, hd, rfl⟩ := hc
      intro h; exact hne d hd (by simpa using h)
    have hnew : Cursor.newReq .last Win.zero shards = Cursor.limit ⟨inp.reverse.map List.reverse, false⟩ := by
      simp [Cursor.newReq, Cursor.new, Win.zero, hinp]
    have hrev : (inp.reverse.map List.reverse).flatten = shards.flatten.flatten.reverse := by
      rw [← hfl, List.reverse_flatten, List.map_reverse]
    rw [hnew, limit_drain o Win.zero B _ hne' fuel hfuel, hrev]
    refine ⟨_, rfl, ?_⟩
    cases h : shards.flatten.flatten with
    | nil => simp [aggSpec]
    | cons p ps =>
      have hr : (p :: ps).reverse = (p :: ps).getLast (List.cons_ne_nil _ _) :: (p :: ps).dropLast.reverse := by
        conv => lhs; rw [← List.dropLast_concat_getLast (List.cons_ne_nil p ps)]
        simp
      rw [hr]
      simp [Win.zero, aggSpec_const_last]

/-- **C20 on the model, request level, all seven aggregates.**  For every valid request window
    (`every > 0`, including `MaxInt64` = whole range), every distribution of the time-ordered
    points over shards and arrays, every block size `B ≥ 1`, every value arithmetic: the
    statement checker accepts what the model returns. -/
theorem C20_holdsOn [DecidableEq α] (B : Nat) (hB : 1 ≤ B) (o : Ops α) (agg : Agg)
    (every offset : Int) (he : 0 < every)
    (shards : List (List (List (Pt α)))) (hs : Sorted shards.flatten.flatten)
    (fuel : Nat) (hfuel : shards.flatten.flatten.length + 1 < fuel) :
    ∃ w, reqWin every offset = some w ∧
      holdsOn o ⟨agg, reqW every offset, shards.flatten.flatten,
        drain (Cursor.next B o w) fuel (Cursor.newReq agg w shards)⟩ = true := by
  by_cases hfold : IsFold agg
  · exact C20_holdsOn_partial B hB o agg hfold every offset he shards hs fuel (by omega)
  · have hfl : agg = .first ∨ agg = .last := by
      cases agg <;> simp [IsFold] at hfold ⊢
    obtain ⟨w, hw1, hw2, hw3⟩ := reqWin_spec every offset he
    refine ⟨w, hw1, ?_⟩
    have hfl' := flatten_filter_nonempty shards.flatten
    have hne : ∀ c ∈ shards.flatten.filter (fun c => !c.isEmpty), c ≠ [] := by
      intro c hc h; have := (List.mem_filter.mp hc).2; simp [h] at this
    by_cases hz : every = maxInt64
    · -- whole range
      have hwz : w = Win.zero := by
        have : reqWin every offset = some Win.zero := by simp [reqWin, hz, maxInt64]
        rw [this] at hw1; exact (Option.some.inj hw1).symm
      subst hwz
      obtain ⟨arrs, h1, h2⟩ := C20_first_last_zero B o agg hfl shards fuel (by omega)
      simp only [holdsOn, h1, h2, hw3, decide_true]
    · have hwz : w.isZero = false := by
        have : reqWin every offset = some (Win.ofWindow ⟨every, every, offset⟩) := by
          simp [reqWin, hz, Int.not_le.mpr he]
        rw [this] at hw1; rw [← Option.some.inj hw1]; rfl
      have hnew : Cursor.newReq agg w shards = Cursor.new agg w (shards.flatten.filter (fun c => !c.isEmpty)) := by
        simp [Cursor.newReq, hwz]
      rw [hnew]
      rcases hfl with rfl | rfl
      · obtain ⟨arrs, h1, h2, _⟩ := C20_first B hB o w hw2 hwz _ hne (by rw [hfl']; exact hs) fuel (by rw [hfl']; omega)
        simp only [holdsOn, h1, h2, hfl', hw3, decide_true]
      · obtain ⟨arrs, h1, h2, _⟩ := C20_last B hB o w hw2 hwz _ hne (by rw [hfl']; exact hs) fuel (by rw [hfl']; omega)
        simp only [holdsOn, h1, h2, hfl', hw3, decide_true]

/-! ### the direction decision (translated code) -/

open Influx.Generated.WAReq in
/-- **Exact characterisation of `IsLastDescendingAggregateOptimization`** (the function is
    regenerated from aggregate_resultset.go on every run): descending cursors are requested
    exactly for a single `last` aggregate whose window is "no window". -/
theorem isLastDesc_iff (req : WAReq.Req) :
    IsLastDescendingAggregateOptimization req = true ↔
      (req.Aggregate = [Aggregate_AggregateTypeLast] ∧
        match req.Window with
        | none => req.WindowEvery = 0 ∨ req.WindowEvery = 9223372036854775807
        | some w => (w.Every.Nsecs = 0 ∧ w.Every.Months = 0) ∨ w.Every.Nsecs = 9223372036854775807) := by
  obtain ⟨aggs, we, off, win⟩ := req
  unfold IsLastDescendingAggregateOptimization
  rcases aggs with _ | ⟨a, _ | ⟨b, rest⟩⟩
  · simp
  · cases win with
    | none =>
      by_cases ha : a = Aggregate_AggregateTypeLast <;>
        simp [WAReq.Req.agg0, ha]
    | some w =>
      by_cases ha : a = Aggregate_AggregateTypeLast <;>
        simp [WAReq.Req.agg0, WAReq.Req.everyNsecs, WAReq.Req.everyMonths, ha]
  · simp

open Influx.Generated.WAReq in
/-- **The descending optimisation is never chosen for a calendar window** (months only:
    `Nsecs = 0`, `Months ≠ 0`): such a request keeps ascending cursors, which is what the
    windowed `last` cursor built by `createCursor` needs. -/
theorem C20_desc_never_calendar (aggs : List Int) (we off : Int) (w : WAReq.WinMsg)
    (h0 : w.Every.Nsecs = 0) (hm : w.Every.Months ≠ 0) :
    IsLastDescendingAggregateOptimization ⟨aggs, we, off, some w⟩ = false := by
  apply Bool.eq_false_iff.mpr
  intro h
  have := ((isLastDesc_iff _).mp h).2
  simp only at this
  rcases this with ⟨_, h2⟩ | h2
  · exact hm h2
  · rw [h0] at h2; cases h2

open Influx.Generated.WAReq in
/-- the direction decision and the cursor factory agree on "no window" for the legacy
    request form: descending exactly when the model's `Cursor.newReq` reverses the input -/
theorem C20_desc_agrees (agg : Agg) (every offset : Int) (w : Win) (hw : reqWin every offset = some w) :
    IsLastDescendingAggregateOptimization (reqLegacy agg every offset) = (decide (agg = .last) && w.isZero) := by
  unfold reqWin at hw
  by_cases he : every ≤ 0
  · simp [he] at hw
  · simp only [he, ↓reduceIte] at hw
    have hcode : (agg.code = Aggregate_AggregateTypeLast) ↔ agg = .last := by
      cases agg <;> simp [Agg.code, Aggregate_AggregateTypeLast, Aggregate_AggregateTypeCount,
        Aggregate_AggregateTypeSum, Aggregate_AggregateTypeMin, Aggregate_AggregateTypeMax,
        Aggregate_AggregateTypeMean, Aggregate_AggregateTypeFirst]
    by_cases hm : every = maxInt64
    · simp only [hm, ↓reduceIte, Option.some.injEq] at hw
      subst hw
      by_cases ha : agg = .last
      · have := (isLastDesc_iff (reqLegacy agg every offset)).mpr
          ⟨by simp [reqLegacy, hcode.mpr ha], by simp [reqLegacy, hm, maxInt64]⟩
        rw [this]; simp [ha, Win.zero]
      · have : IsLastDescendingAggregateOptimization (reqLegacy agg every offset) = false := by
          apply Bool.eq_false_iff.mpr
          intro h
          have := ((isLastDesc_iff _).mp h).1
          simp only [reqLegacy, List.cons.injEq, and_true] at this
          exact ha (hcode.mp this)
        rw [this]; simp [ha]
    · simp only [hm, ↓reduceIte, Option.some.injEq] at hw
      subst hw
      have : IsLastDescendingAggregateOptimization (reqLegacy agg every offset) = false := by
        apply Bool.eq_false_iff.mpr
        intro h
        have := ((isLastDesc_iff _).mp h).2
        simp only [reqLegacy] at this
        rcases this with h1 | h1
        · omega
        · exact hm h1
      rw [this]; simp [Win.ofWindow]

theorem newReqD_eq_newReq (agg : Agg) (w : Win) (shards : List (List (List (Pt α)))) :
    Cursor.newReqD (decide (agg = .last) && w.isZero) agg w shards = Cursor.newReq agg w shards := by
  unfold Cursor.newReqD Cursor.newReq
  by_cases h : agg = .last ∧ w.isZero = true
  · simp [h.1, h.2]
  · have : (decide (agg = .last) && w.isZero) = false := by
      rw [Bool.and_eq_false_iff]
      by_cases ha : agg = .last
      · right; simpa using fun hz => h ⟨ha, hz⟩
      · left; simp [ha]
    rw [this]
    simp only [Bool.false_eq_true, ↓reduceIte]
    rw [if_neg h]

-- non-vacuity: a concrete request (3 windows of `every = 10`, two shards, three arrays, B = 2)
example : ∃ w, reqWin 10 3 = some w ∧
    drain (Cursor.next 2 (⟨0, (· + ·), (decide <| · < ·), Int.ofNat, fun s _ => s⟩ : Ops Int) w) 10
      (Cursor.newReq .sum w [[[(1, 5), (4, 6)], [(13, 7)]], [[(14, 1), (23, 2)]]])
    = some [[(3, 5), (13, 6)], [(23, 8), (33, 2)]] := ⟨_, rfl, by decide⟩

end Influx.Props.C20
