/-
  Props.C20 — Windowed aggregate pushdown equals aggregating the raw data.

  The cursors under proof are the state machines of `Influx.Model.WindowAgg`
  (written from storage/reads/array_cursor.gen.go, compared with the real cursors on
  every run).  Theorems hold for every value arithmetic `Ops`, every block size
  `B ≥ 1`, every cutting of the input into non-empty arrays and shards, every number
  of points (no bound anywhere).
-/
import Influx.Lemmas.WindowAggFolders

namespace Influx.Props.C20
open Influx.WindowAgg Influx.Spec.C20
variable {α : Type}

/-- the five accumulating aggregates -/
def IsFold (agg : Agg) : Prop := agg = .count ∨ agg = .sum ∨ agg = .min ∨ agg = .max ∨ agg = .mean

/-- the window function the cursors use (Go's truncated division with adjustment) is the
    floor-division window of the statement -/
theorem ofWindow_stop (every offset : Int) (h : 0 < every) :
    (Win.ofWindow ⟨every, every, offset⟩).stop = (W.every every offset).stopOf := by
  funext t
  simp only [Win.ofWindow, Window.Window.getLatestBounds, Window.Window.at, W.stopOf,
    Window.lastIndex_eq_fdiv _ _ _ h]
  rw [Int.add_mul, Int.one_mul, Int.mul_comm]; omega

/-- the request's window: `reqWin` (the code) against `reqW` (the statement) -/
theorem reqWin_spec (every offset : Int) (h : 0 < every) :
    ∃ w, reqWin every offset = some w ∧ w.OK ∧ w.stop = (reqW every offset).stopOf := by
  unfold reqWin reqW
  by_cases hm : every = maxInt64
  · refine ⟨Win.zero, ?_, Win.zero_OK, ?_⟩
    · simp [hm, maxInt64]
    · have : every = 9223372036854775807 := hm
      simp only [this, Win.zero, maxInt64, ↓reduceIte]
      funext t; rfl
  · have hm' : ¬ every = 9223372036854775807 := hm
    refine ⟨Win.ofWindow ⟨every, every, offset⟩, ?_, Win.ofWindow_OK every offset h, ?_⟩
    · simp [hm, Int.not_le.mpr h]
    · simp [hm', ofWindow_stop every offset h]

/-- **Chunking and block-boundary independence** (accumulating cursors): for every cutting
    `chunks` of the input into non-empty arrays and every `B ≥ 1`, the arrays returned by
    `Next()` until exhaustion concatenate to the grouped aggregate of the concatenated input. -/
theorem C20_fold (B : Nat) (hB : 1 ≤ B) (o : Ops α) (agg : Agg) (hagg : IsFold agg) (w : Win) (hw : w.OK)
    (chunks : List (List (Pt α))) (hne : ∀ c ∈ chunks, c ≠ []) (hs : Sorted chunks.flatten)
    (fuel : Nat) (hfuel : chunks.flatten.length < fuel) :
    ∃ arrs, drain (Cursor.next B o w) fuel (Cursor.new agg w chunks) = some arrs ∧
      arrs.flatten = aggSpec o agg w.stop chunks.flatten ∧ (∀ a ∈ arrs, a ≠ []) := by
  have key : ∀ {γ : Type} (F : Folder α γ),
      (∀ s p qs, aggregate o agg s (p :: qs) = some (F.fin s (foldG F p qs))) →
      (∀ t : St α, Cursor.next B o w (.fold agg t) =
        (some (Fold.next B F w t)).map (fun r => (Cursor.fold agg r.1, r.2))) →
      Cursor.new agg w chunks = .fold agg ⟨[], chunks⟩ →
      ∃ arrs, drain (Cursor.next B o w) fuel (Cursor.new agg w chunks) = some arrs ∧
        arrs.flatten = aggSpec o agg w.stop chunks.flatten ∧ (∀ a ∈ arrs, a ≠ []) := by
    intro γ F hF hstep hnew
    rw [hnew, drain_sim (Cursor.next B o w) (fun s => some (Fold.next B F w s)) (Cursor.fold agg) hstep]
    obtain ⟨arrs, h1, h2, h3⟩ := Fold.drain_spec B hB F w fuel ⟨[], chunks⟩ hne (by simpa [St.rest] using hfuel)
    refine ⟨arrs, h1, ?_, h3⟩
    rw [h2]
    simpa [St.rest] using seqAll_eq_aggSpec o agg F w hw hF chunks.flatten hs
  rcases hagg with rfl | rfl | rfl | rfl | rfl
  · exact key (countF o) (hF_count o) (fun _ => rfl) rfl
  · exact key (sumF o) (hF_sum o) (fun _ => rfl) rfl
  · exact key (minF o) (hF_min o) (fun _ => rfl) rfl
  · exact key (maxF o) (hF_max o) (fun _ => rfl) rfl
  · exact key (meanF o) (hF_mean o) (fun _ => rfl) rfl

/-- the arrays a request sees: shards one after the other, exhausted shards skipped -/
theorem newReq_fold (agg : Agg) (hagg : IsFold agg) (w : Win) (shards : List (List (List (Pt α)))) :
    Cursor.newReq agg w shards = Cursor.new agg w (shards.flatten.filter (fun c => !c.isEmpty)) := by
  unfold Cursor.newReq
  have : agg ≠ .last := by rcases hagg with rfl | rfl | rfl | rfl | rfl <;> simp
  simp [this]

theorem flatten_filter_nonempty (cs : List (List (Pt α))) :
    (cs.filter (fun c => !c.isEmpty)).flatten = cs.flatten := by
  induction cs with
  | nil => rfl
  | cons c cs ih =>
    cases c with
    | nil => simpa [List.filter_cons] using ih
    | cons p ps => simp [ih]

/-- **C20 on the model, request level** (partial: the five accumulating aggregates
    count, sum, min, max, mean; first/last: `C20_first`, `C20_last` below).
    For every valid request window, every distribution of the time-ordered points over
    shards and arrays, every block size: the statement checker accepts what the model returns. -/
theorem C20_holdsOn_partial [DecidableEq α] (B : Nat) (hB : 1 ≤ B) (o : Ops α) (agg : Agg) (hagg : IsFold agg)
    (every offset : Int) (he : 0 < every)
    (shards : List (List (List (Pt α)))) (hs : Sorted shards.flatten.flatten)
    (fuel : Nat) (hfuel : shards.flatten.flatten.length < fuel) :
    ∃ w, reqWin every offset = some w ∧
      holdsOn o ⟨agg, reqW every offset, shards.flatten.flatten,
        drain (Cursor.next B o w) fuel (Cursor.newReq agg w shards)⟩ = true := by
  obtain ⟨w, hw1, hw2, hw3⟩ := reqWin_spec every offset he
  refine ⟨w, hw1, ?_⟩
  rw [newReq_fold agg hagg]
  have hne : ∀ c ∈ shards.flatten.filter (fun c => !c.isEmpty), c ≠ [] := by
    intro c hc
    have := (List.mem_filter.mp hc).2
    intro h; simp [h] at this
  have hfl := flatten_filter_nonempty shards.flatten
  obtain ⟨arrs, h1, h2, _⟩ := C20_fold B hB o agg hagg w hw2 _ hne (by rw [hfl]; exact hs) fuel (by rw [hfl]; exact hfuel)
  simp only [holdsOn, h1, h2, hfl, hw3, decide_true]

/-- two block sizes and two cuttings of the same points give the same rows. -/
theorem C20_block_independent (B1 B2 : Nat) (h1 : 1 ≤ B1) (h2 : 1 ≤ B2) (o : Ops α) (agg : Agg) (hagg : IsFold agg)
    (w : Win) (hw : w.OK) (cs1 cs2 : List (List (Pt α)))
    (hne1 : ∀ c ∈ cs1, c ≠ []) (hne2 : ∀ c ∈ cs2, c ≠ []) (heq : cs1.flatten = cs2.flatten) (hs : Sorted cs1.flatten)
    (fuel : Nat) (hfuel : cs1.flatten.length < fuel) :
    ∃ a1 a2, drain (Cursor.next B1 o w) fuel (Cursor.new agg w cs1) = some a1 ∧
      drain (Cursor.next B2 o w) fuel (Cursor.new agg w cs2) = some a2 ∧ a1.flatten = a2.flatten := by
  obtain ⟨a1, p1, q1, _⟩ := C20_fold B1 h1 o agg hagg w hw cs1 hne1 hs fuel hfuel
  obtain ⟨a2, p2, q2, _⟩ := C20_fold B2 h2 o agg hagg w hw cs2 hne2 (heq ▸ hs) fuel (heq ▸ hfuel)
  exact ⟨a1, a2, p1, p2, by rw [q1, q2, heq]⟩

-- non-vacuity: a concrete request (3 windows of `every = 10`, two shards, three arrays, B = 2)
example : ∃ w, reqWin 10 3 = some w ∧
    drain (Cursor.next 2 (⟨0, (· + ·), (decide <| · < ·), Int.ofNat, fun s _ => s⟩ : Ops Int) w) 10
      (Cursor.newReq .sum w [[[(1, 5), (4, 6)], [(13, 7)]], [[(14, 1), (23, 2)]]])
    = some [[(3, 5), (13, 6)], [(23, 8), (33, 2)]] := ⟨_, rfl, by decide⟩

end Influx.Props.C20
