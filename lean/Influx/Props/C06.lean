/-
  Props.C06 — theorems about the KeyCursor model (Influx.Model.KeyCursor / KCRun) and the
  statement Influx.Spec.C06.holdsOn.  Helper lemmas live in Influx.Lemmas.KC*.

  What is proved (unbounded: any number of files, blocks, points, tombstones; any int64 times):

  * C06_partial / C06_holdsOn_partial — for every layout that satisfies what the TSM writer
    guarantees (`filesOK`), every seek time other than the int64 extreme at which `t∓1` wraps
    (`seekOK`), both directions, and EVERY post-sort order of `KeyCursor.seeks` in which an older
    file's entry precedes every overlapping newer file's entry (`orderOK`): the model's read
    loop terminates without index panic, returns only non-empty blocks, and the blocks satisfy
    the statement of C06 (every live point at/after resp. at/before `t`, exactly once, in order,
    newest file's value) — including the effect of the deletes on the files' index entries and
    tombstones (indirectIndex.DeleteRange).
  * C06_seeks_asc / C06_seeks_desc — the same for arbitrary well-formed locations with an
    abstract payload type.
  * C06_insertion — no hypothesis on the order: FileStore.locations lists the locations in an
    OrderOK order and insertion sort under ascLocations.Less / descLocations.Less (which is what
    Go's sort.Sort runs for n ≤ 12) preserves OrderOK, so with that sort the read satisfies the
    statement.  The oracle reports for every observed order whether it IS the insertion-sort
    order (it always is for n ≤ 12).
  * C06_full_fails — the OrderOK hypothesis cannot be dropped (witness); the real sort.Sort
    violates it for > 12 locations (known finding, reproduced by the check).
  * C06_extremes_fail — seek at MinInt64 ascending / MaxInt64 descending delivers nothing (F3).
-/
import Influx.Lemmas.KCSort

namespace Influx.Props.C06
open Influx.KC Influx.Spec.C06

/-- what the model delivers satisfies the statement -/
def modelHolds (files : List FileSpec) (t : Int) (asc : Bool) (order : List (Nat × Nat)) : Bool :=
  match modelRead files t asc order with
  | .ok bs => holdsOn id files t asc bs
  | .error _ => false

/-- the model delivers exactly the blocks `bs` -/
def delivers (files : List FileSpec) (t : Int) (asc : Bool) (order : List (Nat × Nat))
    (bs : List (List (Int × Nat))) : Bool :=
  match modelRead files t asc order with
  | .ok bs' => bs' == bs
  | .error _ => false

/-- the hypothesis on the observed post-sort order: it is a permutation of the locations and
    satisfies OrderOK -/
def orderHyp (files : List FileSpec) (t : Int) (asc : Bool) (order : List (Nat × Nat)) : Bool :=
  match seeksOf files t asc order with
  | some seeks => orderOK seeks
  | none => false

/-- **C06 under OrderOK.**  Missing for the full statement: OrderOK of the real post-sort order
    (false for sort.Sort above 12 locations, see `C06_full_fails` and findings.d/C06.json) and
    the two extreme seek times (`C06_extremes_fail`). -/
theorem C06_partial (files : List FileSpec) (t : Int) (asc : Bool) (order : List (Nat × Nat))
    (seeks : List (Block Nat))
    (hfiles : filesOK files = true) (ht : seekOK t asc = true)
    (hseeks : seeksOf files t asc order = some seeks) (hord : orderOK seeks = true) :
    ∃ bs, modelRead files t asc order = .ok bs ∧ (∀ b ∈ bs, b ≠ []) ∧ holdsOn id files t asc bs = true :=
  model_holds hfiles ht hseeks hord

/-- the same, as "`holdsOn` of the model's trace" -/
theorem C06_holdsOn_partial (files : List FileSpec) (t : Int) (asc : Bool) (order : List (Nat × Nat))
    (hfiles : filesOK files = true) (ht : seekOK t asc = true) (hord : orderHyp files t asc order = true) :
    modelHolds files t asc order = true := by
  unfold orderHyp at hord
  cases hs : seeksOf files t asc order with
  | none => rw [hs] at hord; cases hord
  | some seeks =>
    rw [hs] at hord
    obtain ⟨bs, h1, _, h3⟩ := C06_partial files t asc order seeks hfiles ht hs hord
    unfold modelHolds
    rw [h1]; exact h3

/-- the statement is insensitive to how the value type shows the payload (the harness shows the
    parity of the file index for booleans): if the blocks satisfy it with the identity, the
    projected blocks satisfy it with the projection -/
theorem C06_holdsOn_proj (proj : Nat → Nat) (files : List FileSpec) (t : Int) (asc : Bool)
    (bs : List (List (Int × Nat))) (h : holdsOn id files t asc bs = true) :
    holdsOn proj files t asc (bs.map fun b => b.map fun p => (p.1, proj p.2)) = true := by
  unfold holdsOn at h ⊢
  simp only [id, beq_iff_eq] at h ⊢
  have hid : (expected files t asc).map (fun p => (p.1, p.2)) = expected files t asc := by simp
  rw [hid] at h
  rw [← h]
  unfold delivered
  cases asc
  · simp only [Bool.false_eq_true, if_false, List.map_map, List.map_flatten]
    congr 1
    simp [Function.comp_def, List.map_reverse]
  · simp only [if_true, List.map_flatten]

/-- the hypotheses are met by a non-trivial layout: three files with overlapping blocks and
    tombstones, read in both directions from the middle -/
def exampleFiles : List FileSpec :=
  [⟨[[1, 2, 3], [5, 6, 9]], [⟨2, 2⟩]⟩, ⟨[[0, 1], [3, 4, 5, 6]], [⟨4, 5⟩, ⟨6, 7⟩]⟩, ⟨[[2], [6, 7, 8]], []⟩]

example : filesOK exampleFiles = true ∧ seekOK 2 true = true ∧
    orderHyp exampleFiles 2 true [(0, 0), (2, 0), (0, 1), (1, 1), (2, 1)] = true ∧
    delivers exampleFiles 2 true [(0, 0), (2, 0), (0, 1), (1, 1), (2, 1)]
      [[(2, 2), (3, 1)], [(5, 0), (6, 2), (7, 2), (8, 2), (9, 0)]] = true ∧
    seekOK 6 false = true ∧
    orderHyp exampleFiles 6 false [(0, 0), (1, 0), (2, 0), (0, 1), (1, 1), (2, 1)] = true ∧
    modelHolds exampleFiles 6 false [(0, 0), (1, 0), (2, 0), (0, 1), (1, 1), (2, 1)] = true := by
  decide

/-- ascending read over arbitrary well-formed locations (any payload type) in an OrderOK order:
    terminates, blocks non-empty, concatenation strictly ascending and equal to the
    newest-file-wins points at or after `t` -/
theorem C06_seeks_asc {V : Type} (seeks : List (Block V)) (hwf : ∀ b ∈ seeks, BlockWF b)
    (hord : orderOK seeks = true) (t : Int) (ht : minI64 < t) :
    ∃ bs, runSeeks seeks t true = some bs ∧ SortedV bs.flatten ∧ (∀ b ∈ bs, b ≠ []) ∧
      ∀ p, p ∈ bs.flatten ↔ WinnerL seeks p ∧ t ≤ p.1 :=
  runSeeks_asc seeks hwf hord ht

/-- descending read: the blocks in reverse call order concatenate to the strictly ascending list
    of the newest-file-wins points at or before `t` -/
theorem C06_seeks_desc {V : Type} (seeks : List (Block V)) (hwf : ∀ b ∈ seeks, BlockWF b)
    (hord : orderOK seeks = true) (t : Int) (ht : t < maxI64) :
    ∃ bs, runSeeks seeks t false = some bs ∧ SortedV bs.reverse.flatten ∧ (∀ b ∈ bs, b ≠ []) ∧
      ∀ p, p ∈ bs.reverse.flatten ↔ WinnerL seeks p ∧ p.1 ≤ t :=
  runSeeks_desc seeks hwf hord ht

/-- **C06 for sort.Sort = insertion sort (Go: n ≤ 12), no hypothesis on the order.** -/
theorem C06_insertion (files : List FileSpec) (t : Int) (asc : Bool)
    (hfiles : filesOK files = true) (ht : seekOK t asc = true) :
    ∃ seeks bs, seeksSorted files t asc = some seeks ∧ orderOK seeks = true ∧
      runSeeks seeks t asc = some bs ∧ (∀ b ∈ bs, b ≠ []) ∧ holdsOn id files t asc bs = true :=
  model_holds_insertion hfiles ht

/-- insertion sort under the cursor's comparators keeps OrderOK (any payload type) -/
theorem C06_insertionSort_keeps_orderOK {V : Type} (asc : Bool) (l : List (Block V)) (h : orderOK l = true) :
    orderOK (insertionSort (lessLoc asc) l) = true :=
  (orderOK_iff' _).2 (insertionSort_ok asc l ((orderOK_iff' l).1 h))

/-- two files, each holding one point at timestamp 0 -/
def twoFiles : List FileSpec := [⟨[[0]], []⟩, ⟨[[0]], []⟩]

/-- The statement is FALSE for an arbitrary post-sort order: if the newer file's block precedes
    the older file's overlapping block in `seeks`, the older value is delivered.  (The real
    sort.Sort produces such orders for more than 12 locations: see findings.d/C06.json.) -/
theorem C06_full_fails :
    ¬ ∀ files t asc order, filesOK files = true → seekOK t asc = true →
        (seeksOf files t asc order).isSome → modelHolds files t asc order = true := by
  intro h
  have := h twoFiles (-1) true [(1, 0), (0, 0)] (by decide) (by decide) (by decide)
  revert this
  decide

/-- F3: an ascending seek at MinInt64 computes `readMax = t - 1 = MaxInt64` (int64 wrap), a
    descending seek at MaxInt64 `readMin = t + 1 = MinInt64`: every location is born fully read
    and nothing is delivered. -/
theorem C06_extremes_fail :
    delivers twoFiles minI64 true [(0, 0), (1, 0)] [] = true ∧
    modelHolds twoFiles minI64 true [(0, 0), (1, 0)] = false ∧
    delivers twoFiles maxI64 false [(0, 0), (1, 0)] [] = true ∧
    modelHolds twoFiles maxI64 false [(0, 0), (1, 0)] = false := by
  decide

end Influx.Props.C06
