/-
  Props.C06 — theorems about the KeyCursor model (Influx.Model.KeyCursor / KCRun) and the
  statement Influx.Spec.C06.holdsOn.
-/
import Influx.Model.KCRun

namespace Influx.Props.C06
open Influx.KC Influx.Spec.C06

/-- what the model delivers satisfies the statement -/
def modelHolds (files : List FileSpec) (t : Int) (asc : Bool) (order : List (Nat × Nat)) : Bool :=
  match modelRead files t asc order with
  | .ok bs => holdsOn id files t asc bs
  | .error _ => false

/-- the model delivers exactly the blocks `bs` -/
def delivers (files : List FileSpec) (t : Int) (asc : Bool) (order : List (Nat × Nat))
    (bs : List (List (Int × Nat))) : Bool :=
  match modelRead files t asc order with
  | .ok bs' => bs' == bs
  | .error _ => false

/-- two files, each holding one point at timestamp 0 -/
def twoFiles : List FileSpec := [⟨[[0]], []⟩, ⟨[[0]], []⟩]

/-- The statement is FALSE for an arbitrary post-sort order: if the newer file's block precedes
    the older file's overlapping block in `seeks`, the older value is delivered.  (The real
    sort.Sort produces such orders for more than 12 locations: see findings.d/C06.json.) -/
theorem C06_full_fails :
    ¬ ∀ files t asc order, (seeksOf files t asc order).isSome → modelHolds files t asc order = true := by
  intro h
  have := h twoFiles (-1) true [(1, 0), (0, 0)] (by decide)
  revert this
  decide

/-- F3: an ascending seek at MinInt64 computes `readMax = t - 1 = MaxInt64` (int64 wrap):
    every location is born fully read and nothing is delivered. -/
theorem C06_extremes_fail :
    delivers twoFiles minI64 true [(0, 0), (1, 0)] [] = true ∧
    modelHolds twoFiles minI64 true [(0, 0), (1, 0)] = false ∧
    delivers twoFiles maxI64 false [(0, 0), (1, 0)] [] = true ∧
    modelHolds twoFiles maxI64 false [(0, 0), (1, 0)] = false := by
  decide

end Influx.Props.C06
