/-
  Props.C38 — Shard backup and restore preserve data.

  The model (Influx.Model.Backup) follows tsm1.Engine.Backup / Export / Restore /
  Import as the code is, including four behaviours that make the property's text
  false of the unchanged code (each replayed on the real engine by the C38
  harness and recorded in findings.d/C38.json):

    * Restore/Import skip the tombstone files of the archive: deleted points reappear;
    * Export copies whole blocks: points outside the range (even stale ones) are exported;
    * Export fails on any shard that has a tombstone file;
    * Export fails when a file overlaps the range but none of its blocks does.

  What is proved here, for all shards / histories (no bound anywhere):
    C38_flush              the snapshot Backup takes first does not change the readable content
    C38_restore_raw        restore (backup s) reads exactly as s WITHOUT its tombstones
    C38_restore_partial    … hence exactly as s when s has no tombstone records
    C38_restore_iff        … and in general iff ignoring the tombstones changes nothing
    C38_full_fails         the full statement is false: a concrete history
    C38_import_partial     the same through Import (files renamed in order)
    C38_incremental        every file changed after `since` is in the incremental archive,
    C38_incremental_exact  and nothing else is
    C38_export_lower       every source point inside the range is in the export, same value
    C38_export_upper       every exported point lies in a source block overlapping the range
    C38_export_full_fails  "exactly the points in range" is false: a concrete history
    C38_export_err_*       when Export fails, and only then
    C38_reachable_inv      the invariants the above need hold in every reachable state
-/
import Influx.Lemmas.BackupSeries
import Influx.Spec.C38

namespace Influx.Props.C38
open Influx.Backup

/-- The cache snapshot that `Backup`/`Export` take first does not change what the
    source shard reads (so "the source" is well defined). -/
theorem C38_flush (s : Shard) (k : Key) (t : TS) : s.flush.abs k t = s.abs k t :=
  abs_flush s k t

/-- Every state the model reaches from the empty shard satisfies the invariants
    (files sorted by name, generations below the counter, block bounds, a file
    without tombstone file has no tombstone records). -/
theorem C38_reachable_inv (ops : List Op) (st : State) (h : st.src.Inv) :
    ∀ st', (ops.foldl (fun s op => (step s op).1) st) = st' → st'.src.Inv := by
  induction ops generalizing st with
  | nil => intro st' h'; subst h'; exact h
  | cons op ops ih => intro st' h'; exact ih _ (step_Inv st op h) st' h'

/-- the shard a full backup of `s` restores to, from empty -/
def restored (s : Shard) : Shard := Shard.empty.restore (s.backup none).2

/-- the shard a full backup of `s` imports to, from empty -/
def imported (s : Shard) : Shard := Shard.empty.importA (s.backup none).2

/-- **Restore reads the source without its tombstones.** -/
theorem C38_restore_raw (s : Shard) (hs : s.Inv) (k : Key) (t : TS) :
    (restored s).abs k t = filesLookupRaw s.flush.files k t := by
  have hsorted := (Shard.Inv_flush s hs).sorted
  unfold restored Shard.abs
  rw [restore_cache, restore_files]
  simp only [Shard.empty, Shard.backup, cacheLookup, List.find?_nil, Option.map_none, Option.none_or]
  have := restoreFiles_backup_none [] s.flush.files (by simpa using hsorted)
  rw [this]
  simp [filesLookup_map_strip]

/-- **C38, restore clause, partial**: a shard without tombstone records is
    restored to the same readable content.  (Missing for the full statement:
    shards that have tombstones — there the statement is false, `C38_full_fails`.) -/
theorem C38_restore_partial (s : Shard) (hs : s.Inv) (hnt : ∀ f ∈ s.files, f.tombs = [])
    (k : Key) (t : TS) : (restored s).abs k t = s.abs k t := by
  rw [C38_restore_raw s hs, ← C38_flush s, flush_abs_files,
    filesLookup_eq_raw_of_no_tombs _ (flush_no_tombs s hnt)]

/-- Exact characterisation: the restored shard equals the source iff dropping the
    source's tombstones changes nothing. -/
theorem C38_restore_iff (s : Shard) (hs : s.Inv) :
    (∀ k t, (restored s).abs k t = s.abs k t) ↔
    (∀ k t, filesLookupRaw s.flush.files k t = filesLookup s.flush.files k t) := by
  constructor
  · intro h k t; rw [← C38_restore_raw s hs, h, ← C38_flush s, flush_abs_files]
  · intro h k t; rw [C38_restore_raw s hs, h, ← flush_abs_files, C38_flush]

/-- the witness history: write t=1..3, snapshot, delete t=2 -/
def witness : Shard :=
  ((Shard.empty.write 0 1 1 3 100).flush).delete [0] 2 2

/-- **The full restore clause is false of the code**: after `w 0 1 1 3 100; snap;
    d 0 2 2` the source no longer reads t=2, the restored backup does. -/
theorem C38_full_fails :
    ¬ (∀ s : Shard, s.Inv → ∀ k t, (restored s).abs k t = s.abs k t) := by
  intro h
  have hinv : witness.Inv :=
    Shard.Inv_delete _ (Shard.Inv_flush _ (Shard.Inv_write _ Shard.Inv_empty _ _ _ _ _)) _ _ _
  have := h witness hinv 0 2
  revert this
  decide

/-- **Import of a full backup**, partial like restore: files are renamed to fresh
    ascending generations in archive order, so the same content is read. -/
theorem C38_import_partial (s : Shard) (hnt : ∀ f ∈ s.files, f.tombs = [])
    (k : Key) (t : TS) : (imported s).abs k t = s.abs k t := by
  unfold imported Shard.abs
  rw [import_cache, import_files]
  simp only [Shard.empty, Shard.backup, cacheLookup, List.find?_nil, Option.map_none, Option.none_or]
  have hb := importFiles_blocks [] 1 (backupEntries none s.flush.files)
  rw [archiveBlocks_backup_none] at hb
  have ht := importFiles_tombs [] 1 (backupEntries none s.flush.files) (by simp)
  rw [filesLookup_eq_raw_of_no_tombs _ ht,
    filesLookupRaw_congr _ s.flush.files (by simpa using hb),
    ← filesLookup_eq_raw_of_no_tombs _ (flush_no_tombs s hnt), ← flush_abs_files, C38_flush]
  rfl

/-! ### incremental backups -/

/-- **C38, incremental clause (full)**: every TSM file of the shard whose
    modification time is after `since` is in the archive with its blocks, and so
    is every tombstone file modified after `since`. -/
theorem C38_incremental (s : Shard) (since : Option Int) (f : TFile) (hf : f ∈ (s.backup since).1.files) :
    (f.mtime.after since = true → Entry.tsm f.gen f.seq f.blocks ∈ (s.backup since).2) ∧
    (∀ m, f.tombM = some m → m.after since = true → Entry.tomb f.gen f.seq ∈ (s.backup since).2) := by
  simp only [Shard.backup] at *
  generalize s.flush.files = fs at *
  induction fs with
  | nil => simp at hf
  | cons g fs ih =>
    rw [backupEntries_cons]
    rcases List.mem_cons.mp hf with rfl | hf
    · constructor
      · intro h; simp [h]
      · intro m hm h; simp [hm, h]
    · obtain ⟨i1, i2⟩ := ih hf
      constructor
      · intro h; simp [i1 h]
      · intro m hm h; simp [i2 m hm h]

/-- … and the archive contains nothing else: every entry is a file of the shard
    modified after `since`. -/
theorem C38_incremental_exact (s : Shard) (since : Option Int) (e : Entry) (he : e ∈ (s.backup since).2) :
    ∃ f ∈ (s.backup since).1.files,
      (e = Entry.tsm f.gen f.seq f.blocks ∧ f.mtime.after since = true) ∨
      (e = Entry.tomb f.gen f.seq ∧ ∃ m, f.tombM = some m ∧ m.after since = true) := by
  simp only [Shard.backup] at *
  generalize s.flush.files = fs at *
  induction fs with
  | nil => simp [backupEntries] at he
  | cons g fs ih =>
    rw [backupEntries_cons] at he
    simp only [List.mem_append] at he
    rcases he with (he | he) | he
    · refine ⟨g, by simp, Or.inr ?_⟩
      cases hm : g.tombM with
      | none => simp [hm] at he
      | some m =>
        simp only [hm] at he
        split at he
        · next h => simp at he; exact ⟨he, m, rfl, h⟩
        · simp at he
    · refine ⟨g, by simp, Or.inl ?_⟩
      split at he
      · next h => simp at he; exact ⟨he, h⟩
      · simp at he
    · obtain ⟨f, hf, h⟩ := ih he
      exact ⟨f, by simp [hf], h⟩

/-! ### exports -/

/-- the shard an archive imports to, from empty -/
def importedFrom (ar : Archive) : Shard := Shard.empty.importA ar

theorem importedFrom_abs (ar : Archive) (k : Key) (t : TS) :
    (importedFrom ar).abs k t = bsLookup (archiveBlocks ar) k t := by
  unfold importedFrom Shard.abs
  rw [import_cache, import_files]
  simp only [Shard.empty, cacheLookup, List.find?_nil, Option.map_none, Option.none_or]
  have hb := importFiles_blocks [] 1 ar
  have ht := importFiles_tombs [] 1 ar (by simp)
  rw [filesLookup_eq_raw_of_no_tombs _ ht, filesLookupRaw_eq_bsLookup, hb]
  simp

theorem export_no_tombs (s : Shard) (hs : s.Inv) (a e : TS) (ar : Archive)
    (h : (s.export a e).2 = .ok ar) : ∀ f ∈ s.flush.files, f.tombs = [] := by
  intro f hf
  have := (exportEntries_ok h).2.1 f hf
  exact ((Shard.Inv_flush s hs).wf f hf).2.1 this

/-- **C38, export clause, lower half**: when Export succeeds, every source point
    inside [a,e] is in the export with the same value (and no other value is read
    there). -/
theorem C38_export_lower (s : Shard) (hs : s.Inv) (a e : TS) (ar : Archive)
    (h : (s.export a e).2 = .ok ar) (k : Key) (t : TS) (ha : a ≤ t) (he : t ≤ e) :
    (importedFrom ar).abs k t = s.abs k t := by
  have hinv := Shard.Inv_flush s hs
  have hok := exportEntries_ok h
  rw [importedFrom_abs, hok.1,
    bsLookup_export _ (fun f hf => (hinv.wf f hf).1) a e k t ha he,
    ← filesLookupRaw_eq_bsLookup,
    ← filesLookup_eq_raw_of_no_tombs _ (export_no_tombs s hs a e ar h), ← flush_abs_files, C38_flush]

/-- **C38, export clause, upper half**: every point read from the export is a
    point of some block of the source (same key) that overlaps [a,e] — the export
    is block-granular.  It need not be a *current* point of the source, nor lie in
    the range (`C38_export_full_fails`). -/
theorem C38_export_upper (s : Shard) (hs : s.Inv) (a e : TS) (hae : a ≤ e) (ar : Archive)
    (h : (s.export a e).2 = .ok ar) (k : Key) (t : TS) (v : Val)
    (hv : (importedFrom ar).abs k t = some v) :
    ∃ f ∈ s.flush.files, ∃ b ∈ f.blocks,
      b.lookup k t = some v ∧ b.key = k ∧ b.lo ≤ t ∧ t ≤ b.hi ∧ b.lo ≤ e ∧ b.hi ≥ a := by
  have hinv := Shard.Inv_flush s hs
  have hok := exportEntries_ok h
  rw [importedFrom_abs, hok.1] at hv
  exact bsLookup_export_some _ (fun f hf => (hinv.wf f hf).1) a e hae k t v hv

/-- witness: ten points in one block, export of [3,5] -/
def exportWitness : Shard := (Shard.empty.write 0 1 1 10 100).flush

/-- **"Exactly the points in that range" is false of the code**: exporting [3,5]
    of a block holding t=1..10 exports t=1 as well. -/
theorem C38_export_full_fails :
    ¬ (∀ (s : Shard) (a e : TS) (ar : Archive), s.Inv → (s.export a e).2 = .ok ar →
        ∀ k t v, (importedFrom ar).abs k t = some v → a ≤ t ∧ t ≤ e) := by
  intro h
  have hinv : exportWitness.Inv := Shard.Inv_flush _ (Shard.Inv_write _ Shard.Inv_empty _ _ _ _ _)
  have := h exportWitness 3 5 _ hinv rfl 0 1 100 (by decide)
  revert this
  decide

/-- Export fails exactly when a file has a tombstone file, or a file must be
    filtered and none of its blocks overlaps the range (first such file in name order). -/
theorem C38_export_err_tombstone (s : Shard) (a e : TS)
    (h : (s.export a e).2 = .error .tombstone) : ∃ f ∈ s.flush.files, f.tombM.isSome = true := by
  simp only [Shard.export] at h
  generalize s.flush.files = fs at *
  induction fs with
  | nil => simp [exportEntries] at h
  | cons f fs ih =>
    simp only [exportEntries] at h
    split at h
    · next ht => exact ⟨f, by simp, ht⟩
    · split at h
      · simp at h
      · cases hr : exportEntries a e fs with
        | error x =>
          simp [hr] at h; subst h
          obtain ⟨g, hg, hgt⟩ := ih hr
          exact ⟨g, by simp [hg], hgt⟩
        | ok more => simp [hr] at h

theorem C38_export_err_gap (s : Shard) (a e : TS)
    (h : (s.export a e).2 = .error .noValues) :
    ∃ f ∈ s.flush.files, f.needsFilter a e = true ∧ ∀ b ∈ f.blocks, b.overlaps a e = false := by
  simp only [Shard.export] at h
  generalize s.flush.files = fs at *
  induction fs with
  | nil => simp [exportEntries] at h
  | cons f fs ih =>
    simp only [exportEntries] at h
    split at h
    · simp at h
    · split at h
      · next hg =>
        simp only [Bool.and_eq_true, List.isEmpty_iff] at hg
        refine ⟨f, by simp, hg.1, ?_⟩
        intro b hb
        have := List.filter_eq_nil_iff.mp hg.2 b hb
        simpa using this
      · cases hr : exportEntries a e fs with
        | error x =>
          simp [hr] at h; subst h
          obtain ⟨g, hg, hgt⟩ := ih hr
          exact ⟨g, by simp [hg], hgt⟩
        | ok more => simp [hr] at h

/-- Conversely: with no tombstone file and every filtered file keeping a block, Export succeeds. -/
theorem C38_export_ok (s : Shard) (a e : TS)
    (h1 : ∀ f ∈ s.flush.files, f.tombM = none)
    (h2 : ∀ f ∈ s.flush.files, f.needsFilter a e = true → ∃ b ∈ f.blocks, b.overlaps a e = true) :
    ∃ ar, (s.export a e).2 = .ok ar := by
  simp only [Shard.export]
  generalize s.flush.files = fs at *
  induction fs with
  | nil => exact ⟨[], rfl⟩
  | cons f fs ih =>
    obtain ⟨more, hm⟩ := ih (fun g hg => h1 g (by simp [hg])) (fun g hg => h2 g (by simp [hg]))
    simp only [exportEntries, h1 f (by simp), Option.isSome_none, Bool.false_eq_true, if_false, hm]
    split
    · next hg =>
      exfalso
      simp only [Bool.and_eq_true, List.isEmpty_iff] at hg
      obtain ⟨b, hb, hbo⟩ := h2 f (by simp) hg.1
      have := List.filter_eq_nil_iff.mp hg.2 b hb
      simp [hbo] at this
    · exact ⟨_, rfl⟩

/-- why the tombstones are lost: with the constants of the current source, a name
    ending in `.tombstone` fails the suffix test of `readFileFromBackup`, a `.tsm` name passes -/
theorem C38_tombstone_name_skipped :
    restoresName ("000000001-000000001." ++ Influx.Generated.BackupConsts.TombstoneFileExtension) = false ∧
    restoresName ("000000001-000000001." ++ Influx.Generated.BackupConsts.TSMFileExtension) = true := by
  decide +kernel

/-! ### the statement checker on the model's own traces -/

/-- **C38_holdsOn_partial** (unconditional, "partial" = modulo the known findings): on
    EVERY trace of the model — any sequence of writes, range deletes, snapshots,
    compactions, mtime changes, backups, exports, restores and imports — the statement
    checker `Spec.C38` (the one the check evaluates on the REAL engine's answers)
    reports nothing but the four known kinds of failure (`Sig.known`: tombstones lost
    by restore, whole-block exports, the two Export errors): never a wrong restore
    without a tombstone file, a missing incremental file, a point missing from an
    export, an exported point outside the overlapping blocks, an unexplained Export
    error, a restored series the source did not list.  What is missing for the full
    statement is exactly what is false of the code (`C38_full_fails`,
    `C38_export_full_fails`). -/
theorem C38_holdsOn_partial (ops : List Op) :
    Spec.C38.holdsModuloKnown (run State.init ops) = true := by
  unfold Spec.C38.holdsModuloKnown Spec.C38.failures
  rw [List.all_eq_true]
  exact failures_known ops State.init [] Shard.Inv_empty Linked.nil
    (seriesAlong_all ops State.init Shard.Inv_empty Shard.Inv2_empty)

/-- the series index of the model: in every reachable state each key of a file is
    listed, or all its points in that file are tombstoned (`indirectIndex.DeleteRange`
    only drops a key whose tombstones cover its whole range — `gone_allTombstoned`) -/
theorem C38_series_inv (ops : List Op) (st : State) (hi : st.src.Inv) (h : st.src.Inv2) :
    ∀ st', (ops.foldl (fun s op => (step s op).1) st) = st' → st'.src.Inv2 := by
  induction ops generalizing st with
  | nil => intro st' h'; subst h'; exact h
  | cons op ops ih => intro st' h'; exact ih _ (step_Inv st op hi) (step_Inv2 st op hi h) st' h'

/-- **C38_holdsOn**: on every history WITHOUT range deletes and exports — any mix of
    writes (overlapping rewrites included), cache snapshots, full compactions, mtime
    changes, full and incremental backups, restores and imports — the statement
    holds of the model outright: the checker reports no failure at all.  (With
    deletes or exports the statement is false of the code: `C38_full_fails`,
    `C38_export_full_fails`; what then still holds is `C38_holdsOn_partial`.) -/
theorem C38_holdsOn (ops : List Op) (hops : ∀ op ∈ ops, op.clean = true) :
    Spec.C38.holdsOn (run State.init ops) = true := by
  unfold Spec.C38.holdsOn Spec.C38.failures
  rw [failures_clean ops State.init [] Shard.Inv_empty Linked.nil Shard.Clean_empty
    (fun _ h => by simp at h) hops]
  rfl

-- non-vacuity of the hypotheses used above
example : ∀ op ∈ [Op.write 0 1 1 3 100, .snap, .write 0 2 1 2 7, .backup "a" none, .restore ["a"], .age 5,
    .write 1 0 1 1 1, .compact, .backup "i" (some 5), .importA ["a"]], op.clean = true := by decide

end Influx.Props.C38
