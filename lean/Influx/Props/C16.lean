/-
  Props.C16 — Delete predicates match exactly the series they describe.

  Model: Influx.Model.DelPred (predicate AST → protobuf tree → tsm1 predicateMatcher
  with slots, generation-stamped caches, three-valued Update, the two tag-popping
  routines, key construction by models.MakeKey).  Statement: Influx.Spec.C16.
-/
import Influx.Lemmas.DelPredRunInv

namespace Influx.Props.C16
open Influx.Model.DelPred Influx.Spec.C16

/-- **C16 (partial: inside `KeyOK`)** — for every predicate over `=`/`!=` on tags and
    `_measurement` with AND/OR and every well-formed series in `KeyOK`, compiling the predicate and
    matching the series' key gives exactly the truth value of the predicate on the series. -/
theorem C16_partial (p : Pred) (name : Bytes) (tags : Tags)
    (hp : PredWF p = true) (hs : SeriesWF name tags = true) (hk : KeyOK name tags = true) :
    matchSeries p name tags = some (evalPred name tags p) :=
  matchSeries_spec p name tags hp hs hk

/-- The matcher is reused across keys (generation-stamped caches, `Reset`): whatever series it
    has been asked about before, the next answer inside the domain is exact — also on a composite
    key `series#!~#field` whose first separator is the appended one. -/
theorem C16_reuse (p : Pred) (m : Matcher) (hinv : MInv p m) (full name : Bytes) (tags : Tags)
    (hcut : cutFieldSep full = seriesKey name tags)
    (hp : PredWF p = true) (hs : SeriesWF name tags = true)
    (hnt : noTrailBs name = true) (h61 : 61 ∉ name) (htags : tagsOK tags = true) :
    ∃ m', m.matches full = some (evalPred name tags p, m') ∧ MInv p m' :=
  matches_spec p m hinv full name tags hcut hp hs hnt h61 htags

/-- `Matches` terminates without panic on every key, for every tree that compiles. -/
theorem C16_total (d : DNode) (m : Matcher) (h : newMatcher d = some m) (key : Bytes) :
    ∃ b m', m.matches key = some (b, m') :=
  let ⟨b, m', h1, _⟩ := matches_total m key (newMatcher_WF d m h)
  ⟨b, m', h1⟩

/-- The domain found by the proof (`Influx.Model.DelPred.KeyOK`): on a well-formed series the
    compiled predicate is exact if the measurement name does not end in a backslash and contains
    no `=`, no tag key / non-empty tag value ends in a backslash, and the key handed to `Matches`
    does not contain the field separator `#!~#`. -/
theorem KeyOK_def (name : Bytes) (tags : Tags) :
    KeyOK name tags = (noTrailBs name && !name.contains 61 && tagsOK tags && !hasSep (seriesKey name tags)) := rfl

/-- Compiling a predicate of the AST never fails. -/
theorem C16_compiles (p : Pred) : (newMatcher (toDataType p)).isSome = true := by
  obtain ⟨m, hm, _⟩ := newMatcher_spec p; simp [hm]

/-! ### the full statement is false of the code (DESIGN §6 F6 and one more) -/

/-- the statement without the domain restriction -/
def FullStatement : Prop :=
  ∀ (p : Pred) (name : Bytes) (tags : Tags), PredWF p = true → SeriesWF name tags = true →
    matchSeries p name tags = some (evalPred name tags p)

/-- measurement `a=b` (tag `x=y`) is matched by the predicate `a = "b"`: the name is popped as a tag pair -/
theorem C16_full_fails : ¬ FullStatement := by
  intro h
  have := h (.rule [97] false [98]) [97, 61, 98] [([120], [121])] (by decide) (by decide)
  revert this
  decide

/-- a tag value ending in a backslash hides the following tag: `t = "v"` does not match `m,s=w\,t=v` -/
theorem C16_full_fails_backslash :
    matchSeries (.rule [116] false [118]) [109] [([115], [119, 92]), ([116], [118])] = some false ∧
    evalPred [109] [([115], [119, 92]), ([116], [118])] (.rule [116] false [118]) = true := by
  decide

/-- a tag value containing `#!~#` is cut off: `t = "a#!~#b"` does not match `m,t=a#!~#b`, `t = "a"` does -/
theorem C16_full_fails_fieldsep :
    matchSeries (.rule [116] false [97, 35, 33, 126, 35, 98]) [109] [([116], [97, 35, 33, 126, 35, 98])] = some false ∧
    evalPred [109] [([116], [97, 35, 33, 126, 35, 98])] (.rule [116] false [97, 35, 33, 126, 35, 98]) = true ∧
    matchSeries (.rule [116] false [97]) [109] [([116], [97, 35, 33, 126, 35, 98])] = some true := by
  decide

/-! ### the run-time oracle accepts every trace of the model inside the domain -/

/-- **C16_holdsOn (partial: series inside `KeyOK`)** — the statement checker accepts the model's
    trace on every case whose well-formed series lie in the domain. -/
theorem C16_holdsOn_partial (ops : List Op) (hok : OpsOK ops = true) :
    holdsOn (run none ops) = true :=
  judge_run ops hok none none trivial

/-! ### the two readings of "true of the series" agree -/

/-- Kleene (SQL/Flux null) evaluation: a comparison on an absent tag is unknown -/
def kleene (name : Bytes) (tags : Tags) : Pred → Option Bool
  | .rule k neq v => (keyValue name tags k).map fun x => if neq then decide (x ≠ v) else decide (x = v)
  | .and l r =>
    match kleene name tags l, kleene name tags r with
    | some false, _ => some false
    | _, some false => some false
    | some true, some true => some true
    | _, _ => none
  | .or l r =>
    match kleene name tags l, kleene name tags r with
    | some true, _ => some true
    | _, some true => some true
    | some false, some false => some false
    | _, _ => none

/-- with AND/OR only, "true under three-valued evaluation" is `evalPred` -/
theorem evalPred_eq_kleene (name : Bytes) (tags : Tags) (p : Pred) :
    evalPred name tags p = (kleene name tags p == some true) := by
  induction p with
  | rule k neq v =>
    simp only [evalPred, kleene]
    cases keyValue name tags k with
    | none => rfl
    | some x => cases neq <;> by_cases h : x = v <;> simp [h]
  | and l r ihl ihr =>
    simp only [evalPred, kleene, ihl, ihr]
    rcases kleene name tags l with _ | _ | _ <;> rcases kleene name tags r with _ | _ | _ <;> rfl
  | or l r ihl ihr =>
    simp only [evalPred, kleene, ihl, ihr]
    rcases kleene name tags l with _ | _ | _ <;> rcases kleene name tags r with _ | _ | _ <;> rfl

/-! ### non-vacuity -/

-- escape-heavy values inside the domain: commas, spaces, `=`, inner backslashes
example : KeyOK [99, 112, 117, 32, 49] [([104, 44, 49], [97, 61, 98, 92, 99]), ([116], [32, 44])] = true := by decide
example : SeriesWF [99, 112, 117, 32, 49] [([104, 44, 49], [97, 61, 98, 92, 99]), ([116], [32, 44])] = true := by decide
example : matchSeries (.and (.rule measurementKey false [99, 112, 117, 32, 49]) (.rule [104, 44, 49] true [120]))
    [99, 112, 117, 32, 49] [([104, 44, 49], [97, 61, 98, 92, 99]), ([116], [32, 44])] = some true := by decide
example : OpsOK [.setPred (.rule [116] false [118]), .matchSeries [109] [([116], [118])] none,
    .matchSeries [109] [([116], [119])] (some [102])] = true := by decide

end Influx.Props.C16
