/-
  Props.C22 — InfluxQL SELECT results match the language semantics.

  Two levels: `Spec.C22.eval` (denotational reference evaluator, the STATEMENT) and
  `InfluxQLPipe.run` (model of the iterator pipeline `query.Select` builds).
  Theorems land in stages:
    * spec-level laws of `eval` (LIMIT/OFFSET = drop/take per output series, fill reports
      every window of the range exactly once and in order, rows of a raw group are in
      time order),
    * pipeline stage = specification stage (limit iterator; sorted merge; the whole
      raw pipeline over one series),
    * `C22_holdsOn_partial`: the statement checker accepts the pipeline model for the
      statement class whose stages are all proved.
  Everything else of the subset is tied by correspondence only (see checks/C22.json).
-/
import Influx.Lemmas.InfluxQL
import Influx.Lemmas.InfluxQLMerge

namespace Influx.Props.C22
open Influx.Reducers Influx.Spec.C22 Influx.InfluxQLPipe Influx.InfluxQLPipe.Lemmas

variable {V F : Type}

/-! ## Spec-level laws -/

/-- the statement without its LIMIT / OFFSET clause -/
def unlimited (q : Query) : Query := { q with limit := 0, offset := 0 }

/-- **LIMIT / OFFSET**: every output series of a raw statement is the unlimited series
    with `OFFSET` rows dropped and then at most `LIMIT` rows kept. -/
theorem C22_limit_offset_raw (q : Query) (g : Option String × List (Series V)) :
    (rawGroup q g : List (Row V F)) =
      let all : List (Row V F) := rawGroup (unlimited q) g
      if q.limit = 0 then all.drop q.offset else (all.drop q.offset).take q.limit := by
  simp only [rawGroup, limitOffset, unlimited, List.drop_zero, if_true]
  rfl

/-- … and the same for aggregate statements (per output series, after fill). -/
theorem C22_limit_offset_agg (A : Arith22 V F) (q : Query) (g : Option String × List (Series V)) :
    aggGroup A q g =
      let all := aggGroup A (unlimited q) g
      if q.limit = 0 then all.drop q.offset else (all.drop q.offset).take q.limit := by
  simp only [aggGroup, limitOffset, unlimited, List.drop_zero, if_true]
  rfl

/-- **fill**: with a fill option other than `none`, a group that holds at least one
    point reports exactly the windows `lo, lo+d, …` up to the window of the upper time
    bound — every window of the range, each once. -/
theorem C22_fill_every_window (q : Query) (holding : List Int) (hf : q.fill ≠ Fill.none)
    (hh : holding ≠ []) (hd : 0 < q.dur)
    (hlo : winStart q (startOf q) ≤ winStart q (endOf q)) (w : Int) :
    w ∈ windowStarts q holding ↔
      ∃ i : Nat, w = winStart q (startOf q) + (i : Int) * q.dur ∧ w ≤ winStart q (endOf q) := by
  have hh' : holding.isEmpty = false := by cases holding <;> simp_all
  have hlt : ¬ winStart q (endOf q) < winStart q (startOf q) := by omega
  simp only [windowStarts, hf, if_false, hh', Bool.false_eq_true, hlt]
  have key : ∀ (i : Nat), (i < ((winStart q (endOf q) - winStart q (startOf q)) / q.dur).toNat + 1 ↔
      winStart q (startOf q) + (i : Int) * q.dur ≤ winStart q (endOf q)) := by
    intro i
    have hnn : 0 ≤ winStart q (endOf q) - winStart q (startOf q) := by omega
    have hq : 0 ≤ (winStart q (endOf q) - winStart q (startOf q)) / q.dur := Int.ediv_nonneg hnn (by omega)
    constructor
    · intro h
      have h1 : (i : Int) ≤ (winStart q (endOf q) - winStart q (startOf q)) / q.dur := by omega
      have h2 : (i : Int) * q.dur ≤ winStart q (endOf q) - winStart q (startOf q) := by
        have := Int.mul_le_mul_of_nonneg_right h1 (by omega : (0 : Int) ≤ q.dur)
        have h3 := Int.ediv_mul_le (winStart q (endOf q) - winStart q (startOf q)) (by omega : q.dur ≠ 0)
        omega
      omega
    · intro h
      have h2 : (i : Int) * q.dur ≤ winStart q (endOf q) - winStart q (startOf q) := by omega
      have h3 : (i : Int) ≤ (winStart q (endOf q) - winStart q (startOf q)) / q.dur :=
        (Int.le_ediv_iff_mul_le hd).mpr h2
      omega
  split
  · -- descending: the same windows, reversed
    simp only [List.mem_reverse, List.mem_map, List.mem_range]
    constructor
    · rintro ⟨i, hi, rfl⟩; exact ⟨i, rfl, (key i).mp hi⟩
    · rintro ⟨i, rfl, hle⟩; exact ⟨i, (key i).mpr hle, rfl⟩
  · simp only [List.mem_map, List.mem_range]
    constructor
    · rintro ⟨i, hi, rfl⟩; exact ⟨i, rfl, (key i).mp hi⟩
    · rintro ⟨i, rfl, hle⟩; exact ⟨i, (key i).mpr hle, rfl⟩

/-! ## Pipeline stage = specification stage -/

/-- **limit iterator** (`floatLimitIterator`) on the stream of one output series =
    `drop OFFSET` then `take LIMIT`. -/
theorem C22_limit_stage {α : Type} (q : Query) (tg : Option String) (l : List (SP α))
    (h : ∀ p ∈ l, p.tag = tg) :
    limitIter (optOf q) l = limitOffset q l := by
  rw [limitIter_single (optOf q) tg l h]
  rfl

/-- a stored series: strictly increasing timestamps -/
def Stored (s : Series V) : Prop := List.Pairwise (fun a b => a.t < b.t) s.pts

theorem seriesPoints_sorted (q : Query) (s : Series V) (hs : Stored s) :
    List.Pairwise (fun a b => timeLe q a.t b.t = true) (seriesPoints q s) := by
  unfold seriesPoints
  have hf : List.Pairwise (fun a b => a.t < b.t) (s.pts.filter (inRange q)) :=
    List.Pairwise.sublist List.filter_sublist hs
  by_cases hd : q.desc = true
  · simp only [hd, if_true]
    rw [List.pairwise_reverse]
    exact hf.imp (by intro a b hab; simp [timeLe, hd]; omega)
  · simp only [hd]
    exact hf.imp (by intro a b hab; simp [timeLe, hd]; omega)

/-- **raw pipeline over one stored series** (storage iterator → sorted merge → limit
    iterator → scanner rows) = the reference evaluator: WHERE time range, ORDER BY time
    DESC, LIMIT, OFFSET, GROUP BY host. -/
theorem C22_raw_single (A : Arith22 V F) (q : Query) (s : Series V) (hs : Stored s)
    (hraw : q.isRaw = true) : run A q [s] = eval A q [s] := by
  unfold run eval
  by_cases hsup : supported q = true
  · simp only [hsup, Bool.not_true, Bool.false_eq_true, if_false, hraw, if_true]
    cases hce : compileError q with
    | some e => rfl
    | none =>
      simp only
      congr 1
      -- the pipeline side
      have hord : seriesOrder (optOf q).asc [s] = [s] := by
        simp [seriesOrder, sortBy, insertBy]
      have hmerge : sortedMergeGo (optOf q).asc
          ([(seriesIter (optOf q) q.byHost s).length].sum + 1) [seriesIter (optOf q) q.byHost s] =
            seriesIter (optOf q) q.byHost s :=
        sortedMergeGo_single _ _ _ (by simp)
      have htag : ∀ p ∈ seriesIter (optOf q) q.byHost s, p.tag = (if q.byHost then some s.host else none) := by
        intro p hp
        simp only [seriesIter, List.mem_map] at hp
        obtain ⟨x, _, rfl⟩ := hp
        rfl
      simp only [rawPipeline, hord, List.map_cons, List.map_nil, hmerge]
      rw [C22_limit_stage q _ _ htag]
      -- the specification side
      have hgroups : groups q [s] = [(if q.byHost then some s.host else none, [s])] := by
        simp only [groups, orderedSeries, sortBy, List.foldr_cons, List.foldr_nil, insertBy]
        by_cases hb : q.byHost = true <;> by_cases hd : q.desc = true <;> simp [hb, hd]
      simp only [hgroups, List.flatMap_cons, List.flatMap_nil, List.append_nil, rawGroup]
      have hsort : sortBy (fun (a b : Pt V) => timeLe q a.t b.t) (seriesPoints q s) = seriesPoints q s :=
        sortBy_of_pairwise _ _ (seriesPoints_sorted q s hs)
      simp only [hsort]
      -- both sides: the same points, limited, turned into rows
      have hiter : seriesIter (optOf q) q.byHost s =
          (seriesPoints q s).map fun p => ({ tag := if q.byHost then some s.host else none, t := p.t, v := p.v } : SP V) := by
        have hfil : (fun (p : Pt V) => decide (startOf q ≤ p.t) && decide (p.t ≤ endOf q)) = inRange q := rfl
        simp only [seriesIter, seriesPoints, optOf, hfil]
        by_cases hd : q.desc = true <;> simp [hd] <;> rfl
      rw [hiter]
      simp only [limitOffset]
      split <;> simp [List.map_drop, List.map_take, Function.comp_def]
  · simp [hsup]

/-- the points a raw statement without GROUP BY host looks at, series after series -/
def lookedAt (q : Query) (db : List (Series V)) : List (Pt V) :=
  (orderedSeries q db).flatMap (seriesPoints q)

theorem timeLe_eq (q : Query) (a b : Int) :
    timeLe q a b = (if (!q.desc) = true then decide (a ≤ b) else decide (b ≤ a)) := by
  unfold timeLe; cases q.desc <;> simp

theorem strict_of (asc : Bool) (x y : Int) (h1 : ¬ tBefore asc y x) (h2 : x ≠ y) : tBefore asc x y := by
  unfold tBefore at *; cases asc <;> simp at * <;> omega

theorem seriesPoints_strict (q : Query) (s : Series V) (hs : Stored s) :
    List.Pairwise (fun a b => tBefore (!q.desc) a.t b.t) (seriesPoints q s) := by
  unfold seriesPoints
  have hf : List.Pairwise (fun a b => a.t < b.t) (s.pts.filter (inRange q)) :=
    List.Pairwise.sublist List.filter_sublist hs
  by_cases hd : q.desc = true
  · simp only [hd, if_true]
    rw [List.pairwise_reverse]
    exact hf.imp (by intro a b hab; simp [tBefore]; exact hab)
  · have hd' : q.desc = false := by simpa using hd
    simp only [hd', Bool.false_eq_true, if_false]
    exact hf.imp (by intro a b hab; simp [tBefore]; exact hab)

/-- **sorted merge stage + raw pipeline over several series** (no GROUP BY host): the
    sorted merge iterator over the per-series iterators, followed by the limit iterator and
    the scanner, returns the reference evaluator's rows — provided the timestamps the
    statement looks at are pairwise distinct (for equal timestamps of different series the
    order is a `container/heap` detail that no semantics fixes). -/
theorem C22_raw_merge (A : Arith22 V F) (q : Query) (db : List (Series V))
    (hs : ∀ s ∈ db, Stored s) (hraw : q.isRaw = true) (hnb : q.byHost = false)
    (hdist : List.Pairwise (fun a b => a.t ≠ b.t) (lookedAt q db)) :
    run A q db = eval A q db := by
  unfold run eval
  by_cases hsup : supported q = true
  · simp only [hsup, Bool.not_true, Bool.false_eq_true, if_false, hraw, if_true]
    cases hce : compileError q with
    | some e => rfl
    | none =>
      simp only
      congr 1
      have hord : seriesOrder (!q.desc) db = orderedSeries q db := by
        by_cases hd : q.desc = true <;> simp [seriesOrder, orderedSeries, hd]
      have hstored : ∀ s ∈ orderedSeries q db, Stored s := by
        intro s hsm
        apply hs
        simp only [orderedSeries] at hsm
        by_cases hd : q.desc = true
        · simp only [hd, if_true, List.mem_reverse] at hsm
          exact (sortBy_perm _ db).mem_iff.mp hsm
        · simp only [hd] at hsm
          exact (sortBy_perm _ db).mem_iff.mp hsm
      -- per-series iterators = the looked-at points, tagless
      let toSP : Pt V → SP V := fun p => { tag := none, t := p.t, v := p.v }
      have hiter : ∀ s, seriesIter (optOf q) false s = (seriesPoints q s).map toSP := by
        intro s
        have hfil : (fun (p : Pt V) => decide (startOf q ≤ p.t) && decide (p.t ≤ endOf q)) = inRange q := rfl
        simp only [seriesIter, seriesPoints, optOf, hfil]
        by_cases hd : q.desc = true <;> simp [hd, toSP] <;> rfl
      have hins : (orderedSeries q db).map (seriesIter (optOf q) false) =
          (orderedSeries q db).map (fun s => (seriesPoints q s).map toSP) := by
        apply List.map_congr_left; intro s _; exact hiter s
      have hflat : ((orderedSeries q db).map (fun s => (seriesPoints q s).map toSP)).flatten =
          (lookedAt q db).map toSP := by
        simp [lookedAt, List.flatMap, List.map_flatten]
        rfl
      have hok : InputsOK (!q.desc) ((orderedSeries q db).map (fun s => (seriesPoints q s).map toSP)) := by
        intro l hl
        obtain ⟨s, hsm, rfl⟩ := List.mem_map.mp hl
        refine ⟨?_, ?_⟩
        · rw [List.pairwise_map]
          exact seriesPoints_strict q s (hstored s hsm)
        · intro p hp
          obtain ⟨x, _, rfl⟩ := List.mem_map.mp hp
          rfl
      obtain ⟨hperm, hsorted⟩ := sortedMergeGo_facts (!q.desc)
        ((((orderedSeries q db).map (fun s => (seriesPoints q s).map toSP)).map List.length).sum + 1)
        _ hok (by rw [List.length_flatten]; omega)
      -- the merge output is strictly ordered (distinct timestamps)
      have hdist' : List.Pairwise (fun (a b : SP V) => a.t ≠ b.t) ((lookedAt q db).map toSP) := by
        rw [List.pairwise_map]; exact hdist
      rw [hflat] at hperm
      have hdistM := (List.Perm.pairwise_iff (R := fun (a b : SP V) => a.t ≠ b.t)
        (fun h => fun h' => h h'.symm) hperm).mpr hdist'
      have hstrictM := (hsorted.and hdistM).imp (by
        intro a b hab
        exact strict_of _ _ _ hab.1 hab.2 :
        ∀ {a b : SP V}, (¬ tBefore (!q.desc) b.t a.t) ∧ a.t ≠ b.t → tBefore (!q.desc) a.t b.t)
      -- the specification's sort of the same points
      have hsp := sortBy_perm (fun (a b : Pt V) => timeLe q a.t b.t) (lookedAt q db)
      have hss : List.Pairwise (fun (a b : Pt V) => ¬ tBefore (!q.desc) b.t a.t)
          (sortBy (fun (a b : Pt V) => timeLe q a.t b.t) (lookedAt q db)) := by
        have := sortBy_sorted_time (fun (p : Pt V) => p.t) (!q.desc) (lookedAt q db)
        have hle : (fun (a b : Pt V) => timeLe q a.t b.t) =
            (fun (a b : Pt V) => if (!q.desc) = true then decide (a.t ≤ b.t) else decide (b.t ≤ a.t)) := by
          funext a b; exact timeLe_eq q a.t b.t
        rw [hle]; exact this
      have hdistS := (List.Perm.pairwise_iff (R := fun (a b : Pt V) => a.t ≠ b.t)
        (fun h => fun h' => h h'.symm) hsp).mpr hdist
      have hstrictS := (hss.and hdistS).imp (by
        intro a b hab
        exact strict_of _ _ _ hab.1 hab.2 :
        ∀ {a b : Pt V}, (¬ tBefore (!q.desc) b.t a.t) ∧ a.t ≠ b.t → tBefore (!q.desc) a.t b.t)
      have hmergeEq : sortedMergeGo (!q.desc)
          ((((orderedSeries q db).map (fun s => (seriesPoints q s).map toSP)).map List.length).sum + 1)
          ((orderedSeries q db).map (fun s => (seriesPoints q s).map toSP)) =
          (sortBy (fun (a b : Pt V) => timeLe q a.t b.t) (lookedAt q db)).map toSP := by
        apply strict_sorted_perm_unique (fun (p : SP V) => p.t) (!q.desc)
        · exact hstrictM
        · rw [List.pairwise_map]; exact hstrictS
        · exact hperm.trans (hsp.map toSP).symm
      have hasc : (optOf q).asc = !q.desc := rfl
      simp only [rawPipeline, hnb, hasc]
      rw [hord, hins, hmergeEq]
      have htag : ∀ p ∈ (sortBy (fun (a b : Pt V) => timeLe q a.t b.t) (lookedAt q db)).map toSP, p.tag = none := by
        intro p hp
        obtain ⟨x, _, rfl⟩ := List.mem_map.mp hp
        rfl
      rw [C22_limit_stage q none _ htag]
      -- the specification side
      by_cases hemp : orderedSeries q db = []
      · have hl : lookedAt q db = [] := by simp [lookedAt, hemp]
        simp [groups, hnb, hemp, hl, sortBy, limitOffset]
      · have hne : (orderedSeries q db).isEmpty = false := by
          cases h : orderedSeries q db <;> simp_all
        simp only [groups, hnb, Bool.false_eq_true, if_false, hne, List.flatMap_cons, List.flatMap_nil,
          List.append_nil, rawGroup]
        have : (orderedSeries q db).flatMap (seriesPoints q) = lookedAt q db := rfl
        rw [this]
        simp only [limitOffset]
        split <;> simp [List.map_drop, List.map_take, Function.comp_def, toSP]
  · simp [hsup]

/-! ## The statement checker accepts the model -/

theorem valsEq_refl (A : Arith22 V F) (l : List (Val V F)) : valsEq A l l = true := by
  induction l with
  | nil => rfl
  | cons a l ih =>
    cases a <;> simp [valsEq, valEq, ih, A.eqvV_refl, A.eqvF_refl]

theorem rowsEq_refl (A : Arith22 V F) (l : List (Row V F)) : rowsEq A l l = true := by
  induction l with
  | nil => rfl
  | cons a l ih => simp [rowsEq, valsEq_refl, ih]

theorem resultEq_refl (A : Arith22 V F) (r : Result V F) : resultEq A r r = true := by
  cases r <;> simp [resultEq, rowsEq_refl]

/-- the statements and databases `C22_holdsOn_partial` covers: raw statements over
    stored series — one series (any clauses), or several series without GROUP BY host whose
    looked-at timestamps are pairwise distinct -/
def Covered (q : Query) (db : List (Series V)) : Prop :=
  q.isRaw = true ∧ (∀ s ∈ db, Stored s) ∧
    ((∃ s, db = [s]) ∨ (q.byHost = false ∧ List.Pairwise (fun a b => a.t ≠ b.t) (lookedAt q db)))

/-- **C22 (partial)**: for every arithmetic, every covered raw statement (any WHERE time
    range, ORDER BY direction, LIMIT, OFFSET; GROUP BY host over one series) the rows of the
    pipeline model (storage iterators → sorted merge → limit iterator → scanner) are the rows
    of the reference evaluator, so the statement checker accepts them.
    Missing: GROUP BY host over several series, and all aggregate statements (call
    iterators, merge + re-aggregation, interval, fill, row join) — tied by correspondence only. -/
theorem C22_holdsOn_partial (A : Arith22 V F) (q : Query) (db : List (Series V)) (h : Covered q db) :
    holdsOn A q db (run A q db) = true := by
  obtain ⟨hraw, hs, hcase⟩ := h
  have heq : run A q db = eval A q db := by
    rcases hcase with ⟨s, rfl⟩ | ⟨hnb, hdist⟩
    · exact C22_raw_single A q s (hs s (by simp)) hraw
    · exact C22_raw_merge A q db hs hraw hnb hdist
  rw [holdsOn, heq]
  exact resultEq_refl A _

/-- the reference evaluator trivially satisfies its own statement (sanity) -/
theorem C22_holdsOn_eval (A : Arith22 V F) (q : Query) (db : List (Series V)) :
    holdsOn A q db (eval A q db) = true := resultEq_refl A _

-- the hypotheses of `C22_holdsOn_partial` are met by a non-trivial statement and database
def exampleQuery : Query :=
  { calls := [], tmin := some 2, tmax := none, dur := 0, off := 0, byHost := false,
    fill := Fill.null, desc := true, limit := 2, offset := 1 }

def exampleDB : List (Series Int) :=
  [⟨"a", [⟨1, 5⟩, ⟨4, 7⟩, ⟨9, 2⟩]⟩, ⟨"b", [⟨3, 1⟩, ⟨8, 0⟩]⟩]

example : Covered exampleQuery exampleDB := by
  refine ⟨rfl, ?_, Or.inr ⟨rfl, ?_⟩⟩
  · intro s hs
    simp [exampleDB] at hs
    rcases hs with rfl | rfl <;> simp [Stored]
  · decide

end Influx.Props.C22
