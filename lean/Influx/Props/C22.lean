/-
  Props.C22 — InfluxQL SELECT results match the language semantics.

  Two levels: `Spec.C22.eval` (denotational reference evaluator, the STATEMENT) and
  `InfluxQLPipe.run` (model of the iterator pipeline `query.Select` builds).
  Theorems land in stages:
    * spec-level laws of `eval` (LIMIT/OFFSET = drop/take per output series, fill reports
      every window of the range exactly once and in order, rows of a raw group are in
      time order),
    * pipeline stage = specification stage (limit iterator; sorted merge; the whole
      raw pipeline over one series),
    * `C22_holdsOn_partial`: the statement checker accepts the pipeline model for the
      statement class whose stages are all proved.
  Everything else of the subset is tied by correspondence only (see checks/C22.json).
-/
import Influx.Lemmas.InfluxQL
import Influx.Lemmas.InfluxQLMerge
import Influx.Lemmas.InfluxQLReduce

namespace Influx.Props.C22
open Influx.Reducers Influx.Spec.C22 Influx.InfluxQLPipe Influx.InfluxQLPipe.Lemmas

variable {V F : Type}

/-! ## Spec-level laws -/

/-- the statement without its LIMIT / OFFSET clause -/
def unlimited (q : Query) : Query := { q with limit := 0, offset := 0 }

/-- **LIMIT / OFFSET**: every output series of a raw statement is the unlimited series
    with `OFFSET` rows dropped and then at most `LIMIT` rows kept. -/
theorem C22_limit_offset_raw (q : Query) (g : Option String × List (Series V)) :
    (rawGroup q g : List (Row V F)) =
      let all : List (Row V F) := rawGroup (unlimited q) g
      if q.limit = 0 then all.drop q.offset else (all.drop q.offset).take q.limit := by
  simp only [rawGroup, limitOffset, unlimited, List.drop_zero, if_true]
  rfl

/-- … and the same for aggregate statements (per output series, after fill). -/
theorem C22_limit_offset_agg (A : Arith22 V F) (q : Query) (g : Option String × List (Series V)) :
    aggGroup A q g =
      let all := aggGroup A (unlimited q) g
      if q.limit = 0 then all.drop q.offset else (all.drop q.offset).take q.limit := by
  simp only [aggGroup, limitOffset, unlimited, List.drop_zero, if_true]
  rfl

/-- **fill**: with a fill option other than `none`, a group that holds at least one
    point reports exactly the windows `lo, lo+d, …` up to the window of the upper time
    bound — every window of the range, each once. -/
theorem C22_fill_every_window (q : Query) (holding : List Int) (hf : q.fill ≠ Fill.none)
    (hh : holding ≠ []) (hd : 0 < q.dur)
    (hlo : winStart q (startOf q) ≤ winStart q (endOf q)) (w : Int) :
    w ∈ windowStarts q holding ↔
      ∃ i : Nat, w = winStart q (startOf q) + (i : Int) * q.dur ∧ w ≤ winStart q (endOf q) := by
  have hh' : holding.isEmpty = false := by cases holding <;> simp_all
  have hlt : ¬ winStart q (endOf q) < winStart q (startOf q) := by omega
  simp only [windowStarts, hf, if_false, hh', Bool.false_eq_true, hlt]
  have key : ∀ (i : Nat), (i < ((winStart q (endOf q) - winStart q (startOf q)) / q.dur).toNat + 1 ↔
      winStart q (startOf q) + (i : Int) * q.dur ≤ winStart q (endOf q)) := by
    intro i
    have hnn : 0 ≤ winStart q (endOf q) - winStart q (startOf q) := by omega
    have hq : 0 ≤ (winStart q (endOf q) - winStart q (startOf q)) / q.dur := Int.ediv_nonneg hnn (by omega)
    constructor
    · intro h
      have h1 : (i : Int) ≤ (winStart q (endOf q) - winStart q (startOf q)) / q.dur := by omega
      have h2 : (i : Int) * q.dur ≤ winStart q (endOf q) - winStart q (startOf q) := by
        have := Int.mul_le_mul_of_nonneg_right h1 (by omega : (0 : Int) ≤ q.dur)
        have h3 := Int.ediv_mul_le (winStart q (endOf q) - winStart q (startOf q)) (by omega : q.dur ≠ 0)
        omega
      omega
    · intro h
      have h2 : (i : Int) * q.dur ≤ winStart q (endOf q) - winStart q (startOf q) := by omega
      have h3 : (i : Int) ≤ (winStart q (endOf q) - winStart q (startOf q)) / q.dur :=
        (Int.le_ediv_iff_mul_le hd).mpr h2
      omega
  split
  · -- descending: the same windows, reversed
    simp only [List.mem_reverse, List.mem_map, List.mem_range]
    constructor
    · rintro ⟨i, hi, rfl⟩; exact ⟨i, rfl, (key i).mp hi⟩
    · rintro ⟨i, rfl, hle⟩; exact ⟨i, (key i).mpr hle, rfl⟩
  · simp only [List.mem_map, List.mem_range]
    constructor
    · rintro ⟨i, hi, rfl⟩; exact ⟨i, rfl, (key i).mp hi⟩
    · rintro ⟨i, rfl, hle⟩; exact ⟨i, (key i).mpr hle, rfl⟩

/-! ## Pipeline stage = specification stage -/

/-- **limit iterator** (`floatLimitIterator`) on the stream of one output series =
    `drop OFFSET` then `take LIMIT`. -/
theorem C22_limit_stage {α : Type} (q : Query) (tg : Option String) (l : List (SP α))
    (h : ∀ p ∈ l, p.tag = tg) :
    limitIter (optOf q) l = limitOffset q l := by
  rw [limitIter_single (optOf q) tg l h]
  rfl

/-- a stored series: strictly increasing timestamps -/
def Stored (s : Series V) : Prop := List.Pairwise (fun a b => a.t < b.t) s.pts

theorem seriesPoints_sorted (q : Query) (s : Series V) (hs : Stored s) :
    List.Pairwise (fun a b => timeLe q a.t b.t = true) (seriesPoints q s) := by
  unfold seriesPoints
  have hf : List.Pairwise (fun a b => a.t < b.t) (s.pts.filter (inRange q)) :=
    List.Pairwise.sublist List.filter_sublist hs
  by_cases hd : q.desc = true
  · simp only [hd, if_true]
    rw [List.pairwise_reverse]
    exact hf.imp (by intro a b hab; simp [timeLe, hd]; omega)
  · simp only [hd]
    exact hf.imp (by intro a b hab; simp [timeLe, hd]; omega)

/-- **raw pipeline over one stored series** (storage iterator → sorted merge → limit
    iterator → scanner rows) = the reference evaluator: WHERE time range, ORDER BY time
    DESC, LIMIT, OFFSET, GROUP BY host. -/
theorem C22_raw_single (A : Arith22 V F) (q : Query) (s : Series V) (hs : Stored s)
    (hraw : q.isRaw = true) : run A q [s] = eval A q [s] := by
  unfold run eval
  by_cases hsup : supported q = true
  · simp only [hsup, Bool.not_true, Bool.false_eq_true, if_false, hraw, if_true]
    cases hce : compileError q with
    | some e => rfl
    | none =>
      simp only
      congr 1
      -- the pipeline side
      have hord : seriesOrder (optOf q).asc [s] = [s] := by
        simp [seriesOrder, sortBy, insertBy]
      have hmerge : sortedMergeGo (optOf q).asc
          ([(seriesIter (optOf q) q.byHost s).length].sum + 1) [seriesIter (optOf q) q.byHost s] =
            seriesIter (optOf q) q.byHost s :=
        sortedMergeGo_single _ _ _ (by simp)
      have htag : ∀ p ∈ seriesIter (optOf q) q.byHost s, p.tag = (if q.byHost then some s.host else none) := by
        intro p hp
        simp only [seriesIter, List.mem_map] at hp
        obtain ⟨x, _, rfl⟩ := hp
        rfl
      simp only [rawPipeline, hord, List.map_cons, List.map_nil, hmerge]
      rw [C22_limit_stage q _ _ htag]
      -- the specification side
      have hgroups : groups q [s] = [(if q.byHost then some s.host else none, [s])] := by
        simp only [groups, orderedSeries, sortBy, List.foldr_cons, List.foldr_nil, insertBy]
        by_cases hb : q.byHost = true <;> by_cases hd : q.desc = true <;> simp [hb, hd]
      simp only [hgroups, List.flatMap_cons, List.flatMap_nil, List.append_nil, rawGroup]
      have hsort : sortBy (fun (a b : Pt V) => timeLe q a.t b.t) (seriesPoints q s) = seriesPoints q s :=
        sortBy_of_pairwise _ _ (seriesPoints_sorted q s hs)
      simp only [hsort]
      -- both sides: the same points, limited, turned into rows
      have hiter : seriesIter (optOf q) q.byHost s =
          (seriesPoints q s).map fun p => ({ tag := if q.byHost then some s.host else none, t := p.t, v := p.v } : SP V) := by
        have hfil : (fun (p : Pt V) => decide (startOf q ≤ p.t) && decide (p.t ≤ endOf q)) = inRange q := rfl
        simp only [seriesIter, seriesPoints, optOf, hfil]
        by_cases hd : q.desc = true <;> simp [hd] <;> rfl
      rw [hiter]
      simp only [limitOffset]
      split <;> simp [List.map_drop, List.map_take, Function.comp_def]
  · simp [hsup]

/-- the points a raw statement without GROUP BY host looks at, series after series -/
def lookedAt (q : Query) (db : List (Series V)) : List (Pt V) :=
  (orderedSeries q db).flatMap (seriesPoints q)

theorem timeLe_eq (q : Query) (a b : Int) :
    timeLe q a b = (if (!q.desc) = true then decide (a ≤ b) else decide (b ≤ a)) := by
  unfold timeLe; cases q.desc <;> simp

theorem strict_of (asc : Bool) (x y : Int) (h1 : ¬ tBefore asc y x) (h2 : x ≠ y) : tBefore asc x y := by
  unfold tBefore at *; cases asc <;> simp at * <;> omega

theorem seriesPoints_strict (q : Query) (s : Series V) (hs : Stored s) :
    List.Pairwise (fun a b => tBefore (!q.desc) a.t b.t) (seriesPoints q s) := by
  unfold seriesPoints
  have hf : List.Pairwise (fun a b => a.t < b.t) (s.pts.filter (inRange q)) :=
    List.Pairwise.sublist List.filter_sublist hs
  by_cases hd : q.desc = true
  · simp only [hd, if_true]
    rw [List.pairwise_reverse]
    exact hf.imp (by intro a b hab; simp [tBefore]; exact hab)
  · have hd' : q.desc = false := by simpa using hd
    simp only [hd', Bool.false_eq_true, if_false]
    exact hf.imp (by intro a b hab; simp [tBefore]; exact hab)

/-- **sorted merge stage + raw pipeline over several series** (no GROUP BY host): the
    sorted merge iterator over the per-series iterators, followed by the limit iterator and
    the scanner, returns the reference evaluator's rows — provided the timestamps the
    statement looks at are pairwise distinct (for equal timestamps of different series the
    order is a `container/heap` detail that no semantics fixes). -/
theorem C22_raw_merge (A : Arith22 V F) (q : Query) (db : List (Series V))
    (hs : ∀ s ∈ db, Stored s) (hraw : q.isRaw = true) (hnb : q.byHost = false)
    (hdist : List.Pairwise (fun a b => a.t ≠ b.t) (lookedAt q db)) :
    run A q db = eval A q db := by
  unfold run eval
  by_cases hsup : supported q = true
  · simp only [hsup, Bool.not_true, Bool.false_eq_true, if_false, hraw, if_true]
    cases hce : compileError q with
    | some e => rfl
    | none =>
      simp only
      congr 1
      have hord : seriesOrder (!q.desc) db = orderedSeries q db := by
        by_cases hd : q.desc = true <;> simp [seriesOrder, orderedSeries, hd]
      have hstored : ∀ s ∈ orderedSeries q db, Stored s := by
        intro s hsm
        apply hs
        simp only [orderedSeries] at hsm
        by_cases hd : q.desc = true
        · simp only [hd, if_true, List.mem_reverse] at hsm
          exact (sortBy_perm _ db).mem_iff.mp hsm
        · simp only [hd] at hsm
          exact (sortBy_perm _ db).mem_iff.mp hsm
      -- per-series iterators = the looked-at points, tagless
      let toSP : Pt V → SP V := fun p => { tag := none, t := p.t, v := p.v }
      have hiter : ∀ s, seriesIter (optOf q) false s = (seriesPoints q s).map toSP := by
        intro s
        have hfil : (fun (p : Pt V) => decide (startOf q ≤ p.t) && decide (p.t ≤ endOf q)) = inRange q := rfl
        simp only [seriesIter, seriesPoints, optOf, hfil]
        by_cases hd : q.desc = true <;> simp [hd, toSP] <;> rfl
      have hins : (orderedSeries q db).map (seriesIter (optOf q) false) =
          (orderedSeries q db).map (fun s => (seriesPoints q s).map toSP) := by
        apply List.map_congr_left; intro s _; exact hiter s
      have hflat : ((orderedSeries q db).map (fun s => (seriesPoints q s).map toSP)).flatten =
          (lookedAt q db).map toSP := by
        simp [lookedAt, List.flatMap, List.map_flatten]
        rfl
      have hok : InputsOK (!q.desc) ((orderedSeries q db).map (fun s => (seriesPoints q s).map toSP)) := by
        intro l hl
        obtain ⟨s, hsm, rfl⟩ := List.mem_map.mp hl
        refine ⟨?_, ?_⟩
        · rw [List.pairwise_map]
          exact seriesPoints_strict q s (hstored s hsm)
        · intro p hp
          obtain ⟨x, _, rfl⟩ := List.mem_map.mp hp
          rfl
      obtain ⟨hperm, hsorted⟩ := sortedMergeGo_facts (!q.desc)
        ((((orderedSeries q db).map (fun s => (seriesPoints q s).map toSP)).map List.length).sum + 1)
        _ hok (by rw [List.length_flatten]; omega)
      -- the merge output is strictly ordered (distinct timestamps)
      have hdist' : List.Pairwise (fun (a b : SP V) => a.t ≠ b.t) ((lookedAt q db).map toSP) := by
        rw [List.pairwise_map]; exact hdist
      rw [hflat] at hperm
      have hdistM := (List.Perm.pairwise_iff (R := fun (a b : SP V) => a.t ≠ b.t)
        (fun h => fun h' => h h'.symm) hperm).mpr hdist'
      have hstrictM := (hsorted.and hdistM).imp (by
        intro a b hab
        exact strict_of _ _ _ hab.1 hab.2 :
        ∀ {a b : SP V}, (¬ tBefore (!q.desc) b.t a.t) ∧ a.t ≠ b.t → tBefore (!q.desc) a.t b.t)
      -- the specification's sort of the same points
      have hsp := sortBy_perm (fun (a b : Pt V) => timeLe q a.t b.t) (lookedAt q db)
      have hss : List.Pairwise (fun (a b : Pt V) => ¬ tBefore (!q.desc) b.t a.t)
          (sortBy (fun (a b : Pt V) => timeLe q a.t b.t) (lookedAt q db)) := by
        have := sortBy_sorted_time (fun (p : Pt V) => p.t) (!q.desc) (lookedAt q db)
        have hle : (fun (a b : Pt V) => timeLe q a.t b.t) =
            (fun (a b : Pt V) => if (!q.desc) = true then decide (a.t ≤ b.t) else decide (b.t ≤ a.t)) := by
          funext a b; exact timeLe_eq q a.t b.t
        rw [hle]; exact this
      have hdistS := (List.Perm.pairwise_iff (R := fun (a b : Pt V) => a.t ≠ b.t)
        (fun h => fun h' => h h'.symm) hsp).mpr hdist
      have hstrictS := (hss.and hdistS).imp (by
        intro a b hab
        exact strict_of _ _ _ hab.1 hab.2 :
        ∀ {a b : Pt V}, (¬ tBefore (!q.desc) b.t a.t) ∧ a.t ≠ b.t → tBefore (!q.desc) a.t b.t)
      have hmergeEq : sortedMergeGo (!q.desc)
          ((((orderedSeries q db).map (fun s => (seriesPoints q s).map toSP)).map List.length).sum + 1)
          ((orderedSeries q db).map (fun s => (seriesPoints q s).map toSP)) =
          (sortBy (fun (a b : Pt V) => timeLe q a.t b.t) (lookedAt q db)).map toSP := by
        apply strict_sorted_perm_unique (fun (p : SP V) => p.t) (!q.desc)
        · exact hstrictM
        · rw [List.pairwise_map]; exact hstrictS
        · exact hperm.trans (hsp.map toSP).symm
      have hasc : (optOf q).asc = !q.desc := rfl
      simp only [rawPipeline, hnb, hasc]
      rw [hord, hins, hmergeEq]
      have htag : ∀ p ∈ (sortBy (fun (a b : Pt V) => timeLe q a.t b.t) (lookedAt q db)).map toSP, p.tag = none := by
        intro p hp
        obtain ⟨x, _, rfl⟩ := List.mem_map.mp hp
        rfl
      rw [C22_limit_stage q none _ htag]
      -- the specification side
      by_cases hemp : orderedSeries q db = []
      · have hl : lookedAt q db = [] := by simp [lookedAt, hemp]
        simp [groups, hnb, hemp, hl, sortBy, limitOffset]
      · have hne : (orderedSeries q db).isEmpty = false := by
          cases h : orderedSeries q db <;> simp_all
        simp only [groups, hnb, Bool.false_eq_true, if_false, hne, List.flatMap_cons, List.flatMap_nil,
          List.append_nil, rawGroup]
        have : (orderedSeries q db).flatMap (seriesPoints q) = lookedAt q db := rfl
        rw [this]
        simp only [limitOffset]
        split <;> simp [List.map_drop, List.map_take, Function.comp_def, toSP]
  · simp [hsup]

/-! ### call iterators over GROUP BY time window boundaries -/

theorem wsOf_mono (o : Opt) (hd : 0 < o.dur) (t u : Int) (h : t ≤ u) : wsOf o t ≤ wsOf o u := by
  rw [wsOf_eq_mul, wsOf_eq_mul]
  have h1 : (t - o.off) / o.dur ≤ (u - o.off) / o.dur := Int.ediv_le_ediv hd (by omega)
  have := Int.mul_le_mul_of_nonneg_left h1 (by omega : (0 : Int) ≤ o.dur)
  omega

/-- **call-iterator stage** (`xReduceYIterator.reduce` + `IteratorOptions.Window`) over one
    stored series, GROUP BY time(d, off), either direction: for ANY reducer `emit`, the
    iterator emits, for each distinct window start of the looked-at points in statement
    order, `emit start (the points of that window)` — exactly the window partition the
    reference evaluator uses (`winStart`, `dedupAdj`, `filter`). -/
theorem C22_call_iterator_stage {β : Type} (q : Query) (s : Series V) (hs : Stored s) (hd : 0 < q.dur)
    (hc : ∀ p ∈ seriesPoints q s, NoClamp (optOf q) p.t) (tg : Option String)
    (emit : Int → List (SP (Val V F)) → SP β) :
    let wrap : Pt V → SP (Val V F) := fun p => { tag := tg, t := p.t, v := Val.v p.v }
    reduceStream (optOf q) emit ((seriesPoints q s).map wrap) =
      (dedupAdj ((seriesPoints q s).map fun p => winStart q p.t)).map fun w =>
        emit w (((seriesPoints q s).filter fun p => decide (winStart q p.t = w)).map wrap) := by
  intro wrap
  have hd' : 0 < (optOf q).dur := hd
  have hkey : ∀ p : Pt V, wsOf (optOf q) (wrap p).t = winStart q p.t := fun p => rfl
  rw [reduceStream_runs (optOf q) hd' emit tg _
    (by intro p hp; obtain ⟨x, _, rfl⟩ := List.mem_map.mp hp; rfl)
    (by intro p hp; obtain ⟨x, hx, rfl⟩ := List.mem_map.mp hp; exact hc x hx)
    (by intro p hp; obtain ⟨x, _, rfl⟩ := List.mem_map.mp hp; rfl)]
  -- the window starts advance monotonically along the series
  have hstrict := seriesPoints_strict q s hs
  by_cases hdesc : q.desc = true
  · have hpw : List.Pairwise (fun (a b : SP (Val V F)) =>
        wsOf (optOf q) a.t = wsOf (optOf q) b.t ∨ wsOf (optOf q) b.t < wsOf (optOf q) a.t)
        ((seriesPoints q s).map wrap) := by
      rw [List.pairwise_map]
      refine hstrict.imp ?_
      intro a b hab
      simp only [tBefore, hdesc, Bool.not_true, Bool.false_eq_true, if_false] at hab
      have := wsOf_mono (optOf q) hd' b.t a.t (by omega)
      show wsOf (optOf q) a.t = wsOf (optOf q) b.t ∨ wsOf (optOf q) b.t < wsOf (optOf q) a.t
      omega
    rw [runs_sorted (fun (p : SP (Val V F)) => wsOf (optOf q) p.t) (fun x y => y < x)
      (by intro x; omega) (by intro x y z h1 h2; omega) _ hpw]
    simp only [List.map_map, List.filter_map, Function.comp_def, hkey]
  · have hpw : List.Pairwise (fun (a b : SP (Val V F)) =>
        wsOf (optOf q) a.t = wsOf (optOf q) b.t ∨ wsOf (optOf q) a.t < wsOf (optOf q) b.t)
        ((seriesPoints q s).map wrap) := by
      rw [List.pairwise_map]
      refine hstrict.imp ?_
      intro a b hab
      have hdesc' : q.desc = false := by simpa using hdesc
      simp only [tBefore, hdesc', Bool.not_false, if_true] at hab
      have := wsOf_mono (optOf q) hd' a.t b.t (by omega)
      show wsOf (optOf q) a.t = wsOf (optOf q) b.t ∨ wsOf (optOf q) a.t < wsOf (optOf q) b.t
      omega
    rw [runs_sorted (fun (p : SP (Val V F)) => wsOf (optOf q) p.t) (fun x y => x < y)
      (by intro x; omega) (by intro x y z h1 h2; omega) _ hpw]
    simp only [List.map_map, List.filter_map, Function.comp_def, hkey]

/-! ### the reducers' values are the reference evaluator's aggregates -/

/-- selector / sum fold of the Func reducer simulates the specification's fold -/
theorem funcFold_selector (A : Arith22 V F) (a : Agg) (hsel : isSelector a = true) (tg : Option String)
    (ps : List (Pt V)) : ∀ (st : SP (Val V F)) (pt : Pt V), st.t = pt.t → st.v = Val.v pt.v →
      let wrap : Pt V → SP (Val V F) := fun p => { tag := tg, t := p.t, v := Val.v p.v }
      let r := (ps.map wrap).foldl (fun st c =>
        let r := selFn A a st c; { st with t := r.1, v := r.2, agg := st.agg + aggInc c }) st
      let r' := ps.foldl (fun p c => if better A a c p then c else p) pt
      r.t = r'.t ∧ r.v = Val.v r'.v := by
  induction ps with
  | nil => intro st pt h1 h2; exact ⟨h1, h2⟩
  | cons c cs ih =>
    intro st pt h1 h2
    simp only [List.map_cons, List.foldl_cons]
    have hstep : selFn A a st ({ tag := tg, t := c.t, v := Val.v c.v } : SP (Val V F)) =
        if better A a c pt then (c.t, Val.v c.v) else (pt.t, Val.v pt.v) := by
      cases a <;> simp [isSelector] at hsel <;> simp only [selFn, better, h1, h2, vLt, vEq] <;> rfl
    by_cases hb : better A a c pt = true
    · simp only [hb, if_true] at hstep ⊢
      apply ih
      · simp [hstep]
      · simp [hstep]
    · simp only [hb, if_false] at hstep ⊢
      apply ih
      · simp [hstep]
      · simp [hstep]

theorem funcFold_sum (A : Arith22 V F) (tg : Option String) (ps : List (Pt V)) :
    ∀ (st : SP (Val V F)) (x : V), st.v = Val.v x →
      let wrap : Pt V → SP (Val V F) := fun p => { tag := tg, t := p.t, v := Val.v p.v }
      ((ps.map wrap).foldl (fun st c =>
        let r := selFn A .sum st c; { st with t := r.1, v := r.2, agg := st.agg + aggInc c }) st).v =
        Val.v ((ps.map (·.v)).foldl A.vo.add x) := by
  induction ps with
  | nil => intro st x h; exact h
  | cons c cs ih =>
    intro st x h
    simp only [List.map_cons, List.foldl_cons]
    apply ih
    simp [selFn, vAdd, h]

/-- **reducer stage**: over the points of one window of one series, the first-level call
    iterator's reducer (`XFuncReducer` with `XCountReduce`/`XSumReduce`/`XMinReduce`/…)
    yields the reference evaluator's aggregate value (`aggVal`), for count, sum, min, max,
    first, last. -/
theorem C22_reducer_value (A : Arith22 V F) (a : Agg) (ha : a ≠ Agg.mean) (tg : Option String) (w : Int)
    (pts : List (Pt V)) (hne : pts ≠ []) :
    (emitOf A a true w (pts.map fun p => ({ tag := tg, t := p.t, v := Val.v p.v } : SP (Val V F)))).v =
      aggVal A a [pts] := by
  obtain ⟨p, ps, rfl⟩ : ∃ p ps, pts = p :: ps := by
    cases pts with
    | nil => exact absurd rfl hne
    | cons p ps => exact ⟨p, ps, rfl⟩
  cases a with
  | mean => exact absurd rfl ha
  | count => simp [emitOf, aggVal]
  | sum =>
    simp only [emitOf, funcReduce, List.map_cons, aggVal, List.filterMap_cons, List.filterMap_nil, fold1]
    simp only [selFirst, isSelector, Bool.false_eq_true, if_false]
    exact funcFold_sum A tg ps _ p.v rfl
  | min =>
    have h := funcFold_selector A .min rfl tg ps
      ({ tag := tg, t := p.t, v := Val.v p.v, agg := aggInc ({ tag := tg, t := p.t, v := Val.v p.v } : SP (Val V F)) }) p rfl rfl
    simp only [emitOf, funcReduce, List.map_cons, selFirst, isSelector, if_true, aggVal, List.flatMap_cons,
      List.flatMap_nil, List.append_nil, id, select, fold1]
    simp [h.2]
  | max =>
    have h := funcFold_selector A .max rfl tg ps
      ({ tag := tg, t := p.t, v := Val.v p.v, agg := aggInc ({ tag := tg, t := p.t, v := Val.v p.v } : SP (Val V F)) }) p rfl rfl
    simp only [emitOf, funcReduce, List.map_cons, selFirst, isSelector, if_true, aggVal, List.flatMap_cons,
      List.flatMap_nil, List.append_nil, id, select, fold1]
    simp [h.2]
  | first =>
    have h := funcFold_selector A .first rfl tg ps
      ({ tag := tg, t := p.t, v := Val.v p.v, agg := aggInc ({ tag := tg, t := p.t, v := Val.v p.v } : SP (Val V F)) }) p rfl rfl
    simp only [emitOf, funcReduce, List.map_cons, selFirst, isSelector, if_true, aggVal, List.flatMap_cons,
      List.flatMap_nil, List.append_nil, id, select, fold1]
    simp [h.2]
  | last =>
    have h := funcFold_selector A .last rfl tg ps
      ({ tag := tg, t := p.t, v := Val.v p.v, agg := aggInc ({ tag := tg, t := p.t, v := Val.v p.v } : SP (Val V F)) }) p rfl rfl
    simp only [emitOf, funcReduce, List.map_cons, selFirst, isSelector, if_true, aggVal, List.flatMap_cons,
      List.flatMap_nil, List.append_nil, id, select, fold1]
    simp [h.2]

/-! ## The statement checker accepts the model -/

theorem valsEq_refl (A : Arith22 V F) (l : List (Val V F)) : valsEq A l l = true := by
  induction l with
  | nil => rfl
  | cons a l ih =>
    cases a <;> simp [valsEq, valEq, ih, A.eqvV_refl, A.eqvF_refl]

theorem rowsEq_refl (A : Arith22 V F) (l : List (Row V F)) : rowsEq A l l = true := by
  induction l with
  | nil => rfl
  | cons a l ih => simp [rowsEq, valsEq_refl, ih]

theorem resultEq_refl (A : Arith22 V F) (r : Result V F) : resultEq A r r = true := by
  cases r <;> simp [resultEq, rowsEq_refl]

/-- the statements and databases `C22_holdsOn_partial` covers: raw statements over
    stored series — one series (any clauses), or several series without GROUP BY host whose
    looked-at timestamps are pairwise distinct -/
def Covered (q : Query) (db : List (Series V)) : Prop :=
  q.isRaw = true ∧ (∀ s ∈ db, Stored s) ∧
    ((∃ s, db = [s]) ∨ (q.byHost = false ∧ List.Pairwise (fun a b => a.t ≠ b.t) (lookedAt q db)))

/-- **C22 (partial)**: for every arithmetic, every covered raw statement (any WHERE time
    range, ORDER BY direction, LIMIT, OFFSET; GROUP BY host over one series) the rows of the
    pipeline model (storage iterators → sorted merge → limit iterator → scanner) are the rows
    of the reference evaluator, so the statement checker accepts them.
    Missing: GROUP BY host over several series, and all aggregate statements (call
    iterators, merge + re-aggregation, interval, fill, row join) — tied by correspondence only. -/
theorem run_eq_eval_of_covered (A : Arith22 V F) (q : Query) (db : List (Series V)) (h : Covered q db) :
    run A q db = eval A q db := by
  obtain ⟨hraw, hs, hcase⟩ := h
  rcases hcase with ⟨s, rfl⟩ | ⟨hnb, hdist⟩
  · exact C22_raw_single A q s (hs s (by simp)) hraw
  · exact C22_raw_merge A q db hs hraw hnb hdist

theorem C22_holdsOn_partial (A : Arith22 V F) (q : Query) (db : List (Series V)) (h : Covered q db) :
    holdsOn A q db (run A q db) = true := by
  rw [holdsOn, run_eq_eval_of_covered A q db h]
  exact resultEq_refl A _

/-- the same for statements over sparse two-field series (WHERE on the second field, aux
    column): the storage side is modelled as the projection `project`, so the covered class
    carries over -/
theorem C22_holdsOn2_partial (A : Arith22 V F) (q : Query2) (db : List (Series2 V))
    (h : Covered q.q (db.map (project A q))) :
    holdsOn2 A q db (run2 A q db) = true := by
  unfold holdsOn2 run2 eval2
  rw [run_eq_eval_of_covered A q.q _ h]
  exact resultEq_refl A _

/-- the reference evaluator trivially satisfies its own statement (sanity) -/
theorem C22_holdsOn_eval (A : Arith22 V F) (q : Query) (db : List (Series V)) :
    holdsOn A q db (eval A q db) = true := resultEq_refl A _

-- the hypotheses of `C22_holdsOn_partial` are met by a non-trivial statement and database
def exampleQuery : Query :=
  { calls := [], tmin := some 2, tmax := none, dur := 0, off := 0, byHost := false,
    fill := Fill.null, desc := true, limit := 2, offset := 1 }

def exampleDB : List (Series Int) :=
  [⟨"a", [⟨1, 5⟩, ⟨4, 7⟩, ⟨9, 2⟩]⟩, ⟨"b", [⟨3, 1⟩, ⟨8, 0⟩]⟩]

example : Covered exampleQuery exampleDB := by
  refine ⟨rfl, ?_, Or.inr ⟨rfl, ?_⟩⟩
  · intro s hs
    simp [exampleDB] at hs
    rcases hs with rfl | rfl <;> simp [Stored]
  · decide

end Influx.Props.C22
