/-
  Props.C07 — Value encodings round-trip bit-exactly.

  The functions under proof are the models of the tsm1 codecs (Model/Codec*.lean): machine
  words are `Nat < 2^64`, byte strings `List Nat`; the simple8b selector table, `numBits`,
  `MaxValue` and the encoding-type constants are regenerated from /repo on every run
  (Influx.Generated.Codec).  Every theorem is for ALL lists (no length bound other than
  "a slice length fits in 64 bits" where a length is written as a varint).
-/
import Influx.Lemmas.CodecTimeLen
import Influx.Lemmas.CodecFloat
import Influx.Lemmas.CodecBlock
import Influx.Model.CodecRun

namespace Influx.Props.C07
open Influx.Codec Influx.Spec.C07
open Influx.Generated.Codec (MaxValue)

/-! ## zigzag, varints, words -/

/-- ZigZagDecode ∘ ZigZagEncode = id on every 64-bit pattern. -/
theorem zigzag_roundtrip (x : Nat) (h : x < W) : zigzagDec (zigzagEnc x) = x := Influx.Codec.zigzag_roundtrip x h

/-- `binary.Uvarint` reads back what `binary.PutUvarint` wrote, for every uint64, leaving the rest. -/
theorem uvarint_roundtrip (v : Nat) (h : v < W) (rest : Codec.Bytes) : getUvarint (putUvarint v ++ rest) = some (v, rest) :=
  getUvarint_put v h rest

/-- big-endian 8-byte words read back. -/
theorem u64_roundtrip (v : Nat) (h : v < W) (rest : Codec.Bytes) : getU64 (putU64 v ++ rest) = some (v, rest) :=
  getU64_putU64 v h rest

/-! ## simple8b -/

/-- one packed word unpacks to the packed values, for every row of the (generated) selector table. -/
theorem simple8b_word (sel n bits : Nat) (hsel : Influx.Generated.Codec.selector[sel]? = some (n, bits)) (vals : List Nat)
    (hlen : vals.length = n) (hb : if bits = 0 then ∀ v ∈ vals, v = 1 else ∀ v ∈ vals, v < 2 ^ bits) :
    unpackWord (packWord sel bits vals) = vals :=
  (unpackWord_packWord sel n bits hsel vals hlen hb).2

/-- **simple8b**: all three encoders (influxdb `EncodeAll`, jwilder `EncodeAll`, jwilder streaming
    `Encoder`) accept exactly the inputs without a value above `2^60-1`, and then every decoder returns the input. -/
theorem simple8b_accept (vs : List Nat) (h : ∀ v ∈ vs, v ≤ MaxValue) :
    (∃ ws, encodeAllI vs.length vs = some ws ∧ decodeWords ws = vs) ∧
    (∃ ws, encodeAllJ vs.length vs = some ws ∧ decodeWords ws = vs) ∧
    (∃ ws, encodeStream vs = some ws ∧ decodeWords ws = vs) := by
  obtain ⟨a, a1, a2, _⟩ := encodeAllI_ok vs h
  obtain ⟨b, b1, b2, _⟩ := encodeAllJ_ok vs h
  obtain ⟨c, c1, c2, _⟩ := encodeStream_ok vs h
  exact ⟨⟨a, a1, a2⟩, ⟨b, b1, b2⟩, ⟨c, c1, c2⟩⟩

theorem simple8b_reject (vs : List Nat) (h : ∃ v ∈ vs, v > MaxValue) :
    encodeAllI vs.length vs = none ∧ encodeAllJ vs.length vs = none ∧ encodeStream vs = none :=
  ⟨encodeAllI_reject vs h, encodeAllJ_reject vs h, encodeStream_reject vs h⟩

/-- rejection is exact: an encoder fails iff some value exceeds `2^60-1`. -/
theorem simple8b_reject_iff (vs : List Nat) : encodeAllI vs.length vs = none ↔ ∃ v ∈ vs, v > MaxValue := by
  constructor
  · intro hn
    apply Classical.byContradiction
    intro hne
    have : ∀ v ∈ vs, v ≤ MaxValue := fun v hv => Nat.le_of_not_lt (fun hlt => hne ⟨v, hv, hlt⟩)
    obtain ⟨ws, e, _⟩ := encodeAllI_ok vs this
    rw [e] at hn; simp at hn
  · exact encodeAllI_reject vs

/-! ## The value codecs -/

/-- a compressor that gives back what it was given (snappy enters only through this hypothesis) -/
def Lossless (c : Compressor) : Prop := ∀ x, c.decompress (c.compress x) = some x

/-- machine-representable values: 64-bit words, slice lengths that fit in 64 bits -/
def ValsWF : Vals → Prop
  | .f l | .i l | .u l => (∀ v ∈ l, v < W) ∧ l.length < W
  | .b l => l.length < W
  | .s l => ∀ s ∈ l, s.length < W

/-- no float is a NaN (the codec's sentinel; NaNs are rejected — the recorded finding) -/
def NoNaN : Vals → Prop
  | .f l => ∀ v ∈ l, isNaN v = false
  | _ => True

/-- **integer / unsigned codec**: both encoders accept every sequence; the decoder returns it. -/
theorem integer_roundtrip (vs : List Nat) (hv : ∀ v ∈ vs, v < W) (hlen : vs.length < W) :
    (∃ b, intEncodeS vs = some b ∧ intDecode b = some vs) ∧ (∃ b, intEncodeB vs = some b ∧ intDecode b = some vs) :=
  ⟨intEncodeS_roundtrip vs hv hlen, intEncodeB_roundtrip vs hv hlen⟩

/-- **timestamp codec** (delta, power-of-ten divisor, RLE / simple8b / raw): both encoders, any order of
    timestamps, wrap-around included. -/
theorem timestamp_roundtrip (ts : List Nat) (hv : ∀ v ∈ ts, v < W) (hlen : ts.length < W) :
    (∃ b, timeEncodeS ts = some b ∧ timeDecode b = some ts) ∧ (∃ b, timeEncodeB ts = some b ∧ timeDecode b = some ts) :=
  ⟨timeEncodeS_roundtrip ts hv hlen, timeEncodeB_roundtrip ts hv hlen⟩

/-- **boolean codec**: scalar and batch encoders. -/
theorem boolean_roundtrip (vs : List Bool) (hlen : vs.length < W) :
    boolDecode (boolEncodeS vs) = some vs ∧ boolDecode (boolEncode vs) = some vs :=
  ⟨boolDecode_boolEncodeS vs hlen, boolDecode_boolEncode vs hlen⟩

/-- **float codec** (Gorilla XOR): bit-identical for every non-NaN pattern (±0, subnormals, ±Inf, …). -/
theorem float_roundtrip (vs : List Nat) (hv : ∀ v ∈ vs, v < W) (hn : ∀ v ∈ vs, isNaN v = false) :
    ∃ b, floatEncode vs = some b ∧ floatDecode b = some vs := floatDecode_floatEncode vs hv hn

/-- a NaN anywhere makes the encoders refuse the sequence (so the full statement fails on NaNs). -/
theorem float_nan_rejected (vs : List Nat) (h : ∃ v ∈ vs, isNaN v = true) : floatEncode vs = none := by
  unfold floatEncode
  rw [if_pos (List.any_eq_true.mpr h)]

/-- **string codec** over any lossless compressor. -/
theorem string_roundtrip (c : Compressor) (hc : Lossless c) (vs : List Codec.Bytes) (hlen : ∀ s ∈ vs, s.length < W) :
    strDecode c (strEncode c vs) = some vs := strDecode_strEncode c hc vs hlen

/-- every field type, scalar and batch value encoders -/
theorem vals_roundtrip (c : Compressor) (hc : Lossless c) (v : Vals) (hwf : ValsWF v) (hn : NoNaN v) :
    (∃ b, valsEncodeS c v = some b ∧ valsDecode c v b = some v) ∧
    (∃ b, valsEncodeB c v = some b ∧ valsDecode c v b = some v) := by
  cases v with
  | f l =>
    obtain ⟨b, e1, e2⟩ := float_roundtrip l hwf.1 hn
    exact ⟨⟨b, e1, by simp [valsDecode, e2]⟩, ⟨b, e1, by simp [valsDecode, e2]⟩⟩
  | i l =>
    obtain ⟨⟨a, a1, a2⟩, ⟨b, b1, b2⟩⟩ := integer_roundtrip l hwf.1 hwf.2
    exact ⟨⟨a, a1, by simp [valsDecode, a2]⟩, ⟨b, b1, by simp [valsDecode, b2]⟩⟩
  | u l =>
    obtain ⟨⟨a, a1, a2⟩, ⟨b, b1, b2⟩⟩ := integer_roundtrip l hwf.1 hwf.2
    exact ⟨⟨a, a1, by simp [valsDecode, a2]⟩, ⟨b, b1, by simp [valsDecode, b2]⟩⟩
  | b l =>
    obtain ⟨a1, a2⟩ := boolean_roundtrip l hwf
    exact ⟨⟨_, rfl, by simp [valsDecode, a1]⟩, ⟨_, rfl, by simp [valsDecode, a2]⟩⟩
  | s l =>
    have := string_roundtrip c hc l hwf
    exact ⟨⟨_, rfl, by simp [valsDecode, this]⟩, ⟨_, rfl, by simp [valsDecode, this]⟩⟩

/-! ## Blocks -/

/-- framing: type byte, uvarint length of the timestamp section, both sections -/
theorem blockDecode_packBlock (c : Compressor) (v : Vals) (ts : List Nat) (tb vb : Codec.Bytes) (htb : tb.length < W)
    (ht : timeDecode tb = some ts) (hvd : valsDecode c v vb = some v) :
    decBlock c v (packBlock v.blockType tb vb) = some (ts, v) := by
  unfold decBlock packBlock
  simp only [List.isEmpty_cons, Bool.false_eq_true, if_false, blockDecode, ne_eq, not_true_eq_false]
  rw [unpackBlock_pack tb vb htb]
  simp only [ht, hvd]

/-- **block round trip**, both block encoders, for a non-empty sequence of points -/
theorem block_roundtrip (c : Compressor) (hc : Lossless c) (ts : List Nat) (v : Vals)
    (hts : ∀ t ∈ ts, t < W) (hlen60 : ts.length < 2 ^ 60) (hne : ts ≠ []) (hwf : ValsWF v) (hn : NoNaN v) :
    (∃ b, blockEncodeS c ts v = some b ∧ decBlock c v b = some (ts, v)) ∧
    (∃ b, blockEncodeB c ts v = some b ∧ decBlock c v b = some (ts, v)) := by
  have hlen : ts.length < W := Nat.lt_trans hlen60 (by decide)
  have hsz : ∀ tb, (timeEncodeS ts = some tb ∨ timeEncodeB ts = some tb) → tb.length < W := by
    intro tb h
    have := timeEncode_length ts tb hts hlen h
    have hW : W = 18446744073709551616 := rfl
    have h60 : (2 : Nat) ^ 60 = 1152921504606846976 := by decide
    rw [hW]; rw [h60] at hlen60; omega
  obtain ⟨⟨ta, ta1, ta2⟩, ⟨tb, tb1, tb2⟩⟩ := timestamp_roundtrip ts hts hlen
  obtain ⟨⟨va, va1, va2⟩, ⟨vb, vb1, vb2⟩⟩ := vals_roundtrip c hc v hwf hn
  have he : ts.isEmpty = false := by cases ts with | nil => exact absurd rfl hne | cons _ _ => rfl
  constructor
  · refine ⟨packBlock v.blockType ta va, ?_, blockDecode_packBlock c v ts ta va (hsz ta (Or.inl ta1)) ta2 va2⟩
    simp [blockEncodeS, he, ta1, va1]
  · refine ⟨packBlock v.blockType tb vb, ?_, blockDecode_packBlock c v ts tb vb (hsz tb (Or.inr tb1)) tb2 vb2⟩
    simp [blockEncodeB, he, tb1, vb1]

/-! ## The statement checker on the model -/

/-- inputs that exist on a 64-bit machine, without NaN floats -/
def WellFormed : Op → Prop
  | .zz x => x < W
  | .s8b _ => True
  | .codec v => ValsWF v ∧ NoNaN v
  | .time ts => (∀ t ∈ ts, t < W) ∧ ts.length < W
  | .block ts v => (∀ t ∈ ts, t < W) ∧ ts.length < 2 ^ 60 ∧ ValsWF v ∧ NoNaN v

theorem holdsOn_zz (c : Compressor) (x : Nat) (h : x < W) : holdsOn (.zz x) (run c (.zz x)) = true := by
  simp [holdsOn, run, Influx.Codec.zigzag_roundtrip x h]

theorem holdsOn_s8b (c : Compressor) (vs : List Nat) : holdsOn (.s8b vs) (run c (.s8b vs)) = true := by
  simp only [holdsOn, run]
  split
  · next hbig =>
    have : ∃ v ∈ vs, v > MaxValue := by
      obtain ⟨v, hv, hgt⟩ := List.any_eq_true.mp hbig
      exact ⟨v, hv, by rw [MaxValue_eq]; simpa [maxPackable] using hgt⟩
    obtain ⟨r1, r2, r3⟩ := simple8b_reject vs this
    simp [r1, r2, r3]
  · next hsmall =>
    have hall : ∀ v ∈ vs, v ≤ MaxValue := by
      intro v hv
      rw [MaxValue_eq]
      apply Nat.le_of_not_lt
      intro hlt
      exact hsmall (List.any_eq_true.mpr ⟨v, hv, by simpa [maxPackable] using hlt⟩)
    obtain ⟨⟨a, a1, a2⟩, ⟨b, b1, b2⟩, ⟨d, d1, d2⟩⟩ := simple8b_accept vs hall
    simp [a1, b1, d1, a2, b2, d2]

theorem roundTrips_rtOf {α : Type} [DecidableEq α] (x : α) (encS encB : Option Codec.Bytes) (dec : Codec.Bytes → Option α)
    (a b : Codec.Bytes) (ha : encS = some a) (hb : encB = some b) (da : dec a = some x) (db : dec b = some x) :
    roundTrips x (rtOf encS encB dec) = true := by
  subst ha; subst hb
  simp [roundTrips, rtOf, da, db]

/-- **C07 (partial)**: for every well-formed operation without NaN floats, and any lossless compressor,
    the statement holds of what the model of the codecs answers.  The hypothesis excludes exactly the
    recorded finding (NaN is not encodable, `C07_full_fails`); everything else in `WellFormed` says that
    values are 64-bit words, slice lengths fit in 64 bits and a block has fewer than 2^60 points. -/
theorem C07_holdsOn_partial (c : Compressor) (hc : Lossless c) (op : Op) (h : WellFormed op) :
    holdsOn op (run c op) = true := by
  cases op with
  | zz x => exact holdsOn_zz c x h
  | s8b vs => exact holdsOn_s8b c vs
  | codec v =>
    obtain ⟨⟨a, a1, a2⟩, ⟨b, b1, b2⟩⟩ := vals_roundtrip c hc v h.1 h.2
    simp only [holdsOn, run, Bool.and_eq_true]
    exact ⟨⟨roundTrips_rtOf v _ _ _ a b a1 b1 a2 b2, by simp [rtOf, b1, b2]⟩, by simp [rtOf, b1, b2]⟩
  | time ts =>
    obtain ⟨⟨a, a1, a2⟩, ⟨b, b1, b2⟩⟩ := timestamp_roundtrip ts h.1 h.2
    simp only [holdsOn, run, Bool.and_eq_true]
    exact ⟨⟨roundTrips_rtOf ts _ _ _ a b a1 b1 a2 b2, by simp [rtOf, b1, b2]⟩, by simp [rtOf, b1, b2]⟩
  | block ts v =>
    obtain ⟨hts, hlen, hwf, hn⟩ := h
    simp only [holdsOn, run]
    split
    · rfl
    · split
      · next he =>
        have : ts = [] := by simpa using he
        subst this
        simp [blockEncodeS, blockEncodeB, rtOf]
      · next hl he =>
        have hne : ts ≠ [] := by intro h0; subst h0; simp at he
        obtain ⟨⟨a, a1, a2⟩, ⟨b, b1, b2⟩⟩ := block_roundtrip c hc ts v hts hlen hne hwf hn
        have hr := roundTrips_rtOf (ts, v) _ _ (decBlock c v) a b a1 b1 a2 b2
        simp only [Bool.and_eq_true, hr, true_and]
        simp [rtOf, a1, b1, a2, b2]

/-- **the full statement fails**: a sequence containing the NaN `0x7FF8000000000001` is well formed in
    every other respect, and no encoder accepts it. -/
theorem C07_full_fails (c : Compressor) :
    holdsOn (.codec (.f [4607182418800017408, 9221120237041090561])) (run c (.codec (.f [4607182418800017408, 9221120237041090561]))) = false := by
  have h : floatEncode [4607182418800017408, 9221120237041090561] = none :=
    float_nan_rejected _ ⟨9221120237041090561, by simp, by decide⟩
  simp [holdsOn, run, rtOf, roundTrips, valsEncodeS, valsEncodeB, h]

-- the hypotheses are met by non-trivial values
example : WellFormed (.s8b [1, 2, 3, 1152921504606846975]) := trivial
example : WellFormed (.codec (.f [4607182418800017408, 9218868437227405312, 18442240474082181120])) :=
  ⟨⟨by decide, by decide⟩, by intro v hv; simp at hv; rcases hv with rfl | rfl | rfl <;> decide⟩
example : WellFormed (.time [1000, 2000, 3001]) := ⟨by decide, by decide⟩
example : WellFormed (.block [1000, 2000, 3001] (.b [true, false, true])) := ⟨by decide, by decide, (by decide : [true, false, true].length < W), trivial⟩
example : Lossless { compress := id, decompress := some } := fun _ => rfl

end Influx.Props.C07
