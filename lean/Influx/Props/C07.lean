/-
  Props.C07 — Value encodings round-trip bit-exactly.

  The functions under proof are the models of the tsm1 codecs (Model/Codec*.lean): machine
  words are `Nat < 2^64`, byte strings `List Nat`; the simple8b selector table, `numBits`,
  `MaxValue` and the encoding-type constants are regenerated from /repo on every run
  (Influx.Generated.Codec).  Every theorem is for ALL lists (no length bound other than
  "a slice length fits in 64 bits" where a length is written as a varint).
-/
import Influx.Lemmas.CodecS8b
import Influx.Model.CodecRun

namespace Influx.Props.C07
open Influx.Codec Influx.Spec.C07
open Influx.Generated.Codec (MaxValue)

/-! ## zigzag, varints, words -/

/-- ZigZagDecode ∘ ZigZagEncode = id on every 64-bit pattern. -/
theorem zigzag_roundtrip (x : Nat) (h : x < W) : zigzagDec (zigzagEnc x) = x := Influx.Codec.zigzag_roundtrip x h

/-- `binary.Uvarint` reads back what `binary.PutUvarint` wrote, for every uint64, leaving the rest. -/
theorem uvarint_roundtrip (v : Nat) (h : v < W) (rest : Codec.Bytes) : getUvarint (putUvarint v ++ rest) = some (v, rest) :=
  getUvarint_put v h rest

/-- big-endian 8-byte words read back. -/
theorem u64_roundtrip (v : Nat) (h : v < W) (rest : Codec.Bytes) : getU64 (putU64 v ++ rest) = some (v, rest) :=
  getU64_putU64 v h rest

/-! ## simple8b -/

/-- one packed word unpacks to the packed values, for every row of the (generated) selector table. -/
theorem simple8b_word (sel n bits : Nat) (hsel : Influx.Generated.Codec.selector[sel]? = some (n, bits)) (vals : List Nat)
    (hlen : vals.length = n) (hb : if bits = 0 then ∀ v ∈ vals, v = 1 else ∀ v ∈ vals, v < 2 ^ bits) :
    unpackWord (packWord sel bits vals) = vals :=
  (unpackWord_packWord sel n bits hsel vals hlen hb).2

/-- **simple8b**: all three encoders (influxdb `EncodeAll`, jwilder `EncodeAll`, jwilder streaming
    `Encoder`) accept exactly the inputs without a value above `2^60-1`, and then every decoder returns the input. -/
theorem simple8b_accept (vs : List Nat) (h : ∀ v ∈ vs, v ≤ MaxValue) :
    (∃ ws, encodeAllI vs.length vs = some ws ∧ decodeWords ws = vs) ∧
    (∃ ws, encodeAllJ vs.length vs = some ws ∧ decodeWords ws = vs) ∧
    (∃ ws, encodeStream vs = some ws ∧ decodeWords ws = vs) := by
  obtain ⟨a, a1, a2, _⟩ := encodeAllI_ok vs h
  obtain ⟨b, b1, b2, _⟩ := encodeAllJ_ok vs h
  obtain ⟨c, c1, c2, _⟩ := encodeStream_ok vs h
  exact ⟨⟨a, a1, a2⟩, ⟨b, b1, b2⟩, ⟨c, c1, c2⟩⟩

theorem simple8b_reject (vs : List Nat) (h : ∃ v ∈ vs, v > MaxValue) :
    encodeAllI vs.length vs = none ∧ encodeAllJ vs.length vs = none ∧ encodeStream vs = none :=
  ⟨encodeAllI_reject vs h, encodeAllJ_reject vs h, encodeStream_reject vs h⟩

/-- rejection is exact: an encoder fails iff some value exceeds `2^60-1`. -/
theorem simple8b_reject_iff (vs : List Nat) : encodeAllI vs.length vs = none ↔ ∃ v ∈ vs, v > MaxValue := by
  constructor
  · intro hn
    apply Classical.byContradiction
    intro hne
    have : ∀ v ∈ vs, v ≤ MaxValue := fun v hv => Nat.le_of_not_lt (fun hlt => hne ⟨v, hv, hlt⟩)
    obtain ⟨ws, e, _⟩ := encodeAllI_ok vs this
    rw [e] at hn; simp at hn
  · exact encodeAllI_reject vs

/-! ## The statement checker on the model -/

/-- the part of the vocabulary whose model answer is PROVED to satisfy the statement -/
def Proved : Op → Bool
  | .zz x => decide (x < W)
  | .s8b _ => true
  | _ => false

theorem holdsOn_zz (c : Compressor) (x : Nat) (h : x < W) : holdsOn (.zz x) (run c (.zz x)) = true := by
  simp [holdsOn, run, Influx.Codec.zigzag_roundtrip x h]

theorem holdsOn_s8b (c : Compressor) (vs : List Nat) : holdsOn (.s8b vs) (run c (.s8b vs)) = true := by
  simp only [holdsOn, run]
  split
  · next hbig =>
    have : ∃ v ∈ vs, v > MaxValue := by
      obtain ⟨v, hv, hgt⟩ := List.any_eq_true.mp hbig
      exact ⟨v, hv, by rw [MaxValue_eq]; simpa [maxPackable] using hgt⟩
    obtain ⟨r1, r2, r3⟩ := simple8b_reject vs this
    simp [r1, r2, r3]
  · next hsmall =>
    have hall : ∀ v ∈ vs, v ≤ MaxValue := by
      intro v hv
      rw [MaxValue_eq]
      apply Nat.le_of_not_lt
      intro hlt
      exact hsmall (List.any_eq_true.mpr ⟨v, hv, by simpa [maxPackable] using hlt⟩)
    obtain ⟨⟨a, a1, a2⟩, ⟨b, b1, b2⟩, ⟨d, d1, d2⟩⟩ := simple8b_accept vs hall
    simp [a1, b1, d1, a2, b2, d2]

/-- **C07 (partial)**: on the proved part of the vocabulary the statement holds of the model's answer.
    Missing (compared by correspondence only, so far): value codecs, timestamps, blocks. -/
theorem C07_holdsOn_partial (c : Compressor) (op : Op) (h : Proved op = true) : holdsOn op (run c op) = true := by
  cases op with
  | zz x => exact holdsOn_zz c x (by simpa [Proved] using h)
  | s8b vs => exact holdsOn_s8b c vs
  | codec v => simp [Proved] at h
  | time ts => simp [Proved] at h
  | block ts v => simp [Proved] at h

example : Proved (.s8b [1, 2, 3, 1152921504606846975]) = true := rfl

end Influx.Props.C07
