/-
  Props.C17 — Bucket deletes remove exactly the matching data and reconcile metadata.
  Model: Influx.Model.StoreDel (shards: series ↦ TSM file entries with tombstones + cache
  entry; Store.DeleteSeriesWithPredicate with the handler's measurement short-cut; index
  reconciliation), Influx.Model.DelPred (compiled predicate, C16), Influx.Model.Epoch
  (epoch tracker, guards).  Statement: Influx.Spec.C17.
-/
import Influx.Lemmas.StoreDelC17
import Influx.Lemmas.EpochInv
import Influx.Lemmas.StoreDelHolds
import Influx.Lemmas.EpochHolds

namespace Influx.Props.C17
open Influx.Model.StoreDel Influx.Model.DelPred
open Influx.Spec.C16 (evalPred PredWF SeriesWF)

/-- **Clause 1 (one shard; `abs' = abs minus {(k,t) | selected k ∧ lo ≤ t ≤ hi}`).**  Whatever
    is in TSM files (under tombstones, dropped keys) or in the cache: after the delete every
    series reads as before minus the points in `[lo, hi]` if it was handed to the engine, and
    exactly as before otherwise. -/
theorem C17_points_exact (sh : Shard) (hwf : ShardWF sh) (lo hi : Int) (hlh : lo ≤ hi) (pred : Option Pred)
    (mname : Option Bytes) (name : Bytes) (tags : Tags) :
    readPts (sh.delete lo hi pred mname) name tags =
      if selOf sh pred mname name tags then cutPts lo hi (readPts sh name tags) else readPts sh name tags :=
  readPts_delete sh hwf lo hi hlh pred mname name tags

/-- **Clause 1 with the predicate (partial: inside the C16 domain `KeyOK`).**  For a series of the
    shard in the domain, "handed to the engine" means exactly "the predicate is true of it" —
    with or without the measurement short-cut the HTTP handler enables. -/
theorem C17_selects_exactly_partial (sh : Shard) (p : Pred) (handlerMode : Bool) (s : Series) (hs : s ∈ sh.series)
    (hp : PredWF p = true) (hsw : SeriesWF s.name s.tags = true) (hk : KeyOK s.name s.tags = true) :
    selOf sh (some p) (if handlerMode then measNameOf p else none) s.name s.tags = evalPred s.name s.tags p := by
  have hsel := predSelects_eq p s.name s.tags hp hsw hk
  cases handlerMode with
  | true => exact selOf_handler sh p s hs hsel
  | false =>
    have : (visited sh none).contains s.name = true := by simpa [visited] using mem_measurements hs
    simp only [Bool.false_eq_true, if_false, selOf, this, Bool.true_and]
    exact hsel

/-- the shard invariant (well-formed file entries, ascending cache entries, every series listed,
    one entry per series) is kept by writes, snapshots and deletes -/
theorem C17_invariant (sh : Shard) (hwf : ShardWF sh) :
    (∀ name tags pts, pts ≠ [] → ShardWF (sh.write name tags pts)) ∧ ShardWF sh.snapshot ∧
    (∀ lo hi pred mname, lo ≤ hi → ShardWF (sh.delete lo hi pred mname)) :=
  ⟨fun name tags pts hp => shardWF_write sh hwf name tags pts hp, shardWF_snapshot sh hwf,
   fun lo hi pred mname hlh => shardWF_delete sh hwf lo hi hlh pred mname⟩

/-- **Clause 2, data ⇒ listed** (always): a series that still reads a point is listed. -/
theorem C17_data_listed (sh : Shard) (name : Bytes) (tags : Tags) (h : readPts sh name tags ≠ []) :
    isListed sh name tags = true :=
  listed_of_readPts sh name tags h

/-- **Clause 2, listed ⇒ data (partial: values still in the cache).**  A listed series whose
    values never went to a TSM file has a point. -/
theorem C17_listed_data_partial (s : Series) (hwf : s.WF) (hc : CacheOnly s) :
    s.listed = true ↔ s.pts ≠ [] :=
  listed_iff_pts_cacheOnly s hwf hc

/-- after a delete the series that left the index are exactly those … that the engine emptied: a
    selected series stays iff a TSM file still has its key or its cache entry has a value -/
theorem C17_series_leaves (sel : Bool) (lo hi : Int) (hlh : lo ≤ hi) (s : Series) (hwf : s.WF)
    (hl : s.listed = true) :
    match delSeries sel lo hi s with
    | some s' => s'.name = s.name ∧ s'.tags = s.tags ∧ s'.WF ∧ s'.listed = true ∧
        s'.pts = (if sel then cutPts lo hi s.pts else s.pts)
    | none => sel = true ∧ cutPts lo hi s.pts = [] :=
  delSeries_exact sel lo hi hlh s hwf hl

/-- **The full clause 2 is false of the code**: three values -1, 1, 15 in one TSM file, range
    deletes [15,21] and then [-1,6]: no value is left, the tombstones do not line up
    (`indirectIndex.DeleteRange` only drops a key when they do), the key stays in the file and the
    series stays in the index. -/
theorem C17_full_fails :
    ∃ s : Series, s.WF ∧
      ((delSeries true 15 21 s).bind fun s1 =>
        (delSeries true (-1) 6 s1).map fun s2 => (s2.listed, s2.pts)) = some (true, []) := by
  refine ⟨⟨[109, 49], [], [⟨[(-1, 23), (1, 57), (15, 7)], [], false⟩], []⟩, ?_, by decide⟩
  refine ⟨?_, by simp [Asc]⟩
  intro f hf
  simp only [List.mem_singleton] at hf
  subst hf
  exact ⟨by simp [Asc], by simp⟩

/-! ### clause 3: the epoch tracker -/

open Influx.Model.Epoch in
/-- a delete's `pending` (its `Wait` returns iff it is 0) is, at every moment, the number of writes
    that entered before it and have not left — for every schedule of the tracker -/
theorem C17_epoch_pending (ops : List EOp) :
    ∀ t, Influx.Model.Epoch.Inv t → ∀ d ∈ (ops.foldl (fun t op => (step t op).1) t).deletes,
      d.pending = ((ops.foldl (fun t op => (step t op).1) t).inflight.filter fun w => w.gen < d.gen).length := by
  induction ops with
  | nil => intro t h d hd; exact h.pending d hd
  | cons op ops ih => intro t h; exact ih _ (inv_step t h op)

open Influx.Model.Epoch in
/-- **Writes that do not conflict with a running delete are never blocked by it**: an entering
    write waits for exactly the registered deletes whose guard matches one of its points. -/
theorem C17_epoch_nonblocking (t : Tracker) (id : Int) (times : List Int) (g : Nat) (wait : List Int)
    (h : (step t (.startWrite id times)).2 = .started g wait) (x : Int) :
    x ∈ wait ↔ ∃ d ∈ t.deletes, d.id = x ∧ guardMatches d times = true := by
  simp only [Influx.Model.Epoch.step] at h
  split at h
  · cases h
  · simp only [EAns.started.injEq] at h
    rw [← h.2, mem_sortAsc, List.mem_map]
    constructor
    · rintro ⟨d, hd, rfl⟩
      exact ⟨d, (List.mem_filter.1 hd).1, rfl, (List.mem_filter.1 hd).2⟩
    · rintro ⟨d, hd, rfl, hm⟩
      exact ⟨d, List.mem_filter.2 ⟨hd, hm⟩, rfl⟩

open Influx.Model.Epoch in
/-- a delete installed while `n` writes are in flight waits for exactly those -/
theorem C17_epoch_delete_waits (t : Tracker) (h : Influx.Model.Epoch.Inv t) (id lo hi : Int) (g : Nat) (p : Int)
    (hs : (step t (.waitDelete id lo hi)).2 = .installed g p) : p = t.inflight.length := by
  simp only [Influx.Model.Epoch.step] at hs
  split at hs
  · cases hs
  · simp only [EAns.installed.injEq] at hs
    rw [← hs.2, h.writes]

/-! ### the run-time oracle accepts the model's trace -/

/-- **C17_holdsOn (partial)** — clauses 1 and 2 as the statement checker `Spec.C17.holdsOn` reads
    them, on the model's own trace: for every case `open n; ops` without snapshots (all values
    still in the cache, where "listed ⇔ data" holds), whose written series and predicates lie in
    the C16 domain and whose ranges have `lo ≤ hi`, every `read`, `ls` and `MeasurementNames`
    answer of the model is what the history demands.  (With snapshots the points clause still
    holds — `C17_points_exact` — and the listing clause fails — `C17_full_fails`.) -/
theorem C17_holdsOn_partial (n : Nat) (ops : List Op) (hok : ops.all opOK = true) :
    Influx.Spec.C17.holdsOn (runT none (.open_ n :: ops)) = true := by
  obtain ⟨hrel, hids⟩ := rel_init n
  simp only [runT, ansOf, Influx.Model.StoreDel.stepOp, Influx.Spec.C17.holdsOn]
  exact judgeCase_runT n ops hok _ [] hrel hids

/-- **C17_epoch_holdsOn** (full) — clause 3 as the statement checker `Spec.C17.EpochOK` reads it,
    on the tracker model's own trace, for every schedule of StartWrite / EndWrite / WaitDelete /
    Done: a write waits for exactly the running deletes whose range contains one of its points,
    a delete for exactly the writes that entered before it and have not left. -/
theorem C17_epoch_holdsOn (ops : List Influx.Model.Epoch.EOp) :
    Influx.Spec.C17.EpochOK (Influx.Model.Epoch.run {} ops) = true :=
  Influx.Model.Epoch.judgeAll_run ops {} {} Influx.Model.Epoch.inv_init ⟨rfl, rfl, rfl⟩

-- non-vacuity
example : [Op.write 1 [109] [([116], [97])] [(1, 1)], .del 0 5 (some (.rule [116] false [97])) true,
    .read 1, .ls 1, .mn .nil_ none].all opOK = true := by decide
example : ShardWF ⟨1, [], []⟩ := ⟨by simp, by simp⟩
example : Influx.Model.Epoch.Inv {} := Influx.Model.Epoch.inv_init

end Influx.Props.C17
