/-
  Props.C17 — Bucket deletes remove exactly the matching data and reconcile metadata.
  Model: Influx.Model.StoreDel (store content), Influx.Model.Epoch (epoch tracker / guards),
  Influx.Model.DelPred (the compiled predicate, C16).  Statement: Influx.Spec.C17.
-/
import Influx.Lemmas.StoreDelC17

namespace Influx.Props.C17
open Influx.Model.StoreDel Influx.Model.DelPred

/-- **Listed ⇔ has data** (clause 2, model level): every series the model lists has at least
    one point, after any sequence of writes and deletes. -/
theorem C17_listed_has_data (st : State) (h : NonEmptyPts st) :
    (∀ sh name tags pts, pts ≠ [] → NonEmptyPts (write st sh name tags pts)) ∧
    (∀ lo hi pred hm, NonEmptyPts (delete st lo hi pred hm)) :=
  ⟨fun sh name tags pts hp => nonEmpty_write st h sh name tags pts hp,
   fun lo hi pred hm => nonEmpty_delete st h lo hi pred hm⟩

end Influx.Props.C17
