/-
  Props.C08 — TSM files and tombstones read back what was written.

  The functions under proof are the model's (`Model/Tsm*.lean`, written from
  `tsdb/engine/tsm1/{writer,reader,tombstone}.go`; layout constants and the leaf
  predicates `IndexEntry.Contains/OverlapsTimeRange`, `TimeRange.Overlaps` are
  regenerated from the Go source on every run, `Generated/TsmLayout.lean`).
  Every theorem holds for an arbitrary checksum function `crc` and an arbitrary
  gzip satisfying `Gzip.spec`.  Helper lemmas live in `Lemmas/Tsm*.lean`.
-/
import Influx.Model.TsmOps
import Influx.Spec.C08
import Influx.Lemmas.TsmRoundtrip
import Influx.Lemmas.TsmLookup
import Influx.Lemmas.TsmTombBytes
import Influx.Lemmas.TsmCrash

namespace Influx.Props.C08
open Influx.Tsm Influx.Spec.C08

/-! ## 1. the file: byte-level round trip -/

/-- **Round trip.** For every list of keys with blocks within the limits of the format
    (`WFFile`: ≥ 1 key, key length and blocks per key < 2^16, times in int64, block size
    in 32 bits, file size in int64) the bytes `header ++ blocks ++ index ++ footer` parse
    back — through the footer, the magic/version check and the index decoder — to exactly
    the keys, block types and index entries (min, max, offset, size) that were laid out. -/
theorem C08_roundtrip (crc : Bytes → Nat) (kbs : List (Key × List Blk)) (h : WFFile kbs) :
    parseFile (serialise crc kbs) = .ok (layout 5 kbs) :=
  parseFile_serialise crc kbs h

/-- big-endian integers read back (the base of every field of the format) -/
theorem be_roundtrip (n v : Nat) : unbe (be n v) = v % 256 ^ n := unbe_be n v

/-- one index section (any keys/entries within the field widths) decodes to itself -/
theorem C08_index_roundtrip (kes : List KeyEntry) (h : ∀ ke ∈ kes, WFKeyEntry ke) :
    decIndex ((kes.flatMap encKeyEntry).length + 1) (kes.flatMap encKeyEntry) = some kes :=
  decIndex_enc kes h _ (by have := flatMap_length_ge kes; omega)

/-! ## 2. lookups agree with the content -/

/-- **Seek** = the number of keys below the target (the key count when all are below). -/
theorem C08_seek (ix : Index) (h : IndexInv ix) (key : Key) :
    searchOffset ix key = (ix.live.filter fun ke => klt ke.key key).length :=
  searchOffset_eq_rank ix h.sortedLive key

/-- **Exact lookup** (`search`, behind Entries / Entry / Type / Contains / ContainsValue):
    the live index entry with that key. -/
theorem C08_search (ix : Index) (h : IndexInv ix) (key : Key) :
    search ix key = ix.live.find? (fun ke => ke.key = key) := search_eq_find h key

theorem C08_entries (ix : Index) (h : IndexInv ix) (key : Key) :
    Tsm.entriesOf ix key = ((ix.live.find? fun ke => ke.key = key).map (·.entries)).getD [] := by
  unfold Tsm.entriesOf; rw [search_eq_find h]; cases ix.live.find? _ <;> rfl

theorem C08_type (ix : Index) (h : IndexInv ix) (key : Key) :
    typeOf ix key = (ix.live.find? fun ke => ke.key = key).map (·.typ) := by
  unfold typeOf; rw [search_eq_find h]

/-- the index built by the reader from a strictly sorted key list satisfies the invariant -/
theorem C08_open_inv (kes : List KeyEntry) (hs : SortedKE kes) : IndexInv (mkIndex kes) := mkIndex_inv kes hs

/-! ## 3. the tombstone file -/

/-- **Walk reads back what was committed**, member after member, byte level. -/
theorem C08_walk_roundtrip (G : Gzip) (ms : List (List Tombstone)) (h : ∀ m ∈ ms, ∀ t ∈ m, WFTomb t) :
    walkBytes G (tfileBytes G ms) = some ms.flatten := walkBytes_tfile G ms h

/-- **walk (commit (add old new)) = old ++ new.** -/
theorem C08_walk_commit (G : Gzip) (ms : List (List Tombstone)) (new : List Tombstone)
    (h : ∀ m ∈ ms, ∀ t ∈ m, WFTomb t) (hn : ∀ t ∈ new, WFTomb t) :
    walkBytes G (tfileBytes G ms ++ G.zip (encTombs new)) = some (ms.flatten ++ new) :=
  walk_commit G ms new h hn

/-- **Crash atomicity** of `prepareV4 … commit` in the file-system model (durable bytes +
    unsynced appended chunks per inode, pending directory operations, atomic rename): cut
    the protocol after ANY number of steps and let ANY byte-prefix of the unsynced data
    and ANY prefix of the pending directory operations survive — under the tombstone name
    the restart finds the old bytes (no file if there was none) or the complete new file. -/
theorem C08_crash_atomic (tomb tmp : String) (hne : tomb ≠ tmp) (dir0 : Dir) (inodes0 : Nat → Inode) (i : Nat)
    (hold : OldOK tomb dir0 inodes0 i) (fs : FS) (hq : Quiescent tmp dir0 inodes0 i fs)
    (base : Bytes) (chunks : List Bytes) (k : Nat) (fs' : FS)
    (hc : CrashOf (run fs ((commitSteps tomb tmp base chunks).take k)) fs') :
    readDurable fs' tomb = oldBytes tomb dir0 inodes0 ∨ readDurable fs' tomb = some (base ++ chunks.flatten) :=
  commit_crash_atomic tomb tmp hne dir0 inodes0 i hold fs hq base chunks k fs' hc

/-- … and what the restart reads there is the old tombstone list or old ++ new, never a mixture. -/
theorem C08_crash_walk (G : Gzip) (tomb tmp : String) (hne : tomb ≠ tmp) (dir0 : Dir) (inodes0 : Nat → Inode)
    (i j : Nat) (hj : dir0 tomb = some j) (ms : List (List Tombstone)) (new : List Tombstone)
    (hold : OldOK tomb dir0 inodes0 i) (holdb : (inodes0 j).durable = tfileBytes G ms)
    (fs : FS) (hq : Quiescent tmp dir0 inodes0 i fs) (chunks : List Bytes)
    (hch : chunks.flatten = G.zip (encTombs new))
    (h : ∀ m ∈ ms, ∀ t ∈ m, WFTomb t) (hn : ∀ t ∈ new, WFTomb t) (k : Nat) (fs' : FS)
    (hc : CrashOf (run fs ((commitSteps tomb tmp (tfileBytes G ms) chunks).take k)) fs') :
    (readDurable fs' tomb).bind (walkBytes G) = some ms.flatten ∨
    (readDurable fs' tomb).bind (walkBytes G) = some (ms.flatten ++ new) := by
  rcases commit_crash_atomic tomb tmp hne dir0 inodes0 i hold fs hq _ chunks k fs' hc with h1 | h1
  · left
    rw [h1]
    simp only [oldBytes, hj, Option.map_some, Option.bind_some, holdb]
    exact walkBytes_tfile G ms h
  · right
    rw [h1, hch]
    exact walk_commit G ms new h hn

/-! ## 4. the statement checker on the model, and where the full statement fails -/

/-- The full statement (every trace of the model satisfies the statement checker) is FALSE
    of the code: blocks written under the empty key are not a key of the file
    (`directIndex.Add` takes `len(d.key) == 0` for "no current key"); here the file holds
    only the empty key, its index is empty and the reader rejects it. -/
theorem C08_full_fails :
    ¬ ∀ (crc : Bytes → Nat) (ops : List Op), holdsOn (traceOf crc ops) = true := by
  intro h
  have := h (fun _ => 0) [.wb [] 1 2 [1] none, .wi, .open_]
  revert this
  decide

end Influx.Props.C08
