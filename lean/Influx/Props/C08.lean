/-
  Props.C08 — TSM files and tombstones read back what was written.

  The functions under proof are the model's (`Model/Tsm*.lean`, written from
  `tsdb/engine/tsm1/{writer,reader,tombstone}.go`; layout constants and the leaf
  predicates `IndexEntry.Contains/OverlapsTimeRange`, `TimeRange.Overlaps` are
  regenerated from the Go source on every run, `Generated/TsmLayout.lean`).
  Every theorem holds for an arbitrary checksum function `crc` and an arbitrary
  gzip satisfying `Gzip.spec`.  Helper lemmas live in `Lemmas/Tsm*.lean`.
-/
import Influx.Model.TsmOps
import Influx.Spec.C08
import Influx.Lemmas.TsmRoundtrip
import Influx.Lemmas.TsmLookup
import Influx.Lemmas.TsmTombBytes
import Influx.Lemmas.TsmCrash
import Influx.Lemmas.TsmVisible
import Influx.Lemmas.TsmWriter
import Influx.Lemmas.TsmSpecTs
import Influx.Lemmas.TsmReader
import Influx.Lemmas.TsmSpecFileTrace
import Influx.Lemmas.TsmSpecCover
import Influx.Lemmas.TsmBlocks

namespace Influx.Props.C08
open Influx.Tsm Influx.Spec.C08

/-! ## 1. the file: byte-level round trip -/

/-- **Round trip.** For every list of keys with blocks within the limits of the format
    (`WFFile`: ≥ 1 key, key length and blocks per key < 2^16, times in int64, block size
    in 32 bits, file size in int64) the bytes `header ++ blocks ++ index ++ footer` parse
    back — through the footer, the magic/version check and the index decoder — to exactly
    the keys, block types and index entries (min, max, offset, size) that were laid out. -/
theorem C08_roundtrip (crc : Bytes → Nat) (kbs : List (Key × List Blk)) (h : WFFile kbs) :
    parseFile (serialise crc kbs) = .ok (layout 5 kbs) :=
  parseFile_serialise crc kbs h

/-- **the blocks read back**: the index entries of the file, in order, locate exactly the
    checksum and the bytes of every block written, in order (`ReadBytes`, `BlockIterator`);
    for any checksum function with 32-bit values. -/
theorem C08_blocks_read_back (crc : Bytes → Nat) (hcrc : ∀ d, crc d < 4294967296) (kbs : List (Key × List Blk)) :
    ((layout 5 kbs).flatMap (·.entries)).map (readBytes (serialise crc kbs)) =
      (allBlocks kbs).map fun b => some (crc b.data, b.data) := readBytes_serialise crc hcrc kbs

/-- big-endian integers read back (the base of every field of the format) -/
theorem be_roundtrip (n v : Nat) : unbe (be n v) = v % 256 ^ n := unbe_be n v

/-- one index section (any keys/entries within the field widths) decodes to itself -/
theorem C08_index_roundtrip (kes : List KeyEntry) (h : ∀ ke ∈ kes, WFKeyEntry ke) :
    decIndex ((kes.flatMap encKeyEntry).length + 1) (kes.flatMap encKeyEntry) = some kes :=
  decIndex_enc kes h _ (by have := flatMap_length_ge kes; omega)

/-- **The writer produces that file.**  The stateful writer (`tsmWriter.WriteBlock`,
    `directIndex.Add/flush`, `WriteIndex`, as the Go code has them) run on the blocks of
    non-empty keys in strictly increasing order, 1..65534 acceptable blocks per key in
    min-time order, answers ok to every call and writes exactly the serialised bytes. -/
theorem C08_writer (crc : Bytes → Nat) (kbs : List (Key × List Blk)) (hw : WFW kbs) (hne : kbs ≠ []) :
    (∀ a ∈ (writeAll crc kbs).2, a = WAns.ok) ∧
    writeIndex (writeAll crc kbs).1 = (.ok, serialise crc kbs) := writeAll_serialise crc kbs hw hne

/-- **readFile (writeFile kbs) = kbs**: what the writer wrote parses back to the keys, types
    and index entries of `kbs`. -/
theorem C08_write_read (crc : Bytes → Nat) (kbs : List (Key × List Blk)) (hw : WFW kbs) (hf : WFFile kbs) :
    parseFile (writeIndex (writeAll crc kbs).1).2 = .ok (layout 5 kbs) := by
  rw [(writeAll_serialise crc kbs hw hf.ne).2]
  exact parseFile_serialise crc kbs hf

/-! ## 2. lookups agree with the content -/

/-- **Seek** = the number of keys below the target (the key count when all are below). -/
theorem C08_seek (ix : Index) (h : IndexInv ix) (key : Key) :
    searchOffset ix key = (ix.live.filter fun ke => klt ke.key key).length :=
  searchOffset_eq_rank ix h.sortedLive key

/-- **Exact lookup** (`search`, behind Entries / Entry / Type / Contains / ContainsValue):
    the live index entry with that key. -/
theorem C08_search (ix : Index) (h : IndexInv ix) (key : Key) :
    search ix key = ix.live.find? (fun ke => ke.key = key) := search_eq_find h key

theorem C08_entries (ix : Index) (h : IndexInv ix) (key : Key) :
    Tsm.entriesOf ix key = ((ix.live.find? fun ke => ke.key = key).map (·.entries)).getD [] := by
  unfold Tsm.entriesOf; rw [search_eq_find h]; cases ix.live.find? _ <;> rfl

theorem C08_type (ix : Index) (h : IndexInv ix) (key : Key) :
    typeOf ix key = (ix.live.find? fun ke => ke.key = key).map (·.typ) := by
  unfold typeOf; rw [search_eq_find h]

/-- the index built by the reader from a strictly sorted key list satisfies the invariant -/
theorem C08_open_inv (kes : List KeyEntry) (hs : SortedKE kes) : IndexInv (mkIndex kes) := mkIndex_inv kes hs

/-! ## 3. tombstones hide exactly the requested ranges

  `H` is the list of (key, lo, hi) requests applied to the index (`Delete(keys)` applies
  (k, MinInt64, MaxInt64) for every k). `TInv ix H` holds for a freshly opened index with
  `H = []` and is kept by every `Delete` / `DeleteRange`, whatever the keys and ranges. -/

theorem C08_open_tinv (kes : List KeyEntry) (hs : SortedKE kes) (hwf : ∀ ke ∈ kes, WFKE ke) :
    TInv (mkIndex kes) [] := TInv_mkIndex kes hs hwf

theorem C08_deleteRange_inv (ix : Index) (H : Hist) (h : TInv ix H) (keys : List Key) (lo hi : Int) :
    TInv (deleteRange ix keys lo hi) (H ++ reqs keys lo hi) := TInv_deleteRange ix H h keys lo hi

theorem C08_delete_inv (ix : Index) (H : Hist) (h : TInv ix H) (keys : List Key) :
    TInv (delete ix keys) (H ++ reqs keys minInt64 maxInt64) := TInv_delete ix H h keys

/-- **hidden iff covered**: `ContainsValue k t` holds exactly when some block of `k` in the
    file contains `t` and no applied request for `k` covers `t`. -/
theorem C08_hidden_iff_covered (ix : Index) (H : Hist) (h : TInv ix H) (k : Key) (t : Int) :
    containsValue ix k t = true ↔ hasPoint ix.all k t ∧ ¬ coveredH H k t := containsValue_iff ix H h k t

/-- **never over-deletes**: a key of the file that is no longer in the index (also when it
    was removed because adjacent / overlapping tombstones line up over its span) has every
    time of its span covered by applied requests for that key. -/
theorem C08_never_over_deletes (ix : Index) (H : Hist) (h : TInv ix H) (ke : KeyEntry) (hke : ke ∈ ix.all)
    (hgone : contains ix ke.key = false) (hne : ke.entries ≠ []) :
    ∀ t, spanIn ke t → coveredH H ke.key t := absent_covered ix H h ke hke hgone hne

/-- `Delete(keys)` removes exactly those keys from the index -/
theorem C08_delete_exact (ix : Index) (h : IndexInv ix) (keys : List Key) :
    (delete ix keys).live = ix.live.filter fun ke => !decide (ke.key ∈ keys) := delete_live ix h keys

/-! ### … at the reader level, across re-opening

  `Req` = every acknowledged request (k, lo, hi) of `TSMReader.DeleteRange` (sorted keys) and
  `TSMReader.Delete`; `file` = the tombstone file (its members).  `RInv file r Req` packs: the
  index invariant above for a set of applied requests that lies between "the requests that
  matter" (key in the file, range meeting the key's span) and `Req`; every tombstone of the
  file was requested; every request that matters is in the file.  The filters of the delete
  path (`OverlapsKeyRange`, `OverlapsTimeRange`, `ContainsKey`) and the batching of
  `applyTombstones` (equal (min,max), 4096 keys) are inside the proved functions. -/

theorem C08_reader_open (file : TFile) (kes : List KeyEntry) (hs : SortedKE kes) (hwf : ∀ ke ∈ kes, WFKE ke) :
    RInv file (openReader file kes) (fileReqs file) ∧ (openReader file kes).ix.all = kes :=
  open_inv file kes hs hwf

theorem C08_reader_deleteRange (file : TFile) (r : Reader) (Req : Hist) (h : RInv file r Req) (keys : List Key)
    (hsk : SortedK keys) (lo hi : Int) :
    RInv (rDeleteRange file r keys lo hi).1 (rDeleteRange file r keys lo hi).2 (Req ++ reqs keys lo hi) ∧
    (rDeleteRange file r keys lo hi).2.ix.all = r.ix.all := rDeleteRange_inv file r Req h keys hsk lo hi

theorem C08_reader_delete (file : TFile) (r : Reader) (Req : Hist) (h : RInv file r Req) (keys : List Key) :
    RInv (rDelete file r keys).1 (rDelete file r keys).2 (Req ++ reqs keys minInt64 maxInt64) ∧
    (rDelete file r keys).2.ix.all = r.ix.all := rDelete_inv file r Req h keys

/-- **Tombstones persist across reopen**: a reader freshly opened on the same file content and
    the tombstone file as it is on disk hides exactly the same requests. -/
theorem C08_persist_reopen (file : TFile) (r : Reader) (Req : Hist) (h : RInv file r Req)
    (hs : SortedKE r.ix.all) (hwf : ∀ ke ∈ r.ix.all, WFKE ke) :
    RInv file (openReader file r.ix.all) Req ∧ (openReader file r.ix.all).ix.all = r.ix.all :=
  reopen_inv file r Req h hs hwf

/-- **hide exactly what was requested** (reader level): after any sequence of the operations
    above, a point is visible iff a block of the file holds it and no acknowledged request
    covers it. -/
theorem C08_reader_hidden_iff (file : TFile) (r : Reader) (Req : Hist) (h : RInv file r Req) (k : Key) (t : Int) :
    containsValue r.ix k t = true ↔ hasPoint r.ix.all k t ∧ ¬ coveredH Req k t :=
  reader_visible_iff file r Req h k t

/-! ## 4. the tombstone file -/

/-- **Walk reads back what was committed**, member after member, byte level. -/
theorem C08_walk_roundtrip (G : Gzip) (ms : List (List Tombstone)) (h : ∀ m ∈ ms, ∀ t ∈ m, WFTomb t) :
    walkBytes G (tfileBytes G ms) = some ms.flatten := walkBytes_tfile G ms h

/-- **walk (commit (add old new)) = old ++ new.** -/
theorem C08_walk_commit (G : Gzip) (ms : List (List Tombstone)) (new : List Tombstone)
    (h : ∀ m ∈ ms, ∀ t ∈ m, WFTomb t) (hn : ∀ t ∈ new, WFTomb t) :
    walkBytes G (tfileBytes G ms ++ G.zip (encTombs new)) = some (ms.flatten ++ new) :=
  walk_commit G ms new h hn

/-- **Crash atomicity** of `prepareV4 … commit` in the file-system model (durable bytes +
    unsynced appended chunks per inode, pending directory operations, atomic rename): cut
    the protocol after ANY number of steps and let ANY byte-prefix of the unsynced data
    and ANY prefix of the pending directory operations survive — under the tombstone name
    the restart finds the old bytes (no file if there was none) or the complete new file. -/
theorem C08_crash_atomic (tomb tmp : String) (hne : tomb ≠ tmp) (dir0 : Dir) (inodes0 : Nat → Inode) (i : Nat)
    (hold : OldOK tomb dir0 inodes0 i) (fs : FS) (hq : Quiescent tmp dir0 inodes0 i fs)
    (base : Bytes) (chunks : List Bytes) (k : Nat) (fs' : FS)
    (hc : CrashOf (run fs ((commitSteps tomb tmp base chunks).take k)) fs') :
    readDurable fs' tomb = oldBytes tomb dir0 inodes0 ∨ readDurable fs' tomb = some (base ++ chunks.flatten) :=
  commit_crash_atomic tomb tmp hne dir0 inodes0 i hold fs hq base chunks k fs' hc

/-- … and what the restart reads there is the old tombstone list or old ++ new, never a mixture. -/
theorem C08_crash_walk (G : Gzip) (tomb tmp : String) (hne : tomb ≠ tmp) (dir0 : Dir) (inodes0 : Nat → Inode)
    (i j : Nat) (hj : dir0 tomb = some j) (ms : List (List Tombstone)) (new : List Tombstone)
    (hold : OldOK tomb dir0 inodes0 i) (holdb : (inodes0 j).durable = tfileBytes G ms)
    (fs : FS) (hq : Quiescent tmp dir0 inodes0 i fs) (chunks : List Bytes)
    (hch : chunks.flatten = G.zip (encTombs new))
    (h : ∀ m ∈ ms, ∀ t ∈ m, WFTomb t) (hn : ∀ t ∈ new, WFTomb t) (k : Nat) (fs' : FS)
    (hc : CrashOf (run fs ((commitSteps tomb tmp (tfileBytes G ms) chunks).take k)) fs') :
    (readDurable fs' tomb).bind (walkBytes G) = some ms.flatten ∨
    (readDurable fs' tomb).bind (walkBytes G) = some (ms.flatten ++ new) := by
  rcases commit_crash_atomic tomb tmp hne dir0 inodes0 i hold fs hq _ chunks k fs' hc with h1 | h1
  · left
    rw [h1]
    simp only [oldBytes, hj, Option.map_some, Option.bind_some, holdb]
    exact walkBytes_tfile G ms h
  · right
    rw [h1, hch]
    exact walk_commit G ms new h hn

/-! ## 5. the statement checker on the model, and where the full statement fails -/

/-- **The statement checker accepts the model** on every sequence of stand-alone
    Tombstoner operations (new object, Add, AddRange, Flush, Rollback, Delete, Walk,
    HasTombstones): a fresh Walk yields exactly the committed tombstones in order, a
    Walk of the live object yields a suffix of them.  PARTIAL: the hypothesis restricts
    the operations to the tombstoner's; for writer/reader operations the checker is
    evaluated on the real implementation's answers at run time and the model is proved
    against list-level specifications in §1–§4 instead. -/
theorem C08_holdsOn_partial (crc : Bytes → Nat) (ops : List Op) (h : ∀ op ∈ ops, isTsOp op = true) :
    holdsOn (traceOf crc ops) = true := by
  unfold holdsOn
  rw [run_eq_runFrom]
  have := ts_trace ops h (State.init crc) {} 0
    ⟨rfl, rfl, fun _ => rfl, fun o ho => by simp [State.init] at ho, fun _ o p ho => by simp [State.init] at ho⟩
  unfold traceOf
  rw [this]; rfl

/-- **The statement checker accepts the model** on every trace of the form
    "write the blocks of `kbs`; WriteIndex; open; any index lookups" for `kbs` in the domain
    of the statement (`DOM`: what the writer accepts, within the format limits, block
    min ≤ max, max times non-decreasing per key) and lookups among key count, key-at, key,
    seek, contains, entries, type, key range, time range, overlaps-time, contains-value.
    PARTIAL: no deletes and no block-read operations in the trace (those are covered by §1–§4 at the
    level of the model's functions and by the run-time evaluation on the implementation). -/
theorem C08_holdsOn_file_partial (crc : Bytes → Nat) (kbs : List (Key × List Blk)) (h : DOM kbs)
    (qs : List Op) (hq : ∀ q ∈ qs, isLookup q = true) :
    holdsOn (traceOf crc (fileOps kbs qs)) = true := file_trace crc kbs h qs hq

/-- a small file in the domain: two keys (one a prefix of the other), three blocks, negative times -/
def exKbs : List (Key × List Blk) :=
  [([97], [⟨1, 2, [1, 170]⟩, ⟨3, 9, [2]⟩]), ([97, 0], [⟨-5, 0, [0, 1, 2]⟩])]

theorem exDOM : DOM exKbs := by
  refine ⟨⟨?_, ?_, ?_, ?_⟩, ⟨?_, ?_, ?_⟩, ?_, ?_⟩
  · simp [exKbs, kcmp]
  · intro kb hkb; simp [exKbs] at hkb; rcases hkb with rfl | rfl <;> simp
  · intro kb hkb; simp [exKbs] at hkb
    rcases hkb with rfl | rfl
    · refine ⟨by simp, by simp, ?_⟩
      intro b hb; simp at hb
      rcases hb with rfl | rfl <;> exact ⟨by simp, by intro b0 h; simp at h; omega, by simp⟩
    · refine ⟨by simp, by simp, ?_⟩
      intro b hb; simp at hb; subst hb
      exact ⟨by simp, by intro b0 h; simp at h; omega, by simp⟩
  · intro kb hkb; simp [exKbs] at hkb; rcases hkb with rfl | rfl <;> simp
  · simp [exKbs]
  · intro kb hkb; simp [exKbs] at hkb
    rcases hkb with rfl | rfl
    · refine ⟨by simp, by simp, by simp, ?_⟩
      intro b hb; simp at hb
      rcases hb with rfl | rfl <;> (unfold WFBlk inInt64 minInt64 maxInt64; simp)
    · refine ⟨by simp, by simp, by simp, ?_⟩
      intro b hb; simp at hb; subst hb
      unfold WFBlk inInt64 minInt64 maxInt64; simp
  · simp [exKbs, totalBlocks, blocksLen]
  · intro kb hkb b hb; simp [exKbs] at hkb
    rcases hkb with rfl | rfl <;> simp at hb
    · rcases hb with rfl | rfl <;> simp
    · subst hb; simp
  · intro kb hkb; simp [exKbs] at hkb; rcases hkb with rfl | rfl <;> simp

example : holdsOn (traceOf (fun _ => 7) (fileOps exKbs [.keycount, .seek [97, 0], .seek [98], .entries [97], .containsvalue [97] 4, .keyat 1, .keyrange])) = true :=
  C08_holdsOn_file_partial _ exKbs exDOM _ (by decide)

-- the hypothesis is met by non-trivial sequences (and the checker really looks at them)
example : holdsOn (traceOf (fun _ => 0)
    [.tsNew, .tsAddRange [[97], [98]] 1 5, .tsFlush, .tsAdd [[99]], .tsFlush, .tsWalk, .tsWalk, .tsWalkFresh]) = true := by
  decide
example : holdsOn [(.tsNew, .ok), (.tsAddRange [[97]] 1 5, .ok), (.tsFlush, .ok), (.tsWalkFresh, .tombs [])] = false := by
  decide


/-- the checker's finite "may this key be missing" test means what it should: every time of
    the key's span is covered by a request -/
theorem C08_spec_fullyCovered (rs : List Req) (lo hi : Int) (hle : lo ≤ hi) :
    fullyCovered rs lo hi = true ↔ ∀ t, lo ≤ t → t ≤ hi → covers rs t = true := fullyCovered_iff rs lo hi hle

/-- The full statement (every trace of the model satisfies the statement checker) is FALSE
    of the code: blocks written under the empty key are not a key of the file
    (`directIndex.Add` takes `len(d.key) == 0` for "no current key"); here the file holds
    only the empty key, its index is empty and the reader rejects it. -/
theorem C08_full_fails :
    ¬ ∀ (crc : Bytes → Nat) (ops : List Op), holdsOn (traceOf crc ops) = true := by
  intro h
  have := h (fun _ => 0) [.wb [] 1 2 [1] none, .wi, .open_]
  revert this
  decide

end Influx.Props.C08
