import Influx.Model.TsmOps
import Influx.Spec.C08

namespace Influx.Props.C08
open Influx.Tsm

theorem unbe_foldl (bs : Bytes) (a : Nat) :
    bs.foldl (fun a b => a * 256 + b) a = a * 256 ^ bs.length + unbe bs := by
  induction bs generalizing a with
  | nil => simp [unbe]
  | cons b bs ih =>
    simp only [List.foldl_cons, List.length_cons, unbe]
    rw [ih, ih (0 * 256 + b)]
    simp [Nat.pow_succ, Nat.add_mul, Nat.mul_assoc, Nat.mul_comm 256, Nat.add_assoc]

theorem be_length (n v : Nat) : (be n v).length = n := by
  induction n with
  | zero => rfl
  | succ n ih => simp [be, ih]

theorem be_roundtrip (n v : Nat) : unbe (be n v) = v % 256 ^ n := by
  induction n with
  | zero => simp [be, unbe, Nat.mod_one]
  | succ n ih =>
    simp only [be, unbe, List.foldl_cons]
    rw [unbe_foldl, ih, be_length]
    simp only [Nat.zero_mul, Nat.zero_add]
    rw [Nat.pow_succ, Nat.mod_mul, Nat.add_comm, Nat.mul_comm]

end Influx.Props.C08
