/-
  Props.C44 — Only current credentials authenticate.

  The model (`Model.Creds`) follows tenant/service_user.go (passwords), authorization/service.go
  (tokens), session/service.go (sessions), http/tokens.go and http/authentication_middleware.go.
  bcrypt enters as its documented verification behaviour (a candidate verifies against a stored
  password of at most 72 bytes iff its first 72 bytes are that password); the SHA-2 token hashes as
  "equal hashes ⇔ equal tokens".  All theorems are for arbitrary states / operation sequences.
-/
import Influx.Lemmas.CredsLemmas

namespace Influx.Props.C44
open Influx.Creds Influx.Tenant.KV Influx.Spec.C44

/-- **C44 as the statement checker states it**: on the model's trace of ANY operation sequence every
    successful password check used the password last set, every successful compare-and-set presented
    it as the old password, and every authenticated request was backed by an existing active token or
    an existing unexpired session of an existing active user. -/
theorem C44_holdsOn (ops : List Op) : holdsOn (run init ops) = true :=
  track_run ops sim_init

/-- Password check, exact: ComparePassword succeeds iff the user exists, a password is stored, the
    candidate is (up to bcrypt's 72-byte horizon) that password, and the candidate is not weak — and
    then the candidate IS the stored password. -/
theorem C44_compare_ok (s : State) (uid : Nat) (p : String) (hs : s.strong = false) :
    comparePassword s uid p = .pw { ok := true } ↔
      (uid ≠ 0 ∧ has s.active uid = true ∧ get s.pw uid = some p ∧ minPasswordLen ≤ p.length ∧ p.length ≤ maxPasswordLen) := by
  unfold comparePassword compareNoStrength strength verify
  simp only [hs, Bool.false_eq_true, ↓reduceIte]
  constructor
  · intro h
    by_cases h0 : uid = 0
    · simp [h0] at h
    · by_cases ha : has s.active uid = true
      · simp only [h0, ha, decide_false, Bool.not_true, Bool.or_self, Bool.false_eq_true, ↓reduceIte] at h
        cases hg : get s.pw uid with
        | none => simp [hg] at h
        | some hh =>
          simp only [hg] at h
          by_cases hl : (decide (p.length < minPasswordLen) || decide (p.length > maxPasswordLen)) = true
          · split at h <;> simp_all
          · simp only [Bool.or_eq_true, decide_eq_true_eq, not_or, Nat.not_lt] at hl
            split at h
            · rename_i hv
              have : String.ofList (p.toList.take maxPasswordLen) = p := take_all p (by omega)
              rw [this] at hv
              exact ⟨h0, ha, by simp at hv; rw [hv], hl.1, hl.2⟩
            · simp at h
      · simp [h0, ha] at h
  · rintro ⟨h0, ha, hg, h1, h2⟩
    have : String.ofList (p.toList.take maxPasswordLen) = p := take_all p (by omega)
    have hl : (decide (p.length < minPasswordLen) || decide (p.length > maxPasswordLen)) = false := by
      simp; omega
    simp [h0, ha, hg, this, hl]

/-- "Succeeds only for the password most recently set": after a successful SetPassword of `p`,
    ComparePassword succeeds for `q` iff `q = p`. -/
theorem C44_compare_after_set (s s' : State) (uid : Nat) (p q : String) (hs : s.strong = false)
    (h : setPassword s uid p = (s', .pw { ok := true })) :
    comparePassword s' uid q = .pw { ok := true } ↔ q = p := by
  unfold setPassword strength at h
  simp only [hs, Bool.false_eq_true, ↓reduceIte, Bool.or_false] at h
  split at h
  · simp at h
  · rename_i hlen
    split at h
    · simp at h
    · rename_i husr
      simp only [Prod.mk.injEq, and_true] at h
      subst h
      simp only [Bool.or_eq_true, decide_eq_true_eq, not_or, Nat.not_lt, Bool.not_eq_true',
        Bool.not_eq_false] at hlen husr
      rw [C44_compare_ok _ uid q rfl]
      simp only [get_put_self, Option.some.injEq]
      constructor
      · rintro ⟨_, _, e, _⟩; exact e.symm
      · rintro rfl; exact ⟨husr.1, husr.2, rfl, hlen.1, hlen.2⟩

/-- Compare-and-set changes the password only when the old one verifies: if CompareAndSetPassword
    changes the stored password at all, the old password's first 72 bytes were the stored password
    (for an old password of at most 72 bytes: it WAS the stored password). -/
theorem C44_cas_only_if_old_matches (s : State) (uid : Nat) (old new : String)
    (h : (compareAndSet s uid old new).1.pw ≠ s.pw) : get s.pw uid = some (first72 old) := by
  unfold compareAndSet at h
  simp only at h
  split at h
  · rename_i hok; exact compareNoStrength_ok hok
  · exact absurd rfl h

theorem C44_cas_exact_old (s : State) (uid : Nat) (old new : String) (hl : old.length ≤ maxPasswordLen)
    (h : (compareAndSet s uid old new).1.pw ≠ s.pw) : get s.pw uid = some old := by
  have := C44_cas_only_if_old_matches s uid old new h
  rwa [show first72 old = old from take_all old (by omega)] at this

/-- bcrypt's horizon is real: CompareAndSetPassword accepts an old password that is NOT the stored one
    when both agree on the first 72 bytes (the stored one being exactly 72 bytes long). -/
theorem C44_cas_beyond_72 :
    let p72 := String.ofList (List.replicate 9 "Abcdefg1".toList).flatten
    let s : State := { active := [(2001, true)], names := [(2001, "u")], pw := [(2001, p72)] }
    (compareAndSet s 2001 (p72 ++ "x") "Password2").2 = .pw { ok := true } := by
  decide

/-- The authentication decision, exact: a request is authenticated (handler reached and permission set
    available) on behalf of `uid` iff it presents an existing ACTIVE token of `uid`, or — without a
    token header — the key of an existing UNEXPIRED session of `uid`; and `uid` is an active user. -/
theorem C44_authenticated_iff (s : State) (hdr ck : Option String) (uid : Nat) (hu : uid ≠ 0) :
    (∃ st, serve s hdr ck = .http st true (some true) uid) ↔
      ((∃ t e, getToken hdr = some t ∧ findTok s t = some e ∧ e.2.2.1 = true ∧ e.2.2.2 = uid) ∨
       (getToken hdr = none ∧ ∃ k, ck = some k ∧ get s.sess k = some (uid, false))) ∧
      get s.active uid = some true := by
  unfold serve authorizerOf
  constructor
  · rintro ⟨st, h⟩
    cases hg : getToken hdr with
    | some t =>
      simp only [hg] at h
      cases hf : findTok s t with
      | none => simp [hf] at h
      | some e =>
        simp only [hf, Option.map_some] at h
        split at h
        · simp at h
        · rename_i hact
          simp only [Ans.http.injEq, true_and, Option.some.injEq] at h
          obtain ⟨_, ha, hu'⟩ := h
          refine ⟨Or.inl ⟨t, e, rfl, hf, ha, hu'⟩, ?_⟩
          simp only [ne_eq, Bool.and_eq_true, decide_eq_true_eq, not_and, Decidable.not_not] at hact
          rw [← hu']; exact hact (by rw [hu']; exact hu)
    | none =>
      simp only [hg] at h
      cases ck with
      | none => simp at h
      | some k =>
        simp only at h
        cases hs : get s.sess k with
        | none => simp [hs] at h
        | some e =>
          simp only [hs, Option.map_some] at h
          split at h
          · simp at h
          · rename_i hact
            simp only [Ans.http.injEq, true_and, Option.some.injEq, Bool.not_eq_eq_eq_not, Bool.not_true] at h
            obtain ⟨_, ha, hu'⟩ := h
            refine ⟨Or.inr ⟨rfl, k, rfl, ?_⟩, ?_⟩
            · obtain ⟨a, b⟩ := e; simp_all
            · simp only [ne_eq, Bool.and_eq_true, decide_eq_true_eq, not_and, Decidable.not_not] at hact
              rw [← hu']; exact hact (by rw [hu']; exact hu)
  · rintro ⟨hcred, hact⟩
    rcases hcred with ⟨t, e, hg, hf, ha, hu'⟩ | ⟨hg, k, rfl, hs⟩
    · refine ⟨200, ?_⟩
      simp [hg, hf, ha, hu', hact]
    · refine ⟨200, ?_⟩
      simp [hg, hs, hact]

/-- An inactive token, a missing token, an expired or ended session, a deleted or inactive user: never
    authenticated. -/
theorem C44_inactive_user_never (s : State) (hdr ck : Option String) (uid : Nat) (hu : uid ≠ 0)
    (h : get s.active uid ≠ some true) : ∀ st p, serve s hdr ck ≠ .http st true p uid := by
  intro st p hs
  unfold serve at hs
  split at hs
  · simp at hs
  · split at hs
    · simp at hs
    · rename_i hact
      simp only [Ans.http.injEq, true_and] at hs
      obtain ⟨_, _, hu'⟩ := hs
      simp only [ne_eq, Bool.and_eq_true, decide_eq_true_eq, not_and, Decidable.not_not] at hact
      subst hu'
      exact h (hact hu)

/-- An ended session never comes back: RenewSession on a key whose session does not exist (signed out,
    timed out, or created already expired) — even with a session object obtained while it was alive —
    answers "not found" and leaves the whole state unchanged; in particular the key still does not
    authenticate afterwards. -/
theorem C44_renew_ended_noop (s : State) (key : String) (far : Bool) (hA : s.cfgB = false)
    (hh : (get s.handles key).isSome) (hgone : get s.sess key = none) :
    renewSession s key far = (s, .err .nf) := by
  unfold renewSession
  simp only [hA, Bool.false_eq_true, ↓reduceIte, hgone]
  cases hk : get s.handles key with
  | none => simp [hk] at hh
  | some u => rfl

theorem C44_renew_ended_stays_dead (s : State) (key : String) (far : Bool) (hA : s.cfgB = false)
    (hgone : get s.sess key = none) (hdr : Option String) (hnotok : getToken hdr = none) :
    serve (renewSession s key far).1 hdr (some key) = .http 401 false none 0 := by
  have : (renewSession s key far).1 = s := by
    unfold renewSession
    simp only [hA, Bool.false_eq_true, ↓reduceIte, hgone]
    split <;> rfl
  rw [this]
  simp [serve, authorizerOf, hnotok, hgone]

/-- Renewal never adds a session: whatever RenewSession does, every session present afterwards was
    present before (same key, same user). -/
theorem C44_renew_adds_nothing (s : State) (key : String) (far : Bool) (k : String) (u : Nat) (e : Bool)
    (h : get (renewSession s key far).1.sess k = some (u, e)) : ∃ e', get s.sess k = some (u, e') := by
  unfold renewSession at h
  repeat' split at h
  all_goals first
    | exact ⟨e, h⟩
    | skip
  rename_i u0 ex hg _
  simp only [get_put] at h
  split at h
  · rename_i ek; subst ek
    simp only [Option.some.injEq, Prod.mk.injEq] at h
    exact ⟨ex, by rw [hg, h.1]⟩
  · exact ⟨e, h⟩

/-- Stored hashes in every supported format verify exactly their own password: an encoded digest of
    either variant, decoded by a decoder that knows the variant, matches `q` iff `q` is the hashed
    password (given collision-free SHA-2). -/
theorem C44_digest_exact (ds : List Variant) (v : Variant) (p q : String) (hv : v ∈ ds) :
    phcMatch ds v .none p q = .matched (decide (q = p)) := by
  simp [phcMatch, hv]

/-- …and no damaged or re-labelled digest ever verifies a foreign password. -/
theorem C44_digest_only_own (ds : List Variant) (v : Variant) (m : Mangle) (p q : String)
    (h : phcMatch ds v m p q = .matched true) : q = p := by
  unfold phcMatch at h
  cases m <;> simp at h
  all_goals (split at h <;> simp at h)
  exact h

-- non-vacuity: a world in which the hypotheses above are met and the interesting answers occur
example :
    let tr := run init [.cu "u1", .sp 2001 "Password1", .cp 2001 "Password1", .cp 2001 "Password2",
      .ct 2001 "tokA" true, .req (some "token tokA") none, .ut 5001 false, .req (some "Token tokA") none,
      .cs "u1" true, .req none (some "s1"), .us 2001 false, .req none (some "s1"),
      .us 2001 true, .xs "s1", .renew "s1" true, .req none (some "s1")]
    tr.map (·.2) = [.okId 2001, .pw { ok := true }, .pw { ok := true }, .pw { badpw := true }, .okId 5001,
      .http 200 true (some true) 2001, .ok, .http 200 true (some false) 2001, .okKey "s1" 2001,
      .http 200 true (some true) 2001, .ok, .http 403 false none 0,
      .ok, .ok, .err .nf, .http 401 false none 0] := by
  decide

end Influx.Props.C44
