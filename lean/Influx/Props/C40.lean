/-
  Props.C40 — Partial writes store exactly the accepted points.

  Model: `Influx.Fields.writePoints` (Model/FieldSchema.lean), written from
  `Shard.WritePoints` / `validateSeriesAndFields` / `ValidateAndCreateFields` /
  `CreateFieldIfNotExists` / `Engine.WritePoints`.  Statement: `Spec.C40.holdsOn`.
-/
import Influx.Lemmas.FieldC40Steps

namespace Influx.Props.C40
open Influx.Fields Influx.Spec.C40 Influx.Fields.C40Steps

/-- **accepted ⊎ rejected = batch, order kept**: the verdict list is the batch
    with one verdict per point; the points handed to the engine are exactly the
    accepted ones, in batch order. -/
theorem C40_partition (s : Schema) (batch : List Point) :
    (verdicts s batch).2.2.map (·.1) = batch ∧
    (validateTwoPhase s batch).kept
      = ((verdicts s batch).2.2.filter (fun pv => pv.2.accepted)).map (·.1) :=
  ⟨verdicts_map_fst s batch, (validate_eq s batch).2.2.1⟩

/-- **err.Dropped = |rejected|**, and a write never fails in another way. -/
theorem C40_dropped_count (st : State) (batch : List Point) :
    ((writePoints st batch).2 = .ok ∧
        (verdicts st.sch batch).2.2.countP (fun pv => !pv.2.accepted) = 0) ∨
    (∃ r, (writePoints st batch).2
        = .partialWrite ((verdicts st.sch batch).2.2.countP (fun pv => !pv.2.accepted)) r) :=
  writePoints_res st batch

/-- **stored' = stored ⊕ accepted; rejected points leave the data unchanged**
    (for a batch whose data keys are pairwise different):
    every datum of an accepted point reads back with the written value, a datum
    of a rejected point reads as before the write, and so does every other key. -/
theorem C40_stored (st : State) (batch : List Point) (h : Inv st)
    (hK : (batchKeys batch).Nodup) :
    let V := (verdicts st.sch batch).2.2
    let A := (writePoints st batch).1.data
    (∀ p v, (p, v) ∈ V → v.accepted = true → ∀ e ∈ pointEntries p, A.lookup e.1 = some e.2) ∧
    (∀ p v, (p, v) ∈ V → v.accepted = false → ∀ e ∈ pointEntries p, A.lookup e.1 = st.data.lookup e.1) ∧
    (∀ k, k ∉ batchKeys batch → A.lookup k = st.data.lookup k) := by
  intro V A
  have hK' : ((allE V).map (·.1)).Nodup := by
    rw [← batchKeys_eq, verdicts_map_fst]; exact hK
  have hA : A = (accE V).foldl upsert st.data := (writePoints_state st batch).1
  refine ⟨?_, ?_, ?_⟩
  · intro p v hm ha e he; rw [hA]; exact lookup_after_acc V st.data h.1 hK' p v hm ha e he
  · intro p v hm hr e he; rw [hA]; exact lookup_after_rej V st.data h.1 hK' p v hm hr e he
  · intro k hk; rw [hA]
    apply lookup_after_other V st.data h.1 hK'
    rw [← batchKeys_eq, verdicts_map_fst]; exact hk

/-- The statement checker accepts the model's write (any batch, any state
    satisfying the invariant). -/
theorem C40_write_accepted (st : State) (batch : List Point) (h : Inv st) :
    writeFails st.data batch (writePoints st batch).2 (writePoints st batch).1.data = none :=
  writeFails_model st batch h

/-- **nothing is stored for a field named `time`**, in every reachable state -/
theorem C40_no_time_data (ops : List Op40) :
    (rawKeys (run {} ops).data).any (fun k => k.1.2.2 == timeName) = false :=
  no_time_data _ (run_inv {} inv_init ops)

/-- **field types never change**: whatever the batch, every type on record before
    the write is on record after it; and every stored value has the type on record
    for its field is kept by `C10_single_type`. -/
theorem C40_types_stable (st : State) (batch : List Point) (k : FKey) (t : FType)
    (h : st.sch.lookup k = some t) : (writePoints st batch).1.sch.lookup k = some t := by
  rw [(writePoints_state st batch).2]; exact verdicts_mono batch st.sch k t h

/-- side note made explicit: a field created by a point that is then rejected stays
    in the schema (here `b:int`, created before the conflict on `c` is met) -/
example : (writePoints { sch := [(("m", "c"), .int)], data := [] }
    [⟨"m", [], [⟨"b", .int, "1", 0⟩, ⟨"c", .float, "3ff0000000000000", 0⟩], 1⟩]).1.sch.lookup ("m", "b")
      = some .int ∧
    (writePoints { sch := [(("m", "c"), .int)], data := [] }
    [⟨"m", [], [⟨"b", .int, "1", 0⟩, ⟨"c", .float, "3ff0000000000000", 0⟩], 1⟩]).2
      = .partialWrite 1 .conflict := by decide

/-- **C40** — for every sequence of operations (arbitrary batches mixing valid
    and invalid points against whatever schema the earlier operations left) the
    statement holds of the model's observations. -/
theorem C40_holdsOn (ops : List Op40) : holdsOn (trace40 {} ops) = true := by
  unfold holdsOn
  rw [show ([] : Store) = ({} : State).data from rfl, firstFailure_trace {} inv_init ops]
  rfl

end Influx.Props.C40
