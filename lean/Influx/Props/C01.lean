/-
  Props.C01 — Read-your-writes, last-write-wins across flushes and compactions.

  Model: `Influx.Model.Engine` (the tsm1 engine as a state machine).  Statement checker:
  `Influx.Spec.C01.holdsOn`.  Everything here is for ALL operation lists (unbounded length,
  arbitrary batches, keys, timestamps, values, read ranges and directions, and every
  placement of snapshot sub-steps and compactions of adjacent files).
-/
import Influx.Lemmas.EngineC01

namespace Influx.Props.C01
open Influx.Model.Engine Influx.Spec.C01

/-- the acknowledged writes of an operation list, oldest first -/
def writesOf : List Op → List Entry
  | [] => []
  | .write es :: ops => es ++ writesOf ops
  | _ :: ops => writesOf ops

/-- **Snapshot sub-steps preserve the abstraction** (begin, write file, replace, clear, WAL removal). -/
theorem snapBegin_preserves_abs {s : State} (h : Inv s) (k : Key) (t : Int) :
    (step s .snapBegin).1.abs k t = s.abs k t := abs_stepSnapBegin h k t

/-- a failing `WriteSnapshot` attempt (and the retry of one) does not change what is readable -/
theorem snapFail_preserves_abs {s : State} (h : Inv s) (k : Key) (t : Int) :
    (step s .snapFail).1.abs k t = s.abs k t := abs_stepSnapFail h k t

theorem snapStep_preserves_abs {s : State} (h : Inv s) (k : Key) (t : Int) :
    (step s .snapStep).1.abs k t = s.abs k t := abs_stepSnapStep h k t

theorem snapTo_preserves_abs {s : State} (h : Inv s) (p : Phase) (k : Key) (t : Int) :
    (step s (.snapTo p)).1.abs k t = s.abs k t := abs_stepSnapTo h p k t

/-- **Compaction of a group of ADJACENT files preserves the abstraction** (the group
    `i..j` is contiguous in file order by construction; this is the contiguity hypothesis). -/
theorem compact_preserves_abs (s : State) (i j : Nat) (k : Key) (t : Int) :
    (step s (.compact i j)).1.abs k t = s.abs k t := by
  simp only [step]
  by_cases hv : validGroup s.files i j
  · simp only [hv, if_true]
    exact abs_compact s i j (validGroup_le hv) k t
  · simp [hv]

/-- a write overlays the batch (later point of the batch wins) -/
theorem write_abs (s : State) (es : Log) (k : Key) (t : Int) :
    (step s (.write es)).1.abs k t = (Log.get es k t).or (s.abs k t) := abs_stepWrite s es k t

/-- the refinement invariant, one step -/
theorem step_refines {s : State} {w : List Entry} (hi : Inv s) (ha : AbsIs s w) (op : Op)
    (hop : inScope op = true) :
    Inv (step s op).1 ∧ AbsIs (step s op).1 (w ++ writesOf [op]) := by
  cases op <;> simp only [inScope, Bool.false_eq_true] at hop
  · -- write
    refine ⟨inv_stepWrite hi _, fun k t => ?_⟩
    simp only [step, writesOf, List.append_nil, abs_stepWrite, Log.get_append, ha k t]
  · exact ⟨inv_stepSnapBegin hi, fun k t => by
      simp only [writesOf, List.append_nil]; rw [← ha k t]; exact abs_stepSnapBegin hi k t⟩
  · exact ⟨inv_stepSnapFail hi, fun k t => by
      simp only [writesOf, List.append_nil]; rw [← ha k t]; exact abs_stepSnapFail hi k t⟩
  · exact ⟨inv_touch (inv_stepSnapStep hi), fun k t => by
      simp only [writesOf, List.append_nil]; rw [← ha k t]; exact abs_stepSnapStep hi k t⟩
  · exact ⟨inv_touch (inv_stepSnapTo hi _), fun k t => by
      simp only [writesOf, List.append_nil]; rw [← ha k t]; exact abs_stepSnapTo hi _ k t⟩
  · -- compact
    rename_i i j
    simp only [step, writesOf, List.append_nil]
    by_cases hv : validGroup s.files i j
    · simp only [hv, if_true]
      exact ⟨inv_compact hi i j (validGroup_le hv), fun k t => by
        rw [← ha k t]; exact abs_compact s i j (validGroup_le hv) k t⟩
    · simp only [hv, Bool.false_eq_true, if_false]; exact ⟨inv_touch hi, ha⟩
  · exact ⟨inv_touch hi, fun k t => by simpa [writesOf, step] using ha k t⟩
  · exact ⟨inv_touch hi, fun k t => by simpa [writesOf, step] using ha k t⟩

theorem writesOf_cons (op : Op) (ops : List Op) : writesOf (op :: ops) = writesOf [op] ++ writesOf ops := by
  cases op <;> simp [writesOf]

theorem run_refines (ops : List Op) : ∀ (s : State) (w : List Entry), Inv s → AbsIs s w →
    (∀ op ∈ ops, inScope op = true) →
    Inv (runFrom s ops).1 ∧ AbsIs (runFrom s ops).1 (w ++ writesOf ops) := by
  induction ops with
  | nil => intro s w hi ha _; simpa [runFrom, writesOf] using ⟨hi, ha⟩
  | cons op ops ih =>
    intro s w hi ha hs
    have h1 := step_refines hi ha op (hs op List.mem_cons_self)
    have h2 := ih (step s op).1 _ h1.1 h1.2 (fun o ho => hs o (List.mem_cons_of_mem _ ho))
    simp only [runFrom]
    rw [writesOf_cons, ← List.append_assoc]
    exact h2

/-- **C01, refinement form**: after any in-scope history the shard's content is exactly the
    last-write-wins map of the acknowledged writes. -/
theorem C01_abs (ops : List Op) (hs : ∀ op ∈ ops, inScope op = true) (k : Key) (t : Int) :
    (run ops).abs k t = lastWritten (writesOf ops) k t := by
  have := (run_refines ops init [] inv_init (fun _ _ => rfl) hs).2 k t
  rw [lastWritten_eq_get]
  simpa [run] using this

/-- **C01, read form**: a read over any range, in either direction, returns exactly the
    cells whose most recent write is in range … -/
theorem C01_read_mem (ops : List Op) (hs : ∀ op ∈ ops, inScope op = true)
    (k : Key) (lo hi : Int) (asc : Bool) (p : Pt) :
    p ∈ (run ops).read k lo hi asc ↔
      (lo ≤ p.1 ∧ p.1 ≤ hi) ∧ lastWritten (writesOf ops) k p.1 = some p.2 := by
  rw [State.mem_read, C01_abs ops hs]

/-- … one row per timestamp, in time order. -/
theorem C01_read_ordered (ops : List Op) (k : Key) (lo hi : Int) :
    ((run ops).read k lo hi true).Pairwise (fun a b => a.1 < b.1) ∧
    ((run ops).read k lo hi false).Pairwise (fun a b => b.1 < a.1) :=
  ⟨State.read_sorted_asc _ _ _ _, State.read_sorted_desc _ _ _ _⟩

theorem checkFrom_runFrom (ops : List Op) : ∀ (s : State) (w : List Entry), Inv s → AbsIs s w →
    (∀ op ∈ ops, inScope op = true) → checkFrom w (runFrom s ops).2 = none := by
  induction ops with
  | nil => intro s w _ _ _; rfl
  | cons op ops ih =>
    intro s w hi ha hs
    have hop := hs op List.mem_cons_self
    have h1 := step_refines hi ha op hop
    have hrest := fun w' (hw : w' = w ++ writesOf [op]) =>
      ih (step s op).1 w' h1.1 (hw ▸ h1.2) (fun o ho => hs o (List.mem_cons_of_mem _ ho))
    simp only [runFrom]
    cases op <;> simp only [inScope, Bool.false_eq_true] at hop
    · simp only [checkFrom, step, if_true]
      exact hrest _ (by simp [writesOf])
    · simp only [checkFrom, inScope, if_true]; exact hrest _ (by simp [writesOf])
    · simp only [checkFrom, inScope, if_true]; exact hrest _ (by simp [writesOf])
    · simp only [checkFrom, inScope, if_true]; exact hrest _ (by simp [writesOf])
    · simp only [checkFrom, inScope, if_true]; exact hrest _ (by simp [writesOf])
    · simp only [checkFrom, inScope, if_true]; exact hrest _ (by simp [writesOf])
    · rename_i k lo hi asc
      simp only [checkFrom, step, rowsOK_read ha, if_true]
      exact hrest _ (by simp [writesOf])
    · simp only [checkFrom, inScope, if_true]; exact hrest _ (by simp [writesOf])

/-- **C01** (statement-checker form): on the trace of the MODEL, for every list of writes,
    reads, snapshot sub-steps and compactions of adjacent files, the statement holds. -/
theorem C01_holdsOn (ops : List Op) (hs : ∀ op ∈ ops, inScope op = true) :
    holdsOn (trace ops) = true := by
  simp only [holdsOn, check, trace, checkFrom_runFrom ops init [] inv_init (fun _ _ => rfl) hs]
  rfl

/-- the hypothesis is met by a history with overwrites, a snapshot in sub-steps with a write
    in between, a compaction and reads -/
example : ∀ op ∈ ([.write [⟨⟨0,0⟩,5,1⟩, ⟨⟨0,0⟩,3,2⟩], .snapBegin, .write [⟨⟨0,0⟩,5,9⟩], .snapStep, .snapStep,
    .snapStep, .snapStep, .snapBegin, .snapStep, .snapStep, .snapStep, .snapStep, .compact 0 1,
    .read ⟨0,0⟩ 0 10 false] : List Op), inScope op = true := by decide

example : (trace [.write [⟨⟨0,0⟩,5,1⟩, ⟨⟨0,0⟩,3,2⟩], .snapBegin, .write [⟨⟨0,0⟩,5,9⟩], .snapStep, .snapStep,
    .snapStep, .snapStep, .snapBegin, .snapStep, .snapStep, .snapStep, .snapStep, .compact 0 1,
    .read ⟨0,0⟩ 0 10 false]).getLast? = some (.read ⟨0,0⟩ 0 10 false, .rows [(5, 9), (3, 2)]) := by decide

/-- three snapshots (t=1 ↦ 10; t=1 ↦ 20; t=2 ↦ 30), then the NON-adjacent files 0 and 2 compacted -/
def nonContiguousOps : List Op :=
  [.write [⟨⟨0,0⟩,1,10⟩], .snapBegin, .snapStep, .snapStep, .snapStep, .snapStep,
   .write [⟨⟨0,0⟩,1,20⟩], .snapBegin, .snapStep, .snapStep, .snapStep, .snapStep,
   .write [⟨⟨0,0⟩,2,30⟩], .snapBegin, .snapStep, .snapStep, .snapStep, .snapStep,
   .compactSet [0, 2], .read ⟨0,0⟩ 0 10 true]

/-- **Contiguity is necessary**: compacting the NON-adjacent files 0 and 2 puts their merge
    above file 1 and an overwritten value resurfaces (DESIGN §6 F2 is the planner producing
    such a group): the statement fails on that trace. -/
theorem C01_noncontiguous_fails :
    (trace nonContiguousOps).getLast? = some (.read ⟨0,0⟩ 0 10 true, .rows [(1, 10), (2, 30)]) ∧
    lastWritten (writesOf nonContiguousOps) ⟨0,0⟩ 1 = some 20 := by decide

end Influx.Props.C01
