/-
  Props.C25 — Only active tasks are scheduled.

  Model: Influx.Model.Coord (coordinator.go, middleware.go, backend/coordinator.go,
  written from the code, with `Coordinator.TaskCreated` as repaired by
  fixes/C25-taskcreated-inactive.patch).  All theorems are over arbitrary
  histories (lists of operations of any length, any ids, any schedules).
-/
import Influx.Lemmas.CoordInv

namespace Influx.Props.C25
open Influx.Model.Coord Influx.Spec.C25 Influx.Lemmas.Coord

/-- the state the model reaches after a history -/
def final (ops : List Op) : State := finalFrom step init ops

/-- **C25** (invariant form): after every sequence of create / update / delete /
    restart / run operations through the coordinating service, the scheduler holds
    exactly `{ (t.id, effective cron, offset) | t ∈ tasks, t.status = active }`. -/
theorem C25_invariant (ops : List Op) : (final ops).held = expected (final ops).tasks :=
  (inv_final init inv_init ops).held

/-- **C25** (set form): an entry is held by the scheduler iff it is the current
    schedule of an existing active task. -/
theorem C25 (ops : List Op) (e : Entry) :
    e ∈ (final ops).held ↔ ∃ t ∈ (final ops).tasks, t.status = .active ∧ e = entryOf t := by
  rw [C25_invariant]
  constructor
  · intro h
    obtain ⟨t, ht, ha, rfl⟩ := mem_expected h
    exact ⟨t, ht, (isActive_iff t).mp ha, rfl⟩
  · rintro ⟨t, ht, ha, rfl⟩
    exact mem_expected_of ht ((isActive_iff t).mpr ha)

/-- The run-time oracle (the statement checker of Spec.C25, which keeps its own
    abstract map of acknowledged requests) accepts the model's trace of every history. -/
theorem C25_holdsOn (ops : List Op) : holdsOn (trace ops) = true := by
  have h := check_run init inv_init ops
  unfold holdsOn trace
  show (check init.tasks (runFrom step init ops)).isNone = true
  rw [h]
  rfl

/-- An existing inactive task is never held by the scheduler under any id-matching entry. -/
theorem C25_inactive_not_scheduled (ops : List Op) (t : Task) (ht : t ∈ (final ops).tasks)
    (hi : t.status = .inactive) : ∀ e ∈ (final ops).held, e.id ≠ t.id := by
  intro e he hid
  obtain ⟨t', ht', ha, rfl⟩ := (C25 ops e).mp he
  have hs := (inv_final init inv_init ops).sorted
  have : t' = t := sorted_id_inj hs ht' ht hid
  subst this
  rw [hi] at ha
  cases ha

/-- A deleted (non-existing) id is never held. -/
theorem C25_unknown_not_scheduled (ops : List Op) (id : Nat)
    (hno : ∀ t ∈ (final ops).tasks, t.id ≠ id) : ∀ e ∈ (final ops).held, e.id ≠ id := by
  intro e he hid
  obtain ⟨t, ht, _, rfl⟩ := (C25 ops e).mp he
  exact hno t ht hid

/-- Every existing active task is held, with its latest schedule. -/
theorem C25_active_scheduled (ops : List Op) (t : Task) (ht : t ∈ (final ops).tasks)
    (ha : t.status = .active) : entryOf t ∈ (final ops).held :=
  (C25 ops (entryOf t)).mpr ⟨t, ht, ha, rfl⟩

/-- Start-up repairs the scheduler whatever it held: after
    `(Task)NotifyCoordinatorOfExisting` on any id-ascending, validated store the
    scheduler holds exactly the active tasks. -/
theorem C25_restart_repairs (s : State) (k : RestartKind) (ps : Nat) (hs : Sorted s.tasks)
    (hv : ∀ t ∈ s.tasks, ¬ (t.sched.cron = "" ∧ t.sched.every = "")) :
    (step s (.restart k ps)).1.held = expected s.tasks := by
  have hfold := restart_fold k s.tasks [] [] (by simpa using hs) hv
  simp only [expected_nil, List.nil_append] at hfold
  simp [step, stepWith, restart, obsOf, hfold]

/-- The code BEFORE the repair violates the statement: creating one inactive task
    leaves it scheduled (DESIGN §6 F9; reproduced on the real code by the check
    before fixes/C25-taskcreated-inactive.patch was applied). -/
theorem C25_unrepaired_fails :
    ¬ ∀ ops, holdsOn (runFrom stepOrig init ops) = true := by
  intro h
  have := h [.create (some .inactive) { isCron := false, spec := "1m", offset := 0, valid := true }]
  revert this
  decide

-- non-vacuity: a history that creates an inactive task, activates it, reschedules it,
-- deactivates another and restarts; the final scheduler content is what the statement says.
example :
    (final [.create (some .inactive) ⟨false, "1m", 0, true⟩, .create none ⟨true, "* * * * *", 5, true⟩,
            .update 1 (some .active) none, .update 2 (some .inactive) (some ⟨false, "1h", 0, true⟩),
            .restart .launcher 1]).held = [⟨1, "@every 1m", 0⟩] := by decide

end Influx.Props.C25
