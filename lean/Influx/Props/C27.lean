/-
  Props.C27 — replication forwards every queued batch, in order, until accepted.
  Model: Influx.Model.Replication; statement checker: Influx.Spec.C27.holdsOn.
-/
import Influx.Lemmas.Replication

namespace Influx.Props.C27
open Influx.Repl Influx.Spec.C27

/-- the writer's backoff is the documented one, for every attempt count -/
theorem C27_backoff_table (n : Nat) : (backoff n : Int) = docBackoff n := backoff_eq_doc n

/-- a write lets the batch go exactly when the remote answered 204, or 400 with dropping enabled -/
theorem C27_release_iff (drop : Bool) (attempts : Nat) (r : Resp) :
    writeDecision drop attempts r = .ok ↔ releases drop r = true := writeDecision_ok_iff drop attempts r

end Influx.Props.C27
