/-
  Props.C27 — replication forwards every queued batch, in order, until accepted.
  Model: Influx.Model.Replication (SendWrite loop, writer decision table, backoff,
  Retry-After, max-age clamp and purge, over an abstract segmented queue);
  statement checker: Influx.Spec.C27.holdsOn.
-/
import Influx.Lemmas.ReplicationSim

namespace Influx.Props.C27
open Influx.Repl Influx.Spec.C27 Influx.Generated.Replication

/-- the writer's backoff is the documented one, for every attempt count -/
theorem C27_backoff_table (n : Nat) : (backoff n : Int) = docBackoff n := backoff_eq_doc n

/-- a write lets the batch go exactly when the remote answered 204, or 400 with dropping enabled -/
theorem C27_release_iff (drop : Bool) (attempts : Nat) (r : Resp) :
    writeDecision drop attempts r = .ok ↔ releases drop r = true := writeDecision_ok_iff drop attempts r

/-- every failed write returns the documented delay (backoff / Retry-After rules),
    for every response, attempt count and header value -/
theorem C27_delay_documented (drop : Bool) (attempts : Nat) (r : Resp) (w : Int)
    (h : writeDecision drop attempts r = .fail w) : delayOk attempts r w = true :=
  delayOk_of_fail drop attempts r w h

/-- **C27 for the model, every history and every response script** (unbounded):
    the statement checker accepts the model's trace.  Hypothesis: the segment
    size handed to the durable queue is at least the 8-byte footer (`ValidOp`);
    what is missing without it: a queue whose segments cannot hold a footer
    rejects every append, which the abstract queue of this model does not
    describe (C26's byte-level model does). -/
theorem C27_holdsOn_partial (ops : List Op) (hv : ∀ op ∈ ops, ValidOp op) :
    holdsOn (trace init ops) = true := by
  obtain ⟨ms', hrel⟩ := sim_trace ops init none (by simp [init, Rel]) hv
  unfold holdsOn run
  cases hfin : List.foldl sstep none (trace init ops) with
  | none => rfl
  | some ws =>
    rw [hfin] at hrel
    cases ms' with
    | none => exact absurd hrel (by simp [Rel])
    | some st =>
      obtain ⟨s, hs, _⟩ := hrel
      cases ws with
      | nil => cases hs
      | cons _ _ => rfl

/-- the hypothesis is met by non-trivial histories -/
example : ∀ op ∈ [Op.init true 3600 1024, .enq [1, 2], .send [{ kind := 0, status := 500 }], .age, .purge, .dump],
    ValidOp op := by
  intro op h; simp at h; rcases h with rfl | rfl | rfl | rfl | rfl | rfl <;> simp [ValidOp]

/-- **C27 in the production configuration**: every replication queue is created
    with `durablequeue.DefaultSegmentSize` (`InitializeQueue`, `StartReplicationQueues`);
    no other hypothesis. -/
theorem C27_holdsOn_production (ops : List Op)
    (hprod : ∀ d a g, Op.init d a g ∈ ops → g = DefaultSegmentSize) :
    holdsOn (trace init ops) = true := by
  apply C27_holdsOn_partial
  intro op hop
  cases op with
  | init d a g => rw [hprod d a g hop]; simp [ValidOp, DefaultSegmentSize]
  | _ => trivial

end Influx.Props.C27
