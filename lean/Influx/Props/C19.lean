/-
  Props.C19 — Retention drops only expired data.
  Model: `Influx.Model.Meta*` (leaf predicates regenerated from /repo by the translator).
-/
import Influx.Spec.C19
import Influx.Lemmas.MetaRetention

namespace Influx.Props.C19
open Influx.Meta Influx.Spec.C19
open Influx.Generated.Meta

/-- `ExpiredShardGroups(now)` selects exactly the groups that are not deleted and whose end lies
    more than the (non-zero) retention period before `now`. -/
theorem expired_iff (r : RetentionPolicyInfo) (now : Int) (g : ShardGroupInfo) :
    g ∈ expiredShardGroups r now ↔
      g ∈ r.ShardGroups ∧ g.DeletedAt = zeroTime ∧ r.Duration ≠ 0 ∧ g.EndTime + r.Duration < now :=
  mem_expired_iff r now g

/-- every timestamp of an expired group is older than `now − Duration` -/
theorem expired_older (r : RetentionPolicyInfo) (now : Int) (g : ShardGroupInfo)
    (h : g ∈ expiredShardGroups r now) (x : Int) (hx : g.StartTime ≤ x ∧ x < g.EndTime) :
    x < now - r.Duration := by
  have := (mem_expired_iff r now g).mp h
  omega

/-- with no retention period nothing expires -/
theorem expired_infinite (r : RetentionPolicyInfo) (now : Int) (h : r.Duration = 0) :
    expiredShardGroups r now = [] := by
  apply List.eq_nil_iff_forall_not_mem.mpr
  intro g hg
  exact ((mem_expired_iff r now g).mp hg).2.2.1 h

/-- **no other shard is touched**: every shard id `DeletionCheck` hands to the store
    (`SetShardNewReadersBlocked`, `ShardInUse`, `DeleteShard`) is a local shard of a group that
    was already deleted or is expired at `now` in the metadata the check started from; every
    shard group it deletes is expired; every metadata reference it drops is of such a group. -/
theorem deletion_safe (now : Int) (d : Data) (st : Store) :
    ∀ e ∈ (deletionCheck now d st).log, EvGood d now st.shards e :=
  deletionCheck_safe now d st

/-- the shard ids that reach `TSDBStore.DeleteShard` -/
theorem deleted_shards_expired (now : Int) (d : Data) (st : Store) (id : Nat)
    (h : id ∈ deleteCalls (deletionCheck now d st).log) :
    id ∈ st.shards ∧ ∃ di ∈ d.Databases, ∃ r ∈ di.RetentionPolicies, ∃ g ∈ r.ShardGroups,
      (g.DeletedAt ≠ zeroTime ∨
        (g.DeletedAt = zeroTime ∧ r.Duration ≠ 0 ∧ ∀ x, g.StartTime ≤ x ∧ x < g.EndTime → x < now - r.Duration)) ∧
      ∃ sh ∈ g.Shards, sh.ID = id := by
  simp only [deleteCalls, List.mem_filterMap] at h
  obtain ⟨e, he, hid⟩ := h
  cases e <;> simp at hid
  subst hid
  obtain ⟨hloc, di, hdi, r, hr, g, hg, hx, hsh⟩ := deletion_safe now d st _ he
  refine ⟨hloc, di, hdi, r, hr, g, hg, ?_, hsh⟩
  rcases hx with hx | hx
  · exact Or.inl hx
  · have h2 := (mem_expired_iff r now g).mp hx
    exact Or.inr ⟨h2.2.1, h2.2.2.1, fun x hx2 => expired_older r now g hx x hx2⟩

/-- the statement's expiry clause holds of every `exp` step of the model -/
theorem C19_exp (s : State) (db rp : String) (D : Int) (t : Int) :
    holdsOp (.exp db rp D t, (step s (.exp db rp D t)).2) = true := by
  simp only [step]
  split
  · next r hr =>
    simp only [holdsOp, expiredOK, List.all_eq_true, List.mem_map, forall_exists_index, and_imp,
      forall_apply_eq_imp_iff₂]
    intro g hg
    have h := (mem_expired_iff { r with Duration := D } t g).mp hg
    simp only [Bool.and_eq_true, bne_iff_ne, ne_eq, List.any_eq_true, beq_iff_eq]
    refine ⟨h.2.2.1, g, h.1, rfl, ?_⟩
    simp only [rangeOlder, Bool.or_eq_true, decide_eq_true_eq]
    left; have := h.2.2.2; simp at this; omega
  · rfl

/-- operations the first-round theorem does not cover yet -/
def deferred : Op → Bool
  | .ms .. | .dc .. => true
  | _ => false

/-- the statement checker accepts the model's trace on every history without `MapShards` /
    `DeletionCheck` steps.  (Those two are covered by `deletion_safe` / `deleted_shards_expired`
    at the level of the model functions; the trace-level theorem for them needs the
    well-formedness invariant of the meta data and follows in `C19_holdsOn`.) -/
theorem C19_holdsOn_partial (ops : List Op) (h : ∀ op ∈ ops, deferred op = false) (s : State) :
    holdsOn (run s ops) = true := by
  induction ops generalizing s with
  | nil => rfl
  | cons op ops ih =>
    simp only [run, holdsOn, List.all_cons, Bool.and_eq_true]
    refine ⟨?_, ih (fun o ho => h o (by simp [ho])) _⟩
    have hop := h op (by simp)
    cases op with
    | ms => simp [deferred] at hop
    | dc => simp [deferred] at hop
    | exp db rp D t => exact C19_exp s db rp D t
    | _ => simp [holdsOp]

example : ∀ op ∈ [Op.rp "db" "rp" 3600000000000 false, Op.csg "db" "rp" 5, Op.exp "db" "rp" 10 7200000000001],
    deferred op = false := by decide

end Influx.Props.C19
