import Influx.Spec.C19
namespace Influx.Props.C19
end Influx.Props.C19
