/-
  Props.C19 — Retention drops only expired data.
  Model: `Influx.Model.Meta*` (leaf predicates regenerated from /repo by the translator).
-/
import Influx.Spec.C19
import Influx.Lemmas.MetaRetention
import Influx.Lemmas.MetaC19

namespace Influx.Props.C19
open Influx.Meta Influx.Spec.C19
open Influx.Generated.Meta

/-- `ExpiredShardGroups(now)` selects exactly the groups that are not deleted and whose end lies
    more than the (non-zero) retention period before `now`. -/
theorem expired_iff (r : RetentionPolicyInfo) (now : Int) (g : ShardGroupInfo) :
    g ∈ expiredShardGroups r now ↔
      g ∈ r.ShardGroups ∧ g.DeletedAt = zeroTime ∧ r.Duration ≠ 0 ∧ g.EndTime + r.Duration < now :=
  mem_expired_iff r now g

/-- every timestamp of an expired group is older than `now − Duration` -/
theorem expired_older (r : RetentionPolicyInfo) (now : Int) (g : ShardGroupInfo)
    (h : g ∈ expiredShardGroups r now) (x : Int) (hx : g.StartTime ≤ x ∧ x < g.EndTime) :
    x < now - r.Duration := by
  have := (mem_expired_iff r now g).mp h
  omega

/-- with no retention period nothing expires -/
theorem expired_infinite (r : RetentionPolicyInfo) (now : Int) (h : r.Duration = 0) :
    expiredShardGroups r now = [] := by
  apply List.eq_nil_iff_forall_not_mem.mpr
  intro g hg
  exact ((mem_expired_iff r now g).mp hg).2.2.1 h

/-- **no other shard is touched**: every shard id `DeletionCheck` hands to the store
    (`SetShardNewReadersBlocked`, `ShardInUse`, `DeleteShard`) is a local shard of a group that
    was already deleted or is expired at `now` in the metadata the check started from; every
    shard group it deletes is expired; every metadata reference it drops is of such a group. -/
theorem deletion_safe (now : Int) (d : Data) (st : Store) :
    ∀ e ∈ (deletionCheck now d st).log, EvGood d now st.shards e :=
  deletionCheck_safe now d st

/-- the shard ids that reach `TSDBStore.DeleteShard` -/
theorem deleted_shards_expired (now : Int) (d : Data) (st : Store) (id : Nat)
    (h : id ∈ deleteCalls (deletionCheck now d st).log) :
    id ∈ st.shards ∧ ∃ di ∈ d.Databases, ∃ r ∈ di.RetentionPolicies, ∃ g ∈ r.ShardGroups,
      (g.DeletedAt ≠ zeroTime ∨
        (g.DeletedAt = zeroTime ∧ r.Duration ≠ 0 ∧ ∀ x, g.StartTime ≤ x ∧ x < g.EndTime → x < now - r.Duration)) ∧
      ∃ sh ∈ g.Shards, sh.ID = id := by
  simp only [deleteCalls, List.mem_filterMap] at h
  obtain ⟨e, he, hid⟩ := h
  cases e <;> simp at hid
  subst hid
  obtain ⟨hloc, di, hdi, r, hr, g, hg, hx, hsh⟩ := deletion_safe now d st _ he
  refine ⟨hloc, di, hdi, r, hr, g, hg, ?_, hsh⟩
  rcases hx with hx | hx
  · exact Or.inl hx
  · have h2 := (mem_expired_iff r now g).mp hx
    exact Or.inr ⟨h2.2.1, h2.2.2.1, fun x hx2 => expired_older r now g hx x hx2⟩

/-- the statement's expiry clause holds of every `exp` step of the model (any state) -/
theorem C19_exp (s : State) (db rp : String) (D : Int) (t : Int) :
    holdsOp (.exp db rp D t, (step s (.exp db rp D t)).2) = true := exp_holds s db rp D t

/-- clause 1 on a `MapShards` step from a well-formed state: a point is dropped exactly when it is
    older than the cutoff `now − Duration`, and the dropped count is the number of such points -/
theorem C19_ms (s : State) (db rp : String) (c : Option Int) (ts : List Int) (hwf : WF s.data)
    (hts : ∀ t ∈ ts, Influx.Meta.inRange t) (hc : ∀ a, c = some a → a < modelNow) :
    holdsOp (.ms db rp c ts, (step s (.ms db rp c ts)).2) = true :=
  ms_holds s db rp c ts hwf hts hc

/-- clause 2 on a `DeletionCheck` step from a well-formed state -/
theorem C19_dc (s : State) (cs : List (String × String × Int)) (hwf : WF s.data) :
    holdsOp (.dc cs, (step s (.dc cs)).2) = true :=
  dc_holds s cs hwf

/-- `ExpiredShardGroups` on a truncated group still tests `EndTime` (as the code has it), so a
    truncated group is never selected while points of `[StartTime, EndTime)` are inside the window -/
theorem expired_truncated (r : RetentionPolicyInfo) (now : Int) (g : ShardGroupInfo)
    (h : g ∈ expiredShardGroups r now) : g.EndTime + r.Duration < now :=
  ((mem_expired_iff r now g).mp h).2.2.2

/-- **C19**: on every history of operations the statement checker accepts the model's trace:
    `MapShards` rejects exactly the points older than `now − retention period` and reports their
    number; `ExpiredShardGroups` and `DeletionCheck` delete only groups lying entirely before
    `now − retention period`, and touch only local shards of deleted or expired groups.
    (Histories that leave the quantifier domain are not judged.) -/
theorem C19_holdsOn (ops : List Op) : holdsOn (run State.init ops) = true := by
  unfold holdsOn
  -- the expiry clause holds of every `exp` step, from any state (also after truncations)
  have hexp : ∀ (l : List Op) (s : State), (run s l).all holdsExp = true := by
    intro l
    induction l with
    | nil => intro s; rfl
    | cons o os ih =>
      intro s
      simp only [run, List.all_cons, Bool.and_eq_true]
      refine ⟨?_, ih _⟩
      cases o with
      | exp db rp D t =>
        have := C19_exp s db rp D t
        simp only [step] at this ⊢
        split at this <;> simp_all [holdsOp, holdsExp]
      | _ => simp [holdsExp]
  rw [hexp ops State.init, Bool.true_and]
  by_cases hdom : ((run State.init ops).all fun p => opInDomain p.1) = true
  · have hd : ∀ op ∈ ops, opInDomain op = true := by
      have key : ∀ (s : State) (l : List Op), ((run s l).all fun p => opInDomain p.1) = true → ∀ op ∈ l, opInDomain op = true := by
        intro s l
        induction l generalizing s with
        | nil => simp
        | cons o os ih =>
          intro h op hop
          simp only [run, List.all_cons, Bool.and_eq_true] at h
          rcases List.mem_cons.mp hop with rfl | hop
          · exact h.1
          · exact ih _ h.2 op hop
      exact key _ _ hdom
    simp [all_run ops hd State.init init_wf]
  · simp [hdom]

-- non-vacuity: a history inside the domain with a cutoff, an expiry query and a retention check
example : ((run State.init [Op.rp "db" "rp" 3600000000000 false, Op.ms "db" "rp" (some 1000) [10, 2000],
    Op.exp "db" "rp" 10 7200000000001, Op.store .shards [1, 2], Op.dc [("db", "rp", 1800000000000)]]).all
    fun p => opInDomain p.1) = true := by decide

end Influx.Props.C19
