/-
  Props.C11 — Line protocol and series keys round-trip.

  Model: Influx.Model.LineProtocol* (written from models/points.go, pkg/escape).
  Statement: Influx.Spec.C11 (`holdsOnKey`, `holdsOnPt`, `Valid`, `ValidKey`).
-/
import Influx.Lemmas.LineProtocolKey
import Influx.Lemmas.LineProtocolTrace

namespace Influx.Props.C11
open Influx.LP Influx.LP.Trace Influx.Spec.C11

/-! ### series keys -/

theorem replace21_no_pair (k : Nat) (s : Bytes) (h : bsBefore (fun c => c == k) s = false) :
    replace21 cBS k k s = s := by
  induction s with
  | nil => rfl
  | cons a r ih =>
    cases r with
    | nil => rfl
    | cons b r' =>
      simp only [bsBefore, Bool.or_eq_false_iff, Bool.and_eq_false_iff] at h
      have hnot : ¬ (a = cBS ∧ b = k) := by
        intro ⟨h1, h2⟩; rcases h.1 with h | h <;> simp_all
      rw [replace21, if_neg hnot, ih h.2]

theorem bsBefore_mono (S T : Nat → Bool) (hST : ∀ c, T c = true → S c = true) (s : Bytes)
    (h : bsBefore S s = false) : bsBefore T s = false := by
  induction s with
  | nil => rfl
  | cons a r ih =>
    cases r with
    | nil => rfl
    | cons b r' =>
      simp only [bsBefore, Bool.or_eq_false_iff, Bool.and_eq_false_iff] at h ⊢
      refine ⟨?_, ih h.2⟩
      rcases h.1 with h1 | h1
      · exact Or.inl h1
      · right
        cases hT : T b with
        | false => rfl
        | true => rw [hST b hT] at h1; cases h1

/-- a name without `\,` and `\ ` is its own unescaped form -/
theorem unescapeMeasurement_id (name : Bytes) (h : bsBefore Spec.C11.isMeasSpecial name = false) :
    unescapeMeasurement name = name := by
  unfold unescapeMeasurement unescapeWith
  split
  · rfl
  · unfold measurementEscapeCodes
    simp only [List.foldl_cons, List.foldl_nil, replace21_guard]
    rw [replace21_no_pair cComma name (bsBefore_mono _ _ (by intro c hc; simp [Spec.C11.isMeasSpecial] at hc ⊢; simp [hc]) _ h)]
    rw [replace21_no_pair cSpace name (bsBefore_mono _ _ (by intro c hc; simp [Spec.C11.isMeasSpecial] at hc ⊢; simp [hc]) _ h)]

/-- **Series keys round-trip** (second sentence of C11): for every non-empty name that does
    not end in a backslash and holds no `\,` / `\ `, and all tags with a value whose key and
    value do not end in a backslash — any bytes otherwise, any order, duplicates allowed —
    `ParseKeyBytes(MakeKey(name, tags))` returns exactly that name and those tags. -/
theorem C11_key_roundtrip (name : Bytes) (tags : List Tag) (h : ValidKey name tags = true) :
    parseKeyBytes (makeKey name tags) = some (name, tags) := by
  simp only [ValidKey, Bool.and_eq_true, Bool.not_eq_true', List.all_eq_true, noTrailingBS,
    decide_eq_true_eq] at h
  obtain ⟨⟨⟨hne, hl⟩, hbs⟩, ht⟩ := h
  have hne' : name ≠ [] := by intro e; simp [e] at hne
  have := parseKeyBytes_makeKey name tags hne' hl (unescapeMeasurement_id name hbs)
    (fun t hm _ => ⟨(ht t hm).1.2, (ht t hm).2⟩)
  rw [this]
  congr 2
  apply List.filter_eq_self.mpr
  intro t hm
  simpa using (ht t hm).1.1

/-- the same with empty tag values allowed: those tags are dropped by `MakeKey` -/
theorem C11_key_roundtrip_filter (name : Bytes) (tags : List Tag)
    (h : ValidKey name (tags.filter fun t => !t.value.isEmpty) = true) :
    parseKeyBytes (makeKey name tags) = some (name, tags.filter fun t => !t.value.isEmpty) := by
  simp only [ValidKey, Bool.and_eq_true, Bool.not_eq_true', List.all_eq_true, noTrailingBS,
    decide_eq_true_eq] at h
  obtain ⟨⟨⟨hne, hl⟩, hbs⟩, ht⟩ := h
  have hne' : name ≠ [] := by intro e; simp [e] at hne
  exact parseKeyBytes_makeKey name tags hne' hl (unescapeMeasurement_id name hbs)
    (fun t hm hv => by
      have := ht t (List.mem_filter.mpr ⟨hm, by simpa using hv⟩)
      exact ⟨this.1.2, this.2⟩)

/-- the statement checker accepts the model's answer to every valid `key` operation -/
theorem C11_key_holdsOn_partial (name : Bytes) (tags : List Tag) (h : ValidKey name tags = true) :
    holdsOnKey (modelKeyObs name tags) = true := by
  simp [holdsOnKey, modelKeyObs, C11_key_roundtrip name tags h]

/-- The key sentence is FALSE without `ValidKey`: a name ending in a backslash swallows the
    comma in front of the first tag (`MakeKey("a\\", k=v)` = `a\,k=v` parses as name `a,k=v`). -/
theorem C11_key_full_fails :
    ¬ ∀ name tags, holdsOnKey (modelKeyObs name tags) = true := by
  intro h
  have := h [97, 92] [⟨[107], [118]⟩]
  revert this
  decide

-- non-vacuity: ValidKey holds of a name and tags full of delimiters
example : ValidKey (str "cpu load,=x") [⟨str "ho st", str "a=b,c"⟩, ⟨str "ho st", str "\\x"⟩] = true := by decide

/-! ### points: classes outside `Valid` that the real code accepts and does not give back
    (each is replayed on the real code by the check, see findings.d/C11.json) -/

def intField : List (Bytes × FV) := [(str "f", .int 1)]

/-- The first sentence is FALSE for all points `NewPoint` accepts.  Witness: tags `a,`=1 and
    `a-`=2 (sorted by key, as `NewTags` sorts them) come back in the order `a-`, `a,`: the
    parser sorts by the *escaped* key (`a\,` > `a-`), so the parsed point's key differs from
    the key `MakeKey` builds for the same tag set. -/
theorem C11_pt_full_fails :
    ¬ ∀ prec dt p, holdsOnPt (modelPtObs prec dt p) = true := by
  intro h
  have := h "ns" 0 ⟨str "m", [⟨str "a,", str "1"⟩, ⟨str "a-", str "2"⟩], intField, some 0⟩
  revert this
  decide

end Influx.Props.C11
