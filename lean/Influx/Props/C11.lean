/-
  Props.C11 — Line protocol and series keys round-trip.

  Model: Influx.Model.LineProtocol* (written from models/points.go, pkg/escape).
  Statement: Influx.Spec.C11 (`holdsOnKey`, `holdsOnPt`, `Valid`, `ValidKey`).
  Lemmas: Influx.Lemmas.LineProtocol*.
-/
import Influx.Lemmas.LineProtocolRoundTrip

namespace Influx.Props.C11
open Influx.LP Influx.LP.Trace Influx.Spec.C11

/-! ### escaping -/

/-- `unescapeTag ∘ escapeTag = id` and `unescapeMeasurement ∘ EscapeMeasurement = id` on EVERY
    byte string (the `bytes.Replace` chains never confuse each other); likewise
    `escape.Unescape ∘ escape.String` and `unescapeStringField ∘ EscapeStringField`. -/
theorem C11_escape_inverse (s : Bytes) :
    unescapeTag (escapeTag s) = s ∧ unescapeMeasurement (escapeMeasurement s) = s ∧
    unescape (escapeString s) = s ∧ unescapeStringField (escapeStringField s) = s :=
  ⟨unescapeTag_escapeTag s, unescapeMeasurement_escapeMeasurement s, unescape_escapeString s,
   unescapeStringField_escape s⟩

/-! ### series keys -/

/-- **Series keys round-trip** (second sentence of C11): for every non-empty name that does
    not end in a backslash and holds no `\,` / `\ `, and all tags with a value whose key and
    value do not end in a backslash — any bytes otherwise, any order, duplicates allowed —
    `ParseKeyBytes(MakeKey(name, tags))` returns exactly that name and those tags. -/
theorem C11_key_roundtrip (name : Bytes) (tags : List Tag) (h : ValidKey name tags = true) :
    parseKeyBytes (makeKey name tags) = some (name, tags) := by
  simp only [ValidKey, Bool.and_eq_true, Bool.not_eq_true', List.all_eq_true, noTrailingBS,
    decide_eq_true_eq] at h
  obtain ⟨⟨⟨hne, hl⟩, hbs⟩, ht⟩ := h
  have hne' : name ≠ [] := by intro e; simp [e] at hne
  have := parseKeyBytes_makeKey name tags hne' hl (unescapeMeasurement_id name hbs)
    (fun t hm _ => ⟨(ht t hm).1.2, (ht t hm).2⟩)
  rw [this]
  congr 2
  apply List.filter_eq_self.mpr
  intro t hm
  simpa using (ht t hm).1.1

/-- the same with empty tag values allowed: those tags are dropped by `MakeKey` -/
theorem C11_key_roundtrip_filter (name : Bytes) (tags : List Tag)
    (h : ValidKey name (tags.filter fun t => !t.value.isEmpty) = true) :
    parseKeyBytes (makeKey name tags) = some (name, tags.filter fun t => !t.value.isEmpty) := by
  simp only [ValidKey, Bool.and_eq_true, Bool.not_eq_true', List.all_eq_true, noTrailingBS,
    decide_eq_true_eq] at h
  obtain ⟨⟨⟨hne, hl⟩, hbs⟩, ht⟩ := h
  have hne' : name ≠ [] := by intro e; simp [e] at hne
  exact parseKeyBytes_makeKey name tags hne' hl (unescapeMeasurement_id name hbs)
    (fun t hm hv => by
      have := ht t (List.mem_filter.mpr ⟨hm, by simpa using hv⟩)
      exact ⟨this.1.2, this.2⟩)

/-- the statement checker accepts the model's answer to every valid `key` operation -/
theorem C11_key_holdsOn_partial (name : Bytes) (tags : List Tag) (h : ValidKey name tags = true) :
    holdsOnKey (modelKeyObs name tags) = true := by
  simp [holdsOnKey, modelKeyObs, C11_key_roundtrip name tags h]

/-- The key sentence is FALSE without `ValidKey`: a name ending in a backslash swallows the
    comma in front of the first tag (`MakeKey("a\\", k=v)` = `a\,k=v` parses as name `a,k=v`). -/
theorem C11_key_full_fails :
    ¬ ∀ name tags, holdsOnKey (modelKeyObs name tags) = true := by
  intro h
  have := h [97, 92] [⟨[107], [118]⟩]
  revert this
  decide

-- non-vacuity: ValidKey holds of a name and tags full of delimiters
example : ValidKey (str "cpu load,=x") [⟨str "ho st", str "a=b,c"⟩, ⟨str "ho st", str "\\x"⟩] = true := by decide

/-! ### points -/

/-- **Points round-trip** (first sentence of C11) on the model, for every point in `Valid`,
    every supported precision and every default time: `NewPoint` accepts the point; its
    `String()` / `PrecisionString(prec)` is one line; `ParsePointsWithPrecision` returns exactly
    one point and no error; `Name()` is the measurement, `Tags()` the tag set in sorted order,
    `Fields()` the same field names with identical types and values (floats through Go's own
    text, see `floatTextOK` / `floatsConsistent`), `UnixNano()` the same timestamp (the default
    time cut to the precision when the point has none). -/
theorem C11_pt_holdsOn_partial (p : PointIn) (prec : String) (dt : Int)
    (h : ValidObs (modelPtObs prec dt p) = true) : holdsOnPt (modelPtObs prec dt p) = true := by
  simp only [ValidObs, modelPtObs, Bool.and_eq_true, Bool.or_eq_true] at h
  exact holdsOnPt_valid p prec dt h.1.1 h.1.2 h.2

/-- what the parser hands back for a valid point, spelled out -/
theorem C11_pt_roundtrip (p : PointIn) (prec : String) (dt : Int)
    (h : ValidObs (modelPtObs prec dt p) = true) :
    ∃ q, modelPt prec dt p = .parsed q ∧ q.name = p.name ∧ q.tags = expectedTags p ∧
      q.fields = expectedFields p ∧ timeOK prec dt p.time q.time = true := by
  have hh := C11_pt_holdsOn_partial p prec dt h
  simp only [holdsOnPt, modelPtObs] at hh
  cases hm : modelPt prec dt p with
  | rejected =>
    rw [hm] at hh
    simp only [ValidObs, modelPtObs, Bool.and_eq_true] at h
    simp [h.1.1] at hh
  | failed => rw [hm] at hh; cases hh
  | parsed q =>
    rw [hm] at hh
    simp only [sameBack, Bool.and_eq_true, decide_eq_true_eq] at hh
    exact ⟨q, rfl, hh.1, hh.2.1, hh.2.2.1, hh.2.2.2⟩

/-- **C11 on the model** (partial: for valid operations): the statement checker accepts the
    model's answer to every operation of the protocol. -/
theorem C11_holdsOn_partial :
    (∀ name tags, ValidKey name tags = true → holdsOnKey (modelKeyObs name tags) = true) ∧
    (∀ p prec dt, ValidObs (modelPtObs prec dt p) = true → holdsOnPt (modelPtObs prec dt p) = true) :=
  ⟨C11_key_holdsOn_partial, C11_pt_holdsOn_partial⟩

def intField : List (Bytes × FV) := [(str "f", .int 1)]

-- non-vacuity: a valid point with delimiters, quotes, unicode bytes, every field type
example : ValidObs (modelPtObs "ms" 1600000000123456789
    ⟨str "cpu load,=x\"", [⟨str "a b", str "1,2"⟩, ⟨str "ho=st", [195, 169, 92, 120]⟩],
     [(str "f 1", .float 4609434218613702656 (str "1.5")), (str "g,\"", .int (-9223372036854775808)),
      (str "h", .uint 18446744073709551615), (str "i=", .bool true), (str "s", .str (str "a\"b\\c, d=e"))],
     some (-9223372036854000000)⟩) = true := by decide

/-- The first sentence is FALSE for all points `NewPoint` accepts.  Witness: tags `a,`=1 and
    `a-`=2 (sorted by key, as `NewTags` sorts them) come back in the order `a-`, `a,`: the
    parser sorts by the *escaped* key (`a\,` > `a-`), so the parsed point's key differs from
    the key `MakeKey` builds for the same tag set. -/
theorem C11_pt_full_fails :
    ¬ ∀ prec dt p, holdsOnPt (modelPtObs prec dt p) = true := by
  intro h
  have := h "ns" 0 ⟨str "m", [⟨str "a,", str "1"⟩, ⟨str "a-", str "2"⟩], intField, some 0⟩
  revert this
  decide

/-- further classes outside `Valid` that `NewPoint` accepts and the parser does not give back
    (each replayed on the real code by the check, findings.d/C11.json) -/
theorem C11_pt_excluded_witnesses :
    -- a tag value ending in a backslash
    holdsOnPt (modelPtObs "ns" 0 ⟨str "m", [⟨str "k", str "v\\"⟩], intField, some 0⟩) = false ∧
    -- `Name()` un-escapes `\=`, `MakeKey` does not escape it
    holdsOnPt (modelPtObs "ns" 0 ⟨str "a\\=b", [], intField, some 0⟩) = false ∧
    -- a field key with a backslash before a comma
    holdsOnPt (modelPtObs "ns" 0 ⟨str "m", [], [(str "a\\,b", .int 1)], some 0⟩) = false ∧
    -- a measurement that starts like a comment: no point, no error
    holdsOnPt (modelPtObs "ns" 0 ⟨str "#m", [], intField, some 0⟩) = false ∧
    -- reserved tag key, duplicate tag keys, empty measurement
    holdsOnPt (modelPtObs "ns" 0 ⟨str "m", [⟨str "time", str "1"⟩], intField, some 0⟩) = false ∧
    holdsOnPt (modelPtObs "ns" 0 ⟨str "m", [⟨str "a", str "1"⟩, ⟨str "a", str "2"⟩], intField, some 0⟩) = false ∧
    holdsOnPt (modelPtObs "ns" 0 ⟨[], [], intField, some 0⟩) = false := by
  decide

end Influx.Props.C11
