/-
  Props.C36 — index and ID-set data structures behave like their abstract models.
-/
import Influx.Lemmas.C36BloomSim
import Influx.Lemmas.C36IDSetSim
import Influx.Lemmas.C36RHHSim
import Influx.Lemmas.C36RadixSim2

namespace Influx.Props.C36
open Influx.C36 Influx.Spec.C36

/-! ## Robin-hood hash map (pkg/rhh), for an ARBITRARY hash function `hf`

`RHH.WF hf s` is the robin-hood invariant of a slot array: every element away from its home
slot has an occupied predecessor at most one step richer, keys are unique, stored hashes are
`hf key`.  `RHH.Map.Inv` adds `n = number of occupied slots` and `loadFactor ≤ 100`. -/

/-- **The probe-sequence invariant**: between the home slot of a stored element and its slot,
    every slot is occupied by an element at least as far from its own home — no empty slot and
    no richer element is crossed. -/
theorem rhh_probe_sequence (hf : Key → Nat) (s : RHH.Slots) (hw : RHH.WF hf s) (p : Nat) (e : RHH.Entry)
    (hp : RHH.At s p e) (n q : Nat) (hq : q < s.length)
    (hd : RHH.dist e.hash q s.length + n = RHH.dist e.hash p s.length) :
    ∃ e', RHH.At s q e' ∧ RHH.dist e.hash q s.length ≤ RHH.dist e'.hash q s.length :=
  hw.path hp n q hq hd

/-- **Get refines the abstract map** `Key → Option Val`: `Get(k)` returns `v` iff the entry
    `(k, v)` is stored. -/
theorem rhh_get (hf : Key → Nat) (m : RHH.Map) (h : m.Inv hf) (k : Key) (v : Int) :
    m.get (hf k) k = some v ↔ ∃ e, RHH.Mem m.slots e ∧ e.key = k ∧ e.val = v :=
  RHH.Map.get_spec h k v

/-- **Put is a map update** (insert with displacement, growing at the load factor): it
    re-establishes the invariant, afterwards `Get k = v`, every other key reads as before, and
    `Len` grows exactly when the key was new. -/
theorem rhh_put (hf : Key → Nat) (m m' : RHH.Map) (h : m.Inv hf) (k : Key) (v : Int)
    (hp : m.put (hf k) k v = some m') :
    m'.Inv hf ∧ m'.get (hf k) k = some v ∧
      (∀ k', k' ≠ k → m'.get (hf k') k' = m.get (hf k') k') ∧
      ((∃ e, RHH.Mem m.slots e ∧ e.key = k) → m'.n = m.n) ∧
      ((∀ e, RHH.Mem m.slots e → e.key ≠ k) → m'.n = m.n + 1) := by
  obtain ⟨hI', hmem, hn1, hn2⟩ := RHH.Map.put_spec h k v hp
  refine ⟨hI', ?_, ?_, hn1, hn2⟩
  · exact (RHH.Map.get_spec hI' k v).mpr ⟨⟨hf k, k, v⟩, (hmem _).mpr (Or.inr rfl), rfl, rfl⟩
  · intro k' hk'
    cases hg : m.get (hf k') k' with
    | none =>
      apply (RHH.Map.get_none hI' k').mpr
      intro e he hke
      rcases (hmem e).mp he with ⟨he', _⟩ | rfl
      · exact (RHH.Map.get_none h k').mp hg e he' hke
      · exact hk' hke.symm
    | some v' =>
      obtain ⟨e, he, hke, hve⟩ := (RHH.Map.get_spec h k' v').mp hg
      exact (RHH.Map.get_spec hI' k' v').mpr ⟨e, (hmem e).mpr (Or.inl ⟨he, by rw [hke]; exact hk'⟩), hke, hve⟩

/-- `Put` always returns while doubling the capacity stays in range (2^61 slots). -/
theorem rhh_put_total (hf : Key → Nat) (m : RHH.Map) (h : m.Inv hf) (k : Key) (v : Int)
    (hcap : m.cap * 2 ≤ 2 ^ 61) : ∃ m', m.put (hf k) k v = some m' :=
  RHH.Map.put_total h k v hcap

/-- `Grow` keeps every entry (and `Len`). -/
theorem rhh_grow (hf : Key → Nat) (m m' : RHH.Map) (h : m.Inv hf) (sz : Nat) (hg : m.grow sz = some m') :
    m'.Inv hf ∧ (∀ k, m'.get (hf k) k = m.get (hf k) k) ∧ m'.n = m.n := by
  obtain ⟨hI', hmem, hn, _, _⟩ := RHH.Map.grow_spec h hg
  refine ⟨hI', ?_, hn⟩
  intro k
  cases hg0 : m.get (hf k) k with
  | none =>
    apply (RHH.Map.get_none hI' k).mpr
    intro e he
    exact (RHH.Map.get_none h k).mp hg0 e ((hmem e).mp he)
  | some v =>
    obtain ⟨e, he, hke, hve⟩ := (RHH.Map.get_spec h k v).mp hg0
    exact (RHH.Map.get_spec hI' k v).mpr ⟨e, (hmem e).mpr he, hke, hve⟩

/-- a fresh map satisfies the invariant and is empty -/
theorem rhh_new (hf : Key → Nat) (capacity lf : Nat) (m : RHH.Map) (h : RHH.Map.new capacity lf = some m)
    (hlf : lf ≤ 100) : m.Inv hf ∧ ∀ k, m.get (hf k) k = none := by
  obtain ⟨hI, hemp⟩ := RHH.Map.new_inv hf h hlf
  exact ⟨hI, fun k => (RHH.Map.get_none hI k).mpr (fun e he => absurd he (hemp e))⟩

/-! ## Bloom filter (pkg/bloom) -/

/-- `Insert(v)` then `Contains(v)`: true, for any pair of hashes and any `k`. -/
theorem bloom_contains_after_insert (f : Bloom.Filter) (h0 h1 : Nat) (hm : 0 < f.bits.length) :
    (f.insert h0 h1).contains h0 h1 = true := Bloom.contains_insert_self f h0 h1 hm

/-- … forever: no later insert clears a contained value (bits are monotone). -/
theorem bloom_contains_monotone (f : Bloom.Filter) (h0 h1 g0 g1 : Nat) (h : f.contains h0 h1 = true) :
    (f.insert g0 g1).contains h0 h1 = true := Bloom.contains_insert_mono f h0 h1 g0 g1 h

/-- `Merge` keeps what either side contained. -/
theorem bloom_merge_contains (f o f' : Bloom.Filter) (h : f.merge o = .ok f') (h0 h1 : Nat)
    (hc : f.contains h0 h1 = true ∨ o.contains h0 h1 = true) : f'.contains h0 h1 = true :=
  hc.elim (Bloom.contains_merge_left h h0 h1) (Bloom.contains_merge_right h h0 h1)

/-! ## SeriesIDSet (tsdb/series_set.go) over an abstract roaring bitmap -/

/-- the wrapper keeps the canonical (ascending, duplicate-free) representation -/
theorem idset_add_sorted (s : IDSet.Set) (id : Nat) (h : IDSet.Sorted s) : IDSet.Sorted (IDSet.add s id) :=
  IDSet.ins_sorted _ _ h

theorem idset_mem_add (s : IDSet.Set) (id y : Nat) :
    y ∈ IDSet.add s id ↔ y = id % 2 ^ 32 ∨ y ∈ s := IDSet.mem_ins _ _ _

theorem idset_mem_union (a b : IDSet.Set) (y : Nat) : y ∈ IDSet.union a b ↔ y ∈ a ∨ y ∈ b :=
  IDSet.mem_union a b y

theorem idset_mem_and (a b : IDSet.Set) (y : Nat) : y ∈ IDSet.and a b ↔ y ∈ a ∧ y ∈ b := by
  simp [IDSet.and, List.mem_filter]

theorem idset_mem_andNot (a b : IDSet.Set) (y : Nat) : y ∈ IDSet.andNot a b ↔ y ∈ a ∧ y ∉ b := by
  simp [IDSet.andNot, List.mem_filter]

theorem idset_mem_remove (s : IDSet.Set) (id y : Nat) :
    y ∈ IDSet.remove s id ↔ y ∈ s ∧ y ≠ id % 2 ^ 32 := by
  simp only [IDSet.remove, IDSet.norm, List.mem_filter, ne_eq]
  constructor
  · rintro ⟨h1, h2⟩; exact ⟨h1, of_decide_eq_true h2⟩
  · rintro ⟨h1, h2⟩; exact ⟨h1, decide_eq_true h2⟩

/-- two canonical sets with the same members are the same list, so `Equals` is set equality -/
theorem idset_equals_iff (a b : IDSet.Set) (ha : IDSet.Sorted a) (hb : IDSet.Sorted b) :
    IDSet.equals a b = true ↔ ∀ y, y ∈ a ↔ y ∈ b := by
  simp only [IDSet.equals, beq_iff_eq]
  constructor
  · rintro rfl y; rfl
  · exact IDSet.sorted_ext a b ha hb

/-- `marshal ∘ unmarshal = id`, given roaring's: for ANY codec of the bitmap that round-trips,
    writing a set and reading it into a fresh set yields an equal set (the wrapper adds nothing
    to the bytes: `WriteTo`/`UnmarshalBinary` delegate to the bitmap). -/
theorem idset_roundtrip {Bytes : Type} (enc : IDSet.Set → Bytes) (dec : Bytes → Option IDSet.Set)
    (hcodec : ∀ s, dec (enc s) = some s) (s : IDSet.Set) :
    (dec (enc s)).map (IDSet.equals s) = some true := by
  simp [hcodec, IDSet.equals]

/-- The uint32 truncation is real: in the model (as in the code) adding 2^32+5 makes 5 a member. -/
theorem idset_truncation_witness : IDSet.contains (IDSet.add [] (2 ^ 32 + 5)) 5 = true := by decide

/-! ## Radix tree (pkg/radix): a sorted association list

`Radix.Node.rel n` is the list of (key suffix, value) pairs below a node in walk order;
`Radix.Node.SW` the structural invariant (edge labels strictly ascending, every child's prefix
starts with its label) — it tolerates the empty nodes `deletePrefix` leaves behind. -/

/-- **Get refines the lookup in the association list.** -/
theorem radix_get (n : Radix.Node) (k : Key) (h : Radix.Node.SW n) :
    Radix.Node.get n k = Radix.lookup k (Radix.Node.rel n) := Radix.Node.get_rel n k h

/-- **Iteration in key order**: the association list (hence the walk) is strictly ascending in
    `bytes.Compare` order. -/
theorem radix_sorted (n : Radix.Node) (h : Radix.Node.SW n) : Radix.SortedKV (Radix.Node.rel n) :=
  Radix.Node.rel_sorted n h

/-- **Insert refines insert-if-absent**: the invariant is kept; an existing key is left alone
    and its value returned with `false`; a new key is added (and nothing else changes). -/
theorem radix_insert (n : Radix.Node) (k s : Key) (v : Int) (h : Radix.Node.SW n) :
    Radix.Node.SW (Radix.Node.insert n k s v).1 ∧
    (∀ old, Radix.lookup k (Radix.Node.rel n) = some old → Radix.Node.insert n k s v = (n, ⟨old, false⟩)) ∧
    (Radix.lookup k (Radix.Node.rel n) = none →
      (Radix.Node.insert n k s v).2 = ⟨v, true⟩ ∧
      ∀ p, p ∈ Radix.Node.rel (Radix.Node.insert n k s v).1 ↔ p ∈ Radix.Node.rel n ∨ p = (k, v)) := by
  obtain ⟨h1, _, h3, h4⟩ := Radix.Node.insert_spec n k s v h
  exact ⟨h1, h3, h4⟩

/-- **DeletePrefix refines the filter**: exactly the pairs whose key has the prefix disappear,
    their number is returned. -/
theorem radix_delete_prefix (n : Radix.Node) (isRoot : Bool) (c : Nat) (rest : Key) (h : Radix.Node.SW n) :
    Radix.Node.SW (Radix.Node.del n isRoot (c :: rest)).1 ∧
    Radix.Node.rel (Radix.Node.del n isRoot (c :: rest)).1 =
      (Radix.Node.rel n).filter (fun q => !Radix.pfx (c :: rest) q.1) ∧
    (Radix.Node.del n isRoot (c :: rest)).2 + (Radix.Node.rel (Radix.Node.del n isRoot (c :: rest)).1).length =
      (Radix.Node.rel n).length := by
  obtain ⟨h1, h2, h3, _⟩ := Radix.Node.del_spec n isRoot c rest h
  exact ⟨h1, h2, h3⟩

/-- **Minimum / Maximum** are the first / last element of the walk as long as no node is empty
    (`NE`: holds until the first `DeletePrefix`; afterwards see `C36_radix_full_fails`). -/
theorem radix_min_max (n : Radix.Node) (h : Radix.Node.NE n) :
    Radix.Node.min n = (Radix.Node.walk n).head? ∧ Radix.Node.max n = (Radix.Node.walk n).getLast? :=
  ⟨Radix.Node.min_eq n h, Radix.Node.max_eq n h⟩

/-! ## The statement on the model's own traces -/

/-- well-formed op: its hashes are those of its key (`hf` for the hash map, `bh` for the bloom
    filter); load factors are at most 100; ids fit 32 bits -/
def WF (hf : Key → Nat) (bh : Key → Nat × Nat) : Op → Prop
  | .r o => ROp.WF hf o
  | .b o => BOp.WF bh o
  | .s o => SOp.WF o
  | .t _ => True

/-- no `Minimum`/`Maximum` after a `DeletePrefix` on the same tree (known finding);
    `d` = a `DeletePrefix` may have run since the last `tnew` -/
def MinMaxOK : Bool → List Op → Prop
  | _, [] => True
  | d, .t .min :: ops => d = false ∧ MinMaxOK d ops
  | d, .t .max :: ops => d = false ∧ MinMaxOK d ops
  | _, .t .new :: ops => MinMaxOK false ops
  | _, .t (.del _) :: ops => MinMaxOK true ops
  | d, _ :: ops => MinMaxOK d ops

structure R (hf : Key → Nat) (bh : Key → Nat × Nat) (d : Bool) (st : State) (sp : SpecState) : Prop where
  r : RR hf st.map sp.rmap
  b : RB bh st.bf sp.bloom
  t : RT st.tree sp.t
  s : RS st.sets sp.s
  del : sp.t.deleted = true → d = true

theorem R_init (hf bh d) : R hf bh d init {} := ⟨trivial, RB_init bh, rfl, RS_init, fun h => by cases h⟩

theorem firstFailure_run (hf bh) (ops : List Op) : ∀ (d : Bool) (st sp), R hf bh d st sp →
    (∀ op ∈ ops, WF hf bh op) → MinMaxOK d ops → (∀ x ∈ run st ops, ¬ Obs.stuck x.2) →
    firstFailure sp (run st ops) = none := by
  induction ops with
  | nil => intros; rfl
  | cons op ops ih =>
    intro d st sp hR hall hmm hns
    have hwf := hall op (by simp)
    have hns1 : ¬ Obs.stuck (step st op).2 := hns (op, (step st op).2) (by simp [run])
    have hrest : ∀ o ∈ ops, WF hf bh o := fun o ho => hall o (by simp [ho])
    have hnsrest : ∀ x ∈ run (step st op).1 ops, ¬ Obs.stuck x.2 := fun x hx => hns x (by simp [run, hx])
    simp only [run, firstFailure]
    cases op with
    | r o =>
      have := stepR_sim hf st.map sp.rmap o hR.r hwf hns1
      simp only [step, check] at this ⊢
      cases hc : checkR sp.rmap o (stepR st.map o).2 with
      | mk x c =>
        rw [hc] at this
        simp only at this
        obtain ⟨hnone, hR'⟩ := this
        subst hnone
        exact ih d _ _ ⟨hR', hR.b, hR.t, hR.s, hR.del⟩ hrest (by cases o <;> exact hmm) hnsrest
    | b o =>
      have := stepB_sim bh st.bf sp.bloom o hR.b hwf
      simp only [step, check] at this ⊢
      cases hc : checkB sp.bloom o (stepB st.bf o).2 with
      | mk x c =>
        rw [hc] at this
        simp only at this
        obtain ⟨hnone, hR'⟩ := this
        subst hnone
        exact ih d _ _ ⟨hR.r, hR', hR.t, hR.s, hR.del⟩ hrest (by cases o <;> exact hmm) hnsrest
    | s o =>
      have := stepS_sim st.sets sp.s o hR.s hwf
      simp only [step, check] at this ⊢
      cases hc : checkS sp.s o (stepS st.sets o).2 with
      | mk x c =>
        rw [hc] at this
        simp only at this
        obtain ⟨hnone, hR'⟩ := this
        subst hnone
        exact ih d _ _ ⟨hR.r, hR.b, hR.t, hR', hR.del⟩ hrest (by cases o <;> exact hmm) hnsrest
    | t o =>
      have hok : TOp.okAt sp.t.deleted o := by
        cases o <;> simp only [TOp.okAt]
        · -- min
          cases hdel : sp.t.deleted with
          | false => rfl
          | true => have := hR.del hdel; rw [this] at hmm; exact absurd hmm.1 (by simp)
        · cases hdel : sp.t.deleted with
          | false => rfl
          | true => have := hR.del hdel; rw [this] at hmm; exact absurd hmm.1 (by simp)
      have := stepT_sim st.tree sp.t o hR.t hok
      simp only [step, check] at this ⊢
      cases hc : checkT sp.t o (stepT st.tree o).2 with
      | mk x c =>
        rw [hc] at this
        simp only at this
        obtain ⟨hnone, hR'⟩ := this
        subst hnone
        -- how the "deleted" flag of the statement moves
        have hdel' : ∀ d', (match o with | .new => d' = false | .del _ => d' = true | _ => d' = d) →
            (x.deleted = true → d' = true) := by
          intro d' hd' hx
          have hxd : x.deleted = (checkT sp.t o (stepT st.tree o).2).1.deleted := by rw [hc]
          cases o with
          | new => rw [hxd] at hx; simp [checkT] at hx
          | del p => exact hd'
          | ins k v =>
            rw [hd']; apply hR.del; rw [← hx, hxd]
            simp only [checkT]; split <;> (try split) <;> rfl
          | get k =>
            rw [hd']; apply hR.del; rw [← hx, hxd]
            simp only [checkT]; split <;> rfl
          | min =>
            rw [hd']; apply hR.del; rw [← hx, hxd]
            simp only [checkT]; split <;> rfl
          | max =>
            rw [hd']; apply hR.del; rw [← hx, hxd]
            simp only [checkT]; split <;> rfl
          | len =>
            rw [hd']; apply hR.del; rw [← hx, hxd]
            simp only [checkT]; split <;> rfl
          | walk =>
            rw [hd']; apply hR.del; rw [← hx, hxd]
            simp only [checkT]; split <;> rfl
          | dump =>
            rw [hd']; apply hR.del; rw [← hx, hxd]
            simp only [checkT]; split <;> rfl
        cases o with
        | new => exact ih false _ _ ⟨hR.r, hR.b, hR', hR.s, hdel' false rfl⟩ hrest hmm hnsrest
        | del p => exact ih true _ _ ⟨hR.r, hR.b, hR', hR.s, hdel' true rfl⟩ hrest hmm hnsrest
        | min => exact ih d _ _ ⟨hR.r, hR.b, hR', hR.s, hdel' d rfl⟩ hrest hmm.2 hnsrest
        | max => exact ih d _ _ ⟨hR.r, hR.b, hR', hR.s, hdel' d rfl⟩ hrest hmm.2 hnsrest
        | ins k v => exact ih d _ _ ⟨hR.r, hR.b, hR', hR.s, hdel' d rfl⟩ hrest hmm hnsrest
        | get k => exact ih d _ _ ⟨hR.r, hR.b, hR', hR.s, hdel' d rfl⟩ hrest hmm hnsrest
        | len => exact ih d _ _ ⟨hR.r, hR.b, hR', hR.s, hdel' d rfl⟩ hrest hmm hnsrest
        | walk => exact ih d _ _ ⟨hR.r, hR.b, hR', hR.s, hdel' d rfl⟩ hrest hmm hnsrest
        | dump => exact ih d _ _ ⟨hR.r, hR.b, hR', hR.s, hdel' d rfl⟩ hrest hmm hnsrest

/-- **C36 on the model**: for EVERY hash function `hf` of the hash map and every pair of hash
    functions `bh` of the bloom filter, the statement checker accepts every trace the model
    produces — all four structures, every op, unbounded.
    Named `_partial` because of three explicit hypotheses, each the exact complement of a
    known finding or a resource bound: (1) `WF`: hashes are those of the keys, load factor
    ≤ 100, ids below 2^32 (`C36_idset_full_fails`); (2) `MinMaxOK`: no `Minimum`/`Maximum` after
    a `DeletePrefix` (`C36_radix_full_fails`); (3) no model answer is `hang`/`panic` — by
    `rhh_put_total` that needs a capacity beyond 2^60 slots. -/
theorem C36_holdsOn_partial (hf : Key → Nat) (bh : Key → Nat × Nat) (ops : List Op)
    (h : ∀ op ∈ ops, WF hf bh op) (hmm : MinMaxOK false ops) (hns : ∀ x ∈ run init ops, ¬ Obs.stuck x.2) :
    holdsOn (run init ops) = true := by
  simp [holdsOn, firstFailure_run hf bh ops false init {} (R_init hf bh false) h hmm hns]

-- the hypotheses are met by non-trivial op sequences
example : ∀ op ∈ [Op.r (.new 4 90), .r (.put [1] 5 7), .r (.get [1] 5), .b (.new 0 64 3), .b (.ins 0 [1, 2] 7 9),
    .b (.has 0 [1, 2] 7 9), .s (.add 1 5), .s (.slice 1), .t .new, .t (.ins [97] 1), .t .min, .t (.del [97])],
    WF (fun _ => 5) (fun _ => (7, 9)) op := by
  intro op h; simp at h
  rcases h with rfl | rfl | rfl | rfl | rfl | rfl | rfl | rfl | rfl | rfl | rfl | rfl <;>
    simp [WF, ROp.WF, BOp.WF, SOp.WF]
example : MinMaxOK false [Op.t .new, .t (.ins [97] 1), .t .min, .t (.del [97]), .t .walk] := by
  simp [MinMaxOK]

/-! ## Where the full statement fails (both reproduced on the real code by the check) -/

/-- ids are kept modulo 2^32: after `Add(2^32+5)`, `Contains(5)` is true (known finding
    `idset-id-truncated-to-32-bits`) -/
theorem C36_idset_full_fails :
    holdsOn (run init [.s (.add 0 (2 ^ 32 + 5)), .s (.has 0 5)]) = false := by decide

/-- `DeletePrefix` leaves an empty node behind and `Minimum` walks into it: the tree still
    holds "b" but reports no minimum (known finding `radix-minmax-after-deleteprefix`) -/
theorem C36_radix_full_fails :
    holdsOn (run init [.t .new, .t (.ins [97] 1), .t (.ins [98] 2), .t (.del [97]), .t .min]) = false := by
  decide

end Influx.Props.C36
