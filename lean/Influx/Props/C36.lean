/-
  Props.C36 — index and ID-set data structures behave like their abstract models.
-/
import Influx.Lemmas.C36BloomSim
import Influx.Lemmas.C36IDSetSim
import Influx.Lemmas.C36RHHSim

namespace Influx.Props.C36
open Influx.C36 Influx.Spec.C36

/-! ## Robin-hood hash map (pkg/rhh), for an ARBITRARY hash function `hf`

`RHH.WF hf s` is the robin-hood invariant of a slot array: every element away from its home
slot has an occupied predecessor at most one step richer, keys are unique, stored hashes are
`hf key`.  `RHH.Map.Inv` adds `n = number of occupied slots` and `loadFactor ≤ 100`. -/

/-- **The probe-sequence invariant**: between the home slot of a stored element and its slot,
    every slot is occupied by an element at least as far from its own home — no empty slot and
    no richer element is crossed. -/
theorem rhh_probe_sequence (hf : Key → Nat) (s : RHH.Slots) (hw : RHH.WF hf s) (p : Nat) (e : RHH.Entry)
    (hp : RHH.At s p e) (n q : Nat) (hq : q < s.length)
    (hd : RHH.dist e.hash q s.length + n = RHH.dist e.hash p s.length) :
    ∃ e', RHH.At s q e' ∧ RHH.dist e.hash q s.length ≤ RHH.dist e'.hash q s.length :=
  hw.path hp n q hq hd

/-- **Get refines the abstract map** `Key → Option Val`: `Get(k)` returns `v` iff the entry
    `(k, v)` is stored. -/
theorem rhh_get (hf : Key → Nat) (m : RHH.Map) (h : m.Inv hf) (k : Key) (v : Int) :
    m.get (hf k) k = some v ↔ ∃ e, RHH.Mem m.slots e ∧ e.key = k ∧ e.val = v :=
  RHH.Map.get_spec h k v

/-- **Put is a map update** (insert with displacement, growing at the load factor): it
    re-establishes the invariant, afterwards `Get k = v`, every other key reads as before, and
    `Len` grows exactly when the key was new. -/
theorem rhh_put (hf : Key → Nat) (m m' : RHH.Map) (h : m.Inv hf) (k : Key) (v : Int)
    (hp : m.put (hf k) k v = some m') :
    m'.Inv hf ∧ m'.get (hf k) k = some v ∧
      (∀ k', k' ≠ k → m'.get (hf k') k' = m.get (hf k') k') ∧
      ((∃ e, RHH.Mem m.slots e ∧ e.key = k) → m'.n = m.n) ∧
      ((∀ e, RHH.Mem m.slots e → e.key ≠ k) → m'.n = m.n + 1) := by
  obtain ⟨hI', hmem, hn1, hn2⟩ := RHH.Map.put_spec h k v hp
  refine ⟨hI', ?_, ?_, hn1, hn2⟩
  · exact (RHH.Map.get_spec hI' k v).mpr ⟨⟨hf k, k, v⟩, (hmem _).mpr (Or.inr rfl), rfl, rfl⟩
  · intro k' hk'
    cases hg : m.get (hf k') k' with
    | none =>
      apply (RHH.Map.get_none hI' k').mpr
      intro e he hke
      rcases (hmem e).mp he with ⟨he', _⟩ | rfl
      · exact (RHH.Map.get_none h k').mp hg e he' hke
      · exact hk' hke.symm
    | some v' =>
      obtain ⟨e, he, hke, hve⟩ := (RHH.Map.get_spec h k' v').mp hg
      exact (RHH.Map.get_spec hI' k' v').mpr ⟨e, (hmem e).mpr (Or.inl ⟨he, by rw [hke]; exact hk'⟩), hke, hve⟩

/-- `Put` always returns while doubling the capacity stays in range (2^61 slots). -/
theorem rhh_put_total (hf : Key → Nat) (m : RHH.Map) (h : m.Inv hf) (k : Key) (v : Int)
    (hcap : m.cap * 2 ≤ 2 ^ 61) : ∃ m', m.put (hf k) k v = some m' :=
  RHH.Map.put_total h k v hcap

/-- `Grow` keeps every entry (and `Len`). -/
theorem rhh_grow (hf : Key → Nat) (m m' : RHH.Map) (h : m.Inv hf) (sz : Nat) (hg : m.grow sz = some m') :
    m'.Inv hf ∧ (∀ k, m'.get (hf k) k = m.get (hf k) k) ∧ m'.n = m.n := by
  obtain ⟨hI', hmem, hn, _, _⟩ := RHH.Map.grow_spec h hg
  refine ⟨hI', ?_, hn⟩
  intro k
  cases hg0 : m.get (hf k) k with
  | none =>
    apply (RHH.Map.get_none hI' k).mpr
    intro e he
    exact (RHH.Map.get_none h k).mp hg0 e ((hmem e).mp he)
  | some v =>
    obtain ⟨e, he, hke, hve⟩ := (RHH.Map.get_spec h k v).mp hg0
    exact (RHH.Map.get_spec hI' k v).mpr ⟨e, (hmem e).mpr he, hke, hve⟩

/-- a fresh map satisfies the invariant and is empty -/
theorem rhh_new (hf : Key → Nat) (capacity lf : Nat) (m : RHH.Map) (h : RHH.Map.new capacity lf = some m)
    (hlf : lf ≤ 100) : m.Inv hf ∧ ∀ k, m.get (hf k) k = none := by
  obtain ⟨hI, hemp⟩ := RHH.Map.new_inv hf h hlf
  exact ⟨hI, fun k => (RHH.Map.get_none hI k).mpr (fun e he => absurd he (hemp e))⟩

/-! ## Bloom filter (pkg/bloom) -/

/-- `Insert(v)` then `Contains(v)`: true, for any pair of hashes and any `k`. -/
theorem bloom_contains_after_insert (f : Bloom.Filter) (h0 h1 : Nat) (hm : 0 < f.bits.length) :
    (f.insert h0 h1).contains h0 h1 = true := Bloom.contains_insert_self f h0 h1 hm

/-- … forever: no later insert clears a contained value (bits are monotone). -/
theorem bloom_contains_monotone (f : Bloom.Filter) (h0 h1 g0 g1 : Nat) (h : f.contains h0 h1 = true) :
    (f.insert g0 g1).contains h0 h1 = true := Bloom.contains_insert_mono f h0 h1 g0 g1 h

/-- `Merge` keeps what either side contained. -/
theorem bloom_merge_contains (f o f' : Bloom.Filter) (h : f.merge o = .ok f') (h0 h1 : Nat)
    (hc : f.contains h0 h1 = true ∨ o.contains h0 h1 = true) : f'.contains h0 h1 = true :=
  hc.elim (Bloom.contains_merge_left h h0 h1) (Bloom.contains_merge_right h h0 h1)

/-! ## SeriesIDSet (tsdb/series_set.go) over an abstract roaring bitmap -/

/-- the wrapper keeps the canonical (ascending, duplicate-free) representation -/
theorem idset_add_sorted (s : IDSet.Set) (id : Nat) (h : IDSet.Sorted s) : IDSet.Sorted (IDSet.add s id) :=
  IDSet.ins_sorted _ _ h

theorem idset_mem_add (s : IDSet.Set) (id y : Nat) :
    y ∈ IDSet.add s id ↔ y = id % 2 ^ 32 ∨ y ∈ s := IDSet.mem_ins _ _ _

theorem idset_mem_union (a b : IDSet.Set) (y : Nat) : y ∈ IDSet.union a b ↔ y ∈ a ∨ y ∈ b :=
  IDSet.mem_union a b y

theorem idset_mem_and (a b : IDSet.Set) (y : Nat) : y ∈ IDSet.and a b ↔ y ∈ a ∧ y ∈ b := by
  simp [IDSet.and, List.mem_filter]

theorem idset_mem_andNot (a b : IDSet.Set) (y : Nat) : y ∈ IDSet.andNot a b ↔ y ∈ a ∧ y ∉ b := by
  simp [IDSet.andNot, List.mem_filter]

theorem idset_mem_remove (s : IDSet.Set) (id y : Nat) :
    y ∈ IDSet.remove s id ↔ y ∈ s ∧ y ≠ id % 2 ^ 32 := by
  simp only [IDSet.remove, IDSet.norm, List.mem_filter, ne_eq]
  constructor
  · rintro ⟨h1, h2⟩; exact ⟨h1, of_decide_eq_true h2⟩
  · rintro ⟨h1, h2⟩; exact ⟨h1, decide_eq_true h2⟩

/-- two canonical sets with the same members are the same list, so `Equals` is set equality -/
theorem idset_equals_iff (a b : IDSet.Set) (ha : IDSet.Sorted a) (hb : IDSet.Sorted b) :
    IDSet.equals a b = true ↔ ∀ y, y ∈ a ↔ y ∈ b := by
  simp only [IDSet.equals, beq_iff_eq]
  constructor
  · rintro rfl y; rfl
  · exact IDSet.sorted_ext a b ha hb

/-- `marshal ∘ unmarshal = id`, given roaring's: for ANY codec of the bitmap that round-trips,
    writing a set and reading it into a fresh set yields an equal set (the wrapper adds nothing
    to the bytes: `WriteTo`/`UnmarshalBinary` delegate to the bitmap). -/
theorem idset_roundtrip {Bytes : Type} (enc : IDSet.Set → Bytes) (dec : Bytes → Option IDSet.Set)
    (hcodec : ∀ s, dec (enc s) = some s) (s : IDSet.Set) :
    (dec (enc s)).map (IDSet.equals s) = some true := by
  simp [hcodec, IDSet.equals]

/-- The uint32 truncation is real: in the model (as in the code) adding 2^32+5 makes 5 a member. -/
theorem idset_truncation_witness : IDSet.contains (IDSet.add [] (2 ^ 32 + 5)) 5 = true := by decide

/-! ## The statement on the model's own traces -/

/-- the part of the op language whose refinement proof is complete so far -/
def Supported : Op → Prop
  | .r _ => True
  | .b _ => True
  | .s _ => True
  | _ => False

/-- well-formed op: its hashes are those of its key (`hf` for the hash map, `bh` for the bloom
    filter); load factors are at most 100; ids fit 32 bits -/
def WF (hf : Key → Nat) (bh : Key → Nat × Nat) : Op → Prop
  | .r o => ROp.WF hf o
  | .b o => BOp.WF bh o
  | .s o => SOp.WF o
  | _ => True

structure R (hf : Key → Nat) (bh : Key → Nat × Nat) (st : State) (sp : SpecState) : Prop where
  r : RR hf st.map sp.rmap
  b : RB bh st.bf sp.bloom
  s : RS st.sets sp.s

theorem R_init (hf bh) : R hf bh init {} := ⟨trivial, RB_init bh, RS_init⟩

theorem step_sim (hf bh) (st sp) (op : Op) (hR : R hf bh st sp) (hs : Supported op) (hwf : WF hf bh op)
    (hns : ¬ Obs.stuck (step st op).2) :
    (check sp op (step st op).2).2 = none ∧ R hf bh (step st op).1 (check sp op (step st op).2).1 := by
  cases op with
  | t o => cases hs
  | r o =>
    have := stepR_sim hf st.map sp.rmap o hR.r hwf hns
    simp only [step, check]
    exact ⟨this.1, ⟨this.2, hR.b, hR.s⟩⟩
  | b o =>
    have := stepB_sim bh st.bf sp.bloom o hR.b hwf
    simp only [step, check]
    exact ⟨this.1, ⟨hR.r, this.2, hR.s⟩⟩
  | s o =>
    have := stepS_sim st.sets sp.s o hR.s hwf
    simp only [step, check]
    exact ⟨this.1, ⟨hR.r, hR.b, this.2⟩⟩

theorem firstFailure_run (hf bh) (ops : List Op) : ∀ (st sp), R hf bh st sp →
    (∀ op ∈ ops, Supported op ∧ WF hf bh op) → (∀ x ∈ run st ops, ¬ Obs.stuck x.2) →
    firstFailure sp (run st ops) = none := by
  induction ops with
  | nil => intros; rfl
  | cons op ops ih =>
    intro st sp hR hall hns
    have h1 := hall op (by simp)
    have hns1 : ¬ Obs.stuck (step st op).2 := hns (op, (step st op).2) (by simp [run])
    have := step_sim hf bh st sp op hR h1.1 h1.2 hns1
    simp only [run, firstFailure]
    cases hc : check sp op (step st op).2 with
    | mk sp' c =>
      rw [hc] at this
      simp only at this
      obtain ⟨hnone, hR'⟩ := this
      subst hnone
      exact ih _ _ hR' (fun o ho => hall o (by simp [ho])) (fun x hx => hns x (by simp [run, hx]))

/-- **C36 on the model (partial)**: for EVERY hash function `hf` of the hash map and every
    pair of hash functions `bh` of the bloom filter, the statement checker accepts every trace
    the model produces on well-formed ops.
    PARTIAL: (1) restricted to the `Supported` ops (hash map, bloom filter, id sets so far);
    (2) `WF`: ids below 2^32 (known finding: uint32 truncation), load factor ≤ 100;
    (3) no model answer is `hang`/`panic` — by `rhh_put_total` that can only happen beyond a
    capacity of 2^60 slots. -/
theorem C36_holdsOn_partial (hf : Key → Nat) (bh : Key → Nat × Nat) (ops : List Op)
    (h : ∀ op ∈ ops, Supported op ∧ WF hf bh op) (hns : ∀ x ∈ run init ops, ¬ Obs.stuck x.2) :
    holdsOn (run init ops) = true := by
  simp [holdsOn, firstFailure_run hf bh ops init {} (R_init hf bh) h hns]

-- the hypotheses are met by non-trivial op sequences
example : ∀ op ∈ [Op.r (.new 4 90), .r (.put [1] 5 7), .r (.get [1] 5), .b (.new 0 64 3), .b (.ins 0 [1, 2] 7 9),
    .b (.has 0 [1, 2] 7 9), .s (.add 1 5), .s (.slice 1)],
    Supported op ∧ WF (fun _ => 5) (fun _ => (7, 9)) op := by
  intro op h; simp at h
  rcases h with rfl | rfl | rfl | rfl | rfl | rfl | rfl | rfl <;> simp [Supported, WF, ROp.WF, BOp.WF, SOp.WF]

/-! ## Where the full statement fails (both reproduced on the real code by the check) -/

/-- ids are kept modulo 2^32: after `Add(2^32+5)`, `Contains(5)` is true (known finding
    `idset-id-truncated-to-32-bits`) -/
theorem C36_idset_full_fails :
    holdsOn (run init [.s (.add 0 (2 ^ 32 + 5)), .s (.has 0 5)]) = false := by decide

/-- `DeletePrefix` leaves an empty node behind and `Minimum` walks into it: the tree still
    holds "b" but reports no minimum (known finding `radix-minmax-after-deleteprefix`) -/
theorem C36_radix_full_fails :
    holdsOn (run init [.t .new, .t (.ins [97] 1), .t (.ins [98] 2), .t (.del [97]), .t .min]) = false := by
  decide

end Influx.Props.C36
