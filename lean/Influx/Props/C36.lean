/-
  Props.C36 — index and ID-set data structures behave like their abstract models.
-/
import Influx.Lemmas.C36BloomSim
import Influx.Lemmas.C36IDSetSim

namespace Influx.Props.C36
open Influx.C36 Influx.Spec.C36

/-! ## Bloom filter (pkg/bloom) -/

/-- `Insert(v)` then `Contains(v)`: true, for any pair of hashes and any `k`. -/
theorem bloom_contains_after_insert (f : Bloom.Filter) (h0 h1 : Nat) (hm : 0 < f.bits.length) :
    (f.insert h0 h1).contains h0 h1 = true := Bloom.contains_insert_self f h0 h1 hm

/-- … forever: no later insert clears a contained value (bits are monotone). -/
theorem bloom_contains_monotone (f : Bloom.Filter) (h0 h1 g0 g1 : Nat) (h : f.contains h0 h1 = true) :
    (f.insert g0 g1).contains h0 h1 = true := Bloom.contains_insert_mono f h0 h1 g0 g1 h

/-- `Merge` keeps what either side contained. -/
theorem bloom_merge_contains (f o f' : Bloom.Filter) (h : f.merge o = .ok f') (h0 h1 : Nat)
    (hc : f.contains h0 h1 = true ∨ o.contains h0 h1 = true) : f'.contains h0 h1 = true :=
  hc.elim (Bloom.contains_merge_left h h0 h1) (Bloom.contains_merge_right h h0 h1)

/-! ## SeriesIDSet (tsdb/series_set.go) over an abstract roaring bitmap -/

/-- the wrapper keeps the canonical (ascending, duplicate-free) representation -/
theorem idset_add_sorted (s : IDSet.Set) (id : Nat) (h : IDSet.Sorted s) : IDSet.Sorted (IDSet.add s id) :=
  IDSet.ins_sorted _ _ h

theorem idset_mem_add (s : IDSet.Set) (id y : Nat) :
    y ∈ IDSet.add s id ↔ y = id % 2 ^ 32 ∨ y ∈ s := IDSet.mem_ins _ _ _

theorem idset_mem_union (a b : IDSet.Set) (y : Nat) : y ∈ IDSet.union a b ↔ y ∈ a ∨ y ∈ b :=
  IDSet.mem_union a b y

theorem idset_mem_and (a b : IDSet.Set) (y : Nat) : y ∈ IDSet.and a b ↔ y ∈ a ∧ y ∈ b := by
  simp [IDSet.and, List.mem_filter]

theorem idset_mem_andNot (a b : IDSet.Set) (y : Nat) : y ∈ IDSet.andNot a b ↔ y ∈ a ∧ y ∉ b := by
  simp [IDSet.andNot, List.mem_filter]

theorem idset_mem_remove (s : IDSet.Set) (id y : Nat) :
    y ∈ IDSet.remove s id ↔ y ∈ s ∧ y ≠ id % 2 ^ 32 := by
  simp only [IDSet.remove, IDSet.norm, List.mem_filter, ne_eq]
  constructor
  · rintro ⟨h1, h2⟩; exact ⟨h1, of_decide_eq_true h2⟩
  · rintro ⟨h1, h2⟩; exact ⟨h1, decide_eq_true h2⟩

/-- two canonical sets with the same members are the same list, so `Equals` is set equality -/
theorem idset_equals_iff (a b : IDSet.Set) (ha : IDSet.Sorted a) (hb : IDSet.Sorted b) :
    IDSet.equals a b = true ↔ ∀ y, y ∈ a ↔ y ∈ b := by
  simp only [IDSet.equals, beq_iff_eq]
  constructor
  · rintro rfl y; rfl
  · exact IDSet.sorted_ext a b ha hb

/-- `marshal ∘ unmarshal = id`, given roaring's: for ANY codec of the bitmap that round-trips,
    writing a set and reading it into a fresh set yields an equal set (the wrapper adds nothing
    to the bytes: `WriteTo`/`UnmarshalBinary` delegate to the bitmap). -/
theorem idset_roundtrip {Bytes : Type} (enc : IDSet.Set → Bytes) (dec : Bytes → Option IDSet.Set)
    (hcodec : ∀ s, dec (enc s) = some s) (s : IDSet.Set) :
    (dec (enc s)).map (IDSet.equals s) = some true := by
  simp [hcodec, IDSet.equals]

/-- The uint32 truncation is real: in the model (as in the code) adding 2^32+5 makes 5 a member. -/
theorem idset_truncation_witness : IDSet.contains (IDSet.add [] (2 ^ 32 + 5)) 5 = true := by decide

/-! ## The statement on the model's own traces -/

/-- the part of the op language whose refinement proof is complete so far -/
def Supported : Op → Prop
  | .b _ => True
  | .s _ => True
  | _ => False

/-- well-formed op: its hashes are those of its key; ids fit 32 bits -/
def WF (bh : Key → Nat × Nat) : Op → Prop
  | .b o => BOp.WF bh o
  | .s o => SOp.WF o
  | _ => True

structure R (bh : Key → Nat × Nat) (st : State) (sp : SpecState) : Prop where
  b : RB bh st.bf sp.bloom
  s : RS st.sets sp.s

theorem R_init (bh) : R bh init {} := ⟨RB_init bh, RS_init⟩

theorem step_sim (bh) (st sp) (op : Op) (hR : R bh st sp) (hs : Supported op) (hwf : WF bh op) :
    (check sp op (step st op).2).2 = none ∧ R bh (step st op).1 (check sp op (step st op).2).1 := by
  cases op with
  | r o => cases hs
  | t o => cases hs
  | b o =>
    have := stepB_sim bh st.bf sp.bloom o hR.b hwf
    simp only [step, check]
    exact ⟨this.1, ⟨this.2, hR.s⟩⟩
  | s o =>
    have := stepS_sim st.sets sp.s o hR.s hwf
    simp only [step, check]
    exact ⟨this.1, ⟨hR.b, this.2⟩⟩

theorem firstFailure_run (bh) (ops : List Op) : ∀ (st sp), R bh st sp →
    (∀ op ∈ ops, Supported op ∧ WF bh op) → firstFailure sp (run st ops) = none := by
  induction ops with
  | nil => intros; rfl
  | cons op ops ih =>
    intro st sp hR hall
    have h1 := hall op (by simp)
    have := step_sim bh st sp op hR h1.1 h1.2
    simp only [run, firstFailure]
    cases hc : check sp op (step st op).2 with
    | mk sp' c =>
      rw [hc] at this
      simp only at this
      obtain ⟨hnone, hR'⟩ := this
      subst hnone
      exact ih _ _ hR' (fun o ho => hall o (by simp [ho]))

/-- **C36 on the model (partial)**: for every pair of bloom hash functions `bh`, the statement
    checker accepts every trace the model produces on well-formed ops.
    PARTIAL: restricted to the `Supported` ops (bloom + id sets so far). -/
theorem C36_holdsOn_partial (bh : Key → Nat × Nat) (ops : List Op)
    (h : ∀ op ∈ ops, Supported op ∧ WF bh op) : holdsOn (run init ops) = true := by
  simp [holdsOn, firstFailure_run bh ops init {} (R_init bh) h]

-- the hypothesis is met by non-trivial op sequences
example : ∀ op ∈ [Op.b (.new 0 64 3), .b (.ins 0 [1, 2] 7 9), .b (.has 0 [1, 2] 7 9), .s (.add 1 5), .s (.slice 1)],
    Supported op ∧ WF (fun _ => (7, 9)) op := by
  intro op h; simp at h; rcases h with rfl | rfl | rfl | rfl | rfl <;> simp [Supported, WF, BOp.WF, SOp.WF]

end Influx.Props.C36
