import Influx.Model.C36
import Influx.Spec.C36

namespace Influx.Props.C36

end Influx.Props.C36
