/-
  Props.C26 — durable queue: in order, at least once, across crashes.

  Model: Influx.Model.DurableQueue (byte-level segment files, open/repair,
  append, advance, scanner, multi-segment queue, torn writes).
  Statement checker: Influx.Spec.C26.holdsOn.
-/
import Influx.Model.DurableQueueStep
import Influx.Spec.C26
import Influx.Lemmas.DurableQueueCrash

namespace Influx.Props.C26
open Influx.DQ Influx.Spec.C26

/-- F10: one 8-byte record, an append of a 16-byte record torn after the 8-byte
    length field: the length (16) is read as the head position = end of data, the
    unconsumed record is skipped (`Current()` = EOF). -/
def f10 : List Op :=
  [.openQ 100000 1024, .append [1,2,3,4,5,6,7,8],
   .crashAppend [11,12,13,14,15,16,17,18,19,20,21,22,23,24,25,26] 8, .cur]

/-- The full statement (every history, every cut) is FALSE of the code: witness F10. -/
theorem C26_full_fails : ¬ (∀ ops : List Op, holdsOn (trace init ops) = true) := by
  intro h
  have := h f10
  revert this
  decide

/-- **Crash inside an append, every cut** (segment level, unbounded): if the torn
    file does not end in 8 bytes that pass for a head position
    (`TornObs.footerLike`, the F10 condition), `newSegment` recovers a well-formed
    segment holding exactly the old records (head unchanged, or reset to the start
    = replay) or the old records plus the new one. -/
theorem C26_torn_append (mx : Nat) {s s' : Seg} {done rest : List Bytes} (h : SegWF s done rest)
    (b : Bytes) (happ : s.append b = .ok s') (hsmall : s.size + b.length + 8 < 2^63) (k : Nat)
    (hnf : (tornObs s.file s'.file (tornWrite s.file s'.file k)).footerLike = false) :
    ∃ t, newSeg verifyAll mx (tornWrite s.file s'.file k) = some t ∧ Recovered t done rest [b] :=
  torn_append_recovers mx h b happ hsmall k hnf

/-- **Crash inside an advance (footer rewrite), every cut** (segment level). -/
theorem C26_torn_advance (mx : Nat) {s : Seg} {done : List Bytes} {r : Bytes} {rs : List Bytes}
    (h : SegWF s done (r :: rs)) (k : Nat)
    (hnf : (tornObs s.file s.advance.1.file (tornWrite s.file s.advance.1.file k)).footerLike = false) :
    ∃ t, newSeg verifyAll mx (tornWrite s.file s.advance.1.file k) = some t ∧ RecoveredAdv t done r rs :=
  torn_advance_recovers mx h k hnf

/-- No-crash segment FIFO: `current` returns the first unconsumed record, `advance`
    moves past exactly it, `append` adds at the end, a clean reopen changes nothing. -/
theorem C26_segment_fifo {s : Seg} {done : List Bytes} {r : Bytes} {rs : List Bytes}
    (h : SegWF s done (r :: rs)) :
    s.current = .ok r ∧ SegWF s.advance.1 (done ++ [r]) rs ∧
    (∀ mx, newSeg verifyAll mx s.file = some ⟨s.file, s.pos, max mx s.file.length⟩) :=
  ⟨current_wf_cons h, (advance_wf_cons h).1, fun mx => newSeg_wf mx h⟩

end Influx.Props.C26
