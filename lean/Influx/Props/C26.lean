/-
  Props.C26 — durable queue: in order, at least once, across crashes.

  Model: Influx.Model.DurableQueue (byte-level segment files, open/repair,
  append, advance, scanner, multi-segment queue, torn writes).
  Statement checker: Influx.Spec.C26.holdsOn.
-/
import Influx.Lemmas.DurableQueueSim
import Influx.Generated.DurableQueue

namespace Influx.Props.C26
open Influx.DQ Influx.Spec.C26

/-- F10: one 8-byte record, an append of a 16-byte record torn after the 8-byte
    length field: the length (16) is read as the head position = end of data, the
    unconsumed record is skipped (`Current()` = EOF). -/
def f10 : List Op :=
  [.openQ 100000 1024, .append [1,2,3,4,5,6,7,8],
   .crashAppend [11,12,13,14,15,16,17,18,19,20,21,22,23,24,25,26] 8, .cur]

/-- The full statement (every history, every cut) is FALSE of the code: witness F10
    (a valid, small history; only `GoodRun` — "no footer-like tear" — fails for it). -/
theorem C26_full_fails :
    ¬ (∀ ops : List Op, (∀ op ∈ ops, ValidOp op) → cost ops + 8 < 2^63 → holdsOn (trace init ops) = true) := by
  intro h
  have := h f10 (by intro op hop; simp [f10] at hop; rcases hop with rfl | rfl | rfl | rfl <;> simp [ValidOp])
    (by decide)
  revert this
  decide

/-- Second way the full statement fails: a crash 3 bytes into the footer of the NEW
    segment file of a rollover leaves a file `Queue.Open` cannot open at all
    (known finding `torn-new-segment-unopenable`). -/
def newSegTorn : List Op :=
  [.openQ 1000 24, .append [161,1,170,170,170,170,170,170,170,170], .append [162,2,187,187,187,187,187,187,187,187],
   .crashSeg [163,3] 3, .cur]

theorem C26_newseg_fails : holdsOn (trace init newSegTorn) = false := by decide

/-- **C26 for the model, every history with crashes at every cut** (unbounded):
    append / current / advance / scanner pass / clean reopen / crash inside an
    append, inside an advance or inside the creation of a new segment file, at ANY
    byte of the write, over any number of segments — the statement checker accepts the model's trace (entries come back
    in append order, nothing unconsumed is lost by a reopen or crash, nothing that
    was not appended is delivered, a rejected append changes nothing), provided
    * `ValidOp`: segment size ≥ 8, appended entries non-empty,
    * fewer than 2^63 bytes are appended in total,
    * `GoodRun`: no crash leaves a torn file whose last 8 bytes pass for a head
      position (`TornObs.footerLike`), nor a new segment file of 1..7 bytes — exactly
      the negation of the known findings `torn-append-footer-misread` /
      `torn-advance-footer-misread` (F10) / `torn-new-segment-unopenable`. -/
theorem C26_holdsOn_partial (ops : List Op) (hv : ∀ op ∈ ops, ValidOp op)
    (hsmall : cost ops + 8 < 2^63) (hg : GoodRun init ops) :
    holdsOn (trace init ops) = true := by
  obtain ⟨B', s', hrel⟩ := sim_trace ops (cost ops) init none (by simp [init, Rel]) hv hg (Nat.le_refl _) (by omega)
  unfold holdsOn run
  cases hfin : List.foldl sstep none (trace init ops) with
  | none => rfl
  | some ws =>
    rw [hfin] at hrel
    cases s' with
    | none => exact absurd hrel (by simp [Rel])
    | some q =>
      obtain ⟨w, hw, _⟩ := hrel
      cases ws with
      | nil => cases hw
      | cons _ _ => rfl

/-- the hypotheses are met by a non-trivial history: two appends, a crash 3 bytes
    into the next append (repaired), deliveries, a crash 4 bytes into an advance -/
example : let ops : List Op := [.openQ 100000 1024, .append [1,2,3], .append [9],
      .crashAppend [4,5,6,7] 11, .cur, .adv, .crashAdv 4, .cur, .scan 2, .reopen, .cur]
    (∀ op ∈ ops, ValidOp op) ∧ cost ops + 8 < 2^63 ∧ GoodRun init ops := by
  refine ⟨?_, by decide, goodRun_of_B _ _ (by decide)⟩
  intro op hop
  exact validOp_of_B op (by revert op; decide)

/-- **No-crash FIFO refinement** (full for crash-free histories): without crash
    operations no `GoodRun` hypothesis is needed. -/
theorem C26_fifo_nocrash (ops : List Op) (hv : ∀ op ∈ ops, ValidOp op) (hsmall : cost ops + 8 < 2^63)
    (hnc : noCrash ops = true) : holdsOn (trace init ops) = true :=
  C26_holdsOn_partial ops hv hsmall (goodRun_of_noCrash ops init hnc)

/-- **Crash inside an append, every cut** (segment level, unbounded): if the torn
    file does not end in 8 bytes that pass for a head position
    (`TornObs.footerLike`, the F10 condition), `newSegment` recovers a well-formed
    segment holding exactly the old records (head unchanged, or reset to the start
    = replay) or the old records plus the new one. -/
theorem C26_torn_append (mx : Nat) {s s' : Seg} {done rest : List Bytes} (h : SegWF s done rest)
    (b : Bytes) (happ : s.append b = .ok s') (hsmall : s.size + b.length + 8 < 2^63) (k : Nat)
    (hnf : (tornObs s.file s'.file (tornWrite s.file s'.file k)).footerLike = false) :
    ∃ t, newSeg verifyAll mx (tornWrite s.file s'.file k) = some t ∧ Recovered t done rest [b] :=
  torn_append_recovers mx h b happ hsmall k hnf

/-- **Crash inside an advance (footer rewrite), every cut** (segment level). -/
theorem C26_torn_advance (mx : Nat) {s : Seg} {done : List Bytes} {r : Bytes} {rs : List Bytes}
    (h : SegWF s done (r :: rs)) (k : Nat)
    (hnf : (tornObs s.file s.advance.1.file (tornWrite s.file s.advance.1.file k)).footerLike = false) :
    ∃ t, newSeg verifyAll mx (tornWrite s.file s.advance.1.file k) = some t ∧ RecoveredAdv t done r rs :=
  torn_advance_recovers mx h k hnf

/-- No-crash segment FIFO: `current` returns the first unconsumed record, `advance`
    moves past exactly it, a clean reopen changes nothing. -/
theorem C26_segment_fifo {s : Seg} {done : List Bytes} {r : Bytes} {rs : List Bytes}
    (h : SegWF s done (r :: rs)) :
    s.current = .ok r ∧ SegWF s.advance.1 (done ++ [r]) rs ∧
    (∀ mx, newSeg verifyAll mx s.file = some ⟨s.file, s.pos, max mx s.file.length⟩) :=
  ⟨current_wf_cons h, (advance_wf_cons h).1, fun mx => newSeg_wf mx h⟩

/-- the footer size the model hard-wires (8 bytes: `rd64`/`be64`, `size - 8`) is the
    code's `footerSize` (regenerated from queue.go on every run) -/
theorem C26_footer_const : Influx.Generated.DurableQueue.footerSize = (be64 0).length := rfl

end Influx.Props.C26
