/-
  Props.C26 — durable queue: in order, at least once, across crashes.
  (work in progress: witness of the format-level failure; the refinement and
  crash theorems follow)
-/
import Influx.Model.DurableQueueStep
import Influx.Spec.C26

namespace Influx.Props.C26
open Influx.DQ Influx.Spec.C26

/-- F10: one 8-byte record, an append of a 16-byte record torn after the 8-byte
    length field: the length (16) is read as the head position = end of data, the
    unconsumed record is skipped (`Current()` = EOF). -/
def f10 : List Op :=
  [.openQ 100000 1024, .append [1,2,3,4,5,6,7,8],
   .crashAppend [11,12,13,14,15,16,17,18,19,20,21,22,23,24,25,26] 8, .cur]

theorem C26_full_fails : ¬ (∀ ops : List Op, holdsOn (trace init ops) = true) := by
  intro h
  have := h f10
  revert this
  decide

end Influx.Props.C26
