/-
  Props.C32 — The write API stores all of a batch or reports why not.

  All theorems are about `Influx.WriteAPI.handle false` — the model of
  WriteHandler.handleWrite with the repaired LimitedReadCloser (see
  Model/WriteAPI.lean) — for every parser, every request description, every
  chunking script of the body reader and every buffer-size script of io.ReadAll.
-/
import Influx.Lemmas.WriteAPI
import Influx.Spec.C32

namespace Influx.Props.C32
open Influx.WriteAPI Influx.Spec.C32

/-- the request gets as far as reading its body -/
def reaches (r : Req) : Prop := gate r = none

theorem handle_reaches (P : Parser Nat Nat) (r : Req) (bufs : List Nat) (h : reaches r) :
    handle false P r bufs = finish P r.writer (readAllResult r.src r.limit) := by
  unfold handle
  rw [h, readAll_spec]

/-- a request that does not get as far as its body is answered by an error and stores nothing -/
theorem handle_not_reaches (P : Parser Nat Nat) (r : Req) (bufs : List Nat) (h : ¬ reaches r) :
    ∃ c, handle false P r bufs = errResp c := by
  unfold handle
  unfold reaches at h
  cases hg : gate r with
  | none => exact absurd hg h
  | some c => exact ⟨c, rfl⟩

@[simp] theorem finish_error (P : Parser Nat Nat) (w e) : finish P w (.error e) = errResp (readErrCode e) := rfl
@[simp] theorem finish_ok (P : Parser Nat Nat) (w d) : finish P w (.ok d) = afterRead P w d := rfl

/-- the decoded body is larger than the configured limit -/
def tooLarge (r : Req) : Prop := 0 < r.limit ∧ r.limit < (r.src.data.length : Int)

theorem tooLarge_iff (r : Req) : tooLarge r ↔ (0 < r.limit ∧ r.limit.toNat < r.src.data.length) := by
  unfold tooLarge; omega

theorem errResp_status_ne_204 (c : Code) : (errResp c : Resp Nat Nat).status ≠ 204 := by
  cases c <;> simp [errResp, Code.status]


theorem readAllResult_cases (s : Src) (limit : Int)
    (hl : ¬(0 < limit ∧ limit.toNat < s.data.length)) :
    (∃ e, readAllResult s limit = .error e ∧ e ≠ .tooLarge) ∨ readAllResult s limit = .ok s.data := by
  unfold readAllResult
  rw [if_neg hl]
  by_cases h1 : s.term ≠ .eof
  · rw [if_pos h1]; left; exact ⟨_, rfl, by simp⟩
  · rw [if_neg h1]
    by_cases h2 : s.closeErr = true
    · rw [if_pos h2]; left; exact ⟨_, rfl, by simp⟩
    · rw [if_neg h2]; right; rfl

theorem readErrCode_status (e : ReadErr) (h : e ≠ .tooLarge) :
    (readErrCode e).status = 400 ∨ (readErrCode e).status = 500 := by
  cases e with
  | tooLarge => exact absurd rfl h
  | rd e => cases e <;> simp [readErrCode, Code.status]
  | cl e => cases e <;> simp [readErrCode, Code.status]

theorem afterRead_bad (P : Parser Nat Nat) (w : WriterRes) (data : List Nat) (h : P.bad data ≠ []) :
    afterRead P w data = { (errResp .invalid : Resp Nat Nat) with named := P.bad data } := by
  unfold afterRead
  have : (P.bad data).isEmpty = false := by cases hh : P.bad data <;> simp_all
  simp [this]

theorem afterRead_good (P : Parser Nat Nat) (w : WriterRes) (data : List Nat) (h : P.bad data = []) :
    afterRead P w data =
      match w with
      | .ok => { status := 204, writes := [P.points data] }
      | .partialWrite k => { (errResp .unprocessable : Resp Nat Nat) with dropped := some k, writes := [P.points data] }
      | .fail => { (errResp .internal : Resp Nat Nat) with writes := [P.points data] } := by
  unfold afterRead
  simp only [h, List.isEmpty_nil, Bool.not_true, Bool.false_eq_true, ↓reduceIte]
  cases w <;> rfl

/-- **413 clause.** A request that reaches its body and whose decoded body is larger
    than the limit is answered 413 and nothing is handed to the points writer —
    whatever the chunking of the reader, and even if the stream is corrupt further on. -/
theorem C32_too_large (P : Parser Nat Nat) (r : Req) (bufs : List Nat)
    (hr : reaches r) (hl : tooLarge r) :
    (handle false P r bufs).status = 413 ∧ (handle false P r bufs).writes = [] ∧
    (handle false P r bufs).code = some .tooLarge := by
  rw [handle_reaches P r bufs hr]
  have : readAllResult r.src r.limit = .error .tooLarge := by
    unfold readAllResult; rw [if_pos ((tooLarge_iff r).1 hl)]
  rw [this, finish_error]
  exact ⟨rfl, rfl, rfl⟩

/-- **≤ limit clause** (F13, after the repair): a request that reaches its body
    and whose decoded body is at or under the limit is never answered 413. -/
theorem C32_within_limit (P : Parser Nat Nat) (r : Req) (bufs : List Nat)
    (hr : reaches r) (hl : ¬ tooLarge r) :
    (handle false P r bufs).status ≠ 413 := by
  rw [handle_reaches P r bufs hr]
  rcases readAllResult_cases r.src r.limit (fun h => hl ((tooLarge_iff r).2 h)) with ⟨e, he, hne⟩ | hok
  · rw [he, finish_error]
    rcases readErrCode_status e hne with h | h <;> simp [errResp, h]
  · rw [hok, finish_ok]
    by_cases hb : P.bad r.src.data = []
    · rw [afterRead_good P _ _ hb]; cases r.writer <;> simp [errResp, Code.status]
    · rw [afterRead_bad P _ _ hb]; simp [errResp, Code.status]

/-- the body can be read to its end and closed without an I/O error -/
def cleanBody (r : Req) : Prop := r.src.term = .eof ∧ r.src.closeErr = false

theorem handle_clean (P : Parser Nat Nat) (r : Req) (bufs : List Nat)
    (hr : reaches r) (hc : cleanBody r) (hl : ¬ tooLarge r) :
    handle false P r bufs = afterRead P r.writer r.src.data := by
  rw [handle_reaches P r bufs hr]
  unfold readAllResult
  rw [if_neg (fun h => hl ((tooLarge_iff r).2 h))]
  simp [hc.1, hc.2]

/-- **400 clause.** A readable body within the limit that contains a malformed
    line: 400, the message names exactly the malformed lines (in order), and
    nothing is handed to the points writer. -/
theorem C32_malformed (P : Parser Nat Nat) (r : Req) (bufs : List Nat)
    (hr : reaches r) (hc : cleanBody r) (hl : ¬ tooLarge r) (hb : P.bad r.src.data ≠ []) :
    (handle false P r bufs).status = 400 ∧ (handle false P r bufs).named = P.bad r.src.data ∧
    (handle false P r bufs).writes = [] := by
  rw [handle_clean P r bufs hr hc hl, afterRead_bad P _ _ hb]
  exact ⟨rfl, rfl, rfl⟩

/-- **well-formed clause.** A readable, well-formed body within the limit: the
    whole batch, in order, goes to the points writer in one call, and the answer
    is 204 / 422 stating the writer's dropped count / 500 according to the writer. -/
theorem C32_wellformed (P : Parser Nat Nat) (r : Req) (bufs : List Nat)
    (hr : reaches r) (hc : cleanBody r) (hl : ¬ tooLarge r) (hb : P.bad r.src.data = []) :
    (handle false P r bufs).writes = [P.points r.src.data] ∧
    (handle false P r bufs).named = [] ∧
    match r.writer with
    | .ok => (handle false P r bufs).status = 204
    | .partialWrite k => (handle false P r bufs).status = 422 ∧ (handle false P r bufs).dropped = some k
    | .fail => (handle false P r bufs).status = 500 := by
  rw [handle_clean P r bufs hr hc hl, afterRead_good P _ _ hb]
  cases r.writer <;> simp [errResp, Code.status]

/-- **204 clause.** Whatever the request: 204 is answered only if the body was
    within the limit, had no malformed line, and every point of the batch — in
    order — was passed to the points writer, which accepted it. -/
theorem C32_204 (P : Parser Nat Nat) (r : Req) (bufs : List Nat)
    (h : (handle false P r bufs).status = 204) :
    (handle false P r bufs).writes = [P.points r.src.data] ∧ r.writer = .ok ∧
    P.bad r.src.data = [] ∧ ¬ tooLarge r ∧ reaches r := by
  by_cases hr : reaches r
  · rw [handle_reaches P r bufs hr] at h ⊢
    by_cases hl : tooLarge r
    · have : readAllResult r.src r.limit = .error .tooLarge := by
        unfold readAllResult; rw [if_pos ((tooLarge_iff r).1 hl)]
      rw [this, finish_error] at h; exact absurd h (errResp_status_ne_204 _)
    · rcases readAllResult_cases r.src r.limit (fun h => hl ((tooLarge_iff r).2 h)) with ⟨e, he, hne⟩ | hok
      · rw [he, finish_error] at h; exact absurd h (errResp_status_ne_204 _)
      · rw [hok, finish_ok] at h ⊢
        by_cases hb : P.bad r.src.data = []
        · rw [afterRead_good P _ _ hb] at h ⊢
          cases hw : r.writer with
          | ok => exact ⟨rfl, rfl, hb, hl, hr⟩
          | partialWrite k => rw [hw] at h; exact absurd h (by simp [errResp, Code.status])
          | fail => rw [hw] at h; exact absurd h (by simp [errResp, Code.status])
        · rw [afterRead_bad P _ _ hb] at h; exact absurd h (by simp [errResp, Code.status])
  · obtain ⟨c, hc⟩ := handle_not_reaches P r bufs hr
    rw [hc] at h; exact absurd h (errResp_status_ne_204 _)

/-- **all or nothing.** The points writer is called at most once, with the whole
    batch in order, and only for a well-formed body within the limit. -/
theorem C32_all_or_nothing (P : Parser Nat Nat) (r : Req) (bufs : List Nat) :
    (handle false P r bufs).writes = [] ∨
    ((handle false P r bufs).writes = [P.points r.src.data] ∧ P.bad r.src.data = [] ∧ ¬ tooLarge r ∧ reaches r) := by
  by_cases hr : reaches r
  · rw [handle_reaches P r bufs hr]
    by_cases hl : tooLarge r
    · have : readAllResult r.src r.limit = .error .tooLarge := by
        unfold readAllResult; rw [if_pos ((tooLarge_iff r).1 hl)]
      rw [this, finish_error]; left; rfl
    · rcases readAllResult_cases r.src r.limit (fun h => hl ((tooLarge_iff r).2 h)) with ⟨e, he, hne⟩ | hok
      · rw [he, finish_error]; left; rfl
      · rw [hok, finish_ok]
        by_cases hb : P.bad r.src.data = []
        · rw [afterRead_good P _ _ hb]; right
          cases r.writer <;> exact ⟨rfl, hb, hl, hr⟩
        · rw [afterRead_bad P _ _ hb]; left; rfl
  · obtain ⟨c, hc⟩ := handle_not_reaches P r bufs hr
    rw [hc]; left; rfl

/-- The answer does not depend on how the body reader cuts the stream into
    `Read` results, on whether EOF arrives with the last bytes, or on the buffer
    sizes io.ReadAll uses — the justification for modelling gzip as an abstract decoder. -/
theorem C32_chunk_independent (P : Parser Nat Nat) (r : Req) (bufs bufs' : List Nat)
    (chunks' : List Nat) (eager' : Bool) :
    handle false P { r with src := { r.src with chunks := chunks', eager := eager' } } bufs' =
    handle false P r bufs := by
  unfold handle
  have hg : gate { r with src := { r.src with chunks := chunks', eager := eager' } } = gate r := rfl
  rw [hg]
  cases gate r with
  | some c => rfl
  | none => simp only [readAll_spec]; rfl

theorem findBucket_none_iff (r : Req) : findBucket r = none ↔ bucketFound r = true := by
  unfold findBucket bucketFound
  cases r.bucketIsID <;> cases hb : r.bucketByID <;> cases hn : r.bucketByName <;> simp
  all_goals (first | (next c => by_cases hw : c.wire = .notFound <;> simp [hw]) | (next c d => by_cases hw : c.wire = .notFound <;> simp [hw]))

theorem valid_iff_reaches (P : Parser Nat Nat) (r : Req) : (caseOf P r).valid = true ↔ reaches r := by
  unfold reaches gate caseOf
  simp only [Bool.and_eq_true, ← findBucket_none_iff]
  cases r.hasAuth <;> cases r.precisionOK <;> cases r.bucketGiven <;> cases r.gzip <;>
    cases r.gzipOpen.isSome <;> cases r.org <;> cases findBucket r <;> cases r.permitted <;> simp

theorem overLimit_iff (P : Parser Nat Nat) (r : Req) : overLimit (caseOf P r) = true ↔ tooLarge r := by
  simp [overLimit, caseOf, tooLarge]

theorem clean_iff (P : Parser Nat Nat) (r : Req) : (caseOf P r).clean = true ↔ cleanBody r := by
  simp [caseOf, cleanBody]


theorem readAllResult_ok_iff_clean (r : Req) (hl : ¬ tooLarge r) :
    (cleanBody r ∧ readAllResult r.src r.limit = .ok r.src.data) ∨
    (¬ cleanBody r ∧ ∃ e, readAllResult r.src r.limit = .error e ∧ e ≠ .tooLarge) := by
  unfold readAllResult cleanBody
  rw [if_neg (fun h => hl ((tooLarge_iff r).2 h))]
  by_cases h1 : r.src.term = .eof
  · cases h2 : r.src.closeErr
    · left; simp [h1]
    · right; simp [h1]
  · right; simp [h1]

/-- **C32** — the run-time statement checker accepts what the model answers, for
    every parser, request, chunking script and buffer script. -/
theorem C32_holdsOn (P : Parser Nat Nat) (r : Req) (bufs : List Nat) :
    holdsOn (caseOf P r) (obsOf (handle false P r bufs)) = true := by
  by_cases hr : reaches r
  · have hv : (caseOf P r).valid = true := (valid_iff_reaches P r).2 hr
    by_cases hl : tooLarge r
    · obtain ⟨h1, h2, -⟩ := C32_too_large P r bufs hr hl
      have ho : overLimit (caseOf P r) = true := (overLimit_iff P r).2 hl
      simp [holdsOn, obsOf, h1, h2, ho]
    · have ho : overLimit (caseOf P r) = false := by
        cases h : overLimit (caseOf P r)
        · rfl
        · exact absurd ((overLimit_iff P r).1 h) hl
      rcases readAllResult_ok_iff_clean r hl with ⟨hc, hok⟩ | ⟨hc, e, he, hne⟩
      · have hcl : (caseOf P r).clean = true := (clean_iff P r).2 hc
        rw [handle_reaches P r bufs hr, hok, finish_ok]
        by_cases hb : P.bad r.src.data = []
        · rw [afterRead_good P _ _ hb]
          have hb' : (caseOf P r).bad = [] := hb
          have hp : (caseOf P r).points = P.points r.src.data := rfl
          have hw : (caseOf P r).writer = r.writer := rfl
          cases hww : r.writer <;>
            simp [holdsOn, obsOf, ho, hv, hcl, hb', hp, hw, hww, errResp, Code.status]
        · rw [afterRead_bad P _ _ hb]
          have hb' : (caseOf P r).bad = P.bad r.src.data := rfl
          have hbe : (P.bad r.src.data).isEmpty = false := by
            cases h : P.bad r.src.data <;> simp_all
          simp [holdsOn, obsOf, ho, hv, hcl, hb', hbe, errResp, Code.status]
      · have hcl : (caseOf P r).clean = false := by
          cases h : (caseOf P r).clean
          · rfl
          · exact absurd ((clean_iff P r).1 h) hc
        rw [handle_reaches P r bufs hr, he, finish_error]
        rcases readErrCode_status e hne with h | h <;>
          simp [holdsOn, obsOf, ho, hv, hcl, errResp, h]
  · have hv : (caseOf P r).valid = false := by
      cases h : (caseOf P r).valid
      · rfl
      · exact absurd ((valid_iff_reaches P r).1 h) hr
    obtain ⟨c, hc⟩ := handle_not_reaches P r bufs hr
    rw [hc]
    have := errResp_status_ne_204 c
    simp [holdsOn, obsOf, hv, errResp] at this ⊢
    exact this

/-- a parser for the witness: no points, no malformed lines -/
def nullParser : Parser Nat Nat := { points := fun _ => [], bad := fun _ => [] }

/-- the witness request of F13: a 2-byte body, limit 2, every service answering OK -/
def f13Req : Req := { limit := 2, src := { data := [109, 10] } }

/-- **F13 (DESIGN §6), the code before the repair**: with
    `if l.N <= 0 { l.limitExceeded = true; return 0, io.EOF }` a body of exactly the
    limit is answered 413 — io.ReadAll's final `Read` flags the limit as exceeded. -/
theorem F13_old_code_rejects_exact_limit :
    reaches f13Req ∧ cleanBody f13Req ∧ ¬ tooLarge f13Req ∧
    (handle true nullParser f13Req []).status = 413 := by
  refine ⟨rfl, ⟨rfl, rfl⟩, by simp [tooLarge, f13Req], ?_⟩
  have h1 : Body.read true (openBody f13Req.src f13Req.limit) (bufSize []) =
      (.limited { r := { data := [] }, n := 0 }, [109, 10], none) := by rfl
  have h2 : Body.read true (.limited { r := { data := [] }, n := 0 }) (bufSize ([] : List Nat).tail) =
      (.limited { r := { data := [] }, n := 0, limitExceeded := true }, [], some .eof) := by rfl
  have h3 : ioReadAll true (openBody f13Req.src f13Req.limit) [] [] =
      (.limited { r := { data := [] }, n := 0, limitExceeded := true }, [109, 10], none) := by
    rw [ioReadAll_none h1, ioReadAll_some h2]; rfl
  unfold handle
  have hg : gate f13Req = none := rfl
  rw [hg]
  simp only [readAll, h3]
  rfl

/-- … and the repaired code accepts the same request (204). -/
theorem F13_repaired_code_accepts_exact_limit :
    (handle false nullParser f13Req []).status = 204 := by
  rw [handle_clean nullParser f13Req [] rfl ⟨rfl, rfl⟩ (by simp [tooLarge, f13Req])]
  rfl

/-- **LimitedReadCloser, any usage.**  Whatever the chunking of the wrapped reader and
    whatever buffer sizes are passed: once the (clean) stream has been read to an error
    and the reader is closed, exactly min(size, limit) bytes were delivered and Close
    reports ErrReadLimitExceeded exactly when the stream is longer than the limit —
    in particular not for a stream of exactly the limit. -/
theorem C32_lrc_holdsOn (src : Src) (limit : Int) (steps : List Step) :
    holdsOnL limit src.data.length (src.term == .eof) steps
      (((LRC.new src limit).runSteps steps).2.map obsOfRes) = true := by
  unfold holdsOnL
  by_cases h : limit < 0 ∨ src.term ≠ .eof
  · rcases h with h | h <;> simp [h]
  · have h1 : ¬ limit < 0 := fun x => h (Or.inl x)
    have h2 : src.term = .eof := by
      cases ht : src.term <;> simp_all
    simp only [h1, decide_false, h2, beq_self_eq_true, Bool.not_true, Bool.or_self, Bool.false_eq_true,
      ↓reduceIte]
    have hi : LInv limit src.data.length (LRC.new src limit) 0 false := by
      refine ⟨rfl, rfl, h2, by simp [LRC.new]; omega, by simp [LRC.new], by simp [LRC.new], ?_, by simp⟩
      intro hf; simp [LRC.new] at hf
    have := lrc_run limit src.data.length steps _ 0 false hi
    split
    · rfl
    · next n c hm =>
      rw [hm] at this
      simp only at this
      simp [this.1, this.2]

end Influx.Props.C32
