/-
  Props.C12 — The line protocol parser is total and accepts exactly well-formed lines.

  Model: Influx.Model.LineProtocolParse (`parseLines` = `ParsePointsWithPrecision`,
  written from models/points.go).  Statement: Influx.Spec.C12.holdsOn.
  Totality: every function of the model is a total Lean function (structural recursion;
  the places where Go could index out of range return `Err.panic`, see `C12_no_model_panic*`).
-/
import Influx.Lemmas.LineProtocolNoPanic

namespace Influx.Props.C12
open Influx.LP Influx.LP.Trace12 Influx.Spec.C12 Influx.Generated.LineProto

/-- every accepted point has a non-empty measurement (`Name()`) -/
theorem C12_measurement_nonempty (line : Bytes) (dt : Int) (prec : String) (p : Point)
    (h : parsePoint line dt prec = .ok p) : pointName p.key ≠ [] := by
  obtain ⟨rest, _, hk, _⟩ := parsePoint_ok_inv line dt prec p h
  obtain ⟨b, t, hkey, hb⟩ := scanKey_head _ _ _ hk
  exact pointName_ne_nil _ b t hkey hb

/-- every accepted point has at least one field (the iterator yields one) -/
theorem C12_has_field (line : Bytes) (dt : Int) (prec : String) (p : Point)
    (h : parsePoint line dt prec = .ok p) : iterFields (p.fields.length + 1) p.fields ≠ [] := by
  obtain ⟨_, _, _, _, _, _, hf, _⟩ := parsePoint_ok_inv line dt prec p h
  exact iterFields_ne_nil _ hf

/-- series key + separator + field key fit the maximum key length, for every field -/
theorem C12_key_length (line : Bytes) (dt : Int) (prec : String) (p : Point)
    (h : parsePoint line dt prec = .ok p) :
    p.key.length ≤ MaxKeyLength ∧
    ∀ f ∈ iterFields (p.fields.length + 1) p.fields, p.key.length + 4 + f.key.length ≤ MaxKeyLength := by
  obtain ⟨_, _, _, _, hl, _, _, hw, _⟩ := parsePoint_ok_inv line dt prec p h
  exact ⟨hl, fun f hf => (walkFieldsCheck_bound _ _ _ hw f hf).1⟩

/-- the timestamp is representable: inside [MinNanoTime, MaxNanoTime] (for a line without a
    timestamp: when the default time is at least an hour inside that range) -/
theorem C12_timestamp (line : Bytes) (dt : Int) (prec : String) (p : Point)
    (h : parsePoint line dt prec = .ok p) (hdt : dtSane dt = true) :
    MinNanoTime ≤ p.time ∧ p.time ≤ MaxNanoTime := by
  obtain ⟨_, rest2, _, _, _, _, _, _, ht⟩ := parsePoint_ok_inv line dt prec p h
  exact time_range rest2 dt prec p.time ht hdt

theorem candidateLines_eq (buf : Bytes) (dt : Int) (prec : String) :
    (parseLines buf dt prec).map (·.1) = candidateLines buf := by
  unfold parseLines candidateLines
  induction splitLines false {} buf with
  | nil => rfl
  | cons b bs ih =>
    simp only [List.filterMap_cons]
    cases lineOfBlock b with
    | none => simpa using ih
    | some l => simpa using ih

/-- **the error names exactly the rejected lines**: the error text is the newline-joined list
    of `unable to parse '<line>': <why>` for the rejected candidate lines, in order, and every
    other candidate line produced a point -/
theorem C12_errors_exact (buf : Bytes) (dt : Int) (prec : String) :
    errorsExact buf (okPoints (parseLines buf dt prec)).length
      (errorText (failedLines (parseLines buf dt prec))) = true := by
  have h := namesRejected_model (parseLines buf dt prec) true
  rw [candidateLines_eq, ← okPoints_length] at h
  unfold errorsExact
  rw [errorText_eq]
  cases hf : failedLines (parseLines buf dt prec) with
  | nil => rw [hf] at h; simpa [errTail] using h
  | cons f fs =>
    rw [hf] at h
    simp only [List.isEmpty_cons, Bool.false_eq_true, if_false, Bool.and_eq_true, Bool.not_eq_true',
      List.isEmpty_eq_false_iff]
    exact ⟨errTail_ne_nil f fs, h⟩

theorem mem_okPoints (rs : List (Bytes × Except Err Point)) (p : Point) (h : p ∈ okPoints rs) :
    ∃ l, (l, Except.ok p) ∈ rs := by
  unfold okPoints at h
  obtain ⟨r, hr, hp⟩ := List.mem_filterMap.mp h
  obtain ⟨l, res⟩ := r
  cases res with
  | ok q => simp at hp; subst hp; exact ⟨l, hr⟩
  | error e => simp at hp

theorem mem_parseLines (buf : Bytes) (dt : Int) (prec : String) (l : Bytes) (res : Except Err Point)
    (h : (l, res) ∈ parseLines buf dt prec) : res = parsePoint l dt prec := by
  unfold parseLines at h
  obtain ⟨b, _, hb⟩ := List.mem_filterMap.mp h
  cases hl : lineOfBlock b with
  | none => simp [hl] at hb
  | some l' => simp [hl] at hb; obtain ⟨rfl, rfl⟩ := hb; rfl

/-- every point returned by `ParsePointsWithPrecision` was accepted by `parsePoint` on one of
    the candidate lines -/
theorem C12_points_from_lines (buf : Bytes) (dt : Int) (prec : String) (p : Point)
    (h : p ∈ okPoints (parseLines buf dt prec)) : ∃ l, parsePoint l dt prec = .ok p := by
  obtain ⟨l, hl⟩ := mem_okPoints _ p h
  exact ⟨l, (mem_parseLines buf dt prec l _ hl).symm⟩

/-- **unique tag keys**: the keys `Tags()` reports for an accepted point are pairwise distinct
    (the parser compares the *escaped* keys; un-escaping is injective on scanned keys) -/
theorem C12_unique_tag_keys (line : Bytes) (dt : Int) (prec : String) (p : Point)
    (h : parsePoint line dt prec = .ok p) :
    distinct ((pointObs p).tags.map (·.key)) = true := by
  have := distinct_tags_of_accepted line dt prec p h
  simpa [pointObs, pointTags, parseTags_isSome] using this

/-- **the accessors of an accepted point do not panic**: `Tags()` never indexes out of range (on
    any key), and — since fixes/C12-lone-quote-value-panic.patch — no string field has the lone
    quote as value, so `StringValue()`'s `valueBuf[1:len-1]` is in range -/
theorem C12_accessors_total (line : Bytes) (dt : Int) (prec : String) (p : Point)
    (h : parsePoint line dt prec = .ok p) : (pointObs p).clean = true := by
  obtain ⟨_, _, _, _, _, _, _, hw, _⟩ := parsePoint_ok_inv line dt prec p h
  simp only [pointObs, pointTags, parseTags_isSome, Option.isSome_some, Bool.true_and, List.all_eq_true]
  intro f hf
  have := (walkFieldsCheck_bound _ _ _ hw f hf).2
  unfold fieldClean
  cases ht : f.typ <;> simp
  exact this ht

/-- `ParseKeyBytes` returns on every byte string -/
theorem C12_parseKey_total (buf : Bytes) : holdsOnPK (parseKeyBytes buf) = true :=
  parseKeyBytes_isSome buf

/-- **C12 on the model**: for every byte string, precision and default time the statement
    checker accepts the model's answer: the call returns; every returned point has a non-empty
    measurement, at least one field, unique tag keys, key + field key within the maximum, a
    representable timestamp, accessors that return; the error names exactly the rejected lines. -/
theorem C12_holdsOn (buf : Bytes) (dt : Int) (prec : String) :
    holdsOn (modelObs prec dt buf) = true := by
  unfold holdsOn modelObs
  simp only [Bool.and_eq_true, List.all_eq_true, List.length_map]
  refine ⟨?_, C12_errors_exact buf dt prec⟩
  intro o ho
  obtain ⟨p, hp, rfl⟩ := List.mem_map.mp ho
  obtain ⟨l, hl⟩ := C12_points_from_lines buf dt prec p hp
  unfold wellFormed
  simp only [Bool.and_eq_true, Bool.or_eq_true, Bool.not_eq_true', List.all_eq_true, decide_eq_true_eq]
  refine ⟨⟨⟨⟨⟨C12_accessors_total l dt prec p hl, ?_⟩, ?_⟩, C12_unique_tag_keys l dt prec p hl⟩, ?_⟩, ?_⟩
  · have := C12_measurement_nonempty l dt prec p hl
    simpa [pointObs] using this
  · have := C12_has_field l dt prec p hl
    simpa [pointObs] using this
  · intro fk hfk
    simp only [pointObs, List.mem_map] at hfk
    obtain ⟨f, hf, rfl⟩ := hfk
    exact (C12_key_length l dt prec p hl).2 f hf
  · cases hdt : dtSane dt with
    | false => left; rfl
    | true => right; exact C12_timestamp l dt prec p hl hdt

/-- **totality, model level**: no line is answered with one of the modelled out-of-range
    outcomes (`scanTags` index growth, `scanToSpaceOr` past the end, `scanFields` look-behind
    before the buffer): where Go could index out of range, the model proves it does not -/
theorem C12_no_model_panic (buf : Bytes) (dt : Int) (prec : String) :
    ∀ f ∈ failedLines (parseLines buf dt prec), f.2.isPanic = false := by
  intro f hf
  unfold failedLines at hf
  obtain ⟨r, hr, hfr⟩ := List.mem_filterMap.mp hf
  obtain ⟨l, res⟩ := r
  cases res with
  | ok q => simp at hfr
  | error e =>
    simp at hfr; subst hfr
    have := mem_parseLines buf dt prec l _ hr
    exact parsePoint_noPanic l dt prec e this.symm

/-- the line that made `Fields()`/`StringValue()` panic before the fix is rejected now -/
theorem C12_lone_quote_rejected :
    okPoints (parseLines (str "m \\\\=\"a=\"") 0 "ns") = [] := by decide

end Influx.Props.C12
