/-
  Props.C18 — Each point lands in one shard group that contains it, also after restart.
  Model: `Influx.Model.Meta*` (leaf predicates, `MarshalTime`, `MinNanoTime`/`MaxNanoTime`
  regenerated from /repo by the translator).
-/
import Influx.Spec.C18
import Influx.Lemmas.MetaWriter

namespace Influx.Props.C18
open Influx.Meta Influx.Spec.C18
open Influx.Generated.Meta

/-- the bounds `CreateShardGroup` computes for an in-range timestamp contain it and lie within
    `[MinNanoTime, MaxNanoTime+1]`, for every positive shard group duration and any existing groups -/
theorem new_group_contains (r : RetentionPolicyInfo) (ts : Int) (hd : 0 < r.ShardGroupDuration)
    (h1 : MinNanoTime ≤ ts) (h2 : ts ≤ MaxNanoTime) :
    (newBounds r ts).1 ≤ ts ∧ ts < (newBounds r ts).2 ∧
    MinNanoTime ≤ (newBounds r ts).1 ∧ (newBounds r ts).2 ≤ MaxNanoTime + 1 :=
  newBounds_spec r ts hd h1 h2

/-- … and are disjoint from every live group (none of which contains the timestamp) -/
theorem new_group_disjoint (r : RetentionPolicyInfo) (ts : Int) (hd : 0 < r.ShardGroupDuration)
    (h1 : MinNanoTime ≤ ts) (h2 : ts ≤ MaxNanoTime)
    (g : ShardGroupInfo) (hg : g ∈ r.ShardGroups) (hlive : g.DeletedAt = zeroTime) (htr : g.TruncatedAt = zeroTime)
    (hnot : ¬(g.StartTime ≤ ts ∧ ts < g.EndTime)) :
    (newBounds r ts).2 ≤ g.StartTime ∨ g.EndTime ≤ (newBounds r ts).1 :=
  newBounds_disjoint r ts hd h1 h2 g hg hlive htr hnot

/-- bounds within the int64 nanosecond range survive `marshal`/`unmarshal` (incl. the Unix epoch) -/
theorem reload_keeps_bounds (g : ShardGroupInfo)
    (h1 : MinNanoTime ≤ g.StartTime) (h2 : g.StartTime ≤ MaxNanoTime + 1)
    (h3 : MinNanoTime ≤ g.EndTime) (h4 : g.EndTime ≤ MaxNanoTime + 1) :
    (reloadSG g).StartTime = g.StartTime ∧ (reloadSG g).EndTime = g.EndTime := by
  unfold MinNanoTime MaxNanoTime at *
  have hs : wrap64 g.StartTime = g.StartTime := wrap64_id _ (by omega) (by omega)
  have he : wrap64 g.EndTime = g.EndTime := wrap64_id _ (by omega) (by omega)
  have hz1 : g.StartTime ≠ zeroTime := by unfold zeroTime; omega
  have hz2 : g.EndTime ≠ zeroTime := by unfold zeroTime; omega
  simp only [reloadSG, unmarshalSG, marshalSG, MarshalTime, Time.UnixNano, UnmarshalTime, hs, he,
    (isZero_false_iff _).mpr hz1, (isZero_false_iff _).mpr hz2, Bool.false_eq_true, ↓reduceIte, unix_eq]
  constructor
  · by_cases h : g.StartTime = 0 <;> simp [h]
  · by_cases h : g.EndTime = 0 <;> simp [h]

/-- DESIGN §6 F7 (reproduced by the check on the unpatched code, repaired by
    `fixes/C18-clamp-start-min-nanotime.patch`): the unclamped start of the 7-day group of
    `MinNanoTime`, 1677-09-20T00:00:00Z, does not survive a reload. -/
theorem F7_unclamped_start_wraps :
    Time.Truncate MinNanoTime (7 * 24 * 3600000000000) = -9223459200000000000 ∧
    (reloadSG { ID := 1, StartTime := -9223459200000000000, EndTime := -9222854400000000000,
                DeletedAt := zeroTime, Shards := [], TruncatedAt := zeroTime }).StartTime
      = 9223284873709551616 := by
  have hw : wrap64 (-9223459200000000000) = 9223284873709551616 := by rw [wrap64_eq]; decide
  constructor
  · decide
  · simp [reloadSG, unmarshalSG, marshalSG, MarshalTime, Time.UnixNano, UnmarshalTime, Time.IsZero, zeroTime, hw]

/-- clause 1 for `CreateShardGroup`: the group returned for a timestamp contains it -/
theorem C18_csg (acc : List Accepted) (s : State) (db rp : String) (t : Int) :
    holdsOp acc (.csg db rp t, (step s (.csg db rp t)).2) = true := by
  simp only [step]
  cases hc : clientCreateShardGroup s.data db rp t with
  | error e => rfl
  | ok res =>
    obtain ⟨d, g⟩ := res
    cases g with
    | none => rfl
    | some g =>
      have := clientCreateShardGroup_some hc
      simp [holdsOp, within, this]

/-- clause 1 for `MapShards`: every mapped point lies inside the group it is mapped to -/
theorem C18_ms (acc : List Accepted) (s : State) (db rp : String) (c : Option Int) (ts : List Int) :
    holdsOp acc (.ms db rp c ts, (step s (.ms db rp c ts)).2) = true := by
  simp only [step]
  generalize hd0 : setDuration s.data db rp _ = d0
  cases hm : mapShards d0 db rp modelNow ts with
  | mk d res =>
    cases res with
    | error e => rfl
    | ok m =>
      obtain ⟨r, l, _, _, hps, _⟩ := mapShards_ok hm
      have := mapPlace_within _ ts _ _ hps
      simp only [holdsOp, Bool.and_eq_true, beq_iff_eq, List.all_eq_true]
      refine ⟨this.1, ?_⟩
      rintro ⟨t, p⟩ hp
      cases p with
      | dropped => rfl
      | mapped sh g =>
        have := this.2 t _ hp sh g rfl
        simp [within, this]

/-- operations whose clause needs the well-formedness invariant of the meta data -/
def deferred : Op → Bool
  | .dump .. | .restart | .dc .. | .find .. | .range .. => true
  | _ => false

theorem judge_partial (ops : List Op) (h : ∀ op ∈ ops, deferred op = false) (s : State) (acc : List Accepted) :
    judge acc (run s ops) = true := by
  induction ops generalizing s acc with
  | nil => rfl
  | cons op ops ih =>
    simp only [run, judge, Bool.and_eq_true]
    refine ⟨?_, ih (fun o ho => h o (by simp [ho])) _ _⟩
    have hop := h op (by simp)
    cases op with
    | csg db rp t => exact C18_csg acc s db rp t
    | ms db rp c ts => exact C18_ms acc s db rp c ts
    | dump | restart | dc | find | range => simp [deferred] at hop
    | _ => simp [holdsOp]

/-- the statement checker accepts the model's trace on every history of policy creation,
    `CreateShardGroup`, `MapShards`, deletions (clause 1 of the statement, unbounded).  The
    clauses judged at `dump`/`restart`/`find`/`range` need the well-formedness invariant of the
    meta data (`C18_holdsOn`). -/
theorem C18_holdsOn_partial (ops : List Op) (h : ∀ op ∈ ops, deferred op = false) :
    holdsOn (run State.init ops) = true := by
  simp [holdsOn, judge_partial ops h]

example : ∀ op ∈ [Op.rp "db" "rp" 3600000000000 false, Op.ms "db" "rp" none [MinNanoTime, 0, MaxNanoTime], Op.csg "db" "rp" 5],
    deferred op = false := by decide

end Influx.Props.C18
