/-
  Props.C18 — Each point lands in one shard group that contains it, also after restart.
  Model: `Influx.Model.Meta*` (leaf predicates, `MarshalTime`, `MinNanoTime`/`MaxNanoTime`
  regenerated from /repo by the translator).
-/
import Influx.Spec.C18
import Influx.Lemmas.MetaC18

namespace Influx.Props.C18
open Influx.Meta Influx.Spec.C18
open Influx.Generated.Meta

/-- the bounds `CreateShardGroup` computes for an in-range timestamp contain it and lie within
    `[MinNanoTime, MaxNanoTime+1]`, for every positive shard group duration and any existing groups -/
theorem new_group_contains (r : RetentionPolicyInfo) (ts : Int) (hd : 0 < r.ShardGroupDuration)
    (h1 : MinNanoTime ≤ ts) (h2 : ts ≤ MaxNanoTime) :
    (newBounds r ts).1 ≤ ts ∧ ts < (newBounds r ts).2 ∧
    MinNanoTime ≤ (newBounds r ts).1 ∧ (newBounds r ts).2 ≤ MaxNanoTime + 1 :=
  newBounds_spec r ts hd h1 h2

/-- … and are disjoint from every live group (none of which contains the timestamp) -/
theorem new_group_disjoint (r : RetentionPolicyInfo) (ts : Int) (hd : 0 < r.ShardGroupDuration)
    (h1 : MinNanoTime ≤ ts) (h2 : ts ≤ MaxNanoTime)
    (g : ShardGroupInfo) (hg : g ∈ r.ShardGroups) (hlive : g.DeletedAt = zeroTime) (htr : g.TruncatedAt = zeroTime)
    (hnot : ¬(g.StartTime ≤ ts ∧ ts < g.EndTime)) :
    (newBounds r ts).2 ≤ g.StartTime ∨ g.EndTime ≤ (newBounds r ts).1 :=
  newBounds_disjoint r ts hd h1 h2 g hg hlive htr hnot

/-- bounds within the int64 nanosecond range survive `marshal`/`unmarshal` (incl. the Unix epoch) -/
theorem reload_keeps_bounds (g : ShardGroupInfo)
    (h1 : MinNanoTime ≤ g.StartTime) (h2 : g.StartTime ≤ MaxNanoTime + 1)
    (h3 : MinNanoTime ≤ g.EndTime) (h4 : g.EndTime ≤ MaxNanoTime + 1) :
    (reloadSG g).StartTime = g.StartTime ∧ (reloadSG g).EndTime = g.EndTime := by
  unfold MinNanoTime MaxNanoTime at *
  have hs : wrap64 g.StartTime = g.StartTime := wrap64_id _ (by omega) (by omega)
  have he : wrap64 g.EndTime = g.EndTime := wrap64_id _ (by omega) (by omega)
  have hz1 : g.StartTime ≠ zeroTime := by unfold zeroTime; omega
  have hz2 : g.EndTime ≠ zeroTime := by unfold zeroTime; omega
  simp only [reloadSG, unmarshalSG, marshalSG, MarshalTime, Time.UnixNano, UnmarshalTime, hs, he,
    (isZero_false_iff _).mpr hz1, (isZero_false_iff _).mpr hz2, Bool.false_eq_true, ↓reduceIte, unix_eq]
  constructor
  · by_cases h : g.StartTime = 0 <;> simp [h]
  · by_cases h : g.EndTime = 0 <;> simp [h]

/-- DESIGN §6 F7 (reproduced by the check on the unpatched code, repaired by
    `fixes/C18-clamp-start-min-nanotime.patch`): the unclamped start of the 7-day group of
    `MinNanoTime`, 1677-09-20T00:00:00Z, does not survive a reload. -/
theorem F7_unclamped_start_wraps :
    Time.Truncate MinNanoTime (7 * 24 * 3600000000000) = -9223459200000000000 ∧
    (reloadSG { ID := 1, StartTime := -9223459200000000000, EndTime := -9222854400000000000,
                DeletedAt := zeroTime, Shards := [], TruncatedAt := zeroTime }).StartTime
      = 9223284873709551616 := by
  have hw : wrap64 (-9223459200000000000) = 9223284873709551616 := by rw [wrap64_eq]; decide
  constructor
  · decide
  · simp [reloadSG, unmarshalSG, marshalSG, MarshalTime, Time.UnixNano, UnmarshalTime, Time.IsZero, zeroTime, hw]

/-- persisting and reloading well-formed meta data returns it unchanged: every group keeps its
    bounds (and its deletion mark, shards, id) -/
theorem reload_identity {d : Data} (h : WF d) : reload d = d := reload_id h

/-- clause 1 for `CreateShardGroup`: the group returned for a timestamp contains it (any state) -/
theorem C18_csg (acc : List Accepted) (s : State) (db rp : String) (t : Int) :
    holdsOp acc (.csg db rp t, (step s (.csg db rp t)).2) = true := csg_holds acc s db rp t

/-- clause 1 for `MapShards`: every mapped point lies inside the group it is mapped to (any state) -/
theorem C18_ms (acc : List Accepted) (s : State) (db rp : String) (c : Option Int) (ts : List Int) :
    holdsOp acc (.ms db rp c ts, (step s (.ms db rp c ts)).2) = true := ms_routes acc s db rp c ts

/-- in every state reachable by in-domain operations all shard groups are non-empty, lie within
    `[MinNanoTime, MaxNanoTime+1]`, and the live groups of a policy are pairwise disjoint -/
theorem reachable_wf (ops : List Op) (h : ∀ op ∈ ops, opInDomain op = true) :
    WF (ops.foldl (fun s op => (step s op).1) State.init).data := by
  have key : ∀ (l : List Op) (s : State), (∀ op ∈ l, opInDomain op = true) → WF s.data →
      WF (l.foldl (fun s op => (step s op).1) s).data := by
    intro l
    induction l with
    | nil => intro s _ hs; exact hs
    | cons o os ih =>
      intro s hl hs
      exact ih _ (fun op hop => hl op (by simp [hop])) (step_wf s o hs (dom18_of_spec (hl o (by simp))))
  exact key ops State.init h init_wf

/-- **C18**: on every history of operations (policy creation with any positive shard group duration,
    changes of the duration, `CreateShardGroup`, `MapShards`, deletions, retention checks,
    restarts, lookups) the statement checker accepts the model's trace: every mapped point lies in
    its group, live groups never overlap, a restart returns the same bounds, and every point
    accepted earlier is still found by timestamp and by time range.  (Histories that leave the
    quantifier domain — out-of-range timestamps, non-positive durations — are not judged.) -/
theorem C18_holdsOn (ops : List Op) : holdsOn (run State.init ops) = true := by
  unfold holdsOn
  by_cases hdom : ((run State.init ops).all fun p => opInDomain p.1) = true
  · have hd : ∀ op ∈ ops, opInDomain op = true := by
      have key : ∀ (s : State) (l : List Op), ((run s l).all fun p => opInDomain p.1) = true → ∀ op ∈ l, opInDomain op = true := by
        intro s l
        induction l generalizing s with
        | nil => simp
        | cons o os ih =>
          intro h op hop
          simp only [run, List.all_cons, Bool.and_eq_true] at h
          rcases List.mem_cons.mp hop with rfl | hop
          · exact h.1
          · exact ih _ h.2 op hop
      exact key _ _ hdom
    simp [judge_run ops hd State.init [] init_wf (by simp)]
  · simp [hdom]

-- non-vacuity: a history inside the domain (extreme timestamps, a restart, lookups) is judged
example : ((run State.init [Op.rp "db" "rp" 0 false, Op.ms "db" "rp" none [MinNanoTime, 0, MaxNanoTime], Op.restart,
    Op.find "db" "rp" MinNanoTime, Op.range "db" "rp" MinNanoTime MaxNanoTime]).all fun p => opInDomain p.1) = true := by decide

end Influx.Props.C18

