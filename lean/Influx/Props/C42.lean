/-
  Props.C42 — Metadata queries list exactly the live names, sorted and authorized.
  Model: Influx.Model.StoreDel (Store.MeasurementNames / TagKeys / TagValues over the index set
  of the selected shards, with the index's lingering tag entries).  Statement: Influx.Spec.C42.
-/
import Influx.Lemmas.StoreDelC42
import Influx.Lemmas.StoreDelHolds42

namespace Influx.Props.C42
open Influx.Model.StoreDel Influx.Model.DelPred
open Influx.Spec.C42 (holdsOf)

/-- **Sorted, each name once** (any condition, any authorizer, any shards): the measurement list is
    strictly ascending in byte order. -/
theorem C42_names_sorted (a : Auth) (shs : List Shard) (c : Option Cond) :
    StrictAsc (measurementNames a shs c) :=
  strictAsc_measurementNames a shs c

/-- the tag keys TagKeys / TagValues walk for a measurement are strictly ascending -/
theorem C42_keys_sorted (shs : List Shard) (m : Bytes) (kc : Option (Bool × Bytes)) :
    StrictAsc (selectedKeys shs m kc) :=
  strictAsc_selectedKeys shs m kc

/-- **MeasurementNames without a condition returns exactly the live, authorized names**: a name is
    returned iff some series of that measurement is in the index of a selected shard (= has data
    there, C17) and the authorizer allows it.  No hypothesis on the index. -/
theorem C42_names_exact (a : Auth) (shs : List Shard) (m : Bytes) :
    m ∈ measurementNames a shs none ↔
      ∃ sh ∈ shs, ∃ s ∈ sh.series, s.name = m ∧ a.allows s.name s.tags = true := by
  rw [mem_measurementNames_none]
  simp [LiveAuth]

/-- **MeasurementNames with a condition (partial)**: for conditions built from `_name` comparisons,
    `tag = 'non-empty value'`, OR, and AND with a `_name`-only side (`condOK`), over an index that
    holds exactly the tag pairs of its live series (`IndexExact`: nothing lingering from deleted
    series), a name is returned iff a live authorized series of it satisfies the condition. -/
theorem C42_names_cond_partial (a : Auth) (shs : List Shard) (hidx : IndexExact shs) (htags : TagsFn shs)
    (c : Cond) (hc : condOK c = true) (m : Bytes) :
    m ∈ measurementNames a shs (some c) ↔
      ∃ sh ∈ shs, ∃ s ∈ sh.series, s.name = m ∧ a.allows s.name s.tags = true ∧ holdsOf s.name s.tags c = true :=
  mem_namesByExpr a shs hidx htags c hc m

/-- **Regular expressions under a fine-grained authorizer**: `WHERE key =~ /^(?:v1|v2|…)$/` returns a
    measurement iff SOME live series of it that the authorizer allows has one of the values — no
    matter how many values match and which of them only hidden series use (the scan of
    `measurementNamesByTagFilter` must not stop at the first matching value). -/
theorem C42_regex_auth (a : Auth) (shs : List Shard) (hidx : IndexExact shs) (htags : TagsFn shs)
    (key : Bytes) (vals : List Bytes) (hk : key ≠ nameKey) (hv : [] ∉ vals) (m : Bytes) :
    m ∈ measurementNames a shs (some (.re key false vals)) ↔
      ∃ sh ∈ shs, ∃ s ∈ sh.series, s.name = m ∧ a.allows s.name s.tags = true ∧
        ∃ v ∈ vals, tagGet s.tags key = some v := by
  have hc : condOK (.re key false vals) = true := by
    simp only [condOK, hk, decide_false, Bool.false_or, Bool.not_false, Bool.true_and, Bool.not_eq_true',
      List.contains_eq_mem, decide_eq_false_iff_not]
    exact hv
  rw [C42_names_cond_partial a shs hidx htags _ hc m]
  constructor
  · rintro ⟨sh, hsh, s, hs, hn, hal, hh⟩
    refine ⟨sh, hsh, s, hs, hn, hal, ?_⟩
    simp only [holdsOf, hk, if_false, Bool.bne_false, List.contains_eq_mem, decide_eq_true_eq] at hh
    cases hg : tagGet s.tags key with
    | none => rw [hg] at hh; exact absurd hh hv
    | some v => rw [hg] at hh; exact ⟨v, hh, rfl⟩
  · rintro ⟨sh, hsh, s, hs, hn, hal, v, hvm, hg⟩
    refine ⟨sh, hsh, s, hs, hn, hal, ?_⟩
    simp only [holdsOf, hk, if_false, Bool.bne_false, List.contains_eq_mem, decide_eq_true_eq, hg]
    exact hvm

/-- the shape of seeded change C42-a: `cpu` has the matching host value `a1` only on a hidden
    series (tag `secret`) and the later matching value `a2` on a visible series of another shard;
    `disk` matches only through hidden series; `mem` is plainly visible -/
example :
    measurementNames (.deny [([115], [120])] [])
      [⟨1, [⟨[99], [([104], [97, 49]), ([115], [120])], [], [(0, 1)]⟩,
             ⟨[100], [([104], [97, 49]), ([115], [120])], [], [(0, 1)]⟩,
             ⟨[109], [([104], [97, 49])], [], [(0, 1)]⟩],
         [([99], [104], [97, 49]), ([99], [115], [120]), ([100], [104], [97, 49]), ([100], [115], [120]),
          ([109], [104], [97, 49])]⟩,
       ⟨2, [⟨[99], [([104], [97, 50])], [], [(100, 1)]⟩], [([99], [104], [97, 50])]⟩]
      (some (.re [104] false [[97, 49], [97, 50]])) = [[99], [109]] := by decide

/-- hidden series never surface a name (no condition): if the authorizer allows no series of `m`,
    `m` is not returned -/
theorem C42_hidden_not_returned (a : Auth) (shs : List Shard) (m : Bytes)
    (h : ∀ sh ∈ shs, ∀ s ∈ sh.series, s.name = m → a.allows s.name s.tags = false) :
    m ∉ measurementNames a shs none := by
  rw [C42_names_exact]
  rintro ⟨sh, hsh, s, hs, hn, hal⟩
  rw [h sh hsh s hs hn] at hal
  cases hal

/-! ### the full statement is false of the code -/

/-- a shard where measurement `m` has the live series `m,t=a` and the index still holds the tag
    value `t=b` of a deleted series -/
def lingering : List Shard :=
  [⟨1, [⟨[109], [([116], [97])], [], [(1, 1)]⟩], [([109], [116], [97]), ([109], [116], [98])]⟩]

/-- **Names only of deleted series are returned**: `WHERE t = 'b'` returns `m` although no live
    series has `t=b`, and TagValues WITH KEY = t returns `b` (open authorizer, no series filter). -/
theorem C42_full_fails :
    measurementNames .nil_ lingering (some (.cmp [116] false [98])) = [[109]] ∧
    tagValues .nil_ lingering none (some (false, [116])) none = [([109], [([116], [97]), ([116], [98])])] := by
  decide

/-- measurement-level evaluation: `t != 'a'` does not return `m` although its series `m,t=b`
    satisfies it, because another series of `m` has `t=a` -/
theorem C42_full_fails_neq :
    measurementNames .nil_
      [⟨1, [⟨[109], [([116], [97])], [], [(1, 1)]⟩, ⟨[109], [([116], [98])], [], [(1, 1)]⟩],
         [([109], [116], [97]), ([109], [116], [98])]⟩]
      (some (.cmp [116] true [97])) = [] := by
  decide

/-! ### the run-time oracle accepts the model's trace -/

/-- **C42_holdsOn (partial)** — the statement checker `Spec.C42.holdsOn` accepts the model's own
    trace on every case `open n; ops` made of writes (sorted tags) and MeasurementNames queries
    with no condition or a condition in `condOK`, under any authorizer: no deletes (so nothing
    lingers in the index — `C42_full_fails`), no TagKeys/TagValues (their content is covered by
    the correspondence run only). -/
theorem C42_holdsOn_partial (n : Nat) (ops : List Op) (hok : ops.all opOK42 = true) :
    Influx.Spec.C42.holdsOn (runT42 none (.open_ n :: ops)) = true := by
  obtain ⟨hr, hinv⟩ := rel42_init n
  simp only [runT42, ansOf42, Influx.Model.StoreDel.stepOp, Influx.Spec.C42.holdsOn, Influx.Spec.C42.judgeCase]
  exact judgeCase_runT42 ops hok _ _ hr hinv

example : [Op.write 1 [109] [([116], [97])] [(1, 1)], .mn (.deny [([116], [97])] []) none,
    .mn .nil_ (some (.or (.cmp [116] false [97]) (.cmp nameKey true [120])))].all opOK42 = true := by decide

-- non-vacuity of the hypotheses of C42_names_cond_partial
example : condOK (.and (.cmp nameKey false [109]) (.or (.cmp [116] false [97]) (.cmp nameKey true [120]))) = true := by decide
example : IndexExact [⟨1, [⟨[109], [([116], [97])], [], [(1, 1)]⟩], [([109], [116], [97])]⟩] := by
  intro sh hsh m k v
  simp only [List.mem_singleton] at hsh
  subst hsh
  simp only [List.mem_singleton, Prod.mk.injEq]
  constructor
  · rintro ⟨rfl, rfl, rfl⟩; exact ⟨_, rfl, rfl, by simp⟩
  · rintro ⟨s, hs, hn, hkv⟩
    subst hs
    simp only [List.mem_singleton, Prod.mk.injEq] at hkv
    exact ⟨hn.symm, hkv.1, hkv.2⟩

end Influx.Props.C42
