// Command translate regenerates lean/Influx/Generated/*.lean from /repo's
// current Go source.  It accepts a deliberately tiny subset of Go (see
// DESIGN.md §0 "Translation") and fails loudly outside it: a failure is the
// tie "T1" being broken, never silently papered over.
//
// usage: translate -repo /repo -targets targets/ -out lean/Influx/Generated [-only Module]
//
// Item kinds in targets.json:
//
//	func     a Go function/method body made of if / return / := / effect-free
//	         calls, over comparisons, arithmetic, boolean operators, field
//	         selections, nil tests and pointer dereferences.  mode "pure"
//	         gives a plain Lean function; mode "option" gives an
//	         `Option`-valued one where `none` is a nil-dereference panic
//	         (evaluation order and short-circuiting kept, see Go.lean).
//	consts   typed constants (strings, integers; integer expressions with
//	         + - * / << >> | & are evaluated).
//	list     a package-level slice/array literal of identifiers or literals.
//	table    a slice/array literal of struct literals; selected columns.
//	regexp   (reserved)
package main

import (
	"encoding/json"
	"flag"
	"fmt"
	"go/ast"
	"go/constant"
	"go/parser"
	"go/token"
	"os"
	"path/filepath"
	"sort"
	"strconv"
	"strings"
)

type Item struct {
	Kind string `json:"kind"`
	File string `json:"file"`
	// func
	Func      string            `json:"func,omitempty"`
	Recv      string            `json:"recv,omitempty"`
	Lean      string            `json:"lean,omitempty"`
	Params    [][2]string       `json:"params,omitempty"` // lean name, lean type (in Go order, receiver first)
	Ret       string            `json:"ret,omitempty"`
	Mode      string            `json:"mode,omitempty"` // pure | option
	PureCalls []string          `json:"pure_calls,omitempty"`
	Calls     map[string]string `json:"calls,omitempty"`  // Go callee text -> Lean function (applied to receiver+args)
	Idents    map[string]string `json:"idents,omitempty"` // Go identifier / selector text -> Lean term
	// consts / list / table
	Names   []string `json:"names,omitempty"`
	Type    string   `json:"type,omitempty"` // lean type of consts / list elements
	Var     string   `json:"var,omitempty"`
	Columns []int    `json:"columns,omitempty"`
	Prefix  string   `json:"prefix,omitempty"`
}

type Module struct {
	Module  string   `json:"module"`
	Imports []string `json:"imports"`
	NS      string   `json:"namespace"`
	Items   []Item   `json:"items"`
}

var fset = token.NewFileSet()

type fatal struct{ msg string }

func failf(pos token.Pos, f string, a ...any) {
	p := ""
	if pos.IsValid() {
		p = fset.Position(pos).String() + ": "
	}
	panic(fatal{p + fmt.Sprintf(f, a...)})
}

var leanKeywords = map[string]bool{"Type": true, "end": true, "from": true, "at": true, "have": true, "show": true, "fun": true, "where": true, "in": true, "then": true, "else": true, "if": true, "let": true, "do": true, "match": true, "with": true, "open": true, "def": true, "max": false, "min": false, "local": true, "instance": true, "by": true, "deriving": true}

func ident(s string) string {
	if leanKeywords[s] {
		return s + "_"
	}
	return s
}

var parsed = map[string]*ast.File{}

func parseFile(repo, rel string) *ast.File {
	full := filepath.Join(repo, rel)
	if f, ok := parsed[full]; ok {
		return f
	}
	f, err := parser.ParseFile(fset, full, nil, parser.SkipObjectResolution)
	if err != nil {
		panic(fatal{fmt.Sprintf("parse %s: %v", full, err)})
	}
	parsed[full] = f
	return f
}

// ---------------------------------------------------------------- consts

type constEnv struct {
	decls map[string]*ast.ValueSpec // name -> spec
	index map[string]int            // name -> index inside spec
	iota  map[string]int
	impl  map[string]*ast.ValueSpec // implicit repetition: spec that supplies the expression
}

func buildConstEnv(f *ast.File) *constEnv {
	env := &constEnv{decls: map[string]*ast.ValueSpec{}, index: map[string]int{}, iota: map[string]int{}, impl: map[string]*ast.ValueSpec{}}
	for _, d := range f.Decls {
		gd, ok := d.(*ast.GenDecl)
		if !ok || gd.Tok != token.CONST {
			continue
		}
		var last *ast.ValueSpec
		for i, s := range gd.Specs {
			vs := s.(*ast.ValueSpec)
			src := vs
			if len(vs.Values) == 0 && last != nil {
				src = last
			} else {
				last = vs
			}
			for j, n := range vs.Names {
				env.decls[n.Name] = vs
				env.impl[n.Name] = src
				env.index[n.Name] = j
				env.iota[n.Name] = i
			}
		}
	}
	return env
}

func (env *constEnv) eval(name string, pos token.Pos) constant.Value {
	src, ok := env.impl[name]
	if !ok {
		failf(pos, "constant %s not found", name)
	}
	j := env.index[name]
	if j >= len(src.Values) {
		failf(pos, "constant %s has no value expression", name)
	}
	return env.evalExpr(src.Values[j], env.iota[name])
}

func (env *constEnv) evalExpr(e ast.Expr, iota int) constant.Value {
	switch x := e.(type) {
	case *ast.BasicLit:
		v := constant.MakeFromLiteral(x.Value, x.Kind, 0)
		if v.Kind() == constant.Unknown {
			failf(x.Pos(), "bad literal %s", x.Value)
		}
		return v
	case *ast.Ident:
		if x.Name == "iota" {
			return constant.MakeInt64(int64(iota))
		}
		if x.Name == "true" {
			return constant.MakeBool(true)
		}
		if x.Name == "false" {
			return constant.MakeBool(false)
		}
		return env.eval(x.Name, x.Pos())
	case *ast.ParenExpr:
		return env.evalExpr(x.X, iota)
	case *ast.UnaryExpr:
		return constant.UnaryOp(x.Op, env.evalExpr(x.X, iota), 0)
	case *ast.BinaryExpr:
		a, b := env.evalExpr(x.X, iota), env.evalExpr(x.Y, iota)
		switch x.Op {
		case token.SHL, token.SHR:
			n, ok := constant.Uint64Val(b)
			if !ok {
				failf(x.Pos(), "shift count not constant")
			}
			return constant.Shift(a, x.Op, uint(n))
		case token.QUO:
			if a.Kind() == constant.Int && b.Kind() == constant.Int {
				return constant.BinaryOp(a, token.QUO_ASSIGN, b) // integer division
			}
		}
		return constant.BinaryOp(a, x.Op, b)
	case *ast.CallExpr: // conversion T(x) with a single argument
		if len(x.Args) == 1 {
			if sel, ok := x.Fun.(*ast.SelectorExpr); ok {
				if pk, ok := sel.X.(*ast.Ident); ok && pk.Name == "time" && sel.Sel.Name == "Duration" {
					return env.evalExpr(x.Args[0], iota)
				}
			}
			if _, ok := x.Fun.(*ast.Ident); ok {
				return env.evalExpr(x.Args[0], iota)
			}
		}
	case *ast.SelectorExpr:
		if pk, ok := x.X.(*ast.Ident); ok {
			switch pk.Name + "." + x.Sel.Name {
			case "math.MaxInt64":
				return constant.MakeInt64(1<<63 - 1)
			case "math.MinInt64":
				return constant.MakeInt64(-1 << 63)
			case "math.MaxUint64":
				return constant.MakeUint64(1<<64 - 1)
			case "math.MaxUint32":
				return constant.MakeUint64(1<<32 - 1)
			case "math.MaxUint16":
				return constant.MakeUint64(1<<16 - 1)
			case "math.MaxInt32":
				return constant.MakeInt64(1<<31 - 1)
			case "time.Nanosecond":
				return constant.MakeInt64(1)
			case "time.Microsecond":
				return constant.MakeInt64(1000)
			case "time.Millisecond":
				return constant.MakeInt64(1000000)
			case "time.Second":
				return constant.MakeInt64(1000000000)
			case "time.Minute":
				return constant.MakeInt64(60 * 1000000000)
			case "time.Hour":
				return constant.MakeInt64(3600 * 1000000000)
			}
		}
	}
	failf(e.Pos(), "constant expression outside the supported subset: %T", e)
	return nil
}

func leanConst(v constant.Value, typ string, pos token.Pos) string {
	switch v.Kind() {
	case constant.String:
		return leanString(constant.StringVal(v))
	case constant.Int:
		s := v.ExactString()
		if strings.HasPrefix(s, "-") {
			return "(" + s + ")"
		}
		return s
	case constant.Bool:
		if constant.BoolVal(v) {
			return "true"
		}
		return "false"
	case constant.Float:
		// only exact integers are accepted
		if i := constant.ToInt(v); i.Kind() == constant.Int {
			return leanConst(i, typ, pos)
		}
	}
	failf(pos, "constant of unsupported kind %v", v.Kind())
	return ""
}

func leanString(s string) string {
	var b strings.Builder
	b.WriteByte('"')
	for _, r := range s {
		switch {
		case r == '"':
			b.WriteString("\\\"")
		case r == '\\':
			b.WriteString("\\\\")
		case r == '\n':
			b.WriteString("\\n")
		case r == '\t':
			b.WriteString("\\t")
		case r < 0x20 || r == 0x7f:
			fmt.Fprintf(&b, "\\x%02x", r)
		default:
			b.WriteRune(r)
		}
	}
	b.WriteByte('"')
	return b.String()
}

// ---------------------------------------------------------------- functions

type fctx struct {
	it        Item
	pure      map[string]bool
	optMode   bool
	recvName  string
	paramRen  map[string]string // Go param name -> Lean name
	optLocals map[string]bool
}

func exprText(e ast.Expr) string {
	switch x := e.(type) {
	case *ast.Ident:
		return x.Name
	case *ast.SelectorExpr:
		return exprText(x.X) + "." + x.Sel.Name
	case *ast.StarExpr:
		return "*" + exprText(x.X)
	case *ast.ParenExpr:
		return exprText(x.X)
	}
	return "?"
}

func hasStar(e ast.Node) bool {
	found := false
	ast.Inspect(e, func(n ast.Node) bool {
		if _, ok := n.(*ast.StarExpr); ok {
			found = true
		}
		return !found
	})
	return found
}

func isNil(e ast.Expr) bool {
	id, ok := e.(*ast.Ident)
	return ok && id.Name == "nil"
}

// pure expression
func (c *fctx) expr(e ast.Expr) string {
	if m, ok := c.it.Idents[exprText(e)]; ok {
		return m
	}
	switch x := e.(type) {
	case *ast.Ident:
		switch x.Name {
		case "true", "false":
			return x.Name
		case "nil":
			return "none"
		}
		if r, ok := c.paramRen[x.Name]; ok {
			return r
		}
		return ident(x.Name)
	case *ast.BasicLit:
		switch x.Kind {
		case token.INT:
			v := constant.MakeFromLiteral(x.Value, x.Kind, 0)
			return v.ExactString()
		case token.STRING:
			s, err := strconv.Unquote(x.Value)
			if err != nil {
				failf(x.Pos(), "bad string literal")
			}
			return leanString(s)
		}
		failf(x.Pos(), "literal kind %v outside the supported subset", x.Kind)
	case *ast.ParenExpr:
		return "(" + c.expr(x.X) + ")"
	case *ast.SelectorExpr:
		return c.expr(x.X) + "." + ident(x.Sel.Name)
	case *ast.UnaryExpr:
		switch x.Op {
		case token.NOT:
			return "(!" + c.expr(x.X) + ")"
		case token.SUB:
			return "(-" + c.expr(x.X) + ")"
		}
		failf(x.Pos(), "unary operator %v outside the supported subset", x.Op)
	case *ast.BinaryExpr:
		if isNil(x.Y) || isNil(x.X) {
			o := x.X
			if isNil(x.X) {
				o = x.Y
			}
			switch x.Op {
			case token.EQL:
				return "(" + c.expr(o) + ").isNone"
			case token.NEQ:
				return "(" + c.expr(o) + ").isSome"
			}
			failf(x.Pos(), "nil used with %v", x.Op)
		}
		a, b := c.expr(x.X), c.expr(x.Y)
		switch x.Op {
		case token.EQL:
			return "(" + a + " == " + b + ")"
		case token.NEQ:
			return "(" + a + " != " + b + ")"
		case token.LAND:
			return "(" + a + " && " + b + ")"
		case token.LOR:
			return "(" + a + " || " + b + ")"
		case token.LSS:
			return "(decide (" + a + " < " + b + "))"
		case token.LEQ:
			return "(decide (" + a + " ≤ " + b + "))"
		case token.GTR:
			return "(decide (" + a + " > " + b + "))"
		case token.GEQ:
			return "(decide (" + a + " ≥ " + b + "))"
		case token.ADD:
			return "(" + a + " + " + b + ")"
		case token.SUB:
			return "(" + a + " - " + b + ")"
		case token.MUL:
			return "(" + a + " * " + b + ")"
		}
		failf(x.Pos(), "binary operator %v outside the supported subset", x.Op)
	case *ast.CallExpr:
		key := exprText(x.Fun)
		// method call recv.M(args) with M mapped
		if sel, ok := x.Fun.(*ast.SelectorExpr); ok {
			if m, ok := c.it.Calls["."+sel.Sel.Name]; ok {
				parts := []string{m, c.atom(sel.X)}
				for _, a := range x.Args {
					parts = append(parts, c.atom(a))
				}
				return "(" + strings.Join(parts, " ") + ")"
			}
		}
		if m, ok := c.it.Calls[key]; ok {
			parts := []string{m}
			for _, a := range x.Args {
				parts = append(parts, c.atom(a))
			}
			return "(" + strings.Join(parts, " ") + ")"
		}
		failf(x.Pos(), "call to %s outside the supported subset (no mapping)", key)
	case *ast.StarExpr:
		failf(x.Pos(), "pointer dereference in a function translated in mode \"pure\"")
	}
	failf(e.Pos(), "expression %T outside the supported subset", e)
	return ""
}

func (c *fctx) atom(e ast.Expr) string {
	s := c.expr(e)
	if strings.ContainsAny(s, " ") && !strings.HasPrefix(s, "(") {
		return "(" + s + ")"
	}
	return s
}

// option-mode expression: Lean term of type Option α (none = panic)
func (c *fctx) oexpr(e ast.Expr) string {
	if !hasStar(e) {
		return "(some " + c.atom(e) + ")"
	}
	switch x := e.(type) {
	case *ast.ParenExpr:
		return c.oexpr(x.X)
	case *ast.StarExpr:
		if hasStar(x.X) {
			failf(x.Pos(), "nested dereference outside the supported subset")
		}
		return "(Go.deref " + c.atom(x.X) + ")"
	case *ast.UnaryExpr:
		if x.Op == token.NOT {
			return "(Go.not " + c.oexpr(x.X) + ")"
		}
	case *ast.BinaryExpr:
		a, b := c.oexpr(x.X), c.oexpr(x.Y)
		switch x.Op {
		case token.LAND:
			return "(Go.and " + a + " " + b + ")"
		case token.LOR:
			return "(Go.or " + a + " " + b + ")"
		case token.EQL:
			return "(Go.eq " + a + " " + b + ")"
		case token.NEQ:
			return "(Go.ne " + a + " " + b + ")"
		case token.LSS:
			return "(Go.lt " + a + " " + b + ")"
		case token.LEQ:
			return "(Go.le " + a + " " + b + ")"
		case token.GTR:
			return "(Go.lt " + b + " " + a + ")"
		case token.GEQ:
			return "(Go.le " + b + " " + a + ")"
		}
		failf(x.Pos(), "operator %v over dereferences outside the supported subset", x.Op)
	}
	failf(e.Pos(), "expression %T with a dereference outside the supported subset", e)
	return ""
}

func (c *fctx) retType() string {
	if c.optMode {
		return "Option (" + c.it.Ret + ")"
	}
	return c.it.Ret
}

func endsInReturn(stmts []ast.Stmt) bool {
	if len(stmts) == 0 {
		return false
	}
	switch s := stmts[len(stmts)-1].(type) {
	case *ast.ReturnStmt:
		return true
	case *ast.IfStmt:
		if s.Else == nil {
			return false
		}
		eb, ok := s.Else.(*ast.BlockStmt)
		if !ok {
			if ei, ok := s.Else.(*ast.IfStmt); ok {
				return endsInReturn(s.Body.List) && endsInReturn([]ast.Stmt{ei})
			}
			return false
		}
		return endsInReturn(s.Body.List) && endsInReturn(eb.List)
	}
	return false
}

func indent(n int) string { return strings.Repeat("  ", n) }

// stmts translates a statement list that must end by returning on every path.
func (c *fctx) stmts(list []ast.Stmt, depth int, cont string) string {
	if len(list) == 0 {
		if cont != "" {
			return indent(depth) + cont
		}
		failf(token.NoPos, "%s: control reaches the end of the function without a return", c.it.Func)
	}
	s, rest := list[0], list[1:]
	in := indent(depth)
	switch x := s.(type) {
	case *ast.ReturnStmt:
		if len(x.Results) != 1 {
			failf(x.Pos(), "return with %d results outside the supported subset", len(x.Results))
		}
		if c.optMode {
			return in + c.oexpr(x.Results[0])
		}
		return in + c.expr(x.Results[0])
	case *ast.IfStmt:
		if x.Init != nil {
			failf(x.Pos(), "if with init statement outside the supported subset")
		}
		// a branch that falls through continues with `rest`; `rest` is bound
		// once (`let k := …`) instead of being duplicated into both branches
		pre := ""
		k := cont
		fallsThrough := !endsInReturn(x.Body.List)
		var elseList []ast.Stmt
		elseIsRest := false
		switch eb := x.Else.(type) {
		case nil:
			elseIsRest = true
		case *ast.BlockStmt:
			elseList = eb.List
			fallsThrough = fallsThrough || !endsInReturn(elseList)
		case *ast.IfStmt:
			elseList = []ast.Stmt{eb}
			fallsThrough = fallsThrough || !endsInReturn(elseList)
		}
		if len(rest) > 0 && (fallsThrough || elseIsRest) {
			if fallsThrough {
				k = fmt.Sprintf("k%d", depth)
				pre = in + "let " + k + " : " + c.retType() + " :=\n" + c.stmts(rest, depth+2, cont) + "\n"
			}
		}
		thenS := c.stmts(x.Body.List, depth+2, k)
		var elseS string
		if elseIsRest {
			if fallsThrough || len(rest) == 0 {
				elseS = indent(depth+2) + k
				if k == "" {
					failf(x.Pos(), "%s: control reaches the end of the function without a return", c.it.Func)
				}
			} else {
				elseS = c.stmts(rest, depth+2, cont)
			}
		} else {
			elseS = c.stmts(elseList, depth+2, k)
		}
		if c.optMode {
			return pre + in + "Go.ite " + c.oexpr(x.Cond) + "\n" +
				in + "  (\n" + thenS + ")\n" +
				in + "  (\n" + elseS + ")"
		}
		return pre + in + "if " + c.expr(x.Cond) + " then\n" + thenS + "\n" +
			in + "else\n" + elseS
	case *ast.AssignStmt:
		if x.Tok != token.DEFINE || len(x.Lhs) != 1 || len(x.Rhs) != 1 {
			failf(x.Pos(), "assignment outside the supported subset (only `x := e`)")
		}
		id, ok := x.Lhs[0].(*ast.Ident)
		if !ok {
			failf(x.Pos(), "assignment target outside the supported subset")
		}
		if c.optMode && hasStar(x.Rhs[0]) {
			return in + "Go.bind " + c.oexpr(x.Rhs[0]) + " fun " + ident(id.Name) + " =>\n" + c.stmts(rest, depth, cont)
		}
		return in + "let " + ident(id.Name) + " := " + c.expr(x.Rhs[0]) + "\n" + c.stmts(rest, depth, cont)
	case *ast.ExprStmt:
		call, ok := x.X.(*ast.CallExpr)
		if !ok || !c.pure[exprText(call.Fun)] {
			failf(x.Pos(), "statement with side effects outside the supported subset")
		}
		// an effect-free call: its arguments are still evaluated (they may panic)
		out := ""
		n := 0
		for _, a := range call.Args {
			if hasStar(a) {
				if !c.optMode {
					failf(a.Pos(), "dereference in mode pure")
				}
				out += in + "Go.seq " + c.oexpr(a) + " <|\n"
				n++
			} else {
				_ = c.expr(a) // must still be inside the subset
			}
		}
		return out + c.stmts(rest, depth, cont)
	}
	failf(s.Pos(), "statement %T outside the supported subset", s)
	return ""
}

func findFunc(f *ast.File, recv, name string) *ast.FuncDecl {
	for _, d := range f.Decls {
		fd, ok := d.(*ast.FuncDecl)
		if !ok || fd.Name.Name != name {
			continue
		}
		r := ""
		if fd.Recv != nil && len(fd.Recv.List) == 1 {
			t := fd.Recv.List[0].Type
			if st, ok := t.(*ast.StarExpr); ok {
				t = st.X
			}
			if id, ok := t.(*ast.Ident); ok {
				r = id.Name
			}
		}
		if r == recv {
			return fd
		}
	}
	return nil
}

func genFunc(repo string, it Item) string {
	f := parseFile(repo, it.File)
	fd := findFunc(f, it.Recv, it.Func)
	if fd == nil {
		failf(token.NoPos, "%s: function %s.%s not found", it.File, it.Recv, it.Func)
	}
	c := &fctx{it: it, pure: map[string]bool{}, optMode: it.Mode == "option", paramRen: map[string]string{}}
	for _, p := range it.PureCalls {
		c.pure[p] = true
	}
	// Go parameter names, receiver first
	var goNames []string
	if fd.Recv != nil {
		for _, fl := range fd.Recv.List {
			for _, n := range fl.Names {
				goNames = append(goNames, n.Name)
			}
		}
	}
	for _, fl := range fd.Type.Params.List {
		for _, n := range fl.Names {
			goNames = append(goNames, n.Name)
		}
	}
	if len(goNames) != len(it.Params) {
		failf(fd.Pos(), "%s has %d parameters (incl. receiver) in the source, targets.json declares %d", it.Func, len(goNames), len(it.Params))
	}
	var sig []string
	for i, p := range it.Params {
		c.paramRen[goNames[i]] = p[0]
		sig = append(sig, fmt.Sprintf("(%s : %s)", p[0], p[1]))
	}
	ret := it.Ret
	if c.optMode {
		ret = "Option " + ret
	}
	pos := fset.Position(fd.Pos())
	rel, _ := filepath.Rel(repo, pos.Filename)
	var b strings.Builder
	fmt.Fprintf(&b, "/-- generated from `%s` func `%s%s` -/\n", rel, recvPrefix(it.Recv), it.Func)
	fmt.Fprintf(&b, "def %s %s : %s :=\n", it.Lean, strings.Join(sig, " "), ret)
	b.WriteString(c.stmts(fd.Body.List, 1, ""))
	b.WriteString("\n")
	return b.String()
}

func recvPrefix(r string) string {
	if r == "" {
		return ""
	}
	return r + "."
}

// ---------------------------------------------------------------- lists / tables

func findVar(f *ast.File, name string) ast.Expr {
	for _, d := range f.Decls {
		gd, ok := d.(*ast.GenDecl)
		if !ok || (gd.Tok != token.VAR && gd.Tok != token.CONST) {
			continue
		}
		for _, s := range gd.Specs {
			vs := s.(*ast.ValueSpec)
			for i, n := range vs.Names {
				if n.Name == name && i < len(vs.Values) {
					return vs.Values[i]
				}
			}
		}
	}
	return nil
}

func genList(repo string, it Item) string {
	f := parseFile(repo, it.File)
	v := findVar(f, it.Var)
	cl, ok := v.(*ast.CompositeLit)
	if !ok {
		failf(token.NoPos, "%s: variable %s is not a composite literal", it.File, it.Var)
	}
	env := buildConstEnv(f)
	var elems []string
	for _, e := range cl.Elts {
		switch x := e.(type) {
		case *ast.Ident:
			if _, isConst := env.impl[x.Name]; isConst && it.Prefix == "" {
				elems = append(elems, ident(x.Name))
			} else {
				elems = append(elems, it.Prefix+ident(x.Name))
			}
		default:
			elems = append(elems, leanConst(env.evalExpr(e, 0), it.Type, e.Pos()))
		}
	}
	var b strings.Builder
	fmt.Fprintf(&b, "/-- generated from `%s` var `%s` -/\n", it.File, it.Var)
	fmt.Fprintf(&b, "def %s : List %s :=\n  [%s]\n", it.Lean, it.Type, strings.Join(elems, ",\n   "))
	return b.String()
}

func genTable(repo string, it Item) string {
	f := parseFile(repo, it.File)
	v := findVar(f, it.Var)
	cl, ok := v.(*ast.CompositeLit)
	if !ok {
		failf(token.NoPos, "%s: variable %s is not a composite literal", it.File, it.Var)
	}
	env := buildConstEnv(f)
	var rows []string
	for _, e := range cl.Elts {
		row, ok := e.(*ast.CompositeLit)
		if !ok {
			failf(e.Pos(), "table row is not a composite literal")
		}
		var cols []string
		for _, ci := range it.Columns {
			if ci >= len(row.Elts) {
				failf(row.Pos(), "table row has %d columns, need column %d", len(row.Elts), ci)
			}
			el := row.Elts[ci]
			if kv, ok := el.(*ast.KeyValueExpr); ok {
				el = kv.Value
			}
			cols = append(cols, leanConst(env.evalExpr(el, 0), "", el.Pos()))
		}
		rows = append(rows, "("+strings.Join(cols, ", ")+")")
	}
	var b strings.Builder
	fmt.Fprintf(&b, "/-- generated from `%s` var `%s` (columns %v) -/\n", it.File, it.Var, it.Columns)
	fmt.Fprintf(&b, "def %s : List (%s) :=\n  [%s]\n", it.Lean, it.Type, strings.Join(rows, ",\n   "))
	return b.String()
}

func genConsts(repo string, it Item) string {
	f := parseFile(repo, it.File)
	env := buildConstEnv(f)
	names := it.Names
	if len(names) == 1 && strings.HasSuffix(names[0], "*") {
		pre := strings.TrimSuffix(names[0], "*")
		names = nil
		for n := range env.impl {
			if strings.HasPrefix(n, pre) {
				names = append(names, n)
			}
		}
		sort.Strings(names)
	}
	var b strings.Builder
	for _, n := range names {
		v := env.eval(n, token.NoPos)
		fmt.Fprintf(&b, "/-- generated from `%s` const `%s` -/\n", it.File, n)
		fmt.Fprintf(&b, "def %s%s : %s := %s\n", it.Prefix, ident(n), it.Type, leanConst(v, it.Type, token.NoPos))
	}
	return b.String()
}

// ---------------------------------------------------------------- main

func genModule(repo string, m Module) (out string, err error) {
	defer func() {
		if r := recover(); r != nil {
			if fe, ok := r.(fatal); ok {
				err = fmt.Errorf("%s", fe.msg)
				return
			}
			panic(r)
		}
	}()
	var b strings.Builder
	b.WriteString("-- GENERATED by /verif/translate from /repo — do not edit; regenerated on every check run.\n")
	for _, im := range m.Imports {
		fmt.Fprintf(&b, "import %s\n", im)
	}
	if m.NS != "" {
		fmt.Fprintf(&b, "\nnamespace %s\n", m.NS)
	}
	for _, it := range m.Items {
		b.WriteString("\n")
		switch it.Kind {
		case "func":
			b.WriteString(genFunc(repo, it))
		case "consts":
			b.WriteString(genConsts(repo, it))
		case "list":
			b.WriteString(genList(repo, it))
		case "table":
			b.WriteString(genTable(repo, it))
		default:
			return "", fmt.Errorf("unknown item kind %q", it.Kind)
		}
	}
	if m.NS != "" {
		fmt.Fprintf(&b, "\nend %s\n", m.NS)
	}
	return b.String(), nil
}

func main() {
	repo := flag.String("repo", "/repo", "influxdb working tree")
	targets := flag.String("targets", "targets", "directory of target files (*.json)")
	out := flag.String("out", "", "output directory (lean/Influx/Generated)")
	only := flag.String("only", "", "comma-separated module names to regenerate (default all)")
	flag.Parse()
	// -targets is a directory of *.json files, each a list of modules
	files, _ := filepath.Glob(filepath.Join(*targets, "*.json"))
	sort.Strings(files)
	var mods []Module
	for _, fn := range files {
		raw, err := os.ReadFile(fn)
		if err != nil {
			fmt.Fprintln(os.Stderr, err)
			os.Exit(2)
		}
		var ms []Module
		if err := json.Unmarshal(raw, &ms); err != nil {
			fmt.Fprintln(os.Stderr, fn+":", err)
			os.Exit(2)
		}
		mods = append(mods, ms...)
	}
	want := map[string]bool{}
	for _, o := range strings.Split(*only, ",") {
		if o != "" {
			want[o] = true
		}
	}
	bad := 0
	for _, m := range mods {
		if len(want) > 0 && !want[m.Module] {
			continue
		}
		path := filepath.Join(*out, m.Module+".lean")
		text, err := genModule(*repo, m)
		if err != nil {
			// delete the stale file so that no theorem is checked against old text
			os.Remove(path)
			fmt.Printf("TRANSLATE-FAIL module=%s %v\n", m.Module, err)
			bad++
			continue
		}
		old, _ := os.ReadFile(path)
		if string(old) != text {
			if err := os.WriteFile(path, []byte(text), 0o644); err != nil {
				fmt.Fprintln(os.Stderr, err)
				os.Exit(2)
			}
			fmt.Printf("TRANSLATE-OK module=%s changed\n", m.Module)
		} else {
			fmt.Printf("TRANSLATE-OK module=%s unchanged\n", m.Module)
		}
	}
	if bad > 0 {
		os.Exit(1)
	}
}
