module verif/translate

go 1.26.3
