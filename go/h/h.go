// Package h is the shared part of every correspondence harness: the PRNG all
// random choices come from, the case-file protocol (see lean/Influx/Proto.lean)
// and the gen / exec command line.
//
//	harness gen  -seed N -tier quick|thorough -out cases.txt
//	harness exec < cases.txt > paired.txt      (op TAB implementation-answer)
package h

import (
	"bufio"
	"encoding/hex"
	"flag"
	"fmt"
	"os"
	"runtime/debug"
	"strconv"
	"strings"
	"syscall"
	"time"
)

// Rand is splitmix64: one state, every choice derived from it, so that a
// disagreement replays exactly from (seed, tier).
type Rand struct{ s uint64 }

func NewRand(seed uint64) *Rand {
	// hash the seed first: with s = seed*gamma+c the streams of seed k and k+1
	// would be the same stream shifted by one draw
	z := seed + 0x632BE59BD9B4E019
	z = (z ^ (z >> 30)) * 0xBF58476D1CE4E5B9
	z = (z ^ (z >> 27)) * 0x94D049BB133111EB
	return &Rand{s: z ^ (z >> 31)}
}

func (r *Rand) Uint64() uint64 {
	r.s += 0x9E3779B97F4A7C15
	z := r.s
	z = (z ^ (z >> 30)) * 0xBF58476D1CE4E5B9
	z = (z ^ (z >> 27)) * 0x94D049BB133111EB
	return z ^ (z >> 31)
}
func (r *Rand) Intn(n int) int {
	if n <= 0 {
		return 0
	}
	return int(r.Uint64() % uint64(n))
}
func (r *Rand) Bool() bool           { return r.Uint64()&1 == 1 }
func (r *Rand) Chance(p float64) bool { return float64(r.Uint64()>>11)/float64(1<<53) < p }
func (r *Rand) Range(lo, hi int64) int64 { // inclusive
	if hi <= lo {
		return lo
	}
	return lo + int64(r.Uint64()%uint64(hi-lo+1))
}
func Pick[T any](r *Rand, xs []T) T { return xs[r.Intn(len(xs))] }

// Hex encodes a byte string as one token ("-" for empty).
func Hex(b []byte) string {
	if len(b) == 0 {
		return "-"
	}
	return hex.EncodeToString(b)
}
func HexS(s string) string { return Hex([]byte(s)) }
func UnHex(s string) ([]byte, error) {
	if s == "-" {
		return nil, nil
	}
	return hex.DecodeString(s)
}
func MustUnHex(s string) []byte {
	b, err := UnHex(s)
	if err != nil {
		panic("bad hex token " + s)
	}
	return b
}
func Hex64(v uint64) string { return fmt.Sprintf("%016x", v) }
func B(b bool) string {
	if b {
		return "1"
	}
	return "0"
}
func Ints(xs []int64) string {
	if len(xs) == 0 {
		return "-"
	}
	ss := make([]string, len(xs))
	for i, x := range xs {
		ss[i] = strconv.FormatInt(x, 10)
	}
	return strings.Join(ss, ",")
}
func ParseInts(s string) []int64 {
	if s == "-" {
		return nil
	}
	var out []int64
	for _, p := range strings.Split(s, ",") {
		v, err := strconv.ParseInt(p, 10, 64)
		if err != nil {
			panic("bad int list " + s)
		}
		out = append(out, v)
	}
	return out
}
func Atoi(s string) int64 {
	v, err := strconv.ParseInt(s, 10, 64)
	if err != nil {
		panic("bad int token " + s)
	}
	return v
}
func Join(xs []string) string {
	if len(xs) == 0 {
		return "-"
	}
	return strings.Join(xs, ",")
}
func Split(s string) []string {
	if s == "-" {
		return nil
	}
	return strings.Split(s, ",")
}

// CaseRunner executes the operations of one case against the real code.
type CaseRunner interface {
	// Op runs one operation and returns the canonicalised answer (one line, no TAB).
	Op(toks []string) string
	// Close releases whatever the case holds (temp dirs, goroutines).
	Close()
}

type Harness struct {
	// Gen emits cases; each case is a list of operation lines.
	Gen func(r *Rand, tier string, emit func(ops []string))
	// NewCase starts a fresh case.
	NewCase func() CaseRunner
	// OpTimeout bounds one operation (default 30s).  A timed-out op answers
	// "timeout" and the rest of the case answers "skipped".
	OpTimeout time.Duration
}

type funcRunner struct{ f func(toks []string) string }

func (f funcRunner) Op(t []string) string { return f.f(t) }
func (f funcRunner) Close()               {}

// Stateless wraps a pure op function as a CaseRunner factory.
func Stateless(f func(toks []string) string) func() CaseRunner {
	return func() CaseRunner { return funcRunner{f} }
}

func safeOp(c CaseRunner, toks []string, timeout time.Duration) (ans string, timedOut bool) {
	done := make(chan string, 1)
	go func() {
		defer func() {
			if r := recover(); r != nil {
				msg := fmt.Sprint(r)
				if os.Getenv("VERIF_DEBUG") != "" {
					fmt.Fprintf(os.Stderr, "panic in op %v: %v\n%s\n", toks, r, debug.Stack())
				}
				msg = strings.Map(func(r rune) rune {
					if r == '\t' || r == '\n' || r == ' ' {
						return '_'
					}
					return r
				}, msg)
				if len(msg) > 80 {
					msg = msg[:80]
				}
				done <- "panic:" + msg
			}
		}()
		done <- c.Op(toks)
	}()
	select {
	case a := <-done:
		return a, false
	case <-time.After(timeout):
		return "timeout", true
	}
}

func privateStdout() *os.File {
	fd, err := syscall.Dup(1)
	if err != nil {
		panic(err)
	}
	if err := syscall.Dup2(2, 1); err != nil {
		panic(err)
	}
	os.Stdout = os.NewFile(1, "/dev/stdout")
	return os.NewFile(uintptr(fd), "protocol-out")
}

func Main(hn Harness) {
	if len(os.Args) < 2 {
		fmt.Fprintln(os.Stderr, "usage: harness gen|exec …")
		os.Exit(2)
	}
	if hn.OpTimeout == 0 {
		hn.OpTimeout = 30 * time.Second
	}
	switch os.Args[1] {
	case "gen":
		fs := flag.NewFlagSet("gen", flag.ExitOnError)
		seed := fs.Uint64("seed", 1, "seed")
		tier := fs.String("tier", "quick", "quick|thorough")
		out := fs.String("out", "", "output file (default stdout)")
		fs.Parse(os.Args[2:])
		w := bufio.NewWriterSize(os.Stdout, 1<<20)
		if *out != "" {
			f, err := os.Create(*out)
			if err != nil {
				fmt.Fprintln(os.Stderr, err)
				os.Exit(2)
			}
			defer f.Close()
			w = bufio.NewWriterSize(f, 1<<20)
		}
		n := 0
		hn.Gen(NewRand(*seed), *tier, func(ops []string) {
			n++
			fmt.Fprintf(w, "#case %d\n", n)
			for _, o := range ops {
				w.WriteString(o)
				w.WriteByte('\n')
			}
		})
		w.Flush()
	case "exec":
		in := bufio.NewScanner(os.Stdin)
		in.Buffer(make([]byte, 1<<20), 1<<28)
		// the code under test may print to stdout (e.g. authz.go's fmt.Printf):
		// keep a private copy of fd 1 for the protocol and point fd 1 at stderr
		w := bufio.NewWriterSize(privateStdout(), 1<<16)
		defer w.Flush()
		var cur CaseRunner
		dead := false
		timeouts := 0 // after a few timed-out ops the rest of the input is answered "skipped" (bounded run time)
		closeCur := func() {
			if cur != nil && !dead {
				func() {
					defer func() { recover() }()
					cur.Close()
				}()
			}
			cur = nil
		}
		for in.Scan() {
			line := in.Text()
			if line == "" {
				continue
			}
			if strings.HasPrefix(line, "#case") {
				closeCur()
				cur = hn.NewCase()
				dead = false
				fmt.Fprintln(w, line)
				continue
			}
			if i := strings.IndexByte(line, '\t'); i >= 0 { // a paired file is accepted as input
				line = line[:i]
			}
			if cur == nil {
				cur = hn.NewCase()
			}
			var ans string
			if dead || timeouts >= 3 {
				ans = "skipped"
			} else {
				var to bool
				ans, to = safeOp(cur, strings.Fields(line), hn.OpTimeout)
				if to {
					dead = true
					timeouts++
				}
			}
			fmt.Fprintf(w, "%s\t%s\n", line, ans)
			w.Flush()
		}
		closeCur()
	default:
		fmt.Fprintln(os.Stderr, "unknown mode", os.Args[1])
		os.Exit(2)
	}
}
