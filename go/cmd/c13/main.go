// Harness for C13: drives the real tsdb.SeriesFile (8 partitions, segments, index,
// index compaction, offline segment compaction as `influxd inspect build-tsi
// --compact-series-file` does it) and tears the active segment at a chosen byte of the
// last append.
//
// A key token is `<hex of the series key bytes>:<partition>`; the partition is
// xxhash(key) % 8, computed by the generator with SeriesFile.SeriesKeyPartitionID and
// handed to the model (the model is parametric in the hash).
//
// Ops:
//
//	create k1,k2,…      CreateSeriesListIfNotExists            -> ids
//	delete id           DeleteSeriesID(id, flush)              -> ok
//	delkey k            SeriesID then DeleteSeriesID           -> the id deleted (0 = absent)
//	id k                SeriesID                               -> id (0 = absent)
//	key id              SeriesKey                              -> hex | nil
//	reopen              Close + Open                           -> ok
//	compact p           SeriesPartitionCompactor.Compact(p)    -> ok      (index compaction)
//	threshold n         CompactThreshold = n on all partitions -> ok      (background compaction; awaited)
//	segcompact          build-tsi --compact-series-file steps  -> ok      (drops deleted entries)
//	torn k cut          create k, crash: the bytes of the append from offset `cut` on never
//	                    reached the disk (zero, as in the pre-allocated file); reopen -> id of k afterwards
//	torndel id cut      same for the tombstone entry of DeleteSeriesID -> IsDeleted(id) afterwards
//	allids              SeriesID of every key seen so far      -> k=id,…
//	allkeys             SeriesKey of every id ever returned    -> id=hex|nil,…
//	smallseg id         (fresh file only) replace the empty segment 0000 of every partition by the empty
//	                    segment `id`; SeriesSegmentSize(0xfff0+k) = 64<<k bytes, so the log rolls over
//	                    to further segments after a few entries                      -> ok
//	hdrseg p            a header-only newest segment appears in partition p (what a create leaves that
//	                    dies right after createSegment), then reopen                 -> ok
//	state p             seq maxSeriesID maxOffset onDisk inMem tombstones
//	dump p              flag:id:offset:key,… of the partition's segments
package main

import (
	"encoding/binary"
	"fmt"
	"os"
	"path/filepath"
	"strconv"
	"strings"
	"time"

	"github.com/influxdata/influxdb/v2/models"
	"github.com/influxdata/influxdb/v2/tsdb"
	"verif/harness/h"
)

type badTok struct{}

func atoi(s string) int64 {
	v, err := strconv.ParseInt(s, 10, 64)
	if err != nil {
		panic(badTok{})
	}
	return v
}

func u64(s string) uint64 {
	v, err := strconv.ParseUint(s, 10, 64)
	if err != nil {
		panic(badTok{})
	}
	return v
}

type keyTok struct {
	key  []byte
	part int
}

func parseKey(s string) keyTok {
	i := strings.IndexByte(s, ':')
	if i < 0 {
		panic(badTok{})
	}
	b, err := h.UnHex(s[:i])
	if err != nil || len(b) == 0 {
		panic(badTok{})
	}
	// the uvarint prefix must state exactly the length of the rest (the driver checks the same)
	if sz, n := binary.Uvarint(b); n <= 0 || int(sz)+n != len(b) {
		panic(badTok{})
	}
	p := int(atoi(s[i+1:]))
	if p < 0 || p >= tsdb.SeriesFilePartitionN {
		panic(badTok{})
	}
	return keyTok{b, p}
}

type runner struct {
	dir       string
	sf        *tsdb.SeriesFile
	threshold int
	seenKeys  []keyTok
	seenSet   map[string]bool
	issued    []uint64
	issuedSet map[uint64]bool
}

func newCase() h.CaseRunner {
	dir, err := os.MkdirTemp("", "verif-c13-")
	if err != nil {
		panic(err)
	}
	r := &runner{dir: dir, threshold: -1, seenSet: map[string]bool{}, issuedSet: map[uint64]bool{}}
	r.open()
	return r
}

func (r *runner) open() {
	r.sf = tsdb.NewSeriesFile(r.dir)
	if err := r.sf.Open(); err != nil {
		panic("open: " + err.Error())
	}
	r.applyThreshold()
}

func (r *runner) applyThreshold() {
	if r.threshold >= 0 {
		for _, p := range r.sf.Partitions() {
			p.CompactThreshold = r.threshold
		}
	}
}

func (r *runner) Close() {
	if r.sf != nil {
		r.sf.Close()
	}
	os.RemoveAll(r.dir)
}

func (r *runner) waitCompactions() {
	deadline := time.Now().Add(20 * time.Second)
	for _, p := range r.sf.Partitions() {
		for p.Compacting() {
			if time.Now().After(deadline) {
				panic("compaction does not finish")
			}
			time.Sleep(200 * time.Microsecond)
		}
	}
}

// fresh: nothing was ever written (one empty segment 0000 per partition, no index file).
func (r *runner) fresh() bool {
	for _, p := range r.sf.Partitions() {
		segs := p.Segments()
		if len(segs) != 1 || segs[0].ID() != 0 || segs[0].Size() != tsdb.SeriesSegmentHeaderSize {
			return false
		}
		if _, err := os.Stat(p.IndexPath()); err == nil {
			return false
		}
	}
	return true
}

func (r *runner) see(k keyTok) {
	if !r.seenSet[string(k.key)] {
		r.seenSet[string(k.key)] = true
		r.seenKeys = append(r.seenKeys, k)
	}
}

func (r *runner) issue(id uint64) {
	if id != 0 && !r.issuedSet[id] {
		r.issuedSet[id] = true
		r.issued = append(r.issued, id)
	}
}

// checkPart verifies the partition the generator computed (a changed partition function
// shows up as a disagreement, not as a silently different model input).
func (r *runner) checkPart(k keyTok) string {
	if p := r.sf.SeriesKeyPartitionID(k.key); p != k.part {
		return "partdiff:" + strconv.Itoa(p)
	}
	return ""
}

func (r *runner) seriesID(k keyTok) uint64 {
	name, tags := tsdb.ParseSeriesKey(k.key)
	return r.sf.SeriesID(name, tags, nil)
}

func (r *runner) create(keys []keyTok) ([]uint64, error) {
	names := make([][]byte, len(keys))
	tagsSlice := make([]models.Tags, len(keys))
	for i, k := range keys {
		names[i], tagsSlice[i] = tsdb.ParseSeriesKey(k.key)
	}
	ids, err := r.sf.CreateSeriesListIfNotExists(names, tagsSlice)
	r.waitCompactions()
	return ids, err
}

func showIDs(ids []uint64) string {
	if len(ids) == 0 {
		return "-"
	}
	ss := make([]string, len(ids))
	for i, id := range ids {
		ss[i] = strconv.FormatUint(id, 10)
	}
	return strings.Join(ss, ",")
}

// tear zeroes the bytes [from, to) of a file: they never reached the disk.
func tear(path string, from, to int64) {
	if from >= to {
		return
	}
	f, err := os.OpenFile(path, os.O_WRONLY, 0)
	if err != nil {
		panic(err)
	}
	defer f.Close()
	if _, err := f.WriteAt(make([]byte, to-from), from); err != nil {
		panic(err)
	}
}

func (r *runner) Op(t []string) (ans string) {
	defer func() {
		if e := recover(); e != nil {
			if _, ok := e.(badTok); ok {
				ans = "bad-op"
				return
			}
			panic(e)
		}
	}()
	if len(t) == 0 {
		return "bad-op"
	}
	switch {
	case t[0] == "create" && len(t) == 2:
		var keys []keyTok
		for _, s := range h.Split(t[1]) {
			keys = append(keys, parseKey(s))
		}
		for _, k := range keys {
			if d := r.checkPart(k); d != "" {
				return d
			}
		}
		ids, err := r.create(keys)
		if err != nil {
			return "err"
		}
		for _, k := range keys {
			r.see(k)
		}
		for _, id := range ids {
			r.issue(id)
		}
		return showIDs(ids)
	case t[0] == "delete" && len(t) == 2:
		if _, err := r.sf.DeleteSeriesID(u64(t[1]), true); err != nil {
			return "err"
		}
		return "ok"
	case t[0] == "delkey" && len(t) == 2:
		k := parseKey(t[1])
		if d := r.checkPart(k); d != "" {
			return d
		}
		id := r.seriesID(k)
		if id != 0 {
			if _, err := r.sf.DeleteSeriesID(id, true); err != nil {
				return "err"
			}
		}
		return strconv.FormatUint(id, 10)
	case t[0] == "id" && len(t) == 2:
		k := parseKey(t[1])
		if d := r.checkPart(k); d != "" {
			return d
		}
		return strconv.FormatUint(r.seriesID(k), 10)
	case t[0] == "key" && len(t) == 2:
		key := r.sf.SeriesKey(u64(t[1]))
		if key == nil {
			return "nil"
		}
		return h.Hex(key)
	case t[0] == "reopen" && len(t) == 1:
		if err := r.sf.Close(); err != nil {
			return "err-close"
		}
		r.open()
		return "ok"
	case t[0] == "compact" && len(t) == 2:
		p := int(atoi(t[1]))
		if p < 0 || p >= tsdb.SeriesFilePartitionN {
			return "bad-op"
		}
		if err := tsdb.NewSeriesPartitionCompactor().Compact(r.sf.Partitions()[p]); err != nil {
			return "err"
		}
		return "ok"
	case t[0] == "threshold" && len(t) == 2:
		n := int(atoi(t[1]))
		if n < 0 {
			return "bad-op"
		}
		r.threshold = n
		r.applyThreshold()
		return "ok"
	case t[0] == "segcompact" && len(t) == 1:
		return r.segCompact()
	case t[0] == "torn" && len(t) == 3:
		k := parseKey(t[1])
		cut := atoi(t[2])
		if cut < 0 {
			return "bad-op"
		}
		if d := r.checkPart(k); d != "" {
			return d
		}
		p := r.sf.Partitions()[k.part]
		segs := p.Segments()
		seg := segs[len(segs)-1]
		path, size0 := seg.Path(), seg.Size()
		p.CompactThreshold = 0 // a crashed create never got as far as compacting the index
		if _, err := r.create([]keyTok{k}); err != nil {
			return "err"
		}
		if len(p.Segments()) != len(segs) {
			return "segment-rolled" // not modelled (needs 4 MB of entries)
		}
		size1 := seg.Size()
		if err := r.sf.Close(); err != nil {
			return "err-close"
		}
		tear(path, size0+cut, size1)
		r.open()
		r.see(k)
		id := r.seriesID(k)
		r.issue(id)
		return strconv.FormatUint(id, 10)
	case t[0] == "torndel" && len(t) == 3:
		id := u64(t[1])
		cut := atoi(t[2])
		if cut < 0 {
			return "bad-op"
		}
		p := r.sf.SeriesIDPartition(id)
		segs := p.Segments()
		seg := segs[len(segs)-1]
		path, size0 := seg.Path(), seg.Size()
		if _, err := r.sf.DeleteSeriesID(id, true); err != nil {
			return "err"
		}
		if len(p.Segments()) != len(segs) {
			return "segment-rolled"
		}
		size1 := seg.Size()
		if err := r.sf.Close(); err != nil {
			return "err-close"
		}
		tear(path, size0+cut, size1)
		r.open()
		return h.B(r.sf.IsDeleted(id))
	case t[0] == "smallseg" && len(t) == 2:
		id := atoi(t[1])
		if id < 0 || id > 0xffff {
			return "bad-op"
		}
		if !r.fresh() {
			return "bad-op"
		}
		if err := r.sf.Close(); err != nil {
			return "err-close"
		}
		for i := 0; i < tsdb.SeriesFilePartitionN; i++ {
			dir := r.sf.SeriesPartitionPath(i)
			if err := os.Remove(filepath.Join(dir, "0000")); err != nil {
				return "err-remove"
			}
			seg, err := tsdb.CreateSeriesSegment(uint16(id), filepath.Join(dir, fmt.Sprintf("%04x", id)))
			if err != nil {
				return "err-create"
			}
			seg.Close()
		}
		r.open()
		return "ok"
	case t[0] == "hdrseg" && len(t) == 2:
		pi := int(atoi(t[1]))
		if pi < 0 || pi >= tsdb.SeriesFilePartitionN {
			return "bad-op"
		}
		segs := r.sf.Partitions()[pi].Segments()
		next := segs[len(segs)-1].ID() + 1
		dir := r.sf.SeriesPartitionPath(pi)
		if err := r.sf.Close(); err != nil {
			return "err-close"
		}
		seg, err := tsdb.CreateSeriesSegment(next, filepath.Join(dir, fmt.Sprintf("%04x", next)))
		if err != nil {
			return "err-create"
		}
		seg.Close()
		r.open()
		return "ok"
	case t[0] == "allids" && len(t) == 1:
		ss := make([]string, len(r.seenKeys))
		for i, k := range r.seenKeys {
			ss[i] = h.Hex(k.key) + "=" + strconv.FormatUint(r.seriesID(k), 10)
		}
		return h.Join(ss)
	case t[0] == "allkeys" && len(t) == 1:
		ss := make([]string, len(r.issued))
		for i, id := range r.issued {
			key := r.sf.SeriesKey(id)
			if key == nil {
				ss[i] = strconv.FormatUint(id, 10) + "=nil"
			} else {
				ss[i] = strconv.FormatUint(id, 10) + "=" + h.Hex(key)
			}
		}
		return h.Join(ss)
	case t[0] == "state" && len(t) == 2:
		pi := int(atoi(t[1]))
		if pi < 0 || pi >= tsdb.SeriesFilePartitionN {
			return "bad-op"
		}
		p := r.sf.Partitions()[pi]
		ms, mo, od, im, tb := p.VerifIndexState()
		return fmt.Sprintf("%d %d %d %d %d %d", p.VerifSeq(), ms, mo, od, im, tb)
	case t[0] == "dump" && len(t) == 2:
		pi := int(atoi(t[1]))
		if pi < 0 || pi >= tsdb.SeriesFilePartitionN {
			return "bad-op"
		}
		var ss []string
		for _, seg := range r.sf.Partitions()[pi].Segments() {
			seg.ForEachEntry(func(flag uint8, id uint64, offset int64, key []byte) error {
				ss = append(ss, fmt.Sprintf("%d:%d:%d:%s", flag, id, offset, h.Hex(key)))
				return nil
			})
		}
		return h.Join(ss)
	}
	return "bad-op"
}

// segCompact performs the steps of cmd/influxd/inspect/build_tsi.compactSeriesFilePartition
// on every partition (the tool opens each partition on its own, rewrites every segment with
// SeriesSegment.CompactToPath, swaps the files in and removes the index file).
func (r *runner) segCompact() string {
	if err := r.sf.Close(); err != nil {
		return "err-close"
	}
	for i := 0; i < tsdb.SeriesFilePartitionN; i++ {
		path := r.sf.SeriesPartitionPath(i)
		p := tsdb.NewSeriesPartition(i, path, nil)
		if err := p.Open(); err != nil {
			return "err-open"
		}
		indexPath := p.IndexPath()
		var segPaths []string
		for _, seg := range p.Segments() {
			if err := seg.CompactToPath(seg.Path()+".tmp", p.Index()); err != nil {
				p.Close()
				r.open()
				return "err-compact"
			}
			segPaths = append(segPaths, seg.Path())
		}
		if err := p.Close(); err != nil {
			return "err-close"
		}
		for _, dst := range segPaths {
			if err := os.Rename(dst+".tmp", dst); err != nil && !os.IsNotExist(err) {
				return "err-rename"
			}
		}
		if err := os.Remove(indexPath); err != nil && !os.IsNotExist(err) {
			return "err-remove"
		}
	}
	r.open()
	return "ok"
}

// ---------------------------------------------------------------- generator

var sfProbe = tsdb.NewSeriesFile("")

func mkKey(name string, tags ...string) keyTok {
	var ts models.Tags
	for i := 0; i+1 < len(tags); i += 2 {
		ts = append(ts, models.Tag{Key: []byte(tags[i]), Value: []byte(tags[i+1])})
	}
	key := tsdb.AppendSeriesKey(nil, []byte(name), ts)
	return keyTok{key, sfProbe.SeriesKeyPartitionID(key)}
}

func (k keyTok) tok() string { return h.Hex(k.key) + ":" + strconv.Itoa(k.part) }

func keyPool(r *h.Rand, n int, nul bool) []keyTok {
	var pool []keyTok
	for i := 0; len(pool) < n; i++ {
		name := fmt.Sprintf("m%d", i)
		switch {
		case nul && i%3 == 0:
			// a name ending in NUL and, in the SAME partition, a name differing from it in the
			// last byte only: a create of the second one torn inside that byte leaves the bytes
			// of the first one's key
			a := mkKey(fmt.Sprintf("n%d\x00", i/3))
			pool = append(pool, a)
			for c := 'a'; c <= 'z'; c++ {
				if b := mkKey(fmt.Sprintf("n%d%c", i/3, c)); b.part == a.part {
					pool = append(pool, b)
					break
				}
			}
			continue
		case r.Chance(0.25):
			pool = append(pool, mkKey(name, "host", fmt.Sprintf("h%d", r.Intn(3))))
			continue
		case r.Chance(0.1):
			pool = append(pool, mkKey(name, "a", "1", "b", fmt.Sprintf("%d", r.Intn(2))))
			continue
		}
		pool = append(pool, mkKey(name))
	}
	return pool
}

// poolInPartition returns n distinct keys that all live in partition p.
func poolInPartition(n, p int) []keyTok {
	var pool []keyTok
	for i := 0; len(pool) < n; i++ {
		k := mkKey(fmt.Sprintf("s%d", i))
		if k.part == p {
			pool = append(pool, k)
		}
	}
	return pool
}

type genOpts struct {
	nops       int
	torn       bool
	segcompact bool
	nul        bool
	npool      int
}

func genCase(r *h.Rand, o genOpts) []string {
	pool := keyPool(r, o.npool, o.nul)
	var ops []string
	if r.Chance(0.5) {
		ops = append(ops, fmt.Sprintf("threshold %d", h.Pick(r, []int{0, 1, 2, 3, 5, 8})))
	}
	batch := func() string {
		n := 1 + r.Intn(4)
		ss := make([]string, n)
		for i := range ss {
			ss[i] = h.Pick(r, pool).tok()
		}
		return strings.Join(ss, ",")
	}
	for i := 0; i < o.nops; i++ {
		x := r.Intn(100)
		switch {
		case x < 30:
			ops = append(ops, "create "+batch())
		case x < 40:
			ops = append(ops, "delkey "+h.Pick(r, pool).tok())
		case x < 43:
			ops = append(ops, fmt.Sprintf("delete %d", r.Range(1, 60)))
		case x < 53:
			ops = append(ops, "id "+h.Pick(r, pool).tok())
		case x < 60:
			ops = append(ops, fmt.Sprintf("key %d", r.Range(0, 60)))
		case x < 66:
			ops = append(ops, "reopen")
		case x < 72:
			ops = append(ops, fmt.Sprintf("compact %d", r.Intn(8)))
		case x < 74:
			ops = append(ops, fmt.Sprintf("threshold %d", h.Pick(r, []int{0, 1, 2, 4})))
		case x < 80:
			ops = append(ops, "allids")
		case x < 85:
			ops = append(ops, "allkeys")
		case x < 88:
			ops = append(ops, fmt.Sprintf("state %d", r.Intn(8)))
		case x < 91:
			ops = append(ops, fmt.Sprintf("dump %d", r.Intn(8)))
		case x < 96:
			if o.torn {
				k := h.Pick(r, pool)
				ops = append(ops, fmt.Sprintf("torn %s %d", k.tok(), r.Range(0, int64(9+len(k.key)))), "allids", "allkeys")
			} else {
				ops = append(ops, "create "+batch())
			}
		default:
			if o.segcompact {
				ops = append(ops, "segcompact")
			} else if o.torn && r.Chance(0.3) {
				ops = append(ops, fmt.Sprintf("torndel %d %d", r.Range(1, 40), r.Range(0, 9)), "allids", "allkeys")
			} else {
				ops = append(ops, "reopen")
			}
		}
	}
	ops = append(ops, "allids", "allkeys", "reopen", "allids", "allkeys")
	for p := 0; p < 8; p++ {
		ops = append(ops, fmt.Sprintf("state %d", p))
	}
	return ops
}

// genBigPartition creates many series in ONE partition, so that ids reach 256 and beyond
// (ids of partition p are p+1, p+9, …), then tears a create inside the 8-byte id.
func genBigPartition(r *h.Rand, p int) []string {
	n := 33 + r.Intn(6)
	pool := poolInPartition(n+2, p)
	var ops []string
	if r.Chance(0.5) {
		ops = append(ops, fmt.Sprintf("threshold %d", h.Pick(r, []int{0, 16, 40})))
	}
	for i := 0; i < n; {
		j := i + 1 + r.Intn(6)
		if j > n {
			j = n
		}
		ss := []string{}
		for _, k := range pool[i:j] {
			ss = append(ss, k.tok())
		}
		ops = append(ops, "create "+strings.Join(ss, ","))
		i = j
	}
	ops = append(ops, "allids", "allkeys")
	ops = append(ops, fmt.Sprintf("torn %s %d", pool[n].tok(), r.Range(1, 9)), "allids", "allkeys")
	if r.Chance(0.5) {
		ops = append(ops, fmt.Sprintf("compact %d", p), "allids", "allkeys")
	}
	ops = append(ops, "create "+pool[n+1].tok(), "reopen", "allids", "allkeys", fmt.Sprintf("state %d", p))
	return ops
}

// genRoll: tiny segments (64..256 bytes first, doubling), so that the log of a partition rolls
// over to new segments every few entries: creates, deletes (a tombstone can be the entry that
// rolls over), reopen, index compaction, and header-only newest segments (crashed roll-over).
func genRoll(r *h.Rand, nops int) []string {
	var pool []keyTok
	for i := 0; len(pool) < 10+r.Intn(25); i++ {
		pool = append(pool, mkKey(fmt.Sprintf("r%d", i)))
	}
	ops := []string{fmt.Sprintf("smallseg %d", 0xfff0+r.Intn(3))}
	if r.Chance(0.4) {
		ops = append(ops, fmt.Sprintf("threshold %d", h.Pick(r, []int{0, 2, 3, 5})))
	}
	batch := func() string {
		n := 1 + r.Intn(4)
		ss := make([]string, n)
		for i := range ss {
			ss[i] = h.Pick(r, pool).tok()
		}
		return strings.Join(ss, ",")
	}
	for i := 0; i < nops; i++ {
		x := r.Intn(100)
		switch {
		case x < 34:
			ops = append(ops, "create "+batch())
		case x < 48:
			ops = append(ops, "delkey "+h.Pick(r, pool).tok())
		case x < 50:
			ops = append(ops, fmt.Sprintf("delete %d", r.Range(1, 80)))
		case x < 56:
			ops = append(ops, "id "+h.Pick(r, pool).tok())
		case x < 60:
			ops = append(ops, fmt.Sprintf("key %d", r.Range(0, 80)))
		case x < 70:
			ops = append(ops, "reopen")
		case x < 75:
			ops = append(ops, fmt.Sprintf("compact %d", r.Intn(8)))
		case x < 81:
			ops = append(ops, "allids")
		case x < 86:
			ops = append(ops, "allkeys")
		case x < 89:
			ops = append(ops, fmt.Sprintf("state %d", r.Intn(8)))
		case x < 93:
			ops = append(ops, fmt.Sprintf("dump %d", r.Intn(8)))
		default:
			// crashed roll-over in the partition of some key, then series are created there
			k := h.Pick(r, pool)
			ops = append(ops, fmt.Sprintf("hdrseg %d", k.part), "create "+k.tok()+","+batch(), "allids", "allkeys")
		}
	}
	ops = append(ops, "allids", "allkeys", "reopen", "create "+batch(), "allids", "allkeys")
	for p := 0; p < 8; p++ {
		ops = append(ops, fmt.Sprintf("state %d", p), fmt.Sprintf("dump %d", p))
	}
	return ops
}

// genNulCollision: a series whose name ends in NUL exists; creating a series whose key
// differs only in that byte is torn exactly before it.
func genNulCollision(r *h.Rand) []string {
	i := r.Intn(50)
	a := mkKey(fmt.Sprintf("n%d\x00", i))
	var b keyTok
	for c := 'a'; c <= 'z'; c++ {
		if b = mkKey(fmt.Sprintf("n%d%c", i, c)); b.part == a.part {
			break
		}
	}
	if b.part != a.part {
		return []string{"reopen"}
	}
	other := mkKey(fmt.Sprintf("m%d", r.Intn(9)))
	ops := []string{"create " + other.tok() + "," + a.tok(), "allids"}
	// the key's last name byte sits at len(key)-2 (the tag count follows it)
	cut := 9 + len(b.key) - 2
	if r.Chance(0.3) {
		cut = 9 + r.Intn(len(b.key)+1)
	}
	ops = append(ops, fmt.Sprintf("torn %s %d", b.tok(), cut), "allids", "allkeys", "create "+a.tok()+","+b.tok(), "reopen", "allids", "allkeys")
	return ops
}

func gen(r *h.Rand, tier string, emit func([]string)) {
	n := 24
	if tier == "thorough" {
		n = 400
	}
	for i := 0; i < n; i++ {
		emit(genCase(r, genOpts{nops: 30 + r.Intn(50), npool: 6 + r.Intn(30)}))
		emit(genCase(r, genOpts{nops: 30 + r.Intn(40), npool: 6 + r.Intn(20), torn: true}))
		if i%4 == 0 {
			emit(genCase(r, genOpts{nops: 30 + r.Intn(40), npool: 6 + r.Intn(20), segcompact: true}))
		}
		if i%4 == 1 {
			emit(genCase(r, genOpts{nops: 30 + r.Intn(30), npool: 12, torn: true, nul: true}))
		}
		if i%8 == 2 {
			emit(genBigPartition(r, 7))
		}
		if i%8 == 6 {
			emit(genBigPartition(r, r.Intn(7)))
		}
		if i%8 == 3 {
			emit(genNulCollision(r))
		}
		emit(genRoll(r, 30+r.Intn(40)))
	}
	emit([]string{"create", "create zz", "create 6161", "create 6161:9", "id 61:1 x", "key x", "delete -1", "torn 6161:1", "state 9", "reopen", "smallseg 70000", "hdrseg 8", "allids"})
}

func main() { h.Main(h.Harness{Gen: gen, NewCase: newCase, OpTimeout: 60 * time.Second}) }
