// Harness for C18 (each point lands in one shard group that contains it, also after
// restart): real meta.Client on an in-memory kv store, coordinator.PointsWriter.MapShards,
// restart = a new meta.Client opened on the same store (Data.MarshalBinary/UnmarshalBinary).
package main

import (
	m "verif/harness/cmd/c19/metah"
	"verif/harness/h"
)

var durations = []int64{1, 2, 3, 7, 10, 999, 1_000_003, 1_000_000_000, 59_999_999_999, m.Hour - 1, m.Hour, m.Hour + 1,
	2 * m.Hour, m.Day, 7 * m.Day, 30 * m.Day, 365 * m.Day, 36500 * m.Day, 1 << 62, 1<<63 - 1}

func clampT(v int64) int64 { return v }

// timestamps: extremes, around the epoch, around multiples of the duration
func pickT(r *h.Rand, sgd int64, prev []int64) int64 {
	sat := func(a, b int64) int64 { // saturating add into [MinNano, MaxNano]
		c := a + b
		if b > 0 && c < a || c > m.MaxNano {
			return m.MaxNano
		}
		if b < 0 && c > a || c < m.MinNano {
			return m.MinNano
		}
		return c
	}
	switch r.Intn(10) {
	case 0:
		return h.Pick(r, []int64{m.MinNano, m.MinNano + 1, m.MaxNano, m.MaxNano - 1})
	case 1:
		return h.Pick(r, []int64{0, -1, 1, -2, 2})
	case 2:
		if len(prev) > 0 { // neighbours of an earlier timestamp
			return sat(h.Pick(r, prev), h.Pick(r, []int64{-1, 1, sgd, -sgd, sgd - 1, 1 - sgd, 2 * sgd}))
		}
		return r.Range(-1000, 1000)
	case 3:
		return sat(h.Pick(r, []int64{m.MinNano, m.MaxNano}), r.Range(-3, 3)*sgd+r.Range(-2, 2))
	case 4:
		return sat(0, r.Range(-5, 5)*sgd+r.Range(-2, 2))
	case 5:
		return sat(1_700_000_000_000_000_000, r.Range(-5, 5)*sgd+r.Range(-2, 2))
	case 6:
		return r.Range(m.MinNano, -1)
	case 7:
		return r.Range(0, m.MaxNano)
	case 8:
		return sat(-2_000_000_000_000_000_000, r.Range(-50, 50)*m.Hour)
	default:
		if len(prev) > 0 {
			return h.Pick(r, prev)
		}
		return r.Range(-1_000_000, 1_000_000)
	}
}

func genCase(r *h.Rand, emit func([]string)) {
	type pol struct {
		db, rp string
		sgd    int64
		ts     []int64
	}
	var pols []pol
	var ops []string
	npol := 1 + r.Intn(2)
	for i := 0; i < npol; i++ {
		p := pol{db: m.Fmt("db%d", r.Intn(2)), rp: m.Fmt("rp%d", i), sgd: h.Pick(r, durations)}
		raw := 1
		if p.sgd >= m.Hour && r.Chance(0.5) {
			raw = 0
		}
		ops = append(ops, m.Fmt("rp %s %s %d %d", p.db, p.rp, p.sgd, raw))
		pols = append(pols, p)
	}
	steps := 3 + r.Intn(8)
	for s := 0; s < steps; s++ {
		p := &pols[r.Intn(len(pols))]
		switch k := r.Intn(12); {
		case k < 5:
			n := 1 + r.Intn(5)
			var ts []int64
			for j := 0; j < n; j++ {
				ts = append(ts, pickT(r, p.sgd, p.ts))
			}
			p.ts = append(p.ts, ts...)
			ops = append(ops, m.Fmt("ms %s %s - %s", p.db, p.rp, m.JoinI(ts)))
		case k < 6:
			t := pickT(r, p.sgd, p.ts)
			p.ts = append(p.ts, t)
			ops = append(ops, m.Fmt("csg %s %s %d", p.db, p.rp, t))
		case k < 7:
			if r.Chance(0.4) && len(p.ts) > 0 {
				// precreate the successor of the last group: window around an earlier timestamp
				t := h.Pick(r, p.ts)
				from, to := t-r.Range(0, 3)*p.sgd-1, t+r.Range(1, 3)*p.sgd
				if from > t || to < t { // overflow
					from, to = m.MinNano, m.MaxNano
				}
				if to > m.MaxNano {
					to = m.MaxNano
				}
				ops = append(ops, m.Fmt("pre %d %d", from, to))
			} else {
				ops = append(ops, "restart")
			}
		case k < 8:
			// change the shard group duration: later groups are no longer aligned with the existing ones
			p.sgd = h.Pick(r, durations)
			if r.Chance(0.5) && p.sgd > 3 {
				p.sgd = p.sgd/2 + r.Range(0, p.sgd/3)
			}
			ops = append(ops, m.Fmt("sgd %s %s %d", p.db, p.rp, p.sgd))
		case k < 9:
			ops = append(ops, m.Fmt("dump %s %s", p.db, p.rp))
		case k < 10 && len(p.ts) > 0:
			ops = append(ops, m.Fmt("find %s %s %d", p.db, p.rp, h.Pick(r, p.ts)))
		case k < 11 && len(p.ts) > 0:
			a, b := h.Pick(r, p.ts), h.Pick(r, p.ts)
			if a > b {
				a, b = b, a
			}
			if r.Chance(0.3) {
				a, b = m.MinNano, m.MaxNano
			}
			ops = append(ops, m.Fmt("range %s %s %d %d", p.db, p.rp, a, b))
		default:
			if r.Chance(0.3) && len(p.ts) > 0 { // delete a group, then write into its range again
				ops = append(ops, m.Fmt("del %s %s %d", p.db, p.rp, 1+r.Intn(len(p.ts))))
			} else {
				ops = append(ops, m.Fmt("dump %s %s", p.db, p.rp))
			}
		}
	}
	// close: reload, then look every timestamp up again
	ops = append(ops, "restart")
	for i := range pols {
		p := &pols[i]
		ops = append(ops, m.Fmt("dump %s %s", p.db, p.rp))
		for j, t := range p.ts {
			if j < 6 {
				ops = append(ops, m.Fmt("find %s %s %d", p.db, p.rp, t))
			}
		}
		if len(p.ts) > 0 {
			ops = append(ops, m.Fmt("range %s %s %d %d", p.db, p.rp, m.MinNano, m.MaxNano))
		}
	}
	emit(ops)
}

// genWiden: a group is created and deleted (not pruned), the shard group duration is increased, a
// write into the old range creates the wider group over the deleted one, then writes land inside the
// wide group before / after the deleted group: every lookup must still find the one wide group.
func genWiden(r *h.Rand, emit func([]string)) {
	base := h.Pick(r, []int64{m.Hour, 2 * m.Hour, m.Day})
	k := h.Pick(r, []int64{4, 6, 8, 12, 24})
	wide := base * k
	// a wide-group start (multiple of `wide` since year 1; 62135596800 s is a multiple of 24h*... so use TruncBounds)
	anchor := h.Pick(r, []int64{0, 1_700_000_000_000_000_000, -2_000_000_000_000_000_000, 40 * m.Day}) + r.Range(-50, 50)*wide
	ws, _ := m.TruncBounds(anchor, wide)
	w0 := ws.Int64()
	j := r.Range(1, k-1) // the old group is the j-th base-sized slot of the wide range (never the first)
	t1 := w0 + j*base + r.Range(0, base-1)
	ops := []string{m.Fmt("rp db0 rp0 %d 1", base), m.Fmt("ms db0 rp0 - %d", t1), "del db0 rp0 1"}
	if r.Chance(0.3) {
		ops = append(ops, "restart")
	}
	ops = append(ops, m.Fmt("sgd db0 rp0 %d", wide))
	tIn := w0 + j*base + r.Range(0, base-1)
	ops = append(ops, m.Fmt("ms db0 rp0 - %d", tIn), "dump db0 rp0")
	before := w0 + r.Range(0, j*base-1)
	after := w0 + (j+1)*base + r.Range(0, (k-j-1)*base-1)
	ts := []int64{before, after, w0, w0 + wide - 1}
	for i := 0; i < 2+r.Intn(3); i++ {
		t := h.Pick(r, ts)
		if r.Bool() {
			ops = append(ops, m.Fmt("ms db0 rp0 - %d", t))
		} else {
			ops = append(ops, m.Fmt("csg db0 rp0 %d", t))
		}
		ops = append(ops, m.Fmt("find db0 rp0 %d", t))
	}
	ops = append(ops, m.Fmt("find db0 rp0 %d", before), m.Fmt("range db0 rp0 %d %d", w0, w0+wide-1), "dump db0 rp0", "restart",
		m.Fmt("find db0 rp0 %d", tIn), m.Fmt("find db0 rp0 %d", before), "dump db0 rp0")
	emit(ops)
}

func gen(r *h.Rand, tier string, emit func([]string)) {
	// the F7 shape: the first group of the representable range, 7-day groups, reload, look up
	emit([]string{"rp db0 rp0 0 0", m.Fmt("ms db0 rp0 - %d", m.MinNano), "dump db0 rp0", "restart", m.Fmt("find db0 rp0 %d", m.MinNano),
		m.Fmt("range db0 rp0 %d %d", m.MinNano, m.MaxNano), "dump db0 rp0"})
	emit([]string{"rp db0 rp0 0 0", m.Fmt("ms db0 rp0 - %d,0,-1,1", m.MaxNano), "dump db0 rp0", "restart", m.Fmt("find db0 rp0 %d", m.MaxNano),
		"find db0 rp0 0", "find db0 rp0 -1", m.Fmt("range db0 rp0 %d %d", m.MinNano, m.MaxNano), "dump db0 rp0"})
	emit([]string{"rp db0 rp0 0 1", "ms db0 rp0 - 5", "rp db0 rp1 -3 1", "csg db0 rp1 7", "dump db0 rp1", "frob", "csg db0 rp0 x", "restart"})
	n := 400
	if tier == "thorough" {
		n = 5000
	}
	for i := 0; i < n; i++ {
		genCase(r, emit)
		if i%8 == 0 {
			genWiden(r, emit)
		}
	}
}

func main() {
	h.Main(h.Harness{Gen: gen, NewCase: func() h.CaseRunner { return m.NewRunner() }})
}
