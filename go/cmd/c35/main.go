// Harness for C35: drives the real hll.Plus (pkg/estimator/hll) with an identity
// "hash" installed through the verif hook, so that the model sees the same 64-bit hashes.
package main

import (
	"encoding/binary"
	"encoding/hex"
	"fmt"
	"strconv"
	"strings"

	"github.com/influxdata/influxdb/v2/pkg/estimator/hll"
	"verif/harness/h"
)

func idHash(b []byte) uint64 { return binary.BigEndian.Uint64(b) }

func splitmixNext(s uint64) (uint64, uint64) {
	s += 0x9E3779B97F4A7C15
	z := s
	z = (z ^ (z >> 30)) * 0xBF58476D1CE4E5B9
	z = (z ^ (z >> 27)) * 0x94D049BB133111EB
	return s, z ^ (z >> 31)
}

func fnv(bs []byte) uint64 {
	hh := uint64(14695981039346656037)
	for _, b := range bs {
		hh = (hh ^ uint64(b)) * 1099511628211
	}
	return hh
}

func renderBytes(bs []byte) string {
	if len(bs) <= 4096 {
		if len(bs) == 0 {
			return "-"
		}
		return hex.EncodeToString(bs)
	}
	return fmt.Sprintf("d%016x.%d", fnv(bs), len(bs))
}

type runner struct {
	vars map[int]*hll.Plus
	sets map[int]map[uint64]struct{} // the distinct hashes that went into each variable
}

func copySet(m map[uint64]struct{}) map[uint64]struct{} {
	c := make(map[uint64]struct{}, len(m))
	for k := range m {
		c[k] = struct{}{}
	}
	return c
}

func (r *runner) Close() {}

func newPlus(p int) *hll.Plus {
	if p < 0 || p > 255 {
		return nil
	}
	s, err := hll.NewPlus(uint8(p))
	if err != nil {
		return nil
	}
	hll.VerifSetHash(s, idHash)
	return s
}

func addHash(s *hll.Plus, x uint64) {
	var b [8]byte
	binary.BigEndian.PutUint64(b[:], x)
	s.Add(b[:])
}

func addStream(s *hll.Plus, seed uint64, n int) {
	st := seed
	for i := 0; i < n; i++ {
		var z uint64
		st, z = splitmixNext(st)
		addHash(s, z)
	}
}

func clone(s *hll.Plus) *hll.Plus {
	c := s.Clone().(*hll.Plus)
	hll.VerifSetHash(c, idHash)
	return c
}

// regsOf: registers of a dense sketch
func denseRegs(s *hll.Plus) []byte { return hll.VerifDump(s).Dense }

// normalised: NewPlus(p).Merge(s)
func normalised(s *hll.Plus) *hll.Plus {
	e := newPlus(int(hll.VerifDump(s).P))
	if e == nil || e.Merge(s) != nil {
		return nil
	}
	return e
}

func mergeOk(a, b *hll.Plus) *hll.Plus {
	if a == nil || b == nil {
		return nil
	}
	c := clone(a)
	if c.Merge(clone(b)) != nil {
		return nil
	}
	return c
}

func two(l, r *hll.Plus) string {
	if l == nil || r == nil {
		return "err"
	}
	return renderBytes(denseRegs(l)) + " " + renderBytes(denseRegs(r))
}
func twoc(l, r *hll.Plus) string {
	if l == nil || r == nil {
		return "err"
	}
	return strconv.FormatUint(l.Count(), 10) + " " + strconv.FormatUint(r.Count(), 10)
}

func unmarshalOf(s *hll.Plus) (*hll.Plus, string) {
	data, err := s.MarshalBinary()
	if err != nil {
		return nil, "marshal-error"
	}
	var out hll.Plus
	if err := out.UnmarshalBinary(data); err != nil {
		if len(data) < 12 {
			return nil, "err-short"
		}
		return nil, "err-prec"
	}
	hll.VerifSetHash(&out, idHash)
	return &out, "ok"
}

func u32s(xs []uint32) string {
	if len(xs) == 0 {
		return "-"
	}
	ss := make([]string, len(xs))
	for i, x := range xs {
		ss[i] = strconv.FormatUint(uint64(x), 10)
	}
	return strings.Join(ss, ",")
}

func (r *runner) v(tok string) *hll.Plus {
	i, err := strconv.Atoi(tok)
	if err != nil {
		return nil
	}
	return r.vars[i]
}

func atoi(s string) int { i, _ := strconv.Atoi(s); return i }
func atou(s string) uint64 {
	u, _ := strconv.ParseUint(s, 10, 64)
	return u
}

func unionSketches(t []string) (sa, sb, su *hll.Plus, distinct int) {
	p, seedA, nA, ov, seedB, nB := atoi(t[1]), atou(t[2]), atoi(t[3]), atoi(t[4]), atou(t[5]), atoi(t[6])
	sa, sb, su = newPlus(p), newPlus(p), newPlus(p)
	if sa == nil {
		return nil, nil, nil, 0
	}
	addStream(sa, seedA, nA)
	addStream(sb, seedA, ov)
	addStream(sb, seedB, nB)
	addStream(su, seedA, nA)
	addStream(su, seedB, nB)
	addStream(su, seedA, ov)
	seen := map[uint64]struct{}{}
	st := seedA
	max := nA
	if ov > max {
		max = ov
	}
	for i := 0; i < max; i++ {
		var z uint64
		st, z = splitmixNext(st)
		seen[z] = struct{}{}
	}
	st = seedB
	for i := 0; i < nB; i++ {
		var z uint64
		st, z = splitmixNext(st)
		seen[z] = struct{}{}
	}
	return sa, sb, su, len(seen)
}

func (r *runner) Op(t []string) string {
	if len(t) == 0 {
		return "bad-op"
	}
	switch {
	case t[0] == "new" && len(t) == 3:
		s := newPlus(atoi(t[2]))
		if s == nil {
			return "err"
		}
		r.vars[atoi(t[1])] = s
		r.sets[atoi(t[1])] = map[uint64]struct{}{}
		return "ok"
	case t[0] == "add" && len(t) == 3:
		s := r.v(t[1])
		if s == nil {
			return "bad-op"
		}
		for _, x := range h.Split(t[2]) {
			addHash(s, atou(x))
			r.sets[atoi(t[1])][atou(x)] = struct{}{}
		}
		return "ok"
	case t[0] == "addr" && len(t) == 4:
		s := r.v(t[1])
		if s == nil {
			return "bad-op"
		}
		addStream(s, atou(t[2]), atoi(t[3]))
		st := atou(t[2])
		for i := 0; i < atoi(t[3]); i++ {
			var z uint64
			st, z = splitmixNext(st)
			r.sets[atoi(t[1])][z] = struct{}{}
		}
		return "ok"
	case t[0] == "merge" && len(t) == 3:
		d, s := r.v(t[1]), r.v(t[2])
		if d == nil || s == nil {
			return "bad-op"
		}
		if err := d.Merge(s); err != nil {
			return "err"
		}
		for k := range r.sets[atoi(t[2])] {
			r.sets[atoi(t[1])][k] = struct{}{}
		}
		return "ok"
	case t[0] == "clone" && len(t) == 3:
		s := r.v(t[2])
		if s == nil {
			return "bad-op"
		}
		r.vars[atoi(t[1])] = clone(s)
		r.sets[atoi(t[1])] = copySet(r.sets[atoi(t[2])])
		return "ok"
	case t[0] == "count" && len(t) == 2:
		s := r.v(t[1])
		if s == nil {
			return "bad-op"
		}
		return strconv.FormatUint(s.Count(), 10) + " " + strconv.Itoa(len(r.sets[atoi(t[1])])) + " " + strconv.Itoa(int(hll.VerifDump(s).P))
	case t[0] == "realx" && len(t) == 3:
		// the real hash function (xxhash), default precision: n ordinary keys, then one given key
		s := hll.NewDefaultPlus()
		n := atoi(t[1])
		key, err := h.UnHex(t[2])
		if err != nil || n < 0 || n > 2000000 {
			return "bad-op"
		}
		for i := 0; i < n; i++ {
			s.Add([]byte("cpu,host=server-" + strconv.Itoa(i)))
		}
		c1 := s.Count()
		s.Add(key)
		return strconv.FormatUint(c1, 10) + " " + strconv.Itoa(n) + " " + strconv.FormatUint(s.Count(), 10) + " " + strconv.Itoa(n+1)
	case t[0] == "dump" && len(t) == 2:
		s := r.v(t[1])
		if s == nil {
			return "bad-op"
		}
		d := hll.VerifDump(s)
		sl := make([]byte, 0, 4*len(d.SparseVals))
		for _, v := range d.SparseVals {
			sl = binary.BigEndian.AppendUint32(sl, v)
		}
		return fmt.Sprintf("p=%d sparse=%s tmp=%s sl=%s n=%d bytes=%d dense=%s", d.P, h.B(d.Sparse), u32s(d.TmpSet),
			renderBytes(sl), d.SparseCount, d.SparseBytes, renderBytes(d.Dense))
	case t[0] == "marshal" && len(t) == 2:
		s := r.v(t[1])
		if s == nil {
			return "bad-op"
		}
		data, err := s.MarshalBinary()
		if err != nil {
			return "err"
		}
		return renderBytes(data)
	case t[0] == "unm" && len(t) == 3:
		s := r.v(t[2])
		if s == nil {
			return "bad-op"
		}
		out, st := unmarshalOf(s)
		if out != nil {
			set := copySet(r.sets[atoi(t[2])])
			r.vars[atoi(t[1])] = out
			r.sets[atoi(t[1])] = set
		}
		return st
	case t[0] == "unmraw" && len(t) == 3:
		data, err := h.UnHex(t[2])
		if err != nil {
			return "bad-op"
		}
		var out hll.Plus
		if err := out.UnmarshalBinary(data); err != nil {
			if len(data) < 12 {
				return "err-short"
			}
			return "err-prec"
		}
		hll.VerifSetHash(&out, idHash)
		r.vars[atoi(t[1])] = &out
		r.sets[atoi(t[1])] = map[uint64]struct{}{}
		return "ok"
	case t[0] == "regs" && len(t) == 2:
		s := r.v(t[1])
		if s == nil {
			return "bad-op"
		}
		n := normalised(s)
		if n == nil {
			return "bad-op"
		}
		return renderBytes(denseRegs(n))
	case (t[0] == "comm" || t[0] == "commc") && len(t) == 3:
		a, b := r.v(t[1]), r.v(t[2])
		if a == nil || b == nil {
			return "bad-op"
		}
		if t[0] == "comm" {
			return two(mergeOk(a, b), mergeOk(b, a))
		}
		return twoc(mergeOk(a, b), mergeOk(b, a))
	case (t[0] == "assoc" || t[0] == "assocc") && len(t) == 4:
		a, b, c := r.v(t[1]), r.v(t[2]), r.v(t[3])
		if a == nil || b == nil || c == nil {
			return "bad-op"
		}
		l, rr := mergeOk(mergeOk(a, b), c), mergeOk(a, mergeOk(b, c))
		if t[0] == "assoc" {
			return two(l, rr)
		}
		return twoc(l, rr)
	case (t[0] == "idem" || t[0] == "idemc") && len(t) == 2:
		a := r.v(t[1])
		if a == nil {
			return "bad-op"
		}
		if t[0] == "idem" {
			return two(mergeOk(a, a), normalised(clone(a)))
		}
		return twoc(mergeOk(a, a), normalised(clone(a)))
	case (t[0] == "mrt" || t[0] == "mrtc") && len(t) == 2:
		a := r.v(t[1])
		if a == nil {
			return "bad-op"
		}
		ac := clone(a)
		b, _ := unmarshalOf(ac)
		if b == nil {
			return "err"
		}
		if t[0] == "mrt" {
			return two(normalised(b), normalised(ac))
		}
		// the estimate of the sketch read back vs the estimate of the sketch itself
		return strconv.FormatUint(b.Count(), 10) + " " + strconv.FormatUint(ac.Count(), 10)
	case (t[0] == "union" || t[0] == "unionc") && len(t) == 7:
		sa, sb, su, distinct := unionSketches(t)
		if sa == nil {
			return "err"
		}
		if t[0] == "union" {
			return two(mergeOk(sa, sb), normalised(su))
		}
		l, rr := mergeOk(sa, sb), normalised(su)
		if l == nil || rr == nil {
			return "err"
		}
		return strconv.FormatUint(l.Count(), 10) + " " + strconv.FormatUint(rr.Count(), 10) + " " + strconv.Itoa(distinct)
	}
	return "bad-op"
}

// ---------------------------------------------------------------- generator

func edgeHash(r *h.Rand, p int) uint64 {
	// hashes that exercise the encodeHash/decodeHash branches: long zero runs after the index bits
	idx := r.Uint64() >> uint(64-p) << uint(64-p)
	switch r.Intn(8) {
	case 0:
		return idx // all remaining bits zero: maximal rho
	case 1:
		return idx | 1
	case 2: // zero middle bits (between p and 25), random low bits
		return idx | (r.Uint64() >> 25)
	case 3: // zero middle bits and a long zero run below
		return idx | (r.Uint64()>>25)>>uint(r.Intn(39))
	case 4: // first one exactly at the p'/p boundary
		return idx | 1<<uint(64-25) | (r.Uint64() >> 26)
	case 5:
		return idx | 1<<uint(64-25-1) | (r.Uint64() >> 27)
	case 6:
		return h.Pick(r, []uint64{0, 1, ^uint64(0), 1 << 63, 1<<63 - 1, 1 << 38, 1 << 39, 1<<39 - 1, 1 << 40})
	default:
		return r.Uint64() >> uint(r.Intn(64))
	}
}

func hashList(r *h.Rand, p, n int) string {
	xs := make([]string, n)
	for i := range xs {
		var x uint64
		if r.Chance(0.5) {
			x = edgeHash(r, p)
		} else {
			x = r.Uint64()
		}
		xs[i] = strconv.FormatUint(x, 10)
	}
	return h.Join(xs)
}

func gen(r *h.Rand, tier string, emit func([]string)) {
	cases := 70
	if tier == "thorough" {
		cases = 500
	}
	for c := 0; c < cases; c++ {
		var ops []string
		p := h.Pick(r, []int{4, 4, 5, 6, 7, 8, 9, 10, 10, 11, 12, 12, 14})
		big := r.Chance(0.04)
		if big {
			p = h.Pick(r, []int{16, 16, 18})
		}
		m := 1 << uint(p)
		nv := 3 + r.Intn(3)
		if r.Chance(0.2) {
			ops = append(ops, "new 7 "+strconv.Itoa(h.Pick(r, []int{0, 3, 19, 25, 200})))
			ops = append(ops, "unmraw 7 "+h.Pick(r, []string{"-", "0204", "0204010000000000000000", "021301000000000000000000000000000000", "020301000000000000000000000000000000", "0204000000001000000000000000000000000000000000", "02040100000000000000000000000000000000"}))
		}
		for v := 0; v < nv; v++ {
			ops = append(ops, "new "+strconv.Itoa(v)+" "+strconv.Itoa(p))
		}
		if r.Chance(0.15) { // one sketch of another precision: Merge must refuse
			q := 4 + r.Intn(15)
			ops = append(ops, "new 6 "+strconv.Itoa(q), "addr 6 "+strconv.FormatUint(r.Uint64(), 10)+" "+strconv.Itoa(r.Intn(50)), "merge 0 6", "merge 6 0", "comm 0 6")
		}
		// fill: sizes around the sparse thresholds (m/100 tmp entries; ~m bytes of compressed list) and beyond
		size := func() int {
			switch r.Intn(6) {
			case 0:
				return r.Intn(4)
			case 1:
				return m/100 + r.Intn(4)
			case 2:
				return m/4 + r.Intn(m/2+1)
			case 3:
				return m/2 + r.Intn(m+1)
			case 4:
				return r.Intn(3*m + 1)
			default:
				return r.Intn(m + 1)
			}
		}
		capN := func(n int) int {
			if n > 60000 {
				return 60000
			}
			return n
		}
		seeds := []uint64{r.Uint64(), r.Uint64(), r.Uint64()}
		steps := 6 + r.Intn(10)
		if big {
			steps = 4
		}
		for i := 0; i < steps; i++ {
			v := strconv.Itoa(r.Intn(nv))
			w := strconv.Itoa(r.Intn(nv))
			switch r.Intn(16) {
			case 0, 1, 2:
				// shared seeds make sketches overlap
				ops = append(ops, "addr "+v+" "+strconv.FormatUint(h.Pick(r, seeds), 10)+" "+strconv.Itoa(capN(size())))
			case 3, 4:
				ops = append(ops, "add "+v+" "+hashList(r, p, 1+r.Intn(40)))
			case 5:
				ops = append(ops, "dump "+v)
			case 6:
				ops = append(ops, "merge "+v+" "+w)
			case 7:
				ops = append(ops, "count "+v, "dump "+v)
			case 8:
				ops = append(ops, "marshal "+v)
			case 9:
				ops = append(ops, "unm "+v+" "+w)
			case 10:
				ops = append(ops, "clone "+v+" "+w)
			case 11:
				ops = append(ops, "comm "+v+" "+w, "commc "+v+" "+w)
			case 12:
				x := strconv.Itoa(r.Intn(nv))
				ops = append(ops, "assoc "+v+" "+w+" "+x, "assocc "+v+" "+w+" "+x)
			case 13:
				ops = append(ops, "idem "+v, "idemc "+v)
			case 14:
				ops = append(ops, "mrt "+v, "mrtc "+v)
			default:
				ops = append(ops, "regs "+v)
			}
		}
		// every case ends with all the laws on its variables and a union experiment
		ops = append(ops, "dump 0", "dump 1", "comm 0 1", "commc 0 1", "assoc 0 1 2", "assocc 0 1 2", "idem 0", "idemc 0", "idem 2", "mrt 1", "mrtc 1", "mrt 2", "mrtc 2")
		nA, nB := capN(size()), capN(size())
		ov := 0
		if nA > 0 {
			ov = r.Intn(nA + 1)
		}
		args := strconv.Itoa(p) + " " + strconv.FormatUint(r.Uint64(), 10) + " " + strconv.Itoa(nA) + " " + strconv.Itoa(ov) + " " + strconv.FormatUint(r.Uint64(), 10) + " " + strconv.Itoa(nB)
		ops = append(ops, "union "+args, "unionc "+args)
		if r.Chance(0.25) { // a register of 32 or more (31+ zero bits below the index) on top of ordinary content
			v := strconv.Itoa(r.Intn(nv))
			x := (r.Uint64() >> uint(64-p) << uint(64-p)) | (r.Uint64()>>uint(p)>>uint(31+r.Intn(64-p-31+1)))
			ops = append(ops, "addr "+v+" "+strconv.FormatUint(r.Uint64(), 10)+" "+strconv.Itoa(capN(2*m)), "count "+v, "add "+v+" "+strconv.FormatUint(x, 10), "count "+v, "regs "+v)
		}
		if c == 3 { // the real xxhash: a key whose hash has 31 zero bits below the 16 index bits
			ops = append(ops, "realx 50000 "+h.HexS("cpu,host=server-862707449"))
		}
		if r.Chance(0.3) && !big { // larger cardinalities for the error statistics
			big := strconv.Itoa(p) + " " + strconv.FormatUint(r.Uint64(), 10) + " " + strconv.Itoa(capN(20*m)) + " 0 " + strconv.FormatUint(r.Uint64(), 10) + " " + strconv.Itoa(capN(10*m))
			ops = append(ops, "union "+big, "unionc "+big)
		}
		emit(ops)
	}
}

func main() {
	h.Main(h.Harness{Gen: gen, NewCase: func() h.CaseRunner {
		return &runner{vars: map[int]*hll.Plus{}, sets: map[int]map[uint64]struct{}{}}
	}})
}
