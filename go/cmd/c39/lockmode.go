package main

import (
	"go/ast"
	"go/parser"
	"go/token"
	"path/filepath"
)

// ExtractLockModes reads from the current source in which MODE Engine.mu is held
// at the two calls whose mutual exclusion the step model (Model.EngineSteps /
// Model.EngineBatch) rests on:
//
//	snapshot : in Engine.doWriteSnapshot, the call Cache.Snapshot()   — expected W (e.mu.Lock)
//	write    : in Engine.WritePoints,     the call Cache.WriteMulti() — expected R (e.mu.RLock)
//
// Cache.WriteMulti captures the hot store once and then writes its keys without
// the cache lock; only "snapshot holds Engine.mu exclusively, a write batch holds
// it shared" keeps a batch from writing into a store that has just become the
// snapshot.  Answer: "snapshot=W write=R" ("-" = no Engine.mu held, "?" = call not found).
func ExtractLockModes(repo string) string {
	file := filepath.Join(repo, "tsdb", "engine", "tsm1", "engine.go")
	return "snapshot=" + modeAt(file, "doWriteSnapshot", "Cache", "Snapshot") +
		" write=" + modeAt(file, "WritePoints", "Cache", "WriteMulti")
}

// modeAt scans function fn in source order (closures included) and returns the
// mode of the most recent e.mu.Lock / e.mu.RLock that has not been released by a
// non-deferred Unlock when the call <recv>.<field>.<method>() is reached.
func modeAt(file, fn, field, method string) string {
	fset := token.NewFileSet()
	f, err := parser.ParseFile(fset, file, nil, 0)
	if err != nil {
		return "?"
	}
	for _, d := range f.Decls {
		fd, ok := d.(*ast.FuncDecl)
		if !ok || fd.Name.Name != fn || fd.Body == nil || fd.Recv == nil {
			continue
		}
		mode, found := "-", false
		deferred := map[*ast.CallExpr]bool{}
		ast.Inspect(fd.Body, func(n ast.Node) bool {
			if found {
				return false
			}
			if ds, ok := n.(*ast.DeferStmt); ok {
				deferred[ds.Call] = true
			}
			c, ok := n.(*ast.CallExpr)
			if !ok {
				return true
			}
			sel, ok := c.Fun.(*ast.SelectorExpr)
			if !ok {
				return true
			}
			inner, ok := sel.X.(*ast.SelectorExpr)
			if !ok {
				return true
			}
			if inner.Sel.Name == "mu" { // e.mu.<op>()
				if _, isRecv := inner.X.(*ast.Ident); isRecv {
					switch sel.Sel.Name {
					case "Lock":
						mode = "W"
					case "RLock":
						mode = "R"
					case "Unlock", "RUnlock":
						if !deferred[c] {
							mode = "-"
						}
					}
				}
				return true
			}
			if inner.Sel.Name == field && sel.Sel.Name == method {
				found = true
				return false
			}
			return true
		})
		if !found {
			return "?"
		}
		return mode
	}
	return "?"
}
