package main

import (
	"go/ast"
	"go/parser"
	"go/token"
	"path/filepath"
	"sort"
	"strings"
)

// ExtractStepOrder reads from the current source the two statement orders the
// consistency proof (Props.C39) rests on:
//
//	read   : in arrayCursorIterator.buildIntegerArrayCursor, `Cache.Values` (cache)
//	         versus `KeyCursor` (files);
//	commit : in Engine.writeSnapshotAndCommit, `FileStore.Replace` (replace) versus
//	         the non-deferred `Cache.ClearSnapshot` (clear).
//
// Answer: "read=cache,files commit=replace,clear" (in source order; "?" when a
// call is not found).
func ExtractStepOrder(repo string) string {
	dir := filepath.Join(repo, "tsdb", "engine", "tsm1")
	read := callOrder(filepath.Join(dir, "array_cursor_iterator.gen.go"), "buildIntegerArrayCursor",
		map[string]string{"Values": "cache", "KeyCursor": "files"})
	commit := callOrder(filepath.Join(dir, "engine.go"), "writeSnapshotAndCommit",
		map[string]string{"Replace": "replace", "ClearSnapshot": "clear"})
	return "read=" + read + " commit=" + commit
}

func callOrder(file, fn string, names map[string]string) string {
	fset := token.NewFileSet()
	f, err := parser.ParseFile(fset, file, nil, 0)
	if err != nil {
		return "?"
	}
	type hit struct {
		pos  token.Pos
		name string
	}
	var hits []hit
	seen := map[string]bool{}
	for _, d := range f.Decls {
		fd, ok := d.(*ast.FuncDecl)
		if !ok || fd.Name.Name != fn || fd.Body == nil {
			continue
		}
		ast.Inspect(fd.Body, func(n ast.Node) bool {
			switch x := n.(type) {
			case *ast.DeferStmt, *ast.FuncLit, *ast.GoStmt:
				return false // error handlers and closures are not part of the straight-line order
			case *ast.CallExpr:
				if sel, ok := x.Fun.(*ast.SelectorExpr); ok {
					if label, ok := names[sel.Sel.Name]; ok && !seen[label] {
						seen[label] = true
						hits = append(hits, hit{x.Pos(), label})
					}
				}
			}
			return true
		})
	}
	if len(hits) != len(names) {
		return "?"
	}
	sort.Slice(hits, func(i, j int) bool { return hits[i].pos < hits[j].pos })
	var out []string
	for _, h := range hits {
		out = append(out, h.name)
	}
	return strings.Join(out, ",")
}
