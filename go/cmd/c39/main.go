package main

import (
	"fmt"
	"os"
)

func main() {
	if len(os.Args) > 1 && os.Args[1] == "lockorder" {
		repo := "/repo"
		if len(os.Args) > 2 {
			repo = os.Args[2]
		}
		edges, wit, selfs, unres, err := ExtractLockOrder(repo)
		if err != nil {
			fmt.Println("error:", err)
			os.Exit(1)
		}
		for _, e := range edges {
			fmt.Printf("%-60s @ %s\n", e, wit[e])
		}
		fmt.Println("self-nesting:", selfs)
		fmt.Println("unresolved:", unres)
		return
	}
}
