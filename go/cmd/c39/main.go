// Harness for C39: (1) extracts the lock-acquisition order and the two step orders
// from the current Go source (lockorder.go), (2) drives the real tsdb.Shard /
// tsm1.Engine through *controlled schedules*: cache snapshots, full compactions,
// range deletes and reads are started in goroutines and held at their lock
// boundaries (the verifPoint call sites of the engine and the two-phase read of
// verif_c39.go) while other operations run; (3) thorough tier: free-running
// concurrent workloads as supporting evidence.
//
//	w <k> <t> <v>            write one integer point of series m,k=<k> field v
//	snap-begin               start Engine.WriteSnapshot, hold it after Cache.Snapshot
//	snap-replace             let it run to after FileStore.Replace (or to its end when the snapshot is empty)
//	snap-clear               let it run to its end (Cache.ClearSnapshot, WAL removal)
//	compact-begin            start a full compaction of all current files, hold it before FileStore.Replace
//	compact-commit           let it finish
//	del <k> <lo> <hi>        Shard.DeleteSeriesRange, start to end
//	del-begin <k> <lo> <hi>  start it, hold it after the TSM tombstones, before Cache.DeleteRange
//	del-end                  let it finish
//	read <k>                 read every point of the series (real cursor)
//	read-begin <r> <k>       phase 1 of a read (Cache.Values)
//	read-end <r>             phase 2 (KeyCursor + cursor merge)
//	lockorder <A>B,...>      the extracted acquisition pairs; answer: Go's own cycle check
//	steporder                answer: the two statement orders found in the source
package main

import (
	"context"
	"fmt"
	"os"
	"path/filepath"
	"runtime"
	"sort"
	"strconv"
	"strings"
	"sync"
	"sync/atomic"
	"time"

	"github.com/influxdata/influxdb/v2/models"
	"github.com/influxdata/influxdb/v2/tsdb"
	"github.com/influxdata/influxdb/v2/tsdb/cursors"
	_ "github.com/influxdata/influxdb/v2/tsdb/engine"
	"github.com/influxdata/influxdb/v2/tsdb/engine/tsm1"
	_ "github.com/influxdata/influxdb/v2/tsdb/index"
	"github.com/influxdata/influxql"
	"verif/harness/h"
)

const nKeys = 4

// repoDir is the root of the influxdb source tree the check runs against: bin/check
// passes VERIF_REPO for scratch trees (mutation tests), /repo otherwise.  (The
// binary is built with -trimpath, so the path cannot be taken from debug info.)
func repoDir() string {
	if d := os.Getenv("VERIF_REPO"); d != "" {
		return d
	}
	return "/repo"
}

// ---------------------------------------------------------------- store

type store struct {
	root string
	st   *tsdb.Store
}

type nullPlanner struct{}

func (*nullPlanner) FindGenerations() tsm1.TsmGenerations { return nil }
func (*nullPlanner) Plan(tsm1.TsmGenerations, time.Time) ([]tsm1.CompactionGroup, int64) {
	return nil, 0
}
func (*nullPlanner) PlanLevel(tsm1.TsmGenerations, int) ([]tsm1.CompactionGroup, int64) {
	return nil, 0
}
func (*nullPlanner) PlanOptimize(tsm1.TsmGenerations, time.Time) ([]tsm1.CompactionGroup, int64, int64) {
	return nil, 0, 0
}
func (*nullPlanner) Release([]tsm1.CompactionGroup)             {}
func (*nullPlanner) FullyCompacted() (bool, string)             { return true, "" }
func (*nullPlanner) ForceFull()                                 {}
func (*nullPlanner) SetFileStore(*tsm1.FileStore)               {}
func (*nullPlanner) SetAggressiveCompactionPointsPerBlock(int)  {}
func (*nullPlanner) GetAggressiveCompactionPointsPerBlock() int { return 0 }

func openStore(background bool) (*store, error) {
	base := ""
	if os.Getenv("TMPDIR") == "" {
		if fi, err := os.Stat("/dev/shm"); err == nil && fi.IsDir() {
			base = "/dev/shm"
		}
	}
	root, err := os.MkdirTemp(base, "verif-c39-")
	if err != nil && base != "" {
		root, err = os.MkdirTemp("", "verif-c39-")
	}
	if err != nil {
		return nil, err
	}
	s := tsdb.NewStore(filepath.Join(root, "data"))
	s.EngineOptions.Config.WALDir = filepath.Join(root, "wal")
	s.EngineOptions.MonitorDisabled = true
	s.EngineOptions.MetricsDisabled = true
	if !background {
		s.EngineOptions.CompactionDisabled = true
		// a delete ends with enableLevelCompactions(true), which starts the background
		// compaction loop even when compactions were never enabled: give it nothing to plan
		s.EngineOptions.CompactionPlannerCreator = func(tsdb.Config) interface{} { return &nullPlanner{} }
	}
	if err := s.Open(context.Background()); err != nil {
		os.RemoveAll(root)
		return nil, err
	}
	if err := s.CreateShard(context.Background(), "db", "rp", 1, true); err != nil {
		s.Close()
		os.RemoveAll(root)
		return nil, err
	}
	return &store{root: root, st: s}, nil
}

func (s *store) close() {
	if s == nil {
		return
	}
	done := make(chan struct{})
	go func() {
		defer close(done)
		defer func() { recover() }()
		s.st.Close()
	}()
	select {
	case <-done:
	case <-time.After(20 * time.Second):
	}
	os.RemoveAll(s.root)
}

func seriesTags(k int) models.Tags {
	return models.NewTags(map[string]string{"k": strconv.Itoa(k)})
}

func seriesKey(k int) []byte {
	return tsm1.SeriesFieldKeyBytes(string(models.MakeKey([]byte("m"), seriesTags(k))), "v")
}

func showPts(ts, vs []int64) string {
	if len(ts) == 0 {
		return "pts -"
	}
	var sb strings.Builder
	sb.WriteString("pts ")
	for i := range ts {
		if i > 0 {
			sb.WriteByte(',')
		}
		fmt.Fprintf(&sb, "%d=%d", ts[i], vs[i])
	}
	return sb.String()
}

func (s *store) engine() *tsm1.Engine {
	sh := s.st.Shard(1)
	if sh == nil {
		return nil
	}
	e, err := sh.Engine()
	if err != nil {
		return nil
	}
	te, _ := e.(*tsm1.Engine)
	return te
}

func (s *store) read(k int) string {
	sh := s.st.Shard(1)
	ctx := context.Background()
	ci, err := sh.CreateCursorIterator(ctx)
	if err != nil {
		return "err"
	}
	cur, err := ci.Next(ctx, &cursors.CursorRequest{
		Name: []byte("m"), Tags: seriesTags(k), Field: "v", Ascending: true,
		StartTime: models.MinNanoTime, EndTime: models.MaxNanoTime,
	})
	if err != nil {
		return "err"
	}
	if cur == nil {
		return "pts -"
	}
	ic, ok := cur.(cursors.IntegerArrayCursor)
	if !ok {
		cur.Close()
		return "err"
	}
	defer ic.Close()
	var ts, vs []int64
	for {
		a := ic.Next()
		if a.Len() == 0 {
			break
		}
		ts = append(ts, a.Timestamps...)
		vs = append(vs, a.Values...)
	}
	return showPts(ts, vs)
}

type sliceSeriesIterator struct {
	ks []int
	i  int
}
type seriesElem struct{ k int }

func (e seriesElem) Name() []byte            { return []byte("m") }
func (e seriesElem) Tags() models.Tags       { return seriesTags(e.k) }
func (e seriesElem) Deleted() bool           { return false }
func (e seriesElem) Expr() influxql.Expr     { return nil }
func (it *sliceSeriesIterator) Close() error { return nil }
func (it *sliceSeriesIterator) Next() (tsdb.SeriesElem, error) {
	if it.i >= len(it.ks) {
		return nil, nil
	}
	it.i++
	return seriesElem{it.ks[it.i-1]}, nil
}

// ---------------------------------------------------------------- gates at verifPoint call sites

type gate struct {
	owner   *gates
	armed   bool
	hit     chan struct{}
	release chan struct{}
}

type gates struct {
	mu sync.Mutex
	m  map[string]*gate
}

func (g *gates) hook(name string) {
	g.mu.Lock()
	gt := g.m[name]
	if gt == nil || !gt.armed {
		g.mu.Unlock()
		return
	}
	gt.armed = false
	g.mu.Unlock()
	gt.hit <- struct{}{}
	<-gt.release
}

func (g *gates) arm(name string) *gate {
	g.mu.Lock()
	defer g.mu.Unlock()
	gt := &gate{armed: true, hit: make(chan struct{}, 1), release: make(chan struct{}, 1), owner: g}
	g.m[name] = gt
	return gt
}

func (gt *gate) disarm() {
	gt.owner.mu.Lock()
	gt.armed = false
	gt.owner.mu.Unlock()
}

// background operation held at gates
type bgop struct {
	done chan struct{}
	at   *gate // the gate it is paused at (nil: running or finished)
}

// waitPausedOrDone: true = paused at gt
func (b *bgop) wait(gt *gate) (paused bool, ok bool) {
	select {
	case <-gt.hit:
		b.at = gt
		return true, true
	case <-b.done:
		gt.disarm() // finished without reaching the gate: it must not catch a later operation
		b.at = nil
		return false, true
	case <-time.After(25 * time.Second):
		gt.disarm()
		return false, false
	}
}

func (b *bgop) resume() {
	if b.at != nil {
		b.at.release <- struct{}{}
		b.at = nil
	}
}

func (b *bgop) finish() bool {
	b.resume()
	select {
	case <-b.done:
		return true
	case <-time.After(25 * time.Second):
		return false
	}
}

// ---------------------------------------------------------------- the schedule runner

type runner struct {
	s       *store
	err     error
	g       *gates
	phase   int // 0 idle, 1 begun, 2 replaced
	snap    *bgop
	comp    *bgop
	del     *bgop
	readers map[string]*tsm1.VerifC39Read
}

var hookMu sync.Mutex

func newCase() h.CaseRunner {
	s, err := openStore(false)
	r := &runner{s: s, err: err, g: &gates{m: map[string]*gate{}}, readers: map[string]*tsm1.VerifC39Read{}}
	hookMu.Lock()
	tsm1.VerifHook = r.g.hook
	hookMu.Unlock()
	return r
}

func (r *runner) Close() {
	// let everything that is held run to its end before closing the store
	for _, b := range []*bgop{r.del, r.snap, r.comp} {
		if b != nil {
			b.finish()
		}
	}
	hookMu.Lock()
	tsm1.VerifHook = nil
	hookMu.Unlock()
	r.s.close()
}

func (r *runner) Op(t []string) string {
	if len(t) == 0 {
		return "bad-op"
	}
	switch t[0] {
	case "lockorder":
		if len(t) != 2 {
			return "bad-op"
		}
		return "acyclic=" + h.B(goAcyclic(h.Split(t[1])))
	case "steporder":
		if len(t) != 1 {
			return "bad-op"
		}
		return ExtractStepOrder(repoDir())
	case "lockmode":
		if len(t) != 1 {
			return "bad-op"
		}
		return ExtractLockModes(repoDir())
	case "batches":
		if len(t) != 5 {
			return "bad-op"
		}
		return batches(uint64(h.Atoi(t[1])), int(h.Atoi(t[2])), int(h.Atoi(t[3])), int(h.Atoi(t[4])))
	case "stress":
		if len(t) != 5 {
			return "bad-op"
		}
		return stress(uint64(h.Atoi(t[1])), int(h.Atoi(t[2])), int(h.Atoi(t[3])), int(h.Atoi(t[4])))
	}
	if r.err != nil {
		return "harness-error"
	}
	ctx := context.Background()
	sh := r.s.st.Shard(1)
	key := func(s string) (int, bool) {
		k, err := strconv.Atoi(s)
		return k, err == nil && k >= 0 && k < nKeys
	}
	switch t[0] {
	case "w":
		if len(t) != 4 {
			return "bad-op"
		}
		k, ok := key(t[1])
		if !ok {
			return "bad-op"
		}
		p, err := models.NewPoint("m", seriesTags(k), models.Fields{"v": h.Atoi(t[3])}, time.Unix(0, h.Atoi(t[2])))
		if err != nil {
			return "bad-op"
		}
		if err := r.s.st.WriteToShard(ctx, 1, []models.Point{p}); err != nil {
			return "err"
		}
		return "ok"
	case "snap-begin":
		if len(t) != 1 {
			return "bad-op"
		}
		if r.phase != 0 || r.del != nil {
			return "busy"
		}
		e := r.s.engine()
		gt := r.g.arm("snapshot.afterCacheSnapshot")
		b := &bgop{done: make(chan struct{})}
		go func() { defer close(b.done); e.WriteSnapshot() }()
		paused, ok := b.wait(gt)
		if !ok {
			return "timeout"
		}
		r.snap = b
		if paused {
			r.phase = 1
		} else {
			r.snap = nil // finished at once (cannot happen: the gate is always reached)
		}
		return "ok"
	case "snap-replace":
		if len(t) != 1 {
			return "bad-op"
		}
		if r.phase != 1 {
			return "busy"
		}
		gt := r.g.arm("snapshot.afterReplace")
		r.snap.resume()
		paused, ok := r.snap.wait(gt)
		if !ok {
			return "timeout"
		}
		if paused {
			r.phase = 2
		} else {
			r.phase = 0 // empty snapshot: ClearSnapshot and return
			r.snap = nil
		}
		return "ok"
	case "snap-clear":
		if len(t) != 1 {
			return "bad-op"
		}
		if r.phase != 2 {
			return "busy"
		}
		if !r.snap.finish() {
			return "timeout"
		}
		r.snap = nil
		r.phase = 0
		return "ok"
	case "compact-begin":
		if len(t) != 1 {
			return "bad-op"
		}
		e := r.s.engine()
		var group tsm1.CompactionGroup
		for _, f := range e.FileStore.Files() {
			group = append(group, f.Path())
		}
		if r.comp != nil || r.del != nil || len(group) == 0 {
			return "busy"
		}
		gt := r.g.arm("compact.afterWriteFiles")
		b := &bgop{done: make(chan struct{})}
		go func() { defer close(b.done); e.VerifC39CompactFull(group) }()
		paused, ok := b.wait(gt)
		if !ok {
			return "timeout"
		}
		if !paused {
			return "err" // a full compaction of existing files always writes or errors before the gate
		}
		r.comp = b
		return "ok"
	case "compact-commit":
		if len(t) != 1 {
			return "bad-op"
		}
		if r.comp == nil {
			return "busy"
		}
		if !r.comp.finish() {
			return "timeout"
		}
		r.comp = nil
		return "ok"
	case "del", "del-begin":
		if len(t) != 4 {
			return "bad-op"
		}
		k, ok := key(t[1])
		if !ok {
			return "bad-op"
		}
		if r.phase != 0 || r.comp != nil || r.del != nil {
			return "busy"
		}
		lo, hi := h.Atoi(t[2]), h.Atoi(t[3])
		if t[0] == "del" {
			if err := sh.DeleteSeriesRange(ctx, &sliceSeriesIterator{ks: []int{k}}, lo, hi); err != nil {
				return "err"
			}
			return "ok"
		}
		gt := r.g.arm("delete.afterTombstones")
		b := &bgop{done: make(chan struct{})}
		go func() {
			defer close(b.done)
			sh.DeleteSeriesRange(ctx, &sliceSeriesIterator{ks: []int{k}}, lo, hi)
		}()
		paused, ok := b.wait(gt)
		if !ok {
			return "timeout"
		}
		if !paused {
			return "done" // nothing overlapped: deleteSeriesRange returned before any step
		}
		r.del = b
		return "ok"
	case "del-end":
		if len(t) != 1 {
			return "bad-op"
		}
		if r.del == nil {
			return "busy"
		}
		if !r.del.finish() {
			return "timeout"
		}
		r.del = nil
		return "ok"
	case "read":
		if len(t) != 2 {
			return "bad-op"
		}
		k, ok := key(t[1])
		if !ok {
			return "bad-op"
		}
		return r.s.read(k)
	case "read-begin":
		if len(t) != 3 {
			return "bad-op"
		}
		k, ok := key(t[2])
		if _, dup := r.readers[t[1]]; !ok || dup {
			return "bad-op"
		}
		if _, err := strconv.ParseUint(t[1], 10, 32); err != nil {
			return "bad-op"
		}
		r.readers[t[1]] = r.s.engine().VerifC39ReadBegin(seriesKey(k))
		return "ok"
	case "read-end":
		if len(t) != 2 {
			return "bad-op"
		}
		rd, ok := r.readers[t[1]]
		if !ok {
			return "bad-op"
		}
		delete(r.readers, t[1])
		ts, vs, err := rd.Finish(ctx)
		if err != nil {
			return "err"
		}
		return showPts(ts, vs)
	}
	return "bad-op"
}

// batches: `writers` goroutines each own `series` series and write `rounds` batches (one
// point per own series per batch, i.e. large multi-key Cache.WriteMulti calls) through the
// real WritePoints path while one goroutine calls Engine.WriteSnapshot in a loop.  No
// deletes.  When everything has finished every series is read back: the answer is the
// number of acknowledged points, how many of them are readable, and the first few lost.
func batches(seed uint64, writers, series, rounds int) string {
	if writers < 1 || writers > 8 || series < 1 || series > 4000 || rounds < 1 || rounds > 100 {
		return "bad-op"
	}
	st, err := openStore(false)
	if err != nil {
		return "harness-error"
	}
	defer st.close()
	ctx := context.Background()
	tags := func(w, i int) models.Tags {
		return models.NewTags(map[string]string{"k": fmt.Sprintf("w%d-s%04d", w, i)})
	}
	var failed atomic.Bool
	var wwg, swg sync.WaitGroup
	stop := make(chan struct{})
	eng := st.engine()
	swg.Add(1)
	go func() {
		defer swg.Done()
		for {
			select {
			case <-stop:
				return
			default:
			}
			eng.WriteSnapshot()
		}
	}()
	for w := 0; w < writers; w++ {
		wwg.Add(1)
		go func(w int) {
			defer wwg.Done()
			for b := 0; b < rounds; b++ {
				pts := make([]models.Point, 0, series)
				for i := 0; i < series; i++ {
					p, err := models.NewPoint("m", tags(w, i), models.Fields{"v": int64(b)}, time.Unix(0, int64(b+1)))
					if err != nil {
						failed.Store(true)
						return
					}
					pts = append(pts, p)
				}
				if err := st.st.WriteToShard(ctx, 1, pts); err != nil {
					failed.Store(true)
					return
				}
			}
		}(w)
	}
	done := make(chan struct{})
	go func() { wwg.Wait(); close(done) }()
	select {
	case <-done:
	case <-time.After(70 * time.Second):
		close(stop)
		return "timeout"
	}
	close(stop)
	swg.Wait()
	if failed.Load() {
		return "err"
	}
	// quiescent: every acknowledged point must be readable
	acked, readable := writers*series*rounds, 0
	var lost []string
	sh := st.st.Shard(1)
	for w := 0; w < writers; w++ {
		for i := 0; i < series; i++ {
			ci, err := sh.CreateCursorIterator(ctx)
			if err != nil {
				return "err"
			}
			cur, err := ci.Next(ctx, &cursors.CursorRequest{Name: []byte("m"), Tags: tags(w, i), Field: "v",
				Ascending: true, StartTime: models.MinNanoTime, EndTime: models.MaxNanoTime})
			if err != nil {
				return "err"
			}
			got := map[int64]int64{}
			if cur != nil {
				ic, ok := cur.(cursors.IntegerArrayCursor)
				if !ok {
					cur.Close()
					return "err"
				}
				for {
					a := ic.Next()
					if a.Len() == 0 {
						break
					}
					for j := range a.Timestamps {
						got[a.Timestamps[j]] = a.Values[j]
					}
				}
				ic.Close()
			}
			for b := 0; b < rounds; b++ {
				if v, ok := got[int64(b+1)]; ok && v == int64(b) {
					readable++
				} else if len(lost) < 4 {
					lost = append(lost, fmt.Sprintf("w%d-s%04d:%d", w, i, b+1))
				}
			}
		}
	}
	return fmt.Sprintf("acked=%d readable=%d lost=%s", acked, readable, h.Join(lost))
}

// stress runs a free-running concurrent workload on a fresh real shard with the
// engine's own background compactions enabled: `writers` goroutines (writer i owns
// series i and keeps overwriting 6 timestamps with increasing values), `readers`
// goroutines reading random series with the real cursor, one snapshotter calling
// Engine.WriteSnapshot in a loop.  No deletes (C03's window).  Every write and read
// is recorded with logical start/end stamps from one atomic counter; the answer is
// the history, judged by Spec.C39.stressOK.
func stress(seed uint64, writers, readers, rounds int) string {
	if writers < 1 || writers > nKeys || readers < 0 || readers > 8 || rounds < 1 || rounds > 400 {
		return "bad-op"
	}
	st, err := openStore(true)
	if err != nil {
		return "harness-error"
	}
	defer st.close()
	var clock atomic.Int64
	var mu sync.Mutex
	var events []string
	var failed atomic.Bool
	record := func(e string) { mu.Lock(); events = append(events, e); mu.Unlock() }
	ctx := context.Background()
	var wg, wwg sync.WaitGroup
	stop := make(chan struct{})
	for w := 0; w < writers; w++ {
		wg.Add(1)
		wwg.Add(1)
		go func(k int) {
			defer wg.Done()
			defer wwg.Done()
			for j := 0; j < rounds; j++ {
				t, v := int64(j%6), int64(j)
				p, err := models.NewPoint("m", seriesTags(k), models.Fields{"v": v}, time.Unix(0, t))
				if err != nil {
					failed.Store(true)
					return
				}
				s := clock.Add(1)
				err = st.st.WriteToShard(ctx, 1, []models.Point{p})
				e := clock.Add(1)
				if err != nil {
					failed.Store(true)
					return
				}
				record(fmt.Sprintf("w,%d,%d,%d,%d,%d", k, t, v, s, e))
				if j%7 == 0 {
					runtime.Gosched()
				}
			}
		}(w)
	}
	for r := 0; r < readers; r++ {
		wg.Add(1)
		go func(id int) {
			defer wg.Done()
			rnd := h.NewRand(seed*31 + uint64(id))
			for {
				select {
				case <-stop:
					return
				default:
				}
				k := rnd.Intn(writers)
				s := clock.Add(1)
				ans := st.read(k)
				e := clock.Add(1)
				if !strings.HasPrefix(ans, "pts ") {
					failed.Store(true)
					return
				}
				record(fmt.Sprintf("r,%d,%d,%d,%s", k, s, e, strings.ReplaceAll(strings.TrimPrefix(ans, "pts "), ",", ";")))
				time.Sleep(time.Duration(rnd.Intn(300)) * time.Microsecond)
			}
		}(r)
	}
	wg.Add(1)
	go func() { // snapshotter
		defer wg.Done()
		eng := st.engine()
		for {
			select {
			case <-stop:
				return
			default:
			}
			eng.WriteSnapshot()
			time.Sleep(2 * time.Millisecond)
		}
	}()
	done := make(chan struct{})
	go func() { wwg.Wait(); close(done) }()
	select {
	case <-done:
	case <-time.After(60 * time.Second):
		failed.Store(true)
	}
	close(stop)
	fin := make(chan struct{})
	go func() { wg.Wait(); close(fin) }()
	select {
	case <-fin:
	case <-time.After(20 * time.Second):
		return "timeout"
	}
	if failed.Load() {
		return "err"
	}
	// a final read of every series, after everything completed
	for k := 0; k < writers; k++ {
		s := clock.Add(1)
		ans := st.read(k)
		e := clock.Add(1)
		record(fmt.Sprintf("r,%d,%d,%d,%s", k, s, e, strings.ReplaceAll(strings.TrimPrefix(ans, "pts "), ",", ";")))
	}
	// keep the history small: all writes, at most 120 reads (evenly thinned)
	var ws, rs []string
	for _, e := range events {
		if e[0] == 'w' {
			ws = append(ws, e)
		} else {
			rs = append(rs, e)
		}
	}
	if len(rs) > 120 {
		step := len(rs) / 120
		var thin []string
		for i := 0; i < len(rs); i += step {
			thin = append(thin, rs[i])
		}
		thin = append(thin, rs[len(rs)-writers:]...)
		rs = thin
	}
	return "hist " + strings.Join(append(ws, rs...), " ")
}

// goAcyclic: Go's own answer (Kahn) for the T3 comparison with the verified Lean check
func goAcyclic(edges []string) bool {
	indeg := map[string]int{}
	succ := map[string][]string{}
	for _, e := range edges {
		a, b, ok := strings.Cut(e, ">")
		if !ok {
			return false
		}
		if _, ok := indeg[a]; !ok {
			indeg[a] = 0
		}
		indeg[b]++
		succ[a] = append(succ[a], b)
	}
	var q []string
	for n, d := range indeg {
		if d == 0 {
			q = append(q, n)
		}
	}
	seen := 0
	for len(q) > 0 {
		n := q[0]
		q = q[1:]
		seen++
		for _, m := range succ[n] {
			indeg[m]--
			if indeg[m] == 0 {
				q = append(q, m)
			}
		}
	}
	return seen == len(indeg)
}

// ---------------------------------------------------------------- generator

type genState struct {
	r      *h.Rand
	ops    []string
	phase  int
	comp   bool
	del    bool
	nfiles int
	// a point was written twice into the hot cache of key k since the last snap-begin:
	// no delete of k until then (F4's size residue would make an "empty" snapshot
	// take the non-empty path — C09's finding, kept out of these schedules)
	dup      [nKeys]bool
	hot      map[[2]int64]bool
	hotCount int
	readers  []int
	nextR    int
}

func (g *genState) emit(s string) { g.ops = append(g.ops, s) }

func (g *genState) write() {
	k := int64(g.r.Intn(nKeys))
	if g.r.Chance(0.6) {
		k = int64(g.r.Intn(2))
	}
	t := g.r.Range(0, 9)
	if g.hot[[2]int64{k, t}] {
		g.dup[k] = true
	}
	g.hot[[2]int64{k, t}] = true
	g.hotCount++
	g.emit(fmt.Sprintf("w %d %d %d", k, t, g.r.Range(0, 999)))
}

func (g *genState) step() {
	x := g.r.Intn(100)
	switch {
	case x < 30:
		g.write()
	case x < 45: // advance / start the snapshot
		switch g.phase {
		case 0:
			if !g.del {
				g.emit("snap-begin")
				g.phase = 1
				nonEmpty := g.hotCount > 0
				g.hot = map[[2]int64]bool{}
				g.hotCount = 0
				g.dup = [nKeys]bool{}
				if !nonEmpty {
					g.phase = 3 // empty snapshot: replace finishes it
				}
			} else {
				g.emit("snap-begin") // refused: busy
			}
		case 1:
			g.emit("snap-replace")
			g.phase = 2
			g.nfiles++
		case 3:
			g.emit("snap-replace")
			g.phase = 0
		case 2:
			g.emit("snap-clear")
			g.phase = 0
		}
	case x < 55:
		if !g.comp {
			g.emit("compact-begin")
			if !g.del && g.nfiles > 0 {
				g.comp = true
			}
		} else {
			g.emit("compact-commit")
			g.comp = false
		}
	case x < 65:
		k := g.r.Intn(2)
		lo := g.r.Range(0, 9)
		hi := lo + g.r.Range(0, 4)
		if g.dup[k] {
			g.write()
			return
		}
		free := (g.phase == 0) && !g.comp && !g.del
		if g.del && g.r.Chance(0.7) {
			g.emit("del-end")
			g.del = false
		} else if g.r.Bool() {
			g.emit(fmt.Sprintf("del %d %d %d", k, lo, hi))
		} else {
			g.emit(fmt.Sprintf("del-begin %d %d %d", k, lo, hi))
			if free {
				g.del = true
			}
		}
	case x < 85:
		g.emit(fmt.Sprintf("read %d", g.r.Intn(2)))
	case x < 93:
		id := g.nextR
		g.nextR++
		g.readers = append(g.readers, id)
		g.emit(fmt.Sprintf("read-begin %d %d", id, g.r.Intn(2)))
	default:
		if len(g.readers) > 0 {
			i := g.r.Intn(len(g.readers))
			g.emit(fmt.Sprintf("read-end %d", g.readers[i]))
			g.readers = append(g.readers[:i], g.readers[i+1:]...)
		} else {
			g.emit(fmt.Sprintf("read %d", g.r.Intn(2)))
		}
	}
}

func genSchedule(r *h.Rand) []string {
	g := &genState{r: r, hot: map[[2]int64]bool{}}
	n := 15 + r.Intn(30)
	for i := 0; i < n; i++ {
		g.step()
	}
	// wind down: finish everything in flight, then read all keys
	for _, id := range g.readers {
		g.emit(fmt.Sprintf("read-end %d", id))
	}
	if g.del {
		g.emit("del-end")
	}
	switch g.phase {
	case 1:
		g.emit("snap-replace")
		g.emit("snap-clear")
	case 3:
		g.emit("snap-replace")
	case 2:
		g.emit("snap-clear")
	}
	if g.comp {
		g.emit("compact-commit")
	}
	for k := 0; k < nKeys; k++ {
		g.emit(fmt.Sprintf("read %d", k))
	}
	return g.ops
}

func gen(r *h.Rand, tier string, emit func([]string)) {
	// the lock-order / step-order case, from the current source
	edges, _, _, _, err := ExtractLockOrder(repoDir())
	if err != nil {
		emit([]string{"lockorder !extract-failed", "steporder", "lockmode"})
	} else {
		sort.Strings(edges)
		emit([]string{"lockorder " + h.Join(edges), "steporder", "lockmode"})
	}
	n := 110
	if tier == "thorough" {
		n = 1500
	}
	for i := 0; i < n; i++ {
		emit(genSchedule(r))
	}
	// large multi-key write batches racing a WriteSnapshot loop, then a quiescent full read
	nb := 3
	if tier == "thorough" {
		nb = 12
	}
	for i := 0; i < nb; i++ {
		emit([]string{fmt.Sprintf("batches %d 4 %d %d", r.Intn(1000000), 1000+100*r.Intn(3), 12+r.Intn(3))})
	}
	// free-running concurrent histories (supporting evidence; thorough tier only: their schedules cannot be replayed)
	ns := 0
	if tier == "thorough" {
		ns = 40
	}
	for i := 0; i < ns; i++ {
		emit([]string{fmt.Sprintf("stress %d %d %d %d", r.Intn(1000000), 1+r.Intn(3), 1+r.Intn(3), 40+r.Intn(80))})
	}
	// the scenarios of the theorems, literally
	emit([]string{"w 0 1 7", "read-begin 0 0", "snap-begin", "snap-replace", "snap-clear", "read-end 0", "read 0"})
	emit([]string{"w 0 1 7", "snap-begin", "read 0", "w 0 1 8", "snap-replace", "read 0", "snap-clear", "read 0"})
	emit([]string{"w 0 1 7", "snap-begin", "snap-replace", "snap-clear", "w 0 1 8", "snap-begin", "snap-replace", "compact-begin", "read 0", "snap-clear", "w 0 2 9", "compact-commit", "read 0"})
	emit([]string{"w 0 1 7", "w 0 2 8", "snap-begin", "snap-replace", "snap-clear", "w 0 2 9", "del-begin 0 2 2", "read 0", "w 0 2 5", "read 0", "del-end", "read 0"})
	// malformed
	emit([]string{"w 9 1 1", "read 7", "read-end 99", "frob", "del 0 1", "snap-clear", "compact-commit", "del-end"})
}

func main() {
	if len(os.Args) > 1 && os.Args[1] == "lockorder" {
		repo := repoDir()
		if len(os.Args) > 2 {
			repo = os.Args[2]
		}
		edges, wit, selfs, unres, err := ExtractLockOrder(repo)
		if err != nil {
			fmt.Println("error:", err)
			os.Exit(1)
		}
		for _, e := range edges {
			fmt.Printf("%-60s @ %s\n", e, wit[e])
		}
		fmt.Println("self-nesting:", selfs)
		fmt.Println("unresolved:", unres)
		fmt.Println("steporder:", ExtractStepOrder(repo))
		fmt.Println("lockmode:", ExtractLockModes(repo))
		return
	}
	h.Main(h.Harness{Gen: gen, NewCase: newCase, OpTimeout: 90 * time.Second})
}
