// Lock-order extraction for C39: a small go/ast program (no go/types, nothing to
// install) that reads the CURRENT source of tsdb and tsdb/engine/tsm1 and
// extracts the nested acquisition pairs of the named mutexes:
//
//	A > B   =  somewhere B (a sync.Mutex / sync.RWMutex struct field, named
//	           <pkg>.<Type>.<field>) is acquired — directly, or inside a method
//	           called (transitively) — while A is held.
//
// It is deliberately conservative (class level, flow-insensitive inside loops
// and branches, callbacks analysed with the caller's locks held); what it cannot
// resolve (calls through interfaces it does not know, function values) is
// counted and reported, not guessed.  The Lean side proves that an acyclic
// acquisition order admits no deadlock state of the lock model and decides
// acyclicity of the extracted relation with a verified checker.
package main

import (
	"fmt"
	"go/ast"
	"go/parser"
	"go/token"
	"os"
	"path/filepath"
	"sort"
	"strings"
)

type lockSet map[string]bool

func (s lockSet) copy() lockSet {
	c := lockSet{}
	for k := range s {
		c[k] = true
	}
	return c
}

type funcInfo struct {
	pkg, recv, name string
	decl            *ast.FuncDecl
	// summary (fixpoint)
	acquires lockSet // every lock acquired during a call, transitively
	netHeld  lockSet // locks still held when the function returns (wlock-style helpers)
	netRel   lockSet // locks released that were not acquired inside (wunlock-style helpers)
	results  []string
	params   []string           // parameter names in order
	fnParams map[string]bool    // parameters of function type
	cbHeld   map[string]lockSet // locks held where a function-typed parameter is invoked
}

type analysis struct {
	fset    *token.FileSet
	structs map[string]map[string]string // "pkg.Type" -> field -> type string
	mutexes map[string]bool              // "pkg.Type.field"
	funcs   map[string]*funcInfo         // "pkg.Type.method" or "pkg..func"
	ifaces  map[string]string            // interface type -> implementing struct
	edges   map[string]string            // "A>B" -> witness function
	selfs   map[string]string            // "A" -> witness (A acquired while A held: instance-level, not decided)
	unres   map[string]int               // unresolved method calls made while holding a lock
	changed bool
}

// typeString renders the static type syntax into "pkg.Name", "[]pkg.Name",
// "map[..]pkg.Name", "sync.RWMutex", …; pointers are dropped.
func typeString(pkg string, e ast.Expr) string {
	switch t := e.(type) {
	case *ast.StarExpr:
		return typeString(pkg, t.X)
	case *ast.ParenExpr:
		return typeString(pkg, t.X)
	case *ast.Ident:
		if ast.IsExported(t.Name) || isLowerTypeName(t.Name) {
			return pkg + "." + t.Name
		}
		return t.Name
	case *ast.SelectorExpr:
		if id, ok := t.X.(*ast.Ident); ok {
			return id.Name + "." + t.Sel.Name
		}
	case *ast.ArrayType:
		return "[]" + typeString(pkg, t.Elt)
	case *ast.MapType:
		return "map[]" + typeString(pkg, t.Value)
	case *ast.ChanType:
		return "chan " + typeString(pkg, t.Value)
	}
	return "?"
}

var builtinTypes = map[string]bool{"string": true, "int": true, "int64": true, "uint64": true, "bool": true, "byte": true,
	"error": true, "float64": true, "int32": true, "uint32": true, "uint8": true, "uint16": true, "int8": true, "int16": true,
	"uint": true, "uintptr": true, "rune": true, "any": true, "float32": true}

func isLowerTypeName(n string) bool { return !builtinTypes[n] }

func elemType(t string) string {
	if strings.HasPrefix(t, "[]") {
		return t[2:]
	}
	if strings.HasPrefix(t, "map[]") {
		return t[5:]
	}
	if strings.HasPrefix(t, "chan ") {
		return t[5:]
	}
	return "?"
}

func (a *analysis) loadDir(dir, pkg string) error {
	ents, err := os.ReadDir(dir)
	if err != nil {
		return err
	}
	for _, e := range ents {
		n := e.Name()
		if e.IsDir() || !strings.HasSuffix(n, ".go") || strings.HasSuffix(n, "_test.go") ||
			strings.HasPrefix(n, "verif_") || strings.HasSuffix(n, "_windows.go") || strings.HasSuffix(n, "_plan9.go") {
			continue
		}
		f, err := parser.ParseFile(a.fset, filepath.Join(dir, n), nil, 0)
		if err != nil {
			return err
		}
		for _, d := range f.Decls {
			switch d := d.(type) {
			case *ast.GenDecl:
				for _, sp := range d.Specs {
					ts, ok := sp.(*ast.TypeSpec)
					if !ok {
						continue
					}
					st, ok := ts.Type.(*ast.StructType)
					if !ok {
						continue
					}
					tn := pkg + "." + ts.Name.Name
					fields := map[string]string{}
					for _, fl := range st.Fields.List {
						ft := typeString(pkg, fl.Type)
						if len(fl.Names) == 0 { // embedded
							base := ft[strings.LastIndex(ft, ".")+1:]
							fields[base] = ft
							if ft == "sync.Mutex" || ft == "sync.RWMutex" {
								a.mutexes[tn+"."+base] = true
							}
							continue
						}
						for _, nm := range fl.Names {
							fields[nm.Name] = ft
							if ft == "sync.Mutex" || ft == "sync.RWMutex" {
								a.mutexes[tn+"."+nm.Name] = true
							}
						}
					}
					a.structs[tn] = fields
				}
			case *ast.FuncDecl:
				if d.Body == nil {
					continue
				}
				fi := &funcInfo{pkg: pkg, name: d.Name.Name, decl: d, acquires: lockSet{}, netHeld: lockSet{}, netRel: lockSet{},
					fnParams: map[string]bool{}, cbHeld: map[string]lockSet{}}
				if d.Type.Params != nil {
					for _, p := range d.Type.Params.List {
						for _, nm := range p.Names {
							fi.params = append(fi.params, nm.Name)
							if _, ok := p.Type.(*ast.FuncType); ok {
								fi.fnParams[nm.Name] = true
							}
						}
					}
				}
				if d.Recv != nil && len(d.Recv.List) == 1 {
					fi.recv = typeString(pkg, d.Recv.List[0].Type)
				}
				if d.Type.Results != nil {
					for _, r := range d.Type.Results.List {
						n := len(r.Names)
						if n == 0 {
							n = 1
						}
						for i := 0; i < n; i++ {
							fi.results = append(fi.results, typeString(pkg, r.Type))
						}
					}
				}
				key := fi.recv + "." + fi.name
				if fi.recv == "" {
					key = pkg + ".." + fi.name
				}
				a.funcs[key] = fi
			}
		}
	}
	return nil
}

type scope struct {
	a    *analysis
	fi   *funcInfo
	vars map[string]string
	held lockSet
	// locks acquired inside this function body (to tell netRel from ordinary unlocks)
	mine lockSet
}

func (s *scope) typeOf(e ast.Expr) string {
	switch x := e.(type) {
	case *ast.ParenExpr:
		return s.typeOf(x.X)
	case *ast.StarExpr:
		return s.typeOf(x.X)
	case *ast.UnaryExpr:
		return s.typeOf(x.X)
	case *ast.Ident:
		if t, ok := s.vars[x.Name]; ok {
			return t
		}
		return "?"
	case *ast.SelectorExpr:
		bt := s.a.resolveIface(s.typeOf(x.X))
		if fields, ok := s.a.structs[bt]; ok {
			if ft, ok := fields[x.Sel.Name]; ok {
				return ft
			}
			// promoted through an embedded struct
			for fname, ft := range fields {
				if sub, ok := s.a.structs[ft]; ok && fname == ft[strings.LastIndex(ft, ".")+1:] {
					if t, ok := sub[x.Sel.Name]; ok {
						return t
					}
				}
			}
		}
		return "?"
	case *ast.IndexExpr:
		return elemType(s.typeOf(x.X))
	case *ast.CallExpr:
		if callee := s.callee(x); callee != nil && len(callee.results) > 0 {
			return callee.results[0]
		}
		if id, ok := x.Fun.(*ast.Ident); ok && id.Name == "append" && len(x.Args) > 0 {
			return s.typeOf(x.Args[0])
		}
		return "?"
	case *ast.TypeAssertExpr:
		if x.Type != nil {
			return typeString(s.fi.pkg, x.Type)
		}
	case *ast.CompositeLit:
		if x.Type != nil {
			return typeString(s.fi.pkg, x.Type)
		}
	}
	return "?"
}

func (a *analysis) resolveIface(t string) string {
	if impl, ok := a.ifaces[t]; ok {
		return impl
	}
	return t
}

func (s *scope) callee(c *ast.CallExpr) *funcInfo {
	switch f := c.Fun.(type) {
	case *ast.Ident:
		if fi, ok := s.a.funcs[s.fi.pkg+".."+f.Name]; ok {
			return fi
		}
	case *ast.SelectorExpr:
		if id, ok := f.X.(*ast.Ident); ok {
			if _, isVar := s.vars[id.Name]; !isVar {
				// package-qualified function
				if fi, ok := s.a.funcs[id.Name+".."+f.Sel.Name]; ok {
					return fi
				}
			}
		}
		rt := s.a.resolveIface(s.typeOf(f.X))
		if fi, ok := s.a.funcs[rt+"."+f.Sel.Name]; ok {
			return fi
		}
		// method promoted from an embedded struct
		if fields, ok := s.a.structs[rt]; ok {
			for fname, ft := range fields {
				if fname == ft[strings.LastIndex(ft, ".")+1:] {
					if fi, ok := s.a.funcs[s.a.resolveIface(ft)+"."+f.Sel.Name]; ok {
						return fi
					}
				}
			}
		}
	}
	return nil
}

// mutexOf: is the call `<expr>.Lock()` etc. on a named mutex field?  Returns its name.
func (s *scope) mutexOf(sel *ast.SelectorExpr) string {
	switch x := sel.X.(type) {
	case *ast.SelectorExpr: // recv.field.Lock()
		bt := s.a.resolveIface(s.typeOf(x.X))
		name := bt + "." + x.Sel.Name
		if s.a.mutexes[name] {
			return name
		}
	}
	// embedded mutex: recv.Lock()
	bt := s.a.resolveIface(s.typeOf(sel.X))
	for _, emb := range []string{"RWMutex", "Mutex"} {
		if s.a.mutexes[bt+"."+emb] {
			return bt + "." + emb
		}
	}
	return ""
}

func (s *scope) acquire(l string) {
	for h := range s.held {
		if h == l {
			if _, ok := s.a.selfs[l]; !ok {
				s.a.selfs[l] = s.fi.recv + "." + s.fi.name
			}
			continue
		}
		k := h + ">" + l
		if _, ok := s.a.edges[k]; !ok {
			s.a.edges[k] = s.fi.recv + "." + s.fi.name
			s.a.changed = true
		}
	}
	if !s.fi.acquires[l] {
		s.fi.acquires[l] = true
		s.a.changed = true
	}
}

func terminates(b *ast.BlockStmt) bool {
	if b == nil || len(b.List) == 0 {
		return false
	}
	switch st := b.List[len(b.List)-1].(type) {
	case *ast.ReturnStmt:
		return true
	case *ast.BranchStmt:
		return st.Tok == token.CONTINUE || st.Tok == token.BREAK || st.Tok == token.GOTO
	case *ast.ExprStmt:
		if c, ok := st.X.(*ast.CallExpr); ok {
			if id, ok := c.Fun.(*ast.Ident); ok && id.Name == "panic" {
				return true
			}
		}
	}
	return false
}

func (s *scope) pushVars() map[string]string {
	saved := s.vars
	s.vars = make(map[string]string, len(saved)+4)
	for k, v := range saved {
		s.vars[k] = v
	}
	return saved
}

// block analyses a nested block in its own variable scope (shadowing such as
// `for _, f := range f.files` must not leak out).
func (s *scope) block(b *ast.BlockStmt) {
	if b == nil {
		return
	}
	saved := s.pushVars()
	for _, st := range b.List {
		s.stmt(st)
	}
	s.vars = saved
}

// body analyses the top-level block of a function in the current scope.
func (s *scope) body(b *ast.BlockStmt) {
	for _, st := range b.List {
		s.stmt(st)
	}
}

// branch analyses a nested block; if it ends in return/break/continue/panic its
// effect on the held set does not reach the code after it.
func (s *scope) branch(b *ast.BlockStmt) {
	if b == nil {
		return
	}
	saved := s.held.copy()
	s.block(b)
	if terminates(b) {
		s.held = saved
	}
}

func (s *scope) stmt(st ast.Stmt) {
	switch x := st.(type) {
	case *ast.ExprStmt:
		s.expr(x.X)
	case *ast.AssignStmt:
		for _, r := range x.Rhs {
			s.expr(r)
		}
		if len(x.Lhs) == len(x.Rhs) {
			for i, l := range x.Lhs {
				if id, ok := l.(*ast.Ident); ok && id.Name != "_" {
					if t := s.typeOf(x.Rhs[i]); t != "?" {
						s.vars[id.Name] = t
					}
				}
			}
		} else if len(x.Rhs) == 1 {
			if c, ok := x.Rhs[0].(*ast.CallExpr); ok {
				if callee := s.callee(c); callee != nil {
					for i, l := range x.Lhs {
						if id, ok := l.(*ast.Ident); ok && id.Name != "_" && i < len(callee.results) {
							s.vars[id.Name] = callee.results[i]
						}
					}
				}
			}
			if ix, ok := x.Rhs[0].(*ast.IndexExpr); ok { // v, ok := m[k]
				if id, ok := x.Lhs[0].(*ast.Ident); ok && id.Name != "_" {
					if t := s.typeOf(ix); t != "?" {
						s.vars[id.Name] = t
					}
				}
			}
			if ta, ok := x.Rhs[0].(*ast.TypeAssertExpr); ok && ta.Type != nil { // v, ok := x.(T)
				if id, ok := x.Lhs[0].(*ast.Ident); ok && id.Name != "_" {
					s.vars[id.Name] = typeString(s.fi.pkg, ta.Type)
				}
			}
		}
	case *ast.DeclStmt:
		if gd, ok := x.Decl.(*ast.GenDecl); ok {
			for _, sp := range gd.Specs {
				if vs, ok := sp.(*ast.ValueSpec); ok {
					for i, nm := range vs.Names {
						if vs.Type != nil {
							s.vars[nm.Name] = typeString(s.fi.pkg, vs.Type)
						} else if i < len(vs.Values) {
							s.expr(vs.Values[i])
							if t := s.typeOf(vs.Values[i]); t != "?" {
								s.vars[nm.Name] = t
							}
						}
					}
				}
			}
		}
	case *ast.DeferStmt:
		// a deferred Unlock keeps the lock held to the end of the function: nothing to do.
		// a deferred call that ACQUIRES locks runs at the end, with whatever is still held.
		if sel, ok := x.Call.Fun.(*ast.SelectorExpr); ok {
			if sel.Sel.Name == "Unlock" || sel.Sel.Name == "RUnlock" {
				return
			}
		}
		if fl, ok := x.Call.Fun.(*ast.FuncLit); ok {
			s.funcLit(fl, nil)
			return
		}
		if callee := s.callee(x.Call); callee != nil && len(callee.netRel) > 0 && len(callee.acquires) == 0 {
			return // deferred wunlock-style helper
		}
		s.expr(x.Call)
	case *ast.GoStmt:
		// `go func(){…}()`: typically awaited by the spawning function (channel /
		// WaitGroup) while it keeps its locks, so the closure is analysed with them
		// held (conservative).  `go x.m()`: a detached goroutine holds nothing.
		saved := s.held
		if fl, ok := x.Call.Fun.(*ast.FuncLit); ok {
			s.held = saved.copy()
			for _, arg := range x.Call.Args {
				s.expr(arg)
			}
			s.funcLit(fl, nil)
		} else {
			s.held = lockSet{}
			s.expr(x.Call)
		}
		s.held = saved
	case *ast.IfStmt:
		sv := s.pushVars()
		if x.Init != nil {
			s.stmt(x.Init)
		}
		s.expr(x.Cond)
		s.branch(x.Body)
		switch e := x.Else.(type) {
		case *ast.BlockStmt:
			s.branch(e)
		case *ast.IfStmt:
			s.stmt(e)
		}
		s.vars = sv
	case *ast.ForStmt:
		sv := s.pushVars()
		if x.Init != nil {
			s.stmt(x.Init)
		}
		if x.Cond != nil {
			s.expr(x.Cond)
		}
		saved := s.held.copy()
		s.block(x.Body)
		if x.Post != nil {
			s.stmt(x.Post)
		}
		s.held = saved
		s.vars = sv
	case *ast.RangeStmt:
		s.expr(x.X)
		t := s.typeOf(x.X)
		sv := s.pushVars()
		if id, ok := x.Key.(*ast.Ident); ok && id.Name != "_" {
			delete(s.vars, id.Name)
		}
		if id, ok := x.Value.(*ast.Ident); ok && id.Name != "_" {
			delete(s.vars, id.Name)
			if et := elemType(t); et != "?" {
				s.vars[id.Name] = et
			}
		}
		saved := s.held.copy()
		s.block(x.Body)
		s.held = saved
		s.vars = sv
	case *ast.SwitchStmt:
		if x.Init != nil {
			s.stmt(x.Init)
		}
		if x.Tag != nil {
			s.expr(x.Tag)
		}
		for _, c := range x.Body.List {
			cc := c.(*ast.CaseClause)
			saved := s.held.copy()
			for _, st := range cc.Body {
				s.stmt(st)
			}
			s.held = saved
		}
	case *ast.TypeSwitchStmt:
		for _, c := range x.Body.List {
			cc := c.(*ast.CaseClause)
			saved := s.held.copy()
			for _, st := range cc.Body {
				s.stmt(st)
			}
			s.held = saved
		}
	case *ast.SelectStmt:
		for _, c := range x.Body.List {
			cc := c.(*ast.CommClause)
			saved := s.held.copy()
			for _, st := range cc.Body {
				s.stmt(st)
			}
			s.held = saved
		}
	case *ast.BlockStmt:
		s.block(x)
	case *ast.ReturnStmt:
		for _, r := range x.Results {
			s.expr(r)
		}
	case *ast.LabeledStmt:
		s.stmt(x.Stmt)
	case *ast.SendStmt:
		s.expr(x.Value)
	case *ast.IncDecStmt:
	}
}

func (s *scope) expr(e ast.Expr) {
	switch x := e.(type) {
	case nil:
	case *ast.CallExpr:
		s.call(x)
	case *ast.ParenExpr:
		s.expr(x.X)
	case *ast.UnaryExpr:
		s.expr(x.X)
	case *ast.BinaryExpr:
		s.expr(x.X)
		s.expr(x.Y)
	case *ast.SelectorExpr:
		s.expr(x.X)
	case *ast.IndexExpr:
		s.expr(x.X)
		s.expr(x.Index)
	case *ast.StarExpr:
		s.expr(x.X)
	case *ast.TypeAssertExpr:
		s.expr(x.X)
	case *ast.CompositeLit:
		for _, el := range x.Elts {
			if kv, ok := el.(*ast.KeyValueExpr); ok {
				s.expr(kv.Value)
			} else {
				s.expr(el)
			}
		}
	case *ast.FuncLit:
		// a function value that is only created here: analysed where it is passed to a call
	}
}

// funcLit analyses a closure body with the current locks (plus `extra`) held;
// its effect on the held set is discarded.
func (s *scope) funcLit(fl *ast.FuncLit, extra lockSet) {
	saved := s.held.copy()
	for l := range extra {
		if !s.held[l] {
			s.acquire(l) // the callee takes it before running the callback
			s.held[l] = true
		}
	}
	sv := s.pushVars()
	if fl.Type.Params != nil {
		for _, p := range fl.Type.Params.List {
			for _, nm := range p.Names {
				s.vars[nm.Name] = typeString(s.fi.pkg, p.Type)
			}
		}
	}
	s.block(fl.Body)
	s.vars = sv
	s.held = saved
}

func (s *scope) call(c *ast.CallExpr) {
	// a call of one of the enclosing function's function-typed parameters:
	// remember which locks are held at that moment (used at the call sites)
	if id, ok := c.Fun.(*ast.Ident); ok && s.fi.fnParams[id.Name] {
		if _, shadowed := s.vars[id.Name]; !shadowed || s.vars[id.Name] == "?" {
			cur := s.fi.cbHeld[id.Name]
			if cur == nil {
				cur = lockSet{}
				s.fi.cbHeld[id.Name] = cur
			}
			for l := range s.held {
				if !cur[l] {
					cur[l] = true
					s.a.changed = true
				}
			}
		}
	}
	// arguments first (they are evaluated before the call); a callback literal is
	// analysed with the caller's locks plus those the callee holds when it invokes it
	calleeForArgs := s.callee(c)
	for i, arg := range c.Args {
		if fl, ok := arg.(*ast.FuncLit); ok {
			var extra lockSet
			if calleeForArgs != nil && i < len(calleeForArgs.params) {
				extra = calleeForArgs.cbHeld[calleeForArgs.params[i]]
			}
			s.funcLit(fl, extra)
		} else {
			s.expr(arg)
		}
	}
	if fl, ok := c.Fun.(*ast.FuncLit); ok { // func() { … }()
		s.funcLit(fl, nil)
		return
	}
	if sel, ok := c.Fun.(*ast.SelectorExpr); ok {
		switch sel.Sel.Name {
		case "Lock", "RLock":
			if m := s.mutexOf(sel); m != "" {
				s.acquire(m)
				s.held[m] = true
				s.mine[m] = true
				return
			}
		case "Unlock", "RUnlock":
			if m := s.mutexOf(sel); m != "" {
				if !s.mine[m] && !s.fi.netRel[m] {
					s.fi.netRel[m] = true
					s.a.changed = true
				}
				delete(s.held, m)
				return
			}
		}
		s.expr(sel.X)
	}
	callee := s.callee(c)
	if callee == nil {
		if sel, ok := c.Fun.(*ast.SelectorExpr); ok && len(s.held) > 0 {
			rt := s.typeOf(sel.X)
			if rt != "?" && !strings.HasPrefix(rt, "sync.") && !strings.HasPrefix(rt, "[]") && !strings.HasPrefix(rt, "map[]") {
				if _, isIface := s.a.ifaces[rt]; isIface || strings.HasPrefix(rt, "tsdb.") || strings.HasPrefix(rt, "tsm1.") {
					if _, known := s.a.structs[s.a.resolveIface(rt)]; !known {
						s.a.unres[rt+"."+sel.Sel.Name]++
					}
				}
			}
		}
		return
	}
	for l := range callee.acquires {
		s.acquire(l)
	}
	for l := range callee.netHeld {
		s.held[l] = true
		s.mine[l] = true
	}
	for l := range callee.netRel {
		if !s.mine[l] && !s.fi.netRel[l] {
			s.fi.netRel[l] = true
			s.a.changed = true
		}
		delete(s.held, l)
	}
}

func (a *analysis) run() {
	for iter := 0; iter < 40; iter++ {
		a.changed = false
		keys := make([]string, 0, len(a.funcs))
		for k := range a.funcs {
			keys = append(keys, k)
		}
		sort.Strings(keys)
		for _, k := range keys {
			fi := a.funcs[k]
			s := &scope{a: a, fi: fi, vars: map[string]string{}, held: lockSet{}, mine: lockSet{}}
			if fi.decl.Recv != nil && len(fi.decl.Recv.List) == 1 && len(fi.decl.Recv.List[0].Names) == 1 {
				s.vars[fi.decl.Recv.List[0].Names[0].Name] = fi.recv
			}
			if fi.decl.Type.Params != nil {
				for _, p := range fi.decl.Type.Params.List {
					for _, nm := range p.Names {
						s.vars[nm.Name] = typeString(fi.pkg, p.Type)
					}
				}
			}
			if fi.decl.Type.Results != nil {
				for _, p := range fi.decl.Type.Results.List {
					for _, nm := range p.Names {
						s.vars[nm.Name] = typeString(fi.pkg, p.Type)
					}
				}
			}
			hasDeferUnlock := lockSet{}
			ast.Inspect(fi.decl.Body, func(n ast.Node) bool {
				if d, ok := n.(*ast.DeferStmt); ok {
					if sel, ok := d.Call.Fun.(*ast.SelectorExpr); ok && (sel.Sel.Name == "Unlock" || sel.Sel.Name == "RUnlock") {
						if m := s.mutexOf(sel); m != "" {
							hasDeferUnlock[m] = true
						}
					}
					if callee := s.callee(d.Call); callee != nil {
						for l := range callee.netRel {
							hasDeferUnlock[l] = true
						}
					}
				}
				if _, ok := n.(*ast.FuncLit); ok {
					return false
				}
				return true
			})
			s.body(fi.decl.Body)
			for l := range s.held {
				if !hasDeferUnlock[l] && !fi.netHeld[l] {
					fi.netHeld[l] = true
					a.changed = true
				}
			}
		}
		if !a.changed {
			break
		}
	}
}

// ExtractLockOrder parses <repo>/tsdb and <repo>/tsdb/engine/tsm1 and returns the
// sorted edges "A>B", the witnesses, the self-nesting locks and the unresolved calls.
func ExtractLockOrder(repo string) (edges []string, witness map[string]string, selfs []string, unresolved []string, err error) {
	a := &analysis{fset: token.NewFileSet(), structs: map[string]map[string]string{}, mutexes: map[string]bool{},
		funcs: map[string]*funcInfo{}, edges: map[string]string{}, selfs: map[string]string{}, unres: map[string]int{},
		ifaces: map[string]string{
			"tsdb.Engine":            "tsm1.Engine",
			"tsm1.TSMFile":           "tsm1.TSMReader",
			"tsm1.TSMIndex":          "tsm1.indirectIndex",
			"tsm1.blockAccessor":     "tsm1.mmapAccessor",
			"tsm1.fileStore":         "tsm1.FileStore",
			"tsm1.CompactionPlanner": "tsm1.DefaultPlanner",
			"tsm1.BatchDeleter":      "tsm1.batchDelete",
		}}
	if err = a.loadDir(filepath.Join(repo, "tsdb"), "tsdb"); err != nil {
		return
	}
	if err = a.loadDir(filepath.Join(repo, "tsdb", "engine", "tsm1"), "tsm1"); err != nil {
		return
	}
	a.run()
	for k := range a.edges {
		edges = append(edges, k)
	}
	sort.Strings(edges)
	for k, w := range a.selfs {
		selfs = append(selfs, k+"@"+w)
	}
	sort.Strings(selfs)
	for k, n := range a.unres {
		unresolved = append(unresolved, fmt.Sprintf("%s(%d)", k, n))
	}
	sort.Strings(unresolved)
	return edges, a.edges, selfs, unresolved, nil
}
