// Harness for C42 (see storeh for the ops).
package main

import (
	"time"

	"verif/harness/cmd/c17/storeh"
	"verif/harness/h"
)

func gen(r *h.Rand, tier string, emit func([]string)) {}

func main() {
	h.Main(h.Harness{Gen: gen, OpTimeout: 60 * time.Second, NewCase: func() h.CaseRunner { return storeh.New("verif-c42-") }})
}
