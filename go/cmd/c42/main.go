// Harness for C42: Store.MeasurementNames / TagKeys / TagValues on a real multi-shard
// tsdb.Store (tsi1 + tsm1) with writes, range deletes with predicates and random
// fine-grained authorizers.  Ops: see verif/harness/cmd/c17/storeh.
package main

import (
	"fmt"
	"sort"
	"strings"
	"time"

	"verif/harness/cmd/c17/storeh"
	"verif/harness/h"
)

type pools struct {
	names, keys [][]byte
	vals        map[string][][]byte
}

var nameChoices = []string{"m", "m1", "m2", "cpu", "mem", "a b", "c,d", "disk"}
var keyChoices = []string{"t", "u", "host", "k 1", "reg", "z"}
var valChoices = []string{"a", "b", "c", "x y", "v,1", "w=2", "zz", "0"}

func pickSome(r *h.Rand, from []string, n int) [][]byte {
	idx := map[int]bool{}
	for len(idx) < n {
		idx[r.Intn(len(from))] = true
	}
	var is []int
	for i := range idx {
		is = append(is, i)
	}
	sort.Ints(is)
	var out [][]byte
	for _, i := range is {
		out = append(out, []byte(from[i]))
	}
	return out
}

func genPools(r *h.Rand) pools {
	p := pools{vals: map[string][][]byte{}}
	p.names = pickSome(r, nameChoices, 2+r.Intn(2))
	p.keys = pickSome(r, keyChoices, 2+r.Intn(2))
	for _, k := range p.keys {
		p.vals[string(k)] = pickSome(r, valChoices, 2+r.Intn(2))
	}
	return p
}

func (p pools) series(r *h.Rand) (string, string) {
	name := h.Pick(r, p.names)
	var ks []string
	for _, k := range p.keys {
		if r.Chance(0.6) {
			ks = append(ks, string(k))
		}
	}
	sort.Strings(ks)
	var ts []string
	for _, k := range ks {
		ts = append(ts, h.HexS(k)+":"+h.Hex(h.Pick(r, p.vals[k])))
	}
	return h.Hex(name), h.Join(ts)
}

func genPts(r *h.Rand) string {
	n := 1 + r.Intn(3)
	var ps []string
	for i := 0; i < n; i++ {
		ps = append(ps, fmt.Sprintf("%d:%d", r.Range(-5, 20), r.Range(0, 99)))
	}
	return strings.Join(ps, ",")
}

func (p pools) rule(r *h.Rand, measKey string, neqP float64, emptyP float64) string {
	op := "E"
	if r.Chance(neqP) {
		op = "N"
	}
	if measKey != "" && r.Chance(0.3) {
		v := h.Pick(r, p.names)
		if r.Chance(0.1) {
			v = []byte("nope")
		}
		return op + ":" + h.HexS(measKey) + ":" + h.Hex(v)
	}
	k := h.Pick(r, p.keys)
	v := h.Pick(r, p.vals[string(k)])
	if r.Chance(0.1) {
		v = []byte("nope")
	}
	if r.Chance(emptyP) {
		v = nil
	}
	return op + ":" + h.Hex(k) + ":" + h.Hex(v)
}

// regexLeaf: key =~ /^(?:v1|v2|..)$/ over 2-3 values of one key (or measurement names)
func (p pools) regexLeaf(r *h.Rand, measKey string, negP float64) string {
	op := "R"
	if r.Chance(negP) {
		op = "NR"
	}
	key := h.Pick(r, p.keys)
	from := p.vals[string(key)]
	if measKey != "" && r.Chance(0.2) {
		key, from = []byte(measKey), p.names
	}
	var vs []string
	for _, v := range from {
		if r.Chance(0.7) {
			vs = append(vs, h.Hex(v))
		}
	}
	if len(vs) == 0 {
		vs = append(vs, h.Hex(from[0]))
	}
	if r.Chance(0.1) {
		vs = append(vs, h.HexS("nope"))
	}
	return op + ":" + h.Hex(key) + ":" + strings.Join(vs, "+")
}

func (p pools) tree(r *h.Rand, depth int, measKey string, neqP, emptyP float64) []string {
	if depth == 0 || r.Chance(0.45) {
		if measKey == "_name" && r.Chance(0.3) { // MeasurementNames conditions only
			return []string{p.regexLeaf(r, measKey, neqP/2)}
		}
		return []string{p.rule(r, measKey, neqP, emptyP)}
	}
	op := "A"
	if r.Chance(0.55) {
		op = "O"
	}
	out := []string{op}
	out = append(out, p.tree(r, depth-1, measKey, neqP, emptyP)...)
	out = append(out, p.tree(r, depth-1, measKey, neqP, emptyP)...)
	return out
}

func (p pools) auth(r *h.Rand) string {
	switch {
	case r.Chance(0.35):
		return "-"
	case r.Chance(0.2):
		return "open"
	}
	var rules []string
	n := 1 + r.Intn(2)
	for i := 0; i < n; i++ {
		if r.Chance(0.3) {
			rules = append(rules, "M:"+h.Hex(h.Pick(r, p.names)))
		} else {
			k := h.Pick(r, p.keys)
			rules = append(rules, "T:"+h.Hex(k)+":"+h.Hex(h.Pick(r, p.vals[string(k)])))
		}
	}
	return strings.Join(rules, ",")
}

func shardSet(r *h.Rand, n int) string {
	var ids []string
	for i := 1; i <= n; i++ {
		if r.Chance(0.65) {
			ids = append(ids, fmt.Sprint(i))
		}
	}
	if len(ids) == 0 {
		ids = append(ids, fmt.Sprint(1+r.Intn(n)))
	}
	if r.Chance(0.08) {
		ids = append(ids, "9") // unknown shard id: skipped by the store
	}
	return strings.Join(ids, ",")
}

func (p pools) clause(r *h.Rand, from [][]byte, prob float64) string {
	if !r.Chance(prob) {
		return "-"
	}
	op := "E"
	if r.Chance(0.25) {
		op = "N"
	}
	v := h.Pick(r, from)
	if r.Chance(0.08) {
		v = []byte("nope")
	}
	return op + ":-:" + h.Hex(v)
}

func (p pools) query(r *h.Rand, nsh int) string {
	switch r.Intn(3) {
	case 0:
		cond := "-"
		if r.Chance(0.7) {
			// mostly conditions on which per-series and measurement-level evaluation agree
			neqP, emptyP := 0.0, 0.0
			if r.Chance(0.25) {
				neqP, emptyP = 0.3, 0.1
			}
			cond = strings.Join(p.tree(r, 2, "_name", neqP, emptyP), ",")
		}
		return "mn " + p.auth(r) + " " + cond
	case 1:
		f := "-"
		if r.Chance(0.45) {
			f = strings.Join(p.tree(r, 2, "", 0.3, 0.1), ",")
		}
		return "tk " + p.auth(r) + " " + shardSet(r, nsh) + " " + p.clause(r, p.names, 0.3) + " " + p.clause(r, p.keys, 0.35) + " " + f
	default:
		f := "-"
		if r.Chance(0.45) {
			f = strings.Join(p.tree(r, 2, "", 0.3, 0.1), ",")
		}
		return "tv " + p.auth(r) + " " + shardSet(r, nsh) + " " + p.clause(r, p.names, 0.3) + " " + p.clause(r, p.keys, 0.5) + " " + f
	}
}

// shaped: a measurement whose lowest matching tag value is used only by series the authorizer
// hides while a later matching value has a visible series (maybe in another shard), queried with
// regular expressions under that authorizer (the shape seeded change C42-a needs).
func shaped(r *h.Rand, p pools, nsh int) []string {
	if len(p.keys) < 2 {
		return nil
	}
	key, secret := p.keys[0], p.keys[1]
	vals := append([][]byte(nil), p.vals[string(key)]...)
	sort.Slice(vals, func(i, j int) bool { return string(vals[i]) < string(vals[j]) })
	sv := p.vals[string(secret)][0]
	tags := func(kv ...[]byte) string { // sorted by key
		type t struct{ k, v []byte }
		var ts []t
		for i := 0; i+1 < len(kv); i += 2 {
			ts = append(ts, t{kv[i], kv[i+1]})
		}
		sort.Slice(ts, func(i, j int) bool { return string(ts[i].k) < string(ts[j].k) })
		var out []string
		for _, x := range ts {
			out = append(out, h.Hex(x.k)+":"+h.Hex(x.v))
		}
		return strings.Join(out, ",")
	}
	var ops []string
	for i, m := range p.names {
		switch i % 3 {
		case 0: // first value hidden, later value visible
			ops = append(ops, fmt.Sprintf("w %d %s %s %s", 1+r.Intn(nsh), h.Hex(m), tags(key, vals[0], secret, sv), genPts(r)))
			ops = append(ops, fmt.Sprintf("w %d %s %s %s", 1+r.Intn(nsh), h.Hex(m), tags(key, vals[len(vals)-1]), genPts(r)))
		case 1: // matches only through hidden series
			ops = append(ops, fmt.Sprintf("w %d %s %s %s", 1+r.Intn(nsh), h.Hex(m), tags(key, vals[0], secret, sv), genPts(r)))
			ops = append(ops, fmt.Sprintf("w %d %s %s %s", 1+r.Intn(nsh), h.Hex(m), tags(secret, p.vals[string(secret)][len(p.vals[string(secret)])-1]), genPts(r)))
		default: // plainly visible
			ops = append(ops, fmt.Sprintf("w %d %s %s %s", 1+r.Intn(nsh), h.Hex(m), tags(key, vals[0]), genPts(r)))
		}
	}
	auth := "T:" + h.Hex(secret) + ":" + h.Hex(sv)
	var hv []string
	for _, v := range vals {
		hv = append(hv, h.Hex(v))
	}
	re := "R:" + h.Hex(key) + ":" + strings.Join(hv, "+")
	ops = append(ops, "mn "+auth+" "+re, "mn - "+re, "mn open "+re,
		"mn "+auth+" O,"+re+",E:"+h.HexS("_name")+":"+h.HexS("nope"),
		"mn "+auth+" A,"+re+",N:"+h.HexS("_name")+":"+h.HexS("nope"),
		"mn "+auth+" NR:"+h.Hex(key)+":"+hv[0],
		"mn "+auth+" R:"+h.Hex(key)+":"+hv[len(hv)-1],
		"mn "+auth+" -")
	return ops
}

func gen(r *h.Rand, tier string, emit func([]string)) {
	ncases := 260
	if tier == "thorough" {
		ncases = 3000
	}
	for c := 0; c < ncases; c++ {
		p := genPools(r)
		nsh := 1 + r.Intn(3)
		ops := []string{fmt.Sprintf("open %d", nsh)}
		nw := 4 + r.Intn(10)
		for i := 0; i < nw; i++ {
			name, tags := p.series(r)
			ops = append(ops, fmt.Sprintf("w %d %s %s %s", 1+r.Intn(nsh), name, tags, genPts(r)))
			if r.Chance(0.08) {
				ops = append(ops, fmt.Sprintf("snap %d", 1+r.Intn(nsh)))
			}
		}
		if c%4 == 1 {
			ops = append(ops, shaped(r, p, nsh)...)
		}
		nphase := 1 + r.Intn(3)
		for ph := 0; ph < nphase; ph++ {
			nq := 3 + r.Intn(6)
			for i := 0; i < nq; i++ {
				ops = append(ops, p.query(r, nsh))
			}
			if ph == nphase-1 {
				break
			}
			// history between query phases: deletes (Store.DeleteSeriesWithPredicate without the
			// handler's measurement short-cut) and more writes
			nd := 1 + r.Intn(2)
			for i := 0; i < nd; i++ {
				pred := "-"
				if r.Chance(0.8) {
					pred = strings.Join(p.tree(r, 1, "_measurement", 0.2, 0), ",")
				}
				lo := r.Range(-6, 15)
				hi := lo + r.Range(0, 30)
				if r.Chance(0.3) {
					lo, hi = -100, 100
				}
				ops = append(ops, fmt.Sprintf("del %d %d %s n", lo, hi, pred))
			}
			if r.Chance(0.5) {
				name, tags := p.series(r)
				ops = append(ops, fmt.Sprintf("w %d %s %s %s", 1+r.Intn(nsh), name, tags, genPts(r)))
			}
		}
		if r.Chance(0.03) {
			ops = append(ops, "frob 1", "tk - - - - -", "mn - E:5f7461674b6579:61")
		}
		emit(ops)
	}
}

func main() {
	h.Main(h.Harness{Gen: gen, OpTimeout: 60 * time.Second, NewCase: func() h.CaseRunner { return storeh.New("verif-c42-") }})
}
