// Harness for C07: drives the real tsm1 value codecs (scalar encoders/decoders and the
// batch *ArrayEncodeAll/*ArrayDecodeAll), the block framing, and both simple8b packages.
package main

import (
	"encoding/binary"
	"fmt"
	"math"
	"strconv"
	"strings"

	"github.com/golang/snappy"
	is8b "github.com/influxdata/influxdb/v2/pkg/encoding/simple8b"
	"github.com/influxdata/influxdb/v2/tsdb"
	"github.com/influxdata/influxdb/v2/tsdb/engine/tsm1"
	js8b "github.com/jwilder/encoding/simple8b"
	"verif/harness/h"
)

// ---------------------------------------------------------------- protocol helpers

func u64s(xs []uint64) string {
	if len(xs) == 0 {
		return "-"
	}
	ss := make([]string, len(xs))
	for i, x := range xs {
		ss[i] = strconv.FormatUint(x, 10)
	}
	return strings.Join(ss, ",")
}

func parseU64s(s string) []uint64 {
	if s == "-" {
		return nil
	}
	var out []uint64
	for _, p := range strings.Split(s, ",") {
		v, err := strconv.ParseUint(p, 10, 64)
		if err != nil {
			panic(badOp{})
		}
		out = append(out, v)
	}
	return out
}

func bools(xs []bool) string {
	if len(xs) == 0 {
		return "-"
	}
	b := make([]byte, len(xs))
	for i, x := range xs {
		b[i] = '0'
		if x {
			b[i] = '1'
		}
	}
	return string(b)
}

func parseBools(s string) []bool {
	if s == "-" {
		return nil
	}
	out := make([]bool, len(s))
	for i := range s {
		switch s[i] {
		case '1':
			out[i] = true
		case '0':
		default:
			panic(badOp{})
		}
	}
	return out
}

func strs(xs []string) string {
	if len(xs) == 0 {
		return "-"
	}
	ss := make([]string, len(xs))
	for i, x := range xs {
		ss[i] = "s" + fmt.Sprintf("%x", x)
	}
	return strings.Join(ss, ",")
}

func parseStrs(s string) []string {
	if s == "-" {
		return nil
	}
	var out []string
	for _, p := range strings.Split(s, ",") {
		if len(p) == 0 || p[0] != 's' {
			panic(badOp{})
		}
		b, err := h.UnHex(orDash(p[1:]))
		if err != nil {
			panic(badOp{})
		}
		out = append(out, string(b))
	}
	return out
}

func orDash(s string) string {
	if s == "" {
		return "-"
	}
	return s
}

func eqU(a, b []uint64) bool {
	if len(a) != len(b) {
		return false
	}
	for i := range a {
		if a[i] != b[i] {
			return false
		}
	}
	return true
}

type badOp struct{}

// guard runs f; a panic becomes the answer "panic" (an ill-formed operand: "bad-op")
func guard(f func() string) (s string) {
	defer func() {
		if r := recover(); r != nil {
			if _, ok := r.(badOp); ok {
				s = "bad-op"
			} else {
				s = "panic"
			}
		}
	}()
	return f()
}

// ---------------------------------------------------------------- typed values

type vals struct {
	kind byte // i u t f b s
	u    []uint64
	b    []bool
	s    []string
}

func parseVals(kind byte, s string) vals {
	switch kind {
	case 'b':
		return vals{kind: kind, b: parseBools(s)}
	case 's':
		return vals{kind: kind, s: parseStrs(s)}
	default:
		return vals{kind: kind, u: parseU64s(s)}
	}
}

func (v vals) String() string {
	switch v.kind {
	case 'b':
		return bools(v.b)
	case 's':
		return strs(v.s)
	default:
		return u64s(v.u)
	}
}

func (v vals) Len() int {
	switch v.kind {
	case 'b':
		return len(v.b)
	case 's':
		return len(v.s)
	default:
		return len(v.u)
	}
}

func (v vals) eq(w vals) bool { return v.kind == w.kind && v.String() == w.String() }

func i64s(u []uint64) []int64 {
	out := make([]int64, len(u))
	for i, x := range u {
		out[i] = int64(x)
	}
	return out
}
func f64s(u []uint64) []float64 {
	out := make([]float64, len(u))
	for i, x := range u {
		out[i] = math.Float64frombits(x)
	}
	return out
}

// canonical value-section bytes: the string codec's snappy part is replaced by its
// decompressed payload (snappy is an abstract compressor in the model)
func canonVal(kind byte, b []byte) string {
	if kind == 's' && len(b) > 0 {
		p, err := snappy.Decode(nil, b[1:])
		if err != nil {
			return "undecodable"
		}
		return h.Hex(append([]byte{b[0]}, p...))
	}
	return h.Hex(b)
}

// ---------------------------------------------------------------- value codecs

func encS(v vals) ([]byte, error) {
	switch v.kind {
	case 'i', 'u':
		e := tsm1.NewIntegerEncoder(len(v.u))
		for _, x := range v.u {
			e.Write(int64(x))
		}
		e.Flush()
		b, err := e.Bytes()
		return append([]byte(nil), b...), err
	case 't':
		e := tsm1.NewTimeEncoder(len(v.u))
		for _, x := range v.u {
			e.Write(int64(x))
		}
		b, err := e.Bytes()
		return append([]byte(nil), b...), err
	case 'f':
		e := tsm1.NewFloatEncoder()
		for _, x := range v.u {
			e.Write(math.Float64frombits(x))
		}
		e.Flush()
		b, err := e.Bytes()
		return append([]byte(nil), b...), err
	case 'b':
		e := tsm1.NewBooleanEncoder(len(v.b))
		for _, x := range v.b {
			e.Write(x)
		}
		e.Flush()
		b, err := e.Bytes()
		return append([]byte(nil), b...), err
	case 's':
		e := tsm1.NewStringEncoder(16)
		for _, x := range v.s {
			e.Write(x)
		}
		e.Flush()
		b, err := e.Bytes()
		return append([]byte(nil), b...), err
	}
	panic("kind")
}

// dirty returns a caller-supplied buffer with stale content, longer than any encoding of v
// (the batch encoders take a buffer to reuse; their result must not depend on it)
func dirty(v vals) []byte {
	n := 64 + 12*v.Len()
	for _, s := range v.s {
		n += len(s)
	}
	b := make([]byte, n)
	for i := range b {
		b[i] = 0xA5
	}
	return b
}

func encBWith(v vals, buf []byte) ([]byte, error) {
	switch v.kind {
	case 'i':
		return tsm1.IntegerArrayEncodeAll(i64s(v.u), buf)
	case 'u':
		return tsm1.UnsignedArrayEncodeAll(append([]uint64(nil), v.u...), buf)
	case 't':
		return tsm1.TimeArrayEncodeAll(i64s(v.u), buf)
	case 'f':
		return tsm1.FloatArrayEncodeAll(f64s(v.u), buf)
	case 'b':
		return tsm1.BooleanArrayEncodeAll(append([]bool(nil), v.b...), buf)
	case 's':
		return tsm1.StringArrayEncodeAll(append([]string(nil), v.s...), buf)
	}
	panic("kind")
}

// encB: the batch encoder with a nil buffer (what every caller in the tree passes)
func encB(v vals) ([]byte, error) {
	b, err := encBWith(v, nil)
	return append([]byte(nil), b...), err
}

// encD: the batch encoder with a dirty, oversized caller-supplied buffer
func encD(v vals) ([]byte, error) {
	b, err := encBWith(v, dirty(v))
	return append([]byte(nil), b...), err
}

func decS(kind byte, b []byte) (vals, error) {
	out := vals{kind: kind}
	switch kind {
	case 'i', 'u':
		var d tsm1.IntegerDecoder
		d.SetBytes(b)
		for d.Next() {
			out.u = append(out.u, uint64(d.Read()))
		}
		return out, d.Error()
	case 't':
		var d tsm1.TimeDecoder
		d.Init(b)
		for d.Next() {
			out.u = append(out.u, uint64(d.Read()))
		}
		return out, d.Error()
	case 'f':
		var d tsm1.FloatDecoder
		if err := d.SetBytes(b); err != nil {
			return out, err
		}
		for d.Next() {
			out.u = append(out.u, math.Float64bits(d.Values()))
		}
		return out, d.Error()
	case 'b':
		var d tsm1.BooleanDecoder
		d.SetBytes(b)
		for d.Next() {
			out.b = append(out.b, d.Read())
		}
		return out, d.Error()
	case 's':
		var d tsm1.StringDecoder
		if err := d.SetBytes(b); err != nil {
			return out, err
		}
		for d.Next() {
			out.s = append(out.s, d.Read())
		}
		return out, d.Error()
	}
	panic("kind")
}

func decB(kind byte, b []byte) (vals, error) {
	out := vals{kind: kind}
	switch kind {
	case 'i':
		r, err := tsm1.IntegerArrayDecodeAll(b, nil)
		for _, x := range r {
			out.u = append(out.u, uint64(x))
		}
		return out, err
	case 'u':
		r, err := tsm1.UnsignedArrayDecodeAll(b, nil)
		out.u = append(out.u, r...)
		return out, err
	case 't':
		r, err := tsm1.TimeArrayDecodeAll(b, nil)
		for _, x := range r {
			out.u = append(out.u, uint64(x))
		}
		return out, err
	case 'f':
		r, err := tsm1.FloatArrayDecodeAll(b, nil)
		for _, x := range r {
			out.u = append(out.u, math.Float64bits(x))
		}
		return out, err
	case 'b':
		r, err := tsm1.BooleanArrayDecodeAll(b, nil)
		out.b = append(out.b, r...)
		return out, err
	case 's':
		r, err := tsm1.StringArrayDecodeAll(b, nil)
		for _, x := range r {
			out.s = append(out.s, strings.Clone(x))
		}
		return out, err
	}
	panic("kind")
}

func rt(in vals, b []byte, encErr error, dec func(byte, []byte) (vals, error)) string {
	if encErr != nil {
		return "-"
	}
	return guard(func() string {
		out, err := dec(in.kind, append([]byte(nil), b...))
		if err != nil {
			return "err"
		}
		if out.eq(in) {
			return "="
		}
		return "ne:" + out.String()
	})
}

func opCodec(t []string) string {
	if len(t) != 3 || len(t[1]) != 1 || !strings.Contains("iutfbs", t[1]) {
		return "bad-op"
	}
	in := parseVals(t[1][0], t[2])
	sb, serr := encS(in)
	bb, berr := encB(in)
	db, derr := encD(in)
	hs, hb := "err", "err"
	if serr == nil {
		hs = canonVal(in.kind, sb)
	}
	if berr == nil {
		hb = canonVal(in.kind, bb)
	}
	return "S:" + hs + " B:" + hb +
		" SS:" + rt(in, sb, serr, decS) + " SB:" + rt(in, sb, serr, decB) +
		" BS:" + rt(in, bb, berr, decS) + " BB:" + rt(in, bb, berr, decB) +
		" DS:" + rt(in, db, derr, decS) + " DB:" + rt(in, db, derr, decB)
}

// ---------------------------------------------------------------- blocks

func canonBlock(kind byte, b []byte) string {
	if kind != 's' || len(b) == 0 {
		return h.Hex(b)
	}
	n, k := binary.Uvarint(b[1:])
	if k <= 0 || 1+k+int(n) > len(b) {
		return "unparsable"
	}
	vb := b[1+k+int(n):]
	if len(vb) == 0 {
		return h.Hex(b)
	}
	p, err := snappy.Decode(nil, vb[1:])
	if err != nil {
		return "undecodable"
	}
	out := append([]byte(nil), b[:1+k+int(n)+1]...)
	return h.Hex(append(out, p...))
}

func blockEncS(ts []uint64, v vals) ([]byte, error) {
	switch v.kind {
	case 'f':
		a := make(tsm1.FloatValues, len(ts))
		for i := range ts {
			a[i] = tsm1.NewFloatValue(int64(ts[i]), math.Float64frombits(v.u[i])).(tsm1.FloatValue)
		}
		return a.Encode(nil)
	case 'i':
		a := make(tsm1.IntegerValues, len(ts))
		for i := range ts {
			a[i] = tsm1.NewIntegerValue(int64(ts[i]), int64(v.u[i])).(tsm1.IntegerValue)
		}
		return a.Encode(nil)
	case 'u':
		a := make(tsm1.UnsignedValues, len(ts))
		for i := range ts {
			a[i] = tsm1.NewUnsignedValue(int64(ts[i]), v.u[i]).(tsm1.UnsignedValue)
		}
		return a.Encode(nil)
	case 'b':
		a := make(tsm1.BooleanValues, len(ts))
		for i := range ts {
			a[i] = tsm1.NewBooleanValue(int64(ts[i]), v.b[i]).(tsm1.BooleanValue)
		}
		return a.Encode(nil)
	case 's':
		a := make(tsm1.StringValues, len(ts))
		for i := range ts {
			a[i] = tsm1.NewStringValue(int64(ts[i]), v.s[i]).(tsm1.StringValue)
		}
		return a.Encode(nil)
	}
	panic("kind")
}

// the interface-typed path: Values.Encode
func blockEncG(ts []uint64, v vals) ([]byte, error) {
	a := make(tsm1.Values, len(ts))
	for i := range ts {
		switch v.kind {
		case 'f':
			a[i] = tsm1.NewFloatValue(int64(ts[i]), math.Float64frombits(v.u[i]))
		case 'i':
			a[i] = tsm1.NewIntegerValue(int64(ts[i]), int64(v.u[i]))
		case 'u':
			a[i] = tsm1.NewUnsignedValue(int64(ts[i]), v.u[i])
		case 'b':
			a[i] = tsm1.NewBooleanValue(int64(ts[i]), v.b[i])
		case 's':
			a[i] = tsm1.NewStringValue(int64(ts[i]), v.s[i])
		}
	}
	return a.Encode(nil)
}

func blockEncB(ts []uint64, v vals) ([]byte, error) {
	t := i64s(ts)
	switch v.kind {
	case 'f':
		return tsm1.EncodeFloatArrayBlock(&tsdb.FloatArray{Timestamps: t, Values: f64s(v.u)}, nil)
	case 'i':
		return tsm1.EncodeIntegerArrayBlock(&tsdb.IntegerArray{Timestamps: t, Values: i64s(v.u)}, nil)
	case 'u':
		return tsm1.EncodeUnsignedArrayBlock(&tsdb.UnsignedArray{Timestamps: t, Values: append([]uint64(nil), v.u...)}, nil)
	case 'b':
		return tsm1.EncodeBooleanArrayBlock(&tsdb.BooleanArray{Timestamps: t, Values: append([]bool(nil), v.b...)}, nil)
	case 's':
		return tsm1.EncodeStringArrayBlock(&tsdb.StringArray{Timestamps: t, Values: append([]string(nil), v.s...)}, nil)
	}
	panic("kind")
}

type blk struct {
	ts []uint64
	v  vals
}

func (b blk) String() string { return u64s(b.ts) + "/" + b.v.String() }

func blockDecS(kind byte, b []byte) (blk, error) {
	out := blk{v: vals{kind: kind}}
	switch kind {
	case 'f':
		var buf []tsm1.FloatValue
		r, err := tsm1.DecodeFloatBlock(b, &buf)
		for _, x := range r {
			out.ts = append(out.ts, uint64(x.UnixNano()))
			out.v.u = append(out.v.u, math.Float64bits(x.RawValue()))
		}
		return out, err
	case 'i':
		var buf []tsm1.IntegerValue
		r, err := tsm1.DecodeIntegerBlock(b, &buf)
		for _, x := range r {
			out.ts = append(out.ts, uint64(x.UnixNano()))
			out.v.u = append(out.v.u, uint64(x.RawValue()))
		}
		return out, err
	case 'u':
		var buf []tsm1.UnsignedValue
		r, err := tsm1.DecodeUnsignedBlock(b, &buf)
		for _, x := range r {
			out.ts = append(out.ts, uint64(x.UnixNano()))
			out.v.u = append(out.v.u, x.RawValue())
		}
		return out, err
	case 'b':
		var buf []tsm1.BooleanValue
		r, err := tsm1.DecodeBooleanBlock(b, &buf)
		for _, x := range r {
			out.ts = append(out.ts, uint64(x.UnixNano()))
			out.v.b = append(out.v.b, x.RawValue())
		}
		return out, err
	case 's':
		var buf []tsm1.StringValue
		r, err := tsm1.DecodeStringBlock(b, &buf)
		for _, x := range r {
			out.ts = append(out.ts, uint64(x.UnixNano()))
			out.v.s = append(out.v.s, x.RawValue())
		}
		return out, err
	}
	panic("kind")
}

// the interface-typed path: DecodeBlock
func blockDecG(kind byte, b []byte) (blk, error) {
	out := blk{v: vals{kind: kind}}
	r, err := tsm1.DecodeBlock(b, nil)
	for _, x := range r {
		out.ts = append(out.ts, uint64(x.UnixNano()))
		switch y := x.Value().(type) {
		case float64:
			out.v.u = append(out.v.u, math.Float64bits(y))
		case int64:
			out.v.u = append(out.v.u, uint64(y))
		case uint64:
			out.v.u = append(out.v.u, y)
		case bool:
			out.v.b = append(out.v.b, y)
		case string:
			out.v.s = append(out.v.s, y)
		}
	}
	return out, err
}

func blockDecB(kind byte, b []byte) (blk, error) {
	out := blk{v: vals{kind: kind}}
	u := func(ts []int64) {
		for _, x := range ts {
			out.ts = append(out.ts, uint64(x))
		}
	}
	switch kind {
	case 'f':
		var a tsdb.FloatArray
		err := tsm1.DecodeFloatArrayBlock(b, &a)
		u(a.Timestamps)
		for _, x := range a.Values {
			out.v.u = append(out.v.u, math.Float64bits(x))
		}
		return out, err
	case 'i':
		var a tsdb.IntegerArray
		err := tsm1.DecodeIntegerArrayBlock(b, &a)
		u(a.Timestamps)
		for _, x := range a.Values {
			out.v.u = append(out.v.u, uint64(x))
		}
		return out, err
	case 'u':
		var a tsdb.UnsignedArray
		err := tsm1.DecodeUnsignedArrayBlock(b, &a)
		u(a.Timestamps)
		out.v.u = append(out.v.u, a.Values...)
		return out, err
	case 'b':
		var a tsdb.BooleanArray
		err := tsm1.DecodeBooleanArrayBlock(b, &a)
		u(a.Timestamps)
		out.v.b = append(out.v.b, a.Values...)
		return out, err
	case 's':
		var a tsdb.StringArray
		err := tsm1.DecodeStringArrayBlock(b, &a)
		u(a.Timestamps)
		for _, x := range a.Values {
			out.v.s = append(out.v.s, strings.Clone(x))
		}
		return out, err
	}
	panic("kind")
}

func rtBlock(in blk, b []byte, encErr error, dec func(byte, []byte) (blk, error)) string {
	if encErr != nil || len(b) == 0 {
		return "-" // no block was produced (error, or nothing to encode)
	}
	return guard(func() string {
		out, err := dec(in.v.kind, append([]byte(nil), b...))
		if err != nil {
			return "err"
		}
		if out.String() == in.String() {
			return "="
		}
		return "ne:" + out.String()
	})
}

func opBlock(t []string) string {
	if len(t) != 4 || len(t[1]) != 1 || !strings.Contains("iufbs", t[1]) {
		return "bad-op"
	}
	in := blk{ts: parseU64s(t[2]), v: parseVals(t[1][0], t[3])}
	if len(in.ts) != in.v.Len() {
		return "bad-op"
	}
	sb, serr := blockEncS(in.ts, in.v)
	gb, gerr := []byte(nil), error(nil)
	if len(in.ts) > 0 { // Values.Encode panics on an empty slice by contract
		gb, gerr = blockEncG(in.ts, in.v)
	}
	bb, berr := blockEncB(in.ts, in.v)
	hs, hb := "err", "err"
	if serr == nil {
		hs = canonBlock(in.v.kind, sb)
	}
	if berr == nil {
		hb = canonBlock(in.v.kind, bb)
	}
	g := "="
	if (serr == nil) != (gerr == nil) || string(sb) != string(gb) && in.v.kind != 's' ||
		in.v.kind == 's' && serr == nil && canonBlock('s', gb) != hs {
		g = "differs"
	}
	return "S:" + hs + " G:" + g + " B:" + hb +
		" SS:" + rtBlock(in, sb, serr, blockDecS) + " SG:" + rtBlock(in, sb, serr, blockDecG) + " SB:" + rtBlock(in, sb, serr, blockDecB) +
		" BS:" + rtBlock(in, bb, berr, blockDecS) + " BG:" + rtBlock(in, bb, berr, blockDecG) + " BB:" + rtBlock(in, bb, berr, blockDecB)
}

// ---------------------------------------------------------------- simple8b, zigzag

func wordsBE(b []byte) []uint64 {
	var ws []uint64
	for len(b) >= 8 {
		ws = append(ws, binary.BigEndian.Uint64(b))
		b = b[8:]
	}
	return ws
}

func opS8b(t []string) string {
	if len(t) != 2 {
		return "bad-op"
	}
	in := parseU64s(t[1])
	cp := func() []uint64 { return append([]uint64(nil), in...) }
	iw, ierr := is8b.EncodeAll(cp())
	iw = append([]uint64(nil), iw...)
	jw, jerr := js8b.EncodeAll(cp())
	jw = append([]uint64(nil), jw...)
	// streaming jwilder encoder
	var tw []uint64
	var terr error
	{
		e := js8b.NewEncoder()
		for _, v := range in {
			if terr = e.Write(v); terr != nil {
				break
			}
		}
		if terr == nil {
			var b []byte
			b, terr = e.Bytes()
			tw = wordsBE(b)
		}
	}
	decI := func(ws []uint64) string {
		return guard(func() string {
			bs := make([]byte, 8*len(ws))
			for i, w := range ws {
				binary.BigEndian.PutUint64(bs[8*i:], w)
			}
			n, err := is8b.CountBytes(bs)
			if err != nil {
				return "err"
			}
			dst := make([]uint64, n+240)
			k, err := is8b.DecodeBytesBigEndian(dst, bs)
			if err != nil {
				return "err"
			}
			dst2 := make([]uint64, n+240)
			k2, err := is8b.DecodeAll(dst2, ws)
			if err != nil || k2 != k || k != n || !eqU(dst[:k], dst2[:k2]) {
				return "inconsistent"
			}
			if eqU(dst[:k], in) {
				return "="
			}
			return "ne:" + u64s(dst[:k])
		})
	}
	decJ := func(ws []uint64) string {
		return guard(func() string {
			bs := make([]byte, 8*len(ws))
			for i, w := range ws {
				binary.BigEndian.PutUint64(bs[8*i:], w)
			}
			d := js8b.NewDecoder(bs)
			var out []uint64
			for d.Next() {
				out = append(out, d.Read())
			}
			if eqU(out, in) {
				return "="
			}
			return "ne:" + u64s(out)
		})
	}
	show := func(ws []uint64, err error) string {
		if err != nil {
			return "err"
		}
		return u64s(ws)
	}
	dec := func(ws []uint64, err error, d func([]uint64) string) string {
		if err != nil {
			return "-"
		}
		return d(ws)
	}
	return "I:" + show(iw, ierr) + " J:" + show(jw, jerr) + " T:" + show(tw, terr) +
		" II:" + dec(iw, ierr, decI) + " IJ:" + dec(iw, ierr, decJ) +
		" JI:" + dec(jw, jerr, decI) + " JJ:" + dec(jw, jerr, decJ) +
		" TI:" + dec(tw, terr, decI) + " TJ:" + dec(tw, terr, decJ)
}

func opZZ(t []string) string {
	if len(t) != 2 {
		return "bad-op"
	}
	x, err := strconv.ParseUint(t[1], 10, 64)
	if err != nil {
		return "bad-op"
	}
	e := tsm1.ZigZagEncode(int64(x))
	return strconv.FormatUint(e, 10) + " " + strconv.FormatUint(uint64(tsm1.ZigZagDecode(e)), 10)
}

func op(t []string) string {
	if len(t) == 0 {
		return "bad-op"
	}
	return guard(func() string {
		switch t[0] {
		case "c":
			return opCodec(t)
		case "blk":
			return opBlock(t)
		case "s8b":
			return opS8b(t)
		case "zz":
			return opZZ(t)
		}
		return "bad-op"
	})
}

func main() { h.Main(h.Harness{Gen: gen, NewCase: h.Stateless(op)}) }
