package main

import "verif/harness/h"

func gen(r *h.Rand, tier string, emit func([]string)) {
	emit([]string{"zz 0"})
}
