package main

import (
	"math"
	"strconv"
	"strings"

	"verif/harness/h"
)

const (
	maxS8b = uint64(1)<<60 - 1
	minI64 = uint64(1) << 63
	maxI64 = uint64(1)<<63 - 1
	maxU64 = ^uint64(0)
	uvnan  = uint64(0x7FF8000000000001)
)

var selTable = [][2]int{{240, 0}, {120, 0}, {60, 1}, {30, 2}, {20, 3}, {15, 4}, {12, 5}, {10, 6}, {8, 7}, {7, 8}, {6, 10}, {5, 12}, {4, 15}, {3, 20}, {2, 30}, {1, 60}}

type gctx struct {
	r    *h.Rand
	b    []string
	emit func([]string)
	tier string
}

func (g *gctx) add(s string) {
	g.b = append(g.b, s)
	if len(g.b) >= 200 {
		g.flush()
	}
}
func (g *gctx) flush() {
	if len(g.b) > 0 {
		g.emit(g.b)
		g.b = nil
	}
}

func rep(v uint64, n int) []uint64 {
	out := make([]uint64, n)
	for i := range out {
		out[i] = v
	}
	return out
}
func cat(xs ...[]uint64) []uint64 {
	var out []uint64
	for _, x := range xs {
		out = append(out, x...)
	}
	return out
}

// random length: mostly short, sometimes around the simple8b run lengths, rarely > 1000
func (g *gctx) length() int {
	r := g.r
	switch {
	case r.Chance(0.03):
		return 1000 + r.Intn(600)
	case r.Chance(0.10):
		return h.Pick(r, []int{118, 119, 120, 121, 122, 238, 239, 240, 241, 242, 243, 300, 361, 480, 481})
	case r.Chance(0.3):
		return r.Intn(4)
	default:
		return r.Intn(70)
	}
}

// a uint64 of a random bit width (so that every simple8b selector is hit)
func (g *gctx) bitsVal(maxBits int) uint64 {
	w := g.r.Intn(maxBits + 1)
	if w == 0 {
		return 0
	}
	v := g.r.Uint64()
	if w < 64 {
		v &= (uint64(1) << uint(w)) - 1
	}
	return v
}

// ---------------------------------------------------------------- simple8b inputs

func (g *gctx) s8bInputs() [][]uint64 {
	r := g.r
	var out [][]uint64
	out = append(out, nil, []uint64{0}, []uint64{1}, []uint64{maxS8b}, []uint64{maxS8b + 1}, []uint64{maxU64},
		[]uint64{1, 2, 3, maxS8b + 1}, []uint64{maxS8b + 1, 1, 2}, cat(rep(1, 240), []uint64{maxS8b + 1}))
	for _, sb := range selTable {
		n, bits := sb[0], uint(sb[1])
		if bits == 0 {
			for _, k := range []int{n - 1, n, n + 1} {
				out = append(out, rep(1, k), cat(rep(1, k), []uint64{2}), cat(rep(1, k), []uint64{0, 1}), cat([]uint64{3}, rep(1, k)))
			}
			out = append(out, cat(rep(1, n-1), []uint64{0}, rep(1, n)), cat(rep(1, n), rep(1, n), []uint64{7}))
			continue
		}
		top := uint64(1)<<bits - 1
		for _, k := range []int{n - 1, n, n + 1, 2 * n} {
			out = append(out, rep(top, k), rep(0, k))
			x := rep(top, k)
			if k > 0 {
				x[r.Intn(k)] = top + 1 // one value needs one more bit
			}
			out = append(out, x)
			y := make([]uint64, k)
			for i := range y {
				y[i] = r.Uint64() & top
			}
			out = append(out, y)
		}
	}
	return out
}

func (g *gctx) randU64s(maxBits int) []uint64 {
	n := g.length()
	out := make([]uint64, n)
	mode := g.r.Intn(5)
	w := g.r.Intn(maxBits + 1)
	for i := range out {
		switch mode {
		case 0: // fixed width
			out[i] = g.bitsVal(w)
		case 1: // mostly ones with occasional others (selector 0/1 boundaries)
			out[i] = 1
			if g.r.Chance(0.01) {
				out[i] = g.bitsVal(6)
			}
		case 2: // mixed widths
			out[i] = g.bitsVal(maxBits)
		case 3: // small with rare big
			out[i] = g.bitsVal(4)
			if g.r.Chance(0.03) {
				out[i] = g.bitsVal(maxBits)
			}
		default:
			out[i] = uint64(g.r.Intn(3))
		}
	}
	return out
}

// ---------------------------------------------------------------- integer-like sequences (bit patterns)

func (g *gctx) intSeq() []uint64 {
	r := g.r
	n := g.length()
	out := make([]uint64, n)
	start := h.Pick(r, []uint64{0, 1, 5, maxI64, minI64, maxU64, minI64 + 1, 1 << 60, r.Uint64()})
	mode := r.Intn(8)
	step := h.Pick(r, []uint64{0, 1, maxU64 /* -1 */, 2, 10, 1000, 1 << 59, 1 << 60, 1 << 62, minI64, r.Uint64()})
	cur := start
	for i := range out {
		switch mode {
		case 0, 1: // constant step (RLE), wrapping
			out[i] = cur
			cur += step
		case 2: // constant step with one glitch
			out[i] = cur
			cur += step
			if r.Chance(0.02) {
				cur += uint64(r.Intn(3))
			}
		case 3: // small random walk
			out[i] = cur
			cur += uint64(int64(r.Intn(41)) - 20)
		case 4: // random 64-bit
			out[i] = r.Uint64()
		case 5: // extremes
			out[i] = h.Pick(r, []uint64{0, 1, maxI64, minI64, maxU64, maxI64 - 1, minI64 + 1})
		case 6: // decreasing by one (zigzag delta 1: runs of ones for simple8b) with rare glitches
			out[i] = cur
			cur--
			if r.Chance(0.005) {
				cur -= uint64(r.Intn(50))
			}
		default: // random widths of deltas
			out[i] = cur
			d := g.bitsVal(62)
			if r.Bool() {
				cur += d
			} else {
				cur -= d
			}
		}
	}
	return out
}

func (g *gctx) timeSeq() []uint64 {
	r := g.r
	n := g.length()
	out := make([]uint64, n)
	p10 := uint64(1)
	for k := r.Intn(15); k > 0; k-- {
		p10 *= 10
	}
	start := h.Pick(r, []uint64{0, 1, 1500000000000000000, maxI64, minI64, maxU64 - 5, uint64(r.Range(0, 2000000000)) * 1000000000})
	mode := r.Intn(7)
	cur := start
	for i := range out {
		out[i] = cur
		switch mode {
		case 0: // regular interval
			cur += p10 * 3
		case 1: // regular multiples of a power of ten, irregular factors
			cur += p10 * uint64(1+r.Intn(9))
		case 2: // mostly one interval (= the divisor: packs as ones), rare other
			cur += p10
			if r.Chance(0.01) {
				cur += p10 * uint64(r.Intn(5))
			}
		case 3: // one odd delta breaks the divisor
			cur += p10 * uint64(1+r.Intn(3))
			if r.Chance(0.02) {
				cur += uint64(r.Intn(7))
			}
		case 4: // unsorted / random
			cur = r.Uint64()
		case 5: // huge deltas (raw encoding)
			cur += uint64(1)<<60 + uint64(r.Intn(3))
		default:
			cur += g.bitsVal(40)
		}
	}
	return out
}

var floatSpecials = []uint64{
	0, 1 << 63, // +0 -0
	1, 0x000FFFFFFFFFFFFF, 0x8000000000000001, // subnormals
	0x0010000000000000,                         // min normal
	0x7FEFFFFFFFFFFFFF, 0xFFEFFFFFFFFFFFFF, // +-max
	0x7FF0000000000000, 0xFFF0000000000000, // +-Inf
	0x3FF0000000000000, 0xBFF0000000000000, 0x4000000000000000, 0x3FB999999999999A,
}

var nanPatterns = []uint64{uvnan, 0x7FF8000000000000, 0x7FF0000000000001, 0xFFF8000000000000, 0x7FFFFFFFFFFFFFFF, 0xFFF0000000000123}

func (g *gctx) floatSeq() []uint64 {
	r := g.r
	n := g.length()
	out := make([]uint64, n)
	mode := r.Intn(7)
	cur := math.Float64frombits(h.Pick(r, []uint64{0x3FF0000000000000, 0x4059000000000000, 0x40C3880000000000}))
	for i := range out {
		switch mode {
		case 0: // specials
			out[i] = h.Pick(r, floatSpecials)
		case 1: // equal runs
			if i > 0 && r.Chance(0.8) {
				out[i] = out[i-1]
			} else {
				out[i] = h.Pick(r, floatSpecials)
			}
		case 2: // slowly varying measurements (window reuse)
			cur += float64(r.Intn(21)-10) / 8
			out[i] = math.Float64bits(cur)
		case 3: // integers as floats
			out[i] = math.Float64bits(float64(r.Intn(1000)))
		case 4: // random bit patterns that are not NaN
			v := r.Uint64()
			if math.IsNaN(math.Float64frombits(v)) {
				v &^= 1 << 62
			}
			out[i] = v
		case 5: // few differing low bits
			out[i] = 0x400921FB54442D18 ^ g.bitsVal(r.Intn(53))
		default: // differing high bits only
			out[i] = (g.bitsVal(11) << 52) & 0x7FE0000000000000
		}
	}
	return out
}

func (g *gctx) boolSeq() []bool {
	n := g.length()
	out := make([]bool, n)
	p := h.Pick(g.r, []float64{0, 1, 0.5, 0.1, 0.9})
	for i := range out {
		out[i] = g.r.Chance(p)
	}
	return out
}

func (g *gctx) strSeq() []string {
	r := g.r
	n := g.length()
	if n > 300 {
		n = 300 + r.Intn(900)
	}
	out := make([]string, n)
	for i := range out {
		var l int
		switch {
		case r.Chance(0.2):
			l = 0
		case r.Chance(0.03):
			l = h.Pick(r, []int{127, 128, 129, 300, 16383, 16384, 20000})
			if n > 50 {
				l = 127 + r.Intn(3)
			}
		default:
			l = r.Intn(12)
		}
		b := make([]byte, l)
		for j := range b {
			if r.Chance(0.7) {
				b[j] = byte('a' + r.Intn(4))
			} else {
				b[j] = byte(r.Intn(256))
			}
		}
		out[i] = string(b)
	}
	return out
}

func allBoolLists(maxLen int) [][]bool {
	var out [][]bool
	for l := 0; l <= maxLen; l++ {
		for m := 0; m < 1<<l; m++ {
			x := make([]bool, l)
			for i := range x {
				x[i] = m&(1<<i) != 0
			}
			out = append(out, x)
		}
	}
	return out
}

func (g *gctx) valsOf(kind byte, n int) vals {
	fit := func(u []uint64) []uint64 {
		for len(u) < n {
			u = append(u, u[len(u)%max(1, len(u)):]...)
			if len(u) == 0 {
				u = append(u, 7)
			}
		}
		return u[:n]
	}
	switch kind {
	case 'f':
		return vals{kind: kind, u: fit(g.floatSeq())}
	case 'i', 'u':
		return vals{kind: kind, u: fit(g.intSeq())}
	case 'b':
		b := g.boolSeq()
		for len(b) < n {
			b = append(b, g.r.Bool())
		}
		return vals{kind: kind, b: b[:n]}
	default:
		s := g.strSeq()
		for len(s) < n {
			s = append(s, strconv.Itoa(len(s)))
		}
		return vals{kind: kind, s: s[:n]}
	}
}

func gen(r *h.Rand, tier string, emit func([]string)) {
	g := &gctx{r: r, emit: emit, tier: tier}
	scale := 1
	if tier == "thorough" {
		scale = 12
	}

	// zigzag: boundaries and random
	for _, x := range []uint64{0, 1, 2, 3, maxI64 - 1, maxI64, minI64, minI64 + 1, maxU64 - 1, maxU64, 1 << 62, 1<<62 - 1, 3 << 62} {
		g.add("zz " + strconv.FormatUint(x, 10))
	}
	for i := 0; i < 300*scale; i++ {
		g.add("zz " + strconv.FormatUint(g.bitsVal(64), 10))
	}

	// simple8b: every selector boundary, then random
	for _, in := range g.s8bInputs() {
		g.add("s8b " + u64s(in))
	}
	for i := 0; i < 2000*scale; i++ {
		g.add("s8b " + u64s(g.randU64s(h.Pick(r, []int{8, 20, 60, 60, 61, 64}))))
	}

	// value codecs
	for _, in := range g.s8bInputs() { // as integers / timestamps too: prefix sums turn them into deltas
		acc := uint64(0)
		ps := make([]uint64, len(in))
		dn := make([]uint64, len(in))
		for i, d := range in {
			acc += d
			ps[i] = acc
			dn[i] = -acc // decreasing: zigzag(-1) = 1
		}
		g.add("c t " + u64s(ps))
		g.add("c i " + u64s(dn))
		g.add("c u " + u64s(ps))
	}
	for i := 0; i < 1500*scale; i++ {
		g.add("c i " + u64s(g.intSeq()))
		g.add("c u " + u64s(g.intSeq()))
		g.add("c t " + u64s(g.timeSeq()))
		g.add("c f " + u64s(g.floatSeq()))
		g.add("c b " + bools(g.boolSeq()))
		if i%3 == 0 {
			g.add("c s " + strs(g.strSeq()))
		}
	}
	for _, b := range allBoolLists(10) {
		g.add("c b " + bools(b))
	}
	for i, s := range floatSpecials { // every ordered pair of special floats
		g.add("c f " + u64s([]uint64{s}))
		for _, t := range floatSpecials {
			g.add("c f " + u64s([]uint64{s, t}))
			g.add("c f " + u64s([]uint64{floatSpecials[(i+3)%len(floatSpecials)], s, t, s}))
		}
	}
	// NaN of every flavour: both encoders refuse (documented limitation; recorded finding)
	for _, nan := range nanPatterns {
		g.add("c f " + u64s([]uint64{nan}))
		g.add("c f " + u64s([]uint64{0x3FF0000000000000, nan, 0x4000000000000000}))
		g.add("blk f 1,2 " + u64s([]uint64{0x3FF0000000000000, nan}))
	}
	// +Inf and -Inf in one batch (the repaired FloatArrayEncodeAll)
	pinf, ninf := uint64(0x7FF0000000000000), uint64(0xFFF0000000000000)
	g.add("c f " + u64s([]uint64{0, pinf, ninf}))
	g.add("c f " + u64s([]uint64{0x7FEFFFFFFFFFFFFF, 0x7FEFFFFFFFFFFFFF, 0x7FEFFFFFFFFFFFFF, ninf}))
	g.add("blk f 1,2,3 " + u64s([]uint64{ninf, ninf, pinf}))

	// blocks
	g.add("blk i - -")
	g.add("blk f - -")
	g.add("blk s - -")
	for i := 0; i < 1200*scale; i++ {
		kind := "iufbs"[r.Intn(5)]
		ts := g.timeSeq()
		if r.Chance(0.1) && len(ts) == 0 {
			ts = []uint64{r.Uint64()}
		}
		v := g.valsOf(kind, len(ts))
		g.add("blk " + string(kind) + " " + u64s(ts) + " " + v.String())
	}

	// malformed
	g.add("c x 1,2")
	g.add("blk i 1,2 1")
	g.add("zz 18446744073709551616")
	g.add("s8b 1,,2")
	g.add("c b 012")
	g.add(strings.TrimSpace("frob 1"))
	g.flush()
}
