// Harness for C37: drives the real tsm1.*Values and cursors.*Array methods
// (Merge, Exclude, Include, FindRange, search, Deduplicate) for all value types.
package main

import (
	"fmt"
	"math"
	"sort"
	"strconv"

	"github.com/influxdata/influxdb/v2/tsdb/cursors"
	"github.com/influxdata/influxdb/v2/tsdb/engine/tsm1"
	"verif/harness/h"
)

// arr is the protocol view of an array: timestamps and integer payload tokens.
type arr struct{ ts, vs []int64 }

func (a arr) String() string { return h.Ints(a.ts) + " " + h.Ints(a.vs) }

type impl struct {
	merge  func(a, b arr) arr
	excl   func(a arr, lo, hi int64) arr
	incl   func(a arr, lo, hi int64) arr
	frange func(a arr, lo, hi int64) (int, int)
	search func(a arr, t int64) int
	dedup  func(a arr) arr // nil for the cursors family
}

// ---- tsm1 family: a typed slice S of element E

func tsmImpl[E tsm1.Value, S ~[]E](mk func(t, k int64) E, raw func(E) int64,
	merge func(a, b S) S, excl, incl func(a S, lo, hi int64) S,
	frange func(a S, lo, hi int64) (int, int), search func(a S, t int64) int, dedup func(a S) S) impl {
	in := func(a arr) S {
		s := make(S, len(a.ts)) // cap == len: the model's assumption for slice-bound panics
		for i := range a.ts {
			s[i] = mk(a.ts[i], a.vs[i])
		}
		return s
	}
	out := func(s S) arr {
		var r arr
		for _, e := range s {
			r.ts = append(r.ts, e.UnixNano())
			r.vs = append(r.vs, raw(e))
		}
		return r
	}
	return impl{
		merge:  func(a, b arr) arr { return out(merge(in(a), in(b))) },
		excl:   func(a arr, lo, hi int64) arr { return out(excl(in(a), lo, hi)) },
		incl:   func(a arr, lo, hi int64) arr { return out(incl(in(a), lo, hi)) },
		frange: func(a arr, lo, hi int64) (int, int) { return frange(in(a), lo, hi) },
		search: func(a arr, t int64) int { return search(in(a), t) },
		dedup:  func(a arr) arr { return out(dedup(in(a))) },
	}
}

// ---- cursors family: struct A with Timestamps []int64 and Values []T

func curImpl[T any, A any](mkv func(k int64) T, raw func(T) int64,
	build func(ts []int64, vs []T) *A, parts func(*A) ([]int64, []T),
	merge func(a, b *A), excl, incl func(a *A, lo, hi int64),
	frange func(a *A, lo, hi int64) (int, int), search func(a *A, t int64) int) impl {
	in := func(a arr) *A {
		ts := make([]int64, len(a.ts))
		copy(ts, a.ts)
		vs := make([]T, len(a.vs))
		for i, k := range a.vs {
			vs[i] = mkv(k)
		}
		return build(ts, vs)
	}
	out := func(x *A) arr {
		ts, vs := parts(x)
		if len(ts) != len(vs) {
			panic("timestamps and values out of step")
		}
		var r arr
		r.ts = append(r.ts, ts...)
		for _, v := range vs {
			r.vs = append(r.vs, raw(v))
		}
		return r
	}
	return impl{
		merge:  func(a, b arr) arr { x := in(a); merge(x, in(b)); return out(x) },
		excl:   func(a arr, lo, hi int64) arr { x := in(a); excl(x, lo, hi); return out(x) },
		incl:   func(a arr, lo, hi int64) arr { x := in(a); incl(x, lo, hi); return out(x) },
		frange: func(a arr, lo, hi int64) (int, int) { return frange(in(a), lo, hi) },
		search: func(a arr, t int64) int { return search(in(a), t) },
	}
}

// payload tokens <-> typed values (injective on the tokens the generator uses)
func f2k(v float64) int64 { return int64(v) }
func k2f(k int64) float64 { return float64(k) }
func s2k(s string) int64 {
	k, err := strconv.ParseInt(s, 10, 64)
	if err != nil {
		panic("payload string changed: " + s)
	}
	return k
}
func k2s(k int64) string { return strconv.FormatInt(k, 10) }
func b2k(b bool) int64 {
	if b {
		return 1
	}
	return 0
}

var impls = map[string]impl{
	"vg": tsmImpl[tsm1.Value, tsm1.Values](
		func(t, k int64) tsm1.Value { return tsm1.NewIntegerValue(t, k) },
		func(e tsm1.Value) int64 { return e.Value().(int64) },
		tsm1.Values.Merge, tsm1.Values.Exclude, tsm1.Values.Include, tsm1.Values.FindRange,
		tsm1.Values.VerifC37Search, tsm1.Values.Deduplicate),
	"vf": tsmImpl[tsm1.FloatValue, tsm1.FloatValues](
		func(t, k int64) tsm1.FloatValue { return tsm1.NewFloatValue(t, k2f(k)).(tsm1.FloatValue) },
		func(e tsm1.FloatValue) int64 { return f2k(e.RawValue()) },
		tsm1.FloatValues.Merge, tsm1.FloatValues.Exclude, tsm1.FloatValues.Include, tsm1.FloatValues.FindRange,
		tsm1.FloatValues.VerifC37Search, tsm1.FloatValues.Deduplicate),
	"vi": tsmImpl[tsm1.IntegerValue, tsm1.IntegerValues](
		func(t, k int64) tsm1.IntegerValue { return tsm1.NewIntegerValue(t, k).(tsm1.IntegerValue) },
		func(e tsm1.IntegerValue) int64 { return e.RawValue() },
		tsm1.IntegerValues.Merge, tsm1.IntegerValues.Exclude, tsm1.IntegerValues.Include, tsm1.IntegerValues.FindRange,
		tsm1.IntegerValues.VerifC37Search, tsm1.IntegerValues.Deduplicate),
	"vu": tsmImpl[tsm1.UnsignedValue, tsm1.UnsignedValues](
		func(t, k int64) tsm1.UnsignedValue { return tsm1.NewUnsignedValue(t, uint64(k)).(tsm1.UnsignedValue) },
		func(e tsm1.UnsignedValue) int64 { return int64(e.RawValue()) },
		tsm1.UnsignedValues.Merge, tsm1.UnsignedValues.Exclude, tsm1.UnsignedValues.Include, tsm1.UnsignedValues.FindRange,
		tsm1.UnsignedValues.VerifC37Search, tsm1.UnsignedValues.Deduplicate),
	"vs": tsmImpl[tsm1.StringValue, tsm1.StringValues](
		func(t, k int64) tsm1.StringValue { return tsm1.NewStringValue(t, k2s(k)).(tsm1.StringValue) },
		func(e tsm1.StringValue) int64 { return s2k(e.RawValue()) },
		tsm1.StringValues.Merge, tsm1.StringValues.Exclude, tsm1.StringValues.Include, tsm1.StringValues.FindRange,
		tsm1.StringValues.VerifC37Search, tsm1.StringValues.Deduplicate),
	"vb": tsmImpl[tsm1.BooleanValue, tsm1.BooleanValues](
		func(t, k int64) tsm1.BooleanValue { return tsm1.NewBooleanValue(t, k != 0).(tsm1.BooleanValue) },
		func(e tsm1.BooleanValue) int64 { return b2k(e.RawValue()) },
		tsm1.BooleanValues.Merge, tsm1.BooleanValues.Exclude, tsm1.BooleanValues.Include, tsm1.BooleanValues.FindRange,
		tsm1.BooleanValues.VerifC37Search, tsm1.BooleanValues.Deduplicate),

	"af": curImpl[float64, cursors.FloatArray](k2f, f2k,
		func(ts []int64, vs []float64) *cursors.FloatArray { return &cursors.FloatArray{Timestamps: ts, Values: vs} },
		func(a *cursors.FloatArray) ([]int64, []float64) { return a.Timestamps, a.Values },
		(*cursors.FloatArray).Merge, (*cursors.FloatArray).Exclude, (*cursors.FloatArray).Include,
		(*cursors.FloatArray).FindRange, (*cursors.FloatArray).VerifC37Search),
	"ai": curImpl[int64, cursors.IntegerArray](func(k int64) int64 { return k }, func(v int64) int64 { return v },
		func(ts []int64, vs []int64) *cursors.IntegerArray { return &cursors.IntegerArray{Timestamps: ts, Values: vs} },
		func(a *cursors.IntegerArray) ([]int64, []int64) { return a.Timestamps, a.Values },
		(*cursors.IntegerArray).Merge, (*cursors.IntegerArray).Exclude, (*cursors.IntegerArray).Include,
		(*cursors.IntegerArray).FindRange, (*cursors.IntegerArray).VerifC37Search),
	"au": curImpl[uint64, cursors.UnsignedArray](func(k int64) uint64 { return uint64(k) }, func(v uint64) int64 { return int64(v) },
		func(ts []int64, vs []uint64) *cursors.UnsignedArray { return &cursors.UnsignedArray{Timestamps: ts, Values: vs} },
		func(a *cursors.UnsignedArray) ([]int64, []uint64) { return a.Timestamps, a.Values },
		(*cursors.UnsignedArray).Merge, (*cursors.UnsignedArray).Exclude, (*cursors.UnsignedArray).Include,
		(*cursors.UnsignedArray).FindRange, (*cursors.UnsignedArray).VerifC37Search),
	"as": curImpl[string, cursors.StringArray](k2s, s2k,
		func(ts []int64, vs []string) *cursors.StringArray { return &cursors.StringArray{Timestamps: ts, Values: vs} },
		func(a *cursors.StringArray) ([]int64, []string) { return a.Timestamps, a.Values },
		(*cursors.StringArray).Merge, (*cursors.StringArray).Exclude, (*cursors.StringArray).Include,
		(*cursors.StringArray).FindRange, (*cursors.StringArray).VerifC37Search),
	"ab": curImpl[bool, cursors.BooleanArray](func(k int64) bool { return k != 0 }, b2k,
		func(ts []int64, vs []bool) *cursors.BooleanArray { return &cursors.BooleanArray{Timestamps: ts, Values: vs} },
		func(a *cursors.BooleanArray) ([]int64, []bool) { return a.Timestamps, a.Values },
		(*cursors.BooleanArray).Merge, (*cursors.BooleanArray).Exclude, (*cursors.BooleanArray).Include,
		(*cursors.BooleanArray).FindRange, (*cursors.BooleanArray).VerifC37Search),
}

func parseArr(ts, vs string) (arr, bool) {
	a := arr{h.ParseInts(ts), h.ParseInts(vs)}
	return a, len(a.ts) == len(a.vs)
}

func op(t []string) (ans string) {
	defer func() {
		if r := recover(); r != nil {
			ans = "panic"
		}
	}()
	if len(t) < 4 {
		return "bad-op"
	}
	im, ok := impls[t[1]]
	if !ok {
		return "bad-op"
	}
	a, ok := parseArr(t[2], t[3])
	if !ok {
		return "bad-op"
	}
	switch {
	case t[0] == "merge" && len(t) == 6:
		b, ok := parseArr(t[4], t[5])
		if !ok {
			return "bad-op"
		}
		return im.merge(a, b).String()
	case t[0] == "excl" && len(t) == 6:
		return im.excl(a, h.Atoi(t[4]), h.Atoi(t[5])).String()
	case t[0] == "incl" && len(t) == 6:
		return im.incl(a, h.Atoi(t[4]), h.Atoi(t[5])).String()
	case t[0] == "frange" && len(t) == 6:
		x, y := im.frange(a, h.Atoi(t[4]), h.Atoi(t[5]))
		return fmt.Sprintf("%d %d", x, y)
	case t[0] == "search" && len(t) == 5:
		return strconv.Itoa(im.search(a, h.Atoi(t[4])))
	case t[0] == "dedup" && len(t) == 4 && im.dedup != nil:
		return im.dedup(a).String()
	}
	return "bad-op"
}

// ---------------------------------------------------------------- generator

var allFT = []string{"vg", "vf", "vi", "vu", "vs", "vb", "af", "ai", "au", "as", "ab"}

// the 8-timestamp domain: both int64 extremes and their neighbours, and a dense middle
var dom8 = []int64{math.MinInt64, math.MinInt64 + 1, -1, 0, 1, 2, math.MaxInt64 - 1, math.MaxInt64}

// range bounds: the domain plus values strictly between / outside the dense part
var bounds = []int64{math.MinInt64, math.MinInt64 + 1, -2, -1, 0, 1, 2, 1000, math.MaxInt64 - 1, math.MaxInt64}

type batcher struct {
	buf  []string
	emit func([]string)
}

func (b *batcher) add(s string) {
	b.buf = append(b.buf, s)
	if len(b.buf) >= 500 {
		b.flush()
	}
}
func (b *batcher) flush() {
	if len(b.buf) > 0 {
		b.emit(b.buf)
		b.buf = nil
	}
}

func isBool(ft string) bool { return ft[1] == 'b' }

// subset of dom by bit mask, payload tokens base+i (bool: parity pattern from pat)
func subset(dom []int64, mask int, ft string, base int64, pat int) arr {
	var a arr
	for i, t := range dom {
		if mask&(1<<i) != 0 {
			a.ts = append(a.ts, t)
			if isBool(ft) {
				a.vs = append(a.vs, int64((pat>>i)&1))
			} else {
				a.vs = append(a.vs, base+int64(i))
			}
		}
	}
	return a
}

func exhaustive(b *batcher, ft string, dom []int64, r *h.Rand) {
	n := 1 << len(dom)
	for ma := 0; ma < n; ma++ {
		pa := r.Intn(n)
		a := subset(dom, ma, ft, 10, pa)
		for mb := 0; mb < n; mb++ {
			bb := subset(dom, mb, ft, 20, ^pa) // for bool: b's payload differs from a's at every timestamp
			b.add("merge " + ft + " " + a.String() + " " + bb.String())
		}
		for _, lo := range bounds {
			for _, hi := range bounds {
				s := " " + ft + " " + a.String() + " " + strconv.FormatInt(lo, 10) + " " + strconv.FormatInt(hi, 10)
				b.add("excl" + s)
				b.add("incl" + s)
				b.add("frange" + s)
			}
			b.add("search " + ft + " " + a.String() + " " + strconv.FormatInt(lo, 10))
		}
		if ft[0] == 'v' {
			b.add("dedup " + ft + " " + a.String())
		}
	}
}

// all sequences (with repetition, any order) of length 1..4 over 3 timestamps: Deduplicate / tsm1 Merge on unsorted input
func dupSequences(b *batcher, ft string, r *h.Rand) {
	ts := []int64{math.MinInt64, 5, math.MaxInt64}
	var seqs []arr
	var rec func(cur arr, n int)
	rec = func(cur arr, n int) {
		if len(cur.ts) > 0 {
			seqs = append(seqs, arr{append([]int64(nil), cur.ts...), append([]int64(nil), cur.vs...)})
		}
		if n == 0 {
			return
		}
		for _, t := range ts {
			v := int64(len(cur.ts))
			if isBool(ft) {
				v = int64(r.Intn(2))
			}
			rec(arr{append(cur.ts, t), append(cur.vs, v)}, n-1)
		}
	}
	rec(arr{}, 4)
	for _, s := range seqs {
		b.add("dedup " + ft + " " + s.String())
		o := h.Pick(r, seqs)
		o2 := arr{o.ts, make([]int64, len(o.vs))}
		for i := range o.vs {
			o2.vs[i] = o.vs[i] + 10
			if isBool(ft) {
				o2.vs[i] = 1 - o.vs[i]
			}
		}
		b.add("merge " + ft + " " + s.String() + " " + o2.String())
		b.add("merge " + ft + " " + o2.String() + " " + s.String())
		b.add("merge " + ft + " " + s.String() + " - -")
		b.add("merge " + ft + " - - " + s.String())
	}
}

func randTS(r *h.Rand, wide bool) int64 {
	switch {
	case r.Chance(0.05):
		return math.MinInt64 + int64(r.Intn(3))
	case r.Chance(0.05):
		return math.MaxInt64 - int64(r.Intn(3))
	case wide:
		return r.Range(-5000, 5000)
	default:
		return r.Range(-12, 12)
	}
}

func randArr(r *h.Rand, ft string, maxLen int, sorted bool, wide bool, base int64) arr {
	n := r.Intn(maxLen + 1)
	var a arr
	for i := 0; i < n; i++ {
		a.ts = append(a.ts, randTS(r, wide))
	}
	if sorted {
		sort.Slice(a.ts, func(i, j int) bool { return a.ts[i] < a.ts[j] })
		k := 0
		for i, t := range a.ts {
			if i == 0 || t != a.ts[k-1] {
				a.ts[k] = t
				k++
			}
		}
		a.ts = a.ts[:k]
	}
	for i := range a.ts {
		if isBool(ft) {
			a.vs = append(a.vs, int64(r.Intn(2)))
		} else {
			a.vs = append(a.vs, base+int64(i))
		}
	}
	return a
}

func random(b *batcher, r *h.Rand, n int) {
	for i := 0; i < n; i++ {
		ft := h.Pick(r, allFT)
		maxLen, wide := 12, false
		if r.Chance(0.02) {
			maxLen, wide = 1500, true
		}
		sorted := r.Chance(0.8)
		a := randArr(r, ft, maxLen, sorted, wide, 100)
		lo, hi := randTS(r, wide), randTS(r, wide)
		if len(a.ts) > 0 && r.Chance(0.5) {
			lo = h.Pick(r, a.ts)
		}
		if len(a.ts) > 0 && r.Chance(0.5) {
			hi = h.Pick(r, a.ts)
		}
		if r.Chance(0.7) && lo > hi {
			lo, hi = hi, lo
		}
		s := " " + ft + " " + a.String() + " " + strconv.FormatInt(lo, 10) + " " + strconv.FormatInt(hi, 10)
		switch r.Intn(6) {
		case 0:
			b.add("excl" + s)
		case 1:
			b.add("incl" + s)
		case 2:
			b.add("frange" + s)
		case 3:
			b.add("search " + ft + " " + a.String() + " " + strconv.FormatInt(lo, 10))
		case 4:
			if ft[0] == 'v' {
				b.add("dedup " + ft + " " + a.String())
			} else {
				b.add("incl" + s)
			}
		default:
			bb := randArr(r, ft, maxLen, sorted || r.Chance(0.5), wide, 5000)
			b.add("merge " + ft + " " + a.String() + " " + bb.String())
		}
	}
}

func gen(r *h.Rand, tier string, emit func([]string)) {
	b := &batcher{emit: emit}
	// exhaustive over every sorted, deduplicated array of a timestamp domain:
	// thorough = the 8-timestamp domain for all 11 type/family combinations;
	// quick    = the 8-timestamp domain for one tsm1 and one cursors combination
	//            (rotating with the seed) and a 5-timestamp sub-domain for the rest.
	full := map[string]bool{}
	if tier == "thorough" {
		for _, ft := range allFT {
			full[ft] = true
		}
	} else {
		k := int(r.Uint64() % 30)
		full[allFT[k%6]] = true
		full[allFT[6+k%5]] = true
	}
	dom5 := []int64{dom8[0], dom8[3], dom8[4], dom8[5], dom8[7]}
	for _, ft := range allFT {
		if full[ft] {
			exhaustive(b, ft, dom8, r)
		} else {
			exhaustive(b, ft, dom5, r)
		}
		if ft[0] == 'v' {
			dupSequences(b, ft, r)
		}
	}
	n := 30000
	if tier == "thorough" {
		n = 400000
	}
	random(b, r, n)
	// malformed
	b.add("merge zz - - - -")
	b.add("dedup af 1 1")
	b.add("excl vf 1,2 1 0 0")
	b.flush()
}

func main() { h.Main(h.Harness{Gen: gen, NewCase: h.Stateless(op)}) }
