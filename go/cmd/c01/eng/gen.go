package eng

import (
	"fmt"
	"strconv"
	"strings"

	"verif/harness/h"
)

const (
	minNano = int64(-9223372036854775806)
	maxNano = int64(9223372036854775806)
)

type key struct{ s, f int }

// genState is what the generator tracks to keep cases mostly meaningful; it is an
// approximation (the real file count is not known to it) — every op line is
// legal in every state for both the model and the harness.
type genState struct {
	r      *h.Rand
	prop   string
	ops    []string
	keys   []key   // focus keys
	times  []int64 // focus timestamps
	phase  int     // 0 idle, 1 begun, 2 written, 3 replaced, 4 cleared
	nfiles int
	hot    bool
	wrote  bool
	fail   bool // this case injects failing snapshot attempts
}

func (g *genState) emit(s string) { g.ops = append(g.ops, s) }

func (g *genState) pickKey() key {
	if g.r.Chance(0.9) {
		return h.Pick(g.r, g.keys)
	}
	return key{g.r.Intn(len(SeriesKeys)), g.r.Intn(len(FieldNames))}
}

func (g *genState) pickTime() int64 {
	if g.r.Chance(0.93) {
		return h.Pick(g.r, g.times)
	}
	return h.Pick(g.r, []int64{minNano, maxNano, -1, 0, 1 << 40, -(1 << 40)})
}

func (g *genState) value(f int) int64 {
	switch f {
	case 4:
		return int64(g.r.Intn(2))
	default:
		return int64(g.r.Intn(90))
	}
}

func (g *genState) write() {
	n := 1 + g.r.Intn(6)
	var es []string
	for i := 0; i < n; i++ {
		k := g.pickKey()
		es = append(es, fmt.Sprintf("%d:%d:%d:%d", k.s, k.f, g.pickTime(), g.value(k.f)))
	}
	g.emit("w " + strings.Join(es, ","))
	g.hot, g.wrote = true, true
}

func (g *genState) rng() (int64, int64) {
	switch g.r.Intn(5) {
	case 0:
		return minNano, maxNano
	case 1:
		t := g.pickTime()
		return t, t
	default:
		a, b := g.pickTime(), g.pickTime()
		if a > b && g.r.Chance(0.9) {
			a, b = b, a
		}
		return a, b
	}
}

func (g *genState) read() {
	k := g.pickKey()
	lo, hi := g.rng()
	g.emit(fmt.Sprintf("r %d %d %d %d %s", k.s, k.f, lo, hi, h.B(g.r.Bool())))
}

func (g *genState) readAll() {
	for _, k := range g.keys {
		g.emit(fmt.Sprintf("r %d %d %d %d 1", k.s, k.f, minNano, maxNano))
		if g.r.Bool() {
			g.emit(fmt.Sprintf("r %d %d %d %d 0", k.s, k.f, minNano, maxNano))
		}
	}
}

func (g *genState) seriesList() string {
	seen := map[int]bool{}
	var out []string
	n := 1 + g.r.Intn(2)
	for i := 0; i < n; i++ {
		s := g.pickKey().s
		if !seen[s] {
			seen[s] = true
			out = append(out, strconv.Itoa(s))
		}
	}
	return strings.Join(out, ",")
}

func (g *genState) delRange() (int64, int64) {
	switch g.r.Intn(6) {
	case 0:
		return -9223372036854775808, 9223372036854775807
	case 1:
		return minNano, maxNano
	}
	return g.rng()
}

func (g *genState) del(op string) {
	lo, hi := g.delRange()
	g.emit(fmt.Sprintf("%s %s %d %d", op, g.seriesList(), lo, hi))
}

var kinds = []string{"lf", "ls", "full", "opt"}

func (g *genState) group() (int, int, bool) {
	n := g.nfiles
	if n == 0 || g.r.Chance(0.03) {
		return g.r.Intn(3), g.r.Intn(4), false // possibly invalid group
	}
	i := g.r.Intn(n)
	j := i + g.r.Intn(n-i)
	if g.r.Chance(0.5) {
		j = n - 1
		if g.r.Chance(0.5) {
			i = 0
		}
	}
	return i, j, true
}

func (g *genState) compact() {
	i, j, ok := g.group()
	g.emit(fmt.Sprintf("c %s %d %d", h.Pick(g.r, kinds), i, j))
	if ok {
		g.nfiles -= j - i
	}
}

func (g *genState) snapshotDone() {
	if g.hot {
		g.nfiles++
	}
	g.hot = false
}

// one op of a C01/C03/C02 case
func (g *genState) op() {
	r := g.r
	del := g.prop != "c01"
	crash := g.prop == "c02"
	x := r.Intn(100)
	switch {
	case x < 34:
		g.write()
	case x < 54:
		g.read()
	case x < 62: // whole snapshot
		if g.phase >= 3 {
			g.read()
			return
		}
		if g.fail && g.phase == 0 && r.Chance(0.45) {
			g.emit("snapfail")
			return
		}
		g.emit("snap")
		if g.phase == 0 {
			g.snapshotDone()
		}
	case x < 74: // stepped snapshot
		if g.phase == 0 {
			g.emit("sb")
			g.phase = 1
			g.snapshotDoneAtBegin()
		} else {
			old := g.phase
			steps := map[int]string{2: "sw", 3: "sr", 4: "sc", 5: "sx"}
			to := old + 1
			if r.Chance(0.3) {
				to = old + 1 + r.Intn(5-old)
			}
			g.emit(steps[to])
			if to == 5 {
				g.phase = 0
			} else {
				g.phase = to
			}
		}
	case x < 84:
		g.compact()
	case x < 87:
		g.emit("files")
	default:
		switch {
		case del && g.phase < 3 && x < 96:
			if g.phase != 0 && g.r.Chance(0.6) {
				g.read() // most in-window deletes are replaced: F1 would end the case early
			} else {
				g.del("d")
			}
		case crash && x >= 96:
			g.crashOp()
		case g.prop == "c03" && x >= 97 && !g.fail:
			g.restartOp()
		default:
			g.read()
		}
	}
}

func (g *genState) snapshotDoneAtBegin() {
	// the hot store moves to the snapshot store at sb; the file appears at sr
	if g.hot {
		g.nfiles++
	}
	g.hot = false
}

func (g *genState) crashOp() {
	r := g.r
	switch x := r.Intn(10); {
	case x < 3:
		g.emit("crash clean")
	case x < 6:
		g.emit(fmt.Sprintf("crash %d", 1+r.Intn(999)))
	case x < 7:
		if g.phase == 0 {
			g.emit("reopen")
		} else {
			g.emit("crash clean")
		}
	case x < 9:
		i, j, _ := g.group()
		pt := h.Pick(r, []string{"compact.afterWriteFiles", "replace.afterRename", "replace.afterRemoveOld"})
		g.emit(fmt.Sprintf("ccrash %s %d %d %s %d", h.Pick(r, kinds), i, j, pt, 1+r.Intn(3)))
	default:
		if g.phase < 3 {
			g.del("dcrash")
		} else {
			g.emit("crash clean")
		}
	}
	g.phase = 0
	g.hot = g.wrote
	g.readAll()
}

// restartOp (C03): restarts that tear nothing — a crash image at an op boundary (also inside a
// stepped snapshot), a clean Close/Open, an image from inside a compaction's FileStore.replace.
func (g *genState) restartOp() {
	r := g.r
	switch x := r.Intn(4); {
	case x < 2:
		g.emit("crash clean")
	case x < 3:
		if g.phase == 0 {
			g.emit("reopen")
		} else {
			g.emit("crash clean")
		}
	default:
		i, j, _ := g.group()
		pt := h.Pick(r, []string{"compact.afterWriteFiles", "replace.afterRename", "replace.afterRemoveOld"})
		g.emit(fmt.Sprintf("ccrash %s %d %d %s %d", h.Pick(r, kinds), i, j, pt, 1+r.Intn(3)))
	}
	g.phase = 0
	g.hot = g.wrote
	g.readAll()
}

func newGenState(r *h.Rand, prop string) *genState {
	g := &genState{r: r, prop: prop}
	nk := 1 + r.Intn(3)
	for i := 0; i < nk; i++ {
		g.keys = append(g.keys, key{r.Intn(len(SeriesKeys)), r.Intn(len(FieldNames))})
	}
	if r.Chance(0.4) { // two fields of one series: a series delete hits both
		g.keys = append(g.keys, key{g.keys[0].s, r.Intn(len(FieldNames))})
	}
	nt := 2 + r.Intn(7)
	base := int64(r.Intn(5))
	for i := 0; i < nt; i++ {
		g.times = append(g.times, base+int64(r.Intn(12)))
	}
	if r.Chance(0.15) {
		g.times = append(g.times, minNano, maxNano)
	}
	// failing snapshot attempts: C01 (abs-preserving) and C02 (the retry loses WAL data);
	// C03 cases have them only when they have no restarts
	g.fail = r.Chance(0.25)
	return g
}

// Gen emits the cases of one property ("c01", "c02", "c03").
func Gen(r *h.Rand, tier string, prop string, emit func([]string)) {
	n, maxOps := 600, 40
	if tier == "thorough" {
		n, maxOps = 2500, 60 // x thorough.seeds; ~4x the quick run per seed
	}
	if prop == "c02" {
		n = n * 2 / 3
	}
	for _, c := range fixedCases(prop) {
		emit(c)
	}
	for i := 0; i < n; i++ {
		g := newGenState(r, prop)
		nops := 6 + r.Intn(maxOps-6)
		for len(g.ops) < nops {
			g.op()
		}
		if g.phase != 0 && r.Chance(0.7) {
			g.emit("sx")
		}
		g.readAll()
		emit(g.ops)
	}
	// time-disjoint files + partial deletes + multi-file compactions (see epochCase)
	ne := 90
	if tier == "thorough" {
		ne = 400
	}
	for i := 0; i < ne; i++ {
		emit(epochCase(r, prop))
	}
	nc := 70
	if tier == "thorough" {
		nc = 350
	}
	for i := 0; i < nc; i++ {
		emit(chainCase(r, prop))
	}
	if prop != "c01" {
		nt := 60
		if tier == "thorough" {
			nt = 300
		}
		for i := 0; i < nt; i++ {
			emit(tombCase(r, prop))
		}
	}
}

// chainCase: 4-6 snapshots of one series/field with NO compaction in between, whose time ranges
// overlap pairwise in a chain (a staircase going down or up in time with newer files; neighbours
// share an overwritten timestamp, non-neighbours do not overlap), optionally with an isolated
// block at the far end that a cursor consumes first.  Read ascending and descending, over the
// full range and from seek points inside the chain: the KeyCursor must pull in every block that
// overlaps the merge window transitively.
func chainCase(r *h.Rand, prop string) []string {
	g := newGenState(r, prop)
	k := g.keys[0]
	g.keys = []key{k}
	nf := 4 + r.Intn(3)
	down := r.Bool()
	type span struct{ lo, hi int64 }
	var spans []span
	cur := int64(40)
	if !down {
		cur = 10
	}
	var all []int64
	if r.Chance(0.6) { // isolated block at the far end of the staircase's start
		t := cur + 3
		if !down {
			t = cur - 3
		}
		g.emit(fmt.Sprintf("w %d:%d:%d:%d", k.s, k.f, t, g.value(k.f)))
		g.emit("snap")
		all = append(all, t)
	}
	for i := 0; i < nf; i++ {
		w := int64(1 + r.Intn(3))
		var sp span
		if down {
			sp = span{cur - w, cur}
		} else {
			sp = span{cur, cur + w}
		}
		spans = append(spans, sp)
		// endpoints always, interior points sometimes; batch order shuffled by picking
		ts := []int64{sp.lo, sp.hi}
		for t := sp.lo + 1; t < sp.hi; t++ {
			if r.Chance(0.5) {
				ts = append(ts, t)
			}
		}
		if r.Chance(0.2) { // an in-batch overwrite
			ts = append(ts, h.Pick(r, ts))
		}
		var es []string
		for len(ts) > 0 {
			j := r.Intn(len(ts))
			es = append(es, fmt.Sprintf("%d:%d:%d:%d", k.s, k.f, ts[j], g.value(k.f)))
			all = append(all, ts[j])
			ts = append(ts[:j], ts[j+1:]...)
		}
		g.emit("w " + strings.Join(es, ","))
		if r.Chance(0.15) {
			g.emit("sb")
			g.emit("sx")
		} else {
			g.emit("snap")
		}
		// next file: shares the boundary timestamp (mostly), overlaps by more, or leaves a gap
		next := sp.lo
		if !down {
			next = sp.hi
		}
		switch x := r.Intn(10); {
		case x < 7:
		case x < 8:
			if down {
				next++
			} else {
				next--
			}
		default:
			if down {
				next -= 2
			} else {
				next += 2
			}
		}
		cur = next
	}
	g.nfiles = nf + 1
	reads := func() {
		g.emit(fmt.Sprintf("r %d %d %d %d 0", k.s, k.f, minNano, maxNano))
		g.emit(fmt.Sprintf("r %d %d %d %d 1", k.s, k.f, minNano, maxNano))
		for i := 0; i < 3; i++ {
			a, b := h.Pick(r, all), h.Pick(r, all)
			if a > b {
				a, b = b, a
			}
			g.emit(fmt.Sprintf("r %d %d %d %d %s", k.s, k.f, a, b, h.B(i%2 == 1)))
		}
	}
	reads()
	if r.Chance(0.3) { // something still in the cache on top
		g.emit(fmt.Sprintf("w %d:%d:%d:%d", k.s, k.f, h.Pick(r, all), g.value(k.f)))
		reads()
	}
	if prop != "c01" && r.Chance(0.3) {
		a, b := h.Pick(r, all), h.Pick(r, all)
		if a > b {
			a, b = b, a
		}
		g.emit(fmt.Sprintf("d %d %d %d", k.s, a, b))
		reads()
	}
	if prop != "c01" && r.Chance(0.3) {
		g.emit(h.Pick(r, []string{"reopen", "crash clean"}))
		reads()
	}
	if r.Chance(0.4) {
		n := len(all) // files: count snapshots emitted
		_ = n
		g.emit("files")
		g.emit(fmt.Sprintf("c %s 1 2", h.Pick(r, kinds)))
		reads()
	}
	return g.ops
}

// tombCase: several successful range deletes land in the tombstone file of ONE TSM file, with
// ranges that share a bound (same min / same max), are nested, or are equal, on the same and on
// different series of the file; then the shard is cold-opened (the whole tombstone file is
// replayed by TSMReader.applyTombstones, which batches consecutive tombstones by range) and
// everything is read; optionally a compaction and another restart follow.
func tombCase(r *h.Rand, prop string) []string {
	g := newGenState(r, prop)
	// two series, 1-2 fields each, all in the same file
	s1 := r.Intn(len(SeriesKeys))
	s2 := (s1 + 1 + r.Intn(len(SeriesKeys)-1)) % len(SeriesKeys)
	f1, f2 := r.Intn(len(FieldNames)), r.Intn(len(FieldNames))
	g.keys = []key{{s1, f1}, {s2, f2}}
	if r.Chance(0.4) {
		g.keys = append(g.keys, key{s1, (f1 + 1) % len(FieldNames)})
	}
	lo := int64(r.Intn(5))
	n := int64(6 + r.Intn(6))
	nfile := 1 + r.Intn(2)
	for f := 0; f < nfile; f++ {
		var es []string
		for _, k := range g.keys {
			for t := lo; t < lo+n; t++ {
				if f == 0 || r.Chance(0.5) {
					es = append(es, fmt.Sprintf("%d:%d:%d:%d", k.s, k.f, t, g.value(k.f)))
				}
			}
		}
		if len(es) == 0 {
			es = append(es, fmt.Sprintf("%d:%d:%d:%d", s1, f1, lo, g.value(f1)))
		}
		g.emit("w " + strings.Join(es, ","))
		g.emit("snap")
	}
	g.nfiles = nfile
	series := func() string {
		switch r.Intn(4) {
		case 0:
			return strconv.Itoa(s1)
		case 1:
			return strconv.Itoa(s2)
		case 2:
			return fmt.Sprintf("%d,%d", s1, s2)
		}
		return strconv.Itoa(h.Pick(r, g.keys).s)
	}
	deletes := func() {
		nd := 2 + r.Intn(3)
		a := lo + int64(r.Intn(int(n)))
		b := a + int64(r.Intn(int(lo+n-a)))
		for d := 0; d < nd; d++ {
			g.emit(fmt.Sprintf("d %s %d %d", series(), a, b))
			// next range: share the min, share the max, nest, widen, or repeat
			switch r.Intn(6) {
			case 0: // same min, smaller or larger max
				b = a + int64(r.Intn(int(lo+n-a)))
			case 1: // same max, other min
				a = lo + int64(r.Intn(int(b-lo+1)))
			case 2: // nested inside
				if b > a {
					a2 := a + int64(r.Intn(int(b-a+1)))
					b = a2 + int64(r.Intn(int(b-a2+1)))
					a = a2
				}
			case 3: // open-ended, same other bound
				if r.Bool() {
					a = minNano
				} else {
					b = maxNano
				}
			case 4: // unrelated
				a = lo + int64(r.Intn(int(n)))
				b = a + int64(r.Intn(int(lo+n-a)))
			}
			if a < lo && a != minNano {
				a = lo
			}
		}
	}
	deletes()
	if r.Chance(0.4) {
		g.readAll()
	}
	restart := func() {
		if prop == "c02" && r.Chance(0.5) {
			g.emit("crash clean")
		} else {
			g.emit(h.Pick(r, []string{"reopen", "crash clean"}))
		}
		g.readAll()
	}
	restart()
	if r.Chance(0.5) {
		g.emit(fmt.Sprintf("c %s 0 %d", h.Pick(r, kinds), g.nfiles-1))
		g.nfiles = 1
		g.readAll()
		if r.Chance(0.5) {
			restart()
		}
	}
	if r.Chance(0.4) {
		deletes()
		restart()
	}
	return g.ops
}

// epochCase: every snapshot ("epoch") holds its own, disjoint time range of the focus keys, so
// the TSM files do not overlap in time and a range delete inside one epoch tombstones exactly
// one file, leaving the older ones untouched.  Then several files are compacted together
// (CompactFast copies blocks without decoding; CompactFull does so for full and trailing blocks)
// and everything is read back — also after a restart.  The random histories almost never
// produce this shape (their timestamps come from one small shared set).
func epochCase(r *h.Rand, prop string) []string {
	g := newGenState(r, prop)
	if len(g.keys) > 2 {
		g.keys = g.keys[:2]
	}
	nEpoch := 2 + r.Intn(3)
	epochTimes := make([][]int64, nEpoch)
	for e := 0; e < nEpoch; e++ {
		base := int64(100*e + 10)
		nb := 1 + r.Intn(2)
		for b := 0; b < nb; b++ {
			var es []string
			n := 2 + r.Intn(5)
			for i := 0; i < n; i++ {
				k := h.Pick(r, g.keys)
				t := base + int64(r.Intn(16))
				epochTimes[e] = append(epochTimes[e], t)
				es = append(es, fmt.Sprintf("%d:%d:%d:%d", k.s, k.f, t, g.value(k.f)))
			}
			g.emit("w " + strings.Join(es, ","))
		}
		if r.Chance(0.15) {
			g.emit("sb")
			g.emit("sx")
		} else {
			g.emit("snap")
		}
	}
	g.nfiles = nEpoch
	if prop != "c01" {
		nd := 1 + r.Intn(2)
		for d := 0; d < nd; d++ {
			// mostly an epoch other than the oldest: its file is the one that is NOT first in the merge
			e := 1 + r.Intn(nEpoch-1)
			if r.Chance(0.15) {
				e = 0
			}
			ts := epochTimes[e]
			a, b := h.Pick(r, ts), h.Pick(r, ts)
			if a > b {
				a, b = b, a
			}
			if r.Chance(0.3) {
				b = a
			}
			g.emit(fmt.Sprintf("d %d %d %d", h.Pick(r, g.keys).s, a, b))
		}
		if r.Chance(0.3) {
			g.readAll()
		}
	}
	// compact several files together
	i, j := 0, nEpoch-1
	if nEpoch > 2 && r.Chance(0.4) {
		i = r.Intn(nEpoch - 1)
		j = i + 1 + r.Intn(nEpoch-1-i)
	}
	g.emit(fmt.Sprintf("c %s %d %d", h.Pick(r, []string{"lf", "lf", "ls", "full", "opt"}), i, j))
	g.nfiles -= j - i
	g.readAll()
	switch prop {
	case "c03":
		g.emit(h.Pick(r, []string{"reopen", "crash clean"}))
		g.readAll()
	case "c02":
		g.emit(h.Pick(r, []string{"reopen", "crash clean", "crash clean"}))
		g.readAll()
	}
	if g.nfiles > 1 && r.Chance(0.5) {
		g.emit(fmt.Sprintf("c %s 0 %d", h.Pick(r, kinds), g.nfiles-1))
		g.nfiles = 1
		g.readAll()
	}
	for k := 0; k < r.Intn(6); k++ {
		g.op()
	}
	if g.phase != 0 {
		g.emit("sx")
	}
	g.readAll()
	return g.ops
}

// bigBlockCase: the older file holds one FULL block (1000 points) of the key, the newer file a
// few later points with a partial delete; CompactFull passes the full block and then the single
// trailing block through without decoding.
func bigBlockCase(kind string, after string) []string {
	var es []string
	for t := 0; t < 1000; t++ {
		es = append(es, fmt.Sprintf("0:0:%d:%d", t, t%90))
	}
	var es2 []string
	for t := 1000; t < 1010; t++ {
		es2 = append(es2, fmt.Sprintf("0:0:%d:%d", t, t%90))
	}
	ops := []string{"w " + strings.Join(es, ","), "snap", "w " + strings.Join(es2, ","), "snap",
		"d 0 1003 1005", "r 0 0 990 1100 1", "c " + kind + " 0 1", "r 0 0 990 1100 1"}
	if after != "" {
		ops = append(ops, after, "r 0 0 990 1100 0")
	}
	return ops
}

// fixedCases are the hand-written histories every run starts with.
func fixedCases(prop string) [][]string {
	all := fmt.Sprintf("%d %d", minNano, maxNano)
	cs := [][]string{
		{"w 0:0:5:7,0:0:3:2,0:0:5:8", "r 0 0 " + all + " 1", "r 0 0 " + all + " 0", "snap", "files", "w 0:0:5:9,0:1:4:4",
			"r 0 0 0 10 1", "snap", "c lf 0 1", "r 0 0 0 10 1", "r 0 1 0 10 0"},
		{"w 1:2:1:1", "sb", "w 1:2:1:2,1:2:2:5", "r 1 2 " + all + " 1", "sw", "r 1 2 " + all + " 1", "sr", "r 1 2 " + all + " 0",
			"w 1:2:2:6", "sc", "r 1 2 " + all + " 1", "sx", "r 1 2 " + all + " 1", "snap", "c full 0 1", "r 1 2 " + all + " 1"},
	}
	if prop != "c01" {
		cs = append(cs,
			// DESIGN §6 F1: delete inside the snapshot window
			[]string{"w 0:0:100:1", "sb", "d 0 100 100", "r 0 0 0 1000 1", "sx", "r 0 0 0 1000 1"},
			[]string{"w 0:0:1:1,0:0:2:2", "snap", "w 0:0:3:3", "d 0 2 3", "r 0 0 " + all + " 1", "snap", "c ls 0 0", "r 0 0 " + all + " 1",
				"w 0:0:2:9", "r 0 0 " + all + " 1"},
		)
	}
	// descending read over a chain of overlapping files (KeyCursor.nextDescending)
	cs = append(cs, []string{"w 0:0:9:1", "snap", "w 0:0:7:2,0:0:8:3", "snap", "w 0:0:5:4,0:0:7:5", "snap", "w 0:0:5:6", "snap",
		"r 0 0 " + all + " 0", "r 0 0 " + all + " 1", "r 0 0 5 8 0"})
	cs = append(cs, []string{"w 0:1:1:1", "snap", "w 0:1:3:2,0:1:4:3", "snap", "w 0:1:4:4,0:1:6:5", "snap", "w 0:1:6:6,0:1:7:7", "snap",
		"r 0 1 " + all + " 1", "r 0 1 " + all + " 0", "r 0 1 3 6 1"})
	cs = append(cs, []string{"w 0:0:1:1", "snapfail", "r 0 0 0 1000 1", "w 0:0:2:2,0:0:1:5", "snapfail", "r 0 0 0 1000 0", "snap", "files", "r 0 0 0 1000 1"})
	if prop != "c01" {
		cs = append(cs,
			// a partial delete in the newer of two time-disjoint files, then both compacted (fast path copies blocks)
			[]string{"w 0:0:1:1,0:0:2:2", "snap", "w 0:0:5:5,0:0:6:6,0:0:7:7", "snap", "d 0 6 6", "c lf 0 1", "r 0 0 0 1000 1", "reopen", "r 0 0 0 1000 1"},
			[]string{"w 0:0:1:1", "snap", "w 0:0:5:5,0:0:6:6", "snap", "w 0:0:9:9", "snap", "d 0 5 5", "c lf 0 2", "r 0 0 0 1000 0", "crash clean", "r 0 0 0 1000 1"},
			// tombstones with a shared bound in one tombstone file, replayed at open
			[]string{"w 0:0:1:1,0:0:2:2,0:0:3:3,0:0:4:4,0:0:5:5", "snap", "d 0 1 4", "d 0 1 2", "reopen", "r 0 0 0 1000 1"},
			[]string{"w 0:0:1:1,0:0:2:2,0:0:3:3,0:0:4:4,0:0:5:5,1:1:2:2,1:1:3:3,1:1:5:5", "snap", "d 0 4 5", "d 1 2 5", "crash clean",
				"r 0 0 0 1000 1", "r 1 1 0 1000 1", "c full 0 0", "r 0 0 0 1000 0"},
			bigBlockCase("full", "reopen"),
			bigBlockCase("ls", ""),
		)
	}
	if prop == "c02" {
		cs = append(cs,
			// F18: a write between a failed snapshot attempt and its retry is lost by a crash after the retry
			[]string{"w 0:0:1:1", "snapfail", "w 0:0:2:2", "snap", "crash clean", "r 0 0 0 1000 1"},
			[]string{"w 0:0:1:1", "w 0:0:2:2", "crash 500", "r 0 0 0 1000 1", "w 0:0:3:3", "r 0 0 0 1000 1", "crash clean", "r 0 0 0 1000 1"},
			[]string{"w 0:0:1:1", "snap", "w 0:0:1:2", "snap", "ccrash full 0 1 replace.afterRename 1", "r 0 0 0 1000 1", "files"},
			[]string{"w 0:0:1:1", "snap", "w 0:0:1:2", "snap", "ccrash lf 0 1 replace.afterRemoveOld 1", "r 0 0 0 1000 1", "files"},
			[]string{"w 0:0:1:1", "sb", "sr", "crash clean", "r 0 0 0 1000 1", "files"},
			[]string{"w 0:0:1:1", "sb", "sc", "crash clean", "r 0 0 0 1000 1", "w 0:0:2:2", "reopen", "r 0 0 0 1000 1"},
			[]string{"w 0:0:1:1", "snap", "w 0:0:2:2", "dcrash 0 1 2", "r 0 0 0 1000 1"},
			[]string{"w 0:0:1:1", "w 0:0:2:2", "d 0 1 1", "crash 300", "r 0 0 0 1000 1"},
		)
	}
	return cs
}
