package eng

import (
	"fmt"
	"strconv"
	"strings"

	"verif/harness/h"
)

const (
	minNano = int64(-9223372036854775806)
	maxNano = int64(9223372036854775806)
)

type key struct{ s, f int }

// genState is what the generator tracks to keep cases mostly meaningful; it is an
// approximation (the real file count is not known to it) — every op line is
// legal in every state for both the model and the harness.
type genState struct {
	r      *h.Rand
	prop   string
	ops    []string
	keys   []key   // focus keys
	times  []int64 // focus timestamps
	phase  int     // 0 idle, 1 begun, 2 written, 3 replaced, 4 cleared
	nfiles int
	hot    bool
	wrote  bool
	fail   bool // this case injects failing snapshot attempts
}

func (g *genState) emit(s string) { g.ops = append(g.ops, s) }

func (g *genState) pickKey() key {
	if g.r.Chance(0.9) {
		return h.Pick(g.r, g.keys)
	}
	return key{g.r.Intn(len(SeriesKeys)), g.r.Intn(len(FieldNames))}
}

func (g *genState) pickTime() int64 {
	if g.r.Chance(0.93) {
		return h.Pick(g.r, g.times)
	}
	return h.Pick(g.r, []int64{minNano, maxNano, -1, 0, 1 << 40, -(1 << 40)})
}

func (g *genState) value(f int) int64 {
	switch f {
	case 4:
		return int64(g.r.Intn(2))
	default:
		return int64(g.r.Intn(90))
	}
}

func (g *genState) write() {
	n := 1 + g.r.Intn(6)
	var es []string
	for i := 0; i < n; i++ {
		k := g.pickKey()
		es = append(es, fmt.Sprintf("%d:%d:%d:%d", k.s, k.f, g.pickTime(), g.value(k.f)))
	}
	g.emit("w " + strings.Join(es, ","))
	g.hot, g.wrote = true, true
}

func (g *genState) rng() (int64, int64) {
	switch g.r.Intn(5) {
	case 0:
		return minNano, maxNano
	case 1:
		t := g.pickTime()
		return t, t
	default:
		a, b := g.pickTime(), g.pickTime()
		if a > b && g.r.Chance(0.9) {
			a, b = b, a
		}
		return a, b
	}
}

func (g *genState) read() {
	k := g.pickKey()
	lo, hi := g.rng()
	g.emit(fmt.Sprintf("r %d %d %d %d %s", k.s, k.f, lo, hi, h.B(g.r.Bool())))
}

func (g *genState) readAll() {
	for _, k := range g.keys {
		g.emit(fmt.Sprintf("r %d %d %d %d 1", k.s, k.f, minNano, maxNano))
		if g.r.Bool() {
			g.emit(fmt.Sprintf("r %d %d %d %d 0", k.s, k.f, minNano, maxNano))
		}
	}
}

func (g *genState) seriesList() string {
	seen := map[int]bool{}
	var out []string
	n := 1 + g.r.Intn(2)
	for i := 0; i < n; i++ {
		s := g.pickKey().s
		if !seen[s] {
			seen[s] = true
			out = append(out, strconv.Itoa(s))
		}
	}
	return strings.Join(out, ",")
}

func (g *genState) delRange() (int64, int64) {
	switch g.r.Intn(6) {
	case 0:
		return -9223372036854775808, 9223372036854775807
	case 1:
		return minNano, maxNano
	}
	return g.rng()
}

func (g *genState) del(op string) {
	lo, hi := g.delRange()
	g.emit(fmt.Sprintf("%s %s %d %d", op, g.seriesList(), lo, hi))
}

var kinds = []string{"lf", "ls", "full", "opt"}

func (g *genState) group() (int, int, bool) {
	n := g.nfiles
	if n == 0 || g.r.Chance(0.03) {
		return g.r.Intn(3), g.r.Intn(4), false // possibly invalid group
	}
	i := g.r.Intn(n)
	j := i + g.r.Intn(n-i)
	if g.r.Chance(0.5) {
		j = n - 1
		if g.r.Chance(0.5) {
			i = 0
		}
	}
	return i, j, true
}

func (g *genState) compact() {
	i, j, ok := g.group()
	g.emit(fmt.Sprintf("c %s %d %d", h.Pick(g.r, kinds), i, j))
	if ok {
		g.nfiles -= j - i
	}
}

func (g *genState) snapshotDone() {
	if g.hot {
		g.nfiles++
	}
	g.hot = false
}

// one op of a C01/C03/C02 case
func (g *genState) op() {
	r := g.r
	del := g.prop != "c01"
	crash := g.prop == "c02"
	x := r.Intn(100)
	switch {
	case x < 34:
		g.write()
	case x < 54:
		g.read()
	case x < 62: // whole snapshot
		if g.phase >= 3 {
			g.read()
			return
		}
		if g.fail && g.phase == 0 && r.Chance(0.45) {
			g.emit("snapfail")
			return
		}
		g.emit("snap")
		if g.phase == 0 {
			g.snapshotDone()
		}
	case x < 74: // stepped snapshot
		if g.phase == 0 {
			g.emit("sb")
			g.phase = 1
			g.snapshotDoneAtBegin()
		} else {
			old := g.phase
			steps := map[int]string{2: "sw", 3: "sr", 4: "sc", 5: "sx"}
			to := old + 1
			if r.Chance(0.3) {
				to = old + 1 + r.Intn(5-old)
			}
			g.emit(steps[to])
			if to == 5 {
				g.phase = 0
			} else {
				g.phase = to
			}
		}
	case x < 84:
		g.compact()
	case x < 87:
		g.emit("files")
	default:
		switch {
		case del && g.phase < 3 && x < 96:
			if g.phase != 0 && g.r.Chance(0.6) {
				g.read() // most in-window deletes are replaced: F1 would end the case early
			} else {
				g.del("d")
			}
		case crash && x >= 96:
			g.crashOp()
		case g.prop == "c03" && x >= 97 && !g.fail:
			g.restartOp()
		default:
			g.read()
		}
	}
}

func (g *genState) snapshotDoneAtBegin() {
	// the hot store moves to the snapshot store at sb; the file appears at sr
	if g.hot {
		g.nfiles++
	}
	g.hot = false
}

func (g *genState) crashOp() {
	r := g.r
	switch x := r.Intn(10); {
	case x < 3:
		g.emit("crash clean")
	case x < 6:
		g.emit(fmt.Sprintf("crash %d", 1+r.Intn(999)))
	case x < 7:
		if g.phase == 0 {
			g.emit("reopen")
		} else {
			g.emit("crash clean")
		}
	case x < 9:
		i, j, _ := g.group()
		pt := h.Pick(r, []string{"compact.afterWriteFiles", "replace.afterRename", "replace.afterRemoveOld"})
		g.emit(fmt.Sprintf("ccrash %s %d %d %s %d", h.Pick(r, kinds), i, j, pt, 1+r.Intn(3)))
	default:
		if g.phase < 3 {
			g.del("dcrash")
		} else {
			g.emit("crash clean")
		}
	}
	g.phase = 0
	g.hot = g.wrote
	g.readAll()
}

// restartOp (C03): restarts that tear nothing — a crash image at an op boundary (also inside a
// stepped snapshot), a clean Close/Open, an image from inside a compaction's FileStore.replace.
func (g *genState) restartOp() {
	r := g.r
	switch x := r.Intn(4); {
	case x < 2:
		g.emit("crash clean")
	case x < 3:
		if g.phase == 0 {
			g.emit("reopen")
		} else {
			g.emit("crash clean")
		}
	default:
		i, j, _ := g.group()
		pt := h.Pick(r, []string{"compact.afterWriteFiles", "replace.afterRename", "replace.afterRemoveOld"})
		g.emit(fmt.Sprintf("ccrash %s %d %d %s %d", h.Pick(r, kinds), i, j, pt, 1+r.Intn(3)))
	}
	g.phase = 0
	g.hot = g.wrote
	g.readAll()
}

func newGenState(r *h.Rand, prop string) *genState {
	g := &genState{r: r, prop: prop}
	nk := 1 + r.Intn(3)
	for i := 0; i < nk; i++ {
		g.keys = append(g.keys, key{r.Intn(len(SeriesKeys)), r.Intn(len(FieldNames))})
	}
	if r.Chance(0.4) { // two fields of one series: a series delete hits both
		g.keys = append(g.keys, key{g.keys[0].s, r.Intn(len(FieldNames))})
	}
	nt := 2 + r.Intn(7)
	base := int64(r.Intn(5))
	for i := 0; i < nt; i++ {
		g.times = append(g.times, base+int64(r.Intn(12)))
	}
	if r.Chance(0.15) {
		g.times = append(g.times, minNano, maxNano)
	}
	// failing snapshot attempts: C01 (abs-preserving) and C02 (the retry loses WAL data);
	// C03 cases have them only when they have no restarts
	g.fail = r.Chance(0.25)
	return g
}

// Gen emits the cases of one property ("c01", "c02", "c03").
func Gen(r *h.Rand, tier string, prop string, emit func([]string)) {
	n, maxOps := 600, 40
	if tier == "thorough" {
		n, maxOps = 2500, 60 // x thorough.seeds; ~4x the quick run per seed
	}
	if prop == "c02" {
		n = n * 2 / 3
	}
	for _, c := range fixedCases(prop) {
		emit(c)
	}
	for i := 0; i < n; i++ {
		g := newGenState(r, prop)
		nops := 6 + r.Intn(maxOps-6)
		for len(g.ops) < nops {
			g.op()
		}
		if g.phase != 0 && r.Chance(0.7) {
			g.emit("sx")
		}
		g.readAll()
		emit(g.ops)
	}
}

// fixedCases are the hand-written histories every run starts with.
func fixedCases(prop string) [][]string {
	all := fmt.Sprintf("%d %d", minNano, maxNano)
	cs := [][]string{
		{"w 0:0:5:7,0:0:3:2,0:0:5:8", "r 0 0 " + all + " 1", "r 0 0 " + all + " 0", "snap", "files", "w 0:0:5:9,0:1:4:4",
			"r 0 0 0 10 1", "snap", "c lf 0 1", "r 0 0 0 10 1", "r 0 1 0 10 0"},
		{"w 1:2:1:1", "sb", "w 1:2:1:2,1:2:2:5", "r 1 2 " + all + " 1", "sw", "r 1 2 " + all + " 1", "sr", "r 1 2 " + all + " 0",
			"w 1:2:2:6", "sc", "r 1 2 " + all + " 1", "sx", "r 1 2 " + all + " 1", "snap", "c full 0 1", "r 1 2 " + all + " 1"},
	}
	if prop != "c01" {
		cs = append(cs,
			// DESIGN §6 F1: delete inside the snapshot window
			[]string{"w 0:0:100:1", "sb", "d 0 100 100", "r 0 0 0 1000 1", "sx", "r 0 0 0 1000 1"},
			[]string{"w 0:0:1:1,0:0:2:2", "snap", "w 0:0:3:3", "d 0 2 3", "r 0 0 " + all + " 1", "snap", "c ls 0 0", "r 0 0 " + all + " 1",
				"w 0:0:2:9", "r 0 0 " + all + " 1"},
		)
	}
	cs = append(cs, []string{"w 0:0:1:1", "snapfail", "r 0 0 0 1000 1", "w 0:0:2:2,0:0:1:5", "snapfail", "r 0 0 0 1000 0", "snap", "files", "r 0 0 0 1000 1"})
	if prop == "c02" {
		cs = append(cs,
			// F18: a write between a failed snapshot attempt and its retry is lost by a crash after the retry
			[]string{"w 0:0:1:1", "snapfail", "w 0:0:2:2", "snap", "crash clean", "r 0 0 0 1000 1"},
			[]string{"w 0:0:1:1", "w 0:0:2:2", "crash 500", "r 0 0 0 1000 1", "w 0:0:3:3", "r 0 0 0 1000 1", "crash clean", "r 0 0 0 1000 1"},
			[]string{"w 0:0:1:1", "snap", "w 0:0:1:2", "snap", "ccrash full 0 1 replace.afterRename 1", "r 0 0 0 1000 1", "files"},
			[]string{"w 0:0:1:1", "snap", "w 0:0:1:2", "snap", "ccrash lf 0 1 replace.afterRemoveOld 1", "r 0 0 0 1000 1", "files"},
			[]string{"w 0:0:1:1", "sb", "sr", "crash clean", "r 0 0 0 1000 1", "files"},
			[]string{"w 0:0:1:1", "sb", "sc", "crash clean", "r 0 0 0 1000 1", "w 0:0:2:2", "reopen", "r 0 0 0 1000 1"},
			[]string{"w 0:0:1:1", "snap", "w 0:0:2:2", "dcrash 0 1 2", "r 0 0 0 1000 1"},
			[]string{"w 0:0:1:1", "w 0:0:2:2", "d 0 1 1", "crash 300", "r 0 0 0 1000 1"},
		)
	}
	return cs
}
