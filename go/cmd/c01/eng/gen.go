package eng

import "verif/harness/h"

// Gen emits the cases of one property ("c01", "c02", "c03").
func Gen(r *h.Rand, tier string, prop string, emit func([]string)) {
}
