// Package eng drives a REAL tsm1.Engine (WAL on, background compactions off)
// from the op lines shared by the C01/C02/C03 harnesses.  Everything that can
// block is bounded by a timeout (h.Harness.OpTimeout bounds whole ops; the
// waits in here are bounded separately so that a stuck goroutine never hangs
// the process).
//
// Ops (one per line):
//
//	w s:f:t:v,...             Engine.WritePoints (one point per entry, batch order kept)
//	r s f lo hi asc           CreateCursorIterator -> cursor.Next()* ; answer t=v,... or -
//	d s,.. lo hi              Engine.DeleteSeriesRange
//	snap                      Engine.WriteSnapshot (all sub-steps)
//	sb | sw | sr | sc | sx    the same, sub-step by sub-step (goroutine parked at verifPoint hooks)
//	snapfail                  WriteSnapshot while the Compactor refuses snapshots (fails after Cache.Snapshot)
//	c kind i j                compaction of the files at positions i..j (engine's own
//	                          compactionStrategy.Apply); kind = lf|ls|full|opt ; answer ok <#files>
//	files                     number of TSM files
//	reopen                    Close + Open on the same directory
//	crash clean|<permille>    copy the shard directories now, (optionally) tear the WAL record
//	                          appended by the immediately preceding op, drop the live engine,
//	                          open a fresh Engine on the copy
//	ccrash kind i j point n   compaction whose directory image is taken at the n-th hit of
//	                          verifPoint(point); then as crash (invalid group: plain `crash clean`)
//	dcrash s,.. lo hi         delete whose directory image is taken at delete.afterTombstones
package eng

import (
	"context"
	"fmt"
	"io"
	"math"
	"os"
	"path/filepath"
	"sort"
	"strconv"
	"strings"
	"sync"
	"time"

	"github.com/influxdata/influxdb/v2/models"
	"github.com/influxdata/influxdb/v2/tsdb"
	_ "github.com/influxdata/influxdb/v2/tsdb/index/tsi1"
	"github.com/influxdata/influxdb/v2/tsdb/engine/tsm1"
	"github.com/influxdata/influxql"
	"go.uber.org/zap"
)

// ---------------------------------------------------------------- domain

var SeriesKeys = []string{"m0,t=a", "m0,t=b", "m1,t=a", "m1,t=c"}
var FieldNames = []string{"f", "i", "u", "s", "b"}
var fieldTypes = []influxql.DataType{influxql.Float, influxql.Integer, influxql.Unsigned, influxql.String, influxql.Boolean}

const stepWait = 60 * time.Second

// ---------------------------------------------------------------- hook dispatcher

type hookCtl struct {
	mu sync.Mutex
	// stepping: snapshot.* points park the calling goroutine
	stepping bool
	reached  chan string
	resume   chan struct{}
	// one-shot callback at the n-th hit of a point
	cbPoint string
	cbLeft  int
	cb      func()
}

var ctl = &hookCtl{}

func init() { tsm1.VerifHook = ctl.hit }

func (c *hookCtl) hit(name string) {
	c.mu.Lock()
	if c.cb != nil && c.cbPoint == name {
		c.cbLeft--
		if c.cbLeft == 0 {
			cb := c.cb
			c.cb = nil
			c.mu.Unlock()
			cb()
			c.mu.Lock()
		}
	}
	step := c.stepping && strings.HasPrefix(name, "snapshot.")
	reached, resume := c.reached, c.resume
	c.mu.Unlock()
	if step {
		reached <- name
		<-resume
	}
}

// ---------------------------------------------------------------- engine wrapper

type noopPlanner struct{}

func (noopPlanner) FindGenerations() tsm1.TsmGenerations { return nil }
func (noopPlanner) Plan(tsm1.TsmGenerations, time.Time) ([]tsm1.CompactionGroup, int64) {
	return nil, 0
}
func (noopPlanner) PlanLevel(tsm1.TsmGenerations, int) ([]tsm1.CompactionGroup, int64) {
	return nil, 0
}
func (noopPlanner) PlanOptimize(tsm1.TsmGenerations, time.Time) ([]tsm1.CompactionGroup, int64, int64) {
	return nil, 0, 0
}
func (noopPlanner) Release([]tsm1.CompactionGroup)          {}
func (noopPlanner) FullyCompacted() (bool, string)          { return false, "verif" }
func (noopPlanner) ForceFull()                              {}
func (noopPlanner) SetFileStore(*tsm1.FileStore)            {}
func (noopPlanner) SetAggressiveCompactionPointsPerBlock(int) {}
func (noopPlanner) GetAggressiveCompactionPointsPerBlock() int { return 0 }

type seriesIDSets []*tsdb.SeriesIDSet

func (a seriesIDSets) ForEach(f func(ids *tsdb.SeriesIDSet)) error {
	for _, v := range a {
		f(v)
	}
	return nil
}

type snapRun struct {
	done chan error
	at   string // last point reached ("" = finished)
	fin  bool
	err  error
}

type Eng struct {
	top   string // temp dir of the case; every incarnation lives in top/<n>
	n     int
	root  string
	e     *tsm1.Engine
	idx   tsdb.Index
	sfile *tsdb.SeriesFile
	snap  *snapRun
	// a WriteSnapshot attempt failed after Cache.Snapshot and has not been retried successfully
	failedSnap bool

	// the WAL record appended by the previous op (for torn crashes)
	tearFile          string
	tearFrom, tearTo  int64
	walBefore         map[string]int64
}

// tmpBase prefers a memory file system for the shard directories: the engine fsyncs the WAL
// on every write and several files per snapshot, which dominates the run time on a loaded
// disk.  Durability is not what is observed here (crash images are copies of the directory
// tree, cut explicitly), so tmpfs loses nothing.  VERIF_ENG_TMP overrides; "" = os.TempDir().
var sweepOnce sync.Once

// sweepStale removes shard directories left behind by harness processes that were killed
// (runner timeouts): older than three hours, so nothing that is still running.
func sweepStale(base string) {
	if base == "" {
		base = os.TempDir()
	}
	ents, err := os.ReadDir(base)
	if err != nil {
		return
	}
	for _, e := range ents {
		if !e.IsDir() || !strings.HasPrefix(e.Name(), "verif-eng-") {
			continue
		}
		if fi, err := e.Info(); err == nil && time.Since(fi.ModTime()) > 3*time.Hour {
			os.RemoveAll(filepath.Join(base, e.Name()))
		}
	}
}

func tmpBase() string {
	b := tmpBase0()
	sweepOnce.Do(func() { sweepStale(b) })
	return b
}

func tmpBase0() string {
	if d, ok := os.LookupEnv("VERIF_ENG_TMP"); ok {
		return d
	}
	if os.Getenv("TMPDIR") == "" {
		if fi, err := os.Stat("/dev/shm"); err == nil && fi.IsDir() {
			if f, err := os.CreateTemp("/dev/shm", "verif-probe-"); err == nil {
				f.Close()
				os.Remove(f.Name())
				return "/dev/shm"
			}
		}
	}
	return ""
}

func New() *Eng {
	top, err := os.MkdirTemp(tmpBase(), "verif-eng-")
	if err != nil {
		panic(err)
	}
	g := &Eng{top: top}
	g.root = filepath.Join(top, "0")
	if err := g.open(); err != nil {
		panic(err)
	}
	return g
}

func (g *Eng) dataDir() string { return filepath.Join(g.root, "data", "db0", "rp0", "1") }
func (g *Eng) walDir() string  { return filepath.Join(g.root, "wal", "db0", "rp0", "1") }

// open creates index, series file and a fresh Engine over g.root and opens it.
// The index and the series file are always fresh (outside the C01-C03 model:
// the engine's data path is driven with explicit series keys).
func (g *Eng) open() error {
	meta := filepath.Join(g.root, fmt.Sprintf("meta%d", g.n))
	g.n++
	if err := os.MkdirAll(g.dataDir(), 0777); err != nil {
		return err
	}
	if err := os.MkdirAll(g.walDir(), 0777); err != nil {
		return err
	}
	sfile := tsdb.NewSeriesFile(filepath.Join(meta, "_series"))
	sfile.Logger = zap.NewNop()
	if err := sfile.Open(); err != nil {
		return err
	}
	opt := tsdb.NewEngineOptions()
	ids := tsdb.NewSeriesIDSet()
	opt.SeriesIDSets = seriesIDSets([]*tsdb.SeriesIDSet{ids})
	idx, err := tsdb.NewIndex(1, "db0", filepath.Join(meta, "index"), ids, sfile, opt)
	if err != nil {
		return err
	}
	if err := idx.Open(); err != nil {
		return err
	}
	e := tsm1.NewEngine(1, idx, g.dataDir(), g.walDir(), sfile, opt).(*tsm1.Engine)
	e.SetEnabled(false) // no background snapshot / compaction goroutines
	// DeleteSeriesRange re-enables level compactions on return (enableLevelCompactions(true));
	// the background loop then only ever sees this planner.
	e.CompactionPlan = noopPlanner{}
	if err := e.Open(context.Background()); err != nil {
		return err
	}
	if err := e.LoadMetadataIndex(1, idx); err != nil {
		return err
	}
	g.e, g.idx, g.sfile = e, idx, sfile
	g.snap = nil
	g.failedSnap = false
	g.tearFile = ""
	return nil
}

func withTimeout(d time.Duration, f func() error) error {
	ch := make(chan error, 1)
	go func() { ch <- f() }()
	select {
	case err := <-ch:
		return err
	case <-time.After(d):
		return fmt.Errorf("timeout")
	}
}

// closeLive releases a parked snapshot goroutine and closes the engine.
func (g *Eng) closeLive() error {
	if g.e == nil {
		return nil
	}
	g.finishSnap()
	e, idx, sfile := g.e, g.idx, g.sfile
	g.e, g.idx, g.sfile = nil, nil, nil
	return withTimeout(stepWait, func() error {
		err := e.Close(false)
		idx.Close()
		sfile.Close()
		return err
	})
}

func (g *Eng) Close() {
	g.closeLive()
	if os.Getenv("VERIF_KEEP") != "" {
		fmt.Fprintln(os.Stderr, "verif-eng: kept", g.root)
		return
	}
	os.RemoveAll(g.top)
}

// ---------------------------------------------------------------- op dispatch

func (g *Eng) Op(t []string) string {
	if len(t) == 0 {
		return "bad-op"
	}
	if g.e == nil {
		return "err:closed"
	}
	g.walSizesBefore()
	defer g.walSizesAfter(t[0])
	switch t[0] {
	case "w":
		if len(t) != 2 {
			return "bad-op"
		}
		return g.write(t[1])
	case "r":
		if len(t) != 6 {
			return "bad-op"
		}
		return g.read(t[1:])
	case "d":
		if len(t) != 4 {
			return "bad-op"
		}
		return errStr(g.del(t[1], t[2], t[3]))
	case "snap":
		err := g.e.WriteSnapshot() // (a second WriteSnapshot while one is parked: ErrSnapshotInProgress)
		if err == nil && g.snap == nil {
			g.failedSnap = false
		}
		return errStr(err)
	case "sb", "sw", "sr", "sc", "sx":
		return g.snapStep(t[0])
	case "c":
		if len(t) != 4 {
			return "bad-op"
		}
		return g.compact(t[1], t[2], t[3])
	case "files":
		return strconv.Itoa(len(g.e.FileStore.Files()))
	case "snapfail":
		return g.snapFail()
	case "reopen":
		if err := g.closeLive(); err != nil {
			return "err:close:" + clean(err.Error())
		}
		return errStr(g.open())
	case "crash":
		if len(t) != 2 {
			return "bad-op"
		}
		return g.crash(t[1])
	case "ccrash":
		if len(t) != 6 {
			return "bad-op"
		}
		return g.ccrash(t[1:])
	case "dcrash":
		if len(t) != 4 {
			return "bad-op"
		}
		return g.dcrash(t[1], t[2], t[3])
	}
	return "bad-op"
}

func clean(s string) string {
	s = strings.Map(func(r rune) rune {
		if r == ' ' || r == '\t' || r == '\n' {
			return '_'
		}
		return r
	}, s)
	if len(s) > 60 {
		s = s[:60]
	}
	return s
}

func errStr(err error) string {
	switch {
	case err == nil:
		return "ok"
	case err == tsm1.ErrSnapshotInProgress:
		return "err:inprogress"
	}
	return "err:" + clean(err.Error())
}

// ---------------------------------------------------------------- write / read / delete

func parseEntry(s string) (si, fi int, ts, v int64, ok bool) {
	p := strings.Split(s, ":")
	if len(p) != 4 {
		return
	}
	a, e1 := strconv.Atoi(p[0])
	b, e2 := strconv.Atoi(p[1])
	c, e3 := strconv.ParseInt(p[2], 10, 64)
	d, e4 := strconv.ParseInt(p[3], 10, 64)
	if e1 != nil || e2 != nil || e3 != nil || e4 != nil || a < 0 || a >= len(SeriesKeys) || b < 0 || b >= len(FieldNames) {
		return
	}
	return a, b, c, d, true
}

func fieldValue(fi int, v int64) interface{} {
	switch fi {
	case 0:
		return float64(v)
	case 1:
		return v
	case 2:
		return uint64(v)
	case 3:
		return strconv.FormatInt(v, 10)
	default:
		return v != 0
	}
}

func (g *Eng) ensureField(si, fi int) {
	name, _ := models.ParseKeyBytes([]byte(SeriesKeys[si]))
	// the Shard layer (validateSeriesAndFields) registers the field before the engine sees a point
	g.e.MeasurementFields(name).CreateFieldIfNotExists(FieldNames[fi], fieldTypes[fi])
}

func (g *Eng) write(arg string) string {
	var pts []models.Point
	for _, s := range strings.Split(arg, ",") {
		si, fi, ts, v, ok := parseEntry(s)
		if !ok {
			return "bad-op"
		}
		name, tags := models.ParseKeyBytes([]byte(SeriesKeys[si]))
		p, err := models.NewPoint(string(name), tags, models.Fields{FieldNames[fi]: fieldValue(fi, v)}, time.Unix(0, ts))
		if err != nil {
			return "err:newpoint:" + clean(err.Error())
		}
		g.ensureField(si, fi)
		if err := g.e.CreateSeriesIfNotExists(p.Key(), p.Name(), p.Tags()); err != nil {
			return "err:series:" + clean(err.Error())
		}
		pts = append(pts, p)
	}
	return errStr(g.e.WritePoints(context.Background(), pts))
}

func fmtPairs(ts []int64, vs []int64) string {
	if len(ts) == 0 {
		return "-"
	}
	var b strings.Builder
	for i := range ts {
		if i > 0 {
			b.WriteByte(',')
		}
		b.WriteString(strconv.FormatInt(ts[i], 10))
		b.WriteByte('=')
		b.WriteString(strconv.FormatInt(vs[i], 10))
	}
	return b.String()
}

func (g *Eng) read(t []string) string {
	si, e1 := strconv.Atoi(t[0])
	fi, e2 := strconv.Atoi(t[1])
	lo, e3 := strconv.ParseInt(t[2], 10, 64)
	hi, e4 := strconv.ParseInt(t[3], 10, 64)
	if e1 != nil || e2 != nil || e3 != nil || e4 != nil || si < 0 || si >= len(SeriesKeys) || fi < 0 || fi >= len(FieldNames) || (t[4] != "0" && t[4] != "1") {
		return "bad-op"
	}
	asc := t[4] == "1"
	// a reader only gets a cursor for a field the shard knows: register it, as a later write
	// of the same field would (the delete path may have dropped the measurement's fields)
	g.ensureField(si, fi)
	ctx := context.Background()
	it, err := g.e.CreateCursorIterator(ctx)
	if err != nil {
		return "err:iter:" + clean(err.Error())
	}
	name, tags := models.ParseKeyBytes([]byte(SeriesKeys[si]))
	cur, err := it.Next(ctx, &tsdb.CursorRequest{Name: name, Tags: tags, Field: FieldNames[fi], Ascending: asc, StartTime: lo, EndTime: hi})
	if err != nil {
		return "err:cursor:" + clean(err.Error())
	}
	if cur == nil {
		return "nil-cursor"
	}
	defer cur.Close()
	var ts, vs []int64
	bad := ""
	for guard := 0; guard < 1<<20; guard++ {
		n := 0
		switch c := cur.(type) {
		case tsdb.FloatArrayCursor:
			a := c.Next()
			n = a.Len()
			for i := 0; i < n; i++ {
				f := a.Values[i]
				if f != math.Trunc(f) || math.Abs(f) > 1e15 {
					bad = "err:float:" + strconv.FormatUint(math.Float64bits(f), 16)
				}
				ts, vs = append(ts, a.Timestamps[i]), append(vs, int64(f))
			}
		case tsdb.IntegerArrayCursor:
			a := c.Next()
			n = a.Len()
			for i := 0; i < n; i++ {
				ts, vs = append(ts, a.Timestamps[i]), append(vs, a.Values[i])
			}
		case tsdb.UnsignedArrayCursor:
			a := c.Next()
			n = a.Len()
			for i := 0; i < n; i++ {
				ts, vs = append(ts, a.Timestamps[i]), append(vs, int64(a.Values[i]))
			}
		case tsdb.StringArrayCursor:
			a := c.Next()
			n = a.Len()
			for i := 0; i < n; i++ {
				x, err := strconv.ParseInt(a.Values[i], 10, 64)
				if err != nil {
					bad = "err:string:" + clean(a.Values[i])
				}
				ts, vs = append(ts, a.Timestamps[i]), append(vs, x)
			}
		case tsdb.BooleanArrayCursor:
			a := c.Next()
			n = a.Len()
			for i := 0; i < n; i++ {
				x := int64(0)
				if a.Values[i] {
					x = 1
				}
				ts, vs = append(ts, a.Timestamps[i]), append(vs, x)
			}
		default:
			return "err:cursor-type"
		}
		if n == 0 {
			break
		}
	}
	if bad != "" {
		return bad
	}
	return fmtPairs(ts, vs)
}

type seriesElem struct {
	name []byte
	tags models.Tags
}

func (s seriesElem) Name() []byte        { return s.name }
func (s seriesElem) Tags() models.Tags   { return s.tags }
func (s seriesElem) Deleted() bool       { return false }
func (s seriesElem) Expr() influxql.Expr { return nil }

type seriesIter struct{ keys [][]byte }

func (it *seriesIter) Close() error { return nil }
func (it *seriesIter) Next() (tsdb.SeriesElem, error) {
	if len(it.keys) == 0 {
		return nil, nil
	}
	name, tags := models.ParseKeyBytes(it.keys[0])
	it.keys = it.keys[1:]
	return seriesElem{name, tags}, nil
}

func parseSeriesList(s string) ([][]byte, bool) {
	var keys [][]byte
	if s == "-" {
		return nil, true
	}
	for _, p := range strings.Split(s, ",") {
		i, err := strconv.Atoi(p)
		if err != nil || i < 0 || i >= len(SeriesKeys) {
			return nil, false
		}
		keys = append(keys, []byte(SeriesKeys[i]))
	}
	return keys, true
}

func (g *Eng) del(ss, los, his string) error {
	keys, ok := parseSeriesList(ss)
	lo, e1 := strconv.ParseInt(los, 10, 64)
	hi, e2 := strconv.ParseInt(his, 10, 64)
	if !ok || e1 != nil || e2 != nil {
		return fmt.Errorf("bad-op")
	}
	return g.e.DeleteSeriesRange(context.Background(), &seriesIter{keys: keys}, lo, hi)
}

// ---------------------------------------------------------------- snapshot stepping

var stepPoint = map[string]string{
	"sb": "snapshot.afterCacheSnapshot",
	"sw": "snapshot.afterWriteFiles",
	"sr": "snapshot.afterReplace",
	"sc": "snapshot.afterClearSnapshot",
	"sx": "",
}
var pointOrder = map[string]int{
	"snapshot.afterCacheSnapshot": 1, "snapshot.afterWriteFiles": 2, "snapshot.afterReplace": 3, "snapshot.afterClearSnapshot": 4, "": 5,
}

// snapStep advances the (single) stepped WriteSnapshot to the point of `op`.
// Every step answers "ok" when the snapshot is at or beyond that point or has
// returned nil; an error of WriteSnapshot is reported by the step that sees it.
func (g *Eng) snapStep(op string) string {
	target := stepPoint[op]
	if op == "sb" {
		if g.snap != nil {
			// a second snapshot while the first is parked: runs to its own end (ErrSnapshotInProgress)
			return errStr(g.e.WriteSnapshot())
		}
		if g.e.VerifCacheStoreCount() == 0 && !g.failedSnap {
			// nothing to snapshot: WriteSnapshot returns without reaching the commit steps
			// (Cache size accounting decides between `Size()==0 => ClearSnapshot` and writing
			// zero files; both end with no snapshot in flight) — run it to its end
			return errStr(g.e.WriteSnapshot())
		}
		ctl.mu.Lock()
		ctl.stepping = true
		ctl.reached = make(chan string)
		ctl.resume = make(chan struct{})
		ctl.mu.Unlock()
		s := &snapRun{done: make(chan error, 1)}
		e := g.e
		go func() { s.done <- e.WriteSnapshot() }()
		g.snap = s
		return g.waitSnap(target)
	}
	if g.snap == nil {
		return "ok" // nothing in flight: the step is a no-op (as in the model)
	}
	return g.waitSnap(target)
}

func (g *Eng) waitSnap(target string) string {
	s := g.snap
	for {
		if s.fin {
			g.endStepping()
			g.snap = nil
			if s.err == nil {
				g.failedSnap = false
			}
			return errStr(s.err)
		}
		if s.at != "" && pointOrder[s.at] >= pointOrder[target] {
			return "ok"
		}
		if s.at != "" {
			ctl.resume <- struct{}{} // leave the point we are parked at
			s.at = ""
		}
		select {
		case name := <-ctl.reached:
			s.at = name
		case err := <-s.done:
			s.fin, s.err = true, err
		case <-time.After(stepWait):
			return "err:snapstep-timeout"
		}
	}
}

func (g *Eng) endStepping() {
	ctl.mu.Lock()
	ctl.stepping = false
	ctl.mu.Unlock()
}

// finishSnap lets a parked snapshot run to its end.
func (g *Eng) finishSnap() {
	if g.snap == nil {
		return
	}
	g.waitSnap("")
	if g.snap != nil && g.snap.fin {
		g.snap = nil
	}
	g.endStepping()
	g.snap = nil
}

// snapFail runs a whole WriteSnapshot while the Compactor refuses snapshots
// (Compactor.DisableSnapshots, as Engine.SetCompactionsEnabled(false) does): Cache.Snapshot
// happens, Compactor.WriteSnapshot returns errSnapshotsDisabled, writeSnapshotAndCommit runs
// ClearSnapshot(false).  The refusal is only injected when there is something to snapshot
// (hot store non-empty, or a failed attempt pending): an empty snapshot returns before the
// compactor is asked.
func (g *Eng) snapFail() string {
	if g.snap != nil {
		return "busy"
	}
	inject := g.e.VerifCacheStoreCount() > 0 || g.failedSnap
	if inject {
		g.e.Compactor.DisableSnapshots()
	}
	err := g.e.WriteSnapshot()
	if inject {
		g.e.Compactor.EnableSnapshots()
	}
	switch {
	case err == nil:
		g.failedSnap = false
		return "ok"
	case strings.Contains(err.Error(), "snapshots disabled"):
		g.failedSnap = true
		return "err:snapshot-failed"
	}
	return errStr(err)
}

// ---------------------------------------------------------------- compaction

// group resolves file positions i..j to paths.  Like the planner (which plans whole
// tsmGenerations) it refuses a group that splits a generation: after a crash inside
// FileStore.replace the output of a compaction shares the generation of the group's last
// member, and compacting only part of that generation would produce a name that is live.
func (g *Eng) group(is, js string) (tsm1.CompactionGroup, bool) {
	i, e1 := strconv.Atoi(is)
	j, e2 := strconv.Atoi(js)
	files := g.e.FileStore.Files()
	if e1 != nil || e2 != nil || i < 0 || j < i || j >= len(files) {
		return nil, false
	}
	gen := func(k int) int {
		n, _, err := g.e.FileStore.ParseFileName(files[k].Path())
		if err != nil {
			return -1 - k
		}
		return n
	}
	if (i > 0 && gen(i-1) == gen(i)) || (j+1 < len(files) && gen(j+1) == gen(j)) {
		return nil, false
	}
	var grp tsm1.CompactionGroup
	for k := i; k <= j; k++ {
		grp = append(grp, files[k].Path())
	}
	return grp, true
}

func (g *Eng) runCompact(kind string, grp tsm1.CompactionGroup) bool {
	switch kind {
	case "lf":
		g.e.VerifCompactGroup(grp, "level", true, 1, 0)
	case "ls":
		g.e.VerifCompactGroup(grp, "level", false, 2, 0)
	case "full":
		g.e.VerifCompactGroup(grp, "full", false, 4, 0)
	case "opt":
		g.e.VerifCompactGroup(grp, "optimize", false, 5, tsdb.DefaultMaxPointsPerBlock)
	default:
		return false
	}
	return true
}

func (g *Eng) compact(kind, is, js string) string {
	grp, ok := g.group(is, js)
	if !ok {
		return "err:group"
	}
	if !g.runCompact(kind, grp) {
		return "bad-op"
	}
	return "ok " + strconv.Itoa(len(g.e.FileStore.Files()))
}

// ---------------------------------------------------------------- crash images

func copyTree(src, dst string) error {
	return filepath.Walk(src, func(p string, fi os.FileInfo, err error) error {
		if err != nil {
			if os.IsNotExist(err) {
				return nil // a file removed while we walk
			}
			return err
		}
		rel, _ := filepath.Rel(src, p)
		to := filepath.Join(dst, rel)
		if fi.IsDir() {
			return os.MkdirAll(to, 0777)
		}
		in, err := os.Open(p)
		if err != nil {
			if os.IsNotExist(err) {
				return nil
			}
			return err
		}
		defer in.Close()
		out, err := os.Create(to)
		if err != nil {
			return err
		}
		defer out.Close()
		_, err = io.Copy(out, in)
		return err
	})
}

func (g *Eng) walFiles() map[string]int64 {
	m := map[string]int64{}
	ents, _ := os.ReadDir(g.walDir())
	for _, e := range ents {
		if strings.HasSuffix(e.Name(), ".wal") {
			if fi, err := e.Info(); err == nil {
				m[e.Name()] = fi.Size()
			}
		}
	}
	return m
}

func (g *Eng) walSizesBefore() {
	if g.e != nil {
		g.walBefore = g.walFiles()
	}
}

// after a `w` or `d`: remember which WAL file grew and by how much (the record of this op)
func (g *Eng) walSizesAfter(op string) {
	if g.e == nil || op == "crash" || op == "ccrash" || op == "dcrash" || op == "reopen" {
		return
	}
	g.tearFile = ""
	if op != "w" && op != "d" {
		return
	}
	after := g.walFiles()
	var names []string
	for n := range after {
		names = append(names, n)
	}
	sort.Strings(names)
	for _, n := range names {
		if after[n] > g.walBefore[n] {
			g.tearFile, g.tearFrom, g.tearTo = n, g.walBefore[n], after[n]
		}
	}
}

// image copies data and wal directories of the live engine into a new root.
func (g *Eng) image() (string, error) {
	dst := filepath.Join(g.top, fmt.Sprintf("img%d", g.n))
	g.n++
	if err := copyTree(filepath.Join(g.root, "data"), filepath.Join(dst, "data")); err != nil {
		return "", err
	}
	if err := copyTree(filepath.Join(g.root, "wal"), filepath.Join(dst, "wal")); err != nil {
		return "", err
	}
	return dst, nil
}

// switchTo drops the live engine and opens a fresh one on the image.
func (g *Eng) switchTo(img string) string {
	old := g.root
	if err := g.closeLive(); err != nil {
		// the abandoned incarnation is not under test any more; report but go on
		fmt.Fprintln(os.Stderr, "verif-eng: closing abandoned engine:", err)
	}
	os.RemoveAll(old)
	g.root = img
	return errStr(g.open())
}

func (g *Eng) crash(mode string) string {
	tearFile, from, to := g.tearFile, g.tearFrom, g.tearTo
	img, err := g.image()
	if err != nil {
		return "err:image:" + clean(err.Error())
	}
	if mode != "clean" {
		pm, err := strconv.Atoi(mode)
		if err != nil || pm < 0 || pm >= 1000 {
			return "bad-op"
		}
		if tearFile != "" {
			cut := from + (to-from)*int64(pm)/1000
			p := filepath.Join(img, "wal", "db0", "rp0", "1", tearFile)
			if err := os.Truncate(p, cut); err != nil {
				return "err:truncate:" + clean(err.Error())
			}
		}
	}
	return g.switchTo(img)
}

func (g *Eng) armImage(point string, n int) *string {
	var img string
	ctl.mu.Lock()
	ctl.cbPoint, ctl.cbLeft = point, n
	ctl.cb = func() {
		p, err := g.image()
		if err == nil {
			img = p
		}
	}
	ctl.mu.Unlock()
	return &img
}

func disarm() {
	ctl.mu.Lock()
	ctl.cb = nil
	ctl.mu.Unlock()
}

func (g *Eng) ccrash(t []string) string {
	grp, ok := g.group(t[1], t[2])
	if !ok {
		// no such group: nothing is compacted, the image is the current state
		return g.crash("clean")
	}
	n, err := strconv.Atoi(t[4])
	if err != nil || n < 1 {
		return "bad-op"
	}
	img := g.armImage(t[3], n)
	ok = g.runCompact(t[0], grp)
	disarm()
	if !ok {
		return "bad-op"
	}
	if *img == "" {
		// the point was not reached n times: image of the final state
		p, err := g.image()
		if err != nil {
			return "err:image:" + clean(err.Error())
		}
		*img = p
	}
	return g.switchTo(*img)
}

func (g *Eng) dcrash(ss, lo, hi string) string {
	img := g.armImage("delete.afterTombstones", 1)
	err := g.del(ss, lo, hi)
	disarm()
	if err != nil {
		return errStr(err)
	}
	if *img == "" {
		p, err := g.image()
		if err != nil {
			return "err:image:" + clean(err.Error())
		}
		*img = p
	}
	return g.switchTo(*img)
}
