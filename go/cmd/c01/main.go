// Harness for C01: drives a real tsm1.Engine (see eng/eng.go for the ops).
package main

import (
	"time"

	"verif/harness/cmd/c01/eng"
	"verif/harness/h"
)

func main() {
	h.Main(h.Harness{
		Gen:     func(r *h.Rand, tier string, emit func([]string)) { eng.Gen(r, tier, "c01", emit) },
		NewCase: func() h.CaseRunner { return eng.New() },
		// generous: the machine may be heavily loaded; a real hang still ends the case
		OpTimeout: 120 * time.Second,
	})
}
