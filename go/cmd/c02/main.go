// Harness for C02: drives a real tsm1.Engine (ops: see ../c01/eng/eng.go) with crash images (directory copies,
// torn WAL tails, crash points inside snapshot, compaction and delete commits) reopened by a fresh Engine.
package main

import (
	"time"

	"verif/harness/cmd/c01/eng"
	"verif/harness/h"
)

func main() {
	h.Main(h.Harness{
		Gen:     func(r *h.Rand, tier string, emit func([]string)) { eng.Gen(r, tier, "c02", emit) },
		NewCase: func() h.CaseRunner { return eng.New() },
		// generous: the machine may be heavily loaded; a real hang still ends the case
		OpTimeout: 120 * time.Second,
	})
}
