// Harness for C10: one real tsdb.Shard per case (tsi1 index, series file, tsm1
// engine + WAL in a temp dir); writes with conflicting field types, measurement
// drops, clean restarts, process kills, torn appends to fields.idxl and crashes
// inside the fields.idx rewrite (verifPoint hooks in tsdb/shard.go).  After every
// operation the answer carries the shard's field schema and a full read.
package main

import (
	"strconv"
	"time"

	"verif/harness/cmd/c40/shardh"
	"verif/harness/h"
)

type runner struct {
	env *shardh.Env
	err error
}

func newCase() h.CaseRunner {
	env, err := shardh.New()
	return &runner{env: env, err: err}
}

func (r *runner) seen() string { return r.env.Schema() + " " + r.env.Read() }

func (r *runner) restarted(kind string, err error) string {
	if err != nil {
		return "err:open " + kind + " - -"
	}
	return "ok " + kind + " " + r.seen()
}

var crashPoints = map[string]bool{"fields.tmpWritten": true, "fields.renamed": true, "fields.idxRemoved": true}

func intTok(s string) (int64, bool) {
	v, err := strconv.ParseInt(s, 10, 62)
	if err != nil || strconv.FormatInt(v, 10) != s {
		return 0, false
	}
	return v, true
}

func (r *runner) Op(t []string) string {
	if r.err != nil {
		return "err:setup"
	}
	if len(t) == 0 {
		return "bad-op"
	}
	e := r.env
	switch {
	case t[0] == "w" && len(t) >= 2:
		res := e.WriteOnly(t[1:])
		if res == "bad-op" {
			return res
		}
		return res + " " + r.seen()
	case t[0] == "drop" && len(t) == 2:
		if !shardh.ValidName(t[1]) {
			return "bad-op"
		}
		return e.DropMeasurement(t[1]) + " " + r.seen()
	case t[0] == "race" && len(t) == 3:
		if !e.ValidBatch(t[1:2]) || !e.ValidBatch(t[2:3]) {
			return "bad-op"
		}
		ra, rb := e.Race(t[1:2], t[2:3])
		return ra + " / " + rb + " / " + r.seen()
	case t[0] == "reopen" && len(t) == 1:
		return r.restarted("clean", e.Reopen())
	case t[0] == "crash" && len(t) == 1:
		return r.restarted("kill", e.Crash(nil))
	case t[0] == "wtorn" && len(t) >= 3:
		j, ok := intTok(t[1])
		if !ok || !e.ValidBatch(t[2:]) {
			return "bad-op"
		}
		res, crashed, err := e.TornOp(j, func() string { return e.WriteOnly(t[2:]) })
		if !crashed {
			return "nocrash " + res + " " + r.seen()
		}
		return r.restarted("torn", err)
	case t[0] == "droptorn" && len(t) == 3:
		j, ok := intTok(t[1])
		if !ok || !shardh.ValidName(t[2]) {
			return "bad-op"
		}
		res, crashed, err := e.TornOp(j, func() string { return e.DropMeasurement(t[2]) })
		if !crashed {
			return "nocrash " + res + " " + r.seen()
		}
		return r.restarted("torn", err)
	case t[0] == "crashclose" && len(t) == 2:
		if !crashPoints[t[1]] {
			return "bad-op"
		}
		fired, err := e.CrashInClose(t[1])
		kind := "clean"
		if fired {
			kind = t[1]
		}
		return r.restarted(kind, err)
	case t[0] == "crashopen" && len(t) == 2:
		if !crashPoints[t[1]] {
			return "bad-op"
		}
		fired, err := e.CrashInOpen(t[1])
		kind := "kill"
		if fired {
			kind = "open:" + t[1]
		}
		return r.restarted(kind, err)
	case (t[0] == "f" || t[0] == "r") && len(t) == 1:
		return r.seen()
	case t[0] == "snap" && len(t) == 1:
		if s := e.Snapshot(); s != "ok" {
			return s
		}
		return r.seen()
	case t[0] == "logsize" && len(t) == 1:
		if n, ok := e.LogSize(); ok {
			return strconv.FormatInt(n, 10)
		}
		return "-"
	}
	return "bad-op"
}

func (r *runner) Close() {
	if r.env != nil {
		r.env.Close()
	}
}

func main() {
	h.Main(h.Harness{Gen: gen, NewCase: newCase, OpTimeout: 10 * time.Minute})
}
