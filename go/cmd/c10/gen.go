package main

import (
	"fmt"
	"strings"

	"verif/harness/cmd/c40/shardh"
	"verif/harness/h"
)

// Cases: create / conflict / drop-measurement histories with restarts of every
// kind in between.  Few measurements and fields, so that drops followed by
// re-creation with another type (the shape behind DESIGN §6 F16) are frequent.
func gen(r *h.Rand, tier string, emit func([]string)) {
	n := 160
	if tier == "thorough" {
		n = 1500
	}
	points := []string{"fields.tmpWritten", "fields.renamed", "fields.renamed", "fields.idxRemoved"}
	for c := 0; c < n; c++ {
		g := shardh.NewG(r)
		// measurement names that are strict prefixes of each other: every scan "does any
		// key of this measurement remain?" must respect the name boundary
		g.Meas = [][]string{{"cpu", "cpu_idle"}, {"m", "m1", "m_x"}, {"cpu", "mem", "m3"}, {"m1", "m10", "m"}, {"cpu", "cpu2", "mem"}}[r.Intn(5)]
		g.Fields = [][]string{{"a", "b"}, {"a", "b", "c", "v"}, {"v"}}[r.Intn(3)]
		// a sentinel series that is never dropped: Engine.deleteSeriesRange returns
		// early (without touching index or field set) when the engine holds nothing
		ops := []string{"w zz|-|s:i:1|0"}
		if r.Chance(0.1) {
			ops = nil // ... and a few cases without it
		}
		batch := func() string {
			inv := h.Pick(r, []float64{0, 0.2, 0.5})
			return g.Batch(1+r.Intn(4), inv)
		}
		tornJ := func() string {
			switch r.Intn(4) {
			case 0:
				return fmt.Sprint(-int(r.Range(1, 12))) // all but the last bytes
			case 1:
				return fmt.Sprint(r.Intn(10)) // inside the size header
			case 2:
				return fmt.Sprint(r.Intn(200)) // anywhere, often the whole record
			}
			return fmt.Sprint(8 + r.Intn(30))
		}
		forget := func(m string) { // the generator's guess of the schema: the measurement is gone
			for k := range g.Types {
				if strings.HasPrefix(k, m+".") {
					delete(g.Types, k)
				}
			}
		}
		steps := 4 + r.Intn(9)
		for i := 0; i < steps; i++ {
			switch x := r.Intn(100); {
			case x < 34:
				ops = append(ops, batch())
			case x < 48:
				m := h.Pick(r, g.Meas)
				if r.Chance(0.5) { // the siblings' data sits in a TSM file when the drop runs
					ops = append(ops, "snap")
				}
				ops = append(ops, "drop "+m)
				forget(m)
				if r.Chance(0.6) { // re-create, probably with other types
					ops = append(ops, batch())
				}
			case x < 58:
				ops = append(ops, "reopen")
			case x < 66:
				ops = append(ops, "crash")
			case x < 73:
				ops = append(ops, "crashclose "+h.Pick(r, points))
			case x < 78:
				ops = append(ops, "crashopen "+h.Pick(r, points))
			case x < 87:
				ops = append(ops, "wtorn "+tornJ()+" "+batch()[2:])
			case x < 93:
				m := h.Pick(r, g.Meas)
				ops = append(ops, "droptorn "+tornJ()+" "+m)
				if r.Chance(0.5) {
					ops = append(ops, "drop "+m)
				}
				forget(m)
			case x < 96:
				// two writers racing on a new field of a measurement used for nothing else;
				// the drop right after brings model and implementation back in step whoever won
				t1 := h.Pick(r, []string{"i:1", "f:3ff0000000000000", "b:1", "u:7", "s:3x2"})
				t2 := h.Pick(r, []string{"i:2", "f:4000000000000000", "b:0", "u:9", "s:4x1"})
				fld := h.Pick(r, []string{"x", "y"})
				ops = append(ops, fmt.Sprintf("race rc|-|%s:%s|%d rc|h=a|%s:%s|%d", fld, t1, 900000+i, fld, t2, 900100+i), "drop rc")
			default:
				ops = append(ops, h.Pick(r, []string{"f", "r", "snap", "logsize", "logsize"}))
			}
		}
		ops = append(ops, h.Pick(r, []string{"reopen", "crash", "crashclose fields.renamed", "f"}), "f")
		emit(ops)
	}
	// the F16 shape, spelled out (regression corpus in generated form)
	emit([]string{"w m|h=a|f:i:1|10", "reopen", "drop m", "w k|h=a|g:i:1|20", "drop k",
		"w k|h=a|g:f:3ff0000000000000|30", "w m|h=a|f:i:2|40", "crashclose fields.renamed",
		"w m|h=a|f:f:3ff0000000000000|50", "logsize", "reopen"})
	// the same shape met by the recovery itself: kill, then crash inside the snapshot rewrite of the open
	emit([]string{"crashopen fields.idxRemoved", "w zz|-|s:i:1|0", "w m|h=a|f:i:1|10", "reopen", "drop m", "w k|h=a|g:i:1|20", "drop k",
		"w k|h=a|g:f:3ff0000000000000|30", "w m|h=a|f:i:2|40", "crashopen fields.renamed", "f",
		"w m|h=a|f:f:3ff0000000000000|50", "crashopen fields.tmpWritten", "reopen"})
	// a sibling whose name has the dropped name as a strict prefix, already in a TSM file
	emit([]string{"w cpu|h=a|v:f:3ff0000000000000|1 cpu_idle|h=a|v:f:3ff0000000000000|1", "snap",
		"w cpu|h=a|v:i:1|2", "drop cpu", "w cpu|h=a|v:i:2|3", "reopen", "w cpu|h=a|v:f:3ff0000000000000|4", "crash", "f"})
	emit([]string{"w m1|-|a:i:1|1 m10|-|a:i:1|1 m|-|a:i:1|1", "reopen", "drop m1", "w m1|-|a:b:1|2", "drop m", "w m|-|a:s:3x2|3",
		"snap", "drop m10", "w m10|-|a:u:7|4", "crashclose fields.renamed", "f"})
	// drop, then unclean restart, then the other type
	emit([]string{"w cpu|h=a|v:i:1|10 mem|h=a|v:i:2|20", "reopen", "drop cpu", "crash",
		"w cpu|h=a|v:f:3ff0000000000000|30", "crash", "f"})
	// malformed
	emit([]string{"drop", "drop a-b", "wtorn x cpu|-|a:i:1|5", "wtorn 1", "droptorn 1", "crashclose nowhere", "crashclose", "crashopen", "crashopen fields.nowhere",
		"wtorn 01 cpu|-|a:i:1|5", "f"})
}
