// Harness for C12: the real models.ParsePointsWithPrecision (and every accessor of every
// returned point) and models.ParseKeyBytes on structured near-valid lines, mutations,
// raw byte strings, multi-line buffers, key-length / timestamp / number boundary streams.
package main

import (
	"strconv"
	"strings"
	"time"

	"verif/harness/cmd/c11/lp"
	"verif/harness/h"
)

func op(t []string) string {
	if len(t) == 0 {
		return "bad-op"
	}
	switch t[0] {
	case "pp":
		return lp.OpPP(t)
	case "pk":
		return lp.OpPK(t)
	}
	return "bad-op"
}

func ppOp(r *h.Rand, buf string) string {
	return "pp " + h.Pick(r, lp.Precisions) + " " + strconv.FormatInt(h.Pick(r, lp.DefTimes), 10) + " " + h.HexS(buf)
}

func oneLine(r *h.Rand) string {
	switch r.Intn(10) {
	case 0, 1, 2:
		return lp.WellFormedLine(r, 0)
	case 3:
		return lp.WellFormedLine(r, 0.3)
	case 4, 5, 6:
		return lp.Mutate(r, lp.WellFormedLine(r, 0.05))
	case 7:
		return lp.RawBytes(r, 12)
	case 8:
		return h.Pick(r, []string{"", " ", "#comment", "  # c", "\t", "\x00", "#", "m", "m ", "m f", "m f=", "m f=1", ",", " ,", "=", "m,", "m,k", "m,k=", "m,k=v", "m,k=v ", "m,k=v f=1 1 1", "m f=1 1 ", "m f=1  ", "m  f=1", "m f=1,", "m f=1,,g=2", "m f=1, g=2", "m =1", "m a\\ =1", "m a\\,=1", "m ,=1"})
	default:
		return lp.WellFormedLine(r, 0.05)
	}
}

func gen(r *h.Rand, tier string, emit func([]string)) {
	cases := 160
	if tier == "thorough" {
		cases = 3000
	}
	// exhaustive key-length boundary sweep (always, both tiers): one case per field-key length
	for L := 1; L <= 8; L++ {
		var ops []string
		for _, l := range lp.KeyBoundaryLines(L) {
			ops = append(ops, "pp ns 1600000000123456789 "+h.HexS(l))
		}
		emit(ops)
	}
	for c := 0; c < cases; c++ {
		var ops []string
		for i := 0; i < 60; i++ {
			switch k := r.Intn(20); {
			case k < 11: // single line
				ops = append(ops, ppOp(r, oneLine(r)))
			case k < 15: // several lines
				n := 2 + r.Intn(4)
				var ls []string
				for j := 0; j < n; j++ {
					ls = append(ls, oneLine(r))
				}
				buf := strings.Join(ls, h.Pick(r, []string{"\n", "\n", "\n\n", "\r\n", " \n "}))
				if r.Chance(0.3) {
					buf += "\n"
				}
				ops = append(ops, ppOp(r, buf))
			case k < 17: // raw
				ops = append(ops, ppOp(r, lp.RawBytes(r, 30)))
			case k < 19: // ParseKeyBytes on key-like and raw bytes
				s := lp.WellFormedLine(r, 0.2)
				if i := strings.IndexByte(s, ' '); i > 0 && r.Chance(0.7) {
					s = s[:i]
				}
				if r.Chance(0.4) {
					s = lp.Mutate(r, s)
				}
				if r.Chance(0.2) {
					s = lp.RawBytes(r, 10)
				}
				ops = append(ops, "pk "+h.HexS(s))
			default:
				ops = append(ops, ppOp(r, lp.Mutate(r, lp.Mutate(r, lp.WellFormedLine(r, 0.1)))))
			}
		}
		if c%16 == 0 {
			ops = append(ops, ppOp(r, lp.LongKeyLines(r)))
		}
		emit(ops)
	}
}

func main() {
	h.Main(h.Harness{Gen: gen, NewCase: h.Stateless(op), OpTimeout: 20 * time.Second})
}
