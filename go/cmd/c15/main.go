// Harness for C15: drives the real tsdb.IndexSet.MeasurementSeriesByExprIterator
// over real tsi1 indexes (temp dir) sharing one real series file.
//
//	s <shard> <label> <name-hex> <tags>   Index.CreateSeriesIfNotExists on index #shard
//	d <label>                             SeriesFile.DeleteSeriesID
//	f <name-hex> <field-hex>              MeasurementFieldSet: create field
//	q <name-hex> <expr…>                  expression rendered as InfluxQL text, parsed by
//	                                      influxql.ParseExpr, evaluated, iterator drained
//
// Series ids are assigned by the series file; the harness maps them to the labels
// of the op lines so that answers do not depend on the id allocation.
package main

import (
	"fmt"
	"os"
	"path/filepath"
	"regexp"
	"runtime/pprof"
	"sort"
	"strconv"
	"strings"
	"time"

	"github.com/influxdata/influxdb/v2/models"
	"github.com/influxdata/influxdb/v2/tsdb"
	"github.com/influxdata/influxdb/v2/tsdb/index/tsi1"
	"github.com/influxdata/influxql"
	"verif/harness/h"
)

// ---------------------------------------------------------------- expression tokens

type node struct {
	kind string // and or eq ne re nre oth par T F num ref str rx
	l, r *node
	val  string // ref/str value, rx source
	typ  string // ref type u|t|a|o
	tbl  string // rx truth table token
}

func (n *node) toks() []string {
	switch n.kind {
	case "and", "or", "eq", "ne", "re", "nre", "oth":
		return append(append([]string{n.kind}, n.l.toks()...), n.r.toks()...)
	case "par":
		return append([]string{"par"}, n.l.toks()...)
	case "T", "F", "num":
		return []string{n.kind}
	case "ref":
		return []string{"ref", hx(n.val), n.typ}
	case "str":
		return []string{"str", hx(n.val)}
	case "rx":
		return []string{"rx", hx(n.val), n.tbl}
	}
	panic("bad node " + n.kind)
}

// hx: hex token; the empty string is written as "-" at top level.
func hx(s string) string { return h.HexS(s) }

func unhx(s string) string { return string(h.MustUnHex(s)) }

// shape: tokens without regex tables (for the parse self-check).
func (n *node) shape() string {
	switch n.kind {
	case "and", "or", "eq", "ne", "re", "nre", "oth":
		return "(" + n.kind + " " + n.l.shape() + " " + n.r.shape() + ")"
	case "par":
		return "(par " + n.l.shape() + ")"
	case "ref":
		return "ref:" + n.val + ":" + n.typ
	case "str":
		return "str:" + n.val
	case "rx":
		return "rx:" + n.val
	}
	return n.kind
}

func parseNode(t []string) (*node, []string) {
	if len(t) == 0 {
		panic("short expr")
	}
	switch t[0] {
	case "and", "or", "eq", "ne", "re", "nre", "oth":
		l, rest := parseNode(t[1:])
		r, rest := parseNode(rest)
		return &node{kind: t[0], l: l, r: r}, rest
	case "par":
		l, rest := parseNode(t[1:])
		return &node{kind: "par", l: l}, rest
	case "T", "F", "num":
		return &node{kind: t[0]}, t[1:]
	case "ref":
		return &node{kind: "ref", val: unhx(t[1]), typ: t[2]}, t[3:]
	case "str":
		return &node{kind: "str", val: unhx(t[1])}, t[2:]
	case "rx":
		return &node{kind: "rx", val: unhx(t[1]), tbl: t[2]}, t[3:]
	}
	panic("bad expr token " + t[0])
}

var opText = map[string]string{"and": "AND", "or": "OR", "eq": "=", "ne": "!=", "re": "=~", "nre": "!~", "oth": "<"}

// text renders the tree as InfluxQL source; parentheses only where a `par` node is.
func (n *node) text() string {
	switch n.kind {
	case "and", "or", "eq", "ne", "re", "nre", "oth":
		return n.l.text() + " " + opText[n.kind] + " " + n.r.text()
	case "par":
		return "(" + n.l.text() + ")"
	case "T":
		return "true"
	case "F":
		return "false"
	case "num":
		return "5"
	case "ref":
		s := influxql.QuoteIdent(n.val)
		switch n.typ {
		case "t":
			s += "::tag"
		case "a":
			s += "::field"
		case "o":
			s += "::float"
		}
		return s
	case "str":
		return influxql.QuoteString(n.val)
	case "rx":
		return "/" + strings.ReplaceAll(n.val, "/", `\/`) + "/"
	}
	panic("bad node")
}

// astShape renders a parsed influxql expression in the same shape notation.
func astShape(e influxql.Expr) string {
	switch e := e.(type) {
	case *influxql.BinaryExpr:
		k := "oth"
		switch e.Op {
		case influxql.AND:
			k = "and"
		case influxql.OR:
			k = "or"
		case influxql.EQ:
			k = "eq"
		case influxql.NEQ:
			k = "ne"
		case influxql.EQREGEX:
			k = "re"
		case influxql.NEQREGEX:
			k = "nre"
		}
		return "(" + k + " " + astShape(e.LHS) + " " + astShape(e.RHS) + ")"
	case *influxql.ParenExpr:
		return "(par " + astShape(e.Expr) + ")"
	case *influxql.BooleanLiteral:
		if e.Val {
			return "T"
		}
		return "F"
	case *influxql.VarRef:
		t := "o"
		switch e.Type {
		case influxql.Unknown:
			t = "u"
		case influxql.Tag:
			t = "t"
		case influxql.AnyField:
			t = "a"
		}
		return "ref:" + e.Val + ":" + t
	case *influxql.StringLiteral:
		return "str:" + e.Val
	case *influxql.RegexLiteral:
		return "rx:" + e.Val.String()
	}
	return "num"
}

// ---------------------------------------------------------------- case runner

type runner struct {
	dir     string
	sfile   *tsdb.SeriesFile
	fs      *tsdb.MeasurementFieldSet
	idx     []*tsi1.Index
	partN   uint64
	byLabel map[int64]string // label -> series key
	byKey   map[string]int64 // series key -> label
	byReal  map[uint64]int64 // real id -> label
	realOf  map[int64]uint64
	deleted map[int64]bool
	err     error
}

func newRunner() h.CaseRunner {
	r := &runner{byLabel: map[int64]string{}, byKey: map[string]int64{}, byReal: map[uint64]int64{},
		realOf: map[int64]uint64{}, deleted: map[int64]bool{}, partN: 1}
	dir, err := os.MkdirTemp("", "verif-c15-")
	if err != nil {
		r.err = err
		return r
	}
	r.dir = dir
	r.sfile = tsdb.NewSeriesFile(filepath.Join(dir, "_series"))
	if err := r.sfile.Open(); err != nil {
		r.err = err
		return r
	}
	fs, err := tsdb.NewMeasurementFieldSet(filepath.Join(dir, "fields.idx"), nil)
	if err != nil {
		r.err = err
		return r
	}
	r.fs = fs
	return r
}

// Close must not hang the whole run when the code under test leaks a file-set reference
// (Index.Close waits for every retained file): give up after a while.
func (r *runner) Close() {
	const closeTimeout = 15 * time.Second
	done := make(chan struct{})
	go func() { defer close(done); defer func() { recover() }(); r.closeNow() }()
	select {
	case <-done:
	case <-time.After(closeTimeout):
	}
}

func (r *runner) closeNow() {
	for _, ix := range r.idx {
		ix.Close()
	}
	if r.fs != nil {
		r.fs.Close()
	}
	if r.sfile != nil {
		r.sfile.Close()
	}
	if r.dir != "" {
		os.RemoveAll(r.dir)
	}
}

func (r *runner) shard(i int) (*tsi1.Index, error) {
	for len(r.idx) <= i {
		ix := tsi1.NewIndex(r.sfile, "db0", tsi1.WithPath(filepath.Join(r.dir, fmt.Sprintf("index%d", len(r.idx)))), tsi1.DisableFsync())
		ix.PartitionN = r.partN
		if err := ix.Open(); err != nil {
			return nil, err
		}
		ix.SetFieldSet(r.fs)
		r.idx = append(r.idx, ix)
	}
	return r.idx[i], nil
}

func parseTags(s string) (models.Tags, bool) {
	ok := true
	var tags models.Tags
	seen := map[string]bool{}
	for _, p := range h.Split(s) {
		kv := strings.Split(p, ":")
		if len(kv) != 2 {
			panic("bad tag pair " + p)
		}
		k, v := unhxE(kv[0]), unhxE(kv[1])
		if v == "" || seen[k] {
			ok = false
		}
		seen[k] = true
		tags = append(tags, models.NewTag([]byte(k), []byte(v)))
	}
	sort.Sort(tags)
	return tags, ok
}

func unhxE(s string) string {
	if s == "" {
		return ""
	}
	return unhx(s)
}

func (r *runner) Op(t []string) string {
	if r.err != nil {
		return "err:setup:" + strings.ReplaceAll(r.err.Error(), " ", "_")
	}
	switch {
	case len(t) == 5 && t[0] == "s":
		sh, err := strconv.Atoi(t[1])
		if err != nil || sh < 0 || sh >= 8 {
			return "bad-op"
		}
		label := h.Atoi(t[2])
		name := h.MustUnHex(t[3])
		tags, ok := parseTags(t[4])
		if !ok {
			return "rejected"
		}
		key := string(models.MakeKey(name, tags))
		if k, bound := r.byLabel[label]; bound && k != key {
			return "rejected"
		}
		if l, bound := r.byKey[key]; bound && l != label {
			return "err:key-has-other-label"
		}
		if r.deleted[label] {
			return "err:add-after-delete"
		}
		// the 9-bit option in t[1]? no: partition count is fixed per case by the first `s`
		ix, err := r.shard(sh)
		if err != nil {
			return "err:open"
		}
		if err := ix.CreateSeriesIfNotExists([]byte(key), name, tags); err != nil {
			return "err:create"
		}
		real := r.sfile.SeriesID(name, tags, nil)
		if real == 0 {
			return "err:no-id"
		}
		r.byLabel[label], r.byKey[key], r.byReal[real], r.realOf[label] = key, label, label, real
		return "ok"
	case len(t) == 2 && t[0] == "d":
		label := h.Atoi(t[1])
		if real, ok := r.realOf[label]; ok && !r.deleted[label] {
			if _, err := r.sfile.DeleteSeriesID(real, false); err != nil {
				return "err:delete"
			}
		}
		r.deleted[label] = true
		return "ok"
	case len(t) == 3 && t[0] == "f":
		name, field := h.MustUnHex(t[1]), unhx(t[2])
		if _, _, err := r.fs.CreateFieldsIfNotExists(name).CreateFieldIfNotExists(field, influxql.Float); err != nil {
			return "err:field"
		}
		return "ok"
	case len(t) == 2 && t[0] == "p":
		// partitions per index for the indexes created from now on (harness-only knob;
		// the model ignores it: answers `ok`)
		n := h.Atoi(t[1])
		if n != 1 && n != 2 && n != 4 && n != 8 {
			return "bad-op"
		}
		r.partN = uint64(n)
		return "ok"
	case len(t) >= 3 && t[0] == "q":
		name := h.MustUnHex(t[1])
		n, rest := parseNode(t[2:])
		if len(rest) != 0 {
			return "bad-op"
		}
		expr, err := influxql.ParseExpr(n.text())
		if err != nil {
			return "err:parse"
		}
		if astShape(expr) != n.shape() {
			return "err:tree-mismatch"
		}
		is := tsdb.IndexSet{SeriesFile: r.sfile}
		for _, ix := range r.idx {
			is.Indexes = append(is.Indexes, ix)
		}
		itr, err := is.MeasurementSeriesByExprIterator(name, expr)
		if err != nil {
			return "err"
		}
		var labels []int64
		if itr != nil {
			defer itr.Close()
			for {
				e, err := itr.Next()
				if err != nil {
					return "err"
				}
				if e.SeriesID == 0 {
					break
				}
				l, ok := r.byReal[e.SeriesID]
				if !ok {
					return "err:unknown-id"
				}
				labels = append(labels, l)
			}
		}
		sort.Slice(labels, func(i, j int) bool { return labels[i] < labels[j] })
		return "ids " + h.Ints(labels)
	}
	return "bad-op"
}

// ---------------------------------------------------------------- generator

var (
	tagKeys   = []string{"k1", "k2"}
	regexSrcs = []string{"^a", ".*", "^$", "a|", "b", "^(a|b)$", ".+", "x", "^m", "a$", "[02]$"}
)

type genCtx struct {
	r      *h.Rand
	values []string // tag values in use
	names  []string // measurement names
	dom    []string // every string a regex may be applied to
	tables map[string]string
}

func newGenCtx(r *h.Rand, values []string) *genCtx {
	g := &genCtx{r: r, values: values, names: []string{"m0", "m1", "m2", "m3", "zz"}, tables: map[string]string{}}
	g.dom = append([]string{""}, values...)
	g.dom = append(g.dom, g.names...)
	for _, src := range regexSrcs {
		re := regexp.MustCompile(src)
		var parts []string
		for _, v := range g.dom {
			hv := ""
			if v != "" {
				hv = hx(v)
			}
			parts = append(parts, hv+":"+h.B(re.MatchString(v)))
		}
		g.tables[src] = strings.Join(parts, ",")
	}
	return g
}

func ref(k, typ string) *node  { return &node{kind: "ref", val: k, typ: typ} }
func str(v string) *node       { return &node{kind: "str", val: v} }
func (g *genCtx) rx(src string) *node {
	return &node{kind: "rx", val: src, tbl: g.tables[src]}
}
func bin(k string, l, r *node) *node { return &node{kind: k, l: l, r: r} }
func par(e *node) *node              { return &node{kind: "par", l: e} }

// atoms: every comparison of the property's grammar over the small domain.
func (g *genCtx) atoms() []*node {
	var out []*node
	keys := append(append([]string{}, tagKeys...), "k3")
	svals := append([]string{""}, g.values...)
	svals = append(svals, "z")
	for _, k := range keys {
		for _, op := range []string{"eq", "ne"} {
			for _, v := range svals {
				out = append(out, bin(op, ref(k, "u"), str(v)))
			}
		}
		// operands swapped, typed reference
		out = append(out, bin("eq", str(g.values[0]), ref(k, "u")), bin("ne", str(""), ref(k, "t")),
			bin("eq", ref(k, "t"), str(g.values[len(g.values)-1])))
		for _, op := range []string{"re", "nre"} {
			for _, src := range regexSrcs {
				out = append(out, bin(op, ref(k, "u"), g.rx(src)))
			}
		}
	}
	for _, op := range []string{"eq", "ne"} {
		for _, v := range []string{"m0", "m1", ""} {
			out = append(out, bin(op, ref("_name", "u"), str(v)))
		}
	}
	for _, op := range []string{"re", "nre"} {
		for _, src := range []string{"^m", ".*", "^$", "x", "[02]$"} {
			out = append(out, bin(op, ref("_name", "u"), g.rx(src)))
		}
	}
	return out
}

func isAndOr(n *node) bool { return n.kind == "and" || n.kind == "or" }

// combine builds `l op r` inserting the parentheses InfluxQL needs to parse back to
// this very tree (AND binds tighter than OR; both associate to the left), and
// sometimes redundant ones.
func (g *genCtx) combine(op string, l, r *node) *node {
	if isAndOr(l) && ((op == "and" && l.kind == "or") || g.r.Chance(0.3)) {
		l = par(l)
	}
	if isAndOr(r) && !(op == "or" && r.kind == "and" && g.r.Chance(0.7)) {
		r = par(r)
	}
	if !isAndOr(r) && r.kind != "par" && g.r.Chance(0.1) {
		r = par(r)
	}
	return bin(op, l, r)
}

func (g *genCtx) tree(atoms []*node, depth int) *node {
	if depth <= 1 || g.r.Chance(0.15) {
		return h.Pick(g.r, atoms)
	}
	op := "and"
	if g.r.Bool() {
		op = "or"
	}
	return g.combine(op, g.tree(atoms, depth-1), g.tree(atoms, depth-1))
}

// outside: expressions outside the property's grammar (model-compared, not judged).
func (g *genCtx) outside(atoms []*node) []*node {
	a := h.Pick(g.r, atoms)
	return []*node{
		bin("eq", ref("k1", "u"), ref("k2", "u")),
		bin("ne", ref("k1", "t"), ref("k2", "u")),
		bin("eq", ref("k1", "u"), ref("f1", "u")),
		bin("eq", ref("f1", "u"), str("a")),
		bin("eq", ref("k1", "a"), str("a")),
		bin("ne", ref("k1", "o"), str("a")),
		bin("eq", ref("k1", "u"), &node{kind: "num"}),
		bin("oth", ref("k1", "u"), str("a")),
		bin("oth", ref("_name", "u"), str("m0")),
		{kind: "T"}, {kind: "F"},
		bin("and", &node{kind: "T"}, a),
		bin("or", &node{kind: "F"}, a),
		bin("and", a, bin("eq", ref("k1", "u"), ref("k2", "u"))),
		bin("eq", par(ref("k1", "u")), str("a")),
	}
}

func tagsTok(kv [][2]string) string {
	var parts []string
	for _, p := range kv {
		parts = append(parts, hx(p[0])+":"+hx(p[1]))
	}
	return h.Join(parts)
}

// tagSets: every assignment of {absent} ∪ values to the keys.
func tagSets(values []string) [][][2]string {
	out := [][][2]string{{}}
	for _, k := range tagKeys {
		var next [][][2]string
		for _, base := range out {
			next = append(next, base)
			for _, v := range values {
				ts := append(append([][2]string{}, base...), [2]string{k, v})
				next = append(next, ts)
			}
		}
		out = next
	}
	return out
}

// perCase measurements share one index set: the evaluation is per measurement, so
// each measurement carries its own series set (and is noise for the others).
const perCase = 4

func gen(r *h.Rand, tier string, emit func([]string)) {
	values := []string{"a", "b"}
	g := newGenCtx(r, values)
	sets := tagSets(values) // 9 tag sets
	atoms := g.atoms()
	nDepth2, nDepth3 := 40, 20
	if tier == "thorough" {
		nDepth2, nDepth3 = 400, 150
	}
	// every subset of the 9 possible series of a measurement, perCase subsets per case
	nMasks := 1 << len(sets)
	order := make([]int, nMasks) // which subsets meet in a case depends on the seed
	for i := range order {
		order[i] = i
	}
	for i := nMasks - 1; i > 0; i-- {
		j := r.Intn(i + 1)
		order[i], order[j] = order[j], order[i]
	}
	for c := 0; c < nMasks/perCase; c++ {
		var ops []string
		if r.Chance(0.2) {
			ops = append(ops, "p "+strconv.Itoa(h.Pick(r, []int{2, 8})))
		}
		nsh := 1
		if r.Chance(0.6) {
			nsh = 2 + r.Intn(2)
		}
		labels := map[int][]int{}
		var adds []string
		for j := 0; j < perCase; j++ {
			mask := order[c*perCase+j]
			name := g.names[j]
			for i, ts := range sets {
				if mask&(1<<i) == 0 {
					continue
				}
				l := 16*j + i + 1
				labels[j] = append(labels[j], l)
				sh := r.Intn(nsh)
				adds = append(adds, fmt.Sprintf("s %d %d %s %s", sh, l, hx(name), tagsTok(ts)))
				if nsh > 1 && r.Chance(0.25) { // the same series in a second index
					adds = append(adds, fmt.Sprintf("s %d %d %s %s", (sh+1)%nsh, l, hx(name), tagsTok(ts)))
				}
			}
		}
		// interleave the measurements' series
		for i := len(adds) - 1; i > 0; i-- {
			k := r.Intn(i + 1)
			adds[i], adds[k] = adds[k], adds[i]
		}
		ops = append(ops, adds...)
		for j := 0; j < perCase; j++ {
			if r.Chance(0.3) {
				ops = append(ops, "f "+hx(g.names[j])+" "+hx("f1"))
			}
			if r.Chance(0.15) {
				ops = append(ops, "f "+hx(g.names[j])+" "+hx("k3"))
			}
			if r.Chance(0.1) {
				ops = append(ops, "f "+hx(g.names[j])+" "+hx("k1")) // a tag key that is also a field
			}
		}
		for j := 0; j < perCase; j++ {
			name := g.names[j]
			q := func(n *node) {
				nm := name
				if r.Chance(0.03) {
					nm = "zz" // a measurement without series
				}
				ops = append(ops, "q "+hx(nm)+" "+strings.Join(n.toks(), " "))
			}
			delAt := -1
			if len(labels[j]) > 0 && r.Chance(0.35) {
				delAt = r.Intn(len(atoms))
			}
			for i, a := range atoms {
				if i == delAt {
					ops = append(ops, "d "+strconv.Itoa(h.Pick(r, labels[j])))
				}
				q(a)
			}
			for i := 0; i < nDepth2; i++ {
				q(g.tree(atoms, 2))
			}
			for i := 0; i < nDepth3; i++ {
				q(g.tree(atoms, 3+r.Intn(2)))
			}
			for _, n := range g.outside(atoms) {
				if r.Chance(0.5) {
					q(n)
				}
			}
		}
		emit(ops)
	}
	// thorough: a larger value domain (3 values: 16 tag sets), sampled series sets
	if tier == "thorough" {
		values3 := []string{"a", "b", "ab"}
		g3 := newGenCtx(r, values3)
		sets3 := tagSets(values3)
		atoms3 := g3.atoms()
		for c := 0; c < 600; c++ {
			var ops []string
			nsh := 1 + r.Intn(3)
			for j := 0; j < perCase; j++ {
				for i, ts := range sets3 {
					if r.Bool() {
						ops = append(ops, fmt.Sprintf("s %d %d %s %s", r.Intn(nsh), 32*j+i+1, hx(g3.names[j]), tagsTok(ts)))
					}
				}
			}
			for j := 0; j < perCase; j++ {
				for i := 0; i < 200; i++ {
					ops = append(ops, "q "+hx(g3.names[j])+" "+strings.Join(g3.tree(atoms3, 1+r.Intn(4)).toks(), " "))
				}
			}
			emit(ops)
		}
	}
}

func main() {
	if p := os.Getenv("VERIF_C15_PROF"); p != "" {
		f, _ := os.Create(p)
		pprof.StartCPUProfile(f)
		defer pprof.StopCPUProfile()
	}
	h.Main(h.Harness{Gen: gen, NewCase: newRunner, OpTimeout: 5 * time.Minute})
}
