// Harness for C09: drives the real tsm1.Cache, sequentially and with recorded
// concurrent histories.
//
// ops (see lean/Influx/Drv/C09.lean):
//
//	new <maxSize> | write <hexkey>=<t>:<f|i|u|b|s>:<payload>,… … | snapshot | clear <0|1>
//	delrange <hexkey,…|-> <min> <max> | values <hexkey> | size | count | dedup
//	conc <op> ; <op> | <op> ; … [ || <op> ; <op> ]     threads separated by `|`, ops by `;`,
//	                                                   a sequential tail after `||`
package main

import (
	"errors"
	"fmt"
	"math"
	"sort"
	"strconv"
	"strings"
	"sync"
	"sync/atomic"
	"time"

	"github.com/influxdata/influxdb/v2/tsdb"
	"github.com/influxdata/influxdb/v2/tsdb/engine/tsm1"
	"verif/harness/h"
)

type runner struct {
	c         *tsm1.Cache
	snapTaken atomic.Bool
	// emu plays the role of Engine.mu: WritePoints holds it shared around Cache.WriteMulti,
	// WriteSnapshot holds it exclusively around Cache.Snapshot.  Without it a WriteMulti
	// that fetched c.store before the swap writes into the (read-only) snapshot store and
	// its size lands on the wrong counter (observed: `snap 48 2` for 64 bytes held).
	emu sync.RWMutex
}

func newRunner(max uint64) *runner {
	return &runner{c: tsm1.NewCache(max, tsdb.EngineTags{Path: "verif", WalPath: "verif", Id: "c09", Bucket: "b", EngineVersion: "tsm1"})}
}

func canonHex(s string) ([]byte, bool) {
	b, err := h.UnHex(s)
	if err != nil || h.Hex(b) != s {
		return nil, false
	}
	return b, true
}

func parseValue(s string) (tsm1.Value, bool) {
	p := strings.Split(s, ":")
	if len(p) != 3 {
		return nil, false
	}
	t, err := strconv.ParseInt(p[0], 10, 64)
	if err != nil || strconv.FormatInt(t, 10) != p[0] {
		return nil, false
	}
	switch p[1] {
	case "f":
		if len(p[2]) != 16 {
			return nil, false
		}
		bits, err := strconv.ParseUint(p[2], 16, 64)
		if err != nil || h.Hex64(bits) != p[2] {
			return nil, false
		}
		return tsm1.NewFloatValue(t, math.Float64frombits(bits)), true
	case "i":
		v, err := strconv.ParseInt(p[2], 10, 64)
		if err != nil || strconv.FormatInt(v, 10) != p[2] {
			return nil, false
		}
		return tsm1.NewIntegerValue(t, v), true
	case "u":
		v, err := strconv.ParseUint(p[2], 10, 64)
		if err != nil || strconv.FormatUint(v, 10) != p[2] {
			return nil, false
		}
		return tsm1.NewUnsignedValue(t, v), true
	case "b":
		if p[2] != "0" && p[2] != "1" {
			return nil, false
		}
		return tsm1.NewBooleanValue(t, p[2] == "1"), true
	case "s":
		b, ok := canonHex(p[2])
		if !ok {
			return nil, false
		}
		return tsm1.NewStringValue(t, string(b)), true
	}
	return nil, false
}

func showValue(v tsm1.Value) string {
	t := strconv.FormatInt(v.UnixNano(), 10)
	switch x := v.Value().(type) {
	case float64:
		return t + ":f:" + h.Hex64(math.Float64bits(x))
	case int64:
		return t + ":i:" + strconv.FormatInt(x, 10)
	case uint64:
		return t + ":u:" + strconv.FormatUint(x, 10)
	case bool:
		return t + ":b:" + h.B(x)
	case string:
		return t + ":s:" + h.HexS(x)
	}
	return t + ":?:?"
}

func showValues(vs tsm1.Values) string {
	if len(vs) == 0 {
		return "-"
	}
	out := make([]string, len(vs))
	for i, v := range vs {
		out[i] = showValue(v)
	}
	return strings.Join(out, ",")
}

type kv struct {
	k  string
	vs []tsm1.Value
}

// parsed operation (parsing happens before any concurrency starts)
type op struct {
	kind    string
	max     uint64
	batch   []kv
	success bool
	keys    [][]byte
	min     int64
	maxT    int64
	key     []byte
}

func parseOp(t []string) (op, bool) {
	var o op
	if len(t) == 0 {
		return o, false
	}
	o.kind = t[0]
	switch {
	case t[0] == "new" && len(t) == 2:
		m, err := strconv.ParseUint(t[1], 10, 64)
		if err != nil {
			return o, false
		}
		o.max = m
		return o, true
	case t[0] == "write":
		seen := map[string]bool{}
		for _, tok := range t[1:] {
			p := strings.Split(tok, "=")
			if len(p) != 2 || p[1] == "-" {
				return o, false
			}
			k, ok := canonHex(p[0])
			if !ok || seen[string(k)] {
				return o, false
			}
			seen[string(k)] = true
			var vs []tsm1.Value
			if p[1] != "" {
				for _, vt := range strings.Split(p[1], ",") {
					v, ok := parseValue(vt)
					if !ok {
						return o, false
					}
					vs = append(vs, v)
				}
			}
			o.batch = append(o.batch, kv{string(k), vs})
		}
		return o, true
	case t[0] == "snapshot" && len(t) == 1, t[0] == "size" && len(t) == 1, t[0] == "count" && len(t) == 1, t[0] == "dedup" && len(t) == 1:
		return o, true
	case t[0] == "clear" && len(t) == 2 && (t[1] == "0" || t[1] == "1"):
		o.success = t[1] == "1"
		return o, true
	case t[0] == "delrange" && len(t) == 4:
		for _, ks := range h.Split(t[1]) {
			k, ok := canonHex(ks)
			if !ok {
				return o, false
			}
			o.keys = append(o.keys, k)
		}
		mn, e1 := strconv.ParseInt(t[2], 10, 64)
		mx, e2 := strconv.ParseInt(t[3], 10, 64)
		if e1 != nil || e2 != nil || strconv.FormatInt(mn, 10) != t[2] || strconv.FormatInt(mx, 10) != t[3] {
			return o, false
		}
		o.min, o.maxT = mn, mx
		return o, true
	case t[0] == "values" && len(t) == 2:
		k, ok := canonHex(t[1])
		if !ok {
			return o, false
		}
		o.key = k
		return o, true
	}
	return o, false
}

func (r *runner) exec(o op) string {
	switch o.kind {
	case "new":
		nr := newRunner(o.max)
		r.c = nr.c
		r.snapTaken.Store(false)
		return "ok"
	case "write":
		m := make(map[string][]tsm1.Value, len(o.batch))
		for _, e := range o.batch {
			// WriteMulti keeps the slice it is given: hand it a private copy
			m[e.k] = append([]tsm1.Value(nil), e.vs...)
		}
		r.emu.RLock()
		err := r.c.WriteMulti(m)
		r.emu.RUnlock()
		switch {
		case err == nil:
			return "ok"
		case errors.Is(err, tsdb.ErrFieldTypeConflict):
			return "err-conflict"
		case strings.HasPrefix(err.Error(), "cache-max-memory-size exceeded: ("):
			var n, lim uint64
			if _, e := fmt.Sscanf(err.Error(), "cache-max-memory-size exceeded: (%d/%d)", &n, &lim); e == nil {
				return fmt.Sprintf("err-limit %d", n)
			}
		}
		return "err-other"
	case "snapshot":
		r.emu.Lock()
		defer r.emu.Unlock()
		s, err := r.c.Snapshot()
		if err != nil {
			if errors.Is(err, tsm1.ErrSnapshotInProgress) {
				return "err-in-progress"
			}
			return "err-other"
		}
		r.snapTaken.Store(true)
		return fmt.Sprintf("snap %d %d", s.Size(), s.Count())
	case "clear":
		if !r.snapTaken.Load() {
			// Cache.ClearSnapshot dereferences c.snapshot (nil) while holding c.mu.RLock:
			// a precondition violation that would wedge the cache; not executed
			return "refused"
		}
		r.c.ClearSnapshot(o.success)
		return "ok"
	case "delrange":
		r.c.DeleteRange(o.keys, o.min, o.maxT)
		return "ok"
	case "values":
		return "vals " + showValues(r.c.Values(o.key))
	case "size":
		return fmt.Sprintf("num %d", r.c.Size())
	case "count":
		return fmt.Sprintf("num %d", r.c.Count())
	case "dedup":
		r.c.Deduplicate()
		return "ok"
	}
	return "bad-op"
}

func splitOn(t []string, sep string) [][]string {
	var out [][]string
	cur := []string{}
	for _, x := range t {
		if x == sep {
			out = append(out, cur)
			cur = []string{}
		} else {
			cur = append(cur, x)
		}
	}
	return append(out, cur)
}

type event struct {
	seq  int64
	text string
}

// conc: run the threads concurrently on the real cache, record the history
func (r *runner) conc(t []string) string {
	parts := splitOn(t, "||")
	if len(parts) > 2 {
		return "bad-op"
	}
	var threads [][]op
	for _, th := range splitOn(parts[0], "|") {
		var ops []op
		for _, ot := range splitOn(th, ";") {
			o, ok := parseOp(ot)
			if !ok || o.kind == "new" || o.kind == "conc" {
				return "bad-op"
			}
			ops = append(ops, o)
		}
		threads = append(threads, ops)
	}
	var tail []op
	if len(parts) == 2 {
		for _, ot := range splitOn(parts[1], ";") {
			o, ok := parseOp(ot)
			if !ok || o.kind == "new" {
				return "bad-op"
			}
			tail = append(tail, o)
		}
	}
	if len(threads) > 8 {
		return "bad-op"
	}
	var clock atomic.Int64
	evs := make([][]event, len(threads)+1)
	var wg sync.WaitGroup
	start := make(chan struct{})
	// a spinning barrier before every round of ops, so that the k-th ops of all
	// threads are invoked at (nearly) the same moment
	rounds := 0
	for _, ops := range threads {
		if len(ops) > rounds {
			rounds = len(ops)
		}
	}
	arrived := make([]atomic.Int32, rounds)
	nth := int32(len(threads))
	for ti, ops := range threads {
		wg.Add(1)
		go func(ti int, ops []op) {
			defer wg.Done()
			<-start
			for k := 0; k < rounds; k++ {
				arrived[k].Add(1)
				// wait (bounded) until every thread is at this round; the first round has
				// to wait for the scheduler to start the other goroutines
				// (pure spinning keeps this goroutine on its P, so the others must run on other Ps)
				for dl := time.Now().Add(30 * time.Millisecond); arrived[k].Load() < nth && time.Now().Before(dl); {
				}
				if k >= len(ops) {
					continue
				}
				o := ops[k]
				inv := clock.Add(1)
				ans := r.exec(o)
				ret := clock.Add(1)
				evs[ti] = append(evs[ti], event{inv, fmt.Sprintf("I%d.%d", ti, k)},
					event{ret, fmt.Sprintf("R%d.%d/%s", ti, k, strings.ReplaceAll(ans, " ", "~"))})
			}
		}(ti, ops)
	}
	close(start)
	wg.Wait()
	for k, o := range tail {
		inv := clock.Add(1)
		ans := r.exec(o)
		ret := clock.Add(1)
		ti := len(threads)
		evs[ti] = append(evs[ti], event{inv, fmt.Sprintf("I%d.%d", ti, k)},
			event{ret, fmt.Sprintf("R%d.%d/%s", ti, k, strings.ReplaceAll(ans, " ", "~"))})
	}
	var all []event
	for _, e := range evs {
		all = append(all, e...)
	}
	sort.Slice(all, func(i, j int) bool { return all[i].seq < all[j].seq })
	out := make([]string, len(all))
	for i, e := range all {
		out[i] = e.text
	}
	return "hist " + strings.Join(out, ";")
}

func (r *runner) Op(t []string) string {
	if len(t) > 0 && t[0] == "conc" {
		return r.conc(t[1:])
	}
	o, ok := parseOp(t)
	if !ok {
		return "bad-op"
	}
	return r.exec(o)
}

func (r *runner) Close() {}

// ---------------------------------------------------------------- generator

var keyPool = [][]byte{[]byte("k"), []byte("cpu,host=a#!~#v"), []byte("m"), []byte("mem,h=b#!~#used"), {}}
var tyOf = []string{"f", "i", "s", "b", "u"}

func genValue(r *h.Rand, ty string, tmax int64) string {
	var t int64
	switch x := r.Intn(40); {
	case x == 0:
		t = math.MinInt64
	case x == 1:
		t = math.MaxInt64
	case x == 2:
		t = -1 - int64(r.Intn(5))
	default:
		t = int64(r.Intn(int(tmax)))
	}
	var p string
	switch ty {
	case "f":
		p = h.Hex64(math.Float64bits(h.Pick(r, []float64{0, 1, -1, 1.5, 2.25, 1e300, math.Inf(1)})))
		if r.Chance(0.1) {
			p = h.Hex64(r.Uint64())
		}
	case "i":
		p = strconv.FormatInt(h.Pick(r, []int64{0, 1, -1, 42, math.MaxInt64, math.MinInt64, 7}), 10)
	case "u":
		p = strconv.FormatUint(h.Pick(r, []uint64{0, 1, 42, math.MaxUint64, 7}), 10)
	case "b":
		p = h.B(r.Bool())
	case "s":
		p = h.HexS(h.Pick(r, []string{"", "a", "hello", "0123456789abcdef", "x y"}))
	}
	return strconv.FormatInt(t, 10) + ":" + ty + ":" + p
}

func genBatch(r *h.Rand, nkeys int, conflict float64, tmax int64, maxVals int) string {
	n := 1 + r.Intn(3)
	perm := []int{0, 1, 2, 3, 4}
	for i := len(perm) - 1; i > 0; i-- {
		j := r.Intn(i + 1)
		perm[i], perm[j] = perm[j], perm[i]
	}
	var toks []string
	for _, ki := range perm {
		if ki >= nkeys || len(toks) >= n {
			continue
		}
		ty := tyOf[ki%len(tyOf)]
		if r.Chance(conflict) {
			ty = h.Pick(r, tyOf)
		}
		nv := 1 + r.Intn(maxVals)
		vs := make([]string, nv)
		for i := range vs {
			vt := ty
			if r.Chance(conflict / 3) {
				vt = h.Pick(r, tyOf)
			}
			vs[i] = genValue(r, vt, tmax)
		}
		toks = append(toks, h.Hex(keyPool[ki])+"="+strings.Join(vs, ","))
	}
	return "write " + strings.Join(toks, " ")
}

func genRange(r *h.Rand, tmax int64) (string, string) {
	switch r.Intn(8) {
	case 0:
		return strconv.FormatInt(math.MinInt64, 10), strconv.FormatInt(math.MaxInt64, 10)
	case 1:
		return strconv.FormatInt(math.MinInt64, 10), strconv.FormatInt(int64(r.Intn(int(tmax))), 10)
	case 2:
		return strconv.FormatInt(int64(r.Intn(int(tmax))), 10), strconv.FormatInt(math.MaxInt64, 10)
	case 3: // empty range
		return "5", "4"
	}
	a, b := int64(r.Intn(int(tmax))), int64(r.Intn(int(tmax)))
	if a > b {
		a, b = b, a
	}
	return strconv.FormatInt(a, 10), strconv.FormatInt(b, 10)
}

func genKeys(r *h.Rand, nkeys int) string {
	n := 1 + r.Intn(2)
	ks := make([]string, n)
	for i := range ks {
		ks[i] = h.Hex(keyPool[r.Intn(nkeys)])
	}
	return strings.Join(ks, ",")
}

func seqOp(r *h.Rand, nkeys int, conflict float64, tmax int64) string {
	switch x := r.Intn(100); {
	case x < 42:
		return genBatch(r, nkeys, conflict, tmax, 5)
	case x < 64:
		return "values " + h.Hex(keyPool[r.Intn(nkeys)])
	case x < 71:
		return "snapshot"
	case x < 78:
		return "clear " + h.B(r.Chance(0.7))
	case x < 88:
		mn, mx := genRange(r, tmax)
		return "delrange " + genKeys(r, nkeys) + " " + mn + " " + mx
	case x < 96:
		return "size"
	case x < 98:
		return "count"
	default:
		return "dedup"
	}
}

func gen(r *h.Rand, tier string, emit func([]string)) {
	nSeq, nConc, nRace := 2500, 600, 2500
	if tier == "thorough" {
		nSeq, nConc, nRace = 40000, 20000, 40000
	}
	k, cpu := h.Hex(keyPool[0]), h.Hex(keyPool[1])
	// fixed scenarios
	emit([]string{ // DESIGN §6 F4: two writes at one timestamp, a read, the size stays
		"write " + k + "=1:f:3ff0000000000000", "write " + k + "=1:f:4000000000000000", "size", "values " + k, "size",
		"delrange " + k + " " + strconv.FormatInt(math.MinInt64, 10) + " " + strconv.FormatInt(math.MaxInt64, 10), "size", "count"})
	emit([]string{ // limit
		"new 40", "write " + k + "=1:f:3ff0000000000000", "size", "write " + k + "=2:f:3ff0000000000000", "write " + k + "=2:f:3ff0000000000000,3:f:3ff0000000000000", "values " + k, "size"})
	emit([]string{ // type conflict rejects that key only
		"write " + k + "=1:f:3ff0000000000000", "write " + k + "=2:i:5 " + cpu + "=2:i:5", "values " + k, "values " + cpu, "size"})
	emit([]string{ // snapshot, hot wins, failed and successful clear
		"write " + k + "=1:f:3ff0000000000000,2:f:3ff0000000000000", "snapshot", "snapshot", "write " + k + "=2:f:4000000000000000", "values " + k, "size",
		"clear 0", "snapshot", "values " + k, "clear 1", "values " + k, "size", "snapshot", "clear 1", "size", "clear 0"})
	// 1. sequential histories
	for c := 0; c < nSeq; c++ {
		var ops []string
		nkeys := 1 + r.Intn(len(keyPool))
		conflict := 0.0
		if r.Chance(0.4) {
			conflict = 0.15
		}
		tmax := int64(4 + r.Intn(20))
		if r.Chance(0.35) {
			ops = append(ops, "new "+strconv.Itoa(h.Pick(r, []int{0, 1, 30, 64, 100, 200, 400, 1000})))
		}
		n := 4 + r.Intn(30)
		for i := 0; i < n; i++ {
			ops = append(ops, seqOp(r, nkeys, conflict, tmax))
		}
		for ki := 0; ki < nkeys; ki++ {
			ops = append(ops, "values "+h.Hex(keyPool[ki]))
		}
		ops = append(ops, "size", "count")
		emit(ops)
	}
	// 2. concurrent histories: a sequential prefix, then 2-3 threads of 1-3 ops, then quiescent reads
	for c := 0; c < nConc; c++ {
		var ops []string
		nkeys := 1 + r.Intn(3)
		tmax := int64(4 + r.Intn(8))
		n := r.Intn(6)
		hasSnap := false
		for i := 0; i < n; i++ {
			o := seqOp(r, nkeys, 0, tmax)
			if o == "size" || o == "count" {
				continue
			}
			if o == "snapshot" {
				hasSnap = true
			}
			ops = append(ops, o)
		}
		nth := 2 + r.Intn(2)
		var ths []string
		for t := 0; t < nth; t++ {
			m := 1 + r.Intn(3)
			var tops []string
			for i := 0; i < m; i++ {
				var o string
				switch x := r.Intn(100); {
				case x < 45:
					o = genBatch(r, nkeys, 0, tmax, 3)
				case x < 70:
					o = "values " + h.Hex(keyPool[r.Intn(nkeys)])
				case x < 85:
					mn, mx := genRange(r, tmax)
					o = "delrange " + genKeys(r, nkeys) + " " + mn + " " + mx
				case t != 0:
					// Snapshot / ClearSnapshot have one caller in the engine (WriteSnapshot, one
					// cycle at a time): only thread 0 issues them; the other threads write instead
					o = genBatch(r, nkeys, 0, tmax, 3)
				case x < 93:
					o = "snapshot"
				default:
					// ClearSnapshot needs a snapshot object: only when the prefix has taken one
					if hasSnap {
						o = "clear " + h.B(r.Chance(0.7))
					} else {
						o = "snapshot"
					}
				}
				tops = append(tops, o)
			}
			ths = append(ths, strings.Join(tops, " ; "))
		}
		var tail []string
		for ki := 0; ki < nkeys; ki++ {
			tail = append(tail, "values "+h.Hex(keyPool[ki]))
		}
		tail = append(tail, "count")
		ops = append(ops, "conc "+strings.Join(ths, " | ")+" || "+strings.Join(tail, " ; "))
		emit(ops)
	}
	// 2b. targeted race (finding lost-write-racing-delete): a write racing a range delete
	// that empties the entry of the same key
	for c := 0; c < nRace; c++ {
		t0 := int64(r.Intn(40))
		w := fmt.Sprintf("write %s=%d:f:%s", k, t0+100+int64(r.Intn(5)), h.Hex64(r.Uint64()))
		d := fmt.Sprintf("delrange %s %d %d", k, t0, t0+50)
		ths := []string{w, d}
		if r.Bool() {
			ths = []string{d, w}
		}
		if r.Chance(0.3) {
			ths = append(ths, "values "+k)
		}
		emit([]string{fmt.Sprintf("write %s=%d:f:3ff0000000000000", k, t0+int64(r.Intn(50))),
			"conc " + strings.Join(ths, " | ") + " || values " + k + " ; size ; count"})
	}
	// 3. malformed lines
	emit([]string{"write", "write 6b", "write 6b=1:f:1", "write 6b=1:x:1", "write 6B=1:i:1", "write 6b=1:i:01", "write 6b=1:i:1 6b=2:i:1",
		"values", "values zz", "delrange 6b 1", "clear 2", "new -1", "snapshot now", "write 6b=-", "conc new 1", "frob"})
}

func main() {
	h.Main(h.Harness{Gen: gen, NewCase: func() h.CaseRunner { return newRunner(0) }, OpTimeout: 120 * time.Second})
}
