// Harness for C21: drives the real storage/reads result sets
// (reads.NewFilteredResultSet, reads.NewGroupResultSet → multiShardArrayCursors,
// *MultiShardArrayCursor, *ArrayFilterCursor, groupBySort/groupNoneSort) over a mock
// series cursor and mock per-shard cursor iterators (package rmock).
package main

import (
	"context"
	"fmt"
	"math"
	"sort"
	"strconv"
	"strings"

	"github.com/influxdata/influxdb/v2/models"
	"github.com/influxdata/influxdb/v2/storage/reads"
	"github.com/influxdata/influxdb/v2/storage/reads/datatypes"
	"github.com/influxdata/influxdb/v2/tsdb/cursors"
	"github.com/influxdata/influxql"
	"verif/harness/cmd/c20/rmock"
	"verif/harness/h"
)

type rowDef struct {
	tags   models.Tags
	cond   influxql.Expr
	shards []rmock.Shard
}

type caseState struct{ rows []rowDef }

func (c *caseState) Close() {}

func parseTags(s string) (models.Tags, bool) {
	if s == "-" {
		return nil, true
	}
	var out models.Tags
	for _, kv := range strings.Split(s, "+") {
		p := strings.Split(kv, ":")
		if len(p) != 2 || p[0] == "" {
			return nil, false
		}
		k, e1 := h.UnHex(p[0])
		var v []byte
		var e2 error
		if p[1] != "" {
			v, e2 = h.UnHex(p[1])
		} else {
			v = []byte{}
		}
		if e1 != nil || e2 != nil || p[0] != strings.ToLower(p[0]) || p[1] != strings.ToLower(p[1]) {
			return nil, false
		}
		out = append(out, models.Tag{Key: k, Value: v})
	}
	return out, true
}

func showTags(t models.Tags) string {
	if len(t) == 0 {
		return "-"
	}
	var ss []string
	for _, kv := range t {
		v := ""
		if len(kv.Value) > 0 {
			v = h.Hex(kv.Value)
		}
		ss = append(ss, h.Hex(kv.Key)+":"+v)
	}
	return strings.Join(ss, "+")
}

var cmpOps = map[string]influxql.Token{"eq": influxql.EQ, "ne": influxql.NEQ, "lt": influxql.LT, "le": influxql.LTE, "gt": influxql.GT, "ge": influxql.GTE}

func parseCond(s string) (influxql.Expr, bool) {
	if s == "-" {
		return nil, true
	}
	p := strings.Split(s, ":")
	if len(p) != 2 {
		return nil, false
	}
	op, ok := cmpOps[p[0]]
	if !ok {
		return nil, false
	}
	v := rmock.ParseVal(p[1])
	var lit influxql.Expr
	switch v.Typ {
	case 'f':
		lit = &influxql.NumberLiteral{Val: v.F}
	case 'i':
		lit = &influxql.IntegerLiteral{Val: v.I}
	default:
		return nil, false
	}
	return &influxql.BinaryExpr{Op: op, LHS: &influxql.VarRef{Val: "$"}, RHS: lit}, true
}

func (c *caseState) rowOp(t []string) (ans string) {
	defer func() {
		if recover() != nil {
			ans = "bad-op"
		}
	}()
	if len(t) != 7 {
		return "bad-op"
	}
	tags, ok := parseTags(t[1])
	if !ok {
		return "bad-op"
	}
	cond, ok := parseCond(t[2])
	if !ok {
		return "bad-op"
	}
	typs := t[3]
	shape := rmock.ParseShape(t[4])
	ts := h.ParseInts(t[5])
	vs := h.Split(t[6])
	if len(ts) != len(vs) || len(typs) != len(shape) {
		return "bad-op"
	}
	pts := make([]rmock.Pt, len(ts))
	for i := range ts {
		pts[i] = rmock.Pt{T: ts[i], V: rmock.ParseVal(vs[i])}
	}
	shards := rmock.Cut('f', shape, pts, true)
	for i := range shards {
		if !strings.ContainsRune("fiusb", rune(typs[i])) {
			return "bad-op"
		}
		shards[i].Typ = typs[i]
		for _, ch := range shards[i].Chunks {
			for _, p := range ch {
				if p.V.Typ != typs[i] {
					return "bad-op"
				}
			}
		}
	}
	c.rows = append(c.rows, rowDef{tags: tags, cond: cond, shards: shards})
	return "ok"
}

func (c *caseState) seriesCursor() *rmock.SeriesCur {
	sc := &rmock.SeriesCur{}
	for _, r := range c.rows {
		sc.Rows = append(sc.Rows, reads.SeriesRow{
			Name:       []byte("m"),
			SeriesTags: r.tags.Clone(),
			Tags:       r.tags.Clone(),
			Field:      "v",
			Query:      rmock.Iters(r.shards),
			ValueCond:  r.cond,
		})
	}
	return sc
}

func showCursor(cur cursors.Cursor, max int) string {
	if cur == nil {
		return "nil"
	}
	defer cur.Close()
	d := rmock.Drain(cur, max)
	if !strings.HasPrefix(d, "ok ") {
		return d
	}
	d = d[3:]
	if cur.Err() != nil {
		d += "!err"
	}
	return d
}

func (c *caseState) maxCalls() int {
	n := 10
	for _, r := range c.rows {
		for _, s := range r.shards {
			for _, ch := range s.Chunks {
				n += len(ch) + 1
			}
		}
	}
	return n
}

func (c *caseState) filterOp(t []string) string {
	start, stop := h.Atoi(t[1]), h.Atoi(t[2])
	rs := reads.NewFilteredResultSet(context.Background(), start, stop, c.seriesCursor())
	defer rs.Close()
	var out []string
	for rs.Next() {
		tags := showTags(rs.Tags())
		out = append(out, tags+"="+showCursor(rs.Cursor(), c.maxCalls()))
		if len(out) > len(c.rows)+3 {
			return "err:endless"
		}
	}
	if len(out) == 0 {
		return "ok -"
	}
	return "ok " + strings.Join(out, ";")
}

func optVal(v []byte) string {
	if len(v) == 0 {
		// nil, or a tag with an empty value: groupBySort treats both as nil, and which of the
		// two a merged group reports depends on the (unstable) sort — rendered alike
		return "~"
	}
	return "x" + h.Hex(v)
}

func (c *caseState) groupOp(t []string) string {
	var keys []string
	for _, k := range h.Split(t[2]) {
		if k != strings.ToLower(k) {
			return "bad-op"
		}
		keys = append(keys, string(h.MustUnHex(k)))
	}
	if (t[3] != "0" && t[3] != "1") || (t[4] != "0" && t[4] != "1") {
		return "bad-op"
	}
	start, stop := h.Atoi(t[5]), h.Atoi(t[6])
	req := &datatypes.ReadGroupRequest{
		Range:     &datatypes.TimestampRange{Start: start, End: stop},
		GroupKeys: keys,
	}
	switch t[1] {
	case "by":
		req.Group = datatypes.ReadGroupRequest_GroupBy
	case "none":
		req.Group = datatypes.ReadGroupRequest_GroupNone
	default:
		return "bad-op"
	}
	if t[4] == "1" {
		var hf datatypes.HintFlags
		hf.SetHintSchemaAllTime()
		req.Hints = uint32(hf)
	}
	var opts []reads.GroupOption
	if t[3] == "1" {
		opts = append(opts, reads.GroupOptionNilSortLo())
	}
	newCur := func() (reads.SeriesCursor, error) { return c.seriesCursor(), nil }
	rs := reads.NewGroupResultSet(context.Background(), req, newCur, opts...)
	if rs == nil {
		return "ok -"
	}
	defer rs.Close()
	var groups []string
	for gc := rs.Next(); gc != nil; gc = rs.Next() {
		var vals, ks, series []string
		for _, v := range gc.PartitionKeyVals() {
			vals = append(vals, optVal(v))
		}
		for _, k := range gc.Keys() {
			ks = append(ks, h.Hex(k))
		}
		for gc.Next() {
			series = append(series, showTags(gc.Tags())+"="+showCursor(gc.Cursor(), c.maxCalls()))
			if len(series) > len(c.rows)+3 {
				return "err:endless"
			}
		}
		gc.Close()
		if t[1] == "by" {
			sort.Strings(series) // sort.Slice in groupBySort is not stable: order inside a group is not compared
		}
		groups = append(groups, h.Join(vals)+"/"+h.Join(ks)+"/"+strings.Join(series, ";"))
		if len(groups) > len(c.rows)+3 {
			return "err:endless"
		}
	}
	if len(groups) == 0 {
		return "ok -"
	}
	return "ok " + strings.Join(groups, "#")
}

func (c *caseState) Op(t []string) (ans string) {
	defer func() {
		if r := recover(); r != nil {
			if s, ok := r.(string); ok && (strings.HasPrefix(s, "bad ") || strings.HasPrefix(s, "empty value")) {
				ans = "bad-op" // token parsers of h / rmock
				return
			}
			panic(r)
		}
	}()
	switch {
	case len(t) >= 1 && t[0] == "row":
		return c.rowOp(t)
	case len(t) == 3 && t[0] == "filter":
		return c.filterOp(t)
	case len(t) == 7 && t[0] == "group":
		return c.groupOp(t)
	}
	return "bad-op"
}

// ---------------------------------------------------------------- generator

var tagKeys = []string{"_field", "_measurement", "host", "region", "t0", "zz"}
var tagVals = []string{"a", "b", "ab", "b0", "z", "é", "A"}
var oddVals = []string{"", "a\x00b", "\xff", "a\x00", "\x00"}

func genVal(r *h.Rand, typ byte) string {
	switch typ {
	case 'f':
		return rmock.FloatTok(float64(r.Range(-20, 20)) / 2)
	case 'i':
		return rmock.IntTok(r.Range(-10, 10))
	case 'u':
		return rmock.UintTok(uint64(r.Range(0, 20)))
	case 's':
		return rmock.StrTok(h.Pick(r, []string{"", "a", "b", "zz"}))
	default:
		return rmock.BoolTok(r.Bool())
	}
}

type genRow struct {
	line     string
	min, max int64
	tagset   string
}

func genRowLine(r *h.Rand, odd bool, big bool) genRow {
	// tags
	var kvs []string
	for _, k := range tagKeys {
		if r.Chance(0.6) {
			v := h.Pick(r, tagVals)
			if odd && r.Chance(0.3) {
				v = h.Pick(r, oddVals)
			}
			hv := ""
			if v != "" {
				hv = h.HexS(v)
			}
			kvs = append(kvs, h.HexS(k)+":"+hv)
		}
	}
	tags := "-"
	if len(kvs) > 0 {
		tags = strings.Join(kvs, "+")
	}
	typ := h.Pick(r, []byte{'f', 'f', 'i', 'i', 'u', 's', 'b'})
	cond := "-"
	if big {
		// > MaxPointsPerBlock matching points: the filter cursor's carry-over (tmp)
		typ = h.Pick(r, []byte{'f', 'i'})
	}
	if ((typ == 'f' || typ == 'i') && r.Chance(0.35)) || r.Chance(0.04) {
		lit := rmock.FloatTok(float64(r.Range(-6, 6)) / 2)
		if r.Bool() {
			lit = rmock.IntTok(r.Range(-5, 5))
		}
		cond = h.Pick(r, []string{"eq", "ne", "lt", "le", "gt", "ge"}) + ":" + lit
	}
	if big && r.Chance(0.8) {
		cond = h.Pick(r, []string{"ge:i-100", "ne:f4059000000000000", "lt:i50", "ge:i-3"})
	}
	nsh := 1 + r.Intn(4)
	t := r.Range(-30, 30)
	if r.Chance(0.1) {
		t = h.Pick(r, []int64{math.MinInt64 + 5, math.MaxInt64 - 400, 1 << 60})
	}
	var typs []byte
	var shapes []string
	var ts []int64
	var vals []string
	mn, mx := int64(math.MaxInt64), int64(math.MinInt64)
	for s := 0; s < nsh; s++ {
		styp := typ
		if odd && r.Chance(0.08) {
			styp = h.Pick(r, []byte{'f', 'i'})
		}
		typs = append(typs, styp)
		if r.Chance(0.15) {
			shapes = append(shapes, h.Pick(r, []string{"-", "0"}))
			continue
		}
		if odd && r.Chance(0.15) {
			t -= r.Range(1, 8) // overlapping shard ranges
		}
		narr := 1 + r.Intn(3)
		var lens []int64
		for a := 0; a < narr; a++ {
			n := 1 + r.Intn(4)
			if big && a == 0 && s == 0 {
				n = int(h.Pick(r, []int64{999, 1000, 1001, 1500, 2100}))
			}
			lens = append(lens, int64(n))
			for i := 0; i < n; i++ {
				t += r.Range(1, 3)
				ts = append(ts, t)
				vals = append(vals, genVal(r, styp))
				if t < mn {
					mn = t
				}
				if t > mx {
					mx = t
				}
			}
		}
		shapes = append(shapes, h.Ints(lens))
		t += r.Range(0, 5)
	}
	line := "row " + tags + " " + cond + " " + string(typs) + " " + strings.Join(shapes, "/") + " " + h.Ints(ts) + " " + h.Join(vals)
	return genRow{line: line, min: mn, max: mx, tagset: tags}
}

// safeRange: r.Range for bounds whose distance may not fit in int64
func safeRange(r *h.Rand, lo, hi int64) int64 {
	if hi <= lo {
		return lo
	}
	if d := hi - lo; d < 0 || d == math.MaxInt64 {
		return h.Pick(r, []int64{lo, hi, 0, lo/2 + hi/2})
	}
	return r.Range(lo, hi)
}

func genCase(r *h.Rand, big bool) []string {
	odd := r.Chance(0.25)
	nrows := 1 + r.Intn(7)
	if r.Chance(0.05) {
		nrows = 0
	}
	if r.Chance(0.1) {
		nrows = 13 + r.Intn(8) // > 12: sort.Slice leaves insertion sort
	}
	var ops []string
	seen := map[string]bool{}
	mn, mx := int64(math.MaxInt64), int64(math.MinInt64)
	for i := 0; i < nrows; i++ {
		g := genRowLine(r, odd, big && i == 0)
		if seen[g.tagset] {
			continue
		}
		seen[g.tagset] = true
		ops = append(ops, g.line)
		if g.min < mn {
			mn = g.min
		}
		if g.max > mx {
			mx = g.max
		}
	}
	if mn > mx {
		mn, mx = 0, 10
	}
	pickRange := func() (int64, int64) {
		switch r.Intn(6) {
		case 0:
			return math.MinInt64, math.MaxInt64
		case 1:
			return mn, mx + 1 // exactly everything
		case 2:
			return mn, mx // the last point is excluded
		case 3:
			return mn + 1, mx + 1
		default:
			lo := mn
			if lo > math.MinInt64+2 {
				lo -= 2
			}
			hi := mx
			if hi < math.MaxInt64-2 {
				hi += 2
			}
			a := safeRange(r, lo, mx)
			b := a
			if mx > a {
				b = safeRange(r, a, hi)
			}
			return a, b
		}
	}
	pickRange0 := pickRange
	pickRange = func() (int64, int64) {
		a, b := pickRange0()
		if b == math.MinInt64 { // `end - 1` would wrap; not a meaningful request
			b++
		}
		return a, b
	}
	nq := 2 + r.Intn(3)
	for i := 0; i < nq; i++ {
		a, b := pickRange()
		ops = append(ops, fmt.Sprintf("filter %d %d", a, b))
	}
	for i := 0; i < nq; i++ {
		a, b := pickRange()
		var keys []string
		for _, k := range append(append([]string{}, tagKeys...), "nokey") {
			if r.Chance(0.3) {
				keys = append(keys, h.HexS(k))
			}
		}
		r2 := h.NewRand(r.Uint64())
		for j := len(keys) - 1; j > 0; j-- { // group keys in any order
			k := r2.Intn(j + 1)
			keys[j], keys[k] = keys[k], keys[j]
		}
		kind := "by"
		if r.Chance(0.25) {
			kind = "none"
		}
		ops = append(ops, "group "+kind+" "+h.Join(keys)+" "+h.B(r.Chance(0.3))+" "+h.B(r.Chance(0.2))+" "+strconv.FormatInt(a, 10)+" "+strconv.FormatInt(b, 10))
	}
	return ops
}

// manySeriesCase: a group-by read over so many series that groupBySort's tag copy buffer
// (tagsBuffer{sz: 4096} in group_resultset.go — a literal, not a named constant) is refilled
// several times: every kept row holds 2 x len(tags) entries of it.
func manySeriesCase(r *h.Rand, nrows int) []string {
	regions := []string{"eu", "us", "ap", "sa", ""}
	var ops []string
	typ := h.Pick(r, []byte{'f', 'i'})
	for i := 0; i < nrows; i++ {
		var kvs []string
		kvs = append(kvs, h.HexS("_field")+":"+h.HexS("v"))
		kvs = append(kvs, h.HexS("host")+":"+h.HexS(fmt.Sprintf("h%04d", i)))
		if reg := h.Pick(r, regions); reg != "" {
			kvs = append(kvs, h.HexS("region")+":"+h.HexS(reg))
		}
		if r.Chance(0.5) {
			kvs = append(kvs, h.HexS("zone")+":"+h.HexS(h.Pick(r, []string{"a", "b"})))
		}
		t := r.Range(0, 50)
		shape, ts, vals := "1", []int64{t}, []string{genVal(r, typ)}
		if r.Chance(0.1) { // a series without a point in range: dropped by seriesHasPoints
			shape, ts, vals = "-", nil, nil
		}
		ops = append(ops, "row "+strings.Join(kvs, "+")+" - "+string(typ)+" "+shape+" "+h.Ints(ts)+" "+h.Join(vals))
	}
	ops = append(ops, "group by "+h.HexS("region")+" 0 0 -10 100")
	ops = append(ops, "group by "+h.HexS("zone")+","+h.HexS("region")+" 1 0 -10 100")
	ops = append(ops, "group by "+h.HexS("region")+" 0 1 -10 100")
	ops = append(ops, "filter -10 100")
	return ops
}

func gen(r *h.Rand, tier string, emit func([]string)) {
	n, nbig := 400, 6
	if tier == "thorough" {
		n, nbig = 6000, 40
	}
	for i := 0; i < n; i++ {
		emit(genCase(r, false))
	}
	for i := 0; i < nbig; i++ {
		emit(genCase(r, true))
	}
	many := []int{900}
	if tier == "thorough" {
		many = []int{650, 700, 1000, 1500, 2200}
	}
	for _, n := range many {
		emit(manySeriesCase(r, n))
	}
	emit([]string{"row - - f 1 1", "row zz - f 1 1 f0000000000000000", "filter 1", "group maybe - 0 0 0 1", "frob",
		"row - lt:x61 f 1 1 f0000000000000000", "row - - i 1 1 f0000000000000000"})
}

func main() {
	h.Main(h.Harness{Gen: gen, NewCase: func() h.CaseRunner { return &caseState{} }})
}
