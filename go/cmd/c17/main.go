// Harness for C17: Store.DeleteSeriesWithPredicate on a real multi-shard tsdb.Store, then
// reads and listings (ops: see storeh), plus the epoch tracker / guard of tsdb driven directly
// through tsdb/verif_c17.go (ops ep*, see epoch.go).
package main

import (
	"fmt"
	"sort"
	"strings"
	"time"

	"verif/harness/cmd/c17/storeh"
	"verif/harness/h"
)

var nameChoices = []string{"m", "m1", "m2", "cpu", "a b", "c,d", "mm"}
var keyChoices = []string{"t", "u", "host", "k 1", "z"}
var valChoices = []string{"a", "b", "c", "x y", "v,1", "w=2", "zz"}

type pools struct {
	names, keys [][]byte
	vals        map[string][][]byte
}

func pickSome(r *h.Rand, from []string, n int) [][]byte {
	idx := map[int]bool{}
	for len(idx) < n {
		idx[r.Intn(len(from))] = true
	}
	var is []int
	for i := range idx {
		is = append(is, i)
	}
	sort.Ints(is)
	var out [][]byte
	for _, i := range is {
		out = append(out, []byte(from[i]))
	}
	return out
}

func genPools(r *h.Rand) pools {
	p := pools{vals: map[string][][]byte{}}
	p.names = pickSome(r, nameChoices, 2+r.Intn(2))
	p.keys = pickSome(r, keyChoices, 2+r.Intn(2))
	for _, k := range p.keys {
		p.vals[string(k)] = pickSome(r, valChoices, 2)
	}
	return p
}

func (p pools) series(r *h.Rand) (string, string) {
	name := h.Pick(r, p.names)
	var ks []string
	for _, k := range p.keys {
		if r.Chance(0.55) {
			ks = append(ks, string(k))
		}
	}
	sort.Strings(ks)
	var ts []string
	for _, k := range ks {
		ts = append(ts, h.HexS(k)+":"+h.Hex(h.Pick(r, p.vals[k])))
	}
	return h.Hex(name), h.Join(ts)
}

func genPts(r *h.Rand) string {
	n := 1 + r.Intn(4)
	var ps []string
	for i := 0; i < n; i++ {
		ps = append(ps, fmt.Sprintf("%d:%d", r.Range(-5, 20), r.Range(0, 99)))
	}
	return strings.Join(ps, ",")
}

func (p pools) rule(r *h.Rand) string {
	op := "E"
	if r.Chance(0.25) {
		op = "N"
	}
	if r.Chance(0.35) {
		v := h.Pick(r, p.names)
		if r.Chance(0.08) {
			v = []byte("nope")
		}
		return op + ":" + h.HexS("_measurement") + ":" + h.Hex(v)
	}
	k := h.Pick(r, p.keys)
	v := h.Pick(r, p.vals[string(k)])
	if r.Chance(0.08) {
		v = []byte("nope")
	}
	return op + ":" + h.Hex(k) + ":" + h.Hex(v)
}

func (p pools) pred(r *h.Rand, depth int) []string {
	if depth == 0 || r.Chance(0.4) {
		return []string{p.rule(r)}
	}
	op := "A"
	if r.Chance(0.35) {
		op = "O"
	}
	out := []string{op}
	out = append(out, p.pred(r, depth-1)...)
	out = append(out, p.pred(r, depth-1)...)
	return out
}

func observe(ops []string, nsh int) []string {
	for s := 1; s <= nsh; s++ {
		ops = append(ops, fmt.Sprintf("read %d", s), fmt.Sprintf("ls %d", s))
	}
	return append(ops, "mn - -")
}

func gen(r *h.Rand, tier string, emit func([]string)) {
	ncases := 220
	if tier == "thorough" {
		ncases = 3000
	}
	for c := 0; c < ncases; c++ {
		p := genPools(r)
		nsh := 1 + r.Intn(3)
		ops := []string{fmt.Sprintf("open %d", nsh)}
		nround := 1 + r.Intn(3)
		for rd := 0; rd < nround; rd++ {
			nw := 3 + r.Intn(8)
			for i := 0; i < nw; i++ {
				name, tags := p.series(r)
				ops = append(ops, fmt.Sprintf("w %d %s %s %s", 1+r.Intn(nsh), name, tags, genPts(r)))
				if r.Chance(0.12) {
					ops = append(ops, fmt.Sprintf("snap %d", 1+r.Intn(nsh)))
				}
			}
			if rd == 0 && r.Chance(0.3) {
				ops = observe(ops, nsh)
			}
			nd := 1 + r.Intn(3)
			for i := 0; i < nd; i++ {
				pred := "-"
				if r.Chance(0.75) {
					pred = strings.Join(p.pred(r, 2), ",")
				}
				lo := r.Range(-6, 15)
				hi := lo + r.Range(0, 12)
				switch {
				case r.Chance(0.25):
					lo, hi = -1000, 1000
				case r.Chance(0.05):
					lo, hi = -9223372036854775808, 9223372036854775807
				}
				mode := "n"
				if r.Chance(0.5) {
					mode = "h"
				}
				ops = append(ops, fmt.Sprintf("del %d %d %s %s", lo, hi, pred, mode))
				ops = observe(ops, nsh)
			}
		}
		if r.Chance(0.03) {
			ops = append(ops, "frob", "del 1 2 zz n", "read 9")
		}
		emit(ops)
	}
	genEpoch(r, tier, emit)
}

func main() {
	h.Main(h.Harness{Gen: gen, OpTimeout: 60 * time.Second, NewCase: func() h.CaseRunner {
		r := storeh.New("verif-c17-")
		r.Extra = epochOp
		return r
	}})
}
