// Package storeh drives a real multi-shard tsdb.Store (tsi1 index, tsm1 engine) for
// the C17 (bucket delete) and C42 (metadata queries) harnesses.
//
// Ops of a case (state = one store, database "db", retention policy "rp"):
//
//	open <n>                                   create shards 1..n                    -> ok
//	w <shard> <hexname> <tags> <t:v,...>       Store.WriteToShard, field v (int)     -> ok | err:<enum>
//	snap <shard>                               tsm1.Engine.WriteSnapshot             -> ok
//	del <min> <max> <pred> <n|h>               Store.DeleteSeriesWithPredicate       -> ok | err:<enum>
//	                                           pred: C16 prefix form or "-" (nil); h = measurement
//	                                           expression derived as http/delete_handler.go does
//	read <shard>                               all points of all series ever written -> <series>=t:v,..;..   series = hexname@hexk:hexv&..
//	ls <shard>                                 series listed by the shard's index    -> <series>,<series>   (both sorted by series key)
//	mn <auth> <cond>                           Store.MeasurementNames                -> hexname,...
//	tk <auth> <shards> <nc> <kc> <filter>      Store.TagKeys                         -> hexname=hexkey,..;..
//	tv <auth> <shards> <nc> <kc> <filter>      Store.TagValues                       -> hexname=hexk:hexv,..;..
//	                                           cond = nc AND kc AND filter; nc / kc = "-" or E:-:<hexval> / N:-:<hexval>
//	                                           (_name / _tagKey clause), filter = cond over plain tag keys
//	wblock <shard> <hexname> <tags> <min> <max> <pred>   (C17 non-blocking clause, see c17)
//
// tags = hexk:hexv joined by ',' ("-" none).  auth = "-" (nil), "open" (query.OpenAuthorizer) or
// deny rules joined by ',': T:<hexk>:<hexv> (series having that tag pair), M:<hexname>.
// cond = "-" (nil) or prefix form: A | O | E:<hexkey>:<hexval> | N:<hexkey>:<hexval>
// (key = 'val' / key != 'val' with a string literal; keys _name, _tagKey, value are the system names);
// mn conditions also R:<hexkey>:<hexv1>+<hexv2>.. (key =~ /^(?:v1|v2|..)$/) and NR:.. (key !~ ..).
package storeh

import (
	"bytes"
	"context"
	"errors"
	"fmt"
	"os"
	"path/filepath"
	"regexp"
	"sort"
	"strings"
	"time"

	influxdb "github.com/influxdata/influxdb/v2"
	"github.com/influxdata/influxdb/v2/influxql/query"
	"github.com/influxdata/influxdb/v2/models"
	"github.com/influxdata/influxdb/v2/predicate"
	"github.com/influxdata/influxdb/v2/storage/reads/datatypes"
	"github.com/influxdata/influxdb/v2/tsdb"
	"github.com/influxdata/influxdb/v2/tsdb/cursors"
	_ "github.com/influxdata/influxdb/v2/tsdb/engine"
	"github.com/influxdata/influxdb/v2/tsdb/engine/tsm1"
	_ "github.com/influxdata/influxdb/v2/tsdb/index"
	"github.com/influxdata/influxql"
	"verif/harness/h"
)

const DB = "db"

type Runner struct {
	root   string
	St     *tsdb.Store
	err    error
	seen   map[string]seriesRef // every series ever written: key -> (name, tags)
	NShard int
	Extra  func(r *Runner, t []string) (string, bool) // property-specific ops
}

type seriesRef struct {
	name []byte
	tags models.Tags
}

// nullPlanner never schedules a background compaction (DeleteSeriesRange re-enables level
// compactions; the file set must stay a function of the op sequence).
type nullPlanner struct{}

func (*nullPlanner) FindGenerations() tsm1.TsmGenerations { return nil }
func (*nullPlanner) Plan(tsm1.TsmGenerations, time.Time) ([]tsm1.CompactionGroup, int64) {
	return nil, 0
}
func (*nullPlanner) PlanLevel(tsm1.TsmGenerations, int) ([]tsm1.CompactionGroup, int64) {
	return nil, 0
}
func (*nullPlanner) PlanOptimize(tsm1.TsmGenerations, time.Time) ([]tsm1.CompactionGroup, int64, int64) {
	return nil, 0, 0
}
func (*nullPlanner) Release([]tsm1.CompactionGroup)             {}
func (*nullPlanner) FullyCompacted() (bool, string)             { return true, "" }
func (*nullPlanner) ForceFull()                                 {}
func (*nullPlanner) SetFileStore(*tsm1.FileStore)               {}
func (*nullPlanner) SetAggressiveCompactionPointsPerBlock(int)  {}
func (*nullPlanner) GetAggressiveCompactionPointsPerBlock() int { return 0 }

func New(prefix string) *Runner {
	r := &Runner{seen: map[string]seriesRef{}}
	base := ""
	if os.Getenv("TMPDIR") == "" {
		if fi, err := os.Stat("/dev/shm"); err == nil && fi.IsDir() {
			base = "/dev/shm"
		}
	}
	root, err := os.MkdirTemp(base, prefix)
	if err != nil && base != "" {
		root, err = os.MkdirTemp("", prefix)
	}
	if err != nil {
		r.err = err
		return r
	}
	r.root = root
	s := tsdb.NewStore(filepath.Join(root, "data"))
	s.EngineOptions.Config.WALDir = filepath.Join(root, "wal")
	s.EngineOptions.IndexVersion = tsdb.TSI1IndexName
	s.EngineOptions.CompactionDisabled = true
	s.EngineOptions.CompactionPlannerCreator = func(tsdb.Config) interface{} { return &nullPlanner{} }
	s.EngineOptions.MonitorDisabled = true
	s.EngineOptions.MetricsDisabled = true
	if err := s.Open(context.Background()); err != nil {
		r.err = err
		os.RemoveAll(root)
		r.root = ""
		return r
	}
	r.St = s
	return r
}

func (r *Runner) Close() {
	if r.St != nil {
		done := make(chan struct{})
		go func() {
			defer close(done)
			defer func() { recover() }()
			r.St.Close()
		}()
		select {
		case <-done:
		case <-time.After(20 * time.Second):
		}
	}
	if r.root != "" {
		os.RemoveAll(r.root)
	}
}

func ErrEnum(err error) string {
	if err == nil {
		return "ok"
	}
	msg := err.Error()
	switch {
	case errors.Is(err, tsdb.ErrEngineClosed):
		return "err:engine-closed"
	case errors.Is(err, tsdb.ErrFieldTypeConflict):
		return "err:field-type"
	case strings.Contains(msg, "a condition is required"):
		return "err:cond-required"
	case strings.Contains(msg, "bad WHERE clause for metaquery"):
		return "err:bad-quote"
	case strings.Contains(msg, "must be a tag value string"), strings.Contains(msg, "must be a tag key"):
		return "err:bad-cond"
	}
	if os.Getenv("VERIF_DEBUG") != "" {
		fmt.Fprintln(os.Stderr, "error:", msg)
	}
	return "err:other"
}

// ---- parsing helpers

func ParseTags(s string) (models.Tags, bool) {
	var tags models.Tags
	if s == "-" {
		return tags, true
	}
	for _, kv := range strings.Split(s, ",") {
		f := strings.Split(kv, ":")
		if len(f) != 2 {
			return nil, false
		}
		k, e1 := h.UnHex(f[0])
		v, e2 := h.UnHex(f[1])
		if e1 != nil || e2 != nil || len(k) == 0 || len(v) == 0 {
			return nil, false
		}
		tags = append(tags, models.Tag{Key: k, Value: v})
	}
	for i := 1; i < len(tags); i++ {
		if bytes.Compare(tags[i-1].Key, tags[i].Key) >= 0 {
			return nil, false
		}
	}
	return tags, true
}

func parsePoints(s string) ([][2]int64, bool) {
	if s == "-" {
		return nil, true
	}
	var out [][2]int64
	for _, p := range strings.Split(s, ",") {
		var t, v int64
		if n, err := fmt.Sscanf(p, "%d:%d", &t, &v); n != 2 || err != nil {
			return nil, false
		}
		out = append(out, [2]int64{t, v})
	}
	return out, true
}

// ---- delete predicate (same encoding as the C16 harness)

type pnode struct {
	kind string
	k, v []byte
	l, r *pnode
}

func parsePred(items []string, i *int) *pnode {
	if *i >= len(items) {
		return nil
	}
	it := items[*i]
	*i++
	switch {
	case it == "A" || it == "O":
		l := parsePred(items, i)
		r := parsePred(items, i)
		if l == nil || r == nil {
			return nil
		}
		return &pnode{kind: it, l: l, r: r}
	case strings.HasPrefix(it, "E:") || strings.HasPrefix(it, "N:"):
		f := strings.Split(it, ":")
		if len(f) != 3 {
			return nil
		}
		k, e1 := h.UnHex(f[1])
		v, e2 := h.UnHex(f[2])
		if e1 != nil || e2 != nil {
			return nil
		}
		return &pnode{kind: f[0], k: k, v: v}
	}
	return nil
}

func (n *pnode) toDT() (*datatypes.Node, error) {
	switch n.kind {
	case "E", "N":
		op := influxdb.Equal
		if n.kind == "N" {
			op = influxdb.NotEqual
		}
		return predicate.TagRuleNode{Tag: influxdb.Tag{Key: string(n.k), Value: string(n.v)}, Operator: op}.ToDataType()
	}
	l, err := n.l.toDT()
	if err != nil {
		return nil, err
	}
	r, err := n.r.toDT()
	if err != nil {
		return nil, err
	}
	lg := datatypes.Node_LogicalAnd
	if n.kind == "O" {
		lg = datatypes.Node_LogicalOr
	}
	return &datatypes.Node{NodeType: datatypes.Node_TypeLogicalExpression,
		Value: &datatypes.Node_Logical_{Logical: lg}, Children: []*datatypes.Node{l, r}}, nil
}

// toInfluxQL renders the predicate the way a client would send it to /api/v2/delete
// (double-quoted identifiers on both sides, as predicate.Parse expects).
func (n *pnode) toInfluxQL() influxql.Expr {
	switch n.kind {
	case "E", "N":
		op := influxql.EQ
		if n.kind == "N" {
			op = influxql.NEQ
		}
		return &influxql.BinaryExpr{Op: op, LHS: &influxql.VarRef{Val: string(n.k)}, RHS: &influxql.VarRef{Val: string(n.v)}}
	}
	op := influxql.AND
	if n.kind == "O" {
		op = influxql.OR
	}
	return &influxql.BinaryExpr{Op: influxql.Token(op), LHS: n.l.toInfluxQL(), RHS: n.r.toInfluxQL()}
}

// MeasurementExpr: what http/delete_handler.go decodeDeleteRequest passes as `measurement`.
func MeasurementExpr(expr influxql.Expr) influxql.Expr {
	m, _, err := influxql.PartitionExpr(influxql.CloneExpr(expr), func(e influxql.Expr) (bool, error) {
		switch e := e.(type) {
		case *influxql.BinaryExpr:
			switch e.Op {
			case influxql.EQ, influxql.NEQ, influxql.EQREGEX, influxql.NEQREGEX:
				tag, ok := e.LHS.(*influxql.VarRef)
				if ok && tag.Val == "_measurement" {
					return true, nil
				}
			}
		}
		return false, nil
	})
	if err != nil {
		return nil
	}
	return m
}

// ---- metadata conditions

func parseCond(items []string, i *int) influxql.Expr {
	if *i >= len(items) {
		return nil
	}
	it := items[*i]
	*i++
	switch {
	case it == "A" || it == "O":
		l := parseCond(items, i)
		r := parseCond(items, i)
		if l == nil || r == nil {
			return nil
		}
		op := influxql.AND
		if it == "O" {
			op = influxql.OR
		}
		return &influxql.BinaryExpr{Op: influxql.Token(op), LHS: l, RHS: r}
	case strings.HasPrefix(it, "R:") || strings.HasPrefix(it, "NR:"):
		// R:<hexkey>:<hexv1>+<hexv2>…  =  key =~ /^(?:v1|v2|…)$/ ;  NR = !~
		f := strings.Split(it, ":")
		if len(f) != 3 {
			return nil
		}
		k, err := h.UnHex(f[1])
		if err != nil {
			return nil
		}
		var alts []string
		for _, hv := range strings.Split(f[2], "+") {
			v, err := h.UnHex(hv)
			if err != nil || len(v) == 0 {
				return nil
			}
			alts = append(alts, regexp.QuoteMeta(string(v)))
		}
		re, err := regexp.Compile("^(?:" + strings.Join(alts, "|") + ")$")
		if err != nil {
			return nil
		}
		op := influxql.EQREGEX
		if f[0] == "NR" {
			op = influxql.NEQREGEX
		}
		return &influxql.BinaryExpr{Op: influxql.Token(op), LHS: &influxql.VarRef{Val: string(k)}, RHS: &influxql.RegexLiteral{Val: re}}
	case strings.HasPrefix(it, "E:") || strings.HasPrefix(it, "N:"):
		f := strings.Split(it, ":")
		if len(f) != 3 {
			return nil
		}
		k, e1 := h.UnHex(f[1])
		v, e2 := h.UnHex(f[2])
		if e1 != nil || e2 != nil {
			return nil
		}
		op := influxql.EQ
		if f[0] == "N" {
			op = influxql.NEQ
		}
		return &influxql.BinaryExpr{Op: influxql.Token(op), LHS: &influxql.VarRef{Val: string(k)}, RHS: &influxql.StringLiteral{Val: string(v)}}
	}
	return nil
}

// reservedKey: system names (a leading '_', except _name where allowed), the pseudo key "value", "".
func reservedKey(allowName bool, k string) bool {
	return (strings.HasPrefix(k, "_") && !(allowName && k == "_name")) || k == "value" || k == ""
}

// hasRegex: the condition has a regular-expression leaf (only MeasurementNames conditions may)
func hasRegex(e influxql.Expr) bool {
	found := false
	influxql.WalkFunc(e, func(n influxql.Node) {
		if _, ok := n.(*influxql.RegexLiteral); ok {
			found = true
		}
	})
	return found
}

func condKeysOK(e influxql.Expr, allowName bool) bool {
	ok := true
	influxql.WalkFunc(e, func(n influxql.Node) {
		if v, isRef := n.(*influxql.VarRef); isRef && reservedKey(allowName, v.Val) {
			ok = false
		}
	})
	return ok
}

// parseClause: "-" or E:-:<hexval> / N:-:<hexval>  ->  <sysname> = / != 'val'
func parseClause(s, sysname string) (influxql.Expr, bool) {
	if s == "-" {
		return nil, true
	}
	f := strings.Split(s, ":")
	if len(f) != 3 || (f[0] != "E" && f[0] != "N") || f[1] != "-" {
		return nil, false
	}
	v, err := h.UnHex(f[2])
	if err != nil {
		return nil, false
	}
	op := influxql.EQ
	if f[0] == "N" {
		op = influxql.NEQ
	}
	return &influxql.BinaryExpr{Op: influxql.Token(op), LHS: &influxql.VarRef{Val: sysname}, RHS: &influxql.StringLiteral{Val: string(v)}}, true
}

func andAll(es ...influxql.Expr) influxql.Expr {
	var out influxql.Expr
	for _, e := range es {
		if e == nil {
			continue
		}
		if out == nil {
			out = e
		} else {
			out = &influxql.BinaryExpr{Op: influxql.AND, LHS: out, RHS: e}
		}
	}
	return out
}

func ParseCond(s string) (influxql.Expr, bool) {
	if s == "-" {
		return nil, true
	}
	i := 0
	items := strings.Split(s, ",")
	e := parseCond(items, &i)
	if e == nil || i != len(items) {
		return nil, false
	}
	return e, true
}

// ---- authorizer

type denyAuth struct {
	tagPairs [][2][]byte
	names    [][]byte
}

func (a *denyAuth) AuthorizeDatabase(influxql.Privilege, string) bool       { return true }
func (a *denyAuth) AuthorizeQuery(string, *influxql.Query) error            { return nil }
func (a *denyAuth) AuthorizeSeriesWrite(string, []byte, models.Tags) bool   { return true }
func (a *denyAuth) AuthorizeSeriesRead(db string, name []byte, tags models.Tags) bool {
	for _, n := range a.names {
		if bytes.Equal(n, name) {
			return false
		}
	}
	for _, p := range a.tagPairs {
		if v := tags.Get(p[0]); v != nil && bytes.Equal(v, p[1]) {
			return false
		}
	}
	return true
}

func ParseAuth(s string) (query.Authorizer, bool) {
	switch s {
	case "-":
		return nil, true
	case "open":
		return query.OpenAuthorizer, true
	}
	a := &denyAuth{}
	for _, it := range strings.Split(s, ",") {
		f := strings.Split(it, ":")
		switch {
		case len(f) == 3 && f[0] == "T":
			k, e1 := h.UnHex(f[1])
			v, e2 := h.UnHex(f[2])
			if e1 != nil || e2 != nil {
				return nil, false
			}
			a.tagPairs = append(a.tagPairs, [2][]byte{k, v})
		case len(f) == 2 && f[0] == "M":
			n, err := h.UnHex(f[1])
			if err != nil {
				return nil, false
			}
			a.names = append(a.names, n)
		default:
			return nil, false
		}
	}
	return a, true
}

func parseShards(s string) ([]uint64, bool) {
	if s == "-" {
		return nil, true
	}
	var out []uint64
	for _, p := range strings.Split(s, ",") {
		var v uint64
		if n, err := fmt.Sscanf(p, "%d", &v); n != 1 || err != nil {
			return nil, false
		}
		out = append(out, v)
	}
	return out, true
}

// ---- ops

func (r *Runner) Op(t []string) string {
	if r.err != nil || r.St == nil {
		return "err:open"
	}
	if len(t) == 0 {
		return "bad-op"
	}
	ctx := context.Background()
	if r.Extra != nil && strings.HasPrefix(t[0], "ep") {
		if a, ok := r.Extra(r, t); ok {
			return a
		}
	}
	if r.NShard == 0 && t[0] != "open" {
		return "bad-op"
	}
	switch {
	case t[0] == "open" && len(t) == 2:
		n := int(h.Atoi(t[1]))
		if n < 1 || n > 4 || r.NShard != 0 {
			return "bad-op"
		}
		for i := 1; i <= n; i++ {
			if err := r.St.CreateShard(ctx, DB, "rp", uint64(i), true); err != nil {
				return ErrEnum(err)
			}
		}
		r.NShard = n
		return "ok"
	case t[0] == "w" && len(t) == 5:
		sid, ok0 := parseShards(t[1])
		name, err := h.UnHex(t[2])
		tags, ok1 := ParseTags(t[3])
		pts, ok2 := parsePoints(t[4])
		if !ok0 || len(sid) != 1 || err != nil || len(name) == 0 || !ok1 || !ok2 || len(pts) == 0 {
			return "bad-op"
		}
		if sid[0] < 1 || int(sid[0]) > r.NShard {
			return "bad-op"
		}
		var points []models.Point
		for _, p := range pts {
			pt, err := models.NewPoint(string(name), tags, models.Fields{"v": p[1]}, time.Unix(0, p[0]))
			if err != nil {
				return "err:point"
			}
			points = append(points, pt)
		}
		if err := r.St.WriteToShard(ctx, sid[0], points); err != nil {
			return ErrEnum(err)
		}
		key := models.MakeKey(name, tags)
		r.seen[string(key)] = seriesRef{name: name, tags: tags}
		return "ok"
	case t[0] == "snap" && len(t) == 2:
		sh := r.shard(t[1])
		if sh == nil {
			return "bad-op"
		}
		eng, err := sh.Engine()
		if err != nil {
			return ErrEnum(err)
		}
		e1, ok := eng.(*tsm1.Engine)
		if !ok {
			return "err:engine-type"
		}
		if err := e1.WriteSnapshot(); err != nil && !strings.Contains(err.Error(), "snapshot in progress") {
			return ErrEnum(err)
		}
		return "ok"
	case t[0] == "del" && len(t) == 5:
		min, max := h.Atoi(t[1]), h.Atoi(t[2])
		var pred influxdb.Predicate
		var mexpr influxql.Expr
		if t[3] != "-" {
			i := 0
			items := strings.Split(t[3], ",")
			n := parsePred(items, &i)
			if n == nil || i != len(items) {
				return "bad-op"
			}
			dt, err := n.toDT()
			if err != nil {
				return "err:pred"
			}
			p, err := tsm1.NewProtobufPredicate(&datatypes.Predicate{Root: dt})
			if err != nil {
				return "err:pred"
			}
			pred = p
			if t[4] == "h" {
				mexpr = MeasurementExpr(n.toInfluxQL())
			}
		}
		if t[4] != "n" && t[4] != "h" {
			return "bad-op"
		}
		return ErrEnum(r.St.DeleteSeriesWithPredicate(ctx, DB, min, max, pred, mexpr))
	case t[0] == "read" && len(t) == 2:
		sh := r.shard(t[1])
		if sh == nil {
			return "bad-op"
		}
		return r.read(sh)
	case t[0] == "ls" && len(t) == 2:
		sh := r.shard(t[1])
		if sh == nil {
			return "bad-op"
		}
		return r.list(sh)
	case t[0] == "mn" && len(t) == 3:
		auth, ok1 := ParseAuth(t[1])
		cond, ok2 := ParseCond(t[2])
		if !ok1 || !ok2 || (cond != nil && !condKeysOK(cond, true)) {
			return "bad-op"
		}
		names, err := r.St.MeasurementNames(ctx, auth, DB, cond)
		if err != nil {
			return ErrEnum(err)
		}
		out := make([]string, len(names))
		for i, n := range names {
			out[i] = h.Hex(n)
		}
		return h.Join(out)
	case (t[0] == "tk" || t[0] == "tv") && len(t) == 6:
		auth, ok1 := ParseAuth(t[1])
		ids, ok0 := parseShards(t[2])
		nc, ok2 := parseClause(t[3], "_name")
		kc, ok3 := parseClause(t[4], "_tagKey")
		f, ok4 := ParseCond(t[5])
		if !ok0 || !ok1 || !ok2 || !ok3 || !ok4 || len(ids) == 0 || (f != nil && (!condKeysOK(f, false) || hasRegex(f))) {
			return "bad-op"
		}
		any := false
		for _, id := range ids {
			if r.St.Shard(id) != nil {
				any = true
			}
		}
		if !any {
			return "bad-op"
		}
		cond := andAll(nc, kc, f)
		if t[0] == "tk" {
			res, err := r.St.TagKeys(ctx, auth, ids, cond)
			if err != nil {
				return ErrEnum(err)
			}
			var parts []string
			for _, tk := range res {
				ks := make([]string, len(tk.Keys))
				for i, k := range tk.Keys {
					ks[i] = h.HexS(k)
				}
				parts = append(parts, h.HexS(tk.Measurement)+"="+h.Join(ks))
			}
			if len(parts) == 0 {
				return "-"
			}
			return strings.Join(parts, ";")
		}
		res, err := r.St.TagValues(ctx, auth, ids, cond)
		if err != nil {
			return ErrEnum(err)
		}
		var parts []string
		for _, tv := range res {
			kvs := make([]string, len(tv.Values))
			for i, kv := range tv.Values {
				kvs[i] = h.HexS(kv.Key) + ":" + h.HexS(kv.Value)
			}
			parts = append(parts, h.HexS(tv.Measurement)+"="+h.Join(kvs))
		}
		if len(parts) == 0 {
			return "-"
		}
		return strings.Join(parts, ";")
	}
	if r.Extra != nil {
		if a, ok := r.Extra(r, t); ok {
			return a
		}
	}
	return "bad-op"
}

// SeriesID prints a series as <hexname>@<hexk>:<hexv>&<hexk>:<hexv> (name and tags, not the key).
func SeriesID(name []byte, tags models.Tags) string {
	var ts []string
	for _, t := range tags {
		ts = append(ts, h.Hex(t.Key)+":"+h.Hex(t.Value))
	}
	return h.Hex(name) + "@" + strings.Join(ts, "&")
}

func (r *Runner) shard(tok string) *tsdb.Shard {
	ids, ok := parseShards(tok)
	if !ok || len(ids) != 1 {
		return nil
	}
	return r.St.Shard(ids[0])
}

func (r *Runner) read(sh *tsdb.Shard) string {
	ctx := context.Background()
	keys := make([]string, 0, len(r.seen))
	for k := range r.seen {
		keys = append(keys, k)
	}
	sort.Strings(keys)
	var parts []string
	for _, k := range keys {
		ref := r.seen[k]
		ci, err := sh.CreateCursorIterator(ctx)
		if err != nil {
			return ErrEnum(err)
		}
		cur, err := ci.Next(ctx, &cursors.CursorRequest{
			Name: ref.name, Tags: ref.tags, Field: "v", Ascending: true,
			StartTime: models.MinNanoTime, EndTime: models.MaxNanoTime,
		})
		if err != nil {
			return ErrEnum(err)
		}
		if cur == nil {
			continue
		}
		ic, ok := cur.(cursors.IntegerArrayCursor)
		if !ok {
			cur.Close()
			return "err:cursor-type"
		}
		var pts []string
		for {
			a := ic.Next()
			if a.Len() == 0 {
				break
			}
			for i := range a.Timestamps {
				pts = append(pts, fmt.Sprintf("%d:%d", a.Timestamps[i], a.Values[i]))
			}
		}
		ic.Close()
		if len(pts) > 0 {
			parts = append(parts, SeriesID(ref.name, ref.tags)+"="+strings.Join(pts, ","))
		}
	}
	if len(parts) == 0 {
		return "-"
	}
	return strings.Join(parts, ";")
}

func (r *Runner) list(sh *tsdb.Shard) string {
	idx, err := sh.Index()
	if err != nil {
		return ErrEnum(err)
	}
	sf, err := sh.SeriesFile()
	if err != nil {
		return ErrEnum(err)
	}
	is := tsdb.IndexSet{Indexes: []tsdb.Index{idx}, SeriesFile: sf}
	var names [][]byte
	if err := sh.ForEachMeasurementName(func(n []byte) error {
		names = append(names, append([]byte(nil), n...))
		return nil
	}); err != nil {
		return ErrEnum(err)
	}
	var out []string
	for _, n := range names {
		keys, err := is.MeasurementSeriesKeysByExpr(n, nil)
		if err != nil {
			return ErrEnum(err)
		}
		for _, k := range keys {
			out = append(out, string(k))
		}
	}
	sort.Strings(out) // by series key, as `read`
	for i, k := range out {
		name, tags := models.ParseKeyBytes([]byte(k))
		out[i] = SeriesID(name, tags)
	}
	return h.Join(out)
}
