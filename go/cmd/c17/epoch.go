package main

// The third clause of C17 on the real tsdb.epochTracker / guard (through tsdb/verif_c17.go),
// in a sequential schedule: what Store.WriteToShard and Store.DeleteSeriesWithPredicate do
// with the tracker, one step per op, with "would block on" observed instead of blocking.
//
//	epw <id> <t,t,..>     a write of points at these times enters: StartWrite, then the guards it
//	                      would Wait on (guard.Matches(points) and not yet Done)
//	                                              -> gen=<g> wait=<delete ids ascending | ->
//	epe <id>              the write leaves: EndWrite(gen)                      -> ok
//	epd <id> <min> <max>  a delete installs its guard: WaitDelete(newGuard(min,max,nil,nil))
//	                                              -> gen=<g> pending=<n>   (Wait returns iff n = 0)
//	epp <id>              -> pending=<n> of delete id now
//	epx <id>              the delete finishes: waiter.Done()                   -> ok

import (
	"fmt"
	"sort"
	"strings"
	"time"

	"github.com/influxdata/influxdb/v2/models"
	"github.com/influxdata/influxdb/v2/tsdb"
	"verif/harness/cmd/c17/storeh"
	"verif/harness/h"
)

type epochState struct {
	tr      *tsdb.VerifEpochTracker
	writes  map[int64]uint64                 // write id -> gen (in flight)
	deletes map[int64]tsdb.VerifEpochWaiter  // delete id -> waiter (active)
	guardID map[*tsdb.VerifGuard]int64
}

var epochs = map[*storeh.Runner]*epochState{}

func epochOp(r *storeh.Runner, t []string) (string, bool) {
	if !strings.HasPrefix(t[0], "ep") {
		return "", false
	}
	es := epochs[r]
	if es == nil {
		es = &epochState{tr: tsdb.VerifNewEpochTracker(), writes: map[int64]uint64{},
			deletes: map[int64]tsdb.VerifEpochWaiter{}, guardID: map[*tsdb.VerifGuard]int64{}}
		epochs[r] = es
	}
	switch {
	case t[0] == "epw" && len(t) == 3:
		id := h.Atoi(t[1])
		if _, dup := es.writes[id]; dup {
			return "bad-op", true
		}
		var pts []models.Point
		for _, ts := range h.ParseInts(t[2]) {
			p, err := models.NewPoint("m", nil, models.Fields{"v": int64(1)}, time.Unix(0, ts))
			if err != nil {
				return "err:point", true
			}
			pts = append(pts, p)
		}
		guards, gen := es.tr.StartWrite()
		es.writes[id] = gen
		var wait []int64
		for _, g := range guards {
			if g.Matches(pts) && !tsdb.VerifGuardDone(g) {
				wait = append(wait, es.guardID[g])
			}
		}
		sort.Slice(wait, func(i, j int) bool { return wait[i] < wait[j] })
		return fmt.Sprintf("gen=%d wait=%s", gen, h.Ints(wait)), true
	case t[0] == "epe" && len(t) == 2:
		id := h.Atoi(t[1])
		gen, ok := es.writes[id]
		if !ok {
			return "bad-op", true
		}
		es.tr.EndWrite(gen)
		delete(es.writes, id)
		return "ok", true
	case t[0] == "epd" && len(t) == 4:
		id := h.Atoi(t[1])
		if _, dup := es.deletes[id]; dup {
			return "bad-op", true
		}
		g := tsdb.VerifNewGuard(h.Atoi(t[2]), h.Atoi(t[3]), nil, nil)
		w := es.tr.WaitDelete(g)
		es.deletes[id] = w
		es.guardID[g] = id
		return fmt.Sprintf("gen=%d pending=%d", tsdb.VerifWaiterGen(w), tsdb.VerifWaiterPending(w)), true
	case t[0] == "epp" && len(t) == 2:
		w, ok := es.deletes[h.Atoi(t[1])]
		if !ok {
			return "bad-op", true
		}
		return fmt.Sprintf("pending=%d", tsdb.VerifWaiterPending(w)), true
	case t[0] == "epx" && len(t) == 2:
		id := h.Atoi(t[1])
		w, ok := es.deletes[id]
		if !ok {
			return "bad-op", true
		}
		w.Done()
		delete(es.deletes, id)
		return "ok", true
	}
	return "bad-op", true
}

func genEpoch(r *h.Rand, tier string, emit func([]string)) {
	n := 150
	if tier == "thorough" {
		n = 3000
	}
	for c := 0; c < n; c++ {
		var ops []string
		var ws, ds []int64
		next := int64(1)
		steps := 6 + r.Intn(25)
		for i := 0; i < steps; i++ {
			switch k := r.Intn(10); {
			case k < 3:
				nt := 1 + r.Intn(3)
				var ts []int64
				for j := 0; j < nt; j++ {
					ts = append(ts, r.Range(-3, 12))
				}
				ops = append(ops, fmt.Sprintf("epw %d %s", next, h.Ints(ts)))
				ws = append(ws, next)
				next++
			case k < 5 && len(ws) > 0:
				j := r.Intn(len(ws))
				ops = append(ops, fmt.Sprintf("epe %d", ws[j]))
				ws = append(ws[:j], ws[j+1:]...)
			case k < 7:
				lo := r.Range(-4, 10)
				ops = append(ops, fmt.Sprintf("epd %d %d %d", next, lo, lo+r.Range(0, 6)))
				ds = append(ds, next)
				next++
			case k < 9 && len(ds) > 0:
				ops = append(ops, fmt.Sprintf("epp %d", h.Pick(r, ds)))
			case len(ds) > 0:
				j := r.Intn(len(ds))
				ops = append(ops, fmt.Sprintf("epx %d", ds[j]))
				ds = append(ds[:j], ds[j+1:]...)
			}
		}
		for _, d := range ds {
			ops = append(ops, fmt.Sprintf("epp %d", d))
		}
		if r.Chance(0.05) {
			ops = append(ops, "epe 999", "epx 999", "epw 1")
		}
		emit(ops)
	}
}
