// Package lp is the part of the C11/C12 harnesses that talks to the real
// github.com/influxdata/influxdb/v2/models package: op decoding, canonical
// rendering of points / tags / fields / errors, and the three operations
//
//	key  MakeKey -> ParseKeyBytes / ParseKey
//	pt   NewPoint -> String/AppendString/PrecisionString -> ParsePointsWithPrecision
//	pp   ParsePointsWithPrecision on arbitrary bytes (+ every accessor of every point)
//	pk   ParseKeyBytes on arbitrary bytes
//
// The wire format is documented in lean/Influx/Drv/C11.lean.
package lp

import (
	"bytes"
	"fmt"
	"math"
	"sort"
	"strconv"
	"strings"
	"time"

	"github.com/influxdata/influxdb/v2/models"
	"verif/harness/h"
)

// ---------------------------------------------------------------- tags

func TagsString(tags models.Tags) string {
	if len(tags) == 0 {
		return "-"
	}
	ss := make([]string, len(tags))
	for i, t := range tags {
		ss[i] = h.Hex(t.Key) + ":" + h.Hex(t.Value)
	}
	return strings.Join(ss, ",")
}

func ParseTagsTok(s string) (models.Tags, bool) {
	if s == "-" {
		return nil, true
	}
	var out models.Tags
	for _, p := range strings.Split(s, ",") {
		kv := strings.Split(p, ":")
		if len(kv) != 2 {
			return nil, false
		}
		k, e1 := h.UnHex(kv[0])
		v, e2 := h.UnHex(kv[1])
		if e1 != nil || e2 != nil {
			return nil, false
		}
		if k == nil {
			k = []byte{}
		}
		if v == nil {
			v = []byte{}
		}
		out = append(out, models.Tag{Key: k, Value: v})
	}
	return out, true
}

// ---------------------------------------------------------------- fields of an op

// Field of an op: key, type f|i|u|b|s, value.
type Field struct {
	Key  string
	Typ  byte
	F    float64
	Text string // for f: strconv.FormatFloat(F,'f',-1,64), carried in the op so that the model can render it
	I    int64
	U    uint64
	B    bool
	S    string
}

func FieldTok(f Field) string {
	k := h.HexS(f.Key)
	switch f.Typ {
	case 'f':
		return k + ":f:" + h.Hex64(math.Float64bits(f.F)) + ":" + h.HexS(strconv.FormatFloat(f.F, 'f', -1, 64))
	case 'i':
		return k + ":i:" + strconv.FormatInt(f.I, 10)
	case 'u':
		return k + ":u:" + strconv.FormatUint(f.U, 10)
	case 'b':
		return k + ":b:" + h.B(f.B)
	default:
		return k + ":s:" + h.HexS(f.S)
	}
}

func FieldsTok(fs []Field) string {
	if len(fs) == 0 {
		return "-"
	}
	ss := make([]string, len(fs))
	for i, f := range fs {
		ss[i] = FieldTok(f)
	}
	return strings.Join(ss, ",")
}

// ParseFieldsTok decodes the fields token; ok=false on malformed tokens, duplicate
// keys (a Go map cannot hold them) or a float text that is not Go's own rendering.
func ParseFieldsTok(s string) ([]Field, bool) {
	if s == "-" {
		return nil, true
	}
	var out []Field
	seen := map[string]bool{}
	for _, p := range strings.Split(s, ",") {
		t := strings.Split(p, ":")
		if len(t) < 3 || len(t[1]) != 1 {
			return nil, false
		}
		kb, err := h.UnHex(t[0])
		if err != nil {
			return nil, false
		}
		f := Field{Key: string(kb), Typ: t[1][0]}
		if seen[f.Key] {
			return nil, false
		}
		seen[f.Key] = true
		switch f.Typ {
		case 'f':
			if len(t) != 4 {
				return nil, false
			}
			bits, err := strconv.ParseUint(t[2], 16, 64)
			if err != nil || len(t[2]) != 16 {
				return nil, false
			}
			f.F = math.Float64frombits(bits)
			tx, err := h.UnHex(t[3])
			if err != nil {
				return nil, false
			}
			f.Text = string(tx)
			if math.IsNaN(f.F) || math.IsInf(f.F, 0) {
				// NewPoint rejects these before rendering; the text is irrelevant
			} else if f.Text != strconv.FormatFloat(f.F, 'f', -1, 64) {
				return nil, false
			}
		case 'i':
			if len(t) != 3 {
				return nil, false
			}
			v, err := strconv.ParseInt(t[2], 10, 64)
			if err != nil {
				return nil, false
			}
			f.I = v
		case 'u':
			if len(t) != 3 {
				return nil, false
			}
			v, err := strconv.ParseUint(t[2], 10, 64)
			if err != nil {
				return nil, false
			}
			f.U = v
		case 'b':
			if len(t) != 3 || (t[2] != "0" && t[2] != "1") {
				return nil, false
			}
			f.B = t[2] == "1"
		case 's':
			if len(t) != 3 {
				return nil, false
			}
			sb, err := h.UnHex(t[2])
			if err != nil {
				return nil, false
			}
			f.S = string(sb)
		default:
			return nil, false
		}
		out = append(out, f)
	}
	return out, true
}

func toModelFields(fs []Field) models.Fields {
	m := models.Fields{}
	for _, f := range fs {
		switch f.Typ {
		case 'f':
			m[f.Key] = f.F
		case 'i':
			m[f.Key] = f.I
		case 'u':
			m[f.Key] = f.U
		case 'b':
			m[f.Key] = f.B
		case 's':
			m[f.Key] = f.S
		}
	}
	return m
}

// ---------------------------------------------------------------- observed fields of a parsed point

// valueFields renders p.Fields() (typed values), sorted by key.  Floats are bit patterns.
func valueFields(p models.Point) (s string) {
	defer func() {
		if r := recover(); r != nil {
			s = "PANIC"
		}
	}()
	fs, err := p.Fields()
	if err != nil {
		return "ERR"
	}
	if len(fs) == 0 {
		return "-"
	}
	keys := make([]string, 0, len(fs))
	for k := range fs {
		keys = append(keys, k)
	}
	sort.Strings(keys)
	out := make([]string, len(keys))
	for i, k := range keys {
		kk := h.HexS(k)
		switch v := fs[k].(type) {
		case float64:
			out[i] = kk + ":f:" + h.Hex64(math.Float64bits(v))
		case int64:
			out[i] = kk + ":i:" + strconv.FormatInt(v, 10)
		case uint64:
			out[i] = kk + ":u:" + strconv.FormatUint(v, 10)
		case bool:
			out[i] = kk + ":b:" + h.B(v)
		case string:
			out[i] = kk + ":s:" + h.HexS(v)
		default:
			out[i] = kk + ":?"
		}
	}
	return strings.Join(out, ",")
}

func guard(f func() string) (s string) {
	defer func() {
		if r := recover(); r != nil {
			s = "PANIC"
		}
	}()
	return f()
}

// iterFields walks the FieldIterator (in wire order, nothing skipped): key, type and the
// value accessor's answer.  Float values are not printed (type only): strconv's value
// conversion is outside the model (C12 is about acceptance, C11 compares float values).
func iterFields(p models.Point) string {
	return guard(func() string {
		it := p.FieldIterator()
		var out []string
		for n := 0; it.Next(); n++ {
			if n > 1<<20 {
				return "HANG"
			}
			kk := h.Hex(it.FieldKey())
			var v string
			switch it.Type() {
			case models.Integer:
				v = "i:" + guard(func() string {
					x, err := it.IntegerValue()
					if err != nil {
						return "!"
					}
					return strconv.FormatInt(x, 10)
				})
			case models.Unsigned:
				v = "u:" + guard(func() string {
					x, err := it.UnsignedValue()
					if err != nil {
						return "!"
					}
					return strconv.FormatUint(x, 10)
				})
			case models.Float:
				v = "f:" + guard(func() string {
					_, err := it.FloatValue()
					if err != nil {
						return "!"
					}
					return "ok"
				})
			case models.Boolean:
				v = "b:" + guard(func() string {
					x, err := it.BooleanValue()
					if err != nil {
						return "!"
					}
					return h.B(x)
				})
			case models.String:
				v = "s:" + guard(func() string { return h.HexS(it.StringValue()) })
			case models.Empty:
				v = "e:"
			default:
				v = "?:"
			}
			out = append(out, kk+":"+v)
		}
		if len(out) == 0 {
			return "-"
		}
		return strings.Join(out, ",")
	})
}

// ---------------------------------------------------------------- ops

func parseTime(s string) (time.Time, bool) {
	if s == "z" {
		return time.Time{}, true
	}
	v, err := strconv.ParseInt(s, 10, 64)
	if err != nil {
		return time.Time{}, false
	}
	return time.Unix(0, v), true
}

func errHex(err error) string {
	if err == nil {
		return "nil"
	}
	return h.HexS(err.Error())
}

// OpKey: key <name> <tags>   ->  <key> <name'> <tags'> pk=<ParseKey agrees>
func OpKey(t []string) string {
	if len(t) != 3 {
		return "bad-op"
	}
	name, err := h.UnHex(t[1])
	tags, ok := ParseTagsTok(t[2])
	if err != nil || !ok {
		return "bad-op"
	}
	key := models.MakeKey(name, tags)
	keyCopy := append([]byte(nil), key...)
	n, tg := models.ParseKeyBytes(key)
	s, tg2 := models.ParseKey(keyCopy)
	agree := s == string(n) && tg.Equal(tg2)
	return h.Hex(keyCopy) + " " + h.Hex(n) + " " + TagsString(tg) + " pk=" + h.B(agree)
}

// OpPK: pk <buf>  ->  <name> <tags>
func OpPK(t []string) string {
	if len(t) != 2 {
		return "bad-op"
	}
	buf, err := h.UnHex(t[1])
	if err != nil {
		return "bad-op"
	}
	// exact capacity: out-of-range slicing must not be hidden by spare capacity
	b := make([]byte, len(buf))
	copy(b, buf)
	n, tg := models.ParseKeyBytes(b[:len(b):len(b)])
	return h.Hex(n) + " " + TagsString(tg)
}

func pointDesc(p models.Point) string {
	key := guard(func() string { return h.Hex(p.Key()) })
	name := guard(func() string { return h.Hex(p.Name()) })
	tags := guard(func() string { return TagsString(p.Tags()) })
	tm := guard(func() string { return strconv.FormatInt(p.UnixNano(), 10) })
	return key + " " + name + " " + tags + " " + tm
}

// rawFields recovers the point's raw field text from String(): key SP fields [SP time].
func rawFields(p models.Point) string {
	return guard(func() string {
		s := p.String()
		k := p.Key()
		if len(s) < len(k)+1 || !bytes.Equal([]byte(s[:len(k)]), k) {
			return "?"
		}
		rest := s[len(k)+1:]
		if !p.Time().IsZero() {
			ts := " " + strconv.FormatInt(p.UnixNano(), 10)
			if !strings.HasSuffix(rest, ts) {
				return "?"
			}
			rest = rest[:len(rest)-len(ts)]
		}
		return h.HexS(rest)
	})
}

func validPrec(s string) bool {
	switch s {
	case "n", "ns", "u", "us", "ms", "s", "m", "h", "x":
		return true
	}
	return false
}

// OpPT: pt <prec> <deftime> <name> <tags> <fields> <time>
//
//	-> rej:<why> | <line> ok <key> <name> <tags> <time> <fields> | <line> err <errhex> | <line> n <count> <errhex>
func OpPT(t []string) string {
	if len(t) != 7 {
		return "bad-op"
	}
	prec := t[1]
	dt, err0 := strconv.ParseInt(t[2], 10, 64)
	name, err1 := h.UnHex(t[3])
	tags, ok1 := ParseTagsTok(t[4])
	fs, ok2 := ParseFieldsTok(t[5])
	tm, ok3 := parseTime(t[6])
	if err0 != nil || err1 != nil || !ok1 || !ok2 || !ok3 {
		return "bad-op"
	}
	switch prec {
	case "ns", "us", "ms", "s":
	default:
		return "bad-op"
	}
	p, err := models.NewPoint(string(name), tags, toModelFields(fs), tm)
	if err != nil {
		msg := err.Error()
		switch {
		case err == models.ErrPointMustHaveAField:
			return "rej:nofields"
		case err == models.ErrTimeOutOfRange:
			return "rej:time"
		case strings.HasPrefix(msg, "max key length exceeded"):
			return "rej:maxkey"
		case strings.Contains(msg, "unsupported value for field"), strings.HasPrefix(msg, "all fields must have non-empty names"):
			return "rej:field"
		}
		return "rej:?" + h.HexS(msg)
	}
	var line []byte
	if prec == "ns" {
		s := p.String()
		line = p.AppendString(nil)
		if s != string(line) || p.StringSize() != len(line) {
			return "render-mismatch"
		}
		if ps := p.PrecisionString("ns"); ps != s {
			return "render-mismatch-prec"
		}
	} else {
		line = []byte(p.PrecisionString(prec))
	}
	lineHex := h.Hex(line)
	buf := make([]byte, len(line))
	copy(buf, line)
	pts, perr := models.ParsePointsWithPrecision(buf[:len(buf):len(buf)], time.Unix(0, dt).UTC(), prec)
	if len(pts) != 1 || perr != nil {
		if len(pts) == 0 {
			return lineHex + " err " + errHex(perr)
		}
		return lineHex + " n " + strconv.Itoa(len(pts)) + " " + errHex(perr)
	}
	q := pts[0]
	return lineHex + " ok " + pointDesc(q) + " " + valueFields(q)
}

// OpPP: pp <prec> <deftime> <buf>
//
//	-> <npoints> <errhex> { | <key> <name> <tags> <time> <rawfields> <iterfields> <Fields() ok|ERR|PANIC> }*
func OpPP(t []string) string {
	if len(t) != 4 || !validPrec(t[1]) {
		return "bad-op"
	}
	dt, err0 := strconv.ParseInt(t[2], 10, 64)
	in, err1 := h.UnHex(t[3])
	if err0 != nil || err1 != nil {
		return "bad-op"
	}
	buf := make([]byte, len(in))
	copy(buf, in)
	pts, perr := models.ParsePointsWithPrecision(buf[:len(buf):len(buf)], time.Unix(0, dt).UTC(), t[1])
	var b strings.Builder
	fmt.Fprintf(&b, "%d %s", len(pts), errHex(perr))
	for _, p := range pts {
		fv := guard(func() string {
			_, err := p.Fields()
			if err != nil {
				return "ERR"
			}
			return "ok"
		})
		b.WriteString(" | " + pointDesc(p) + " " + rawFields(p) + " " + iterFields(p) + " " + fv)
	}
	return b.String()
}
