package lp

import (
	"math"
	"strconv"
	"strings"

	"verif/harness/h"
)

// Alphabet rich in the bytes the line protocol gives a meaning to.
var special = []string{",", "=", "\"", "\\", " ", "\n", "\t", "\x00", "#", "é", "\xff", "世", "\r", "'"}
var plain = []string{"a", "b", "c", "m", "k", "v", "x", "0", "1", "9", "-", ".", "i", "u", "t", "f", "e", "T", "F", "n", "N", "_", "+", "E"}

// Ident draws a byte string of 0..maxLen atoms; pSpecial is the chance of a special atom.
func Ident(r *h.Rand, minLen, maxLen int, pSpecial float64) string {
	n := minLen + r.Intn(maxLen-minLen+1)
	var b strings.Builder
	for i := 0; i < n; i++ {
		if r.Chance(pSpecial) {
			b.WriteString(h.Pick(r, special))
		} else {
			b.WriteString(h.Pick(r, plain))
		}
	}
	return b.String()
}

var reserved = []string{"_field", "_measurement", "time", "\xff", "\x00"}

var edgeInts = []int64{0, 1, -1, 9, 10, -10, math.MaxInt64, math.MinInt64, math.MaxInt64 - 1, math.MinInt64 + 1,
	999999999999999999, 1000000000000000000, -999999999999999999, -1000000000000000000, 123456789012345678}
var edgeUints = []uint64{0, 1, 9, 10, math.MaxUint64, math.MaxUint64 - 1, 1 << 63, 1<<63 - 1, 9999999999999999999, 10000000000000000000}
var edgeFloats = []float64{0, math.Copysign(0, -1), 1, -1, 0.5, 1.5, -2.25, 1e21, 1e22, 123456789.125, 1e-7, 5e-324, 2.2250738585072014e-308,
	math.MaxFloat64, -math.MaxFloat64, 1e308, 1.7976931348623155e308, 3.141592653589793, 1e23, 9007199254740993, 0.1, 100, 1e25, 123456789012345678901234567890}
var edgeTimes = []int64{0, 1, -1, math.MinInt64 + 2, math.MaxInt64 - 1, math.MinInt64 + 1, math.MinInt64, math.MaxInt64, 1600000000000000000,
	1600000000123456789, -1600000000123456789, 999, 1000, -999, -1000, 999999, 1000000, 999999999, 1000000000, 9223372036854775000, -9223372036854775000,
	9223372036000000000, -9223372036000000000, 9223372036854000000, 9223372036854775806, -9223372036854775806}

func RandFloat(r *h.Rand) float64 {
	switch r.Intn(6) {
	case 0:
		return h.Pick(r, edgeFloats)
	case 1:
		return float64(r.Range(-1000, 1000))
	case 2:
		return float64(r.Range(-1000000, 1000000)) / 1024
	case 3:
		f := math.Float64frombits(r.Uint64())
		if math.IsNaN(f) || math.IsInf(f, 0) {
			return 7
		}
		return f
	case 4:
		return math.Ldexp(float64(r.Range(1, 1<<52)), int(r.Range(-1074, 970)))
	default:
		return float64(r.Range(-99, 99)) / 10
	}
}

// RandField draws a field value; wild: also NaN/Inf.
func RandField(r *h.Rand, key string, wild bool) Field {
	f := Field{Key: key}
	switch r.Intn(5) {
	case 0:
		f.Typ = 'f'
		f.F = RandFloat(r)
		if wild && r.Chance(0.05) {
			f.F = h.Pick(r, []float64{math.NaN(), math.Inf(1), math.Inf(-1)})
		}
	case 1:
		f.Typ = 'i'
		if r.Bool() {
			f.I = h.Pick(r, edgeInts)
		} else {
			f.I = r.Range(-100000, 100000)
		}
	case 2:
		f.Typ = 'u'
		if r.Bool() {
			f.U = h.Pick(r, edgeUints)
		} else {
			f.U = uint64(r.Range(0, 100000))
		}
	case 3:
		f.Typ = 'b'
		f.B = r.Bool()
	default:
		f.Typ = 's'
		f.S = Ident(r, 0, 8, 0.4)
	}
	return f
}

func RandTime(r *h.Rand) int64 {
	switch r.Intn(4) {
	case 0:
		return h.Pick(r, edgeTimes)
	case 1:
		return r.Range(-2000000000, 2000000000) * int64(h.Pick(r, []int64{1, 1000, 1000000, 1000000000}))
	case 2:
		return int64(r.Uint64())
	default:
		return 1600000000000000000 + r.Range(0, 1000000000000)
	}
}

// ---------------------------------------------------------------- text lines for the parser

// escape the way a well-behaved client would (every special gets a backslash)
func escKey(s string, specials string) string {
	var b strings.Builder
	for i := 0; i < len(s); i++ {
		if strings.IndexByte(specials, s[i]) >= 0 {
			b.WriteByte('\\')
		}
		b.WriteByte(s[i])
	}
	return b.String()
}

func fieldValueText(r *h.Rand) string {
	switch r.Intn(12) {
	case 0:
		return strconv.FormatInt(h.Pick(r, edgeInts), 10) + "i"
	case 1:
		return strconv.FormatUint(h.Pick(r, edgeUints), 10) + "u"
	case 2:
		return h.Pick(r, []string{"t", "T", "true", "True", "TRUE", "f", "F", "false", "False", "FALSE", "tRUE", "truE", "fals", "falsee", "tr", "yes"})
	case 3:
		return "\"" + strings.NewReplacer("\"", "\\\"", "\\", "\\\\").Replace(Ident(r, 0, 6, 0.5)) + "\""
	case 4:
		return strconv.FormatFloat(RandFloat(r), h.Pick(r, []byte{'f', 'e', 'g', 'E'}), -1, 64)
	case 5:
		return h.Pick(r, numberOddities)
	case 6:
		// long digit strings around the int/uint/float thresholds
		n := h.Pick(r, []int{17, 18, 19, 20, 21, 24, 25, 26, 27, 28, 300, 308, 309, 310, 311, 320})
		s := strings.Repeat(h.Pick(r, []string{"9", "1", "0", "5"}), n)
		if r.Chance(0.3) {
			s = "1" + s[1:]
		}
		if r.Chance(0.3) {
			s = "-" + s
		}
		return s + h.Pick(r, []string{"", "i", "u", ".0", ".", "e0"})
	case 7:
		return strconv.FormatInt(r.Range(-1000, 1000), 10) + h.Pick(r, []string{"", "i", "u", ".5", "e3", "E-2", "e+1"})
	case 8:
		// near the float64 overflow threshold 1.797693134862315807937e308
		m := h.Pick(r, []string{"1.7976931348623157", "1.7976931348623158", "1.79769313486231580793", "1.797693134862315807937289714053034150799341327100378269361737789804449682927647509466490179775872070963302864166928879109465555478519404026306574886715058206819089020007083836762738548458177115317644757302700698555713669596228429148198608349364752927190741684443655107043427115596995080930428801779041744977919", "1.797693134862315807937289714053034150799341327100378269361737789804449682927647509466490179775872070963302864166928879109465555478519404026306574886715058206819089020007083836762738548458177115317644757302700698555713669596228429148198608349364752927190741684443655107043427115596995080930428801779041744977920", "1.7976931348623159", "17976931348623158", "0.17976931348623158", "179769313486231580793728971405303415079934132710037826936173778980444968292764750946649017977587207096330286416692887910946555547851940402630657488671505820681908902000708383676273854845817711531764475730270069855571366959622842914819860834936475292719074168444365510704342711559699508093042880177904174497791", "179769313486231580793728971405303415079934132710037826936173778980444968292764750946649017977587207096330286416692887910946555547851940402630657488671505820681908902000708383676273854845817711531764475730270069855571366959622842914819860834936475292719074168444365510704342711559699508093042880177904174497792"})
		e := h.Pick(r, []string{"e308", "e307", "e309", "E308", "e+308", "", "e292", "e0", "e1"})
		s := m + e
		if r.Chance(0.3) {
			s = "-" + s
		}
		return s
	case 9:
		return Ident(r, 1, 5, 0.3)
	default:
		return strconv.FormatFloat(float64(r.Range(-999, 999))/8, 'f', -1, 64)
	}
}

var numberOddities = []string{"1e", "1e+", "1e-", "1E5", "1e5e5", "-e5", "1.e5", ".e5", ".5", "5.", "-.5", "-5.", ".", "-", "-.", "1..2", "1.2.3", "--1", "-1-", "1-", "+1", "1+",
	"1e400", "1e-400", "-1e400", "0e999999999", "1e999999999999999999999", "1e-999999999999999999999", "0.0e400", "00001", "1i2", "9i10", "1iu", "1ui", "i", "u", "1.5i", "1e5i", "1e5u", "-1u", "-0u", "-0i", "-i", "-u",
	"NaN", "nan", "N", "n", "Na", "Inf", "inf", "+Inf", "-Inf", "-NaN", "-n", "nu", "1n", "0x10", "1_000", "1e1_0", "0b1", "1e+5", "1e-5", "1E+5i", "01e1", "1e01", "1e+-1",
	"18446744073709551615u", "18446744073709551616u", "9223372036854775807i", "9223372036854775808i", "-9223372036854775808i", "-9223372036854775809i", "00000000000000000000i", "000000000000000000000000001u",
	"-00000000000000000000000001i", "99999999999999999999999999", "1.0000000000000000000000000", "0.0000000000000000000000000000000000001", "1e3u", ".i", ".u", "-.i", "\"", "\"\"", "\"a", "a\"", "\"a\"b", "\"a\"\"b\"", "\"\\\"", "\"\\", "\"\\\\\"", "\"a,b c=d\""}

// WellFormedLine writes a plausible line; sloppy > 0 lets some parts be unescaped or odd.
func WellFormedLine(r *h.Rand, sloppy float64) string {
	var b strings.Builder
	name := Ident(r, 1, 6, 0.2)
	if r.Chance(sloppy) {
		b.WriteString(name)
	} else {
		b.WriteString(escKey(name, ", "))
	}
	ntags := h.Pick(r, []int{0, 0, 1, 1, 2, 3, 5})
	if r.Chance(0.01) {
		ntags = h.Pick(r, []int{99, 100, 101, 102, 200, 201})
	}
	var keys []string
	for i := 0; i < ntags; i++ {
		k := Ident(r, 1, 4, 0.2)
		if ntags > 20 {
			k = "k" + strconv.Itoa(r.Intn(1000))
		}
		if r.Chance(0.1) && len(keys) > 0 {
			k = h.Pick(r, keys) // duplicate
		}
		if r.Chance(0.03) {
			k = h.Pick(r, reserved)
		}
		keys = append(keys, k)
	}
	if r.Chance(0.5) {
		// sorted, as clients usually send them
		for i := 1; i < len(keys); i++ {
			for j := i; j > 0 && keys[j] < keys[j-1]; j-- {
				keys[j], keys[j-1] = keys[j-1], keys[j]
			}
		}
	}
	for _, k := range keys {
		v := Ident(r, 1, 4, 0.2)
		b.WriteByte(',')
		if r.Chance(sloppy) {
			b.WriteString(k + "=" + v)
		} else {
			b.WriteString(escKey(k, ", =") + "=" + escKey(v, ", ="))
		}
	}
	b.WriteString(h.Pick(r, []string{" ", " ", " ", "  ", " \t", "\t"}))
	nf := h.Pick(r, []int{1, 1, 1, 2, 3, 4})
	for i := 0; i < nf; i++ {
		if i > 0 {
			b.WriteByte(',')
		}
		k := Ident(r, 1, 4, 0.2)
		if r.Chance(sloppy) {
			b.WriteString(k)
		} else {
			b.WriteString(escKey(k, ", =\""))
		}
		if r.Chance(0.04) {
			// escape pair right before the '=': scanFields and walkFields disagree about it
			b.WriteString(h.Pick(r, []string{"\\\\", "\\", "\\\\\\"}))
		}
		b.WriteByte('=')
		if r.Chance(0.05) {
			b.WriteString("\"" + h.Pick(r, []string{"a=", "=", "x,y=1", "a=\"b", "a b=", "="}) + "\"")
		} else {
			b.WriteString(fieldValueText(r))
		}
	}
	switch r.Intn(6) {
	case 0:
	case 1:
		b.WriteString(" ")
	case 2:
		b.WriteString(" " + strconv.FormatInt(h.Pick(r, edgeTimes)/int64(h.Pick(r, []int64{1, 1, 1000, 1000000, 1000000000})), 10))
	case 3:
		b.WriteString(" " + strconv.FormatInt(r.Range(-5000000000, 5000000000), 10) + h.Pick(r, []string{"", "", " ", "  ", " x", "\t", "x"}))
	case 4:
		b.WriteString(" " + h.Pick(r, []string{"-", "--1", "1-1", "9223372036854775807", "9223372036854775808", "-9223372036854775808", "-9223372036854775809", "99999999999999999999", "1.5", "1e9", "+1", "0", "-0", "00012", " 12", "12 13", "12\t", "\t12"}))
	default:
		b.WriteString(" " + strconv.FormatInt(RandTime(r), 10))
	}
	return b.String()
}

// Mutate applies 1..3 byte-level edits.
func Mutate(r *h.Rand, s string) string {
	b := []byte(s)
	n := 1 + r.Intn(3)
	for k := 0; k < n; k++ {
		atom := []byte(h.Pick(r, special))
		if r.Chance(0.3) {
			atom = []byte(h.Pick(r, plain))
		}
		switch op := r.Intn(6); {
		case op == 0 && len(b) > 0: // delete
			i := r.Intn(len(b))
			b = append(b[:i:i], b[i+1:]...)
		case op == 1: // insert
			i := r.Intn(len(b) + 1)
			b = append(b[:i:i], append(atom, b[i:]...)...)
		case op == 2 && len(b) > 0: // replace
			i := r.Intn(len(b))
			b = append(b[:i:i], append(atom, b[i+1:]...)...)
		case op == 3 && len(b) > 0: // truncate
			b = b[:r.Intn(len(b))]
		case op == 4 && len(b) > 1: // swap neighbours
			i := r.Intn(len(b) - 1)
			b[i], b[i+1] = b[i+1], b[i]
		case op == 5 && len(b) > 0: // duplicate a byte
			i := r.Intn(len(b))
			b = append(b[:i:i], append([]byte{b[i]}, b[i:]...)...)
		}
	}
	return string(b)
}

var rawAtoms = []string{",", "=", "\"", "\\", " ", "\n", "a", "b", "1", "i", "u", "t", "-", ".", "e", "\t", "\x00", "#", "\\\\", "\\,", "\\ ", "\\=", "\\\"", "a=1", "m ", ",k=v", "\xff", "_field", "time"}

func RawBytes(r *h.Rand, maxAtoms int) string {
	n := r.Intn(maxAtoms + 1)
	var b strings.Builder
	for i := 0; i < n; i++ {
		b.WriteString(h.Pick(r, rawAtoms))
	}
	return b.String()
}

var Precisions = []string{"ns", "ns", "ns", "n", "u", "us", "ms", "s", "m", "h", "x"}
var DefTimes = []int64{1600000000123456789, 0, -1, -1600000000123456789, 999, 3599999999999, 9223372036854775806, -9223368436854775806}

// KeyBoundaryLines: the minimal shape on which only the per-field check
// len(key)+4+len(fieldKey) > MaxKeyLength decides: ONE field with a one-character value, no
// timestamp, nothing after it (so the line itself is at most MaxKeyLength bytes long when the
// composite key is MaxKeyLength+1).  Field-key length L, key lengths MaxKeyLength-4-L-2 … +2;
// measurement only, sorted tags, unsorted tags (the key is rebuilt).
func KeyBoundaryLines(L int) []string {
	const max = 65535
	fk := strings.Repeat("f", L)
	var out []string
	for d := -2; d <= 2; d++ {
		k := max - 4 - L + d
		out = append(out, strings.Repeat("a", k)+" "+fk+"=1")
		out = append(out, "m,k="+strings.Repeat("v", k-4)+" "+fk+"=1")
		out = append(out, "m,z=1,k="+strings.Repeat("v", k-8)+" "+fk+"=1")
	}
	return out
}

// LongKeyLines: lines around MaxKeyLength (65535).
func LongKeyLines(r *h.Rand) string {
	switch r.Intn(6) {
	case 0: // measurement only
		n := h.Pick(r, []int{65534, 65535, 65536, 65530, 65531})
		return strings.Repeat("m", n) + " f=1"
	case 1: // measurement + tags, sorted
		n := h.Pick(r, []int{65535, 65536, 65531, 65530, 65529})
		return "m,k=" + strings.Repeat("v", n-4) + " f=1"
	case 2: // unsorted tags: the key is rebuilt
		n := h.Pick(r, []int{65535, 65536, 65534})
		return "m,z=1,k=" + strings.Repeat("v", n-8) + " f=1"
	case 3: // field key pushes the series key over: len(key)+4+len(field) > 65535
		n := h.Pick(r, []int{65529, 65530, 65531, 65528})
		return strings.Repeat("m", n) + " f=1,gg=2"
	case 4: // long escaped field key
		n := h.Pick(r, []int{65525, 65526, 65527, 65528})
		return strings.Repeat("m", 4) + " " + strings.Repeat("\\,", n/2) + "f=1"
	default: // second field too long, first fine; and an invalid field behind it
		return strings.Repeat("m", 60000) + " a=1," + strings.Repeat("g", 5600) + "=2,=3"
	}
}
