// Harness for C11: real models.NewPoint -> String/AppendString/PrecisionString ->
// ParsePointsWithPrecision, and MakeKey -> ParseKeyBytes/ParseKey, over an alphabet rich in
// `, = " \` space, newline, multi-byte runes; all field types with extreme values; every
// supported precision.  Protocol: lean/Influx/Drv/C11.lean.
package main

import (
	"sort"
	"strconv"
	"time"

	"github.com/influxdata/influxdb/v2/models"
	"verif/harness/cmd/c11/lp"
	"verif/harness/h"
)

func op(t []string) string {
	if len(t) == 0 {
		return "bad-op"
	}
	switch t[0] {
	case "key":
		return lp.OpKey(t)
	case "pt":
		return lp.OpPT(t)
	}
	return "bad-op"
}

// identFor draws a name / key / value.  mode 0: harmless bytes only; 1: specials but none of
// the shapes the escaping cannot represent (no backslash); 2: anything.
func identFor(r *h.Rand, mode, minLen, maxLen int) string {
	switch mode {
	case 0:
		return lp.Ident(r, minLen, maxLen, 0)
	case 1:
		for {
			s := lp.Ident(r, minLen, maxLen, 0.35)
			ok := true
			for i := 0; i < len(s); i++ {
				if s[i] == '\\' || s[i] == '\n' {
					ok = false
				}
			}
			if ok {
				return s
			}
		}
	default:
		return lp.Ident(r, minLen, maxLen, 0.45)
	}
}

func genTags(r *h.Rand, mode int) models.Tags {
	n := h.Pick(r, []int{0, 1, 1, 2, 3, 4})
	if r.Chance(0.01) {
		n = h.Pick(r, []int{20, 99, 100, 101, 130})
	}
	var tags models.Tags
	seen := map[string]bool{}
	for i := 0; i < n; i++ {
		k := identFor(r, mode, 1, 4)
		if n > 10 {
			k = "k" + strconv.Itoa(r.Intn(100000))
		}
		v := identFor(r, mode, 1, 4)
		if mode == 2 {
			if r.Chance(0.05) {
				k = ""
			}
			if r.Chance(0.05) {
				v = ""
			}
			if r.Chance(0.05) {
				k = h.Pick(r, []string{"_field", "_measurement", "time", "\xff", "\x00"})
			}
		}
		if seen[k] && !(mode == 2 && r.Chance(0.3)) {
			continue
		}
		seen[k] = true
		tags = append(tags, models.Tag{Key: []byte(k), Value: []byte(v)})
	}
	if mode < 2 || r.Chance(0.7) {
		sort.Sort(tags)
	}
	return tags
}

func genFields(r *h.Rand, mode int) []lp.Field {
	n := h.Pick(r, []int{1, 1, 2, 3, 4})
	if mode == 2 && r.Chance(0.03) {
		n = 0
	}
	var fs []lp.Field
	seen := map[string]bool{}
	for i := 0; i < n; i++ {
		k := identFor(r, mode, 1, 4)
		if mode == 2 && r.Chance(0.03) {
			k = ""
		}
		if seen[k] {
			continue
		}
		seen[k] = true
		f := lp.RandField(r, k, mode == 2)
		if f.Typ == 's' && mode < 2 {
			f.S = lp.Ident(r, 0, 8, 0.4) // string values may hold anything
		}
		fs = append(fs, f)
	}
	return fs
}

func ptOp(r *h.Rand, mode int) string {
	prec := h.Pick(r, []string{"ns", "ns", "us", "ms", "s"})
	name := identFor(r, mode, 1, 6)
	if mode == 2 && r.Chance(0.03) {
		name = ""
	}
	tags := genTags(r, mode)
	fs := genFields(r, mode)
	tm := "z"
	if !r.Chance(0.1) {
		t := lp.RandTime(r)
		if mode < 2 || r.Chance(0.7) {
			// representable at the precision
			m := map[string]int64{"ns": 1, "us": 1000, "ms": 1000000, "s": 1000000000}[prec]
			t = t / m * m
		}
		tm = strconv.FormatInt(t, 10)
	}
	return "pt " + prec + " " + strconv.FormatInt(h.Pick(r, lp.DefTimes), 10) + " " + h.HexS(name) + " " + lp.TagsString(tags) + " " + lp.FieldsTok(fs) + " " + tm
}

func keyOp(r *h.Rand, mode int) string {
	name := identFor(r, mode, 0, 6)
	tags := genTags(r, mode)
	return "key " + h.HexS(name) + " " + lp.TagsString(tags)
}

// longOps: around MaxKeyLength
func longOps(r *h.Rand) []string {
	var out []string
	for _, n := range []int{65520, 65529, 65530, 65531, 65534, 65535, 65536} {
		name := make([]byte, n)
		for i := range name {
			name[i] = 'm'
		}
		out = append(out, "pt ns 5 "+h.Hex(name)+" - "+h.HexS("f")+":i:1 7")
		out = append(out, "pt ns 5 "+h.Hex(name[:n-8])+" "+h.HexS("k")+":"+h.HexS("v")+" "+h.HexS("f,")+":i:1 7")
	}
	return out
}

func gen(r *h.Rand, tier string, emit func([]string)) {
	cases := 200
	if tier == "thorough" {
		cases = 4000
	}
	for c := 0; c < cases; c++ {
		var ops []string
		for i := 0; i < 50; i++ {
			mode := h.Pick(r, []int{0, 1, 1, 1, 2, 2})
			if r.Chance(0.3) {
				ops = append(ops, keyOp(r, mode))
			} else {
				ops = append(ops, ptOp(r, mode))
			}
		}
		if c%64 == 0 {
			ops = append(ops, longOps(r)...)
		}
		emit(ops)
	}
}

func main() {
	h.Main(h.Harness{Gen: gen, NewCase: h.Stateless(op), OpTimeout: 20 * time.Second})
}
