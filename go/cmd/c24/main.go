// Harness for C24 ("the task scheduler dispatches each due run once, in order, and stops on release").
//
// Real code driven in-process: scheduler.NewScheduler / TreeScheduler.Schedule / Release / When / Stop
// with scheduler.NewSchedule schedules (real influxdata/cron), the benbjohnson mock clock for the
// logic operations and the real clock for the spin clause, plus run.SchedulerPulseCheck on When().
//
// Protocol (one case = one scheduler; all times in milliseconds since the mock epoch):
//
//	new <nworkers>
//	sched <id> <e|c> <periodSec> <offsetMs> <lastSec>   Schedule(id, "@every Ns" | "*/N * * * * *", offset, last)
//	rel <id>                                            Release(id)
//	adv <ms>                                            clock.Add
//	block <id> | unblock <id>                           the executor of <id> blocks inside Execute until unblocked
//	spin <r|s> <aMs> <bMs>                              real clock, own scheduler: Schedule(A due +a); Release(A) (r) ;
//	                                                    Schedule(B|A due +b); observe the loop between a and b
//
// Answer of a logic op:  <res>|<runs>|<when>|<flags>
//
//	(the whole answer is `hang` when the mock clock or the scheduler did not come to rest, `skipped` after that)
//	res    ok | ok:<LastScheduled passed to Schedule, seconds (after NewSchedule's alignment)> | err
//	runs   Execute calls STARTED during the op, per id in call order, ids ascending:  id:scheduledForMs:runAtMs
//	when   TreeScheduler.When() after the scheduler went quiescent, ms (or - for the zero time)
//	flags  c<0|1> (an Execute of an id overlapped another Execute of the same id)
//	       k<0|1> (a checkpoint UpdateLastScheduled(id,t) did not follow its Execute(id,t))
//
// Answer of spin:  spin=<0|1>|when=<B|A|zero|other>|pulse=<pass|fail>|runs=<nA>,<nB>
//
// Quiescence is detected deterministically from goroutine states (the loop goroutine blocked in its
// select, every worker blocked in a channel receive), not by sleeping.
package main

import (
	"bytes"
	"context"
	"encoding/binary"
	"fmt"
	"regexp"
	"runtime"
	"sort"
	"strconv"
	"strings"
	"sync"
	"time"

	"github.com/benbjohnson/clock"
	"github.com/cespare/xxhash/v2"
	"github.com/influxdata/influxdb/v2/cmd/influxd/run"
	"github.com/influxdata/influxdb/v2/kit/check"
	"github.com/influxdata/influxdb/v2/task/backend/scheduler"
	"verif/harness/h"
)

// ---------------------------------------------------------------- schedulable

type schedulable struct {
	id     scheduler.ID
	sch    scheduler.Schedule
	offset time.Duration
	last   time.Time
}

func (s schedulable) ID() scheduler.ID             { return s.id }
func (s schedulable) Schedule() scheduler.Schedule { return s.sch }
func (s schedulable) Offset() time.Duration        { return s.offset }
func (s schedulable) LastScheduled() time.Time     { return s.last }

// ---------------------------------------------------------------- executor / checkpointer

type runRec struct {
	id     scheduler.ID
	sf, at time.Time
}

type exec struct {
	mu       sync.Mutex
	started  []runRec
	inflight map[scheduler.ID]int
	lastSF   map[scheduler.ID]time.Time
	blocked  map[scheduler.ID]chan struct{}
	conc     bool
	ckBad    bool
	total    int                   // Execute calls entered
	exits    int                   // Execute calls returned
	inGate   map[scheduler.ID]bool // executions currently held by the environment
}

func newExec() *exec {
	return &exec{inflight: map[scheduler.ID]int{}, lastSF: map[scheduler.ID]time.Time{}, blocked: map[scheduler.ID]chan struct{}{},
		inGate: map[scheduler.ID]bool{}}
}

func (e *exec) Execute(ctx context.Context, id scheduler.ID, scheduledFor time.Time, runAt time.Time) error {
	e.mu.Lock()
	e.inflight[id]++
	if e.inflight[id] > 1 {
		e.conc = true
	}
	e.started = append(e.started, runRec{id, scheduledFor, runAt})
	e.lastSF[id] = scheduledFor
	e.total++
	gate := e.blocked[id]
	if gate != nil {
		e.inGate[id] = true
	}
	e.mu.Unlock()
	if gate != nil {
		<-gate
	}
	e.mu.Lock()
	delete(e.inGate, id)
	e.inflight[id]--
	e.exits++
	e.mu.Unlock()
	return nil
}

func (e *exec) UpdateLastScheduled(ctx context.Context, id scheduler.ID, t time.Time) error {
	e.mu.Lock()
	if !e.lastSF[id].Equal(t) {
		e.ckBad = true
	}
	e.mu.Unlock()
	return nil
}

func (e *exec) count() int {
	e.mu.Lock()
	defer e.mu.Unlock()
	return e.total
}

// counts returns (entered, returned, ids held by the environment inside Execute)
func (e *exec) counts() (int, int, []scheduler.ID) {
	e.mu.Lock()
	defer e.mu.Unlock()
	var held []scheduler.ID
	for id := range e.inGate {
		held = append(held, id)
	}
	return e.total, e.exits, held
}

// workerOf mirrors TreeScheduler.iterator: xxhash of the id's 8 little-endian bytes mod workers.
func workerOf(id scheduler.ID, workers int) uint64 {
	var buf [8]byte
	binary.LittleEndian.PutUint64(buf[:], uint64(id))
	return xxhash.Sum64(buf[:]) % uint64(workers)
}

// ---------------------------------------------------------------- goroutine states

var hdrRe = regexp.MustCompile(`^goroutine \d+ \[([^\],]+)`)

// schedStates returns the wait state of the scheduler loop goroutine(s) and of the worker goroutines.
func schedStates() (loops, workers []string) {
	buf := make([]byte, 1<<18)
	for {
		n := runtime.Stack(buf, true)
		if n < len(buf) {
			buf = buf[:n]
			break
		}
		buf = make([]byte, 2*len(buf))
	}
	for _, blk := range bytes.Split(buf, []byte("\n\n")) {
		m := hdrRe.FindSubmatch(blk)
		if m == nil {
			continue
		}
		switch {
		case bytes.Contains(blk, []byte("scheduler.(*TreeScheduler).work(")):
			workers = append(workers, string(m[1]))
		case bytes.Contains(blk, []byte("scheduler.NewScheduler.func")):
			loops = append(loops, string(m[1]))
		}
	}
	return
}

type quiet int

const (
	qIdle quiet = iota
	qSpinning
	qStuck // no quiescent state within the deadline
)

// allParked reports whether the loop goroutine exists once, all workers are parked in a channel
// receive, and whether the loop goroutine is parked in its select.
func allParked(nworkers int) (parked bool, loopIdle bool) {
	loops, workers := schedStates() // stop-the-world snapshot
	if len(loops) != 1 || len(workers) != nworkers {
		return false, false
	}
	for _, w := range workers {
		if w != "chan receive" {
			return false, false
		}
	}
	return true, loops[0] == "select"
}

// waitQuiesce polls until the scheduler can make no further progress on its own:
//
//	idle      the loop goroutine is parked in its select and every worker is parked (one snapshot);
//	spinning  the loop keeps running because something is due, but every due item's worker is held by
//	          the environment: (1) all workers parked, (2) no Execute in flight except the held ones,
//	          (3) every item of the tree that is due belongs to a held worker, (1') all workers still
//	          parked and (2') no Execute entered or returned since (2).  A dispatch between (1) and (1')
//	          unparks a worker, which can only park again after entering Execute, so (1')+(2') exclude it;
//	          and no further dispatch is possible in the state seen at (3).
func waitQuiesce(c *runner) quiet {
	e, nworkers := c.e, c.n
	deadline := time.Now().Add(60 * time.Second)
	for i := 0; ; i++ {
		if i%64 == 63 && time.Now().After(deadline) {
			return qStuck
		}
		parked, idle := allParked(nworkers)
		if parked && idle {
			return qIdle
		}
		if parked {
			in1, out1, held := e.counts()
			if in1 == out1+len(held) && len(held) > 0 {
				items, nw := c.s.VerifItems()
				now := c.mock.Now()
				heldW := map[uint64]bool{}
				for _, id := range held {
					heldW[workerOf(id, nw)] = true
				}
				due, stuck := 0, true
				for _, it := range items {
					if !it.When.After(now) {
						due++
						if !heldW[workerOf(it.ID, nw)] {
							stuck = false
						}
					}
				}
				if due > 0 && stuck {
					parked2, idle2 := allParked(nworkers)
					in2, out2, _ := e.counts()
					if parked2 && !idle2 && in2 == in1 && out2 == out1 {
						// The loop keeps passing; `when` is rewritten by every pass (s.when = min.When()).
						// Let one complete pass run after this point so that When() reflects the
						// tree as it is now (e.g. after a Release in this state) and not the pass before.
						it0 := scheduler.VerifLoopIters.Load()
						for scheduler.VerifLoopIters.Load() < it0+2 {
							if time.Now().After(deadline) {
								return qStuck
							}
							runtime.Gosched()
						}
						return qSpinning
					}
				}
			}
		}
		switch {
		case i < 20:
			runtime.Gosched()
		case i < 200:
			time.Sleep(100 * time.Microsecond)
		default:
			time.Sleep(time.Millisecond)
		}
	}
}

// ---------------------------------------------------------------- the case runner

var epoch = time.Unix(0, 0).UTC()

type runner struct {
	mock   *clock.Mock
	s      *scheduler.TreeScheduler
	e      *exec
	n      int
	wedged bool // a clock.Add did not return (or the scheduler never went quiescent): no further clock moves
}

// add moves the mock clock under a watchdog.  clock.Mock.Add loops for ever when the code under
// test re-arms its timer in the past on every tick (the F8 shape before the repair).
func (c *runner) add(d time.Duration) {
	if c.wedged {
		return
	}
	done := make(chan struct{})
	go func() { c.mock.Add(d); close(done) }()
	select {
	case <-done:
	case <-time.After(10 * time.Second):
		c.wedged = true
	}
}

func (c *runner) quiesce() quiet {
	if c.wedged {
		return qStuck
	}
	q := waitQuiesce(c)
	if q == qStuck {
		c.wedged = true
	}
	return q
}

func newCase() h.CaseRunner { return &runner{} }

func (c *runner) Close() {
	if c.s != nil {
		c.e.mu.Lock()
		for id, g := range c.e.blocked {
			close(g)
			delete(c.e.blocked, id)
		}
		c.e.mu.Unlock()
		stopped := make(chan struct{})
		go func(s *scheduler.TreeScheduler) { s.Stop(); close(stopped) }(c.s)
		select {
		case <-stopped:
		case <-time.After(3 * time.Second): // wedged scheduler: leave it behind
		}
		c.s = nil
	}
}

func ms(t time.Time) string {
	if t.IsZero() {
		return "-"
	}
	return strconv.FormatInt(t.Sub(epoch).Milliseconds(), 10)
}

// settle lets the scheduler run to quiescence; expired mock timers only fire inside Add, so Add(0)
// is repeated until a round produces no loop iteration.
func (c *runner) settle() {
	for round := 0; round < 200 && !c.wedged; round++ {
		if c.quiesce() != qIdle {
			return
		}
		before := scheduler.VerifLoopIters.Load()
		c.add(0)
		if c.quiesce() != qIdle || scheduler.VerifLoopIters.Load() == before {
			return
		}
	}
}

// advance moves the mock clock to now+d without ever changing "now" while the scheduler goroutine
// runs: clock.Mock.Add fires a timer, sleeps 1 ms and then jumps to its target, so a scheduler that
// is still computing `until := when.Sub(Now())` would re-arm its timer relative to a different now
// (an artefact of the mock; real time does not jump).  The clock is therefore stepped from one
// reported wake-up time (When()) to the next, waiting for quiescence after each step.
func (c *runner) advance(d time.Duration) {
	target := c.mock.Now().Add(d)
	for i := 0; i < 100000 && !c.wedged; i++ {
		c.settle()
		if c.quiesce() != qIdle {
			break
		}
		w, now := c.s.When(), c.mock.Now()
		if !w.IsZero() && w.After(now) && !w.After(target) {
			c.add(w.Sub(now))
			continue
		}
		break
	}
	if now := c.mock.Now(); target.After(now) {
		c.add(target.Sub(now))
	}
}

func (c *runner) observe(res string) string {
	c.settle()
	if c.wedged {
		return "hang"
	}
	c.e.mu.Lock()
	st := c.e.started
	c.e.started = nil
	conc, ck := c.e.conc, c.e.ckBad
	c.e.mu.Unlock()
	sort.SliceStable(st, func(i, j int) bool { return st[i].id < st[j].id })
	var rs []string
	for _, r := range st {
		rs = append(rs, fmt.Sprintf("%d:%s:%s", uint64(r.id), ms(r.sf), ms(r.at)))
	}
	return res + "|" + h.Join(rs) + "|" + ms(c.s.When()) + "|c" + h.B(conc) + "k" + h.B(ck)
}

func cronString(kind string, p uint64) string {
	if kind == "e" {
		return fmt.Sprintf("@every %ds", p)
	}
	return fmt.Sprintf("*/%d * * * * *", p)
}

func (c *runner) Op(t []string) string {
	bad := "bad-op"
	if len(t) == 0 {
		return bad
	}
	num := func(s string) (uint64, bool) {
		v, err := strconv.ParseUint(s, 10, 40)
		return v, err == nil
	}
	if t[0] == "new" {
		if len(t) != 2 || c.s != nil {
			return bad
		}
		n, ok := num(t[1])
		if !ok || n == 0 || n > 8 {
			return bad
		}
		c.mock = clock.NewMock()
		c.e = newExec()
		c.n = int(n)
		s, _, err := scheduler.NewScheduler(c.e, c.e, scheduler.WithTime(c.mock), scheduler.WithMaxConcurrentWorkers(c.n))
		if err != nil {
			return "err"
		}
		c.s = s
		return c.observe("ok")
	}
	if t[0] == "spin" {
		if len(t) != 4 || (t[1] != "r" && t[1] != "s") {
			return bad
		}
		a, ok1 := num(t[2])
		b, ok2 := num(t[3])
		if !ok1 || !ok2 || a < 20 || b < a+400 || b > 2500 {
			return bad
		}
		return spin(t[1], time.Duration(a)*time.Millisecond, time.Duration(b)*time.Millisecond)
	}
	if c.s == nil {
		return bad
	}
	if c.wedged {
		return "skipped"
	}
	switch t[0] {
	case "sched":
		if len(t) != 6 || (t[2] != "e" && t[2] != "c") {
			return bad
		}
		id, ok1 := num(t[1])
		p, ok2 := num(t[3])
		off, err3 := strconv.ParseInt(t[4], 10, 40)
		last, ok4 := num(t[5])
		if !ok1 || !ok2 || err3 != nil || !ok4 {
			return bad
		}
		sch, ts, err := scheduler.NewSchedule(cronString(t[2], p), time.Unix(int64(last), 0))
		if err != nil {
			return c.observe("err")
		}
		err = c.s.Schedule(schedulable{id: scheduler.ID(id), sch: sch, offset: time.Duration(off) * time.Millisecond, last: ts})
		if err != nil {
			return c.observe("err")
		}
		return c.observe("ok:" + strconv.FormatInt(ts.Unix(), 10))
	case "rel":
		if len(t) != 2 {
			return bad
		}
		id, ok := num(t[1])
		if !ok {
			return bad
		}
		if err := c.s.Release(scheduler.ID(id)); err != nil {
			return c.observe("err")
		}
		return c.observe("ok")
	case "adv":
		if len(t) != 2 {
			return bad
		}
		d, ok := num(t[1])
		if !ok || d > 3600_000 {
			return bad
		}
		c.advance(time.Duration(d) * time.Millisecond)
		return c.observe("ok")
	case "block", "unblock":
		if len(t) != 2 {
			return bad
		}
		id, ok := num(t[1])
		if !ok {
			return bad
		}
		c.e.mu.Lock()
		g := c.e.blocked[scheduler.ID(id)]
		if t[0] == "block" && g == nil {
			c.e.blocked[scheduler.ID(id)] = make(chan struct{})
		}
		if t[0] == "unblock" && g != nil {
			close(g)
			delete(c.e.blocked, scheduler.ID(id))
		}
		c.e.mu.Unlock()
		return c.observe("ok")
	}
	return bad
}

// ---------------------------------------------------------------- the spin clause (real clock)

var spinMu sync.Mutex // VerifLoopIters is process-wide: one real-clock run at a time

func spin(variant string, a, b time.Duration) string {
	spinMu.Lock()
	defer spinMu.Unlock()
	e := newExec()
	s, _, err := scheduler.NewScheduler(e, e, scheduler.WithMaxConcurrentWorkers(2))
	if err != nil {
		return "err"
	}
	defer s.Stop()
	sch, last, err := scheduler.NewSchedule("@every 1h", time.Now().Add(-time.Hour))
	if err != nil {
		return "err"
	}
	next, _ := sch.Next(last)
	t0 := time.Now()
	due := func(d time.Duration) time.Duration { return t0.Add(d).Sub(next) } // offset that makes when = t0+d
	idA, idB := scheduler.ID(1), scheduler.ID(2)
	whenA, whenB := next.Add(due(a)), next.Add(due(b))
	i0 := scheduler.VerifLoopIters.Load()
	if err := s.Schedule(schedulable{id: idA, sch: sch, offset: due(a), last: last}); err != nil {
		return "err"
	}
	if variant == "r" {
		s.Release(idA)
		if err := s.Schedule(schedulable{id: idB, sch: sch, offset: due(b), last: last}); err != nil {
			return "err"
		}
	} else { // the same task rescheduled to a later time
		idB = idA
		if err := s.Schedule(schedulable{id: idA, sch: sch, offset: due(b), last: last}); err != nil {
			return "err"
		}
	}
	// wait until the timer armed for A's time has fired and was handled (or the window is nearly over)
	mid := t0.Add(a + (b-a)/2)
	for time.Now().Before(mid) || (scheduler.VerifLoopIters.Load() == i0 && time.Now().Before(t0.Add(b-100*time.Millisecond))) {
		time.Sleep(2 * time.Millisecond)
	}
	iters := scheduler.VerifLoopIters.Load() - i0
	w := s.When()
	pulse := run.NewSchedulerPulseCheck(s, 20*time.Millisecond).Check(context.Background())
	wname := "other"
	switch {
	case w.IsZero():
		wname = "zero"
	case w.Equal(whenB):
		wname = "B"
	case w.Equal(whenA):
		wname = "A"
	}
	pname := "pass"
	if pulse.Status() != check.StatusPass {
		pname = "fail"
	}
	// let B come due
	deadline := t0.Add(b + 1500*time.Millisecond)
	for time.Now().Before(deadline) {
		if time.Now().After(t0.Add(b+30*time.Millisecond)) && e.count() >= 1 {
			break
		}
		time.Sleep(2 * time.Millisecond)
	}
	time.Sleep(20 * time.Millisecond)
	e.mu.Lock()
	nA, nB := 0, 0
	for _, r := range e.started {
		if r.id == idB && r.at.Equal(whenB) {
			nB++
		} else {
			nA++
		}
	}
	e.mu.Unlock()
	sp := "0"
	if iters > 20 {
		sp = "1"
	}
	return fmt.Sprintf("spin=%s|when=%s|pulse=%s|runs=%d,%d", sp, wname, pname, nA, nB)
}

// ---------------------------------------------------------------- generator

func gen(r *h.Rand, tier string, emit func([]string)) {
	r = h.NewRand(r.Uint64()) // unrelated streams per seed (see notes/C25.md REQUESTS)
	// 1. the spin clause on the real clock (a few cases, ~1.3 s each)
	emit([]string{"spin r 150 1000"})
	emit([]string{"spin s 150 1000"})
	if tier == "thorough" {
		emit([]string{"spin r 60 900"})
		emit([]string{"spin s 300 1200"})
	}
	// 2. scripted histories on the mock clock
	emit([]string{"new 2", "sched 1 e 10 0 0", "adv 9999", "adv 1", "adv 10000", "rel 1", "adv 30000", "sched 1 e 10 0 40", "adv 10000"})
	emit([]string{"new 2", "sched 1 e 10 0 0", "rel 1", "sched 2 e 60 0 0", "adv 10000", "adv 0", "adv 49999", "adv 1"}) // F8 shape
	emit([]string{"new 2", "sched 1 e 10 0 0", "sched 1 e 60 0 0", "adv 10000", "adv 50000"})                            // F8, reschedule-later shape
	emit([]string{"new 1", "sched 1 e 5 0 0", "sched 2 e 5 0 0", "sched 3 c 5 2500 0", "adv 5000", "adv 2500", "adv 2500", "adv 60000"})
	emit([]string{"new 2", "sched 1 e 1 0 0", "block 1", "adv 1000", "adv 3000", "unblock 1", "adv 0", "rel 1", "adv 5000"})
	emit([]string{"new 3", "sched 7 c 10 -3000 100", "adv 100000", "adv 7000", "adv 3000", "adv 10000"})
	emit([]string{"new 2", "sched 1 e 10 0 0", "adv 100000"}) // catch-up: 10 runs in one step

	n := 260
	if tier == "thorough" {
		n = 1200
	}
	periods := []uint64{1, 2, 5, 10, 15, 30, 60}
	cperiods := []uint64{1, 2, 3, 4, 5, 6, 7, 10, 12, 15, 20} // not 30: influxdata/cron makes "*/30" match second 59 too
	for i := 0; i < n; i++ {
		nw := 1 + r.Intn(4)
		ops := []string{fmt.Sprintf("new %d", nw)}
		now := int64(0) // ms
		if r.Chance(0.5) {
			d := int64(r.Intn(200)) * 500
			ops = append(ops, fmt.Sprintf("adv %d", d))
			now += d
		}
		nids := 1 + r.Intn(5)
		blocked := map[int]bool{}
		schedWhileBlocked := 0
		ln := 6 + r.Intn(26)
		budget := 30 // rough bound on seconds per clock step
		for j := 0; j < ln; j++ {
			x := r.Intn(100)
			switch {
			case x < 30:
				if len(blocked) > 0 {
					if schedWhileBlocked >= 1 {
						continue
					}
					schedWhileBlocked++
				}
				id := 1 + r.Intn(nids)
				kind := "e"
				p := h.Pick(r, periods)
				if r.Chance(0.4) {
					kind = "c"
					p = h.Pick(r, cperiods)
				}
				off := int64(0)
				if r.Chance(0.4) {
					off = r.Range(-3, 6) * 500
				}
				// last scheduled: around now, sometimes in the past (catch-up), bounded so that a step stays small
				last := now/1000 - int64(r.Intn(3))*int64(p)
				if r.Chance(0.2) {
					last = now/1000 + int64(r.Intn(20))
				}
				if last < 0 {
					last = 0
				}
				ops = append(ops, fmt.Sprintf("sched %d %s %d %d %d", id, kind, p, off, last))
			case x < 42:
				ops = append(ops, fmt.Sprintf("rel %d", 1+r.Intn(nids+1)))
			case x < 50 && len(blocked) == 0:
				id := 1 + r.Intn(nids)
				blocked[id] = true
				ops = append(ops, fmt.Sprintf("block %d", id))
			case x < 60 && len(blocked) > 0:
				for id := range blocked {
					ops = append(ops, fmt.Sprintf("unblock %d", id))
					delete(blocked, id)
					break
				}
				schedWhileBlocked = 0
			default:
				var d int64
				switch r.Intn(5) {
				case 0:
					d = 0
				case 1:
					d = int64(1 + r.Intn(999))
				case 2:
					d = 1000 * int64(1+r.Intn(10))
				case 3:
					d = 500 * int64(1+r.Intn(40))
				default:
					d = 1000*int64(h.Pick(r, periods)) - int64(r.Intn(2))
				}
				if d > int64(budget)*1000 {
					d = int64(budget) * 1000
				}
				ops = append(ops, fmt.Sprintf("adv %d", d))
				now += d
			}
		}
		for id := range blocked {
			ops = append(ops, fmt.Sprintf("unblock %d", id))
		}
		ops = append(ops, "adv 0")
		emit(ops)
	}
	// 3. malformed stream
	emit([]string{"sched 1 e 10 0 0", "new 0", "new 9", "new x", "new 2", "new 2", "sched", "sched 1 q 10 0 0", "sched x e 10 0 0",
		"sched 1 e 10 zz 0", "rel", "rel x", "adv", "adv -5", "adv 99999999999", "block", "unblock x", "spin q 150 1000",
		"spin r 150 200", "frob 1", "sched 1 e 10 0 0", "adv 10000"})
}

func main() {
	_ = strings.TrimSpace
	// the scheduler loop busy-waits while a worker executes; a few Ps are enough and keep 16 parallel
	// harness processes from oversubscribing the machine
	runtime.GOMAXPROCS(4)
	h.Main(h.Harness{Gen: gen, NewCase: newCase, OpTimeout: 150 * time.Second})
}
