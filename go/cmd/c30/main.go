// Harness for C30: drives the real tenant.Service (tenant.NewService over
// tenant.NewStore over inmem kv with all kv migrations applied) and dumps the raw
// kv buckets of the tenant store after every operation.
//
// Ops (names hex, ids decimal; 0 = the invalid id):
//
//	co <name> <ctxUser|0>          CreateOrganization (ctxUser != 0: a Session authorizer with that user id on ctx)
//	uo <id> <name|~>               UpdateOrganization (~ : description only)
//	do <id>                        DeleteOrganization
//	cb <org> <name> <u|s>          CreateBucket (u = user, s = system type)
//	ub <id> <name|~>               UpdateBucket (~ : description only)
//	db <id>                        DeleteBucket
//	cu <name> <id>                 CreateUser (id 0: generated)
//	uu <id> <name|~>               UpdateUser (~ : status only)
//	du <id>                        DeleteUser
//	cm <res> <user> <o|b> <o|m>    CreateUserResourceMapping (resource type orgs|buckets, owner|member)
//	dm <res> <user>                DeleteUserResourceMapping
//	fo <name> / fb <org> <name> / fu <name>     name lookups through the service API
//	lb <org>                       FindBuckets by organization id (ids in returned order)
//	idgen <o|b|u> <n>              next id of the org / bucket / user id generator := n
//	dump                           raw kv contents
package main

import (
	"context"
	"encoding/json"
	"fmt"
	"sort"
	"strconv"
	"strings"

	influxdb "github.com/influxdata/influxdb/v2"
	icontext "github.com/influxdata/influxdb/v2/context"
	"github.com/influxdata/influxdb/v2/inmem"
	"github.com/influxdata/influxdb/v2/kit/platform"
	"github.com/influxdata/influxdb/v2/kit/platform/errors"
	"github.com/influxdata/influxdb/v2/kv"
	"github.com/influxdata/influxdb/v2/kv/migration/all"
	"github.com/influxdata/influxdb/v2/task/taskmodel"
	"github.com/influxdata/influxdb/v2/tenant"
	"go.uber.org/zap"
	"verif/harness/h"
)

// counter is a deterministic platform.IDGenerator.
type counter struct{ next uint64 }

func (c *counter) ID() platform.ID { v := c.next; c.next++; return platform.ID(v) }

// noTasks is the TaskService DeleteOrganization needs: an organization without tasks.
type noTasks struct{ taskmodel.TaskService }

func (noTasks) FindTasks(context.Context, taskmodel.TaskFilter) ([]*taskmodel.Task, int, error) {
	return nil, 0, nil
}
func (noTasks) DeleteTask(context.Context, platform.ID) error { return nil }

type runner struct {
	kv         *inmem.KVStore
	svc        *tenant.Service
	og, bg, ug *counter
}

func newCase() h.CaseRunner {
	ctx := context.Background()
	s := inmem.NewKVStore()
	if err := all.Up(ctx, zap.NewNop(), s); err != nil {
		panic(err)
	}
	st := tenant.NewStore(s)
	r := &runner{kv: s, og: &counter{1}, bg: &counter{1001}, ug: &counter{2001}}
	st.OrgIDGen, st.BucketIDGen, st.IDGen = r.og, r.bg, r.ug
	r.svc = tenant.NewService(st)
	r.svc.Apply(tenant.WithTaskService(noTasks{}))
	return r
}

func (r *runner) Close() {}

func code(err error) string {
	switch c := errors.ErrorCode(err); c {
	case errors.ENotFound:
		return "err nf"
	case errors.EConflict:
		return "err cf"
	case errors.EInvalid:
		return "err inv"
	case errors.EInternal:
		return "err int"
	default:
		return "err " + strings.ReplaceAll(c, " ", "_")
	}
}

func ascii(b []byte) bool {
	for _, c := range b {
		if c >= 128 {
			return false
		}
	}
	return true
}

// name token: hex of an ASCII string; ok=false for anything else
func nameTok(s string) (string, bool) {
	b, err := h.UnHex(s)
	if err != nil || !ascii(b) {
		return "", false
	}
	return string(b), true
}

func optName(s string) (*string, bool) {
	if s == "~" {
		return nil, true
	}
	n, ok := nameTok(s)
	if !ok {
		return nil, false
	}
	return &n, true
}

func idTok(s string) (platform.ID, bool) {
	v, err := strconv.ParseUint(s, 10, 64)
	return platform.ID(v), err == nil
}

func u(i platform.ID) string { return strconv.FormatUint(uint64(i), 10) }

func (r *runner) Op(t []string) string {
	ctx := context.Background()
	bad := "bad-op"
	if len(t) == 0 {
		return bad
	}
	switch t[0] {
	case "co":
		if len(t) != 3 {
			return bad
		}
		n, ok1 := nameTok(t[1])
		uid, ok2 := idTok(t[2])
		if !ok1 || !ok2 {
			return bad
		}
		if uid != 0 {
			ctx = icontext.SetAuthorizer(ctx, &influxdb.Session{UserID: uid})
		}
		o := &influxdb.Organization{Name: n}
		if err := r.svc.CreateOrganization(ctx, o); err != nil {
			return code(err)
		}
		return "ok " + u(o.ID)
	case "uo":
		if len(t) != 3 {
			return bad
		}
		id, ok1 := idTok(t[1])
		n, ok2 := optName(t[2])
		if !ok1 || !ok2 {
			return bad
		}
		d := "d"
		o, err := r.svc.UpdateOrganization(ctx, id, influxdb.OrganizationUpdate{Name: n, Description: &d})
		if err != nil {
			return code(err)
		}
		return "ok " + u(o.ID)
	case "do":
		if len(t) != 2 {
			return bad
		}
		id, ok := idTok(t[1])
		if !ok {
			return bad
		}
		if err := r.svc.DeleteOrganization(ctx, id); err != nil {
			return code(err)
		}
		return "ok " + u(id)
	case "cb":
		if len(t) != 4 || (t[3] != "u" && t[3] != "s") {
			return bad
		}
		org, ok1 := idTok(t[1])
		n, ok2 := nameTok(t[2])
		if !ok1 || !ok2 {
			return bad
		}
		b := &influxdb.Bucket{OrgID: org, Name: n, Type: influxdb.BucketTypeUser}
		if t[3] == "s" {
			b.Type = influxdb.BucketTypeSystem
		}
		if err := r.svc.CreateBucket(ctx, b); err != nil {
			return code(err)
		}
		return "ok " + u(b.ID)
	case "ub":
		if len(t) != 3 {
			return bad
		}
		id, ok1 := idTok(t[1])
		n, ok2 := optName(t[2])
		if !ok1 || !ok2 {
			return bad
		}
		d := "d"
		b, err := r.svc.UpdateBucket(ctx, id, influxdb.BucketUpdate{Name: n, Description: &d})
		if err != nil {
			return code(err)
		}
		return "ok " + u(b.ID)
	case "db":
		if len(t) != 2 {
			return bad
		}
		id, ok := idTok(t[1])
		if !ok {
			return bad
		}
		if err := r.svc.DeleteBucket(ctx, id); err != nil {
			return code(err)
		}
		return "ok " + u(id)
	case "cu":
		if len(t) != 3 {
			return bad
		}
		n, ok1 := nameTok(t[1])
		id, ok2 := idTok(t[2])
		if !ok1 || !ok2 {
			return bad
		}
		us := &influxdb.User{Name: n, ID: id, Status: influxdb.Active}
		if err := r.svc.CreateUser(ctx, us); err != nil {
			return code(err)
		}
		return "ok " + u(us.ID)
	case "uu":
		if len(t) != 3 {
			return bad
		}
		id, ok1 := idTok(t[1])
		n, ok2 := optName(t[2])
		if !ok1 || !ok2 {
			return bad
		}
		st := influxdb.Inactive
		us, err := r.svc.UpdateUser(ctx, id, influxdb.UserUpdate{Name: n, Status: &st})
		if err != nil {
			return code(err)
		}
		return "ok " + u(us.ID)
	case "du":
		if len(t) != 2 {
			return bad
		}
		id, ok := idTok(t[1])
		if !ok {
			return bad
		}
		if err := r.svc.DeleteUser(ctx, id); err != nil {
			return code(err)
		}
		return "ok " + u(id)
	case "cm":
		if len(t) != 5 || (t[3] != "o" && t[3] != "b") || (t[4] != "o" && t[4] != "m") {
			return bad
		}
		res, ok1 := idTok(t[1])
		us, ok2 := idTok(t[2])
		if !ok1 || !ok2 {
			return bad
		}
		m := &influxdb.UserResourceMapping{ResourceID: res, UserID: us, MappingType: influxdb.UserMappingType,
			ResourceType: influxdb.OrgsResourceType, UserType: influxdb.Owner}
		if t[3] == "b" {
			m.ResourceType = influxdb.BucketsResourceType
		}
		if t[4] == "m" {
			m.UserType = influxdb.Member
		}
		if err := r.svc.CreateUserResourceMapping(ctx, m); err != nil {
			return code(err)
		}
		return "ok"
	case "dm":
		if len(t) != 3 {
			return bad
		}
		res, ok1 := idTok(t[1])
		us, ok2 := idTok(t[2])
		if !ok1 || !ok2 {
			return bad
		}
		if err := r.svc.DeleteUserResourceMapping(ctx, res, us); err != nil {
			return code(err)
		}
		return "ok"
	case "fo":
		if len(t) != 2 {
			return bad
		}
		n, ok := nameTok(t[1])
		if !ok {
			return bad
		}
		o, err := r.svc.FindOrganization(ctx, influxdb.OrganizationFilter{Name: &n})
		if err != nil {
			return code(err)
		}
		return "ok " + u(o.ID) + " " + h.HexS(o.Name)
	case "fb":
		if len(t) != 3 {
			return bad
		}
		org, ok1 := idTok(t[1])
		n, ok2 := nameTok(t[2])
		if !ok1 || !ok2 {
			return bad
		}
		b, err := r.svc.FindBucketByName(ctx, org, n)
		if err != nil {
			return code(err)
		}
		return "ok " + u(b.ID) + " " + u(b.OrgID) + " " + h.HexS(b.Name)
	case "fu":
		if len(t) != 2 {
			return bad
		}
		n, ok := nameTok(t[1])
		if !ok {
			return bad
		}
		us, err := r.svc.FindUser(ctx, influxdb.UserFilter{Name: &n})
		if err != nil {
			return code(err)
		}
		return "ok " + u(us.ID) + " " + h.HexS(us.Name)
	case "lb":
		if len(t) != 2 {
			return bad
		}
		org, ok := idTok(t[1])
		if !ok {
			return bad
		}
		bs, _, err := r.svc.FindBuckets(ctx, influxdb.BucketFilter{OrganizationID: &org})
		if err != nil {
			return code(err)
		}
		sort.Slice(bs, func(i, j int) bool { return bs[i].ID < bs[j].ID }) // returned in name order; compared as a set
		ids := make([]string, len(bs))
		for i, b := range bs {
			ids[i] = u(b.ID)
		}
		return "ok " + h.Join(ids)
	case "idgen":
		if len(t) != 3 {
			return bad
		}
		n, ok := idTok(t[2])
		if !ok {
			return bad
		}
		switch t[1] {
		case "o":
			r.og.next = uint64(n)
		case "b":
			r.bg.next = uint64(n)
		case "u":
			r.ug.next = uint64(n)
		default:
			return bad
		}
		return "ok"
	case "dump":
		if len(t) != 1 {
			return bad
		}
		return r.dump()
	}
	return bad
}

// ---- raw kv dump ------------------------------------------------------------

func (r *runner) pairs(bucket string) [][2][]byte {
	var out [][2][]byte
	err := r.kv.View(context.Background(), func(tx kv.Tx) error {
		b, err := tx.Bucket([]byte(bucket))
		if err != nil {
			return err
		}
		cur, err := b.ForwardCursor(nil)
		if err != nil {
			return err
		}
		defer cur.Close()
		for k, v := cur.Next(); k != nil; k, v = cur.Next() {
			out = append(out, [2][]byte{append([]byte(nil), k...), append([]byte(nil), v...)})
		}
		return cur.Err()
	})
	if err != nil {
		panic(err)
	}
	sort.Slice(out, func(i, j int) bool { return string(out[i][0]) < string(out[j][0]) })
	return out
}

// decodes a 16-hex-digit id key (lower case, as ID.Encode writes it); anything else is shown raw
func idKey(k []byte) string {
	if len(k) == 16 {
		if v, err := strconv.ParseUint(string(k), 16, 64); err == nil && fmt.Sprintf("%016x", v) == string(k) {
			return strconv.FormatUint(v, 10)
		}
	}
	return "?" + h.Hex(k)
}

func sect(name string, items []string) string {
	return name + "=" + h.Join(items)
}

func (r *runner) dump() string {
	var out []string
	// organizations: id -> record
	var it []string
	for _, p := range r.pairs("organizationsv1") {
		var o influxdb.Organization
		if err := json.Unmarshal(p[1], &o); err != nil {
			it = append(it, idKey(p[0])+":corrupt")
			continue
		}
		it = append(it, idKey(p[0])+":"+u(o.ID)+":"+h.HexS(o.Name))
	}
	out = append(out, sect("O", it))
	it = nil
	for _, p := range r.pairs("organizationindexv1") {
		it = append(it, h.Hex(p[0])+":"+idKey(p[1]))
	}
	out = append(out, sect("OI", it))
	it = nil
	for _, p := range r.pairs("bucketsv1") {
		var b influxdb.Bucket
		if err := json.Unmarshal(p[1], &b); err != nil {
			it = append(it, idKey(p[0])+":corrupt")
			continue
		}
		ty := "u"
		if b.Type == influxdb.BucketTypeSystem {
			ty = "s"
		}
		it = append(it, idKey(p[0])+":"+u(b.ID)+":"+u(b.OrgID)+":"+h.HexS(b.Name)+":"+ty)
	}
	out = append(out, sect("B", it))
	it = nil
	for _, p := range r.pairs("bucketindexv1") {
		k := p[0]
		if len(k) >= 16 {
			it = append(it, idKey(k[:16])+":"+h.Hex(k[16:])+":"+idKey(p[1]))
		} else {
			it = append(it, "?"+h.Hex(k)+":-:"+idKey(p[1]))
		}
	}
	out = append(out, sect("BI", it))
	it = nil
	for _, p := range r.pairs("usersv1") {
		var us influxdb.User
		if err := json.Unmarshal(p[1], &us); err != nil {
			it = append(it, idKey(p[0])+":corrupt")
			continue
		}
		it = append(it, idKey(p[0])+":"+u(us.ID)+":"+h.HexS(us.Name))
	}
	out = append(out, sect("U", it))
	it = nil
	for _, p := range r.pairs("userindexv1") {
		it = append(it, h.Hex(p[0])+":"+idKey(p[1]))
	}
	out = append(out, sect("UI", it))
	it = nil
	for _, p := range r.pairs("userresourcemappingsv1") {
		var m influxdb.UserResourceMapping
		k := p[0]
		ks := "?" + h.Hex(k)
		if len(k) == 32 {
			ks = idKey(k[:16]) + ":" + idKey(k[16:])
		}
		if err := json.Unmarshal(p[1], &m); err != nil {
			it = append(it, ks+":corrupt")
			continue
		}
		rt, ut := "?", "?"
		switch m.ResourceType {
		case influxdb.OrgsResourceType:
			rt = "o"
		case influxdb.BucketsResourceType:
			rt = "b"
		}
		switch m.UserType {
		case influxdb.Owner:
			ut = "o"
		case influxdb.Member:
			ut = "m"
		}
		it = append(it, ks+":"+u(m.ResourceID)+":"+u(m.UserID)+":"+rt+":"+ut)
	}
	out = append(out, sect("M", it))
	it = nil
	for _, p := range r.pairs("userresourcemappingsbyuserindexv1") {
		k, v := p[0], p[1]
		ks, vs := "?"+h.Hex(k), "?"+h.Hex(v)
		if len(k) == 49 && k[16] == '/' {
			ks = idKey(k[:16]) + ":" + idKey(k[17:33]) + ":" + idKey(k[33:])
		}
		if len(v) == 32 {
			vs = idKey(v[:16]) + ":" + idKey(v[16:])
		}
		it = append(it, ks+":"+vs)
	}
	out = append(out, sect("MI", it))
	it = nil
	for _, p := range r.pairs("userspasswordv1") {
		it = append(it, idKey(p[0]))
	}
	out = append(out, sect("P", it))
	return strings.Join(out, " ")
}

// ---- generator --------------------------------------------------------------

var names = []string{"a", "b", "a ", " a", "\ta\n", "A", "ab", "", " ", "_x", "_tasks", "_monitoring", "q\"q", "a b", "b  "}

func gen(r *h.Rand, tier string, emit func([]string)) {
	ncases, nops := 1500, 30
	if tier == "thorough" {
		ncases, nops = 20000, 45
	}
	for c := 0; c < ncases; c++ {
		var ops []string
		add := func(s string) { ops = append(ops, s, "dump") }
		// ids the case has probably created so far (guesses; wrong guesses exercise the error paths)
		orgs, bkts, users := []int{0, 1, 2, 3, 9}, []int{0, 1001, 1002, 1003, 1004, 1005, 1006, 1007}, []int{0, 2001, 2002, 2003, 7}
		name := func() string {
			if r.Chance(0.03) {
				return h.Hex([]byte{byte(r.Intn(256)), byte(r.Intn(256))})
			}
			return h.HexS(h.Pick(r, names))
		}
		oname := func() string {
			if r.Chance(0.25) {
				return "~"
			}
			return name()
		}
		id := func(xs []int) string { return strconv.Itoa(h.Pick(r, xs)) }
		// a populated start so that most ops hit existing records
		if r.Chance(0.9) {
			add("cu " + h.HexS("u1") + " 0")
			add("co " + name() + " " + h.Pick(r, []string{"0", "2001"}))
			if r.Chance(0.6) {
				add("co " + name() + " 0")
			}
		}
		n := 5 + r.Intn(nops)
		for i := 0; i < n; i++ {
			switch k := r.Intn(100); {
			case k < 10:
				add("co " + name() + " " + id(users))
			case k < 20:
				add("uo " + id(orgs) + " " + oname())
			case k < 28:
				add("do " + id(orgs))
			case k < 42:
				add("cb " + id(orgs) + " " + name() + " " + h.Pick(r, []string{"u", "u", "u", "s"}))
			case k < 54:
				add("ub " + id(bkts) + " " + oname())
			case k < 62:
				add("db " + id(bkts))
			case k < 68:
				add("cu " + name() + " " + h.Pick(r, []string{"0", "0", "0", "7", "2001"}))
			case k < 74:
				add("uu " + id(users) + " " + oname())
			case k < 78:
				add("du " + id(users))
			case k < 86:
				add("cm " + id(append(append([]int{}, orgs...), bkts...)) + " " + id(users) + " " + h.Pick(r, []string{"o", "b"}) + " " + h.Pick(r, []string{"o", "m"}))
			case k < 89:
				add("dm " + id(append(append([]int{}, orgs...), bkts...)) + " " + id(users))
			case k < 92:
				ops = append(ops, "fo "+name())
			case k < 95:
				ops = append(ops, "fb "+id(orgs)+" "+name())
			case k < 97:
				ops = append(ops, "fu "+name())
			case k < 98:
				ops = append(ops, "lb "+id(orgs))
			default:
				add("idgen " + h.Pick(r, []string{"o", "b", "u"}) + " " + h.Pick(r, []string{"1", "2", "1001", "1002", "2001", "0"}))
			}
		}
		// malformed lines
		if r.Chance(0.05) {
			ops = append(ops, h.Pick(r, []string{"co", "co zz 0", "cb 1 61 x", "xx 1", "dump 1", "uo 1", "co 61 -1", "fo c3a9"}))
		}
		emit(ops)
	}
}

func main() { h.Main(h.Harness{Gen: gen, NewCase: newCase}) }
