// Harness for C30: drives the real tenant.Service (see package tops for the operations) and
// dumps the raw kv buckets of the tenant store after every mutating operation.
package main

import (
	"fmt"
	"strconv"

	"verif/harness/cmd/c30/tops"
	"verif/harness/h"
)

func newCase() h.CaseRunner { return tops.New() }

// ---- generator --------------------------------------------------------------

var names = []string{"a", "b", "a ", " a", "\ta\n", "A", "ab", "", " ", "_x", "_tasks", "_monitoring", "q\"q", "a b", "b  "}

func gen(r *h.Rand, tier string, emit func([]string)) {
	ncases, nops := 1500, 30
	if tier == "thorough" {
		ncases, nops = 12000, 45
	}
	// case family "large organization": 19–30 user buckets (+ the two system buckets) in one organization, a listing
	// through the API, then DeleteOrganization — the cascade must not depend on any page size
	nbig := 12
	if tier == "thorough" {
		nbig = 120
	}
	for c := 0; c < nbig; c++ {
		ops := []string{"cu " + h.HexS("u1") + " 0", "co " + h.HexS("big") + " 2001"}
		if r.Chance(0.5) {
			ops = append(ops, "co "+h.HexS("other")+" 0", "cb 2 "+h.HexS("b00")+" u")
		}
		nb := 17 + r.Intn(14) // 17..30: below, at and above 20 entries together with _tasks/_monitoring
		for i := 0; i < nb; i++ {
			ops = append(ops, fmt.Sprintf("cb 1 %s u", h.HexS(fmt.Sprintf("b%02d", i))))
			if r.Chance(0.1) {
				ops = append(ops, "cm "+strconv.Itoa(1003+i)+" 2001 b "+h.Pick(r, []string{"o", "m"}))
			}
		}
		ops = append(ops, "dump", "lb 1", "do 1", "dump", "fo "+h.HexS("big"), "fb 1 "+h.HexS(fmt.Sprintf("b%02d", nb-1)), "co "+h.HexS("big")+" 0", "dump")
		emit(ops)
	}
	for c := 0; c < ncases; c++ {
		var ops []string
		add := func(s string) { ops = append(ops, s, "dump") }
		// ids the case has probably created so far (guesses; wrong guesses exercise the error paths)
		orgs, bkts, users := []int{0, 1, 2, 3, 9}, []int{0, 1001, 1002, 1003, 1004, 1005, 1006, 1007}, []int{0, 2001, 2002, 2003, 7}
		name := func() string {
			if r.Chance(0.03) {
				return h.Hex([]byte{byte(r.Intn(256)), byte(r.Intn(256))})
			}
			return h.HexS(h.Pick(r, names))
		}
		oname := func() string {
			if r.Chance(0.25) {
				return "~"
			}
			return name()
		}
		id := func(xs []int) string { return strconv.Itoa(h.Pick(r, xs)) }
		// a populated start so that most ops hit existing records
		if r.Chance(0.9) {
			add("cu " + h.HexS("u1") + " 0")
			add("co " + name() + " " + h.Pick(r, []string{"0", "2001"}))
			if r.Chance(0.6) {
				add("co " + name() + " 0")
			}
		}
		n := 5 + r.Intn(nops)
		for i := 0; i < n; i++ {
			switch k := r.Intn(100); {
			case k < 10:
				add("co " + name() + " " + id(users))
			case k < 20:
				add("uo " + id(orgs) + " " + oname())
			case k < 28:
				add("do " + id(orgs))
			case k < 42:
				add("cb " + id(orgs) + " " + name() + " " + h.Pick(r, []string{"u", "u", "u", "s"}))
			case k < 54:
				add("ub " + id(bkts) + " " + oname())
			case k < 62:
				add("db " + id(bkts))
			case k < 68:
				add("cu " + name() + " " + h.Pick(r, []string{"0", "0", "0", "7", "2001"}))
			case k < 74:
				add("uu " + id(users) + " " + oname())
			case k < 78:
				add("du " + id(users))
			case k < 86:
				add("cm " + id(append(append([]int{}, orgs...), bkts...)) + " " + id(users) + " " + h.Pick(r, []string{"o", "b"}) + " " + h.Pick(r, []string{"o", "m"}))
			case k < 89:
				add("dm " + id(append(append([]int{}, orgs...), bkts...)) + " " + id(users))
			case k < 92:
				ops = append(ops, "fo "+name())
			case k < 95:
				ops = append(ops, "fb "+id(orgs)+" "+name())
			case k < 97:
				ops = append(ops, "fu "+name())
			case k < 98:
				ops = append(ops, "lb "+id(orgs))
			default:
				add("idgen " + h.Pick(r, []string{"o", "b", "u"}) + " " + h.Pick(r, []string{"1", "2", "1001", "1002", "2001", "0"}))
			}
		}
		// malformed lines
		if r.Chance(0.05) {
			ops = append(ops, h.Pick(r, []string{"co", "co zz 0", "cb 1 61 x", "xx 1", "dump 1", "uo 1", "co 61 -1", "fo c3a9"}))
		}
		emit(ops)
	}
}

func main() { h.Main(h.Harness{Gen: gen, NewCase: newCase}) }
