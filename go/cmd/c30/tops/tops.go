// Harness for C30: drives the real tenant.Service (tenant.NewService over
// tenant.NewStore over inmem kv with all kv migrations applied) and dumps the raw
// kv buckets of the tenant store after every operation.
//
// Ops (names hex, ids decimal; 0 = the invalid id):
//
//	co <name> <ctxUser|0>          CreateOrganization (ctxUser != 0: a Session authorizer with that user id on ctx)
//	uo <id> <name|~>               UpdateOrganization (~ : description only)
//	do <id>                        DeleteOrganization
//	cb <org> <name> <u|s>          CreateBucket (u = user, s = system type)
//	ub <id> <name|~>               UpdateBucket (~ : description only)
//	db <id>                        DeleteBucket
//	cu <name> <id>                 CreateUser (id 0: generated)
//	uu <id> <name|~>               UpdateUser (~ : status only)
//	du <id>                        DeleteUser
//	cm <res> <user> <o|b> <o|m>    CreateUserResourceMapping (resource type orgs|buckets, owner|member)
//	dm <res> <user>                DeleteUserResourceMapping
//	fo <name> / fb <org> <name> / fu <name>     name lookups through the service API
//	lb <org>                       FindBuckets by organization id (ids in returned order)
//	idgen <o|b|u> <n>              next id of the org / bucket / user id generator := n
//	dump                           raw kv contents
package tops

import (
	"context"
	"encoding/json"
	"fmt"
	"sort"
	"strconv"
	"strings"

	influxdb "github.com/influxdata/influxdb/v2"
	icontext "github.com/influxdata/influxdb/v2/context"
	"github.com/influxdata/influxdb/v2/inmem"
	"github.com/influxdata/influxdb/v2/kit/platform"
	"github.com/influxdata/influxdb/v2/kit/platform/errors"
	"github.com/influxdata/influxdb/v2/kv"
	"github.com/influxdata/influxdb/v2/kv/migration/all"
	"github.com/influxdata/influxdb/v2/task/taskmodel"
	"github.com/influxdata/influxdb/v2/tenant"
	"go.uber.org/zap"
	"verif/harness/h"
)

// counter is a deterministic platform.IDGenerator.
type counter struct{ next uint64 }

func (c *counter) ID() platform.ID { v := c.next; c.next++; return platform.ID(v) }

// noTasks is the TaskService DeleteOrganization needs: an organization without tasks.
type noTasks struct{ taskmodel.TaskService }

func (noTasks) FindTasks(context.Context, taskmodel.TaskFilter) ([]*taskmodel.Task, int, error) {
	return nil, 0, nil
}
func (noTasks) DeleteTask(context.Context, platform.ID) error { return nil }

// Runner executes tenant operations of the C30 line protocol on the real tenant.Service.
type Runner struct {
	KV         *inmem.KVStore
	Svc        *tenant.Service
	Store      *tenant.Store
	og, bg, ug *counter
}

// New builds a fresh inmem kv store (all migrations applied) with the real tenant service on it.
func New() *Runner {
	ctx := context.Background()
	s := inmem.NewKVStore()
	if err := all.Up(ctx, zap.NewNop(), s); err != nil {
		panic(err)
	}
	st := tenant.NewStore(s)
	r := &Runner{KV: s, Store: st, og: &counter{1}, bg: &counter{1001}, ug: &counter{2001}}
	st.OrgIDGen, st.BucketIDGen, st.IDGen = r.og, r.bg, r.ug
	r.Svc = tenant.NewService(st)
	r.Svc.Apply(tenant.WithTaskService(noTasks{}))
	return r
}

func (r *Runner) Close() {}

// Code maps an error to its class.
func Code(err error) string {
	switch c := errors.ErrorCode(err); c {
	case errors.ENotFound:
		return "err nf"
	case errors.EConflict:
		return "err cf"
	case errors.EInvalid:
		return "err inv"
	case errors.EInternal:
		return "err int"
	default:
		return "err " + strings.ReplaceAll(c, " ", "_")
	}
}

func ascii(b []byte) bool {
	for _, c := range b {
		if c >= 128 {
			return false
		}
	}
	return true
}

// name token: hex of an ASCII string; ok=false for anything else
// NameTok decodes a name token (hex of an ASCII string).
func NameTok(s string) (string, bool) {
	b, err := h.UnHex(s)
	if err != nil || !ascii(b) {
		return "", false
	}
	return string(b), true
}

func OptName(s string) (*string, bool) {
	if s == "~" {
		return nil, true
	}
	n, ok := NameTok(s)
	if !ok {
		return nil, false
	}
	return &n, true
}

func IDTok(s string) (platform.ID, bool) {
	v, err := strconv.ParseUint(s, 10, 64)
	return platform.ID(v), err == nil
}

// U renders an id in decimal.
func U(i platform.ID) string { return strconv.FormatUint(uint64(i), 10) }

func (r *Runner) Op(t []string) string {
	ctx := context.Background()
	bad := "bad-op"
	if len(t) == 0 {
		return bad
	}
	switch t[0] {
	case "co":
		if len(t) != 3 {
			return bad
		}
		n, ok1 := NameTok(t[1])
		uid, ok2 := IDTok(t[2])
		if !ok1 || !ok2 {
			return bad
		}
		if uid != 0 {
			ctx = icontext.SetAuthorizer(ctx, &influxdb.Session{UserID: uid})
		}
		o := &influxdb.Organization{Name: n}
		if err := r.Svc.CreateOrganization(ctx, o); err != nil {
			return Code(err)
		}
		return "ok " + U(o.ID)
	case "uo":
		if len(t) != 3 {
			return bad
		}
		id, ok1 := IDTok(t[1])
		n, ok2 := OptName(t[2])
		if !ok1 || !ok2 {
			return bad
		}
		d := "d"
		o, err := r.Svc.UpdateOrganization(ctx, id, influxdb.OrganizationUpdate{Name: n, Description: &d})
		if err != nil {
			return Code(err)
		}
		return "ok " + U(o.ID)
	case "do":
		if len(t) != 2 {
			return bad
		}
		id, ok := IDTok(t[1])
		if !ok {
			return bad
		}
		if err := r.Svc.DeleteOrganization(ctx, id); err != nil {
			return Code(err)
		}
		return "ok " + U(id)
	case "cb":
		if len(t) != 4 || (t[3] != "u" && t[3] != "s") {
			return bad
		}
		org, ok1 := IDTok(t[1])
		n, ok2 := NameTok(t[2])
		if !ok1 || !ok2 {
			return bad
		}
		b := &influxdb.Bucket{OrgID: org, Name: n, Type: influxdb.BucketTypeUser}
		if t[3] == "s" {
			b.Type = influxdb.BucketTypeSystem
		}
		if err := r.Svc.CreateBucket(ctx, b); err != nil {
			return Code(err)
		}
		return "ok " + U(b.ID)
	case "ub":
		if len(t) != 3 {
			return bad
		}
		id, ok1 := IDTok(t[1])
		n, ok2 := OptName(t[2])
		if !ok1 || !ok2 {
			return bad
		}
		d := "d"
		b, err := r.Svc.UpdateBucket(ctx, id, influxdb.BucketUpdate{Name: n, Description: &d})
		if err != nil {
			return Code(err)
		}
		return "ok " + U(b.ID)
	case "db":
		if len(t) != 2 {
			return bad
		}
		id, ok := IDTok(t[1])
		if !ok {
			return bad
		}
		if err := r.Svc.DeleteBucket(ctx, id); err != nil {
			return Code(err)
		}
		return "ok " + U(id)
	case "cu":
		if len(t) != 3 {
			return bad
		}
		n, ok1 := NameTok(t[1])
		id, ok2 := IDTok(t[2])
		if !ok1 || !ok2 {
			return bad
		}
		us := &influxdb.User{Name: n, ID: id, Status: influxdb.Active}
		if err := r.Svc.CreateUser(ctx, us); err != nil {
			return Code(err)
		}
		return "ok " + U(us.ID)
	case "uu":
		if len(t) != 3 {
			return bad
		}
		id, ok1 := IDTok(t[1])
		n, ok2 := OptName(t[2])
		if !ok1 || !ok2 {
			return bad
		}
		st := influxdb.Inactive
		us, err := r.Svc.UpdateUser(ctx, id, influxdb.UserUpdate{Name: n, Status: &st})
		if err != nil {
			return Code(err)
		}
		return "ok " + U(us.ID)
	case "du":
		if len(t) != 2 {
			return bad
		}
		id, ok := IDTok(t[1])
		if !ok {
			return bad
		}
		if err := r.Svc.DeleteUser(ctx, id); err != nil {
			return Code(err)
		}
		return "ok " + U(id)
	case "cm":
		if len(t) != 5 || (t[3] != "o" && t[3] != "b") || (t[4] != "o" && t[4] != "m") {
			return bad
		}
		res, ok1 := IDTok(t[1])
		us, ok2 := IDTok(t[2])
		if !ok1 || !ok2 {
			return bad
		}
		m := &influxdb.UserResourceMapping{ResourceID: res, UserID: us, MappingType: influxdb.UserMappingType,
			ResourceType: influxdb.OrgsResourceType, UserType: influxdb.Owner}
		if t[3] == "b" {
			m.ResourceType = influxdb.BucketsResourceType
		}
		if t[4] == "m" {
			m.UserType = influxdb.Member
		}
		if err := r.Svc.CreateUserResourceMapping(ctx, m); err != nil {
			return Code(err)
		}
		return "ok"
	case "dm":
		if len(t) != 3 {
			return bad
		}
		res, ok1 := IDTok(t[1])
		us, ok2 := IDTok(t[2])
		if !ok1 || !ok2 {
			return bad
		}
		if err := r.Svc.DeleteUserResourceMapping(ctx, res, us); err != nil {
			return Code(err)
		}
		return "ok"
	case "fo":
		if len(t) != 2 {
			return bad
		}
		n, ok := NameTok(t[1])
		if !ok {
			return bad
		}
		o, err := r.Svc.FindOrganization(ctx, influxdb.OrganizationFilter{Name: &n})
		if err != nil {
			return Code(err)
		}
		return "ok " + U(o.ID) + " " + h.HexS(o.Name)
	case "fb":
		if len(t) != 3 {
			return bad
		}
		org, ok1 := IDTok(t[1])
		n, ok2 := NameTok(t[2])
		if !ok1 || !ok2 {
			return bad
		}
		b, err := r.Svc.FindBucketByName(ctx, org, n)
		if err != nil {
			return Code(err)
		}
		return "ok " + U(b.ID) + " " + U(b.OrgID) + " " + h.HexS(b.Name)
	case "fu":
		if len(t) != 2 {
			return bad
		}
		n, ok := NameTok(t[1])
		if !ok {
			return bad
		}
		us, err := r.Svc.FindUser(ctx, influxdb.UserFilter{Name: &n})
		if err != nil {
			return Code(err)
		}
		return "ok " + U(us.ID) + " " + h.HexS(us.Name)
	case "lb":
		if len(t) != 2 {
			return bad
		}
		org, ok := IDTok(t[1])
		if !ok {
			return bad
		}
		bs, _, err := r.Svc.FindBuckets(ctx, influxdb.BucketFilter{OrganizationID: &org})
		if err != nil {
			return Code(err)
		}
		sort.Slice(bs, func(i, j int) bool { return bs[i].ID < bs[j].ID }) // returned in name order; compared as a set
		ids := make([]string, len(bs))
		for i, b := range bs {
			ids[i] = U(b.ID)
		}
		return "ok " + h.Join(ids)
	case "idgen":
		if len(t) != 3 {
			return bad
		}
		n, ok := IDTok(t[2])
		if !ok {
			return bad
		}
		switch t[1] {
		case "o":
			r.og.next = uint64(n)
		case "b":
			r.bg.next = uint64(n)
		case "u":
			r.ug.next = uint64(n)
		default:
			return bad
		}
		return "ok"
	case "dump":
		if len(t) != 1 {
			return bad
		}
		return r.Dump()
	}
	return bad
}

// ---- raw kv dump ------------------------------------------------------------

// Pairs returns the raw key/value pairs of one kv bucket in key order.
func (r *Runner) Pairs(bucket string) [][2][]byte {
	var out [][2][]byte
	err := r.KV.View(context.Background(), func(tx kv.Tx) error {
		b, err := tx.Bucket([]byte(bucket))
		if err != nil {
			return err
		}
		cur, err := b.ForwardCursor(nil)
		if err != nil {
			return err
		}
		defer cur.Close()
		for k, v := cur.Next(); k != nil; k, v = cur.Next() {
			out = append(out, [2][]byte{append([]byte(nil), k...), append([]byte(nil), v...)})
		}
		return cur.Err()
	})
	if err != nil {
		panic(err)
	}
	sort.Slice(out, func(i, j int) bool { return string(out[i][0]) < string(out[j][0]) })
	return out
}

// decodes a 16-hex-digit id key (lower case, as ID.Encode writes it); anything else is shown raw
func IDKey(k []byte) string {
	if len(k) == 16 {
		if v, err := strconv.ParseUint(string(k), 16, 64); err == nil && fmt.Sprintf("%016x", v) == string(k) {
			return strconv.FormatUint(v, 10)
		}
	}
	return "?" + h.Hex(k)
}

func sect(name string, items []string) string {
	return name + "=" + h.Join(items)
}

// Dump renders the raw content of the tenant kv buckets.
func (r *Runner) Dump() string {
	var out []string
	// organizations: id -> record
	var it []string
	for _, p := range r.Pairs("organizationsv1") {
		var o influxdb.Organization
		if err := json.Unmarshal(p[1], &o); err != nil {
			it = append(it, IDKey(p[0])+":corrupt")
			continue
		}
		it = append(it, IDKey(p[0])+":"+U(o.ID)+":"+h.HexS(o.Name))
	}
	out = append(out, sect("O", it))
	it = nil
	for _, p := range r.Pairs("organizationindexv1") {
		it = append(it, h.Hex(p[0])+":"+IDKey(p[1]))
	}
	out = append(out, sect("OI", it))
	it = nil
	for _, p := range r.Pairs("bucketsv1") {
		var b influxdb.Bucket
		if err := json.Unmarshal(p[1], &b); err != nil {
			it = append(it, IDKey(p[0])+":corrupt")
			continue
		}
		ty := "u"
		if b.Type == influxdb.BucketTypeSystem {
			ty = "s"
		}
		it = append(it, IDKey(p[0])+":"+U(b.ID)+":"+U(b.OrgID)+":"+h.HexS(b.Name)+":"+ty)
	}
	out = append(out, sect("B", it))
	it = nil
	for _, p := range r.Pairs("bucketindexv1") {
		k := p[0]
		if len(k) >= 16 {
			it = append(it, IDKey(k[:16])+":"+h.Hex(k[16:])+":"+IDKey(p[1]))
		} else {
			it = append(it, "?"+h.Hex(k)+":-:"+IDKey(p[1]))
		}
	}
	out = append(out, sect("BI", it))
	it = nil
	for _, p := range r.Pairs("usersv1") {
		var us influxdb.User
		if err := json.Unmarshal(p[1], &us); err != nil {
			it = append(it, IDKey(p[0])+":corrupt")
			continue
		}
		it = append(it, IDKey(p[0])+":"+U(us.ID)+":"+h.HexS(us.Name))
	}
	out = append(out, sect("U", it))
	it = nil
	for _, p := range r.Pairs("userindexv1") {
		it = append(it, h.Hex(p[0])+":"+IDKey(p[1]))
	}
	out = append(out, sect("UI", it))
	it = nil
	for _, p := range r.Pairs("userresourcemappingsv1") {
		var m influxdb.UserResourceMapping
		k := p[0]
		ks := "?" + h.Hex(k)
		if len(k) == 32 {
			ks = IDKey(k[:16]) + ":" + IDKey(k[16:])
		}
		if err := json.Unmarshal(p[1], &m); err != nil {
			it = append(it, ks+":corrupt")
			continue
		}
		rt, ut := "?", "?"
		switch m.ResourceType {
		case influxdb.OrgsResourceType:
			rt = "o"
		case influxdb.BucketsResourceType:
			rt = "b"
		}
		switch m.UserType {
		case influxdb.Owner:
			ut = "o"
		case influxdb.Member:
			ut = "m"
		}
		it = append(it, ks+":"+U(m.ResourceID)+":"+U(m.UserID)+":"+rt+":"+ut)
	}
	out = append(out, sect("M", it))
	it = nil
	for _, p := range r.Pairs("userresourcemappingsbyuserindexv1") {
		k, v := p[0], p[1]
		ks, vs := "?"+h.Hex(k), "?"+h.Hex(v)
		if len(k) == 49 && k[16] == '/' {
			ks = IDKey(k[:16]) + ":" + IDKey(k[17:33]) + ":" + IDKey(k[33:])
		}
		if len(v) == 32 {
			vs = IDKey(v[:16]) + ":" + IDKey(v[16:])
		}
		it = append(it, ks+":"+vs)
	}
	out = append(out, sect("MI", it))
	it = nil
	for _, p := range r.Pairs("userspasswordv1") {
		it = append(it, IDKey(p[0]))
	}
	out = append(out, sect("P", it))
	return strings.Join(out, " ")
}
