// Harness for C28: drives the real influxdb.Permission.Matches.
package main

import (
	"strconv"

	influxdb "github.com/influxdata/influxdb/v2"
	"github.com/influxdata/influxdb/v2/kit/platform"
	"verif/harness/h"
)

func parseID(s string) *platform.ID {
	if s == "-" {
		return nil
	}
	v, err := strconv.ParseUint(s, 10, 64)
	if err != nil {
		panic("bad id " + s)
	}
	id := platform.ID(v)
	return &id
}

func parsePerm(t []string) influxdb.Permission {
	return influxdb.Permission{
		Action: influxdb.Action(h.MustUnHex(t[0])),
		Resource: influxdb.Resource{
			Type:  influxdb.ResourceType(h.MustUnHex(t[1])),
			ID:    parseID(t[2]),
			OrgID: parseID(t[3]),
		},
	}
}

func op(t []string) string {
	if len(t) != 9 || t[0] != "m" {
		return "bad-op"
	}
	p, r := parsePerm(t[1:5]), parsePerm(t[5:9])
	return h.B(p.Matches(r))
}

func fmtID(i int) string {
	if i == 0 {
		return "-"
	}
	return strconv.Itoa(i)
}

func gen(r *h.Rand, tier string, emit func([]string)) {
	actions := []string{"read", "write"}
	types := []string{}
	for _, t := range influxdb.AllResourceTypes {
		types = append(types, string(t))
	}
	// exhaustive: every action x resource type x {nil,1,2} ids x {nil,1,2} orgs on
	// both sides would be 2*23*9 squared = 171k pairs; quick enumerates all
	// permission shapes against requests of the same or one other type, thorough
	// the full square plus out-of-enumeration strings.
	emitPair := func(buf *[]string, pa, pt string, pi, po int, ra, rt string, ri, ro int) {
		*buf = append(*buf, "m "+h.HexS(pa)+" "+h.HexS(pt)+" "+fmtID(pi)+" "+fmtID(po)+" "+
			h.HexS(ra)+" "+h.HexS(rt)+" "+fmtID(ri)+" "+fmtID(ro))
	}
	var buf []string
	flush := func() {
		if len(buf) > 0 {
			emit(buf)
			buf = nil
		}
	}
	for _, pa := range actions {
		for ti, pt := range types {
			rts := []string{pt, types[(ti+1)%len(types)], "instance"}
			if tier == "thorough" {
				rts = types
			}
			for pi := 0; pi < 3; pi++ {
				for po := 0; po < 3; po++ {
					for _, ra := range actions {
						for _, rt := range rts {
							for ri := 0; ri < 3; ri++ {
								for ro := 0; ro < 3; ro++ {
									emitPair(&buf, pa, pt, pi, po, ra, rt, ri, ro)
								}
							}
						}
					}
					if len(buf) >= 500 {
						flush()
					}
				}
			}
		}
	}
	flush()
	// strings outside the enumerations, large ids
	odd := []string{"", "Read", "read ", "instance", "buckets", "Instance", "orgs", "*"}
	n := 2000
	if tier == "thorough" {
		n = 50000
	}
	bigs := []uint64{0, 1, 2, 1 << 63, ^uint64(0), 0x1234567890abcdef}
	pickID := func() string {
		if r.Chance(0.3) {
			return "-"
		}
		return strconv.FormatUint(h.Pick(r, bigs), 10)
	}
	for i := 0; i < n; i++ {
		pa, ra := h.Pick(r, append(actions, odd...)), h.Pick(r, append(actions, odd...))
		pt, rt := h.Pick(r, append(types, odd...)), h.Pick(r, append(types, odd...))
		if r.Chance(0.6) {
			ra = pa
		}
		if r.Chance(0.6) {
			rt = pt
		}
		buf = append(buf, "m "+h.HexS(pa)+" "+h.HexS(pt)+" "+pickID()+" "+pickID()+" "+h.HexS(ra)+" "+h.HexS(rt)+" "+pickID()+" "+pickID())
		if len(buf) >= 500 {
			flush()
		}
	}
	flush()
}

func main() { h.Main(h.Harness{Gen: gen, NewCase: h.Stateless(op)}) }
