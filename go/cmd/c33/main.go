// Harness for C33: drives the real http.HealthReadyHandler (kit/check.Check,
// ReadyGate, FreshnessResponse, Named) through httptest: sequential cases whose
// every answer the model predicts, and concurrent cases (registration,
// signalling and requests from several goroutines) recorded as histories with
// invocation / response stamps of one global counter.
package main

import (
	"context"
	"encoding/json"
	"errors"
	"net/http/httptest"
	"regexp"
	"runtime"
	"sort"
	"strconv"
	"strings"
	"sync"
	"sync/atomic"
	"time"

	"github.com/influxdata/influxdb/v2/cmd/influxd/run"
	ihttp "github.com/influxdata/influxdb/v2/http"
	"github.com/influxdata/influxdb/v2/kit/check"
	"go.uber.org/zap"
	"verif/harness/h"
)

type cell struct {
	kind  byte // 'g' gate, 'p' plain, 'f' freshness
	gate  *check.ReadyGate
	fresh *check.FreshnessResponse
	sched *fakeSched
	mu    sync.Mutex
	st    check.Status
	msg   string
}

func (c *cell) answer(name string) check.Response {
	c.mu.Lock()
	defer c.mu.Unlock()
	return check.NewBasicResponse(name, c.st, c.msg, nil)
}

// fakeSched is the NextRunScheduled a SchedulerPulseCheck looks at.
type fakeSched struct {
	mu    sync.Mutex
	state string
}

func (f *fakeSched) When() time.Time {
	f.mu.Lock()
	defer f.mu.Unlock()
	switch f.state {
	case "idle":
		return time.Time{}
	case "future":
		return time.Now().Add(time.Hour + 200*time.Millisecond)
	case "ontime":
		return time.Now().Add(-time.Second - 100*time.Millisecond)
	case "stalled":
		return time.Now().Add(-time.Hour - 100*time.Millisecond)
	}
	panic("bad pulse state " + f.state)
}

// gatedErr is an error whose Error() parks until released: Finish(err) calls it
// while it is building the failure message.
type gatedErr struct {
	msg     string
	entered chan struct{}
	release chan struct{}
	once    sync.Once
}

func (e *gatedErr) Error() string {
	e.once.Do(func() { close(e.entered) })
	<-e.release
	return e.msg
}

type runner struct {
	hd       *ihttp.HealthReadyHandler
	ready    []*cell
	health   []*cell
	gates    map[string]*check.ReadyGate
	startups []*run.StartupProgressLogger
}

func newRunner() h.CaseRunner {
	return &runner{hd: ihttp.NewHealthReadyHandler(nil), gates: map[string]*check.ReadyGate{}}
}

func (r *runner) Close() {}

type wireCheck struct {
	Name    string `json:"name"`
	Status  string `json:"status"`
	Message string `json:"message"`
}

var (
	rePct     = regexp.MustCompile(`^loading shards [0-9.]+%`)
	reElapsed = regexp.MustCompile(`^(ready: [0-9]+ shards loaded in ).*$`)
)

// canonMsg removes what depends on the wall clock or on float formatting.
func canonMsg(m string) string {
	if strings.HasPrefix(m, "stale: ") {
		return "stale"
	}
	m = rePct.ReplaceAllString(m, "loading shards ?%")
	m = reElapsed.ReplaceAllString(m, "${1}?")
	return m
}

func showChecks(cs []wireCheck) string {
	out := make([]string, len(cs))
	for i, c := range cs {
		out[i] = h.HexS(c.Name) + ":" + h.HexS(c.Status) + ":" + h.HexS(canonMsg(c.Message))
	}
	return h.Join(out)
}

func (r *runner) get(path string) (int, map[string]json.RawMessage) {
	req := httptest.NewRequest("GET", "http://localhost:8086"+path, nil)
	rec := httptest.NewRecorder()
	r.hd.ServeHTTP(rec, req)
	var body map[string]json.RawMessage
	if err := json.Unmarshal(rec.Body.Bytes(), &body); err != nil {
		return rec.Code, nil
	}
	return rec.Code, body
}

func field(body map[string]json.RawMessage, k string) string {
	var s string
	if raw, ok := body[k]; ok {
		json.Unmarshal(raw, &s)
	}
	return s
}

func checksOf(body map[string]json.RawMessage) []wireCheck {
	var cs []wireCheck
	if raw, ok := body["checks"]; ok {
		json.Unmarshal(raw, &cs)
	}
	return cs
}

func (r *runner) Op(t []string) string {
	if len(t) == 0 {
		return "bad-op"
	}
	s := func(i int) string { return string(h.MustUnHex(t[i])) }
	switch {
	case t[0] == "rg" && len(t) == 2:
		g := check.NewReadyGate(s(1))
		r.hd.AddNamedReadyCheck(g)
		r.ready = append(r.ready, &cell{kind: 'g', gate: g})
		r.gates[s(1)] = g
		return "ok"
	case t[0] == "rc" && len(t) == 4:
		c := &cell{kind: 'p', st: check.Status(s(2)), msg: s(3)}
		r.hd.AddNamedReadyCheck(check.Named(s(1), check.CheckerFunc(func(context.Context) check.Response { return c.answer("inner") })))
		r.ready = append(r.ready, c)
		return "ok"
	case t[0] == "hc" && len(t) == 5:
		c := &cell{kind: 'p', st: check.Status(s(2)), msg: s(3)}
		name := s(1)
		if t[4] == "1" {
			r.hd.AddNamedHealthCheck(check.Named(name, check.CheckerFunc(func(context.Context) check.Response { return c.answer("inner") })))
		} else {
			r.hd.AddHealthCheck(check.CheckerFunc(func(context.Context) check.Response { return c.answer(name) }))
		}
		r.health = append(r.health, c)
		return "ok"
	case t[0] == "hf" && len(t) == 3:
		staleness := time.Hour
		if t[2] == "1" {
			staleness = -time.Nanosecond
		}
		f := check.NewFreshnessResponse("inner", staleness)
		r.hd.AddNamedHealthCheck(check.Named(s(1), check.CheckerFunc(func(context.Context) check.Response { return f })))
		r.health = append(r.health, &cell{kind: 'f', fresh: f})
		return "ok"
	case t[0] == "sl" && len(t) == 2:
		u := run.NewStartupProgressLogger(s(1), zap.NewNop())
		r.hd.AddNamedReadyCheck(u.ReadyChecker())
		r.hd.AddNamedHealthCheck(u.HealthChecker())
		r.ready = append(r.ready, &cell{kind: 's'})
		r.health = append(r.health, &cell{kind: 's'})
		r.startups = append(r.startups, u)
		return "ok"
	case t[0] == "se" && len(t) == 3:
		k := int(h.Atoi(t[1]))
		if k >= len(r.startups) {
			return "bad-op"
		}
		u := r.startups[k]
		ev := strings.Split(t[2], ".")
		switch {
		case ev[0] == "add" && len(ev) == 1:
			u.AddShard()
		case ev[0] == "done" && len(ev) == 1:
			u.CompletedShard()
		case ev[0] == "fail" && len(ev) == 3:
			u.ShardLoadFailed(uint64(h.Atoi(ev[1])), errors.New(string(h.MustUnHex(ev[2]))))
		case ev[0] == "fin" && len(ev) == 1:
			u.Finish(nil)
		case ev[0] == "finerr" && len(ev) == 2:
			u.Finish(errors.New(string(h.MustUnHex(ev[1]))))
		default:
			return "bad-op"
		}
		return "ok"
	case t[0] == "sfr" && len(t) == 4:
		// Finish(err) in flight: err.Error() parks (the code renders the message inside
		// Finish), /ready is requested meanwhile, then Finish is let go and /ready asked again
		k, n := int(h.Atoi(t[1])), int(h.Atoi(t[3]))
		if k >= len(r.startups) {
			return "bad-op"
		}
		ge := &gatedErr{msg: s(2), entered: make(chan struct{}), release: make(chan struct{})}
		finished := make(chan struct{})
		go func() {
			defer close(finished)
			r.startups[k].Finish(ge)
		}()
		select {
		case <-ge.entered:
		case <-finished:
		case <-time.After(10 * time.Second):
			return "timeout-in-finish"
		}
		var out []string
		one := func() {
			code, body := r.get("/ready")
			out = append(out, strconv.Itoa(code)+" "+h.HexS(field(body, "status"))+" "+showChecks(checksOf(body)))
		}
		for i := 0; i < n; i++ {
			one()
		}
		close(ge.release)
		select {
		case <-finished:
		case <-time.After(10 * time.Second):
			return "timeout-in-finish"
		}
		one()
		return strings.Join(out, " ")
	case t[0] == "sp" && len(t) == 3:
		f := &fakeSched{state: t[2]}
		r.hd.AddNamedHealthCheck(check.Named(s(1), run.NewSchedulerPulseCheck(f, run.DefaultSchedulerPulseThreshold)))
		r.health = append(r.health, &cell{kind: 'q', sched: f})
		return "ok"
	case t[0] == "ss" && len(t) == 3:
		i := int(h.Atoi(t[1]))
		if i >= len(r.health) || r.health[i].kind != 'q' {
			return "bad-op"
		}
		r.health[i].sched.mu.Lock()
		r.health[i].sched.state = t[2]
		r.health[i].sched.mu.Unlock()
		return "ok"
	case t[0] == "sig" && len(t) == 3:
		i := int(h.Atoi(t[1]))
		if i >= len(r.ready) || r.ready[i].kind != 'g' {
			return "bad-op"
		}
		if t[2] == "1" {
			r.ready[i].gate.Ready()
		} else {
			r.ready[i].gate.Unready()
		}
		return "ok"
	case (t[0] == "sr" || t[0] == "sh") && len(t) == 4:
		list := r.ready
		if t[0] == "sh" {
			list = r.health
		}
		i := int(h.Atoi(t[1]))
		if i >= len(list) {
			return "bad-op"
		}
		c := list[i]
		switch {
		case c.kind == 'p':
			c.mu.Lock()
			c.st, c.msg = check.Status(s(2)), s(3)
			c.mu.Unlock()
		case c.kind == 'f' && t[0] == "sh":
			c.fresh.Update(check.NewBasicResponse("probe", check.Status(s(2)), s(3), nil))
		default:
			return "bad-op"
		}
		return "ok"
	case t[0] == "ready" && len(t) == 1:
		code, body := r.get(h.Pick(pathRand, []string{"/ready", "/ready", "/ready/", "/ready?x=1"}))
		return strconv.Itoa(code) + " " + h.HexS(field(body, "status")) + " " + showChecks(checksOf(body))
	case t[0] == "health" && len(t) == 1:
		code, body := r.get(h.Pick(pathRand, []string{"/health", "/health", "/health/"}))
		return strconv.Itoa(code) + " " + h.HexS(field(body, "status")) + " " + h.HexS(canonMsg(field(body, "message"))) + " " + showChecks(checksOf(body))
	case t[0] == "names" && len(t) == 1:
		ns := r.hd.ReadyCheckNames()
		out := make([]string, len(ns))
		for i, n := range ns {
			out[i] = h.HexS(n)
		}
		return h.Join(out)
	case t[0] == "conc" && len(t) == 2:
		return r.conc(t[1])
	}
	return "bad-op"
}

// which path spelling a request uses does not matter to the model
var pathRand = h.NewRand(7)

// spin keeps a signalling goroutine busy for about 20 microseconds (inside the
// operation's interval) so that signals overlap the much slower requests
func spin() {
	for t0 := time.Now(); time.Since(t0) < 20*time.Microsecond; {
	}
}

type hop struct {
	thread, idx int
	inv, res    int64
	code        int
	failing     []string
}

// conc runs the threads' programs concurrently against the handler.
func (r *runner) conc(prog string) string {
	threads := strings.Split(prog, "|")
	var ctr, arrived atomic.Int64
	var mu sync.Mutex // guards r.gates and hist
	var hist []hop
	var wg sync.WaitGroup
	start := make(chan struct{})
	for ti, th := range threads {
		var ops []string
		if th != "-" {
			ops = strings.Split(th, "+")
		}
		wg.Add(1)
		go func(ti int, ops []string) {
			defer wg.Done()
			<-start
			// spin barrier: all goroutines leave it within nanoseconds of each other
			arrived.Add(1)
			for arrived.Load() < int64(len(threads)) {
			}
			local := make([]hop, 0, len(ops))
			for i, o := range ops {
				p := strings.SplitN(o, ".", 2)
				var name string
				if len(p) == 2 {
					name = string(h.MustUnHex(p[1]))
				}
				var g *check.ReadyGate
				switch p[0] {
				case "s0", "s1":
					mu.Lock()
					g = r.gates[name]
					mu.Unlock()
					if g == nil {
						panic("signal on unknown gate " + name)
					}
				case "rg":
					g = check.NewReadyGate(name)
				}
				e := hop{thread: ti, idx: i}
				e.inv = ctr.Add(1)
				switch p[0] {
				case "rd":
					code, body := r.get("/ready")
					e.code = code
					for _, c := range checksOf(body) {
						e.failing = append(e.failing, c.Name)
					}
				case "s1":
					g.Ready()
					spin()
				case "s0":
					g.Unready()
					spin()
				case "rg":
					r.hd.AddNamedReadyCheck(g)
				default:
					panic("bad conc op " + o)
				}
				e.res = ctr.Add(1)
				if p[0] == "rg" {
					mu.Lock()
					r.gates[name] = g
					mu.Unlock()
				}
				local = append(local, e)
				if (i+ti)%3 == 0 {
					runtime.Gosched()
				}
			}
			mu.Lock()
			hist = append(hist, local...)
			mu.Unlock()
		}(ti, ops)
	}
	close(start)
	wg.Wait()
	sort.Slice(hist, func(a, b int) bool { return hist[a].inv < hist[b].inv })
	out := make([]string, len(hist))
	for i, e := range hist {
		f := "-"
		if len(e.failing) > 0 {
			hs := make([]string, len(e.failing))
			for j, n := range e.failing {
				hs[j] = h.HexS(n)
			}
			f = strings.Join(hs, "+")
		}
		out[i] = strconv.Itoa(e.thread) + "." + strconv.Itoa(e.idx) + ":" + strconv.FormatInt(e.inv, 10) + ":" + strconv.FormatInt(e.res, 10) + ":" + strconv.Itoa(e.code) + ":" + f
	}
	return h.Join(out)
}

// ---------------------------------------------------------------- generator

var statuses = []string{"pass", "pass", "pass", "pass", "pass", "pass", "fail", "fail", "fail", "", "warn", "PASS"}
var pulseStates = []string{"idle", "future", "ontime", "stalled"}
var msgs = []string{"", "", "down", "unreachable", "50% loaded", "not ready", "x", "disk full: /var"}

func genSeq(r *h.Rand, big bool) []string {
	var ops []string
	type ent struct{ kind byte }
	var ready, health []ent
	nstart := 0
	n := 10 + r.Intn(40)
	capList := 12 // lists this small are sorted by insertion sort (stable) in Go too, so duplicate names are predictable
	unique := big
	if big {
		n = 60 + r.Intn(60)
		capList = 40
	}
	name := func(prefix string, i int) string {
		if !unique && r.Chance(0.15) {
			return prefix + strconv.Itoa(r.Intn(4))
		}
		return prefix + strconv.Itoa(100+i)
	}
	onlyPF := r.Chance(0.5) // half of the cases use only the two declared statuses
	status := func() string {
		if onlyPF {
			return h.Pick(r, []string{"pass", "pass", "fail"})
		}
		return h.Pick(r, statuses)
	}
	for i := 0; i < n; i++ {
		x := r.Intn(100)
		switch {
		case x < 10 && len(ready) < capList:
			ops = append(ops, "rg "+h.HexS(name("g", len(ready))))
			ready = append(ready, ent{'g'})
		case x < 14 && len(ready) < capList:
			ops = append(ops, "rc "+h.HexS(name("r", len(ready)))+" "+h.HexS(status())+" "+h.HexS(h.Pick(r, msgs)))
			ready = append(ready, ent{'p'})
		case x < 24 && len(health) < capList:
			ops = append(ops, "hc "+h.HexS(name("h", len(health)))+" "+h.HexS(status())+" "+h.HexS(h.Pick(r, msgs))+" "+h.B(r.Bool()))
			health = append(health, ent{'p'})
		case x < 27 && len(health) < capList:
			ops = append(ops, "hf "+h.HexS(name("f", len(health)))+" "+h.B(r.Chance(0.3)))
			health = append(health, ent{'f'})
		case x < 29 && len(health) < capList && len(ready) < capList:
			ops = append(ops, "sl "+h.HexS(name("s", len(ready))))
			ready = append(ready, ent{'s'})
			health = append(health, ent{'s'})
			nstart++
		case x < 31 && len(health) < capList:
			ops = append(ops, "sp "+h.HexS(name("q", len(health)))+" "+h.Pick(r, pulseStates))
			health = append(health, ent{'q'})
		case x < 33 && nstart > 0:
			ops = append(ops, "sfr "+strconv.Itoa(r.Intn(nstart))+" "+h.HexS(h.Pick(r, []string{"engine open failed", "disk on fire"}))+" "+strconv.Itoa(1+r.Intn(3)))
		case x < 40 && nstart > 0:
			ev := h.Pick(r, []string{"add", "add", "done", "fin", "fin", "finerr." + h.HexS(h.Pick(r, []string{"engine open failed", "disk full"})),
				"fail." + strconv.Itoa(r.Intn(100)) + "." + h.HexS(h.Pick(r, []string{"corrupt index", "bad tsm: x"}))})
			ops = append(ops, "se "+strconv.Itoa(r.Intn(nstart))+" "+ev)
		case x < 50 && len(ready) > 0:
			i := r.Intn(len(ready))
			switch ready[i].kind {
			case 'g':
				ops = append(ops, "sig "+strconv.Itoa(i)+" "+h.B(r.Chance(0.7)))
			case 'p':
				ops = append(ops, "sr "+strconv.Itoa(i)+" "+h.HexS(status())+" "+h.HexS(h.Pick(r, msgs)))
			default:
				ops = append(ops, "ready")
			}
		case x < 62 && len(health) > 0:
			i := r.Intn(len(health))
			switch health[i].kind {
			case 'p', 'f':
				ops = append(ops, "sh "+strconv.Itoa(i)+" "+h.HexS(status())+" "+h.HexS(h.Pick(r, msgs)))
			case 'q':
				ops = append(ops, "ss "+strconv.Itoa(i)+" "+h.Pick(r, pulseStates))
			default:
				ops = append(ops, "health")
			}
		case x < 80:
			ops = append(ops, "ready")
		case x < 97:
			ops = append(ops, "health")
		default:
			ops = append(ops, "names")
		}
	}
	ops = append(ops, "ready", "health")
	return ops
}

func genConc(r *h.Rand, tier string) []string {
	var ops []string
	var known []string
	k := r.Intn(5)
	for i := 0; i < k; i++ {
		n := "a" + strconv.Itoa(i)
		ops = append(ops, "rg "+h.HexS(n))
		known = append(known, n)
		if r.Chance(0.6) {
			ops = append(ops, "sig "+strconv.Itoa(i)+" 1")
		}
	}
	ops = append(ops, "ready")
	nt := 2 + r.Intn(5)
	var threads []string
	storm := r.Chance(0.4) && len(known) > 0 // togglers hammering the initial gates while the others mostly read
	for t := 0; t < nt; t++ {
		mine := append([]string(nil), known...)
		nops := 5 + r.Intn(40)
		var p []string
		nreg := 0
		if storm && t%2 == 0 {
			g := h.Pick(r, known)
			for i := 0; i < 400+r.Intn(400); i++ {
				p = append(p, h.Pick(r, []string{"s1", "s0"})+"."+h.HexS(g))
			}
			threads = append(threads, strings.Join(p, "+"))
			continue
		}
		if storm {
			nops = 150 + r.Intn(150)
		}
		for i := 0; i < nops; i++ {
			x := r.Intn(100)
			switch {
			case x < 45 || (storm && x < 85):
				p = append(p, "rd")
			case x < 55 && nreg < 4:
				n := "t" + strconv.Itoa(t) + "n" + strconv.Itoa(nreg)
				nreg++
				p = append(p, "rg."+h.HexS(n))
				mine = append(mine, n)
			case len(mine) > 0:
				p = append(p, h.Pick(r, []string{"s1", "s1", "s0"})+"."+h.HexS(h.Pick(r, mine)))
			default:
				p = append(p, "rd")
			}
		}
		threads = append(threads, strings.Join(p, "+"))
	}
	ops = append(ops, "conc "+strings.Join(threads, "|"))
	return ops
}

// genFinishRace: every other ready check passes, the startup logger has never been
// ready, and Finish(err) races with /ready requests: none of them may answer 200.
func genFinishRace(r *h.Rand) []string {
	var ops []string
	ng := r.Intn(4)
	for i := 0; i < ng; i++ {
		ops = append(ops, "rg "+h.HexS("g"+strconv.Itoa(i)), "sig "+strconv.Itoa(i)+" 1")
	}
	ops = append(ops, "sl "+h.HexS("shards"))
	for i := 0; i < r.Intn(4); i++ {
		ops = append(ops, "se 0 "+h.Pick(r, []string{"add", "add", "done"}))
	}
	if r.Chance(0.3) {
		ops = append(ops, "se 0 fail.7."+h.HexS("corrupt index"))
	}
	ops = append(ops, "ready", "health")
	ops = append(ops, "sfr 0 "+h.HexS(h.Pick(r, []string{"open engine: disk on fire", "engine open failed"}))+" "+strconv.Itoa(1+r.Intn(3)))
	ops = append(ops, "ready", "health")
	if r.Chance(0.3) { // a late Finish(nil) does not resurrect the gate
		ops = append(ops, "se 0 fin", "ready")
	}
	return ops
}

func gen(r *h.Rand, tier string, emit func([]string)) {
	nseq, nbig, nconc := 600, 40, 300
	if tier == "thorough" {
		nseq, nbig, nconc = 6000, 400, 3000
	}
	for i := 0; i < nseq; i++ {
		emit(genSeq(r, false))
	}
	for i := 0; i < nbig; i++ {
		emit(genSeq(r, true))
	}
	for i := 0; i < nconc; i++ {
		emit(genConc(r, tier))
	}
	for i := 0; i < nseq/10; i++ {
		emit(genFinishRace(r))
	}
}

func main() { h.Main(h.Harness{Gen: gen, NewCase: newRunner}) }
