// Harness for C05: drives the real tsm1.DefaultPlanner with a fake fileStore.
//
// ops (see lean/Influx/Drv/C05.lean):
//
//	new <durPos> | fs <modFuture> <hexpath,gen,seq,size,fbc,tomb>* | add <file>
//	find | plan <cold> | level <n> | opt <cold> | force | fully
//	release <k> | done <k> <size> <fbc> | inuse
package main

import (
	"fmt"
	"sort"
	"strconv"
	"strings"
	"time"

	"github.com/influxdata/influxdb/v2/tsdb"
	"github.com/influxdata/influxdb/v2/tsdb/engine/tsm1"
	"verif/harness/h"
)

// ---------------------------------------------------------------- fake file store

type fakeFS struct {
	stats   []tsm1.ExtFileStat
	lastMod time.Time
}

func (f *fakeFS) Stats() []tsm1.ExtFileStat {
	out := make([]tsm1.ExtFileStat, len(f.stats))
	copy(out, f.stats)
	return out
}
func (f *fakeFS) LastModified() time.Time { return f.lastMod }
func (f *fakeFS) ParseFileName(path string) (int, int, error) {
	for _, s := range f.stats {
		if s.Path == path {
			return s.Generation, s.Sequence, nil
		}
	}
	return 0, 0, fmt.Errorf("no such file")
}
func (f *fakeFS) NextGeneration() int {
	m := 0
	for _, s := range f.stats {
		if s.Generation > m {
			m = s.Generation
		}
	}
	return m + 1
}
func (f *fakeFS) TSMReader(path string) (*tsm1.TSMReader, error) { return nil, nil }
func (f *fakeFS) SupportsCompactionPlanning() bool                { return true }

var (
	farFuture = time.Date(9000, 1, 1, 0, 0, 0, 0, time.UTC)
	farPast   = time.Unix(1, 0)
)

const coldDur = time.Hour

// ---------------------------------------------------------------- case runner

type handed struct {
	g    tsm1.CompactionGroup
	held bool
}

type runner struct {
	fs     *fakeFS
	p      *tsm1.DefaultPlanner
	gens   tsm1.TsmGenerations
	handed []handed
}

func newRunner(durPos bool) *runner {
	fs := &fakeFS{lastMod: farFuture}
	d := coldDur
	if !durPos {
		d = 0
	}
	return &runner{fs: fs, p: tsm1.NewDefaultPlanner(fs, d)}
}

func parseFile(s string) (tsm1.ExtFileStat, bool) {
	var st tsm1.ExtFileStat
	parts := strings.Split(s, ",")
	if len(parts) != 6 {
		return st, false
	}
	p, err := h.UnHex(parts[0])
	if err != nil || len(p) == 0 {
		return st, false
	}
	g, e1 := strconv.ParseInt(parts[1], 10, 64)
	q, e2 := strconv.ParseInt(parts[2], 10, 64)
	sz, e3 := strconv.ParseUint(parts[3], 10, 64)
	fbc, e4 := strconv.ParseInt(parts[4], 10, 64)
	if e1 != nil || e2 != nil || e3 != nil || e4 != nil || (parts[5] != "0" && parts[5] != "1") {
		return st, false
	}
	if sz > 0xFFFFFFFF { // FileStat.Size is a uint32: nothing larger can be represented
		return st, false
	}
	st.Path = string(p)
	st.Generation = int(g)
	st.Sequence = int(q)
	st.Size = uint32(sz)
	st.FirstBlockCount = int(fbc)
	st.HasTombstone = parts[5] == "1"
	return st, true
}

func lastWrite(cold bool) time.Time {
	if cold {
		return time.Now().Add(-3 * coldDur)
	}
	return time.Now().Add(coldDur)
}

func showGroups(gs []tsm1.CompactionGroup) string {
	if len(gs) == 0 {
		return "-"
	}
	out := make([]string, len(gs))
	for i, g := range gs {
		fs := make([]string, len(g))
		for j, f := range g {
			fs[j] = h.HexS(f)
		}
		out[i] = strings.Join(fs, "+")
	}
	return strings.Join(out, ",")
}

func (r *runner) hand(gs []tsm1.CompactionGroup) {
	for _, g := range gs {
		r.handed = append(r.handed, handed{g: g, held: true})
	}
}

func contains(g tsm1.CompactionGroup, p string) bool {
	for _, f := range g {
		if f == p {
			return true
		}
	}
	return false
}

func fullyCode(reason string) int {
	switch {
	case reason == "":
		return 0
	case strings.Contains(reason, "more than one generation"):
		return 1
	case strings.Contains(reason, "because of tombstones"):
		return 2
	case strings.Contains(reason, "all files are at aggressivePointsPerBlock"):
		return 3
	case reason == tsdb.SingleGenerationReasonText:
		return 4
	}
	return 9
}

func (r *runner) Op(t []string) string {
	if len(t) == 0 {
		return "bad-op"
	}
	switch {
	case t[0] == "new" && len(t) == 2 && (t[1] == "0" || t[1] == "1"):
		*r = *newRunner(t[1] == "1")
		return "ok"
	case t[0] == "fs" && len(t) >= 2 && (t[1] == "0" || t[1] == "1"):
		var stats []tsm1.ExtFileStat
		seen := map[string]bool{}
		dup := false
		for _, s := range t[2:] {
			st, ok := parseFile(s)
			if !ok {
				return "bad-op"
			}
			if seen[st.Path] {
				dup = true
			}
			seen[st.Path] = true
			stats = append(stats, st)
		}
		if dup {
			return "rejected"
		}
		r.fs.stats = stats
		if t[1] == "1" {
			r.fs.lastMod = farFuture
		} else {
			r.fs.lastMod = farPast
		}
		return "ok"
	case t[0] == "add" && len(t) == 2:
		st, ok := parseFile(t[1])
		if !ok {
			return "bad-op"
		}
		for _, s := range r.fs.stats {
			if s.Path == st.Path {
				return "rejected"
			}
		}
		r.fs.stats = append(r.fs.stats, st)
		return "ok"
	case t[0] == "find" && len(t) == 1:
		r.gens = r.p.FindGenerations()
		vg := tsm1.VerifGenerations(r.gens)
		if len(vg) == 0 {
			return "gens -"
		}
		out := make([]string, len(vg))
		for i, g := range vg {
			fs := make([]string, len(g.Files))
			for j, f := range g.Files {
				fs[j] = h.HexS(f.Path)
			}
			out[i] = strconv.Itoa(g.ID) + ":" + strings.Join(fs, "+")
		}
		return "gens " + strings.Join(out, ",")
	case t[0] == "plan" && len(t) == 2 && (t[1] == "0" || t[1] == "1"):
		gs, n := r.p.Plan(r.gens, lastWrite(t[1] == "1"))
		r.hand(gs)
		return fmt.Sprintf("plan n=%d gc=0 %s", n, showGroups(gs))
	case t[0] == "level" && len(t) == 2:
		lvl, err := strconv.ParseInt(t[1], 10, 64)
		if err != nil {
			return "bad-op"
		}
		gs, n := r.p.PlanLevel(r.gens, int(lvl))
		r.hand(gs)
		return fmt.Sprintf("plan n=%d gc=0 %s", n, showGroups(gs))
	case t[0] == "opt" && len(t) == 2 && (t[1] == "0" || t[1] == "1"):
		gs, n, gc := r.p.PlanOptimize(r.gens, lastWrite(t[1] == "1"))
		r.hand(gs)
		return fmt.Sprintf("plan n=%d gc=%d %s", n, gc, showGroups(gs))
	case t[0] == "force" && len(t) == 1:
		r.p.ForceFull()
		return "ok"
	case t[0] == "fully" && len(t) == 1:
		b, why := r.p.FullyCompacted()
		return fmt.Sprintf("fully %s %d", h.B(b), fullyCode(why))
	case t[0] == "release" && len(t) == 2:
		k, err := strconv.ParseUint(t[1], 10, 64)
		if err != nil {
			return "bad-op"
		}
		if k >= uint64(len(r.handed)) || !r.handed[k].held {
			return "not-held"
		}
		r.p.Release([]tsm1.CompactionGroup{r.handed[k].g})
		r.handed[k].held = false
		return "released"
	case t[0] == "done" && len(t) == 4:
		k, e1 := strconv.ParseUint(t[1], 10, 64)
		sz, e2 := strconv.ParseUint(t[2], 10, 64)
		fbc, e3 := strconv.ParseInt(t[3], 10, 64)
		if e1 != nil || e2 != nil || e3 != nil || sz > 0xFFFFFFFF {
			return "bad-op"
		}
		if k >= uint64(len(r.handed)) || !r.handed[k].held {
			return "not-held"
		}
		g := r.handed[k].g
		// the environment step "compaction of g finished", as Compactor.compact names its output
		var old, keep []tsm1.ExtFileStat
		for _, s := range r.fs.stats {
			if contains(g, s.Path) {
				old = append(old, s)
			} else {
				keep = append(keep, s)
			}
		}
		maxGen, maxSeq := 0, 0
		for _, s := range old {
			if s.Generation > maxGen {
				maxGen, maxSeq = s.Generation, s.Sequence
			}
			if s.Generation == maxGen && s.Sequence > maxSeq {
				maxSeq = s.Sequence
			}
		}
		if len(old) == 0 || maxSeq < 0 {
			return "rejected"
		}
		name := fmt.Sprintf("%09d-%09d.tsm", maxGen, maxSeq+1)
		for _, s := range keep {
			if s.Path == name {
				return "rejected"
			}
		}
		var nf tsm1.ExtFileStat
		nf.Path, nf.Generation, nf.Sequence = name, maxGen, maxSeq+1
		nf.Size, nf.FirstBlockCount = uint32(sz), int(fbc)
		r.fs.stats = append(keep, nf)
		r.p.Release([]tsm1.CompactionGroup{g})
		r.handed[k].held = false
		return fmt.Sprintf("done %s %d %d", h.HexS(name), maxGen, maxSeq+1)
	case t[0] == "inuse" && len(t) == 1:
		fs := r.p.VerifFilesInUse()
		if len(fs) == 0 {
			return "inuse -"
		}
		sort.Strings(fs)
		out := make([]string, len(fs))
		for i, f := range fs {
			out[i] = h.HexS(f)
		}
		return "inuse " + strings.Join(out, ",")
	}
	return "bad-op"
}

func (r *runner) Close() {}

// ---------------------------------------------------------------- generator

var sizeClasses = []uint64{1, 100, 4096, 1 << 20, 1 << 30, 1<<31 - 1, 1 << 31, 1<<31 + 1, 3000000000, 0xFFFFFFFF}
var smallSizes = []uint64{1, 100, 4096, 1 << 20, 1 << 24}
var fbcClasses = []int64{0, 10, 999, 1000, 1001, 9999, 10000, 10001}

func fname(gen, seq int64) string { return fmt.Sprintf("%09d-%09d.tsm", gen, seq) }

func fileTok(path string, gen, seq int64, size uint64, fbc int64, tomb bool) string {
	return fmt.Sprintf("%s,%d,%d,%d,%d,%s", h.HexS(path), gen, seq, size, fbc, h.B(tomb))
}

// a random file store: generations with ascending ids, each 1..3 files
func genStore(r *h.Rand, maxGens int, big float64) (toks []string, maxGen int64) {
	n := r.Intn(maxGens + 1)
	gen := int64(0)
	for i := 0; i < n; i++ {
		gen += 1 + int64(r.Intn(3))/2 // mostly consecutive ids, some gaps
		// level through the first file's sequence
		seq := int64(h.Pick(r, []int{1, 1, 2, 2, 3, 3, 4, 4, 4, 5, 7}))
		nf := 1
		if r.Chance(0.3) {
			nf = 2 + r.Intn(2)
		}
		for j := 0; j < nf; j++ {
			var size uint64
			if r.Chance(big) {
				size = h.Pick(r, sizeClasses)
			} else {
				size = h.Pick(r, smallSizes)
			}
			fbc := h.Pick(r, fbcClasses)
			toks = append(toks, fileTok(fname(gen, seq+int64(j)), gen, seq+int64(j), size, fbc, r.Chance(0.08)))
		}
	}
	if r.Chance(0.15) { // Stats() order is whatever the store says
		for i := len(toks) - 1; i > 0; i-- {
			j := r.Intn(i + 1)
			toks[i], toks[j] = toks[j], toks[i]
		}
	}
	return toks, gen
}

func planOp(r *h.Rand) string {
	switch r.Intn(12) {
	case 0, 1:
		return "level 1"
	case 2:
		return "level 2"
	case 3:
		return "level 3"
	case 4:
		return "level " + strconv.Itoa(r.Intn(7)-1)
	case 5, 6:
		return "plan 0"
	case 7, 8:
		return "plan 1"
	case 9:
		return "opt 0"
	default:
		return "opt 1"
	}
}

func gen(r *h.Rand, tier string, emit func([]string)) {
	nRandom, nReal, maxGens := 1500, 300, 8
	if tier == "thorough" {
		nRandom, nReal, maxGens = 30000, 3000, 12
	}
	// 0. fixed scenarios (DESIGN §6 F2 and relatives)
	f := func(g, s int64, size uint64, fbc int64, tomb bool) string {
		return fileTok(fname(g, s), g, s, size, fbc, tomb)
	}
	emit([]string{ // generations 2,3 held by a level plan, then ForceFull; Plan
		"fs 1 " + strings.Join([]string{f(1, 4, 100, 10, false), f(2, 2, 100, 10, true), f(3, 2, 100, 10, false), f(4, 1, 100, 10, false), f(5, 1, 100, 10, false)}, " "),
		"find", "level 2", "force", "plan 0", "inuse", "release 0", "release 0", "done 1 5 5", "find", "fully"})
	emit([]string{ // cold shard, the middle generation is maxed out
		"fs 1 " + strings.Join([]string{f(1, 4, 100, 10, false), f(2, 4, 3000000000, 1000, false), f(3, 4, 100, 10, false)}, " "),
		"find", "plan 1", "inuse"})
	emit([]string{ // nothing in the way: a cold full plan takes everything
		"fs 1 " + strings.Join([]string{f(1, 4, 100, 10, false), f(2, 4, 100, 1000, false), f(3, 4, 100, 10, false)}, " "),
		"find", "plan 1", "plan 1", "opt 1", "release 0", "opt 1"})
	// 1. random stores, random call sequences
	for c := 0; c < nRandom; c++ {
		var ops []string
		if r.Chance(0.1) {
			ops = append(ops, "new "+h.B(r.Chance(0.5)))
		}
		plans := 0
		rounds := 1 + r.Intn(3)
		for rd := 0; rd < rounds; rd++ {
			big := 0.15
			if r.Chance(0.3) {
				big = 0.6
			}
			toks, _ := genStore(r, maxGens, big)
			ops = append(ops, strings.TrimSpace("fs "+h.B(r.Chance(0.7))+" "+strings.Join(toks, " ")))
			if r.Chance(0.95) {
				ops = append(ops, "find")
			}
			n := 2 + r.Intn(10)
			for i := 0; i < n; i++ {
				switch x := r.Intn(20); {
				case x < 11:
					ops = append(ops, planOp(r))
					plans++
				case x == 11:
					ops = append(ops, "force")
				case x == 12:
					ops = append(ops, "fully")
				case x == 13:
					ops = append(ops, "inuse")
				case x == 14:
					ops = append(ops, "find")
				case x < 18:
					ops = append(ops, "release "+strconv.Itoa(r.Intn(plans/3+2)))
				default:
					ops = append(ops, fmt.Sprintf("done %d %d %d", r.Intn(plans/3+2), h.Pick(r, sizeClasses), h.Pick(r, fbcClasses)))
				}
			}
		}
		ops = append(ops, "inuse")
		emit(ops)
	}
	// 2. engine-like trajectories: snapshots arrive, the five planners run in
	// the engine's order on one FindGenerations result, compactions finish
	for c := 0; c < nReal; c++ {
		ops := []string{"new " + h.B(r.Chance(0.85))}
		nextGen := int64(1)
		plans := 0
		steps := 4 + r.Intn(10)
		for s := 0; s < steps; s++ {
			adds := r.Intn(10)
			for i := 0; i < adds; i++ {
				ops = append(ops, "add "+fileTok(fname(nextGen, 1), nextGen, 1, h.Pick(r, smallSizes), h.Pick(r, fbcClasses), r.Chance(0.03)))
				nextGen++
			}
			ops = append(ops, "find")
			if r.Chance(0.1) {
				ops = append(ops, "force")
			}
			cold := h.B(r.Chance(0.3))
			for _, o := range []string{"level 1", "level 2", "level 3", "plan " + cold, "opt " + cold} {
				if r.Chance(0.9) {
					ops = append(ops, o)
					plans++
				}
			}
			fin := r.Intn(plans/2 + 2)
			for i := 0; i < fin; i++ {
				k := r.Intn(plans/3 + 2)
				if r.Chance(0.75) {
					size := h.Pick(r, smallSizes)
					if r.Chance(0.25) {
						size = h.Pick(r, sizeClasses)
					}
					ops = append(ops, fmt.Sprintf("done %d %d %d", k, size, h.Pick(r, fbcClasses)))
				} else {
					ops = append(ops, "release "+strconv.Itoa(k))
				}
			}
			if r.Chance(0.2) {
				ops = append(ops, "inuse")
			}
			if r.Chance(0.1) {
				ops = append(ops, "fully")
			}
		}
		ops = append(ops, "inuse")
		emit(ops)
	}
	// 3. malformed lines
	emit([]string{"plan", "plan 2", "fs 1 zz", "fs 1 61,1,1,1,1", "level x", "release -1", "done 0 1", "nonsense", "fs 1 -,1,1,1,1,0",
		"fs 1 61,1,1,4294967296,1,0", "fs 1 61,1,1,1,1,0 61,2,1,1,1,0"})
}

func main() {
	h.Main(h.Harness{Gen: gen, NewCase: func() h.CaseRunner { return newRunner(true) }, OpTimeout: 120 * time.Second})
}
