// Harness for C26: drives the real pkg/durablequeue.Queue in a temp dir.
//
// Crash states are produced as the file-system model of DESIGN.md §3 says: the
// single positional write of an append / footer rewrite is cut after k bytes
// (bytes before the cut come from the file the REAL code wrote, bytes of the old
// file beyond the cut stay), then the queue is reopened with the real Open.
package main

import (
	"encoding/binary"
	"errors"
	"fmt"
	"io"
	"os"
	"path/filepath"
	"sort"
	"strconv"
	"strings"

	"github.com/influxdata/influxdb/v2/pkg/durablequeue"
	"verif/harness/h"
)

func verifyAll([]byte) error { return nil }

// Every append/advance of the queue fsyncs; crash states are constructed by the
// harness, never by losing unsynced data, so a memory file system is as good
// and several times faster.  $TMPDIR wins when set.
func tmpBase() string {
	if os.Getenv("TMPDIR") == "" {
		if st, err := os.Stat("/dev/shm"); err == nil && st.IsDir() {
			return "/dev/shm"
		}
	}
	return ""
}

type runner struct {
	dir             string
	q               *durablequeue.Queue
	maxSize, maxSeg int64
}

func (r *runner) Close() {
	if r.q != nil {
		r.q.Close()
	}
	if r.dir != "" {
		os.RemoveAll(r.dir)
	}
}

func (r *runner) open() error {
	q, err := durablequeue.NewQueue(r.dir, r.maxSize, r.maxSeg, &durablequeue.SharedCount{}, 16, verifyAll)
	if err != nil {
		return err
	}
	if err := q.Open(); err != nil {
		return err
	}
	r.q = q
	return nil
}

// segment files of the directory in id order
func (r *runner) segFiles() []string {
	ents, err := os.ReadDir(r.dir)
	if err != nil {
		panic(err)
	}
	type f struct {
		id   uint64
		name string
	}
	var fs []f
	for _, e := range ents {
		if e.IsDir() {
			continue
		}
		id, err := strconv.ParseUint(e.Name(), 10, 64)
		if err != nil {
			continue
		}
		fs = append(fs, f{id, e.Name()})
	}
	sort.Slice(fs, func(i, j int) bool { return fs[i].id < fs[j].id })
	out := make([]string, len(fs))
	for i, x := range fs {
		out[i] = x.name
	}
	return out
}

func (r *runner) snapshot() map[string][]byte {
	m := map[string][]byte{}
	for _, n := range r.segFiles() {
		b, err := os.ReadFile(filepath.Join(r.dir, n))
		if err != nil {
			panic(err)
		}
		m[n] = b
	}
	return m
}

// tornWrite: the write started at len(pre)-8; k bytes of it reached the disk.
func tornWrite(pre, post []byte, k int) []byte {
	cut := len(pre) - 8 + k
	var out []byte
	if cut < len(post) {
		out = append(out, post[:cut]...)
	} else {
		out = append(out, post...)
	}
	if cut < len(pre) {
		out = append(out, pre[cut:]...)
	}
	return out
}

func tornObs(pre, post, torn []byte) string {
	same := 0
	if string(torn) == string(pre) {
		same = 1
	} else if string(torn) == string(post) {
		same = 2
	}
	var footer uint64
	if len(torn) >= 8 {
		footer = binary.BigEndian.Uint64(torn[len(torn)-8:])
	}
	return fmt.Sprintf("%d %d %d", len(torn), footer, same)
}

func (r *runner) reopenAns(obs string) string {
	if err := r.open(); err != nil {
		r.q = nil
		return "c 0 " + obs
	}
	return "c 1 " + obs
}

func (r *runner) Op(t []string) string {
	if len(t) == 0 {
		return "bad-op"
	}
	if r.q == nil {
		if t[0] == "open" && len(t) == 3 {
			if r.dir != "" { // an earlier Open failed: start again from an empty directory
				os.RemoveAll(r.dir)
			}
			dir, err := os.MkdirTemp(tmpBase(), "verif-c26-")
			if err != nil {
				panic(err)
			}
			r.dir = dir
			r.maxSize, r.maxSeg = h.Atoi(t[1]), h.Atoi(t[2])
			if err := r.open(); err != nil {
				return "err"
			}
			return "ok"
		}
		switch t[0] {
		case "open", "app", "cur", "adv", "scan", "reopen", "capp", "cadv", "cseg", "stat":
			return "notopen"
		}
		return "bad-op"
	}
	q := r.q
	switch {
	case t[0] == "open" && len(t) == 3:
		return "err"
	case t[0] == "app" && len(t) == 2:
		body, herr := h.UnHex(t[1])
		if herr != nil {
			return "bad-op"
		}
		err := q.Append(body)
		switch {
		case err == nil:
			return "ok"
		case errors.Is(err, durablequeue.ErrQueueFull):
			return "full"
		}
		return "err"
	case t[0] == "cur" && len(t) == 1:
		b, err := q.Current()
		switch {
		case err == nil:
			return "v " + h.Hex(b)
		case err == io.EOF:
			return "eof"
		}
		return "err"
	case t[0] == "adv" && len(t) == 1:
		if err := q.Advance(); err != nil {
			return "err"
		}
		return "ok"
	case t[0] == "scan" && len(t) == 2:
		n := int(h.Atoi(t[1]))
		sc, err := q.NewScanner()
		if err == io.EOF {
			return "eof"
		} else if err != nil {
			return "err"
		}
		var ys []string
		for i := 0; i < n; i++ {
			if !sc.Next() {
				break
			}
			ys = append(ys, h.Hex(sc.Bytes()))
		}
		_, err = sc.Advance()
		return fmt.Sprintf("s %d %s %s", len(ys), h.Join(ys), h.B(err == nil))
	case t[0] == "reopen" && len(t) == 1:
		q.Close()
		r.q = nil
		if err := r.open(); err != nil {
			return "err"
		}
		return "ok"
	case t[0] == "capp" && len(t) == 3:
		b, herr := h.UnHex(t[1])
		if herr != nil {
			return "bad-op"
		}
		k := int(h.Atoi(t[2]))
		before := r.snapshot()
		err := q.Append(b)
		after := r.snapshot()
		q.Close()
		r.q = nil
		if err != nil {
			return r.reopenAns("0 0 3")
		}
		// the file the append wrote to
		var name string
		for n, a := range after {
			if p, ok := before[n]; !ok || string(p) != string(a) {
				if name != "" {
					panic("append changed two files")
				}
				name = n
			}
		}
		if name == "" {
			panic("append changed no file")
		}
		pre, ok := before[name]
		if !ok {
			pre = make([]byte, 8) // addSegment completed: a zero footer
		}
		torn := tornWrite(pre, after[name], k)
		if err := os.WriteFile(filepath.Join(r.dir, name), torn, 0600); err != nil {
			panic(err)
		}
		return r.reopenAns(tornObs(pre, after[name], torn))
	case t[0] == "cseg" && len(t) == 3:
		// crash inside addSegment: the new segment file exists with k bytes of its
		// zero footer; the entry itself has not been written
		b, herr := h.UnHex(t[1])
		if herr != nil {
			return "bad-op"
		}
		k := int(h.Atoi(t[2]))
		before := r.snapshot()
		err := q.Append(b)
		after := r.snapshot()
		q.Close()
		r.q = nil
		var fresh string
		for n := range after {
			if _, ok := before[n]; !ok {
				if fresh != "" {
					panic("append created two files")
				}
				fresh = n
			}
		}
		// back to the state before the append …
		for n := range after {
			os.Remove(filepath.Join(r.dir, n))
		}
		for n, bs := range before {
			if err := os.WriteFile(filepath.Join(r.dir, n), bs, 0600); err != nil {
				panic(err)
			}
		}
		if err != nil || fresh == "" {
			return r.reopenAns("0 0 3")
		}
		// … plus the new file, k bytes into its footer
		if k > 8 {
			k = 8
		}
		if err := os.WriteFile(filepath.Join(r.dir, fresh), make([]byte, k), 0600); err != nil {
			panic(err)
		}
		same := 0
		if k == 0 {
			same = 1
		} else if k >= 8 {
			same = 2
		}
		return r.reopenAns(fmt.Sprintf("%d 0 %d", k, same))
	case t[0] == "cadv" && len(t) == 2:
		k := int(h.Atoi(t[1]))
		pos, _ := q.Position()
		headPath := pos.Head[:strings.LastIndexByte(pos.Head, ':')]
		q.Close()
		r.q = nil
		pre, err := os.ReadFile(headPath)
		if err != nil {
			panic(err)
		}
		tmp, err := os.MkdirTemp(tmpBase(), "verif-c26-adv-")
		if err != nil {
			panic(err)
		}
		defer os.RemoveAll(tmp)
		cp := filepath.Join(tmp, filepath.Base(headPath))
		if err := os.WriteFile(cp, pre, 0600); err != nil {
			panic(err)
		}
		if err := durablequeue.VerifAdvanceFile(cp, r.maxSeg, verifyAll); err != nil {
			return r.reopenAns("0 0 3")
		}
		post, err := os.ReadFile(cp)
		if err != nil {
			panic(err)
		}
		torn := tornWrite(pre, post, k)
		if err := os.WriteFile(headPath, torn, 0600); err != nil {
			panic(err)
		}
		return r.reopenAns(tornObs(pre, post, torn))
	case t[0] == "stat" && len(t) == 1:
		pos, _ := q.Position()
		p := pos.Head[strings.LastIndexByte(pos.Head, ':')+1:]
		return fmt.Sprintf("st %d %d %d %s", q.TotalSegments(), q.DiskUsage(), q.TotalBytes(), p)
	}
	return "bad-op"
}

// ---------------------------------------------------------------- generator

type genState struct {
	r   *h.Rand
	idx int
}

// entry bodies are pairwise distinct (a running index is embedded) so that the
// statement checker's cursor is determined; some start with bytes that read as a
// small big-endian integer, which is what makes a torn append footer-like.
func (g *genState) body(kind int) []byte {
	g.idx++
	id := []byte{byte(0xA0 + g.idx%64), byte(g.idx)}
	var b []byte
	switch kind {
	case 0: // short
		b = append(b, id...)
		for n := g.r.Intn(6); n > 0; n-- {
			b = append(b, byte(g.r.Intn(256)))
		}
	case 1: // exactly 8, 16 or 24 bytes: its length is a record boundary of small records
		n := []int{8, 16, 24}[g.r.Intn(3)]
		b = append(b, id...)
		for len(b) < n {
			b = append(b, byte(g.r.Intn(256)))
		}
	case 2: // starts with a small 8-byte integer
		v := uint64(g.r.Intn(64))
		if g.r.Chance(0.5) {
			v = uint64(8 * g.r.Intn(8))
		}
		b = binary.BigEndian.AppendUint64(b, v)
		b = append(b, id...)
		for n := g.r.Intn(10); n > 0; n-- {
			b = append(b, byte(g.r.Intn(4)))
		}
	case 3: // leading zeros
		for n := 1 + g.r.Intn(12); n > 0; n-- {
			b = append(b, 0)
		}
		b = append(b, id...)
	case 4: // long: positions cross a byte boundary (torn footer rewrites mix bytes)
		b = append(b, id...)
		n := 200 + g.r.Intn(120)
		for len(b) < n {
			b = append(b, byte(g.r.Intn(256)))
		}
	}
	return b
}

func (g *genState) pickBody() []byte {
	x := g.r.Intn(100)
	switch {
	case x < 45:
		return g.body(0)
	case x < 60:
		return g.body(1)
	case x < 75:
		return g.body(2)
	case x < 85:
		return g.body(3)
	}
	return g.body(4)
}

func drain(n int) []string {
	var ops []string
	for i := 0; i < n; i++ {
		ops = append(ops, "cur", "adv")
	}
	return append(ops, "cur", "stat")
}

func gen(r *h.Rand, tier string, emit func([]string)) {
	g := &genState{r: r}
	// 1. the F10 shape and its neighbours: one or two small records, every cut of
	//    the next append (k = 0 … 16+len) and of the next advance (k = 0 … 8)
	for _, l1 := range []int{1, 8, 16} {
		for _, l2 := range []int{1, 8, 16, 24} {
			g.idx = 0
			b1, b2 := g.body(0), g.body(0)
			for len(b1) < l1 {
				b1 = append(b1, 0x11)
			}
			for len(b2) < l2 {
				b2 = append(b2, 0x22)
			}
			b1, b2 = b1[:l1], b2[:l2]
			if l1 == 1 {
				b1 = []byte{0xA1}
			}
			if l2 == 1 {
				b2 = []byte{0xB2}
			}
			for k := 0; k <= 16+l2; k++ {
				emit(append([]string{"open 100000 1024", "app " + h.Hex(b1), fmt.Sprintf("capp %s %d", h.Hex(b2), k)}, drain(3)...))
			}
		}
	}
	// 1b. a footer rewrite whose old and new position differ in two bytes
	//     (0x00f0 -> 0x0100): a cut between them leaves a mix of both
	for _, third := range []int{100, 250, 300} {
		g.idx = 0
		mk := func(n int, fill byte) []byte {
			b := g.body(0)[:2]
			for len(b) < n {
				b = append(b, fill)
			}
			return b
		}
		b1, b2, b3 := mk(232, 0x31), mk(8, 0x32), mk(third, 0)
		for k := 0; k <= 8; k++ {
			emit(append([]string{"open 100000 1024", "app " + h.Hex(b1), "app " + h.Hex(b2), "app " + h.Hex(b3),
				"cur", "adv", fmt.Sprintf("cadv %d", k)}, drain(4)...))
		}
	}
	// 1c. a crash while the new segment file of a rollover is created
	for k := 0; k <= 8; k++ {
		emit(append([]string{"open 1000 24", "app a101aaaaaaaaaaaaaaaa", "app a202bbbbbbbbbbbbbbbb", "stat",
			fmt.Sprintf("cseg a303 %d", k)}, drain(3)...))
	}
	nRandom := 300
	if tier == "thorough" {
		nRandom = 4000
	}
	segSizes := []int64{8, 24, 40, 64, 128, 300, 1024}
	for c := 0; c < nRandom; c++ {
		g.idx = 0
		maxSeg := h.Pick(r, segSizes)
		maxSize := 2 * maxSeg
		switch r.Intn(4) {
		case 0:
			maxSize = 2*maxSeg + int64(r.Intn(100))
		case 1:
			maxSize = 100000
		case 2:
			maxSize = 600
			if maxSize < 2*maxSeg {
				maxSize = 2 * maxSeg
			}
		}
		if r.Chance(0.01) {
			maxSize = 2*maxSeg - 1 // NewQueue rejects
		}
		ops := []string{fmt.Sprintf("open %d %d", maxSize, maxSeg)}
		appended := 0
		randomOp := func() {
			x := r.Intn(100)
			switch {
			case x < 40:
				ops = append(ops, "app "+h.Hex(g.pickBody()))
				appended++
			case x < 55:
				ops = append(ops, "cur")
			case x < 72:
				ops = append(ops, "cur", "adv")
			case x < 76:
				ops = append(ops, "adv")
			case x < 86:
				ops = append(ops, fmt.Sprintf("scan %d", r.Intn(5)))
			case x < 92:
				ops = append(ops, "reopen")
			default:
				ops = append(ops, "stat")
			}
		}
		for n := 2 + r.Intn(14); n > 0; n-- {
			randomOp()
		}
		// the crash: every cut of one append, of one new-segment footer, or of one advance
		if maxSeg <= 128 && r.Chance(0.2) {
			b := g.pickBody()
			tailLen := 2 + r.Intn(6)
			var tail []string
			for n := tailLen; n > 0; n-- {
				save := ops
				ops = nil
				randomOp()
				tail = append(tail, ops...)
				ops = save
			}
			for k := 0; k <= 8; k++ {
				cs := append(append([]string{}, ops...), fmt.Sprintf("cseg %s %d", h.Hex(b), k))
				cs = append(cs, tail...)
				cs = append(cs, drain(appended+tailLen+1)...)
				emit(cs)
			}
		} else if r.Chance(0.55) {
			b := g.pickBody()
			appended++
			kmax := 16 + len(b)
			ks := []int{}
			if len(b) <= 32 {
				for k := 0; k <= kmax; k++ {
					ks = append(ks, k)
				}
			} else {
				ks = []int{0, 1, 7, 8, 9, 10, 15, 16, 17, 8 + len(b), 9 + len(b), 15 + len(b), kmax}
				for i := 0; i < 6; i++ {
					ks = append(ks, r.Intn(kmax+1))
				}
			}
			tailLen := 2 + r.Intn(6)
			var tail []string
			for n := tailLen; n > 0; n-- {
				save := ops
				ops = nil
				randomOp()
				tail = append(tail, ops...)
				ops = save
			}
			for _, k := range ks {
				cs := append(append([]string{}, ops...), fmt.Sprintf("capp %s %d", h.Hex(b), k))
				cs = append(cs, tail...)
				cs = append(cs, drain(appended+tailLen+1)...)
				emit(cs)
			}
		} else {
			tailLen := 2 + r.Intn(6)
			var tail []string
			for n := tailLen; n > 0; n-- {
				save := ops
				ops = nil
				randomOp()
				tail = append(tail, ops...)
				ops = save
			}
			for k := 0; k <= 8; k++ {
				cs := append(append([]string{}, ops...), fmt.Sprintf("cadv %d", k))
				cs = append(cs, tail...)
				cs = append(cs, drain(appended+tailLen+1)...)
				emit(cs)
			}
		}
	}
	// malformed stream
	emit([]string{"cur", "open 100 10", "open 100 10", "app zz", "frob", "scan", "app 01", "cur"})
}

func main() {
	h.Main(h.Harness{Gen: gen, NewCase: func() h.CaseRunner { return &runner{} }})
}
