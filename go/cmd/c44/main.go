// Harness for C44: the real tenant user/password service (bcrypt), the real authorization
// service (raw or hashed token store: pkg/crypt/algorithm/influxdb2 hasher + decoder), the real
// session service and the real http.AuthenticationHandler (through httptest), all on one inmem kv.
//
// Ops (strings hex, ids decimal):
//
//	cfg <strong 0|1> <hashed 0|1> <A|B>   fresh world. strong: password strength checking; hashed: tokens stored
//	                                      as influxdb2 PHC hashes; A: inmem.SessionStore (TTL) + session renewal,
//	                                      B: a store without TTL + SessionRenewDisabled
//	strong <0|1>                          SetUserOptions(WithPasswordChecking)
//	cu <name> | us <uid> <a|i> | du <uid> create user / set status / delete user
//	sp <uid> <pw> | cp <uid> <pw> | cas <uid> <old> <new>     SetPassword / ComparePassword / CompareAndSetPassword
//	ct <uid> <token> <a|i> | ut <id> <a|i> | dt <id>          create / update status / delete an API token
//	cs <name> <long|exp>                  CreateSession (1h, or already expired 1h ago) -> key, user id
//	xs <key>                              ExpireSession
//	renew <key> <near|far>                RenewSession with the session OBJECT kept from CreateSession of that key
//	                                      (possibly stale: the session may have ended since); new expiry now+5min
//	                                      (near: does not extend a 1 h session) or now+2h (far); configuration A only
//	req <authorization header|-> <cookie value|->             GET through the AuthenticationHandler
//	                                      -> <status> <inner handler reached> <PermissionSet ok|err|-> <user id>
//	phc <decoders 1|2|3> <256|512> <mangle 0..7> <pw> <q>     AuthorizationHasher(variant, decoder variants).Hash(pw),
//	                                      damage the encoded digest, .Match(digest, q) -> 1|0|err fmt|ident|key
package main

import (
	"context"
	stderrors "errors"
	"net/http"
	"net/http/httptest"
	"strconv"
	"strings"
	"sync"
	"time"

	"github.com/go-crypt/crypt/algorithm"
	influxdb "github.com/influxdata/influxdb/v2"
	"github.com/influxdata/influxdb/v2/authorization"
	icontext "github.com/influxdata/influxdb/v2/context"
	influxhttp "github.com/influxdata/influxdb/v2/http"
	"github.com/influxdata/influxdb/v2/inmem"
	"github.com/influxdata/influxdb/v2/kit/platform"
	"github.com/influxdata/influxdb/v2/kit/platform/errors"
	kithttp "github.com/influxdata/influxdb/v2/kit/transport/http"
	influxdb2algo "github.com/influxdata/influxdb/v2/pkg/crypt/algorithm/influxdb2"
	"github.com/influxdata/influxdb/v2/session"
	"github.com/influxdata/influxdb/v2/tenant"
	"go.uber.org/zap"
	"verif/harness/cmd/c30/tops"
	"verif/harness/h"
)

type counter struct{ next uint64 }

func (c *counter) ID() platform.ID { v := c.next; c.next++; return platform.ID(v) }

// keyGen hands out the session keys s1, s2, …
type keyGen struct{ n int }

func (k *keyGen) Token() (string, error) { k.n++; return "s" + strconv.Itoa(k.n), nil }

// plainStore is a session.Store that never expires anything (configuration B).
type plainStore struct {
	mu sync.Mutex
	m  map[string]string
}

func (p *plainStore) Set(key, val string, _ time.Time) error {
	p.mu.Lock()
	defer p.mu.Unlock()
	p.m[key] = val
	return nil
}
func (p *plainStore) Get(key string) (string, error) {
	p.mu.Lock()
	defer p.mu.Unlock()
	return p.m[key], nil
}
func (p *plainStore) Delete(key string) error {
	p.mu.Lock()
	defer p.mu.Unlock()
	delete(p.m, key)
	return nil
}
func (p *plainStore) ExpireAt(string, time.Time) error { return nil }

type runner struct {
	t        *tops.Runner
	auth     influxdb.AuthorizationService
	sessLong *session.Service
	sessExp  *session.Service
	handler  *influxhttp.AuthenticationHandler
	org      platform.ID
	cfgB     bool
	handles  map[string]*influxdb.Session // session objects as returned by CreateSession
	// what the inner handler saw
	reached bool
	pset    string
	uid     platform.ID
}

func (r *runner) reset(strong, hashed bool, cfgB bool) {
	ctx := context.Background()
	t := tops.New()
	*r = runner{t: t, cfgB: cfgB, handles: map[string]*influxdb.Session{}}
	t.Svc.SetUserOptions(tenant.WithPasswordChecking(strong))
	o := &influxdb.Organization{Name: "o"}
	if err := t.Svc.CreateOrganization(ctx, o); err != nil {
		panic(err)
	}
	r.org = o.ID
	st, err := authorization.NewStore(ctx, t.KV, hashed)
	if err != nil {
		panic(err)
	}
	st.IDGen = &counter{5001}
	r.auth = authorization.NewService(st, t.Svc)
	var store session.Store = inmem.NewSessionStore()
	if cfgB {
		store = &plainStore{m: map[string]string{}}
	}
	storage := session.NewStorage(store)
	ids, keys := &counter{7001}, &keyGen{}
	r.sessLong = session.NewService(storage, t.Svc, t.Svc, r.auth, session.WithSessionLength(time.Hour), session.WithIDGenerator(ids), session.WithTokenGenerator(keys))
	r.sessExp = session.NewService(storage, t.Svc, t.Svc, r.auth, session.WithSessionLength(-time.Hour), session.WithIDGenerator(ids), session.WithTokenGenerator(keys))
	hd := influxhttp.NewAuthenticationHandler(zap.NewNop(), kithttp.NewErrorHandler(zap.NewNop()))
	hd.AuthorizationService = r.auth
	hd.SessionService = r.sessLong
	hd.UserService = t.Svc
	hd.SessionRenewDisabled = cfgB
	hd.Handler = http.HandlerFunc(func(w http.ResponseWriter, rq *http.Request) {
		r.reached = true
		a, err := icontext.GetAuthorizer(rq.Context())
		if err != nil {
			r.pset = "none"
			return
		}
		r.uid = a.GetUserID()
		if _, err := a.PermissionSet(); err != nil {
			r.pset = "err"
		} else {
			r.pset = "ok"
		}
		w.WriteHeader(http.StatusOK)
	})
	r.handler = hd
}

func newCase() h.CaseRunner {
	r := &runner{}
	r.reset(false, false, false)
	return r
}

func (r *runner) Close() {}

func flag(s, t, f string) (bool, bool) {
	if s == t {
		return true, true
	}
	if s == f {
		return false, true
	}
	return false, false
}

// pwErr classifies the error of a password operation by the sentinels it wraps.
func pwErr(err error) string {
	if err == nil {
		return "ok"
	}
	var fl []string
	for _, s := range []struct {
		n string
		e error
	}{{"baduser", errors.EIncorrectUser}, {"badpw", errors.EIncorrectPassword}, {"change", errors.EPasswordChangeRequired},
		{"len", errors.EPasswordLength}, {"chars", errors.EPasswordChars}} {
		if stderrors.Is(err, s.e) {
			fl = append(fl, s.n)
		}
	}
	if len(fl) == 0 {
		return "err other:" + strings.ReplaceAll(errors.ErrorCode(err), " ", "_")
	}
	return "err " + strings.Join(fl, "+")
}

// printable ASCII without space-sensitive surprises for header/cookie values
func plain(s string, extra string) bool {
	for _, c := range []byte(s) {
		ok := (c >= 'a' && c <= 'z') || (c >= 'A' && c <= 'Z') || (c >= '0' && c <= '9') || strings.IndexByte(extra, c) >= 0
		if !ok {
			return false
		}
	}
	return true
}

func status(active bool) influxdb.Status {
	if active {
		return influxdb.Active
	}
	return influxdb.Inactive
}

func (r *runner) Op(t []string) string {
	bad := "bad-op"
	ctx := context.Background()
	if len(t) == 0 {
		return bad
	}
	switch {
	case t[0] == "cfg" && len(t) == 4:
		strong, ok1 := flag(t[1], "1", "0")
		hashed, ok2 := flag(t[2], "1", "0")
		cfgB, ok3 := flag(t[3], "B", "A")
		if !ok1 || !ok2 || !ok3 {
			return bad
		}
		r.reset(strong, hashed, cfgB)
		return "ok"
	case t[0] == "strong" && len(t) == 2:
		b, ok := flag(t[1], "1", "0")
		if !ok {
			return bad
		}
		r.t.Svc.SetUserOptions(tenant.WithPasswordChecking(b))
		return "ok"
	case t[0] == "cu" && len(t) == 2:
		n, ok := tops.NameTok(t[1])
		if !ok {
			return bad
		}
		u := &influxdb.User{Name: n, Status: influxdb.Active}
		if err := r.t.Svc.CreateUser(ctx, u); err != nil {
			return tops.Code(err)
		}
		return "ok " + tops.U(u.ID)
	case t[0] == "us" && len(t) == 3:
		id, ok := tops.IDTok(t[1])
		act, ok2 := flag(t[2], "a", "i")
		if !ok || !ok2 {
			return bad
		}
		st := status(act)
		if _, err := r.t.Svc.UpdateUser(ctx, id, influxdb.UserUpdate{Status: &st}); err != nil {
			return tops.Code(err)
		}
		return "ok"
	case t[0] == "du" && len(t) == 2:
		id, ok := tops.IDTok(t[1])
		if !ok {
			return bad
		}
		if err := r.t.Svc.DeleteUser(ctx, id); err != nil {
			return tops.Code(err)
		}
		return "ok"
	case (t[0] == "sp" || t[0] == "cp") && len(t) == 3:
		id, ok := tops.IDTok(t[1])
		pw, ok2 := tops.NameTok(t[2])
		if !ok || !ok2 {
			return bad
		}
		if t[0] == "sp" {
			return pwErr(r.t.Svc.SetPassword(ctx, id, pw))
		}
		return pwErr(r.t.Svc.ComparePassword(ctx, id, pw))
	case t[0] == "cas" && len(t) == 4:
		id, ok := tops.IDTok(t[1])
		old, ok2 := tops.NameTok(t[2])
		nw, ok3 := tops.NameTok(t[3])
		if !ok || !ok2 || !ok3 {
			return bad
		}
		return pwErr(r.t.Svc.CompareAndSetPassword(ctx, id, old, nw))
	case t[0] == "ct" && len(t) == 4:
		id, ok := tops.IDTok(t[1])
		tok, ok2 := tops.NameTok(t[2])
		act, ok3 := flag(t[3], "a", "i")
		if !ok || !ok2 || !ok3 || tok == "" || !plain(tok, "_-") {
			return bad
		}
		a := &influxdb.Authorization{OrgID: r.org, UserID: id, Token: tok, Status: status(act)}
		if err := r.auth.CreateAuthorization(ctx, a); err != nil {
			return tops.Code(err)
		}
		return "ok " + tops.U(a.ID)
	case t[0] == "ut" && len(t) == 3:
		id, ok := tops.IDTok(t[1])
		act, ok2 := flag(t[2], "a", "i")
		if !ok || !ok2 {
			return bad
		}
		st := status(act)
		if _, err := r.auth.UpdateAuthorization(ctx, id, &influxdb.AuthorizationUpdate{Status: &st}); err != nil {
			return tops.Code(err)
		}
		return "ok"
	case t[0] == "dt" && len(t) == 2:
		id, ok := tops.IDTok(t[1])
		if !ok {
			return bad
		}
		if err := r.auth.DeleteAuthorization(ctx, id); err != nil {
			return tops.Code(err)
		}
		return "ok"
	case t[0] == "cs" && len(t) == 3:
		n, ok := tops.NameTok(t[1])
		long, ok2 := flag(t[2], "long", "exp")
		if !ok || !ok2 {
			return bad
		}
		svc := r.sessExp
		if long {
			svc = r.sessLong
		}
		s, err := svc.CreateSession(ctx, n)
		if err != nil {
			return tops.Code(err)
		}
		r.handles[s.Key] = s
		return "ok " + h.HexS(s.Key) + " " + tops.U(s.UserID)
	case t[0] == "renew" && len(t) == 3:
		k, ok := tops.NameTok(t[1])
		far, ok2 := flag(t[2], "far", "near")
		if !ok || !ok2 {
			return bad
		}
		if r.cfgB {
			return "err unsupported"
		}
		hd, have := r.handles[k]
		if !have {
			return "err nohandle"
		}
		exp := time.Now().Add(influxdb.RenewSessionTime)
		if far {
			exp = time.Now().Add(2 * time.Hour)
		}
		stale := *hd // the caller's copy, as an in-flight request holds it
		if err := r.sessLong.RenewSession(ctx, &stale, exp); err != nil {
			return tops.Code(err)
		}
		return "ok"
	case t[0] == "xs" && len(t) == 2:
		k, ok := tops.NameTok(t[1])
		if !ok {
			return bad
		}
		if err := r.sessLong.ExpireSession(ctx, k); err != nil {
			return tops.Code(err)
		}
		return "ok"
	case t[0] == "phc" && len(t) == 6:
		var ds []influxdb2algo.Variant
		switch t[1] {
		case "1":
			ds = []influxdb2algo.Variant{influxdb2algo.VariantSHA256}
		case "2":
			ds = []influxdb2algo.Variant{influxdb2algo.VariantSHA512}
		case "3":
			ds = []influxdb2algo.Variant{influxdb2algo.VariantSHA256, influxdb2algo.VariantSHA512}
		default:
			return bad
		}
		var v, other influxdb2algo.Variant
		switch t[2] {
		case "256":
			v, other = influxdb2algo.VariantSHA256, influxdb2algo.VariantSHA512
		case "512":
			v, other = influxdb2algo.VariantSHA512, influxdb2algo.VariantSHA256
		default:
			return bad
		}
		m, err := strconv.Atoi(t[3])
		pw, ok1 := tops.NameTok(t[4])
		q, ok2 := tops.NameTok(t[5])
		if err != nil || m < 0 || m > 7 || len(t[3]) != 1 || !ok1 || !ok2 {
			return bad
		}
		// the hasher needs its own variant among its decoders only for decoding, not for hashing
		hs, err := authorization.NewAuthorizationHasher(authorization.WithHasherVariant(v), authorization.WithDecoderVariants([]influxdb2algo.Variant{v}))
		if err != nil {
			panic(err)
		}
		phc, err := hs.Hash(pw)
		if err != nil {
			panic(err)
		}
		sec := strings.SplitN(phc, "$", 3) // "", identifier, key
		if len(sec) != 3 || sec[0] != "" || sec[1] != v.Prefix() || sec[2] == "" {
			return "unexpected-digest:" + phc
		}
		switch m {
		case 1:
			phc = phc[1:]
		case 2:
			phc = "x" + phc
		case 3:
			phc = "$" + other.Prefix() + "$" + sec[2]
		case 4:
			phc = "$influxdb2-md5$" + sec[2]
		case 5:
			phc = "$" + sec[1] + "$"
		case 6:
			phc += "$zz"
		case 7:
			phc = "$" + sec[1]
		}
		dec, err := authorization.NewAuthorizationHasher(authorization.WithHasherVariant(ds[0]), authorization.WithDecoderVariants(ds))
		if err != nil {
			panic(err)
		}
		match, err := dec.Match(phc, q)
		switch {
		case err == nil:
			return h.B(match)
		case stderrors.Is(err, algorithm.ErrEncodedHashKeyEncoding):
			return "err key"
		case stderrors.Is(err, algorithm.ErrEncodedHashInvalidIdentifier):
			return "err ident"
		case stderrors.Is(err, algorithm.ErrEncodedHashInvalidFormat):
			return "err fmt"
		default:
			return "err other"
		}
	case t[0] == "req" && len(t) == 3:
		rq := httptest.NewRequest("GET", "/api/v2/anything", nil)
		if t[1] != "-" {
			hd, ok := tops.NameTok(t[1])
			if !ok || !plain(hd, " _-") {
				return bad
			}
			rq.Header["Authorization"] = []string{hd}
		}
		if t[2] != "-" {
			c, ok := tops.NameTok(t[2])
			if !ok || c == "" || !plain(c, "") {
				return bad
			}
			rq.AddCookie(&http.Cookie{Name: "influxdb-oss-session", Value: c})
		}
		r.reached, r.pset, r.uid = false, "-", 0
		w := httptest.NewRecorder()
		r.handler.ServeHTTP(w, rq)
		return strconv.Itoa(w.Code) + " " + h.B(r.reached) + " " + r.pset + " " + tops.U(r.uid)
	}
	return bad
}

// ---- generator --------------------------------------------------------------

func gen(r *h.Rand, tier string, emit func([]string)) {
	ncases := 220
	if tier == "thorough" {
		ncases = 2000
	}
	p72 := strings.Repeat("Abcdefg1", 9)
	pws := []string{"Password1", "Password2", "password", "PASSWORD1!", "Sh0rt!", "", "12345678", "Aa1!Aa1!", p72, p72 + "x", p72[:71], "Password1 "}
	names := []string{"u1", "u2", "u3"}
	for c := 0; c < ncases; c++ {
		strong := r.Chance(0.3)
		ops := []string{"cfg " + h.B(strong) + " " + h.B(r.Chance(0.5)) + " " + h.Pick(r, []string{"A", "A", "B"})}
		uids := []string{"2001", "2002", "2003", "2004", "0"}
		toks := []string{"tokA", "tokB", "tokC", "tokX"}
		tids := []string{"5001", "5002", "5003", "5004"}
		keys := []string{"s1", "s2", "s3", "s9"}
		nu := 1 + r.Intn(3)
		for i := 0; i < nu; i++ {
			ops = append(ops, "cu "+h.HexS(names[i]))
		}
		uid := func() string {
			if r.Chance(0.85) {
				return uids[r.Intn(nu)]
			}
			return h.Pick(r, uids)
		}
		pw := func() string {
			for {
				p := h.Pick(r, pws)
				if p == "" && strong { // IsPasswordStrong("", true) divides by zero: see notes/C44.md
					continue
				}
				return h.HexS(p)
			}
		}
		// at most ~12 bcrypt operations per case
		budget := 12
		n := 15 + r.Intn(30)
		last := map[string]string{} // generator's guess of the password last set per user
		for i := 0; i < n; i++ {
			switch k := r.Intn(100); {
			case k < 9 && budget > 0:
				u, p := uid(), pw()
				ops = append(ops, "sp "+u+" "+p)
				last[u] = p
				budget--
			case k < 21 && budget > 0:
				u, p := uid(), pw()
				if last[u] != "" && r.Chance(0.7) {
					p = last[u]
				}
				ops = append(ops, "cp "+u+" "+p)
				budget--
			case k < 29 && budget > 1:
				u, o, nw := uid(), pw(), pw()
				if last[u] != "" && r.Chance(0.75) {
					o = last[u]
					if r.Chance(0.1) {
						o = h.HexS(string(h.MustUnHex(o)) + "x")
					}
				}
				ops = append(ops, "cas "+u+" "+o+" "+nw)
				if r.Chance(0.7) {
					last[u] = nw
				}
				budget -= 2
			case k < 31:
				ops = append(ops, "strong "+h.Pick(r, []string{"0", "1"}))
				strong = ops[len(ops)-1] == "strong 1"
			case k < 36:
				ops = append(ops, "us "+uid()+" "+h.Pick(r, []string{"a", "i"}))
			case k < 37:
				ops = append(ops, "du "+uid())
			case k < 39 && nu < 3:
				ops = append(ops, "cu "+h.HexS(names[nu]))
				nu++
			case k < 47:
				ops = append(ops, "ct "+uid()+" "+h.HexS(h.Pick(r, toks[:3]))+" "+h.Pick(r, []string{"a", "a", "a", "i"}))
			case k < 52:
				ops = append(ops, "ut "+h.Pick(r, tids[:3])+" "+h.Pick(r, []string{"a", "i"}))
			case k < 54:
				ops = append(ops, "dt "+h.Pick(r, tids))
			case k < 62:
				ops = append(ops, "cs "+h.HexS(h.Pick(r, append(append([]string{}, names[:nu]...), names[0], "nobody")))+" "+h.Pick(r, []string{"long", "long", "long", "exp"}))
			case k < 64:
				k0 := h.Pick(r, keys)
				ops = append(ops, "xs "+h.HexS(k0))
				// the in-flight request of a signed-out user: renew with the stale object, then use the key again
				if r.Chance(0.6) {
					ops = append(ops, "renew "+h.HexS(k0)+" "+h.Pick(r, []string{"far", "far", "near"}), "req - "+h.HexS(k0))
				}
			case k < 67:
				k0 := h.Pick(r, keys)
				ops = append(ops, "renew "+h.HexS(k0)+" "+h.Pick(r, []string{"far", "near"}))
				if r.Chance(0.5) {
					ops = append(ops, "req - "+h.HexS(k0))
				}
			case k < 73:
				p := h.Pick(r, []string{"tokA", "tokB", "", "a", "tokA ", "Password1"})
				q := p
				if r.Chance(0.4) {
					q = h.Pick(r, []string{"tokA", "tokB", "", "tokA ", "toka"})
				}
				m := "0"
				if r.Chance(0.45) {
					m = strconv.Itoa(1 + r.Intn(7))
				}
				ops = append(ops, "phc "+h.Pick(r, []string{"1", "2", "3", "3"})+" "+h.Pick(r, []string{"256", "512"})+" "+m+" "+h.HexS(p)+" "+h.HexS(q))
			default:
				hd, ck := "-", "-"
				switch r.Intn(12) {
				case 0, 1, 2, 3, 4:
					hd = h.HexS(h.Pick(r, []string{"Token ", "Token ", "Token ", "token ", "TOKEN ", "Bearer ", "bearer ", "Basic ", "Token", "Bearer", " Token ", "Tok en "}) + h.Pick(r, toks))
				case 5:
					hd = h.HexS(h.Pick(r, []string{"", "Token ", "Bearer ", "Bearer", "Token", "x", "Token  tokA", "Token tokA "}))
				case 6, 7, 8, 9:
					ck = h.HexS(h.Pick(r, keys[:3]))
				case 10:
					hd = h.HexS("Token " + h.Pick(r, toks))
					ck = h.HexS(h.Pick(r, keys))
				default:
					hd = h.HexS(h.Pick(r, []string{"Basic abc", "Token nope"}))
					ck = h.HexS(h.Pick(r, keys))
				}
				ops = append(ops, "req "+hd+" "+ck)
			}
		}
		if r.Chance(0.05) {
			ops = append(ops, h.Pick(r, []string{"req", "sp 2001", "cfg 1 1 C", "ct 2001 - a", "req c3a9 -", "zz"}))
		}
		emit(ops)
	}
}

func main() { h.Main(h.Harness{Gen: gen, NewCase: newCase, OpTimeout: 60 * time.Second}) }
