// Harness for C16: drives the real delete-predicate pipeline
//
//	predicate.TagRuleNode / LogicalNode .ToDataType  (predicate/tag_rule.go, logical.go)
//	predicate.Parse                                    (predicate/parser.go, printable AND chains only)
//	tsm1.NewProtobufPredicate(...).Matches / Clone     (tsdb/engine/tsm1/predicate.go)
//
// on keys built exactly as tsdb.PredicateSeriesIDIterator builds them
// (tsdb/index.go: models.MakeKey(name, {\x00=name} ++ tags)).
//
// Ops (one case = one matcher used for many keys, as the engine uses it):
//
//	p  <pred>            pred in prefix form, items joined by ',':  A | O | E:<hexkey>:<hexval> | N:<hexkey>:<hexval>
//	pd <dnode>           raw datatypes tree: A | O | Ceq | Cne | Cxx | T:<hex> | L:<hex>   (well-formedness / totality)
//	m  <hexname> <tags>  tags = hexk:hexv joined by ',' ("-" = none)         -> 0|1
//	mf <hexname> <tags> <hexfield>   same on the composite key series#!~#field -> 0|1
//	c                    replace the matcher by its Clone()
package main

import (
	"bytes"
	"sort"
	"strings"

	influxdb "github.com/influxdata/influxdb/v2"
	"github.com/influxdata/influxdb/v2/models"
	"github.com/influxdata/influxdb/v2/predicate"
	"github.com/influxdata/influxdb/v2/storage/reads/datatypes"
	"github.com/influxdata/influxdb/v2/tsdb/engine/tsm1"
	"verif/harness/h"
)

type runner struct {
	pred   influxdb.Predicate // built from nodes
	parsed influxdb.Predicate // built by predicate.Parse from the rendered text (nil when not rendered)
}

func (r *runner) Close() {}

// ---- predicate construction

type pnode struct {
	kind string // A O E N
	k, v []byte
	l, r *pnode
}

func parsePred(items []string, i *int) *pnode {
	if *i >= len(items) {
		return nil
	}
	it := items[*i]
	*i++
	switch {
	case it == "A" || it == "O":
		l := parsePred(items, i)
		r := parsePred(items, i)
		if l == nil || r == nil {
			return nil
		}
		return &pnode{kind: it, l: l, r: r}
	case strings.HasPrefix(it, "E:") || strings.HasPrefix(it, "N:"):
		f := strings.Split(it, ":")
		if len(f) != 3 {
			return nil
		}
		k, e1 := h.UnHex(f[1])
		v, e2 := h.UnHex(f[2])
		if e1 != nil || e2 != nil {
			return nil
		}
		return &pnode{kind: f[0], k: k, v: v}
	}
	return nil
}

func (n *pnode) hasOr() bool {
	if n.kind == "O" {
		return true
	}
	if n.kind == "A" {
		return n.l.hasOr() || n.r.hasOr()
	}
	return false
}

func (n *pnode) rule() predicate.TagRuleNode {
	op := influxdb.Equal
	if n.kind == "N" {
		op = influxdb.NotEqual
	}
	return predicate.TagRuleNode{Tag: influxdb.Tag{Key: string(n.k), Value: string(n.v)}, Operator: op}
}

// toNode: the predicate package's own AST (only AND exists there)
func (n *pnode) toNode() predicate.Node {
	switch n.kind {
	case "A":
		return predicate.LogicalNode{Operator: predicate.LogicalAnd, Children: [2]predicate.Node{n.l.toNode(), n.r.toNode()}}
	default:
		return n.rule()
	}
}

// toDT: leaves and ANDs through the predicate package, OR by hand
func (n *pnode) toDT() (*datatypes.Node, error) {
	if !n.hasOr() {
		return n.toNode().ToDataType()
	}
	l, err := n.l.toDT()
	if err != nil {
		return nil, err
	}
	r, err := n.r.toDT()
	if err != nil {
		return nil, err
	}
	lg := datatypes.Node_LogicalAnd
	if n.kind == "O" {
		lg = datatypes.Node_LogicalOr
	}
	return &datatypes.Node{
		NodeType: datatypes.Node_TypeLogicalExpression,
		Value:    &datatypes.Node_Logical_{Logical: lg},
		Children: []*datatypes.Node{l, r},
	}, nil
}

func printable(b []byte) bool {
	for _, c := range b {
		if c < 0x20 || c > 0x7e {
			return false
		}
	}
	return true
}

func quote(b []byte) string {
	var sb strings.Builder
	sb.WriteByte('"')
	for _, c := range b {
		if c == '"' || c == '\\' {
			sb.WriteByte('\\')
		}
		sb.WriteByte(c)
	}
	sb.WriteByte('"')
	return sb.String()
}

// render: left-deep AND chains of printable rules as predicate text; "" when not renderable
func (n *pnode) render() string {
	switch n.kind {
	case "A":
		if n.r.kind != "E" && n.r.kind != "N" {
			return ""
		}
		l, r := n.l.render(), n.r.render()
		if l == "" || r == "" {
			return ""
		}
		return l + " AND " + r
	case "E", "N":
		if !printable(n.k) || !printable(n.v) || len(n.k) == 0 || len(n.v) == 0 {
			return ""
		}
		op := " = "
		if n.kind == "N" {
			op = " != "
		}
		key := quote(n.k)
		if string(n.k) == "_measurement" || string(n.k) == "_field" {
			key = string(n.k)
		}
		return key + op + quote(n.v)
	}
	return ""
}

func parseDNode(items []string, i *int) *datatypes.Node {
	if *i >= len(items) {
		return nil
	}
	it := items[*i]
	*i++
	switch {
	case it == "A" || it == "O":
		l := parseDNode(items, i)
		r := parseDNode(items, i)
		if l == nil || r == nil {
			return nil
		}
		lg := datatypes.Node_LogicalAnd
		if it == "O" {
			lg = datatypes.Node_LogicalOr
		}
		return &datatypes.Node{NodeType: datatypes.Node_TypeLogicalExpression,
			Value: &datatypes.Node_Logical_{Logical: lg}, Children: []*datatypes.Node{l, r}}
	case it == "Ceq" || it == "Cne":
		l := parseDNode(items, i)
		r := parseDNode(items, i)
		if l == nil || r == nil {
			return nil
		}
		cmp := datatypes.Node_ComparisonEqual
		if it == "Cne" {
			cmp = datatypes.Node_ComparisonNotEqual
		}
		return &datatypes.Node{NodeType: datatypes.Node_TypeComparisonExpression,
			Value: &datatypes.Node_Comparison_{Comparison: cmp}, Children: []*datatypes.Node{l, r}}
	case strings.HasPrefix(it, "T:"):
		b, err := h.UnHex(it[2:])
		if err != nil {
			return nil
		}
		return &datatypes.Node{NodeType: datatypes.Node_TypeTagRef, Value: &datatypes.Node_TagRefValue{TagRefValue: string(b)}}
	case strings.HasPrefix(it, "L:"):
		b, err := h.UnHex(it[2:])
		if err != nil {
			return nil
		}
		return &datatypes.Node{NodeType: datatypes.Node_TypeLiteral, Value: &datatypes.Node_StringValue{StringValue: string(b)}}
	}
	return nil
}

// ---- keys

func parseTags(s string) (models.Tags, bool) {
	var tags models.Tags
	if s == "-" {
		return tags, true
	}
	for _, kv := range strings.Split(s, ",") {
		f := strings.Split(kv, ":")
		if len(f) != 2 {
			return nil, false
		}
		k, e1 := h.UnHex(f[0])
		v, e2 := h.UnHex(f[1])
		if e1 != nil || e2 != nil {
			return nil, false
		}
		if k == nil {
			k = []byte{}
		}
		if v == nil {
			v = []byte{}
		}
		tags = append(tags, models.Tag{Key: k, Value: v})
	}
	return tags, true
}

// seriesKey: exactly tsdb.PredicateSeriesIDIterator.Next
func seriesKey(name []byte, tags models.Tags) []byte {
	tags = append(models.Tags{{Key: models.MeasurementTagKeyBytes, Value: name}}, tags...)
	return models.MakeKey(name, tags)
}

func (r *runner) Op(t []string) string {
	switch {
	case len(t) == 2 && t[0] == "p":
		r.pred, r.parsed = nil, nil
		i := 0
		items := strings.Split(t[1], ",")
		n := parsePred(items, &i)
		if n == nil || i != len(items) {
			return "bad-op"
		}
		dt, err := n.toDT()
		if err != nil {
			return "err"
		}
		p, err := tsm1.NewProtobufPredicate(&datatypes.Predicate{Root: dt})
		if err != nil {
			return "err"
		}
		r.pred = p
		if txt := n.render(); txt != "" {
			pn, err := predicate.Parse(txt)
			if err != nil {
				return "parse-err"
			}
			pp, err := predicate.New(pn)
			if err != nil || pp == nil {
				return "parse-new-err"
			}
			r.parsed = pp
		}
		return "ok"
	case len(t) == 2 && t[0] == "pd":
		r.pred, r.parsed = nil, nil
		i := 0
		items := strings.Split(t[1], ",")
		n := parseDNode(items, &i)
		if n == nil || i != len(items) {
			return "bad-op"
		}
		p, err := tsm1.NewProtobufPredicate(&datatypes.Predicate{Root: n})
		if err != nil {
			return "err"
		}
		r.pred = p
		return "ok"
	case (len(t) == 3 && t[0] == "m") || (len(t) == 4 && t[0] == "mf"):
		if r.pred == nil {
			return "no-pred"
		}
		name, err := h.UnHex(t[1])
		if err != nil {
			return "bad-op"
		}
		if name == nil {
			name = []byte{}
		}
		tags, ok := parseTags(t[2])
		if !ok {
			return "bad-op"
		}
		key := seriesKey(name, tags)
		if t[0] == "mf" {
			f, err := h.UnHex(t[3])
			if err != nil {
				return "bad-op"
			}
			key = tsm1.SeriesFieldKeyBytes(string(key), string(f))
		}
		a := r.pred.Matches(bytes.Clone(key))
		if r.parsed != nil {
			if b := r.parsed.Matches(bytes.Clone(key)); a != b {
				return "parse-diverges:" + h.B(a) + ":" + h.B(b)
			}
		}
		return h.B(a)
	case len(t) == 1 && t[0] == "c":
		if r.pred == nil {
			return "no-pred"
		}
		r.pred = r.pred.Clone()
		if r.parsed != nil {
			r.parsed = r.parsed.Clone()
		}
		return "ok"
	}
	return "bad-op"
}

// ---- generator

var specials = []byte{',', ' ', '=', '\\', '#', '!', '~', '"', 0x00, 0xff, 'a', 'b', 'c'}

func genStr(r *h.Rand, quirky bool, forName bool) []byte {
	for {
		n := 1 + r.Intn(4)
		if r.Chance(0.1) {
			n = 5 + r.Intn(4)
		}
		b := make([]byte, n)
		for i := range b {
			switch {
			case r.Chance(0.45):
				b[i] = byte('a' + r.Intn(3))
			default:
				b[i] = h.Pick(r, specials)
			}
		}
		if r.Chance(0.04) {
			b = append(b, []byte("#!~")...)
			if quirky {
				b = append(b, '#', 'x')
			}
		}
		if quirky {
			return b
		}
		// the domain KeyOK of the theorem (Props.C16): no trailing backslash,
		// no field separator, names without '='
		if b[len(b)-1] == '\\' || bytes.Contains(b, []byte("#!~#")) {
			continue
		}
		if forName && bytes.IndexByte(b, '=') >= 0 {
			continue
		}
		return b
	}
}

type pools struct {
	keys, vals, names [][]byte
}

func genPools(r *h.Rand, quirky bool) pools {
	var p pools
	seen := map[string]bool{"\x00": true, "_field": true, "_measurement": true, "\xff": true}
	for len(p.keys) < 3+r.Intn(2) {
		k := genStr(r, quirky, false)
		if r.Chance(0.3) {
			k = []byte(h.Pick(r, []string{"t", "u", "host", "k"}))
		}
		if seen[string(k)] {
			continue
		}
		seen[string(k)] = true
		p.keys = append(p.keys, k)
	}
	for len(p.vals) < 3+r.Intn(2) {
		p.vals = append(p.vals, genStr(r, quirky, false))
	}
	for len(p.names) < 2+r.Intn(2) {
		p.names = append(p.names, genStr(r, quirky, true))
	}
	if r.Chance(0.3) { // a name that is also a value / a key
		p.vals = append(p.vals, p.names[0])
	}
	if r.Chance(0.15) && bytes.IndexByte(p.keys[0], '=') < 0 {
		p.names = append(p.names, p.keys[0])
	}
	return p
}

func genLeaf(r *h.Rand, p pools) string {
	op := "E"
	if r.Chance(0.35) {
		op = "N"
	}
	if r.Chance(0.25) {
		v := h.Pick(r, p.names)
		if r.Chance(0.2) {
			v = h.Pick(r, p.vals)
		}
		return op + ":" + h.HexS("_measurement") + ":" + h.Hex(v)
	}
	k := h.Pick(r, p.keys)
	v := h.Pick(r, p.vals)
	if r.Chance(0.03) {
		v = nil // empty literal
	}
	if r.Chance(0.02) {
		k = []byte("_field")
	}
	return op + ":" + h.Hex(k) + ":" + h.Hex(v)
}

func genPred(r *h.Rand, p pools, depth int, andOnlyLeftDeep bool) []string {
	if andOnlyLeftDeep {
		n := 1 + r.Intn(3)
		items := []string{genLeaf(r, p)}
		for i := 1; i < n; i++ {
			items = append(append([]string{"A"}, items...), genLeaf(r, p))
		}
		return items
	}
	if depth == 0 || r.Chance(0.3) {
		return []string{genLeaf(r, p)}
	}
	op := "A"
	if r.Chance(0.5) {
		op = "O"
	}
	out := []string{op}
	out = append(out, genPred(r, p, depth-1, false)...)
	out = append(out, genPred(r, p, depth-1, false)...)
	return out
}

func genSeries(r *h.Rand, p pools, quirky bool) (string, string) {
	name := h.Pick(r, p.names)
	type kv struct{ k, v []byte }
	var tags []kv
	for _, k := range p.keys {
		if r.Chance(0.6) {
			tags = append(tags, kv{k, h.Pick(r, p.vals)})
		}
	}
	if r.Chance(0.15) { // a tag no predicate mentions
		tags = append(tags, kv{[]byte("zz"), []byte("1")})
	}
	sort.Slice(tags, func(i, j int) bool { return bytes.Compare(tags[i].k, tags[j].k) < 0 })
	if quirky && r.Chance(0.1) && len(tags) > 0 { // robustness: duplicate / unsorted / empty value
		switch r.Intn(3) {
		case 0:
			tags = append(tags, kv{tags[0].k, h.Pick(r, p.vals)})
		case 1:
			tags[0], tags[len(tags)-1] = tags[len(tags)-1], tags[0]
		case 2:
			tags[0].v = nil
		}
	}
	var ss []string
	for _, t := range tags {
		ss = append(ss, h.Hex(t.k)+":"+h.Hex(t.v))
	}
	return h.Hex(name), h.Join(ss)
}

func genDNode(r *h.Rand, p pools, depth int) []string {
	if depth == 0 || r.Chance(0.25) {
		if r.Chance(0.5) {
			return []string{"T:" + h.Hex(h.Pick(r, p.keys))}
		}
		return []string{"L:" + h.Hex(h.Pick(r, p.vals))}
	}
	op := h.Pick(r, []string{"A", "O", "Ceq", "Cne", "Ceq", "Cne"})
	out := []string{op}
	out = append(out, genDNode(r, p, depth-1)...)
	out = append(out, genDNode(r, p, depth-1)...)
	return out
}

func gen(r *h.Rand, tier string, emit func([]string)) {
	ncases := 2500
	if tier == "thorough" {
		ncases = 40000
	}
	for c := 0; c < ncases; c++ {
		quirky := c%8 == 7 // outside KeyOK: trailing backslashes, '=' in names, field separator
		p := genPools(r, quirky)
		var ops []string
		npred := 1 + r.Intn(2)
		for j := 0; j < npred; j++ {
			switch {
			case r.Chance(0.06):
				ops = append(ops, "pd "+strings.Join(genDNode(r, p, 2), ","))
			case r.Chance(0.3):
				ops = append(ops, "p "+strings.Join(genPred(r, p, 0, true), ","))
			default:
				ops = append(ops, "p "+strings.Join(genPred(r, p, 1+r.Intn(3), false), ","))
			}
			nm := 6 + r.Intn(14)
			for i := 0; i < nm; i++ {
				name, tags := genSeries(r, p, quirky)
				if r.Chance(0.1) {
					ops = append(ops, "mf "+name+" "+tags+" "+h.Hex(genStr(r, true, false)))
				} else {
					ops = append(ops, "m "+name+" "+tags)
				}
				if r.Chance(0.05) {
					ops = append(ops, "c")
				}
			}
		}
		if r.Chance(0.02) {
			ops = append(ops, "zz 1") // malformed
		}
		emit(ops)
	}
}

func main() {
	h.Main(h.Harness{Gen: gen, NewCase: func() h.CaseRunner { return &runner{} }})
}
