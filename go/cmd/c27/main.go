// Harness for C27: the real replicationQueue.SendWrite (replications/internal,
// through the verif export hook) over the real durable queue and the real
// remotewrite writer, posting to an in-process HTTP server that plays a script.
// SendWrite is called synchronously by the harness (the run() goroutine with its
// timers is not started), so nothing sleeps except a scripted client timeout.
package main

import (
	"context"
	"fmt"
	"io"
	"net/http"
	"net/http/httptest"
	"os"
	"path/filepath"
	"strconv"
	"strings"
	"sync"
	"time"

	influxdb "github.com/influxdata/influxdb/v2"
	"github.com/influxdata/influxdb/v2/kit/platform"
	"github.com/influxdata/influxdb/v2/pkg/durablequeue"
	"github.com/influxdata/influxdb/v2/replications"
	"github.com/influxdata/influxdb/v2/replications/remotewrite"
	"go.uber.org/zap"
	"verif/harness/h"
)

// A scripted client timeout ("t", only ever the first answer of a SendWrite)
// is the one place where real time passes: for that call alone the writer's HTTP
// client timeout is lowered from remotewrite.DefaultTimeout (2 min) to this.
const scriptedTimeout = 300 * time.Millisecond

type store struct {
	rm   *remote
	drop bool
}

// the API token carries the number of the current SendWrite call, so that a request
// that reaches the server late (after a client timeout) is not mistaken for one
// of a later call
func (s *store) GetFullHTTPConfig(context.Context, platform.ID) (*influxdb.ReplicationHTTPConfig, error) {
	s.rm.mu.Lock()
	url, tok := s.rm.srv.URL, fmt.Sprintf("e%d", s.rm.epoch)
	s.rm.mu.Unlock()
	return &influxdb.ReplicationHTTPConfig{RemoteURL: url, RemoteToken: tok, RemoteBucketName: "bkt",
		DropNonRetryableData: s.drop}, nil
}
func (s *store) UpdateResponseInfo(_ context.Context, _ platform.ID, code int, msg string) error {
	if os.Getenv("VERIF_DEBUG") != "" && code != 204 {
		fmt.Fprintf(os.Stderr, "response info: %d %s\n", code, msg)
	}
	return nil
}

type resp struct {
	kind   int // 0 http, 1 close connection, 2 time out
	status int
	hdr    *string
}

func parseScript(s string) ([]resp, bool) {
	var out []resp
	for _, t := range h.Split(s) {
		switch {
		case t == "x":
			out = append(out, resp{kind: 1})
		case t == "t":
			out = append(out, resp{kind: 2})
		case strings.HasPrefix(t, "h"):
			parts := strings.Split(t[1:], ":")
			st, err := strconv.Atoi(parts[0])
			if err != nil || st < 0 || len(parts) > 2 {
				return nil, false
			}
			r := resp{status: st}
			if len(parts) == 2 {
				b, err := h.UnHex(parts[1])
				if err != nil {
					return nil, false
				}
				v := string(b)
				r.hdr = &v
			}
			out = append(out, r)
		default:
			return nil, false
		}
	}
	return out, true
}

type remote struct {
	mu     sync.Mutex
	epoch  int
	script []resp
	got    [][]byte
	srv    *httptest.Server
}

func (rm *remote) handle(w http.ResponseWriter, r *http.Request) {
	body, _ := io.ReadAll(r.Body)
	rm.mu.Lock()
	if r.Header.Get("Authorization") != fmt.Sprintf("Token e%d", rm.epoch) {
		rm.mu.Unlock() // a straggler of an earlier call
		return
	}
	rm.got = append(rm.got, body)
	rs := resp{status: 204}
	if len(rm.script) > 0 {
		rs = rm.script[0]
		rm.script = rm.script[1:]
	}
	rm.mu.Unlock()
	switch rs.kind {
	case 1:
		if hj, ok := w.(http.Hijacker); ok {
			c, _, err := hj.Hijack()
			if err == nil {
				c.Close()
				return
			}
		}
		panic("cannot hijack")
	case 2:
		select {
		case <-r.Context().Done():
		case <-time.After(20 * scriptedTimeout):
		}
		return
	}
	if rs.hdr != nil {
		w.Header().Set("Retry-After", *rs.hdr)
	}
	if rs.status == 204 {
		w.WriteHeader(204)
		return
	}
	w.Header().Set("Content-Type", "application/json")
	w.WriteHeader(rs.status)
	io.WriteString(w, `{"code":"invalid","message":"scripted"}`)
}

type runner struct {
	dir string
	rm  *remote
	v   *replications.VerifRQ
	seg int64
}

var backoffWriter = remotewrite.NewWriter(platform.ID(9), nil, nil, zap.NewNop(), nil)

func tmpBase() string {
	if os.Getenv("TMPDIR") == "" {
		if st, err := os.Stat("/dev/shm"); err == nil && st.IsDir() {
			return "/dev/shm"
		}
	}
	return ""
}

func (r *runner) Close() {
	if r.v != nil {
		r.v.Close()
	}
	if r.rm != nil {
		r.rm.srv.Close()
	}
	if r.dir != "" {
		os.RemoveAll(r.dir)
	}
}

func hexList(xs [][]byte) string {
	ss := make([]string, len(xs))
	for i, x := range xs {
		ss[i] = h.Hex(x)
	}
	return fmt.Sprintf("%d %s", len(xs), h.Join(ss))
}

func (r *runner) Op(t []string) string {
	if len(t) == 0 {
		return "bad-op"
	}
	if t[0] == "backoff" && len(t) == 2 {
		n, err := strconv.ParseUint(t[1], 10, 31)
		if err != nil {
			return "bad-op"
		}
		return fmt.Sprintf("dur %d", int64(remotewrite.VerifBackoff(backoffWriter, int(n))))
	}
	if r.v == nil {
		if t[0] == "init" && len(t) == 4 {
			drop := t[1] == "1"
			age, seg := h.Atoi(t[2]), h.Atoi(t[3])
			dir, err := os.MkdirTemp(tmpBase(), "verif-c27-")
			if err != nil {
				panic(err)
			}
			r.dir, r.seg = dir, seg
			r.rm = &remote{}
			r.rm.srv = httptest.NewServer(http.HandlerFunc(r.rm.handle))
			v, err := replications.VerifNewReplicationQueue(dir, platform.ID(7), 1<<30, seg, age,
				&store{rm: r.rm, drop: drop})
			if err != nil {
				panic(err)
			}
			r.v = v
			return fmt.Sprintf("inited %d", int64(v.MaxAge()))
		}
		switch t[0] {
		case "init", "enq", "send", "age", "purge", "dump":
			return "notinit"
		}
		return "bad-op"
	}
	switch {
	case t[0] == "init" && len(t) == 4:
		return "err"
	case t[0] == "enq" && len(t) == 2:
		b, err := h.UnHex(t[1])
		if err != nil {
			return "bad-op"
		}
		if err := r.v.Enqueue(b); err != nil {
			return "err"
		}
		return "ok"
	case t[0] == "send" && len(t) == 2:
		sc, ok := parseScript(t[1])
		if !ok {
			return "bad-op"
		}
		for i, x := range sc {
			if x.kind == 2 && i > 0 {
				return "bad-op" // a scripted timeout must be the first answer of a call
			}
		}
		timed := len(sc) > 0 && sc[0].kind == 2
		r.rm.mu.Lock()
		r.rm.epoch++
		r.rm.script, r.rm.got = sc, nil
		r.rm.mu.Unlock()
		if timed {
			r.v.SetClientTimeout(scriptedTimeout)
		}
		before := r.v.FailedWrites()
		wait, retry := r.v.SendWrite()
		if timed {
			r.v.SetClientTimeout(remotewrite.DefaultTimeout)
			// a write was attempted and failed: the request is in the socket even if the
			// client gave up first; wait for the handler to see it
			for i := 0; i < 2000 && r.v.FailedWrites() != before; i++ {
				r.rm.mu.Lock()
				n := len(r.rm.got)
				r.rm.mu.Unlock()
				if n > 0 {
					break
				}
				time.Sleep(10 * time.Millisecond)
			}
		}
		r.rm.mu.Lock()
		got := r.rm.got
		r.rm.mu.Unlock()
		return fmt.Sprintf("sent %s %d %s %d", hexList(got), int64(wait), h.B(retry), r.v.FailedWrites())
	case t[0] == "age" && len(t) == 1:
		old := time.Date(2001, 1, 1, 0, 0, 0, 0, time.UTC)
		ents, _ := os.ReadDir(r.v.Dir())
		for _, e := range ents {
			if _, err := strconv.ParseUint(e.Name(), 10, 64); err == nil {
				if err := os.Chtimes(filepath.Join(r.v.Dir(), e.Name()), old, old); err != nil {
					panic(err)
				}
			}
		}
		return "ok"
	case t[0] == "purge" && len(t) == 1:
		r.v.Purge(time.Now())
		return "ok"
	case t[0] == "dump" && len(t) == 1:
		// a second, independent queue opened on a copy of the directory
		cp, err := os.MkdirTemp(tmpBase(), "verif-c27-dump-")
		if err != nil {
			panic(err)
		}
		defer os.RemoveAll(cp)
		ents, _ := os.ReadDir(r.v.Dir())
		for _, e := range ents {
			b, err := os.ReadFile(filepath.Join(r.v.Dir(), e.Name()))
			if err != nil {
				panic(err)
			}
			os.WriteFile(filepath.Join(cp, e.Name()), b, 0600)
		}
		q, err := durablequeue.NewQueue(cp, 1<<30, r.seg, &durablequeue.SharedCount{}, 16, func([]byte) error { return nil })
		if err != nil {
			panic(err)
		}
		if err := q.Open(); err != nil {
			return "err"
		}
		defer q.Close()
		var out [][]byte
		for i := 0; i < 10000; i++ {
			b, err := q.Current()
			if err != nil {
				break
			}
			out = append(out, b)
			q.Advance()
		}
		return "dumped " + hexList(out)
	}
	return "bad-op"
}

// ---------------------------------------------------------------- generator

func respTok(r *h.Rand, allowTimeout *int) string {
	x := r.Intn(100)
	switch {
	case x < 12:
		return "x"
	case x < 14 && *allowTimeout > 0:
		*allowTimeout--
		return "t"
	case x < 45:
		hdrs := []string{"", "0", "00", "1", "5", "30", "3600", "abc", "1.5", "-3", "+7", "9000000000", "99999999999999999999", "1_0"}
		if r.Chance(0.3) {
			return "h429"
		}
		return "h429:" + h.HexS(h.Pick(r, hdrs))
	case x < 60:
		return "h400"
	}
	return "h" + strconv.Itoa(h.Pick(r, []int{200, 201, 401, 403, 404, 408, 413, 422, 500, 502, 503}))
}

func script(r *h.Rand, n int, pFail float64, allowTimeout *int) string {
	var ts []string
	zero := 0
	for i := 0; i < n; i++ {
		if r.Chance(pFail) {
			at := allowTimeout
			if i > 0 {
				at = &zero // a timeout is only ever scripted as the first answer of a call
			}
			ts = append(ts, respTok(r, at))
		} else {
			ts = append(ts, "h204")
		}
	}
	return h.Join(ts)
}

func gen(r *h.Rand, tier string, emit func([]string)) {
	// the backoff table itself
	var bo []string
	for n := 0; n <= 14; n++ {
		bo = append(bo, fmt.Sprintf("backoff %d", n))
	}
	bo = append(bo, "backoff 100", "backoff 100000")
	emit(bo)
	// the max-age clamp
	for _, a := range []int64{-1, 0, 1, 59, 60, 61, 3600, 5184000, 5184001, 1 << 40} {
		emit([]string{fmt.Sprintf("init 0 %d 1024", a), "dump"})
	}
	// a long run of failures: attempts climb past maximumAttempts
	{
		ops := []string{"init 0 0 1024", "enq aa01", "enq aa02"}
		for i := 0; i < 13; i++ {
			ops = append(ops, "send "+h.Pick(r, []string{"h500", "x", "h429", "h503", "h400"}))
		}
		ops = append(ops, "send h204,h500", "send h429:"+h.HexS("0"), "send -", "send -", "dump")
		emit(ops)
	}
	n := 700
	timeouts := 4
	if tier == "thorough" {
		n, timeouts = 6000, 24
	}
	for c := 0; c < n; c++ {
		drop := r.Chance(0.4)
		age := h.Pick(r, []int64{0, -5, 30, 60, 3600, 5184000, 6000000})
		seg := h.Pick(r, []int64{16, 40, 100, 1 << 20})
		ops := []string{fmt.Sprintf("init %s %d %d", h.B(drop), age, seg)}
		idx := 0
		pending := 0
		pFail := h.Pick(r, []float64{0.1, 0.3, 0.6})
		for k := 3 + r.Intn(14); k > 0; k-- {
			x := r.Intn(100)
			switch {
			case x < 42:
				idx++
				b := []byte{byte(0xB0 + idx%64), byte(idx)}
				for m := r.Intn(12); m > 0; m-- {
					b = append(b, byte(r.Intn(256)))
				}
				if r.Chance(0.08) {
					for len(b) < 120 {
						b = append(b, 0x55)
					}
				}
				ops = append(ops, "enq "+h.Hex(b))
				pending++
			case x < 78:
				ops = append(ops, "send "+script(r, r.Intn(pending+2), pFail, &timeouts))
			case x < 84:
				ops = append(ops, "age")
			case x < 90:
				ops = append(ops, "purge")
			default:
				ops = append(ops, "dump")
			}
		}
		ops = append(ops, "dump", "send -", "send -", "send -", "dump")
		emit(ops)
	}
	emit([]string{"dump", "send h204", "init 0 0 100", "init 0 0 100", "enq zz", "send q", "frob", "enq 01", "send -", "dump"})
}

func main() {
	h.Main(h.Harness{Gen: gen, NewCase: func() h.CaseRunner { return &runner{} }})
}
