// Harness for C20: drives the real storage/reads window aggregate cursors
// (reads.NewWindowAggregateResultSet → newMultiShardArrayCursors → new…Window…ArrayCursor)
// over mock shards that feed chosen arrays, and flux/interval.Window on its own op stream.
package main

import (
	"context"
	"fmt"
	"math"
	"strconv"
	"strings"

	"github.com/influxdata/flux/interval"
	"github.com/influxdata/flux/values"
	"github.com/influxdata/influxdb/v2/storage/reads"
	"github.com/influxdata/influxdb/v2/storage/reads/datatypes"
	"verif/harness/cmd/c20/rmock"
	"verif/harness/h"
)

var aggTypes = map[string]datatypes.Aggregate_AggregateType{
	"count": datatypes.Aggregate_AggregateTypeCount,
	"sum":   datatypes.Aggregate_AggregateTypeSum,
	"min":   datatypes.Aggregate_AggregateTypeMin,
	"max":   datatypes.Aggregate_AggregateTypeMax,
	"mean":  datatypes.Aggregate_AggregateTypeMean,
	"first": datatypes.Aggregate_AggregateTypeFirst,
	"last":  datatypes.Aggregate_AggregateTypeLast,
}

func nsDur(n int64) values.Duration {
	if n < 0 {
		return values.MakeDuration(-n, 0, true)
	}
	return values.MakeDuration(n, 0, false)
}

// parseAgg: ill-formed ops are `bad-op` (parsers panic on bad tokens)
func parseAgg(t []string) (at datatypes.Aggregate_AggregateType, every, offset int64, pts []rmock.Pt, shards []rmock.Shard, ok bool) {
	defer func() {
		if recover() != nil {
			ok = false
		}
	}()
	at, ok = aggTypes[t[1]]
	if !ok || len(t[2]) != 1 || !strings.Contains("fiusb", t[2]) {
		return at, 0, 0, nil, nil, false
	}
	typ := t[2][0]
	every, offset = h.Atoi(t[3]), h.Atoi(t[4])
	shape := rmock.ParseShape(t[5])
	ts := h.ParseInts(t[6])
	vs := h.Split(t[7])
	if len(ts) != len(vs) {
		return at, 0, 0, nil, nil, false
	}
	pts = make([]rmock.Pt, len(ts))
	for i := range ts {
		pts[i] = rmock.Pt{T: ts[i], V: rmock.ParseVal(vs[i])}
		if pts[i].V.Typ != typ || (i > 0 && ts[i] < ts[i-1]) {
			return at, 0, 0, nil, nil, false
		}
	}
	shards = rmock.Cut(typ, shape, pts, true)
	return at, every, offset, pts, shards, true
}

func aggOp(t []string) (ans string) {
	at, every, offset, pts, shards, ok := parseAgg(t)
	if !ok {
		return "bad-op"
	}
	req := &datatypes.ReadWindowAggregateRequest{
		Range:       &datatypes.TimestampRange{Start: math.MinInt64, End: math.MaxInt64},
		WindowEvery: every,
		Offset:      offset,
		Aggregate:   []*datatypes.Aggregate{{Type: at}},
	}
	return runReq(req, pts, shards)
}

// monthStop: stop of the calendar window (every = period = `months` months, no offset, UTC)
// containing t, by the real flux interval package
func monthStop(months, t int64) int64 {
	d := values.MakeDuration(0, months, false)
	w, err := interval.NewWindow(d, d, values.MakeDuration(0, 0, false))
	if err != nil {
		panic("bad months")
	}
	return int64(w.GetLatestBounds(values.Time(t)).Stop())
}

// calOp: cal <agg> <typ> <months> <shape> <ts> <vals> <stops>
func calOp(t []string) (ans string) {
	months, err := strconv.ParseInt(t[3], 10, 64)
	if err != nil || months <= 0 {
		return "bad-op"
	}
	at, _, _, pts, shards, ok := parseAgg([]string{"agg", t[1], t[2], "1", "0", t[4], t[5], t[6]})
	if !ok {
		return "bad-op"
	}
	var stops []int64
	func() {
		defer func() { recover() }()
		stops = h.ParseInts(t[7])
	}()
	if len(stops) != len(pts) {
		return "bad-op"
	}
	for i, p := range pts {
		if monthStop(months, p.T) != stops[i] {
			return "bad-op" // the boundaries in the op line are not the real package's
		}
	}
	req := &datatypes.ReadWindowAggregateRequest{
		Range:     &datatypes.TimestampRange{Start: math.MinInt64, End: math.MaxInt64},
		Aggregate: []*datatypes.Aggregate{{Type: at}},
		// the form the Flux reader sends (storage/flux/reader.go windowAggregateIterator.Do)
		Window: &datatypes.Window{
			Every:  &datatypes.Duration{Nsecs: 0, Months: months, Negative: false},
			Offset: &datatypes.Duration{},
		},
	}
	return runReq(req, pts, shards)
}

func runReq(req *datatypes.ReadWindowAggregateRequest, pts []rmock.Pt, shards []rmock.Shard) (ans string) {

	defer func() {
		if r := recover(); r != nil {
			msg := fmt.Sprint(r)
			switch {
			case strings.HasPrefix(msg, "unsupported for aggregate"):
				ans = "err:panic" // newWindowMin/MaxArrayCursor on a string/boolean cursor
			case strings.HasPrefix(msg, "unreachable: <nil>"):
				ans = "err:panic-nil" // newLimitArrayCursor(nil)
			default:
				panic(r)
			}
		}
	}()

	its := rmock.Iters(shards)
	if reads.IsLastDescendingAggregateOptimization(req) {
		// v1/services/storage.Store.WindowAggregate → findShardIDs(desc=true): the shard
		// groups are handed over in descending time order for this request
		for i, j := 0, len(its)-1; i < j; i, j = i+1, j-1 {
			its[i], its[j] = its[j], its[i]
		}
	}
	sc := &rmock.SeriesCur{Rows: []reads.SeriesRow{{Name: []byte("m"), Field: "v", Query: its}}}
	rs, err := reads.NewWindowAggregateResultSet(context.Background(), req, sc)
	if err != nil {
		return "err:new"
	}
	defer rs.Close()
	if !rs.Next() {
		if e := rs.Err(); e != nil {
			if strings.Contains(e.Error(), "unsupported input type") {
				return "err:unsupported"
			}
			return "err:window"
		}
		return "err:no-series"
	}
	cur := rs.Cursor()
	if cur == nil {
		return "ok -"
	}
	defer cur.Close()
	return rmock.Drain(cur, len(pts)+5)
}

func winOp(t []string) (ans string) {
	defer func() {
		if recover() != nil {
			ans = "bad-op"
		}
	}()
	every, period, offset, tm, k := h.Atoi(t[1]), h.Atoi(t[2]), h.Atoi(t[3]), h.Atoi(t[4]), h.Atoi(t[5])
	if period < 0 {
		return "bad-op"
	}
	w, err := interval.NewWindow(nsDur(every), nsDur(period), nsDur(offset))
	if err != nil {
		return "err:window"
	}
	b := w.GetLatestBounds(values.Time(tm))
	for ; k > 0; k-- {
		b = w.NextBounds(b)
	}
	for ; k < 0; k++ {
		b = w.PrevBounds(b)
	}
	return fmt.Sprintf("b %d %d", int64(b.Start()), int64(b.Stop()))
}

func op(t []string) string {
	switch {
	case len(t) == 8 && t[0] == "agg":
		return aggOp(t)
	case len(t) == 6 && t[0] == "win":
		return winOp(t)
	case len(t) == 8 && t[0] == "cal":
		return calOp(t)
	}
	return "bad-op"
}

// ---------------------------------------------------------------- generator

var aggs = []string{"count", "sum", "min", "max", "mean", "first", "last"}

func genVal(r *h.Rand, typ byte, extreme bool) string {
	switch typ {
	case 'f':
		if extreme && r.Chance(0.25) {
			return rmock.FloatTok(h.Pick(r, []float64{math.MaxFloat64, -math.MaxFloat64, math.Inf(1), math.Inf(-1),
				math.Copysign(0, -1), 0, math.SmallestNonzeroFloat64, 1e308, -1e308, math.NaN(), 0.1, 1e16, 1}))
		}
		if r.Chance(0.5) {
			return rmock.FloatTok(float64(r.Range(-5, 5)))
		}
		return rmock.FloatTok(float64(r.Range(-1000, 1000)) / 8 * math.Pow(10, float64(r.Range(-3, 3))))
	case 'i':
		if extreme && r.Chance(0.25) {
			return rmock.IntTok(h.Pick(r, []int64{math.MaxInt64, math.MinInt64, math.MaxInt64 - 1, math.MinInt64 + 1, 1 << 62, -(1 << 62), 1 << 53, (1 << 53) + 1}))
		}
		return rmock.IntTok(r.Range(-6, 6))
	case 'u':
		if extreme && r.Chance(0.25) {
			return rmock.UintTok(h.Pick(r, []uint64{math.MaxUint64, math.MaxUint64 - 1, 1 << 63, (1 << 63) + 1, 1 << 53, (1 << 53) + 1}))
		}
		return rmock.UintTok(uint64(r.Range(0, 9)))
	case 's':
		return rmock.StrTok(h.Pick(r, []string{"", "a", "b", "ab", "zz", "a b", "ü"}))
	default:
		return rmock.BoolTok(r.Bool())
	}
}

// composition of n into positive parts, each at most maxPart
func composition(r *h.Rand, n int, maxPart int) []int64 {
	var out []int64
	for n > 0 {
		k := 1 + r.Intn(maxPart)
		if k > n {
			k = n
		}
		out = append(out, int64(k))
		n -= k
	}
	return out
}

// shapeOf splits a composition into shards (with nil / empty shards sprinkled in)
func shapeOf(r *h.Rand, parts []int64, multi bool) string {
	var shards []string
	cur := []int64{}
	flush := func() {
		shards = append(shards, h.Ints(cur))
		cur = []int64{}
	}
	for _, p := range parts {
		if multi && r.Chance(0.3) {
			if len(cur) > 0 || r.Chance(0.3) {
				flush()
			}
			if r.Chance(0.2) {
				shards = append(shards, h.Pick(r, []string{"-", "0"}))
			}
		}
		cur = append(cur, p)
	}
	if len(cur) > 0 || len(shards) == 0 {
		flush()
	}
	if multi && r.Chance(0.15) {
		shards = append(shards, h.Pick(r, []string{"-", "0"}))
	}
	return strings.Join(shards, "/")
}

func aggLine(agg string, typ byte, every, offset int64, shape string, ts []int64, vals []string) string {
	return "agg " + agg + " " + string(typ) + " " + strconv.FormatInt(every, 10) + " " + strconv.FormatInt(offset, 10) +
		" " + shape + " " + h.Ints(ts) + " " + h.Join(vals)
}

func pickEvery(r *h.Rand) int64 {
	switch {
	case r.Chance(0.08):
		return math.MaxInt64
	case r.Chance(0.04):
		return h.Pick(r, []int64{0, -1, -10, math.MinInt64 + 1})
	case r.Chance(0.1):
		return h.Pick(r, []int64{1_000_000_000, 60_000_000_000, 1 << 40, 1 << 59})
	}
	return h.Pick(r, []int64{1, 2, 3, 4, 5, 7, 10, 16, 60, 100})
}

func pickOffset(r *h.Rand, every int64) int64 {
	e := every
	if e <= 0 || e > 1<<59 {
		e = 10
	}
	return h.Pick(r, []int64{0, 0, 1, -1, 3, e - 1, e, e + 1, -e, -e - 1, 2*e + 1, -7, 1 << 40, -(1 << 40), 1 << 60, -(1 << 60)})
}

func pickBase(r *h.Rand) int64 {
	if r.Chance(0.15) {
		return h.Pick(r, []int64{1 << 60, -(1 << 60), 1_600_000_000_000_000_000, -1_000_000_000_000_000_000})
	}
	return r.Range(-40, 40)
}

func typFor(r *h.Rand, agg string) byte {
	if r.Chance(0.12) {
		return h.Pick(r, []byte{'s', 'b'}) // includes the unsupported combinations
	}
	return h.Pick(r, []byte{'f', 'i', 'u'})
}

func smallAgg(r *h.Rand, agg string) string {
	typ := typFor(r, agg)
	every := pickEvery(r)
	offset := pickOffset(r, every)
	n := r.Intn(13)
	if r.Chance(0.1) {
		n = 0
	}
	t := pickBase(r)
	maxGap := int64(1 + r.Intn(12))
	if every > 100 && every < math.MaxInt64 && r.Chance(0.7) {
		maxGap = every / int64(1+r.Intn(4))
	}
	ts := make([]int64, n)
	vals := make([]string, n)
	extreme := r.Chance(0.3)
	for i := 0; i < n; i++ {
		gap := r.Range(1, maxGap)
		if r.Chance(0.03) {
			gap = 0
		}
		t += gap
		ts[i] = t
		vals[i] = genVal(r, typ, extreme)
	}
	parts := composition(r, n, 1+r.Intn(6))
	return aggLine(agg, typ, every, offset, shapeOf(r, parts, r.Chance(0.5)), ts, vals)
}

// all compositions of n (2^(n-1) of them)
func allCompositions(n int) [][]int64 {
	if n == 0 {
		return [][]int64{{}}
	}
	var out [][]int64
	for first := 1; first <= n; first++ {
		for _, rest := range allCompositions(n - first) {
			out = append(out, append([]int64{int64(first)}, rest...))
		}
	}
	return out
}

// bigAgg: the number of output rows straddles MaxPointsPerBlock (1000) and 2×
func bigAgg(r *h.Rand, agg string, typ byte, windows int) string {
	every := h.Pick(r, []int64{1, 2, 5, 10, 1000})
	offset := pickOffset(r, every)
	t := pickBase(r)
	t -= t % every
	var ts []int64
	var vals []string
	perMax := 1 + r.Intn(3)
	for w := 0; w < windows; w++ {
		k := 1 + r.Intn(perMax)
		if int64(k) > every {
			k = int(every)
		}
		// k distinct offsets inside the window, ascending
		used := map[int64]bool{}
		var offs []int64
		for len(offs) < k {
			o := r.Range(0, every-1)
			if !used[o] {
				used[o] = true
				offs = append(offs, o)
			}
		}
		for i := 0; i < len(offs); i++ {
			for j := i + 1; j < len(offs); j++ {
				if offs[j] < offs[i] {
					offs[i], offs[j] = offs[j], offs[i]
				}
			}
		}
		for _, o := range offs {
			ts = append(ts, t+o)
			vals = append(vals, genVal(r, typ, false))
		}
		t += every
		if r.Chance(0.05) {
			t += every * r.Range(1, 3) // an empty window
		}
	}
	maxPart := int(h.Pick(r, []int64{1, 7, 100, 999, 1000, 1001, 1500, 5000}))
	var parts []int64
	if maxPart == 1000 || maxPart == 1001 || maxPart == 999 {
		// fixed-size arrays, like TSM blocks
		for n := len(ts); n > 0; {
			k := maxPart
			if k > n {
				k = n
			}
			parts = append(parts, int64(k))
			n -= k
		}
	} else {
		parts = composition(r, len(ts), maxPart)
	}
	return aggLine(agg, typ, every, offset, shapeOf(r, parts, r.Chance(0.3)), ts, vals)
}

// calLine: a request over a calendar window (1mo, 3mo, 1y); the window boundaries of every
// point come from the real flux interval package and travel in the op line
func calLine(r *h.Rand, agg string) string {
	typ := h.Pick(r, []byte{'f', 'i', 'u'})
	months := h.Pick(r, []int64{1, 1, 3, 12})
	const day = int64(86400_000_000_000)
	t := int64(1_546_300_800_000_000_000) + r.Range(-400, 400)*day + r.Range(0, day-1) // around 2019-01-01
	n := r.Intn(26)
	ts := make([]int64, n)
	vals := make([]string, n)
	stops := make([]int64, n)
	for i := 0; i < n; i++ {
		t += r.Range(1, 20*months) * day / h.Pick(r, []int64{1, 1, 2, 24})
		if r.Chance(0.15) { // right on / next to a month boundary
			t = monthStop(months, t) - h.Pick(r, []int64{0, 1, 2})
			if i > 0 && t <= ts[i-1] {
				t = ts[i-1] + 1
			}
		}
		ts[i] = t
		vals[i] = genVal(r, typ, false)
		stops[i] = monthStop(months, t)
	}
	parts := composition(r, n, h.Pick(r, []int{1, 3, 7, 1000}))
	return "cal " + agg + " " + string(typ) + " " + strconv.FormatInt(months, 10) + " " + shapeOf(r, parts, r.Chance(0.5)) +
		" " + h.Ints(ts) + " " + h.Join(vals) + " " + h.Ints(stops)
}

func winLine(r *h.Rand) string {
	every := pickEvery(r)
	if every == math.MaxInt64 {
		every = 1 << 58
	}
	period := every
	if r.Chance(0.4) {
		period = h.Pick(r, []int64{0, 1, every / 2, every - 1, every + 1, 2 * every, 3*every + 1})
		if period < 0 {
			period = 0
		}
	}
	if period < 0 {
		period = 0
	}
	offset := pickOffset(r, every)
	t := pickBase(r) + r.Range(-30, 30)
	if r.Chance(0.2) {
		// on or next to a boundary
		e := every
		if e <= 0 {
			e = 1
		}
		t = offset + e*r.Range(-5, 5) + r.Range(-1, 1)
	}
	return fmt.Sprintf("win %d %d %d %d %d", every, period, offset, t, r.Range(-3, 3))
}

func gen(r *h.Rand, tier string, emit func([]string)) {
	nSmall, nBig, nWin := 250, 2, 40
	exhaustN := 5
	if tier == "thorough" {
		nSmall, nBig, nWin = 2500, 12, 400
		exhaustN = 8
	}
	// 1. every chunking of small inputs, every aggregate
	for _, agg := range aggs {
		for n := 0; n <= exhaustN; n++ {
			typ := h.Pick(r, []byte{'f', 'i', 'u'})
			every := h.Pick(r, []int64{2, 3, 5, math.MaxInt64})
			offset := h.Pick(r, []int64{0, 1, -1, 4})
			t := r.Range(-10, 10)
			ts := make([]int64, n)
			vals := make([]string, n)
			for i := range ts {
				t += r.Range(1, 4)
				ts[i] = t
				vals[i] = genVal(r, typ, false)
			}
			var ops []string
			for _, c := range allCompositions(n) {
				ops = append(ops, aggLine(agg, typ, every, offset, h.Ints(c), ts, vals))
			}
			emit(ops)
		}
	}
	// 2. random small inputs
	for _, agg := range aggs {
		var ops []string
		for i := 0; i < nSmall; i++ {
			ops = append(ops, smallAgg(r, agg))
			if len(ops) == 25 {
				emit(ops)
				ops = nil
			}
		}
		if len(ops) > 0 {
			emit(ops)
		}
	}
	// 3. output sizes around MaxPointsPerBlock
	//    every aggregate x every field type it supports gets at least one request whose
	//    output needs a second block (the tmp carry-over path), plus sizes right at the edges
	edge := []int64{998, 999, 1000, 1001, 1002, 1999, 2000, 2001, 2003, 2400}
	for _, agg := range aggs {
		typs := []byte{'f', 'i', 'u'}
		if agg == "count" || agg == "first" || agg == "last" {
			typs = []byte{'f', 'i', 'u', 's', 'b'}
		}
		for _, typ := range typs {
			emit([]string{bigAgg(r, agg, typ, int(h.Pick(r, []int64{1001, 1002, 1003, 1200, 2001, 2100})))})
		}
		for i := 0; i < nBig; i++ {
			emit([]string{bigAgg(r, agg, h.Pick(r, typs), int(h.Pick(r, edge)))})
		}
	}
	// 3b. calendar windows (months), boundaries from the real interval package
	nCal := 8
	if tier == "thorough" {
		nCal = 120
	}
	for _, agg := range aggs {
		var ops []string
		for i := 0; i < nCal; i++ {
			ops = append(ops, calLine(r, agg))
		}
		emit(ops)
	}
	// 4. interval.Window on its own
	for i := 0; i < nWin; i++ {
		var ops []string
		for j := 0; j < 25; j++ {
			ops = append(ops, winLine(r))
		}
		emit(ops)
	}
	// 5. malformed
	emit([]string{"agg count f 1 0 1 1", "agg nope f 1 0 1 1 f0000000000000000", "win 1 2 3", "frob",
		"agg count f 1 0 2 1 f0000000000000000", "agg count f 1 0 1 2,1 f0000000000000000,f0000000000000000"})
}

func main() { h.Main(h.Harness{Gen: gen, NewCase: h.Stateless(op)}) }
