// Package rmock: mock storage for the C20 / C21 / C41 harnesses — series cursors and
// per-shard cursor iterators that hand chosen arrays to the REAL storage/reads code.
// Nothing of the code under test is re-implemented here: a shard is a list of
// arrays; a cursor returns them one by one (restricted to the requested inclusive time
// range, reversed for a descending request) and then empty arrays for ever.
package rmock

import (
	"context"
	"fmt"
	"math"
	"strconv"
	"strings"

	"github.com/influxdata/influxdb/v2/storage/reads"
	"github.com/influxdata/influxdb/v2/tsdb/cursors"
	"verif/harness/h"
)

type Val struct {
	Typ byte // 'f','i','u','s','b'
	F   float64
	I   int64
	U   uint64
	S   string
	B   bool
}

type Pt struct {
	T int64
	V Val
}

// ParseVal parses a tagged value token: f<16hex> i<dec> u<dec> x<hex> b0|b1.
func ParseVal(s string) Val {
	if s == "" {
		panic("empty value token")
	}
	switch s[0] {
	case 'f':
		b, err := strconv.ParseUint(s[1:], 16, 64)
		if err != nil || len(s) != 17 {
			panic("bad float token " + s)
		}
		return Val{Typ: 'f', F: math.Float64frombits(b)}
	case 'i':
		return Val{Typ: 'i', I: h.Atoi(s[1:])}
	case 'u':
		v, err := strconv.ParseUint(s[1:], 10, 64)
		if err != nil {
			panic("bad uint token " + s)
		}
		return Val{Typ: 'u', U: v}
	case 'x':
		if len(s) == 1 {
			return Val{Typ: 's'}
		}
		return Val{Typ: 's', S: string(h.MustUnHex(s[1:]))}
	case 'b':
		if s == "b0" {
			return Val{Typ: 'b'}
		} else if s == "b1" {
			return Val{Typ: 'b', B: true}
		}
	}
	panic("bad value token " + s)
}

func FloatTok(x float64) string {
	b := math.Float64bits(x)
	if x != x {
		b = 0x7ff8000000000000 // canonical NaN (the model's Float.toBits does the same)
	}
	return "f" + h.Hex64(b)
}
func IntTok(x int64) string   { return "i" + strconv.FormatInt(x, 10) }
func UintTok(x uint64) string { return "u" + strconv.FormatUint(x, 10) }
func StrTok(x string) string {
	if x == "" {
		return "x"
	}
	return "x" + h.HexS(x)
}
func BoolTok(x bool) string {
	if x {
		return "b1"
	}
	return "b0"
}
func (v Val) Tok() string {
	switch v.Typ {
	case 'f':
		return FloatTok(v.F)
	case 'i':
		return IntTok(v.I)
	case 'u':
		return UintTok(v.U)
	case 's':
		return StrTok(v.S)
	case 'b':
		return BoolTok(v.B)
	}
	panic("bad typ")
}

// Shard is what one shard holds for one series+field: arrays in ascending time order.
type Shard struct {
	Typ    byte
	Chunks [][]Pt
	// NilCursor: the shard's iterator returns a nil cursor (no data for the series) instead
	// of a cursor that is empty.
	NilCursor bool
}

// restrict applies the inclusive range and the direction of a cursor request.
func restrict(chunks [][]Pt, lo, hi int64, asc bool) [][]Pt {
	var out [][]Pt
	for _, c := range chunks {
		var cc []Pt
		for _, p := range c {
			if p.T >= lo && p.T <= hi {
				cc = append(cc, p)
			}
		}
		if len(cc) > 0 {
			out = append(out, cc)
		}
	}
	if !asc {
		for i, j := 0, len(out)-1; i < j; i, j = i+1, j-1 {
			out[i], out[j] = out[j], out[i]
		}
		for _, c := range out {
			for i, j := 0, len(c)-1; i < j; i, j = i+1, j-1 {
				c[i], c[j] = c[j], c[i]
			}
		}
	}
	return out
}

type base struct {
	chunks [][]Pt
	closed int
}

func (b *base) Close()                     { b.closed++ }
func (b *base) Err() error                 { return nil }
func (b *base) Stats() cursors.CursorStats { return cursors.CursorStats{} }
func (b *base) pop() []Pt {
	if len(b.chunks) == 0 {
		return nil
	}
	c := b.chunks[0]
	b.chunks = b.chunks[1:]
	return c
}

type FloatCur struct{ base }
type IntCur struct{ base }
type UintCur struct{ base }
type StrCur struct{ base }
type BoolCur struct{ base }

func (c *FloatCur) Next() *cursors.FloatArray {
	a := &cursors.FloatArray{}
	for _, p := range c.pop() {
		a.Timestamps = append(a.Timestamps, p.T)
		a.Values = append(a.Values, p.V.F)
	}
	return a
}
func (c *IntCur) Next() *cursors.IntegerArray {
	a := &cursors.IntegerArray{}
	for _, p := range c.pop() {
		a.Timestamps = append(a.Timestamps, p.T)
		a.Values = append(a.Values, p.V.I)
	}
	return a
}
func (c *UintCur) Next() *cursors.UnsignedArray {
	a := &cursors.UnsignedArray{}
	for _, p := range c.pop() {
		a.Timestamps = append(a.Timestamps, p.T)
		a.Values = append(a.Values, p.V.U)
	}
	return a
}
func (c *StrCur) Next() *cursors.StringArray {
	a := &cursors.StringArray{}
	for _, p := range c.pop() {
		a.Timestamps = append(a.Timestamps, p.T)
		a.Values = append(a.Values, p.V.S)
	}
	return a
}
func (c *BoolCur) Next() *cursors.BooleanArray {
	a := &cursors.BooleanArray{}
	for _, p := range c.pop() {
		a.Timestamps = append(a.Timestamps, p.T)
		a.Values = append(a.Values, p.V.B)
	}
	return a
}

// Iter is the cursor iterator of one shard for one series+field.
type Iter struct {
	Sh    Shard
	Calls int
}

func (it *Iter) Stats() cursors.CursorStats { return cursors.CursorStats{} }
func (it *Iter) Next(ctx context.Context, r *cursors.CursorRequest) (cursors.Cursor, error) {
	it.Calls++
	if it.Sh.NilCursor {
		return nil, nil
	}
	// deep copy: the code under test keeps sub-slices of what a cursor returns
	cp := make([][]Pt, len(it.Sh.Chunks))
	for i, c := range it.Sh.Chunks {
		cp[i] = append([]Pt(nil), c...)
	}
	b := base{chunks: restrict(cp, r.StartTime, r.EndTime, r.Ascending)}
	switch it.Sh.Typ {
	case 'f':
		return &FloatCur{b}, nil
	case 'i':
		return &IntCur{b}, nil
	case 'u':
		return &UintCur{b}, nil
	case 's':
		return &StrCur{b}, nil
	case 'b':
		return &BoolCur{b}, nil
	}
	panic("bad shard typ")
}

func Iters(shards []Shard) cursors.CursorIterators {
	var its cursors.CursorIterators
	for _, s := range shards {
		its = append(its, &Iter{Sh: s})
	}
	return its
}

// SeriesCur is a reads.SeriesCursor over fixed rows.
type SeriesCur struct {
	Rows   []reads.SeriesRow
	i      int
	Closed int
}

func (c *SeriesCur) Close()     { c.Closed++ }
func (c *SeriesCur) Err() error { return nil }
func (c *SeriesCur) Next() *reads.SeriesRow {
	if c.i >= len(c.Rows) {
		return nil
	}
	r := &c.Rows[c.i]
	c.i++
	return r
}

// Drain reads any typed array cursor to the end: every returned array, copied, as
// `<ts>:<val>,…` joined by `|`; stops at the first empty array.  max bounds the number
// of Next calls (a cursor that never ends is reported, not waited for).
func Drain(cur cursors.Cursor, max int) string {
	var arrs []string
	for n := 0; ; n++ {
		if n > max {
			return "err:endless"
		}
		var sb strings.Builder
		l := 0
		switch c := cur.(type) {
		case cursors.FloatArrayCursor:
			a := c.Next()
			l = a.Len()
			for i := 0; i < l; i++ {
				if i > 0 {
					sb.WriteByte(',')
				}
				sb.WriteString(strconv.FormatInt(a.Timestamps[i], 10) + ":" + FloatTok(a.Values[i]))
			}
		case cursors.IntegerArrayCursor:
			a := c.Next()
			l = a.Len()
			for i := 0; i < l; i++ {
				if i > 0 {
					sb.WriteByte(',')
				}
				sb.WriteString(strconv.FormatInt(a.Timestamps[i], 10) + ":" + IntTok(a.Values[i]))
			}
		case cursors.UnsignedArrayCursor:
			a := c.Next()
			l = a.Len()
			for i := 0; i < l; i++ {
				if i > 0 {
					sb.WriteByte(',')
				}
				sb.WriteString(strconv.FormatInt(a.Timestamps[i], 10) + ":" + UintTok(a.Values[i]))
			}
		case cursors.StringArrayCursor:
			a := c.Next()
			l = a.Len()
			for i := 0; i < l; i++ {
				if i > 0 {
					sb.WriteByte(',')
				}
				sb.WriteString(strconv.FormatInt(a.Timestamps[i], 10) + ":" + StrTok(a.Values[i]))
			}
		case cursors.BooleanArrayCursor:
			a := c.Next()
			l = a.Len()
			for i := 0; i < l; i++ {
				if i > 0 {
					sb.WriteByte(',')
				}
				sb.WriteString(strconv.FormatInt(a.Timestamps[i], 10) + ":" + BoolTok(a.Values[i]))
			}
		default:
			return fmt.Sprintf("err:cursor-type-%T", cur)
		}
		if l == 0 {
			break
		}
		arrs = append(arrs, sb.String())
	}
	if len(arrs) == 0 {
		return "ok -"
	}
	return "ok " + strings.Join(arrs, "|")
}

// ParseShape parses `3,2/-/4` into per-shard array lengths.
func ParseShape(s string) [][]int64 {
	var out [][]int64
	for _, sh := range strings.Split(s, "/") {
		out = append(out, h.ParseInts(sh))
	}
	return out
}

// Cut distributes pts over shards/arrays by shape (panics unless it adds up).
func Cut(typ byte, shape [][]int64, pts []Pt, nilEmpty bool) []Shard {
	var out []Shard
	k := 0
	for _, sh := range shape {
		s := Shard{Typ: typ}
		for _, n := range sh {
			if n == 0 {
				continue // `0`: a shard whose cursor is empty
			}
			if n < 0 || k+int(n) > len(pts) {
				panic("bad shape")
			}
			s.Chunks = append(s.Chunks, pts[k:k+int(n)])
			k += int(n)
		}
		if len(sh) == 0 && nilEmpty {
			s.NilCursor = true
		}
		out = append(out, s)
	}
	if k != len(pts) {
		panic("shape does not cover the points")
	}
	return out
}
