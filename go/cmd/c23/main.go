// Harness for C23: drives the real InfluxQL reducers of influxql/query
// (New*Reducer, Aggregate*, Emit, the *ReduceSlice functions) the way the stream
// and reduce iterators of iterator.gen.go drive them.
//
//	op:      <fn> <i|f> <params…> <times> <values>       (see lean/Influx/Drv/C23.lean)
//	answer:  t:v,t:v,…   ("-" = nothing emitted) | panic
package main

import (
	"fmt"
	"io"
	"math"
	"strconv"
	"strings"
	"time"

	"github.com/influxdata/influxdb/v2/influxql/query"
	"verif/harness/h"
)

// ---------------------------------------------------------------- rendering

const canonNaN = 0x7ff8000000000000

func fbits(x float64) string {
	if math.IsNaN(x) {
		return h.Hex64(canonNaN)
	}
	return h.Hex64(math.Float64bits(x))
}

func renderF(ps []query.FloatPoint) string {
	if len(ps) == 0 {
		return "-"
	}
	ss := make([]string, len(ps))
	for i, p := range ps {
		ss[i] = strconv.FormatInt(p.Time, 10) + ":" + fbits(p.Value)
	}
	return strings.Join(ss, ",")
}

func renderI(ps []query.IntegerPoint) string {
	if len(ps) == 0 {
		return "-"
	}
	ss := make([]string, len(ps))
	for i, p := range ps {
		ss[i] = strconv.FormatInt(p.Time, 10) + ":" + strconv.FormatInt(p.Value, 10)
	}
	return strings.Join(ss, ",")
}

// ---------------------------------------------------------------- driving the reducers

// stream: Aggregate one point, then Emit (integerStreamIntegerIterator.reduce); at the
// end of the input aggregators that are io.Closers are closed and emitted once more.
func streamII(agg query.IntegerPointAggregator, em query.IntegerPointEmitter, pts []query.IntegerPoint) string {
	var out []query.IntegerPoint
	for i := range pts {
		p := pts[i]
		agg.AggregateInteger(&p)
		out = append(out, em.Emit()...)
	}
	return renderI(out)
}
func streamIF(agg query.IntegerPointAggregator, em query.FloatPointEmitter, pts []query.IntegerPoint) string {
	var out []query.FloatPoint
	for i := range pts {
		p := pts[i]
		agg.AggregateInteger(&p)
		out = append(out, em.Emit()...)
	}
	if c, ok := agg.(io.Closer); ok {
		c.Close()
		out = append(out, em.Emit()...)
	}
	return renderF(out)
}
func streamFF(agg query.FloatPointAggregator, em query.FloatPointEmitter, pts []query.FloatPoint) string {
	var out []query.FloatPoint
	for i := range pts {
		p := pts[i]
		agg.AggregateFloat(&p)
		out = append(out, em.Emit()...)
	}
	if c, ok := agg.(io.Closer); ok {
		c.Close()
		out = append(out, em.Emit()...)
	}
	return renderF(out)
}
func streamFI(agg query.FloatPointAggregator, em query.IntegerPointEmitter, pts []query.FloatPoint) string {
	var out []query.IntegerPoint
	for i := range pts {
		p := pts[i]
		agg.AggregateFloat(&p)
		out = append(out, em.Emit()...)
	}
	return renderI(out)
}

// window: Aggregate every point, Emit once (integerReduceIntegerIterator.reduce).
func windowII(agg query.IntegerPointAggregator, em query.IntegerPointEmitter, pts []query.IntegerPoint) string {
	for i := range pts {
		p := pts[i]
		agg.AggregateInteger(&p)
	}
	return renderI(em.Emit())
}
func windowIF(agg query.IntegerPointAggregator, em query.FloatPointEmitter, pts []query.IntegerPoint) string {
	for i := range pts {
		p := pts[i]
		agg.AggregateInteger(&p)
	}
	return renderF(em.Emit())
}
func windowFF(agg query.FloatPointAggregator, em query.FloatPointEmitter, pts []query.FloatPoint) string {
	for i := range pts {
		p := pts[i]
		agg.AggregateFloat(&p)
	}
	return renderF(em.Emit())
}

func atoi(s string) int64 { return h.Atoi(s) }

func parseFloats(s string) ([]float64, bool) {
	if s == "-" {
		return nil, true
	}
	var out []float64
	for _, p := range strings.Split(s, ",") {
		if len(p) != 16 {
			return nil, false
		}
		v, err := strconv.ParseUint(p, 16, 64)
		if err != nil {
			return nil, false
		}
		out = append(out, math.Float64frombits(v))
	}
	return out, true
}

func parseIntsOK(s string) (xs []int64, ok bool) {
	defer func() {
		if recover() != nil {
			ok = false
		}
	}()
	return h.ParseInts(s), true
}

func num(s string) (int64, bool) {
	v, err := strconv.ParseInt(s, 10, 64)
	return v, err == nil
}
func boolTok(s string) (bool, bool) {
	switch s {
	case "1":
		return true, true
	case "0":
		return false, true
	}
	return false, false
}

func op(t []string) (ans string) {
	if len(t) < 4 {
		return "bad-op"
	}
	fn, ty := t[0], t[1]
	params := t[2 : len(t)-2]
	times, ok := parseIntsOK(t[len(t)-2])
	if !ok {
		return "bad-op"
	}
	var ip []query.IntegerPoint
	var fp []query.FloatPoint
	switch ty {
	case "i":
		vs, ok := parseIntsOK(t[len(t)-1])
		if !ok || len(vs) != len(times) {
			return "bad-op"
		}
		for i := range vs {
			ip = append(ip, query.IntegerPoint{Time: times[i], Value: vs[i]})
		}
	case "f":
		vs, ok := parseFloats(t[len(t)-1])
		if !ok || len(vs) != len(times) {
			return "bad-op"
		}
		for i := range vs {
			fp = append(fp, query.FloatPoint{Time: times[i], Value: vs[i]})
		}
	default:
		return "bad-op"
	}
	isInt := ty == "i"
	// numeric parameters
	ps := make([]int64, len(params))
	for i, s := range params {
		v, ok := num(s)
		if !ok {
			return "bad-op"
		}
		ps[i] = v
	}
	need := func(n int) bool { return len(ps) == n }
	b := func(v int64) (bool, bool) { return v == 1, v == 0 || v == 1 }
	defer func() {
		if r := recover(); r != nil {
			ans = "panic"
		}
	}()
	switch fn {
	case "deriv":
		if !need(3) || ps[0] <= 0 {
			return "bad-op"
		}
		nn, ok1 := b(ps[1])
		asc, ok2 := b(ps[2])
		if !ok1 || !ok2 {
			return "bad-op"
		}
		iv := query.Interval{Duration: time.Duration(ps[0])}
		if isInt {
			r := query.NewIntegerDerivativeReducer(iv, nn, asc)
			return streamIF(r, r, ip)
		}
		r := query.NewFloatDerivativeReducer(iv, nn, asc)
		return streamFF(r, r, fp)
	case "diff":
		if !need(1) {
			return "bad-op"
		}
		nn, ok1 := b(ps[0])
		if !ok1 {
			return "bad-op"
		}
		if isInt {
			r := query.NewIntegerDifferenceReducer(nn)
			return streamII(r, r, ip)
		}
		r := query.NewFloatDifferenceReducer(nn)
		return streamFF(r, r, fp)
	case "elapsed":
		if !need(1) || ps[0] <= 0 {
			return "bad-op"
		}
		iv := query.Interval{Duration: time.Duration(ps[0])}
		if isInt {
			r := query.NewIntegerElapsedReducer(iv)
			return streamII(r, r, ip)
		}
		r := query.NewFloatElapsedReducer(iv)
		return streamFI(r, r, fp)
	case "cumsum":
		if !need(0) {
			return "bad-op"
		}
		if isInt {
			r := query.NewIntegerCumulativeSumReducer()
			return streamII(r, r, ip)
		}
		r := query.NewFloatCumulativeSumReducer()
		return streamFF(r, r, fp)
	case "mavg":
		if !need(1) || ps[0] <= 0 || ps[0] > 1<<20 {
			return "bad-op"
		}
		if isInt {
			r := query.NewIntegerMovingAverageReducer(int(ps[0]))
			return streamIF(r, r, ip)
		}
		r := query.NewFloatMovingAverageReducer(int(ps[0]))
		return streamFF(r, r, fp)
	case "pct":
		if !need(2) || ps[1] <= 0 {
			return "bad-op"
		}
		p := float64(ps[0]) / float64(ps[1])
		if isInt {
			r := query.NewIntegerSliceFuncReducer(query.NewIntegerPercentileReduceSliceFunc(p))
			return windowII(r, r, ip)
		}
		r := query.NewFloatSliceFuncReducer(query.NewFloatPercentileReduceSliceFunc(p))
		return windowFF(r, r, fp)
	case "median":
		if !need(0) {
			return "bad-op"
		}
		if isInt {
			r := query.NewIntegerSliceFuncFloatReducer(query.IntegerMedianReduceSlice)
			return windowIF(r, r, ip)
		}
		r := query.NewFloatSliceFuncReducer(query.FloatMedianReduceSlice)
		return windowFF(r, r, fp)
	case "mode":
		if !need(0) {
			return "bad-op"
		}
		if isInt {
			r := query.NewIntegerSliceFuncReducer(query.IntegerModeReduceSlice)
			return windowII(r, r, ip)
		}
		r := query.NewFloatSliceFuncReducer(query.FloatModeReduceSlice)
		return windowFF(r, r, fp)
	case "spread":
		if !need(0) {
			return "bad-op"
		}
		if isInt {
			r := query.NewIntegerSpreadReducer()
			return windowII(r, r, ip)
		}
		r := query.NewFloatSpreadReducer()
		return windowFF(r, r, fp)
	case "stddev":
		if !need(0) {
			return "bad-op"
		}
		if isInt {
			r := query.NewIntegerSliceFuncFloatReducer(query.IntegerStddevReduceSlice)
			return windowIF(r, r, ip)
		}
		r := query.NewFloatSliceFuncReducer(query.FloatStddevReduceSlice)
		return windowFF(r, r, fp)
	case "distinct":
		if !need(0) {
			return "bad-op"
		}
		if isInt {
			r := query.NewIntegerDistinctReducer()
			return windowII(r, r, ip)
		}
		r := query.NewFloatDistinctReducer()
		return windowFF(r, r, fp)
	case "top", "bottom":
		if !need(1) || ps[0] <= 0 || ps[0] > 1<<20 {
			return "bad-op"
		}
		n := int(ps[0])
		switch {
		case fn == "top" && isInt:
			r := query.NewIntegerTopReducer(n)
			return windowII(r, r, ip)
		case fn == "top":
			r := query.NewFloatTopReducer(n)
			return windowFF(r, r, fp)
		case isInt:
			r := query.NewIntegerBottomReducer(n)
			return windowII(r, r, ip)
		default:
			r := query.NewFloatBottomReducer(n)
			return windowFF(r, r, fp)
		}
	case "integral":
		if !need(6) || ps[0] <= 0 || ps[1] < 0 {
			return "bad-op"
		}
		asc, ok1 := b(ps[5])
		if !ok1 {
			return "bad-op"
		}
		iv := query.Interval{Duration: time.Duration(ps[0])}
		opt := query.IteratorOptions{
			Interval:  query.Interval{Duration: time.Duration(ps[1]), Offset: time.Duration(ps[2])},
			StartTime: ps[3], EndTime: ps[4], Ascending: asc,
		}
		if isInt {
			r := query.NewIntegerIntegralReducer(iv, opt)
			return streamIF(r, r, ip)
		}
		r := query.NewFloatIntegralReducer(iv, opt)
		return streamFF(r, r, fp)
	}
	return "bad-op"
}

// ---------------------------------------------------------------- generator

type series struct {
	times []int64
	ivals []int64
	fvals []float64
}

var floatPool = []float64{0, 1, -1, 2, 3, 0.5, -0.5, 1.5, 2.5, 0.1, 0.2, 0.3, -0.1, 10, 100, -100, 1e9, -1e9,
	1e-9, 3.141592653589793, 2.718281828459045, 1e300, -1e300, 5e-324, 123456789.125, 7, 42, -42}

// top/bottom order two points with one timestamp and the values -0 / +0 by a sort
// detail: no negative zero there
var noNegZero bool

func genSeries(r *h.Rand, n int, isInt, asc, special bool) series {
	var s series
	t := r.Range(-50, 1000)
	step := h.Pick(r, []int64{1, 1, 2, 5, 10, 10, 60, 1000, 1_000_000_000})
	// value style: small domain (many duplicates), walk, wide
	style := r.Intn(4)
	var cur int64 = r.Range(-20, 20)
	for i := 0; i < n; i++ {
		// timestamps: mostly advancing, sometimes equal, sometimes a gap
		switch {
		case i == 0:
		case r.Chance(0.12):
			// equal timestamp
		case r.Chance(0.15):
			t += step * r.Range(2, 7) * dir(asc)
		default:
			t += step * dir(asc)
		}
		s.times = append(s.times, t)
		var v int64
		switch style {
		case 0:
			v = r.Range(-3, 3)
		case 1:
			cur += r.Range(-5, 5)
			v = cur
		case 2:
			v = r.Range(-1000, 1000)
		default:
			v = h.Pick(r, []int64{0, 1, -1, 7, 7, 100, -100, 1 << 40, -(1 << 40), 1<<52 - 1, 12345678901})
		}
		if isInt {
			s.ivals = append(s.ivals, v)
			continue
		}
		var f float64
		switch {
		case style == 3:
			f = h.Pick(r, floatPool)
		case r.Chance(0.3):
			f = float64(v) + h.Pick(r, []float64{0.5, 0.25, 0.1, 0.75})
		default:
			f = float64(v)
		}
		if special && r.Chance(0.06) {
			f = h.Pick(r, []float64{math.NaN(), math.Inf(1), math.Inf(-1), math.Copysign(0, -1)})
		} else if !noNegZero && r.Chance(0.03) {
			f = math.Copysign(0, -1)
		}
		s.fvals = append(s.fvals, f)
	}
	return s
}

func dir(asc bool) int64 {
	if asc {
		return 1
	}
	return -1
}

func (s series) line(fn string, isInt bool, params ...int64) string {
	ty := "f"
	body := ""
	if isInt {
		ty = "i"
		body = h.Ints(s.times) + " " + h.Ints(s.ivals)
	} else {
		fs := make([]string, len(s.fvals))
		for i, f := range s.fvals {
			fs[i] = fbits(f)
		}
		body = h.Ints(s.times) + " " + h.Join(fs)
	}
	ps := ""
	for _, p := range params {
		ps += " " + strconv.FormatInt(p, 10)
	}
	return fmt.Sprintf("%s %s%s %s", fn, ty, ps, body)
}

func b2i(b bool) int64 {
	if b {
		return 1
	}
	return 0
}

func pickLen(r *h.Rand, min int) int {
	switch {
	case r.Chance(0.08):
		return min
	case r.Chance(0.1):
		return min + 1
	case r.Chance(0.75):
		return int(r.Range(int64(min), 12))
	default:
		return int(r.Range(13, 40))
	}
}

var pcts = [][2]int64{{0, 1}, {1, 1}, {5, 1}, {10, 1}, {25, 1}, {33, 1}, {50, 1}, {66, 1}, {75, 1}, {90, 1}, {95, 1},
	{99, 1}, {100, 1}, {101, 1}, {150, 1}, {-5, 1}, {995, 10}, {125, 10}, {1, 10}, {999, 10}, {505, 10}, {1, 3}, {200, 3}}

var units = []int64{1, 1, 2, 3, 10, 1000, 1_000_000_000, 60_000_000_000}

// one op that never triggers a recorded finding
func genPlain(r *h.Rand) string {
	isInt := r.Chance(0.55)
	switch r.Intn(14) {
	case 0:
		asc := r.Chance(0.8)
		s := genSeries(r, pickLen(r, 0), isInt, asc, true)
		return s.line("deriv", isInt, h.Pick(r, units), b2i(r.Bool()), b2i(asc))
	case 1:
		s := genSeries(r, pickLen(r, 0), isInt, r.Chance(0.9), true)
		return s.line("diff", isInt, b2i(r.Bool()))
	case 2:
		s := genSeries(r, pickLen(r, 0), isInt, r.Chance(0.8), true)
		return s.line("elapsed", isInt, h.Pick(r, units))
	case 3:
		s := genSeries(r, pickLen(r, 0), isInt, true, true)
		return s.line("cumsum", isInt)
	case 4:
		n := r.Range(1, 6)
		if r.Chance(0.1) {
			n = r.Range(7, 45)
		}
		s := genSeries(r, pickLen(r, 0), isInt, true, true)
		return s.line("mavg", isInt, n)
	case 5:
		p := h.Pick(r, pcts)
		s := genSeries(r, pickLen(r, 1), isInt, true, false)
		return s.line("pct", isInt, p[0], p[1])
	case 6:
		s := genSeries(r, pickLen(r, 1), isInt, true, false)
		return s.line("median", isInt)
	case 7:
		s := genSeries(r, pickLen(r, 1), isInt, true, false)
		return s.line("spread", isInt)
	case 8:
		s := genSeries(r, pickLen(r, 1), isInt, true, true)
		return s.line("stddev", isInt)
	case 9:
		s := genSeries(r, pickLen(r, 1), isInt, true, false)
		return s.line("distinct", isInt)
	case 10:
		noNegZero = true
		s := genSeries(r, pickLen(r, 1), isInt, true, false)
		noNegZero = false
		return s.line("top", isInt, r.Range(1, 6))
	case 11:
		noNegZero = true
		s := genSeries(r, pickLen(r, 1), isInt, true, false)
		noNegZero = false
		return s.line("bottom", isInt, r.Range(1, 6))
	case 12:
		// integral without GROUP BY time
		return genIntegral(r, isInt, true, false)
	default:
		// integral with GROUP BY time(dur, off)
		return genIntegral(r, isInt, true, true)
	}
}

func genIntegral(r *h.Rand, isInt, asc, windowed bool) string {
	s := genSeries(r, pickLen(r, 0), isInt, asc, false)
	if !windowed {
		st, en := int64(math.MinInt64+2), int64(math.MaxInt64-1)
		if r.Chance(0.3) {
			st, en = -10_000_000_000_000, 10_000_000_000_000
		}
		return s.line("integral", isInt, h.Pick(r, units), 0, 0, st, en, b2i(asc))
	}
	// window sizes around the spacing of the series, so that segments stay inside a
	// window, cross into the next one, or (rarely) jump over one
	span := int64(10)
	if len(s.times) >= 2 {
		d := s.times[1] - s.times[0]
		if d < 0 {
			d = -d
		}
		if d > 0 {
			span = d
		}
	}
	dur := span * h.Pick(r, []int64{1, 2, 3, 5, 8, 20})
	if r.Chance(0.15) {
		dur = h.Pick(r, []int64{1, 2, 7, 10, 100})
	}
	off := int64(0)
	if r.Chance(0.3) {
		off = r.Range(0, dur-1)
	}
	return s.line("integral", isInt, h.Pick(r, units), dur, off, -10_000_000_000_000, 10_000_000_000_000, b2i(asc))
}

func gen(r *h.Rand, tier string, emit func([]string)) {
	nCases, per := 150, 200
	if tier == "thorough" {
		nCases, per = 1500, 200
	}
	// hand-written boundary series first
	emit([]string{
		"diff i 0 1,2,3,4 1,3,6,10",
		"diff i 1 1,2,3,4 5,3,6,1",
		"diff i 0 1,1,2,2,3 1,100,3,200,6",
		"deriv i 10 0 1 0,10,20,25 0,10,30,20",
		"deriv i 10 1 1 0,10,20,25 0,10,30,20",
		"deriv i 1 0 0 30,20,10 5,3,0",
		"elapsed i 1 1,1,5,3 0,0,0,0",
		"elapsed i 3 0,10,20,21 0,0,0,0",
		"cumsum i 1,2,3 5,-2,7",
		"mavg i 2 1,2,3,4 1,3,5,7",
		"mavg i 3 1,2 1,3",
		"mavg i 1 1,2 1,3",
		"pct i 50 1 1,2,3,4 4,3,2,1",
		"pct i 100 1 1,2,3 1,1,1",
		"pct i 0 1 1,2,3 1,1,1",
		"pct i 90 1 1,2,3,4,5,6,7,8,9,10 1,2,3,4,5,6,7,8,9,10",
		"median i 1,2,3 3,1,2",
		"median i 1,2,3,4 3,1,2,10",
		"median i 7 9",
		"spread i 1,2,3 -5,10,3",
		"stddev i 1 5",
		"stddev i 1,2,3,4 2,4,4,6",
		"distinct i 1,2,3,4 7,7,3,7",
		"distinct i 4,3,2,1 1,2,1,3",
		"top i 2 1,2,3,4 5,9,9,1",
		"bottom i 2 1,2,3,4 5,1,1,9",
		"top i 5 1,2 3,4",
		"integral f 1 0 0 -9223372036854775806 9223372036854775806 1 0,10,20 " + fbits(0) + "," + fbits(10) + "," + fbits(0),
		"integral i 1 10 0 -1000 1000000 1 0,15 0,15",
		"integral f 1 10 0 -1000 1000000 1 0,15 " + fbits(0) + "," + fbits(15),
		"integral i 1 20 0 -1000 1000000 1 10,15,20,30 20,10,0,-10",
		"integral i 1 20 0 -1000 1000000 1 10,15,25,30 20,10,0,-10",
	})
	for c := 0; c < nCases; c++ {
		var ops []string
		for i := 0; i < per; i++ {
			ops = append(ops, genPlain(r))
		}
		emit(ops)
	}
	// cases that may reach the recorded findings (kept apart so that they cannot
	// mask anything else): mode ties, integral over descending input
	nMode := nCases / 3
	for c := 0; c < nMode; c++ {
		var ops []string
		for i := 0; i < 40; i++ {
			isInt := r.Chance(0.6)
			s := genSeries(r, pickLen(r, 1), isInt, r.Chance(0.9), false)
			ops = append(ops, s.line("mode", isInt))
		}
		emit(ops)
	}
	// integral over a series read in descending time order (ORDER BY time DESC)
	for c := 0; c < nCases/15+1; c++ {
		var ops []string
		for i := 0; i < 40; i++ {
			ops = append(ops, genIntegral(r, r.Chance(0.5), false, r.Chance(0.6)))
		}
		emit(ops)
	}
	// malformed stream
	emit([]string{
		"deriv i 0 0 1 1,2 1,2", "elapsed i 0 1,2 1,2", "mavg i 0 1,2 1,2", "top i 0 1 1", "pct i 50 0 1 1",
		"nosuch i 1 1", "diff i 2 1 1", "diff i 0 1,2 1", "diff q 0 1 1", "cumsum i 1 x", "median f 1 zz",
	})
}

func main() {
	h.Main(h.Harness{Gen: gen, NewCase: h.Stateless(op), OpTimeout: 20 * time.Second})
}
